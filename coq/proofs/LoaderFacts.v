(* C02 for the loaders (theories/Loaders.v): car.LoadCar and internal carv1.LoadCar, slow (Put) and
   fast (PutMany) path, under any store-fault script.

   For ALL byte strings: what a loader hands to the store is a prefix of what the reader's Next loop
   returns on the same bytes, and the loader reports success only when that loop ended with a clean
   io.EOF, every returned block was handed over, and no store call failed.  Together with the
   readers' truncation / corruption theorems: a cut or corrupted archive is never loaded "successfully". *)
From GoCar Require Import Bytes Varint Cid Header Frame V2Header Scan Loaders.
From GoCarProofs Require Import BytesFacts VarintFacts CidFacts HeaderFacts ScanSound ScanFacts ScanTrunc
  ReadOnlyRoundTrip ScanTruncRoot.

Definition res_of_end (e : err) : res unit := match e with EEof => Ok tt | _ => Err e end.

Lemma concat_map_singleton {A} (l : list A) : concat (map (fun b => [b]) l) = l.
Proof. induction l as [|a l IH]; [reflexivity|]. cbn. rewrite IH. reflexivity. Qed.

Section Generic.
  Variable next : bytes -> res (block * bytes).

  (* the reader's Next loop over the same step function *)
  Fixpoint gscan (fuel : nat) (s : bytes) (acc : list block) : scan_out :=
    match fuel with
    | O => mkscan (rev acc) EFuel
    | S f =>
      match next s with
      | Err e => mkscan (rev acc) e
      | Ok (b, rest) => gscan f rest (b :: acc)
      end
    end.

  Lemma gscan_acc fuel : forall s acc,
    gscan fuel s acc = mkscan (rev acc ++ s_blocks (gscan fuel s [])) (s_end (gscan fuel s [])).
  Proof.
    induction fuel as [|f IH]; intros s acc; cbn [gscan].
    - cbn. rewrite app_nil_r. reflexivity.
    - destruct (next s) as [[b rest]|e].
      + rewrite (IH rest (b :: acc)), (IH rest [b]). cbn [rev s_blocks s_end app].
        rewrite <- app_assoc. reflexivity.
      + cbn. rewrite app_nil_r. reflexivity.
  Qed.

  Lemma gscan_step f s b rest : next s = Ok (b, rest) ->
    gscan (S f) s [] = mkscan (b :: s_blocks (gscan f rest [])) (s_end (gscan f rest [])).
  Proof. intros H. cbn [gscan]. rewrite H. rewrite gscan_acc. reflexivity. Qed.

  Lemma gscan_stop f s e : next s = Err e -> gscan (S f) s [] = mkscan [] e.
  Proof. intros H. cbn [gscan]. rewrite H. reflexivity. Qed.

  Variable fail : option N.

  Lemma store_fails_none calls : fail = None -> store_fails fail calls = false.
  Proof. intros ->. reflexivity. Qed.

  Lemma store_ok_next calls :
    (forall k, fail = Some k -> N.of_nat (length calls) <= k) -> store_fails fail calls = false ->
    forall c k, fail = Some k -> N.of_nat (length (c :: calls)) <= k.
  Proof.
    intros Hpre F c k Hk. specialize (Hpre k Hk). unfold store_fails in F. rewrite Hk in F.
    cbn [length]. lia.
  Qed.

  Lemma load_slow_spec : forall fuel s calls,
    (forall k, fail = Some k -> N.of_nat (length calls) <= k) ->
    exists done,
      fst (load_slow next fail fuel s calls) = rev calls ++ map (fun b => [b]) done /\
      (exists t, done ++ t = s_blocks (gscan fuel s [])) /\
      (snd (load_slow next fail fuel s calls) = Ok tt ->
         done = s_blocks (gscan fuel s []) /\ s_end (gscan fuel s []) = EEof /\
         forall k, fail = Some k -> N.of_nat (length (fst (load_slow next fail fuel s calls))) <= k) /\
      (fail = None ->
         done = s_blocks (gscan fuel s []) /\
         snd (load_slow next fail fuel s calls) = res_of_end (s_end (gscan fuel s []))).
  Proof.
    induction fuel as [|f IH]; intros s calls Hpre.
    - exists []. cbn. rewrite app_nil_r. repeat split; try discriminate. exists []. reflexivity.
    - cbn [load_slow]. destruct (next s) as [[b rest]|e] eqn:En.
      + rewrite (gscan_step f s b rest En). cbn [s_blocks s_end].
        destruct (store_fails fail calls) eqn:F.
        * exists [b]. cbn [fst snd rev map]. split; [reflexivity|].
          split; [exists (s_blocks (gscan f rest [])); reflexivity|].
          split; [discriminate|]. intros Hn. rewrite (store_fails_none calls Hn) in F. discriminate.
        * destruct (IH rest ([b] :: calls) (store_ok_next calls Hpre F [b])) as (done & H1 & (t & H2) & H3 & H4).
          exists (b :: done). split; [rewrite H1; cbn [rev map]; rewrite <- app_assoc; reflexivity|].
          split; [exists t; cbn [app]; rewrite H2; reflexivity|].
          split.
          -- intros Hr. destruct (H3 Hr) as (A & B & C). rewrite A. repeat split; assumption.
          -- intros Hn. destruct (H4 Hn) as (A & B). rewrite A. split; [reflexivity|exact B].
      + rewrite (gscan_stop f s e En). cbn [s_blocks s_end].
        exists []. cbn [map]. rewrite app_nil_r.
        destruct e; cbn [fst snd res_of_end];
          (split; [reflexivity|]); (split; [exists []; reflexivity|]);
          (split; [|intros _; split; reflexivity]); try discriminate.
        intros _. split; [reflexivity|]. split; [reflexivity|].
        intros k Hk. rewrite rev_length. exact (Hpre k Hk).
  Qed.

  Variable bmax : N.

  Lemma load_fast_spec : forall fuel s buf nbuf calls,
    (forall k, fail = Some k -> N.of_nat (length calls) <= k) ->
    exists done,
      concat (fst (load_fast next fail bmax fuel s buf nbuf calls)) = concat (rev calls) ++ done /\
      (exists t, done ++ t = rev buf ++ s_blocks (gscan fuel s [])) /\
      (snd (load_fast next fail bmax fuel s buf nbuf calls) = Ok tt ->
         done = rev buf ++ s_blocks (gscan fuel s []) /\ s_end (gscan fuel s []) = EEof /\
         forall k, fail = Some k ->
           N.of_nat (length (fst (load_fast next fail bmax fuel s buf nbuf calls))) <= k) /\
      (fail = None ->
         snd (load_fast next fail bmax fuel s buf nbuf calls) = res_of_end (s_end (gscan fuel s [])) /\
         (s_end (gscan fuel s []) = EEof -> done = rev buf ++ s_blocks (gscan fuel s []))).
  Proof.
    induction fuel as [|f IH]; intros s buf nbuf calls Hpre.
    - exists []. cbn. rewrite app_nil_r. repeat split; try discriminate.
      exists (rev buf ++ []). reflexivity.
    - cbn [load_fast]. destruct (next s) as [[b rest]|e] eqn:En.
      + rewrite (gscan_step f s b rest En). cbn [s_blocks s_end].
        destruct (bmax <? nbuf + 1) eqn:Eflush.
        * destruct (store_fails fail calls) eqn:F.
          -- exists (rev (b :: buf)). cbn [fst snd].
             split; [cbn [rev]; rewrite concat_app; cbn [concat]; rewrite app_nil_r; reflexivity|].
             split; [exists (s_blocks (gscan f rest [])); cbn [rev]; rewrite <- app_assoc; reflexivity|].
             split; [discriminate|]. intros Hn. rewrite (store_fails_none calls Hn) in F. discriminate.
          -- destruct (IH rest [] 0 (rev (b :: buf) :: calls) (store_ok_next calls Hpre F _))
               as (done & H1 & (t & H2) & H3 & H4).
             cbn [rev app] in H2, H3, H4.
             exists (rev (b :: buf) ++ done).
             split; [rewrite H1; cbn [rev]; rewrite concat_app; cbn [concat]; rewrite app_nil_r, <- !app_assoc; reflexivity|].
             split; [exists t; cbn [rev]; rewrite <- !app_assoc; cbn [app]; rewrite H2; reflexivity|].
             split.
             ++ intros Hr. destruct (H3 Hr) as (A & B & C). rewrite A.
                split; [cbn [rev]; rewrite <- !app_assoc; reflexivity|]. split; assumption.
             ++ intros Hn. destruct (H4 Hn) as (A & B). split; [exact A|].
                intros He. rewrite (B He). cbn [rev]. rewrite <- !app_assoc. reflexivity.
        * destruct (IH rest (b :: buf) (nbuf + 1) calls Hpre) as (done & H1 & (t & H2) & H3 & H4).
          cbn [rev] in H2, H3, H4. rewrite <- !app_assoc in H2, H3, H4. cbn [app] in H2, H3, H4.
          exists done. split; [exact H1|]. split; [exists t; exact H2|]. split; assumption.
      + rewrite (gscan_stop f s e En). cbn [s_blocks s_end]. rewrite app_nil_r.
        assert (Hother : e <> EEof ->
          exists done,
            concat (fst (rev calls, @Err unit e)) = concat (rev calls) ++ done /\
            (exists t, done ++ t = rev buf) /\
            (snd (rev calls, @Err unit e) = Ok tt ->
               done = rev buf /\ e = EEof /\
               forall k, fail = Some k -> N.of_nat (length (fst (rev calls, @Err unit e))) <= k) /\
            (fail = None -> snd (rev calls, @Err unit e) = res_of_end e /\ (e = EEof -> done = rev buf))).
        { intros Hne. exists []. cbn [fst snd]. rewrite app_nil_r. split; [reflexivity|].
          split; [exists (rev buf); reflexivity|]. split; [discriminate|].
          intros _. split; [destruct e; try reflexivity; congruence|]. intros; congruence. }
        destruct e; try (apply Hother; discriminate). clear Hother.
        destruct buf as [|x buf'].
        * exists []. cbn [fst snd rev res_of_end]. rewrite app_nil_r.
          split; [reflexivity|]. split; [exists []; reflexivity|].
          split; [|intros _; split; reflexivity].
          intros _. split; [reflexivity|]. split; [reflexivity|].
          intros k Hk. rewrite rev_length. exact (Hpre k Hk).
        * destruct (store_fails fail calls) eqn:F.
          -- exists (rev (x :: buf')). cbn [fst snd res_of_end].
             split; [cbn [rev]; rewrite concat_app; cbn [concat]; rewrite app_nil_r; reflexivity|].
             split; [exists []; rewrite app_nil_r; reflexivity|].
             split; [discriminate|]. intros Hn. rewrite (store_fails_none calls Hn) in F. discriminate.
          -- exists (rev (x :: buf')). cbn [fst snd res_of_end].
             split; [cbn [rev]; rewrite concat_app; cbn [concat]; rewrite app_nil_r; reflexivity|].
             split; [exists []; rewrite app_nil_r; reflexivity|].
             split; [|intros _; split; reflexivity].
             intros _. split; [reflexivity|]. split; [reflexivity|].
             intros k Hk. rewrite rev_length. exact (store_ok_next calls Hpre F _ k Hk).
  Qed.

  (* both paths, from the start of the sections *)
  Lemma load_loop_spec fast s :
    let out := gscan (S (length s)) s [] in
    let r := load_loop next fail bmax fast s in
    (exists t, concat (fst r) ++ t = s_blocks out) /\
    (snd r = Ok tt -> concat (fst r) = s_blocks out /\ s_end out = EEof /\
                      forall k, fail = Some k -> N.of_nat (length (fst r)) <= k) /\
    (fail = None -> snd r = res_of_end (s_end out) /\
                    (s_end out = EEof \/ fast = false -> concat (fst r) = s_blocks out)).
  Proof.
    cbv zeta. unfold load_loop.
    assert (Hpre : forall k, fail = Some k -> N.of_nat (length (@nil (list block))) <= k) by (intros; cbn; lia).
    destruct fast.
    - destruct (load_fast_spec (S (length s)) s [] 0 [] Hpre) as (done & H1 & (t & H2) & H3 & H4).
      cbn [rev concat app] in H1, H2, H3, H4. rewrite H1.
      split; [exists t; exact H2|]. split; [exact H3|].
      intros Hn. destruct (H4 Hn) as (A & B). split; [exact A|].
      intros [He|Hf]; [exact (B He)|discriminate].
    - destruct (load_slow_spec (S (length s)) s [] Hpre) as (done & H1 & (t & H2) & H3 & H4).
      cbn [rev app] in H1. rewrite H1, concat_map_singleton.
      split; [exists t; exact H2|]. split.
      + intros Hr. destruct (H3 Hr) as (A & B & C). rewrite H1 in C. repeat split; assumption.
      + intros Hn. destruct (H4 Hn) as (A & B). split; [exact B|]. intros _. exact A.
  Qed.

  (* the slow path makes one call per block *)
  Lemma load_slow_calls s :
    fst (load_loop next fail bmax false s) = map (fun b => [b]) (concat (fst (load_loop next fail bmax false s))).
  Proof.
    unfold load_loop.
    assert (Hpre : forall k, fail = Some k -> N.of_nat (length (@nil (list block))) <= k) by (intros; cbn; lia).
    destruct (load_slow_spec (S (length s)) s [] Hpre) as (done & H1 & _).
    cbn [rev app] in H1. rewrite H1, concat_map_singleton. reflexivity.
  Qed.
End Generic.

Lemma scan_blocks_gscan hok o : forall fuel s acc,
  scan_blocks hok fuel o s acc = gscan (next_block hok o) fuel s acc.
Proof.
  induction fuel as [|f IH]; intros s acc; cbn [scan_blocks gscan]; [reflexivity|].
  destruct (next_block hok o s) as [[b rest]|e]; [apply IH|reflexivity].
Qed.
Lemma scan_blocks_root_gscan hok : forall fuel s acc,
  scan_blocks_root hok fuel s acc = gscan (next_block_root hok) fuel s acc.
Proof.
  induction fuel as [|f IH]; intros s acc; cbn [scan_blocks_root gscan]; [reflexivity|].
  destruct (next_block_root hok s) as [[b rest]|e]; [apply IH|reflexivity].
Qed.

(* what "the loader refines the reader's scan [out]" means, for a loader outcome [lo] *)
Definition load_refines (fast : bool) (fail : option N) (roots : list bytes) (out : scan_out)
           (lo : load_out) : Prop :=
  (exists t, concat (l_calls lo) ++ t = s_blocks out) /\
  (forall roots', l_res lo = Ok roots' ->
     roots' = roots /\ concat (l_calls lo) = s_blocks out /\ s_end out = EEof /\
     forall k, fail = Some k -> N.of_nat (length (l_calls lo)) <= k) /\
  (fail = None ->
     l_res lo = match s_end out with EEof => Ok roots | e => Err e end /\
     (s_end out = EEof \/ fast = false -> concat (l_calls lo) = s_blocks out)) /\
  (fast = false -> l_calls lo = map (fun b => [b]) (concat (l_calls lo))).

Lemma load_finish_refines next fast fail bmax roots s :
  load_refines fast fail roots (gscan next (S (length s)) s [])
               (load_finish roots (load_loop next fail bmax fast s)).
Proof.
  destruct (load_loop_spec next fail bmax fast s) as (H1 & H2 & H3).
  unfold load_refines, load_finish. cbn [l_calls l_res].
  split; [exact H1|]. split; [|split].
  - intros roots' Hr. destruct (snd (load_loop next fail bmax fast s)) as [[]|e] eqn:Es; [|discriminate].
    inversion Hr; subst roots'. destruct (H2 eq_refl) as (A & B & C). repeat split; assumption.
  - intros Hn. destruct (H3 Hn) as (A & B). split; [|exact B]. rewrite A.
    destruct (s_end (gscan next (S (length s)) s [])); reflexivity.
  - intros ->. apply load_slow_calls.
Qed.

Section Loaders.
  Variable hok : bytes -> bytes -> option bool.
  Variable hdrdec : bytes -> option (list bytes * N).

  (* ---- for ALL byte strings ------------------------------------------------------------------- *)
  Theorem carv1_load_refines_reader fast fail file :
    match carv1_read_all hok hdrdec default_ropts file with
    | Err e => carv1_load hok hdrdec fast fail file = mkload [] (Err e)
    | Ok (roots, out) => load_refines fast fail roots out (carv1_load hok hdrdec fast fail file)
    end.
  Proof.
    unfold carv1_read_all, carv1_load.
    destruct (read_header hdrdec (o_maxh default_ropts) file) as [[[[roots v] rest] u]|e]; [|reflexivity].
    destruct (negb (v =? 1)); [reflexivity|]. destruct roots as [|r0 rs]; [reflexivity|].
    change (mkropts (o_zeof default_ropts) (o_maxh default_ropts) (o_maxs default_ropts) false) with default_ropts.
    unfold scan_all. rewrite scan_blocks_gscan. apply load_finish_refines.
  Qed.

  Theorem root_load_refines_reader fast fail file :
    match root_read_all hok hdrdec file with
    | Err e => root_load hok hdrdec fast fail file = mkload [] (Err e)
    | Ok (roots, out) => load_refines fast fail roots out (root_load hok hdrdec fast fail file)
    end.
  Proof.
    unfold root_read_all, root_load.
    destruct (read_header_root hdrdec file) as [[[roots v] rest]|e]; [|reflexivity].
    destruct (negb (v =? 1)); [reflexivity|]. destruct roots as [|r0 rs]; [reflexivity|].
    unfold scan_all_root. rewrite scan_blocks_root_gscan. apply load_finish_refines.
  Qed.

  (* success of a loader = the reader's loop ended with a clean EOF, every block it returned went
     to the store, and no store call failed *)
  Theorem carv1_load_ok_complete fast fail file calls roots :
    carv1_load hok hdrdec fast fail file = mkload calls (Ok roots) ->
    carv1_read_all hok hdrdec default_ropts file = Ok (roots, mkscan (concat calls) EEof) /\
    forall k, fail = Some k -> N.of_nat (length calls) <= k.
  Proof.
    intros H. pose proof (carv1_load_refines_reader fast fail file) as R.
    destruct (carv1_read_all hok hdrdec default_ropts file) as [[roots0 out]|e].
    - rewrite H in R. destruct R as (_ & R2 & _). cbn [l_calls l_res] in R2.
      destruct (R2 roots eq_refl) as (-> & A & B & C). destruct out as [bl en]. cbn [s_blocks s_end] in *.
      subst. split; [reflexivity|exact C].
    - rewrite H in R. discriminate.
  Qed.

  Theorem root_load_ok_complete fast fail file calls roots :
    root_load hok hdrdec fast fail file = mkload calls (Ok roots) ->
    root_read_all hok hdrdec file = Ok (roots, mkscan (concat calls) EEof) /\
    forall k, fail = Some k -> N.of_nat (length calls) <= k.
  Proof.
    intros H. pose proof (root_load_refines_reader fast fail file) as R.
    destruct (root_read_all hok hdrdec file) as [[roots0 out]|e].
    - rewrite H in R. destruct R as (_ & R2 & _). cbn [l_calls l_res] in R2.
      destruct (R2 roots eq_refl) as (-> & A & B & C). destruct out as [bl en]. cbn [s_blocks s_end] in *.
      subst. split; [reflexivity|exact C].
    - rewrite H in R. discriminate.
  Qed.

  (* soundness (a) for the loaders: only intact blocks reach the store *)
  Theorem carv1_load_stores_only_intact fast fail file :
    Forall (intact hok) (concat (l_calls (carv1_load hok hdrdec fast fail file))).
  Proof.
    pose proof (carv1_load_refines_reader fast fail file) as R.
    destruct (carv1_read_all hok hdrdec default_ropts file) as [[roots0 out]|e] eqn:E.
    - destruct R as ((t & Ht) & _).
      pose proof (carv1_read_all_intact hok hdrdec default_ropts file roots0 out E) as Hi.
      rewrite <- Ht in Hi. apply Forall_app in Hi. tauto.
    - rewrite R. constructor.
  Qed.

  Theorem root_load_stores_only_intact fast fail file :
    Forall (intact_root hok) (concat (l_calls (root_load hok hdrdec fast fail file))).
  Proof.
    pose proof (root_load_refines_reader fast fail file) as R.
    destruct (root_read_all hok hdrdec file) as [[roots0 out]|e] eqn:E.
    - destruct R as ((t & Ht) & _).
      pose proof (root_read_all_intact hok hdrdec file roots0 out E) as Hi.
      rewrite <- Ht in Hi. apply Forall_app in Hi. tauto.
    - rewrite R. constructor.
  Qed.

  (* a reader outcome that is not a clean end makes the loader fail *)
  Lemma refines_not_eof fast fail roots bl e lo :
    load_refines fast fail roots (mkscan bl e) lo -> e <> EEof ->
    exists calls e', lo = mkload calls (Err e') /\ (exists t, concat calls ++ t = bl) /\
                     (fail = None -> e' = e) /\ (fail = None -> fast = false -> concat calls = bl).
  Proof.
    intros (R1 & R2 & R3 & _) Hne. destruct lo as [calls r]. cbn [l_calls l_res s_blocks s_end] in *.
    destruct r as [roots'|e'].
    - destruct (R2 roots' eq_refl) as (_ & _ & He & _). congruence.
    - exists calls, e'. split; [reflexivity|]. split; [exact R1|]. split.
      + intros Hn. destruct (R3 Hn) as (A & _). destruct e; congruence.
      + intros Hn Hf. destruct (R3 Hn) as (_ & B). apply B. right. exact Hf.
  Qed.

  (* ---- constructed archives ------------------------------------------------------------------- *)
  Definition hdr_len (roots : list bytes) : N := blen (ld (enc_header (Some roots) 1)).

  Theorem carv1_load_trunc fast fail roots bs k :
    hdr_good hdrdec roots -> blen (enc_header (Some roots) 1) <= o_maxh default_ropts ->
    roots <> [] -> Forall (block_ok (o_maxs default_ropts)) bs -> Forall (hash_good hok) bs ->
    k < blen (enc_payload roots bs) ->
    ~ (exists j, (j <= length bs)%nat /\ k = hdr_len roots + blen (enc_sections (firstn j bs))) ->
    exists calls e, carv1_load hok hdrdec fast fail (take k (enc_payload roots bs)) = mkload calls (Err e) /\
      (k < hdr_len roots -> calls = []) /\
      (exists j t, (j <= length bs)%nat /\ concat calls ++ t = firstn j bs /\
                   (hdr_len roots <= k -> (j < length bs)%nat /\ (fail = None -> fast = false -> t = []))) /\
      (hdr_len roots <= k -> fail = None -> e <> EEof).
  Proof.
    intros Hg Hmax Hne Hok Hh Hk Hnb. unfold hdr_len in *.
    assert (H63 : blen (enc_header (Some roots) 1) < two63)
      by (cbn [default_ropts o_maxh] in Hmax; unfold two63; lia).
    pose proof (carv1_load_refines_reader fast fail (take k (enc_payload roots bs))) as R.
    destruct (carv1_read_all_trunc_v1 hok hdrdec default_ropts roots bs k Hg Hmax H63 Hne Hok Hh Hk Hnb)
      as [(Hlt & e & He)|(Hge & j & e & Hj & Hne' & He)]; rewrite He in R.
    - exists [], e. split; [exact R|]. split; [reflexivity|].
      split; [exists 0%nat, []; split; [lia|]; split; [reflexivity|lia]|lia].
    - destruct (refines_not_eof _ _ _ _ _ _ R Hne') as (calls & e' & -> & (t & Ht) & Hn & Hs).
      exists calls, e'. split; [reflexivity|]. split; [lia|].
      split.
      + exists j, t. split; [lia|]. split; [exact Ht|]. intros _. split; [exact Hj|].
        intros Hfn Hf. specialize (Hs Hfn Hf). rewrite Hs in Ht.
        rewrite <- (app_nil_r (firstn j bs)) in Ht at 2. apply app_inv_head in Ht. exact Ht.
      + intros _ Hfn. rewrite (Hn Hfn). exact Hne'.
  Qed.

  Theorem root_load_trunc fast fail roots bs k :
    hdr_good hdrdec roots -> blen (enc_header (Some roots) 1) <= root_max_section ->
    roots <> [] -> Forall root_block_ok bs -> Forall (hash_good hok) bs ->
    k < blen (enc_payload roots bs) ->
    ~ (exists j, (j <= length bs)%nat /\ k = hdr_len roots + blen (enc_sections (firstn j bs))) ->
    exists calls e, root_load hok hdrdec fast fail (take k (enc_payload roots bs)) = mkload calls (Err e) /\
      (k < hdr_len roots -> calls = []) /\
      (exists j t, (j <= length bs)%nat /\ concat calls ++ t = firstn j bs /\
                   (hdr_len roots <= k -> (j < length bs)%nat /\ (fail = None -> fast = false -> t = []))) /\
      (hdr_len roots <= k -> fail = None -> e <> EEof).
  Proof.
    intros Hg Hmax Hne Hok Hh Hk Hnb. unfold hdr_len in *.
    pose proof (root_load_refines_reader fast fail (take k (enc_payload roots bs))) as R.
    destruct (root_read_all_trunc_v1 hok hdrdec roots bs k Hg Hmax Hne Hok Hh Hk Hnb)
      as [(Hlt & e & He)|(Hge & j & e & Hj & Hne' & He)]; rewrite He in R.
    - exists [], e. split; [exact R|]. split; [reflexivity|].
      split; [exists 0%nat, []; split; [lia|]; split; [reflexivity|lia]|lia].
    - destruct (refines_not_eof _ _ _ _ _ _ R Hne') as (calls & e' & -> & (t & Ht) & Hn & Hs).
      exists calls, e'. split; [reflexivity|]. split; [lia|].
      split.
      + exists j, t. split; [lia|]. split; [exact Ht|]. intros _. split; [exact Hj|].
        intros Hfn Hf. specialize (Hs Hfn Hf). rewrite Hs in Ht.
        rewrite <- (app_nil_r (firstn j bs)) in Ht at 2. apply app_inv_head in Ht. exact Ht.
      + intros _ Hfn. rewrite (Hn Hfn). exact Hne'.
  Qed.

  Theorem carv1_load_corrupt fast fail roots pre c d rest :
    hdr_good hdrdec roots -> blen (enc_header (Some roots) 1) <= o_maxh default_ropts ->
    roots <> [] -> Forall (block_ok (o_maxs default_ropts)) pre -> Forall (hash_good hok) pre ->
    block_ok (o_maxs default_ropts) (c, d) -> hash_bad hok (c, d) ->
    exists calls e t,
      carv1_load hok hdrdec fast fail
        (ld (enc_header (Some roots) 1) ++ enc_sections pre ++ enc_section c d ++ rest)
      = mkload calls (Err e) /\ concat calls ++ t = pre /\
      (fail = None -> e = EOther /\ (fast = false -> calls = map (fun b => [b]) pre)).
  Proof.
    intros Hg Hmax Hne Hok Hh Hb Hbad.
    assert (H63 : blen (enc_header (Some roots) 1) < two63)
      by (cbn [default_ropts o_maxh] in Hmax; unfold two63; lia).
    pose proof (carv1_load_refines_reader fast fail
      (ld (enc_header (Some roots) 1) ++ enc_sections pre ++ enc_section c d ++ rest)) as R.
    rewrite (carv1_read_all_corrupt_v1 hok hdrdec default_ropts roots pre c d rest) in R by assumption.
    pose proof R as (_ & _ & _ & Rs).
    destruct (refines_not_eof _ _ _ _ _ _ R) as (calls & e' & E & (t & Ht) & Hn & Hs); [discriminate|].
    exists calls, e', t. split; [exact E|]. split; [exact Ht|].
    intros Hfn. split; [exact (Hn Hfn)|]. intros Hf. rewrite E in Rs. cbn [l_calls] in Rs.
    rewrite (Rs Hf). rewrite (Hs Hfn Hf). reflexivity.
  Qed.

  Theorem root_load_corrupt fast fail roots pre c d rest :
    hdr_good hdrdec roots -> blen (enc_header (Some roots) 1) <= root_max_section ->
    roots <> [] -> Forall root_block_ok pre -> Forall (hash_good hok) pre ->
    root_block_ok (c, d) -> hash_bad hok (c, d) ->
    exists calls e t,
      root_load hok hdrdec fast fail
        (ld (enc_header (Some roots) 1) ++ enc_sections pre ++ enc_section c d ++ rest)
      = mkload calls (Err e) /\ concat calls ++ t = pre /\
      (fail = None -> e = EOther /\ (fast = false -> calls = map (fun b => [b]) pre)).
  Proof.
    intros Hg Hmax Hne Hok Hh Hb Hbad.
    pose proof (root_load_refines_reader fast fail
      (ld (enc_header (Some roots) 1) ++ enc_sections pre ++ enc_section c d ++ rest)) as R.
    rewrite (root_read_all_corrupt_v1 hok hdrdec roots pre c d rest) in R by assumption.
    pose proof R as (_ & _ & _ & Rs).
    destruct (refines_not_eof _ _ _ _ _ _ R) as (calls & e' & E & (t & Ht) & Hn & Hs); [discriminate|].
    exists calls, e', t. split; [exact E|]. split; [exact Ht|].
    intros Hfn. split; [exact (Hn Hfn)|]. intros Hf. rewrite E in Rs. cbn [l_calls] in Rs.
    rewrite (Rs Hf). rewrite (Hs Hfn Hf). reflexivity.
  Qed.

  (* the intact archive loads completely when the store does not fail *)
  Theorem carv1_load_intact fast roots bs :
    hdr_good hdrdec roots -> blen (enc_header (Some roots) 1) <= o_maxh default_ropts ->
    roots <> [] -> Forall (block_ok (o_maxs default_ropts)) bs -> Forall (hash_good hok) bs ->
    exists calls, carv1_load hok hdrdec fast None (enc_payload roots bs) = mkload calls (Ok roots) /\
                  concat calls = bs.
  Proof.
    intros Hg Hmax Hne Hok Hh.
    assert (H63 : blen (enc_header (Some roots) 1) < two63)
      by (cbn [default_ropts o_maxh] in Hmax; unfold two63; lia).
    pose proof (carv1_load_refines_reader fast None (enc_payload roots bs)) as R.
    rewrite (carv1_read_all_v1 hok hdrdec default_ropts roots bs) in R;
      [|repeat split; try assumption; intros _; assumption|assumption|assumption].
    destruct R as (_ & _ & R3 & _). destruct (R3 eq_refl) as (A & B). cbn [s_end s_blocks] in *.
    destruct (carv1_load hok hdrdec fast None (enc_payload roots bs)) as [calls r]. cbn [l_calls l_res] in *.
    exists calls. split; [rewrite A; reflexivity|]. apply B. left. reflexivity.
  Qed.

  Theorem root_load_intact fast roots bs :
    hdr_good hdrdec roots -> blen (enc_header (Some roots) 1) <= root_max_section ->
    roots <> [] -> Forall root_block_ok bs -> Forall (hash_good hok) bs ->
    exists calls, root_load hok hdrdec fast None (enc_payload roots bs) = mkload calls (Ok roots) /\
                  concat calls = bs.
  Proof.
    intros Hg Hmax Hne Hok Hh.
    pose proof (root_load_refines_reader fast None (enc_payload roots bs)) as R.
    assert (E : root_read_all hok hdrdec (enc_payload roots bs) = Ok (roots, mkscan bs EEof))
      by exact (root_read_all_v1 hok hdrdec (Some roots) bs Hg Hmax Hne Hok Hh).
    rewrite E in R.
    destruct R as (_ & _ & R3 & _). destruct (R3 eq_refl) as (A & B). cbn [s_end s_blocks] in *.
    destruct (root_load hok hdrdec fast None (enc_payload roots bs)) as [calls r]. cbn [l_calls l_res] in *.
    exists calls. split; [rewrite A; reflexivity|]. apply B. left. reflexivity.
  Qed.
End Loaders.

(* ---- non-vacuity: the example archive of ScanTrunc through both loaders, both paths ------------------ *)
Definition ex_b1 : block := (ex_cid1, [x61; x62]).
Definition ex_b2 : block := (ex_cid2, [x63]).
Definition ex_cut : bytes :=
  take (blen (enc_payload [ex_cid1] ex_blocks) - 1) (enc_payload [ex_cid1] ex_blocks).

Example ex_load_slow_intact :
  carv1_load ex_hok dec_header_canon false None (enc_payload [ex_cid1] ex_blocks)
  = mkload [[ex_b1]; [ex_b2]] (Ok [ex_cid1]).
Proof. vm_compute. reflexivity. Qed.
Example ex_load_fast_intact :
  root_load ex_hok dec_header_canon true None (enc_payload [ex_cid1] ex_blocks)
  = mkload [[ex_b1; ex_b2]] (Ok [ex_cid1]).
Proof. vm_compute. reflexivity. Qed.
(* a cut inside the second section: the slow path has stored the first block, the fast path nothing;
   both return the reader's error *)
Example ex_load_slow_cut :
  root_load ex_hok dec_header_canon false None ex_cut = mkload [[ex_b1]] (Err EUnexpectedEof).
Proof. vm_compute. reflexivity. Qed.
Example ex_load_fast_cut :
  carv1_load ex_hok dec_header_canon true None ex_cut = mkload [] (Err EUnexpectedEof).
Proof. vm_compute. reflexivity. Qed.
(* a failing store call ends the load with the store's error *)
Example ex_load_store_fault :
  root_load ex_hok dec_header_canon false (Some 1) (enc_payload [ex_cid1] ex_blocks)
  = mkload [[ex_b1]; [ex_b2]] (Err EOther).
Proof. vm_compute. reflexivity. Qed.
Example ex_load_corrupt :
  carv1_load ex_hok dec_header_canon false None
    (ld (enc_header (Some [ex_cid1]) 1) ++ enc_sections [ex_b1] ++ enc_section ex_cid2 [x64] ++ [])
  = mkload [[ex_b1]] (Err EOther).
Proof. vm_compute. reflexivity. Qed.
(* the batching of the fast path, with a batch limit of 1: PutMany as soon as the buffer holds 2 *)
Example ex_load_fast_batches :
  load_loop (next_block ex_hok default_ropts) None 1 true (enc_sections [ex_b1; ex_b2; ex_b1])
  = ([[ex_b1; ex_b2]; [ex_b1]], Ok tt).
Proof. vm_compute. reflexivity. Qed.
Example ex_load_fast_batches_cut :
  load_loop (next_block ex_hok default_ropts) None 1 true
    (enc_sections [ex_b1; ex_b2; ex_b1] ++ [x05; x01])
  = ([[ex_b1; ex_b2]], Err EUnexpectedEof).
Proof. vm_compute. reflexivity. Qed.

(* ---- the internal and the root-module statements side by side (props/C02.v states them together) ---- *)
Theorem readers_read_back hok hdrdec roots bs :
  hdr_good hdrdec roots -> roots <> [] -> Forall (hash_good hok) bs ->
  (forall o, blen (enc_header (Some roots) 1) <= o_maxh o -> blen (enc_header (Some roots) 1) < two63 ->
     Forall (block_ok (o_maxs o)) bs ->
     carv1_read_all hok hdrdec o (enc_payload roots bs) = Ok (roots, mkscan bs EEof)) /\
  (blen (enc_header (Some roots) 1) <= root_max_section -> Forall root_block_ok bs ->
     root_read_all hok hdrdec (enc_payload roots bs) = Ok (roots, mkscan bs EEof)).
Proof.
  intros Hg Hne Hh. split.
  - intros o Hmax H63 Hok. apply carv1_read_all_v1; try assumption.
    repeat split; try assumption. intros _. assumption.
  - intros Hmax Hok. exact (root_read_all_v1 hok hdrdec (Some roots) bs Hg Hmax Hne Hok Hh).
Qed.

Theorem loaders_refine_readers hok hdrdec fast fail file :
  match carv1_read_all hok hdrdec default_ropts file with
  | Err e => carv1_load hok hdrdec fast fail file = mkload [] (Err e)
  | Ok (roots, out) => load_refines fast fail roots out (carv1_load hok hdrdec fast fail file)
  end /\
  match root_read_all hok hdrdec file with
  | Err e => root_load hok hdrdec fast fail file = mkload [] (Err e)
  | Ok (roots, out) => load_refines fast fail roots out (root_load hok hdrdec fast fail file)
  end.
Proof. split; [apply carv1_load_refines_reader|apply root_load_refines_reader]. Qed.

Theorem loaders_ok_complete hok hdrdec fast fail file calls roots :
  (carv1_load hok hdrdec fast fail file = mkload calls (Ok roots) ->
     carv1_read_all hok hdrdec default_ropts file = Ok (roots, mkscan (concat calls) EEof) /\
     forall k, fail = Some k -> N.of_nat (length calls) <= k) /\
  (root_load hok hdrdec fast fail file = mkload calls (Ok roots) ->
     root_read_all hok hdrdec file = Ok (roots, mkscan (concat calls) EEof) /\
     forall k, fail = Some k -> N.of_nat (length calls) <= k).
Proof. split; [apply carv1_load_ok_complete|apply root_load_ok_complete]. Qed.

Theorem loaders_store_only_intact hok hdrdec fast fail file :
  Forall (intact hok) (concat (l_calls (carv1_load hok hdrdec fast fail file))) /\
  Forall (intact_root hok) (concat (l_calls (root_load hok hdrdec fast fail file))).
Proof. split; [apply carv1_load_stores_only_intact|apply root_load_stores_only_intact]. Qed.

Theorem loaders_corrupt hok hdrdec fast fail roots pre c d rest :
  hdr_good hdrdec roots -> roots <> [] -> Forall (hash_good hok) pre -> hash_bad hok (c, d) ->
  (blen (enc_header (Some roots) 1) <= o_maxh default_ropts ->
   Forall (block_ok (o_maxs default_ropts)) pre -> block_ok (o_maxs default_ropts) (c, d) ->
   exists calls e t,
     carv1_load hok hdrdec fast fail
       (ld (enc_header (Some roots) 1) ++ enc_sections pre ++ enc_section c d ++ rest)
     = mkload calls (Err e) /\ concat calls ++ t = pre /\
     (fail = None -> e = EOther /\ (fast = false -> calls = map (fun b => [b]) pre))) /\
  (blen (enc_header (Some roots) 1) <= root_max_section ->
   Forall root_block_ok pre -> root_block_ok (c, d) ->
   exists calls e t,
     root_load hok hdrdec fast fail
       (ld (enc_header (Some roots) 1) ++ enc_sections pre ++ enc_section c d ++ rest)
     = mkload calls (Err e) /\ concat calls ++ t = pre /\
     (fail = None -> e = EOther /\ (fast = false -> calls = map (fun b => [b]) pre))).
Proof.
  intros Hg Hne Hh Hbad. split; intros Hmax Hok Hb.
  - apply carv1_load_corrupt; assumption.
  - apply root_load_corrupt; assumption.
Qed.

Theorem loaders_intact hok hdrdec fast roots bs :
  hdr_good hdrdec roots -> roots <> [] -> Forall (hash_good hok) bs ->
  (blen (enc_header (Some roots) 1) <= o_maxh default_ropts ->
   Forall (block_ok (o_maxs default_ropts)) bs ->
   exists calls, carv1_load hok hdrdec fast None (enc_payload roots bs) = mkload calls (Ok roots) /\
                 concat calls = bs) /\
  (blen (enc_header (Some roots) 1) <= root_max_section -> Forall root_block_ok bs ->
   exists calls, root_load hok hdrdec fast None (enc_payload roots bs) = mkload calls (Ok roots) /\
                 concat calls = bs).
Proof.
  intros Hg Hne Hh. split; intros Hmax Hok.
  - apply carv1_load_intact; assumption.
  - apply root_load_intact; assumption.
Qed.
