(* C13, round 3: Inspect(false).  It accepts exactly what the non-verifying (TrustedCAR) scan
   accepts, PLUS one more shape: a final section whose CID is complete but whose data is cut
   short (it seeks past the end and then sees a clean EOF).  Statistics are those of the scanned
   blocks, with the cut section counted at its promised length. *)
From GoCar Require Import Bytes Varint Cid Header Frame V2Header Scan Inspect.
From GoCarProofs Require Import BytesFacts VarintFacts CidFacts InspectParse InspectFacts InspectStats InspectC13.

Definition trusted (o : ropts) : ropts := mkropts (o_zeof o) (o_maxh o) (o_maxs o) true.

Section Oracles.
  Variable hok : bytes -> bytes -> option bool.
  Variable hdrdec : bytes -> option (list bytes * N).

  Lemma loop_scan_quick o roots : o_maxs o <= max_digest_alloc ->
    forall fuel s a acc, (length s < fuel)%nat ->
    let sc := scan_blocks hok fuel (trusted o) s acc in
    let t := scan_tail hok fuel (trusted o) s in
    match insp_loop hok fuel false o roots s a with
    | Ok a' =>
        exists bs, s_blocks sc = rev acc ++ bs /\ Forall (blk_small o) bs /\
          ((s_end sc = EEof /\ a' = fold_left (blk_step roots) bs a) \/
           (s_end sc = EUnexpectedEof /\
            exists c p cn bl, cut_last o t = Some (c, p, cn, bl) /\
              a' = iacc_step roots c p cn bl (fold_left (blk_step roots) bs a)))
    | Err _ => s_end sc <> EEof /\ (s_end sc = EUnexpectedEof -> cut_last o t = None)
    end.
  Proof.
    intros Hcap. induction fuel as [|f IH]; intros s a acc Hf; [lia|].
    cbn zeta. cbn [insp_loop scan_blocks scan_tail]. unfold next_block, read_node, ld_read, ld_read_size.
    change (o_zeof (trusted o)) with (o_zeof o). change (o_maxs (trusted o)) with (o_maxs o).
    change (o_trusted (trusted o)) with true. cbv iota.
    unfold cut_last.
    destruct (read_uv s) as [l rest n| | | |] eqn:Euv.
    2:{ exists []. rewrite app_nil_r. split; [reflexivity|]. split; [constructor|]. left. split; reflexivity. }
    2,3,4: cbn [s_end]; (split; [discriminate|]); try discriminate; intros _; rewrite Euv; reflexivity.
    destruct ((l =? 0) && o_zeof o) eqn:Ez.
    { exists []. rewrite app_nil_r. split; [reflexivity|]. split; [constructor|]. left. split; reflexivity. }
    destruct (o_maxs o <? l) eqn:Emax; [cbn [s_end]; split; discriminate|].
    destruct (read_uv_ok_len _ _ _ _ Euv) as (Hlen & Hn1).
    destruct (blen rest <? l) eqn:Eshort.
    - (* the section is cut short: the trusted scan stops here with ErrUnexpectedEOF *)
      cbn [s_end s_blocks]. rewrite Euv, Ez, Emax, Eshort.
      destruct (cid_from_reader rest) as [cn c p after| |k] eqn:Ecfr;
        try (split; [discriminate|reflexivity]).
      destruct (l <? cn) eqn:Elc; [split; [discriminate|reflexivity]|].
      destruct (cid_from_reader_inv _ _ _ _ _ Ecfr) as (_ & _ & Hs & _ & Hn).
      assert (Hafter : blen rest = cn + blen after) by (rewrite Hs at 1; rewrite blen_app; lia).
      rewrite drop_ge by lia.
      destruct f as [|f']; [unfold blen in *; destruct s; cbn in *; lia|].
      cbn [insp_loop]. change (read_uv []) with VEof. cbv iota.
      exists []. rewrite app_nil_r. split; [reflexivity|]. split; [constructor|]. right.
      split; [reflexivity|]. exists c, p, cn, (l - cn). split; reflexivity.
    - destruct (cid_from_bytes (take l rest)) as [[cn p]|] eqn:Efb.
      + destruct (cid_bytes_to_reader l rest cn p Efb) as (Hr & Hcl); [lia|lia|].
        rewrite Hr. replace (l <? cn) with false by lia.
        rewrite drop_drop. replace (cn + (l - cn)) with l by lia.
        set (c := take cn (take l rest)). set (d := drop cn (take l rest)).
        assert (Hf' : (length (drop l rest) < f)%nat).
        { assert (X : blen (drop l rest) <= blen rest) by (rewrite blen_drop; lia). unfold blen in *. lia. }
        specialize (IH (drop l rest) (iacc_step roots c p cn (l - cn) a) ((c, d) :: acc) Hf').
        cbn zeta in IH.
        destruct (cid_from_bytes_inv _ _ _ Efb) as (Hok & Hd & Hn).
        assert (Hc : c = cid_enc p) by (unfold c; rewrite Hd at 1; rewrite Hn; apply take_app).
        assert (Hcl2 : blen c = cn) by (rewrite Hc; symmetry; exact Hn).
        assert (Hdl : blen d = l - cn) by (unfold d; rewrite blen_drop, blen_take; lia).
        assert (Hstep : blk_step roots a (c, d) = iacc_step roots c p cn (l - cn) a).
        { unfold blk_step. cbn [fst snd]. rewrite Hcl2, Hdl. rewrite Hc at 2.
          rewrite cid_parts_enc by exact Hok. reflexivity. }
        destruct (insp_loop hok f false o roots (drop l rest) (iacc_step roots c p cn (l - cn) a)) as [a'|e].
        * destruct IH as (bs & Hblocks & Hsmall & Hcases).
          exists ((c, d) :: bs). split; [|split].
          -- etransitivity; [exact Hblocks|]. cbn [rev]. rewrite <- app_assoc. reflexivity.
          -- constructor; [|exact Hsmall]. unfold blk_small. cbn [fst snd]. lia.
          -- cbn [fold_left]. rewrite Hstep. exact Hcases.
        * exact IH.
      + cbn [s_end]. destruct (cid_from_reader rest) as [cn c p after| |k] eqn:Ecfr;
          try (split; discriminate).
        destruct (l <? cn) eqn:Elc; [split; discriminate|].
        exfalso. destruct (cid_reader_to_bytes l rest cn c p after Ecfr) as (X & _); [lia|congruence].
  Qed.

  (* NewBlockReader with TrustedCAR opens the same section stream *)
  Lemma br_open_trusted o file : br_open hdrdec (trusted o) file = br_open hdrdec (untrusted o) file.
  Proof. reflexivity. Qed.

  Theorem c13_quick o file rd :
    o_maxs o <= max_digest_alloc ->
    new_reader hdrdec o file = Ok rd ->
    forall st,
      inspect hok hdrdec o rd file false = Ok st <->
      exists roots blocks e codec,
        br_read_all hok hdrdec (trusted o) file = Ok (r_version rd, roots, mkscan blocks e) /\
        index_codec rd file = Ok codec /\
        ((e = EEof /\ st = stats_of (r_version rd) (r_hdr rd) roots blocks codec) \/
         (e = EUnexpectedEof /\
          exists c p cn bl, cut_last o (br_read_tail hok hdrdec (trusted o) file) = Some (c, p, cn, bl) /\
            st = finish_stats rd roots
                   (iacc_step roots c p cn bl (fold_left (blk_step roots) blocks (iacc0 roots))) codec)).
  Proof.
    intros Hcap Hnew st. rewrite inspect_open. unfold br_read_all, br_read_tail. rewrite br_open_trusted.
    pose proof (br_open_of_reader hok hdrdec o file rd Hnew) as Hopen.
    destruct (open_sections hdrdec o rd file) as [[roots rest]|e0].
    - destruct Hopen as (a0 & b0 & Hbr). rewrite Hbr. unfold scan_all.
      pose proof (loop_scan_quick o roots Hcap (S (length rest)) rest (iacc0 roots) [] ltac:(lia)) as Hls.
      cbn zeta in Hls. revert Hls. generalize (S (length rest)). intros fuel Hls.
      destruct (insp_loop hok fuel false o roots rest (iacc0 roots)) as [a|e1].
      + destruct Hls as (bs & Hblocks & Hsmall & Hcases). change (rev [] ++ bs) with bs in Hblocks.
        assert (Hsc : scan_blocks hok fuel (trusted o) rest []
                      = mkscan bs (s_end (scan_blocks hok fuel (trusted o) rest []))).
        { destruct (scan_blocks hok fuel (trusted o) rest []) as [b e]. cbn in *. subst b. reflexivity. }
        assert (Hfin : forall codec, finish_stats rd roots (fold_left (blk_step roots) bs (iacc0 roots)) codec
                                     = stats_of (r_version rd) (r_hdr rd) roots bs codec).
        { intros codec. apply (finish_stats_fold rd roots bs codec (o_maxs o)); [exact Hsmall|].
          unfold max_digest_alloc, max_uint64, two64 in *. lia. }
        split.
        * intros H. destruct (index_codec rd file) as [codec|e2]; [|discriminate].
          inversion H; subst st. exists roots, bs, (s_end (scan_blocks hok fuel (trusted o) rest [])), codec.
          split; [rewrite Hsc at 1; reflexivity|]. split; [reflexivity|].
          destruct Hcases as [(He & Ha)|(He & c & p & cn & bl & Hcut & Ha)].
          -- left. split; [exact He|]. rewrite Ha. apply Hfin.
          -- right. split; [exact He|]. exists c, p, cn, bl. split; [exact Hcut|]. rewrite Ha. reflexivity.
        * intros (roots' & blocks & e & codec & Hb & Hi & Hst). rewrite Hsc in Hb.
          inversion Hb; subst roots' blocks e. rewrite Hi.
          destruct Hst as [(He & Hst)|(He & c & p & cn & bl & Hcut & Hst)];
            destruct Hcases as [(He' & Ha)|(He' & c' & p' & cn' & bl' & Hcut' & Ha)]; try congruence.
      + split; [discriminate|]. intros (roots' & blocks & e & codec & Hb & _ & Hst).
        exfalso. destruct Hls as (Hne & Hcut). inversion Hb as [[H1 H2]].
        assert (He : s_end (scan_blocks hok fuel (trusted o) rest []) = e) by (rewrite H2; reflexivity).
        destruct Hst as [(He1 & _)|(He1 & c & p & cn & bl & Hc & _)].
        * apply Hne. congruence.
        * rewrite Hcut in Hc by congruence. discriminate.
    - destruct Hopen as (e' & Hbr). rewrite Hbr. split; [discriminate|].
      intros (? & ? & ? & ? & Hb & _). discriminate.
  Qed.
End Oracles.
