(* Non-vacuity of the C04 theorems: a concrete store, a concrete history over the collision
   alphabet, all hypotheses discharged, the conclusion computed.  (The same history is
   corpus/C04/example-history.case.) *)
From GoCar Require Import Bytes Varint Cid Header Frame V2Header Scan Index Store StoreSpec.
From GoCarProofs Require Import BytesFacts VarintFacts CidFacts HeaderFacts ScanFacts StoreInv StoreSpecFacts StoreSpecCor.

Definition ex_digest : bytes := map n2b [1;2;3;4;5;6;7;8;9;10;11;12;13;14;15;16;17;18;19;20;21;22;23;24;25;26;27;28;29;30;31;32].
Definition ex_pA : cidp := mkcid 1 85 18 ex_digest.     (* raw / sha2-256 *)
Definition ex_pA2 : cidp := mkcid 1 112 18 ex_digest.   (* same multihash, dag-pb *)
Definition ex_pI : cidp := mkcid 1 85 0 ex_digest.      (* identity CID carrying the same digest *)
Definition ex_pX : cidp := mkcid 1 85 22 ex_digest.     (* sha3-256 code carrying the same digest *)
Definition ex_pL : cidp := mkcid 1 85 0 (ex_digest ++ ex_digest ++ ex_digest). (* long identity CID *)
Definition ex_cA := cid_enc ex_pA.
Definition ex_cA2 := cid_enc ex_pA2.
Definition ex_cI := cid_enc ex_pI.
Definition ex_cX := cid_enc ex_pX.
Definition ex_cL := cid_enc ex_pL.
Definition ex_data : bytes := map n2b [222; 173; 190; 239].

(* StoreIdentityCIDs on, MaxIndexCidSize 40, data padding 7, index padding 1 *)
Definition ex_o : wopts := mkwopts 7 1 1025 false 40 true false false false 33554432 8388608.
Definition ex_roots : list bytes := [ex_cA].

Definition ex_ops : list sop :=
  [OpPut ex_cA ex_data; OpPut ex_cI ex_digest; OpHas ex_cI; OpGet ex_cI; OpPut ex_cX ex_data; OpGet ex_cX;
   OpPut ex_cA2 ex_data; OpPutMany [(ex_cA, ex_data); (ex_cL, ex_digest ++ ex_digest ++ ex_digest)];
   OpKeys; OpGetSize ex_cA; OpRoots; OpGet ex_cA2; OpFinalizeRO; OpGet ex_cA; OpPut ex_cA ex_data;
   OpFinalize; OpHas ex_cA; OpGet ex_cI].

Definition ex_dummy : wstate := mkws (mkdev [] [] []) [] 0 true true [] ex_o KBlockstore.
Definition ex_s0 : wstate :=
  match open_new KBlockstore ex_o false ex_roots [] with Ok s => s | Err _ => ex_dummy end.
Lemma ex_open : open_new KBlockstore ex_o false ex_roots [] = Ok ex_s0.
Proof. vm_compute. reflexivity. Qed.

Ltac ex_cid_ok := right; cbn [c_ver c_codec c_mhcode c_digest]; repeat split; try reflexivity; vm_compute; congruence.

Lemma ex_cid_rd_ok p : (c_ver p = 1 /\ c_codec p < two63 /\ c_mhcode p < two63 /\ blen (c_digest p) <= max_int32) ->
  blen (c_digest p) <= max_digest_alloc -> cid_rd_ok (cid_enc p).
Proof. intros H1 H2. exists p. split; [right; exact H1|split; [reflexivity|exact H2]]. Qed.

Ltac ex_rd_ok := apply ex_cid_rd_ok; [cbn [c_ver c_codec c_mhcode c_digest]; repeat split; try reflexivity; vm_compute; congruence|vm_compute; congruence].

Lemma ex_put_ok p d :
  c_ver p = 1 -> c_codec p < two63 -> c_mhcode p < two63 -> blen (c_digest p) <= 1000 ->
  blen (cid_enc p) + blen d <= 8388608 -> put_ok ex_o (cid_enc p, d).
Proof.
  intros H1 H2 H3 H4 H5 _. split; [|cbn [fst snd w_maxs ex_o]; unfold two63; split; lia].
  apply ex_cid_rd_ok; [repeat split; try assumption|]; unfold max_int32, max_digest_alloc; lia.
Qed.
Ltac ex_put := apply ex_put_ok; vm_compute; (reflexivity || congruence).

Lemma ex_roots_ok : roots_ok ex_roots.
Proof.
  split; [|cbn; unfold two64; lia]. constructor; [|constructor]. split.
  - exists ex_pA. split; [ex_cid_ok|reflexivity].
  - vm_compute. reflexivity.
Qed.

Lemma ex_hist_ok : hist_ok ex_o false ex_roots ex_ops.
Proof.
  split; [|vm_compute; reflexivity].
  unfold ex_ops.
  repeat (apply Forall_cons;
          [first [exact I | ex_put | cbn [op_ok]; repeat (apply Forall_cons; [ex_put|]); apply Forall_nil]|]).
  apply Forall_nil.
Qed.

(* the hypotheses of C04_refines_map hold here ... *)
Example C04_example_refines :
  outs (trace (impl_step dec_header_canon FBs) ex_s0 ex_ops)
  = outs (trace (spec_step FBs ex_o ex_roots) m_empty ex_ops).
Proof.
  apply (refines_map dec_header_canon KBlockstore ex_o false ex_roots).
  - vm_compute. reflexivity.
  - apply hdr_canon_ok. exact ex_roots_ok.
  - vm_compute. congruence.
  - vm_compute. reflexivity.
  - exact ex_open.
  - exact ex_hist_ok.
Qed.

(* ... and the conclusion is not trivial: these are the results *)
Example C04_example_outs :
  outs (trace (impl_step dec_header_canon FBs) ex_s0 ex_ops)
  = [ONil; ONil; OBool true; OBytes ex_digest; ONil; OBytes ex_data; ONil; OErr ECidTooLarge;
     OKeys [raw_cid ex_pA; raw_cid ex_pI; raw_cid ex_pX]; OSize 4; OKeys ex_roots; OBytes ex_data;
     ONil; OBytes ex_data; OErr EFinalized; OErr EOther; OErr EClosed; OErr EClosed].
Proof. vm_compute. reflexivity. Qed.

(* the abstraction of the final state is the map the history builds *)
Example C04_example_abs :
  abs (last (map fst (trace (impl_step dec_header_canon FBs) ex_s0 ex_ops)) ex_s0)
  = mkm [(ex_cA, ex_data); (ex_cI, ex_digest); (ex_cX, ex_data)] true true.
Proof. vm_compute. reflexivity. Qed.

Lemma ex_Forall_firstn {A} (P : A -> Prop) l : forall n, Forall P l -> Forall P (firstn n l).
Proof.
  induction l as [|x t IH]; intros [|n] H; cbn [firstn]; try constructor.
  - inversion H; assumption.
  - apply IH. inversion H; assumption.
Qed.

(* put-then-get and skip-only-if-present: hypotheses satisfiable *)
Example C04_example_put_then_get :
  let pre := firstn 4 ex_ops in
  forall s1, impl_step dec_header_canon FBs (last (map fst (trace (impl_step dec_header_canon FBs) ex_s0 pre)) ex_s0)
                       (OpPut ex_cX ex_data) = (s1, ONil) ->
  snd (impl_step dec_header_canon FBs s1 (OpGet ex_cX)) = OBytes ex_data.
Proof.
  intros pre s1 H.
  apply (put_then_get dec_header_canon KBlockstore ex_o false ex_roots) with (ops := pre) (p := ex_pX) (s0 := ex_s0); try exact H.
  - vm_compute. reflexivity.
  - apply hdr_canon_ok. exact ex_roots_ok.
  - vm_compute. congruence.
  - vm_compute. reflexivity.
  - exact ex_open.
  - left. reflexivity.
  - apply cid_parse_enc. ex_cid_ok.
  - destruct ex_hist_ok as (H1 & H2). split.
    + change (pre ++ [OpPut ex_cX ex_data]) with (firstn 5 ex_ops). apply ex_Forall_firstn. exact H1.
    + vm_compute. reflexivity.
  - vm_compute. discriminate.
  - intros b Hb. vm_compute in Hb. destruct Hb as [<-|[<-|[]]]; vm_compute; congruence.
Qed.

Example C04_example_oversize :
  impl_step dec_header_canon FBs ex_s0 (OpPut ex_cL ex_digest) = (ex_s0, OErr ECidTooLarge).
Proof.
  apply oversize_rejected_unchanged with (p := ex_pL); vm_compute; reflexivity.
Qed.

(* the blockstore over a caller-owned file (OpenReadWriteFile): after Discard the file is still open;
   Roots still answers, every finalize / write is refused and the file does not change *)
Definition ex_fops : list sop :=
  [OpPut ex_cA ex_data; OpDiscard; OpRoots; OpFinalizeRO; OpFinalize; OpPut ex_cX ex_data; OpHas ex_cA; OpRoots].

Example C04_example_callers_file_outs :
  outs (trace (impl_step dec_header_canon FBf) ex_s0 ex_fops)
  = [ONil; ONil; OKeys ex_roots; OErr EOther; OErr EOther; OErr EClosed; OErr EClosed; OKeys ex_roots] /\
  outs (trace (impl_step dec_header_canon FBf) ex_s0 ex_fops) = outs (trace (spec_step FBf ex_o ex_roots) m_empty ex_fops).
Proof. vm_compute. split; reflexivity. Qed.

Example C04_example_callers_file_frozen :
  let s1 := last (map fst (trace (impl_step dec_header_canon FBf) ex_s0 (firstn 2 ex_fops))) ex_s0 in
  Forall (fun s' => ws_file s' = ws_file s1) (map fst (trace (impl_step dec_header_canon FBf) s1 (skipn 2 ex_fops))).
Proof. cbn zeta. apply file_frozen. left. vm_compute. reflexivity. Qed.

(* a Finalize that FAILS (carv2.WithoutIndex(): IndexCodec = CarIndexNone, store.Finalize cannot build the
   index): the error is returned and the store is closed all the same, on both front-ends *)
Definition ex_o_noidx : wopts := mkwopts 7 1 3145728 false 40 true false false false 33554432 8388608.
Definition ex_nops : list sop :=
  [OpPut ex_cA ex_data; OpFinalize; OpPut ex_cX ex_data; OpHas ex_cA; OpGet ex_cA; OpFinalize].

Example C04_example_failed_finalize_closes :
  (forall s, open_new (KStorage true) ex_o_noidx false ex_roots [] = Ok s ->
     outs (trace (impl_step dec_header_canon (FSt true)) s ex_nops)
     = [ONil; OErr EOther; OErr EClosed; OErr EClosed; OErr EClosed; OErr EOther] /\
     ws_closed (fst (impl_step dec_header_canon (FSt true) (fst (impl_step dec_header_canon (FSt true) s (OpPut ex_cA ex_data))) OpFinalize)) = true) /\
  (forall s, open_new KBlockstore ex_o_noidx false ex_roots [] = Ok s ->
     outs (trace (impl_step dec_header_canon FBs) s ex_nops)
     = [ONil; OErr EOther; OErr EClosed; OErr EClosed; OErr EClosed; OErr EOther]).
Proof.
  split; intros s H; vm_compute in H; apply Ok_inj in H; subst s.
  - split; [vm_compute; reflexivity|apply finalize_closes].
  - vm_compute. reflexivity.
Qed.
