(* What a SECOND Load on one sorted index does (multiWidthIndex.Load / MultihashIndexSorted.Load):
   it REPLACES every bucket whose key (record width, resp. hash code) occurs among the new records
   and leaves the other buckets alone -- it does not add to a bucket.  (The Index.Load doc says
   "inserts"; InsertionIndex.Load does add.) *)
From Coq Require Import Permutation Sorting.Sorted.
From GoCar Require Import Bytes Varint Cid Index.
From GoCarProofs Require Import BytesFacts VarintFacts IndexKv IndexSort IndexCompact IndexSearch
  IndexRoundtrip IndexLoad.

Lemma filter_nil_existsb {A} (p : A -> bool) l : existsb p l = false -> filter p l = [].
Proof.
  induction l as [|x l IH]; [reflexivity|]. cbn [existsb filter]. intros H.
  apply orb_false_iff in H. destruct H as [Hx Hl]. rewrite Hx. apply IH. exact Hl.
Qed.
Lemma filter_cons_existsb {A} (p : A -> bool) l : existsb p l = true -> exists x t, filter p l = x :: t.
Proof.
  induction l as [|x l IH]; [discriminate|]. cbn [existsb filter]. intros H.
  destruct (p x); [eauto|]. apply IH. exact H.
Qed.

Section Twice.
  Variable srt : list irec -> list irec.
  Hypothesis srt_ok : sort_contract srt.

  (* the lookup only sees the bucket of the digest's width: the new one if the second batch has a
     record of that width, else the old one *)
  Lemma mwi_getall_second_load rs2 m d :
    mwi_getall (mwi_load_with srt rs2 m) d
    = if existsb (width_is (blen d + 8)) rs2 then mwi_getall (mwi_load_with srt rs2 []) d
      else mwi_getall m d.
  Proof.
    unfold mwi_getall. rewrite !mwi_load_get.
    destruct (existsb (width_is (blen d + 8)) rs2) eqn:E.
    - destruct (filter_cons_existsb _ _ E) as (x & t & ->). reflexivity.
    - rewrite (filter_nil_existsb _ _ E). reflexivity.
  Qed.

  Theorem mwi_second_load_replaces rs1 rs2 d :
    Forall rec_ok rs1 -> recs_fit rs1 -> Forall rec_ok rs2 -> recs_fit rs2 ->
    Permutation (mwi_getall (mwi_load_with srt rs2 (mwi_load_with srt rs1 [])) d)
                (if existsb (width_is (blen d + 8)) rs2 then spec_offsets_digest rs2 d
                 else spec_offsets_digest rs1 d).
  Proof.
    intros H1 F1 H2 F2. rewrite mwi_getall_second_load.
    destruct (existsb (width_is (blen d + 8)) rs2); apply (mwi_getall_load srt srt_ok); assumption.
  Qed.

  Lemma mh_getall_second_load rs2 m c d :
    mh_getall (mh_load_with srt rs2 m) c d
    = if existsb (code_is c) rs2 then mh_getall (mh_load_with srt rs2 []) c d else mh_getall m c d.
  Proof.
    unfold mh_getall. rewrite !mh_load_get.
    destruct (existsb (code_is c) rs2) eqn:E.
    - destruct (filter_cons_existsb _ _ E) as (x & t & ->). reflexivity.
    - rewrite (filter_nil_existsb _ _ E). reflexivity.
  Qed.

  (* multihash index: the whole per-code index (all its widths) is replaced *)
  Theorem mh_second_load_replaces rs1 rs2 c d :
    Forall rec_ok rs1 -> recs_fit rs1 -> Forall rec_ok rs2 -> recs_fit rs2 ->
    Permutation (mh_getall (mh_load_with srt rs2 (mh_load_with srt rs1 [])) c d)
                (if existsb (code_is c) rs2 then spec_offsets_mh rs2 c d else spec_offsets_mh rs1 c d).
  Proof.
    intros H1 F1 H2 F2. rewrite mh_getall_second_load.
    destruct (existsb (code_is c) rs2); apply (mh_getall_load srt srt_ok); assumption.
  Qed.
End Twice.

(* "Load is additive": refuted -- after Load [a]; Load [b] (same width and code) a is gone *)
Definition l2_rec (d : bytes) (off : N) : irec := mkrec ([x01; x55; x12; x04] ++ d) 18 d off.
Definition l2_a : irec := l2_rec [xaa; xbb; xcc; xdd] 100.
Definition l2_b : irec := l2_rec [x01; x02; x03; x04] 200.

Lemma load_not_additive_refuted :
  exists codec i0 rs1 rs2 c d,
    idx_new codec = Some i0 /\
    idx_getall (idx_load rs2 (idx_load rs1 i0)) c d = [] /\
    idx_getall (idx_load (rs1 ++ rs2) i0) c d = [100].
Proof.
  exists codec_mh_sorted, (IdxMh []), [l2_a], [l2_b], 18, [xaa; xbb; xcc; xdd].
  vm_compute. repeat split; reflexivity.
Qed.

(* the insertion index, by contrast, adds *)
Lemma ii_load_additive rs1 rs2 : ii_load rs2 (ii_load rs1 []) = ii_load (rs1 ++ rs2) [].
Proof. unfold ii_load. rewrite fold_left_app. reflexivity. Qed.
