(* Order facts about byte strings (bytes.Compare) and the sorted association lists that model
   Go maps iterated through their sorted keys (Index.v: kv_put / kv_get / group_by). *)
From Coq Require Import Permutation Sorting.Sorted.
From GoCar Require Import Bytes Varint Cid Index.
From GoCarProofs Require Import BytesFacts.

(* ---- bytes_cmp is a total order --------------------------------------------------------- *)
Lemma b2n_inj x y : b2n x = b2n y -> x = y.
Proof. intros H. rewrite <- (n2b_b2n x), <- (n2b_b2n y), H. reflexivity. Qed.

Lemma bytes_cmp_refl a : bytes_cmp a a = Eq.
Proof. induction a as [|x a IH]; cbn [bytes_cmp]; [reflexivity|]. rewrite N.compare_refl. exact IH. Qed.

Lemma bytes_cmp_eq a : forall b, bytes_cmp a b = Eq -> a = b.
Proof.
  induction a as [|x a IH]; intros [|y b]; cbn [bytes_cmp]; intros H; try discriminate; [reflexivity|].
  destruct (N.compare (b2n x) (b2n y)) eqn:E; try discriminate.
  apply N.compare_eq in E. apply b2n_inj in E. subst. f_equal. apply IH. exact H.
Qed.

Lemma bytes_cmp_antisym a : forall b, bytes_cmp b a = CompOpp (bytes_cmp a b).
Proof.
  induction a as [|x a IH]; intros [|y b]; cbn [bytes_cmp CompOpp]; try reflexivity.
  rewrite (N.compare_antisym (b2n x) (b2n y)).
  destruct (N.compare (b2n x) (b2n y)); cbn [CompOpp]; try reflexivity. apply IH.
Qed.

Lemma bytes_cmp_lt_trans a : forall b c, bytes_cmp a b = Lt -> bytes_cmp b c = Lt -> bytes_cmp a c = Lt.
Proof.
  induction a as [|x a IH]; intros [|y b] [|z c]; cbn [bytes_cmp]; intros H1 H2; try discriminate; try reflexivity.
  destruct (N.compare (b2n x) (b2n y)) eqn:E1; try discriminate;
  destruct (N.compare (b2n y) (b2n z)) eqn:E2; try discriminate.
  - apply N.compare_eq in E1, E2. rewrite E1, E2, N.compare_refl. eapply IH; eauto.
  - apply N.compare_eq in E1. rewrite E1, E2. reflexivity.
  - apply N.compare_eq in E2. rewrite <- E2, E1. reflexivity.
  - rewrite N.compare_lt_iff in E1, E2. assert (E : (b2n x ?= b2n z) = Lt) by (apply N.compare_lt_iff; lia).
    rewrite E. reflexivity.
Qed.

Lemma bytes_leb_refl a : bytes_leb a a = true.
Proof. unfold bytes_leb. rewrite bytes_cmp_refl. reflexivity. Qed.

Lemma bytes_leb_total a b : bytes_leb a b = false -> bytes_leb b a = true.
Proof.
  unfold bytes_leb. rewrite (bytes_cmp_antisym a b). destruct (bytes_cmp a b); cbn; congruence.
Qed.

Lemma bytes_leb_trans a b c : bytes_leb a b = true -> bytes_leb b c = true -> bytes_leb a c = true.
Proof.
  unfold bytes_leb. intros H1 H2.
  destruct (bytes_cmp a b) eqn:E1; try discriminate;
  destruct (bytes_cmp b c) eqn:E2; try discriminate.
  - apply bytes_cmp_eq in E1. subst. rewrite E2. reflexivity.
  - apply bytes_cmp_eq in E1. subst. rewrite E2. reflexivity.
  - apply bytes_cmp_eq in E2. subst. rewrite E1. reflexivity.
  - rewrite (bytes_cmp_lt_trans a b c E1 E2). reflexivity.
Qed.

Lemma bytes_leb_antisym a b : bytes_leb a b = true -> bytes_leb b a = true -> a = b.
Proof.
  unfold bytes_leb. rewrite (bytes_cmp_antisym a b).
  destruct (bytes_cmp a b) eqn:E; cbn; intros H1 H2; try discriminate.
  apply bytes_cmp_eq. exact E.
Qed.

Lemma bytes_ltb_leb a b : bytes_ltb a b = negb (bytes_leb b a).
Proof.
  unfold bytes_ltb, bytes_leb. rewrite (bytes_cmp_antisym a b). destruct (bytes_cmp a b); reflexivity.
Qed.

Lemma bytes_eqb_false_ne a b : bytes_eqb a b = false <-> a <> b.
Proof.
  split.
  - intros H E. subst. rewrite bytes_eqb_refl in H. discriminate.
  - intros H. destruct (bytes_eqb a b) eqn:E; [|reflexivity]. apply bytes_eqb_eq in E. contradiction.
Qed.

(* ---- association lists ------------------------------------------------------------------- *)
Fixpoint kv_sorted {A} (m : list (N * A)) : Prop :=
  match m with
  | [] => True
  | kv :: t => Forall (fun x => fst kv < fst x) t /\ kv_sorted t
  end.

Lemma kv_get_put {A} k (v : A) m k' :
  kv_get k' (kv_put k v m) = if k' =? k then Some v else kv_get k' m.
Proof.
  induction m as [|[k0 v0] t IH]; cbn [kv_put kv_get].
  - destruct (k' =? k); reflexivity.
  - destruct (k <? k0) eqn:E1.
    + cbn [kv_get]. destruct (k' =? k); reflexivity.
    + destruct (k =? k0) eqn:E2.
      * cbn [kv_get]. assert (k = k0) by lia. subst k0.
        destruct (k' =? k); reflexivity.
      * cbn [kv_get]. rewrite IH. destruct (k' =? k0) eqn:E3; [|reflexivity].
        replace (k' =? k) with false by lia. reflexivity.
Qed.

Lemma kv_put_keys {A} k (v : A) m x :
  In x (map fst (kv_put k v m)) -> x = k \/ In x (map fst m).
Proof.
  induction m as [|[k0 v0] t IH]; cbn [kv_put].
  - cbn. intuition.
  - destruct (k <? k0).
    + cbn. intuition.
    + destruct (k =? k0) eqn:E.
      * cbn. intuition.
      * cbn [map fst In]. intros [H|H]; [right; left; exact H|].
        destruct (IH H) as [H'|H']; [left; exact H'|right; right; exact H'].
Qed.

Lemma kv_put_sorted {A} k (v : A) m : kv_sorted m -> kv_sorted (kv_put k v m).
Proof.
  induction m as [|[k0 v0] t IH]; cbn [kv_put kv_sorted]; intros Hs.
  - split; [constructor|exact I].
  - destruct Hs as [Hlb Hs]. destruct (k <? k0) eqn:E1.
    + cbn [kv_sorted fst]. split; [|split; assumption].
      constructor; [cbn; lia|]. eapply Forall_impl; [|exact Hlb]. cbn. intros a Ha. lia.
    + destruct (k =? k0) eqn:E2.
      * assert (k = k0) by lia. subst k0. cbn [kv_sorted fst]. split; assumption.
      * cbn [kv_sorted fst]. split; [|apply IH; exact Hs].
        apply Forall_forall. intros x Hx.
        assert (Hin : In (fst x) (map fst (kv_put k v t))) by (apply in_map; exact Hx).
        apply kv_put_keys in Hin. destruct Hin as [->|Hin]; [lia|].
        apply in_map_iff in Hin. destruct Hin as (y & Hy & Hy').
        rewrite Forall_forall in Hlb. specialize (Hlb y Hy'). cbn in Hlb. lia.
Qed.

Lemma kv_get_lb {A} k (m : list (N * A)) : Forall (fun x => k < fst x) m -> kv_get k m = None.
Proof.
  induction m as [|[k0 v0] t IH]; intros H; cbn [kv_get]; [reflexivity|].
  inversion H; subst. cbn in *. replace (k =? k0) with false by lia. apply IH. assumption.
Qed.

(* sorted association lists are determined by their lookups *)
Lemma kv_ext {A} (m m' : list (N * A)) :
  kv_sorted m -> kv_sorted m' -> (forall k, kv_get k m = kv_get k m') -> m = m'.
Proof.
  revert m'. induction m as [|[k v] t IH]; intros [|[k' v'] t'] Hs Hs' Hget.
  - reflexivity.
  - specialize (Hget k'). cbn in Hget. rewrite N.eqb_refl in Hget. discriminate.
  - specialize (Hget k). cbn in Hget. rewrite N.eqb_refl in Hget. discriminate.
  - cbn [kv_sorted fst] in Hs, Hs'. destruct Hs as [Hlb Hs]. destruct Hs' as [Hlb' Hs'].
    assert (Hk : k = k').
    { pose proof (Hget k) as H1. pose proof (Hget k') as H2. cbn [kv_get] in H1, H2.
      rewrite N.eqb_refl in H1, H2.
      destruct (k =? k') eqn:E; [lia|].
      destruct (k' =? k) eqn:E'; [lia|].
      destruct (N.lt_ge_cases k k') as [Hlt|Hge].
      - rewrite (kv_get_lb k t') in H1; [discriminate|].
        eapply Forall_impl; [|exact Hlb']. cbn. intros a Ha. lia.
      - rewrite (kv_get_lb k' t) in H2; [discriminate|].
        eapply Forall_impl; [|exact Hlb]. cbn. intros a Ha. lia. }
    subst k'.
    assert (Hv : v = v').
    { specialize (Hget k). cbn [kv_get] in Hget. rewrite N.eqb_refl in Hget. congruence. }
    subst v'. f_equal. apply IH; try assumption.
    intros k0. specialize (Hget k0). cbn [kv_get] in Hget.
    destruct (k0 =? k) eqn:E; [|exact Hget].
    assert (k0 = k) by lia. subst k0.
    rewrite (kv_get_lb k t Hlb), (kv_get_lb k t' Hlb'). reflexivity.
Qed.

Lemma kv_get_in {A} k (v : A) m : kv_get k m = Some v -> In (k, v) m.
Proof.
  induction m as [|[k0 v0] t IH]; cbn [kv_get]; [discriminate|].
  destruct (k =? k0) eqn:E.
  - intros H. inversion H; subst. assert (k = k0) by lia. subst. left. reflexivity.
  - intros H. right. apply IH. exact H.
Qed.

Lemma kv_in_get {A} k (v : A) m : kv_sorted m -> In (k, v) m -> kv_get k m = Some v.
Proof.
  induction m as [|[k0 v0] t IH]; cbn [kv_get kv_sorted fst]; intros Hs Hin; [destruct Hin|].
  destruct Hs as [Hlb Hs]. destruct Hin as [Hin|Hin].
  - inversion Hin; subst. rewrite N.eqb_refl. reflexivity.
  - rewrite Forall_forall in Hlb. pose proof (Hlb _ Hin) as Hlt. cbn in Hlt.
    replace (k =? k0) with false by lia. apply IH; assumption.
Qed.

Lemma kv_get_map {A B} (f : N * A -> B) k m :
  kv_get k (map (fun kv => (fst kv, f kv)) m)
  = match kv_get k m with Some v => Some (f (k, v)) | None => None end.
Proof.
  induction m as [|[k0 v0] t IH]; cbn [map kv_get fst]; [reflexivity|].
  destruct (k =? k0) eqn:E; [|exact IH]. assert (k = k0) by lia. subst. reflexivity.
Qed.

Lemma kv_sorted_map {A B} (f : N * A -> B) m :
  kv_sorted m -> kv_sorted (map (fun kv => (fst kv, f kv)) m).
Proof.
  induction m as [|[k0 v0] t IH]; cbn [map kv_sorted fst]; [trivial|].
  intros [Hlb Hs]. split; [|apply IH; exact Hs].
  apply Forall_forall. intros x Hx. apply in_map_iff in Hx. destruct Hx as (y & <- & Hy).
  rewrite Forall_forall in Hlb. apply (Hlb y Hy).
Qed.

(* putting a key above all present keys appends *)
Lemma kv_put_above {A} k (v : A) m : Forall (fun x => fst x < k) m -> kv_put k v m = m ++ [(k, v)].
Proof.
  induction m as [|[k0 v0] t IH]; intros H; cbn [kv_put app]; [reflexivity|].
  inversion H; subst. cbn in *. replace (k <? k0) with false by lia. replace (k =? k0) with false by lia.
  rewrite IH by assumption. reflexivity.
Qed.

Lemma kv_sorted_app_inv {A} (a b : list (N * A)) :
  kv_sorted (a ++ b) -> kv_sorted a /\ kv_sorted b /\ forall x y, In x a -> In y b -> fst x < fst y.
Proof.
  induction a as [|kv a IH]; cbn [app kv_sorted]; intros H.
  - split; [exact I|]. split; [exact H|]. intros x y [].
  - destruct H as [Hlb Hs]. destruct (IH Hs) as (Ha & Hb & Hab).
    apply Forall_app in Hlb. destruct Hlb as [Hlb1 Hlb2].
    split; [split; assumption|]. split; [exact Hb|].
    intros x y [<-|Hx] Hy.
    + rewrite Forall_forall in Hlb2. apply Hlb2. exact Hy.
    + apply Hab; assumption.
Qed.

(* strictly ascending keys bounded by M: at most M+1 of them *)
Lemma kv_sorted_length_bound {A} (m : list (N * A)) lo M :
  kv_sorted m -> Forall (fun x => lo <= fst x <= M) m -> N.of_nat (length m) <= M + 1 - lo.
Proof.
  revert lo. induction m as [|[k v] t IH]; intros lo Hs Hb; cbn [length].
  - lia.
  - cbn [kv_sorted fst] in Hs. destruct Hs as [Hlb Hs]. inversion Hb as [|? ? Hk Hb']; subst. cbn in Hk.
    assert (H : N.of_nat (length t) <= M + 1 - (k + 1)).
    { apply IH; [exact Hs|]. apply Forall_forall. intros x Hx.
      rewrite Forall_forall in Hlb, Hb'. specialize (Hlb x Hx). specialize (Hb' x Hx). cbn in *. lia. }
    lia.
Qed.

(* ---- group_by ------------------------------------------------------------------------------ *)
Definition kv_get_l {A} (k : N) (m : list (N * list A)) : list A :=
  match kv_get k m with Some l => l | None => [] end.

Lemma kv_snoc_get {A} k (x : A) m k' :
  kv_get_l k' (kv_snoc k x m) = if k' =? k then kv_get_l k m ++ [x] else kv_get_l k' m.
Proof.
  unfold kv_snoc, kv_get_l. destruct (kv_get k m) eqn:E; rewrite kv_get_put; destruct (k' =? k); reflexivity.
Qed.

Lemma kv_snoc_sorted {A} k (x : A) m : kv_sorted m -> kv_sorted (kv_snoc k x m).
Proof. intros H. unfold kv_snoc. destruct (kv_get k m); apply kv_put_sorted; exact H. Qed.

Definition groups_nonempty {A} (m : list (N * list A)) : Prop := Forall (fun g => snd g <> []) m.

Lemma kv_put_forall {A} (P : N * A -> Prop) k v m : P (k, v) -> Forall P m -> Forall P (kv_put k v m).
Proof.
  intros Hp. induction m as [|[k0 v0] t IH]; intros H; cbn [kv_put].
  - constructor; [exact Hp|constructor].
  - inversion H; subst. destruct (k <? k0); [constructor; assumption|].
    destruct (k =? k0); constructor; auto.
Qed.

Lemma kv_snoc_nonempty {A} k (x : A) m : groups_nonempty m -> groups_nonempty (kv_snoc k x m).
Proof.
  intros H. unfold kv_snoc. destruct (kv_get k m); apply kv_put_forall; try exact H; cbn.
  - intros E. apply app_eq_nil in E. destruct E; discriminate.
  - discriminate.
Qed.

Section GroupBy.
  Context {A : Type}.
  Variable key : A -> N.

  Lemma group_fold_get xs : forall m k,
    kv_get_l k (fold_left (fun m x => kv_snoc (key x) x m) xs m)
    = kv_get_l k m ++ filter (fun x => key x =? k) xs.
  Proof.
    induction xs as [|x xs IH]; intros m k; cbn [fold_left filter].
    - rewrite app_nil_r. reflexivity.
    - rewrite IH, kv_snoc_get. rewrite (N.eqb_sym (key x) k).
      destruct (k =? key x) eqn:E.
      + assert (k = key x) by lia. subst. rewrite <- app_assoc. reflexivity.
      + reflexivity.
  Qed.

  Lemma group_fold_sorted xs : forall m, kv_sorted m ->
    kv_sorted (fold_left (fun m x => kv_snoc (key x) x m) xs m).
  Proof. induction xs as [|x xs IH]; intros m H; cbn [fold_left]; [exact H|]. apply IH, kv_snoc_sorted, H. Qed.

  Lemma group_fold_nonempty xs : forall m, groups_nonempty m ->
    groups_nonempty (fold_left (fun m x => kv_snoc (key x) x m) xs m).
  Proof. induction xs as [|x xs IH]; intros m H; cbn [fold_left]; [exact H|]. apply IH, kv_snoc_nonempty, H. Qed.

  Lemma group_by_sorted xs : kv_sorted (group_by key xs).
  Proof. apply group_fold_sorted. exact I. Qed.

  Lemma group_by_nonempty xs : groups_nonempty (group_by key xs).
  Proof. apply group_fold_nonempty. constructor. Qed.

  (* the group of key k is exactly the sub-list of elements with that key, in arrival order *)
  Lemma group_by_get xs k :
    kv_get k (group_by key xs)
    = match filter (fun x => key x =? k) xs with [] => None | l => Some l end.
  Proof.
    pose proof (group_fold_get xs [] k) as H. unfold kv_get_l in H at 2. cbn [kv_get app] in H.
    fold (group_by key xs) in H. unfold kv_get_l in H.
    destruct (kv_get k (group_by key xs)) as [l|] eqn:E.
    - rewrite <- H. destruct l as [|a l]; [|reflexivity].
      apply kv_get_in in E. pose proof (group_by_nonempty xs) as Hn.
      unfold groups_nonempty in Hn. rewrite Forall_forall in Hn. specialize (Hn _ E). cbn in Hn. congruence.
    - rewrite <- H. reflexivity.
  Qed.

  Lemma group_in_filter xs g : In g (group_by key xs) ->
    snd g = filter (fun x => key x =? fst g) xs /\ snd g <> [].
  Proof.
    intros Hg. destruct g as [k l]. cbn [fst snd].
    pose proof (kv_in_get k l _ (group_by_sorted xs) Hg) as E. rewrite group_by_get in E.
    destruct (filter (fun x0 => key x0 =? k) xs) eqn:F; [discriminate|]. inversion E; subst l.
    split; [reflexivity|discriminate].
  Qed.

  Lemma group_by_in_key xs g x : In g (group_by key xs) -> In x (snd g) -> key x = fst g /\ In x xs.
  Proof.
    intros Hg Hx. destruct g as [k l]. cbn in *.
    pose proof (kv_in_get k l _ (group_by_sorted xs) Hg) as E. rewrite group_by_get in E.
    destruct (filter (fun x0 => key x0 =? k) xs) eqn:F; [discriminate|]. inversion E; subst l.
    rewrite <- F in Hx. apply filter_In in Hx. destruct Hx as [Hin Hk]. split; [lia|exact Hin].
  Qed.
End GroupBy.

(* folding puts of groups with distinct keys onto a base *)
Lemma kv_fold_put_get {A B} (F : N * list A -> B) (gs : list (N * list A)) : forall m k,
  kv_sorted gs ->
  kv_get k (fold_left (fun acc g => kv_put (fst g) (F g) acc) gs m)
  = match kv_get k gs with Some l => Some (F (k, l)) | None => kv_get k m end.
Proof.
  induction gs as [|[k0 l0] gs IH]; intros m k Hs; cbn [fold_left kv_get fst]; [reflexivity|].
  cbn [kv_sorted fst] in Hs. destruct Hs as [Hlb Hs].
  rewrite IH by exact Hs. destruct (k =? k0) eqn:E.
  - assert (k = k0) by lia. subst k0. rewrite (kv_get_lb k gs Hlb), kv_get_put, N.eqb_refl. reflexivity.
  - destruct (kv_get k gs); [reflexivity|]. rewrite kv_get_put, E. reflexivity.
Qed.

Lemma kv_fold_put_sorted {A B} (F : N * list A -> B) (gs : list (N * list A)) : forall m,
  kv_sorted m -> kv_sorted (fold_left (fun acc g => kv_put (fst g) (F g) acc) gs m).
Proof.
  induction gs as [|g gs IH]; intros m H; cbn [fold_left]; [exact H|]. apply IH, kv_put_sorted, H.
Qed.
