(* C19: a concrete archive (real sha2-256 digests, an identity block, a duplicate) on which every
   hypothesis of the C19 theorems holds -- the Examples beside the theorems -- and the witness that
   refutes the concat clause for --version 2.  The same archive is replayed against the real tool
   (corpus/C19/ex-*.case). *)
From Coq Require Import Sorting.Permutation.
From GoCar Require Import Bytes Varint Cid Header Frame V2Header Scan Index Store Traversal ExtractFs CliCmds.
From GoCarProofs Require Import BytesFacts VarintFacts CidFacts HeaderFacts ScanFacts ScanTrunc ScanTruncV2 StoreInv
  CliBase CliWalk CliProducers CliConcat CliFilter CliClosure CliTheorems CliGet CliAppend CliIndexFacts CliFull CliGetDag CliPipe.

Definition hok_true : bytes -> bytes -> option bool := fun _ _ => Some true.

(* sha2-256("a"), sha2-256("bc") *)
Definition dg_a : bytes :=
  [xca; x97; x81; x12; xca; x1b; xbd; xca; xfa; xc2; x31; xb3; x9a; x23; xdc; x4d;
   xa7; x86; xef; xf8; x14; x7c; x4e; x72; xb9; x80; x77; x85; xaf; xee; x48; xbb].
Definition dg_bc : bytes :=
  [x1e; x0b; xbd; x6c; x68; x6b; xa0; x50; xb8; xeb; x03; xff; xee; xdc; x64; xfd;
   xc9; xd8; x09; x47; xfc; xe8; x21; xab; xbe; x5d; x6d; xc8; xd2; x52; xc5; xac].

Definition xp1 : cidp := mkcid 1 85 18 dg_a.          (* raw, sha2-256 *)
Definition xp2 : cidp := mkcid 1 113 18 dg_bc.        (* dag-cbor, sha2-256 *)
Definition xpi : cidp := mkcid 1 85 0 [x69; x64].     (* raw, identity "id" *)
Definition kc1 : bytes := cid_enc xp1.
Definition kc2 : bytes := cid_enc xp2.
Definition kci : bytes := cid_enc xpi.

Definition ex_bs : list block := [(kc1, [x61]); (kci, [x69; x64]); (kc2, [x62; x63]); (kc1, [x61])].
Definition ex_roots : list bytes := [kc1].
Definition ex_hb : bytes := enc_header (Some ex_roots) 1.
Definition ex_v1 : bytes := payload_hb ex_hb ex_bs.
Definition ex_v2 : bytes := v2file 0 0 7 0 ex_v1 [].     (* index-less CARv2, 7 bytes of data padding *)
Definition ex_sel : list bytes := [kc1; kci].

Ltac nle := apply N.leb_le; vm_compute; reflexivity.
Ltac nlt := apply N.ltb_lt; vm_compute; reflexivity.

Lemma ex_cid_rd_ok p : c_ver p = 1 -> c_codec p < two63 -> c_mhcode p < two63 ->
  blen (c_digest p) <= max_int32 -> blen (c_digest p) <= max_digest_alloc -> cid_rd_ok (cid_enc p).
Proof. intros. exists p. split; [right; auto|auto]. Qed.

Example ex_hdr_ok : hdr_ok dec_header_canon ex_hb ex_roots.
Proof. split; [vm_compute; reflexivity|nle]. Qed.

Example ex_blocks_ok : blocks_ok ex_bs.
Proof.
  unfold blocks_ok, ex_bs.
  repeat (constructor; [split; [apply ex_cid_rd_ok; try reflexivity; try nlt; nle|split; [nle|nlt]]|]).
  constructor.
Qed.

Example ex_hashes_ok : hashes_ok hok_true ex_bs.
Proof.
  unfold hashes_ok, ex_bs.
  repeat (constructor; [intros p Hp; vm_compute in Hp; inversion Hp; subst; reflexivity|]).
  constructor.
Qed.

Example ex_indexable : cids_indexable ex_bs.
Proof. unfold cids_indexable, ex_bs. repeat (constructor; [nle|]). constructor. Qed.

Example ex_valid_v1 : valid_input ex_hb ex_bs ex_v1.
Proof. apply VI_v1. nlt. Qed.

Example ex_valid_v2 : valid_input ex_hb ex_bs ex_v2.
Proof. apply VI_v2; nlt. Qed.

Example ex_reencode : reencode_header ex_hb ex_roots 1 = ex_hb.
Proof. reflexivity. Qed.

Example ex_filter_hdr_ok : hdr_ok dec_header_canon (filter_hb ex_sel false ex_roots) (filter_roots ex_sel false ex_roots).
Proof. split; [vm_compute; reflexivity|nle]. Qed.

(* the filter keeps the first kc1 block only: the identity block and the duplicate are dropped *)
Example ex_filter_spec : filter_spec ex_sel false ex_bs = [(kc1, [x61])].
Proof. vm_compute. reflexivity. Qed.

(* ---- every theorem of props/C19.v on this instance ----------------------------------------------- *)
Example ex_list : list_car hok_true dec_header_canon ex_v2 = (true, [kc1; kci; kc2; kc1]).
Proof.
  exact (list_car_valid hok_true dec_header_canon dec_header_pragma ex_hb ex_roots ex_bs ex_v2
           ex_hdr_ok ex_blocks_ok ex_hashes_ok ex_valid_v2).
Qed.

Example ex_root : root_car dec_header_canon ex_v2 = (true, ex_roots).
Proof. exact (root_car_valid hok_true dec_header_canon dec_header_pragma ex_hb ex_roots ex_bs ex_v2 ex_hdr_ok ex_valid_v2). Qed.

Example ex_filter_v1 :
  exists out, filter_car hok_true dec_header_canon ex_sel false 1 false ex_v2 None = (true, Some out) /\
    br_read_all hok_true dec_header_canon default_ropts out = Ok (1, [kc1], mkscan [(kc1, [x61])] EEof).
Proof.
  exact (filter_v1_reads_back hok_true dec_header_canon dec_header_pragma ex_sel false ex_hb ex_roots ex_bs ex_v2
           ex_hdr_ok ex_blocks_ok ex_hashes_ok ex_indexable ex_valid_v2 ex_filter_hdr_ok None).
Qed.

Example ex_filter_v2_size :
  51 + blen (payload_hb (filter_hb ex_sel false ex_roots) (filter_spec ex_sel false ex_bs))
     + blen (idx_write (filter_index (filter_hb ex_sel false ex_roots) (filter_spec ex_sel false ex_bs))) < two63.
Proof. nlt. Qed.

Example ex_filter_v2 :
  exists out, filter_car hok_true dec_header_canon ex_sel false 2 false ex_v1 (Some ex_v2) = (true, Some out) /\
    br_read_all hok_true dec_header_canon default_ropts out = Ok (2, [kc1], mkscan [(kc1, [x61])] EEof).
Proof.
  exact (filter_v2_reads_back hok_true dec_header_canon dec_header_pragma ex_sel false ex_hb ex_roots ex_bs ex_v1
           ex_hdr_ok ex_blocks_ok ex_hashes_ok ex_indexable ex_valid_v1 ex_filter_hdr_ok (Some ex_v2) ex_filter_v2_size).
Qed.

Example ex_closed_filter_v1 :
  exists out st, filter_car hok_true dec_header_canon ex_sel false 1 false ex_v2 None = (true, Some out) /\
    inspect_car hok_true dec_header_canon true out = Ok st /\ is_count st = 1.
Proof.
  exact (closed_inspect_filter_v1 hok_true dec_header_canon dec_header_pragma ex_sel false ex_hb ex_roots ex_bs ex_v2
           ex_hdr_ok ex_blocks_ok ex_hashes_ok ex_indexable ex_valid_v2 ex_filter_hdr_ok None).
Qed.

Example ex_closed_verify_filter_v1 :
  exists out, filter_car hok_true dec_header_canon ex_sel false 1 false ex_v2 None = (true, Some out) /\
    verify_car hok_true dec_header_canon out = Ok tt.
Proof.
  apply (closed_verify_filter_v1 hok_true dec_header_canon dec_header_pragma ex_sel false ex_hb ex_roots ex_bs ex_v2
           ex_hdr_ok ex_blocks_ok ex_hashes_ok ex_indexable ex_valid_v2 ex_filter_hdr_ok None).
  - vm_compute. discriminate.
  - vm_compute. reflexivity.
Qed.

Example ex_closed_filter_v2 :
  exists out st, filter_car hok_true dec_header_canon ex_sel false 2 false ex_v1 None = (true, Some out) /\
    inspect_car hok_true dec_header_canon true out = Ok st /\ is_count st = 1 /\ is_idx_codec st = codec_mh_sorted.
Proof.
  exact (closed_inspect_filter_v2 hok_true dec_header_canon dec_header_pragma ex_sel false ex_hb ex_roots ex_bs ex_v1
           ex_hdr_ok ex_blocks_ok ex_hashes_ok ex_indexable ex_valid_v1 ex_filter_hdr_ok None ex_filter_v2_size).
Qed.

(* the guard of the partial verify theorem is true here (and is evaluated on every generated case) *)
Example ex_closed_verify_filter_v2 :
  exists out, filter_car hok_true dec_header_canon ex_sel false 2 false ex_v1 None = (true, Some out) /\
    verify_car hok_true dec_header_canon out = Ok tt.
Proof.
  apply (closed_verify_filter_v2_guarded hok_true dec_header_canon dec_header_pragma ex_sel false ex_hb ex_roots ex_bs ex_v1
           ex_hdr_ok ex_blocks_ok ex_hashes_ok ex_indexable ex_valid_v1 ex_filter_hdr_ok None ex_filter_v2_size).
  - vm_compute. discriminate.
  - vm_compute. reflexivity.
  - vm_compute. reflexivity.
Qed.

Example ex_index_size : 51 + blen (payload_hb ex_hb ex_bs) < two64.
Proof. nlt. Qed.

Example ex_index_mh :
  exists ibytes,
    index_car dec_header_canon 0 2 ex_v1 = (true, Some (v2file 0 0 0 (51 + blen ex_v1) ex_v1 ibytes)) /\
    index_create dec_header_canon 0 ex_v1 = (true, Some ibytes) /\
    (51 + blen ex_v1 + blen ibytes < two63 ->
       index_create dec_header_canon 0 (v2file 0 0 0 (51 + blen ex_v1) ex_v1 ibytes) = (true, Some ibytes) /\
       detach_index dec_header_canon (v2file 0 0 0 (51 + blen ex_v1) ex_v1 ibytes) = (true, Some ibytes)).
Proof.
  exact (index_codec_summary hok_true dec_header_canon dec_header_pragma ex_hb ex_roots ex_bs ex_v1
           ex_hdr_ok ex_reencode ex_blocks_ok ex_valid_v1 0 codec_mh_sorted ex_indexable eq_refl ex_index_size).
Qed.

(* three records (the identity block has none), two of them for the duplicated CID *)
Example ex_regen_records : map r_off (regen_records_hb ex_hb ex_bs) = [59; 106; 145].
Proof. vm_compute. reflexivity. Qed.

Example ex_index_sorted_size :
  51 + blen (payload_hb ex_hb ex_bs) + blen (idx_write (idx_load (regen_records_hb ex_hb ex_bs) (IdxSorted []))) < two63.
Proof. nlt. Qed.

Example ex_closed_index_sorted :
  exists out st, index_car dec_header_canon 2 2 ex_v2 = (true, Some out) /\
    inspect_car hok_true dec_header_canon true out = Ok st /\ is_count st = 4 /\ is_idx_codec st = codec_sorted.
Proof.
  exact (closed_inspect_index_codec hok_true dec_header_canon dec_header_pragma ex_hb ex_roots ex_bs ex_v2
           ex_hdr_ok ex_reencode ex_blocks_ok ex_valid_v2 2 codec_sorted (IdxSorted []) eq_refl eq_refl ex_hashes_ok
           ex_index_sorted_size).
Qed.

Example ex_closed_verify_index_sorted :
  exists out, index_car dec_header_canon 2 2 ex_v2 = (true, Some out) /\ verify_car hok_true dec_header_canon out = Ok tt.
Proof.
  apply (closed_verify_index_codec_guarded hok_true dec_header_canon dec_header_pragma ex_hb ex_roots ex_bs ex_v2
           ex_hdr_ok ex_reencode ex_blocks_ok ex_valid_v2 2 codec_sorted (IdxSorted []) eq_refl eq_refl ex_hashes_ok).
  - discriminate.
  - vm_compute. reflexivity.
  - exact ex_index_sorted_size.
  - vm_compute. reflexivity.
Qed.

Example ex_index_none :
  index_car dec_header_canon 1 2 ex_v2 = (true, Some (indexless_file ex_hb ex_bs)) /\
  (exists st, inspect_car hok_true dec_header_canon true (indexless_file ex_hb ex_bs) = Ok st /\ is_count st = 4) /\
  (ex_roots <> [] -> roots_present ex_roots ex_bs = true ->
   verify_car hok_true dec_header_canon (indexless_file ex_hb ex_bs) = Ok tt).
Proof.
  apply (index_none_closed hok_true dec_header_canon dec_header_pragma ex_hb ex_roots ex_bs ex_v2
           ex_hdr_ok ex_reencode ex_blocks_ok ex_valid_v2 ex_hashes_ok). nlt.
Qed.

Example ex_index_v1 :
  index_car dec_header_canon 0 1 ex_v2 = (true, Some ex_v1) /\
  (exists st, inspect_car hok_true dec_header_canon true ex_v1 = Ok st /\ is_count st = 4) /\
  (ex_roots <> [] -> roots_present ex_roots ex_bs = true -> verify_car hok_true dec_header_canon ex_v1 = Ok tt).
Proof.
  exact (index_v1_closed hok_true dec_header_canon dec_header_pragma ex_hb ex_roots ex_bs ex_v2
           ex_hdr_ok ex_reencode ex_blocks_ok ex_valid_v2 0 (or_introl eq_refl) ex_hashes_ok).
Qed.

Example ex_verify_rootless :
  verify_car hok_true dec_header_canon (payload_hb (enc_header (Some []) 1) ex_bs) = Err EOther.
Proof.
  apply (verify_rootless hok_true dec_header_canon dec_header_pragma (enc_header (Some []) 1) ex_bs).
  - split; [vm_compute; reflexivity|nle].
  - apply VI_v1. nlt.
Qed.

(* ---- car concat ------------------------------------------------------------------------------------------ *)
Definition ex_cin1 : cin := (ex_v2, ex_roots, ex_bs).
Definition ex_cin2 : cin := (ex_v1, ex_roots, ex_bs).

Example ex_cin_ok : Forall (cin_ok dec_header_canon) [ex_cin1; ex_cin2].
Proof.
  repeat constructor; try (intro H; discriminate H); try exact ex_hdr_ok; try exact ex_valid_v2; exact ex_valid_v1.
Qed.

Example ex_concat_v1 :
  let out := payload_hb ex_hb (ex_bs ++ ex_bs) in
  concat_car dec_header_canon 1 [ex_v2; ex_v1] = (true, Some out) /\
  br_read_all hok_true dec_header_canon default_ropts out = Ok (1, ex_roots, mkscan (ex_bs ++ ex_bs) EEof) /\
  (exists st, inspect_car hok_true dec_header_canon true out = Ok st /\ is_count st = 8) /\
  (roots_present ex_roots (ex_bs ++ ex_bs) = true -> verify_car hok_true dec_header_canon out = Ok tt).
Proof.
  pose proof (concat_v1_closed hok_true dec_header_canon dec_header_pragma 1 ex_cin1 [ex_cin2]) as H.
  cbn [all_blocks map cin_blocks cin_file cin_hb cin_roots concat ex_cin1 ex_cin2 fst snd] in H.
  rewrite app_nil_r in H. apply H.
  - discriminate.
  - exact ex_cin_ok.
  - constructor; [split; [exact ex_blocks_ok|exact ex_hashes_ok]|].
    constructor; [split; [exact ex_blocks_ok|exact ex_hashes_ok]|constructor].
Qed.

(* --version 2: the inputs satisfy every hypothesis of the concat theorem, the command exits 0, and what
   it wrote (a bare 40-byte header in front of the CARv1, no pragma) is rejected by the BlockReader and
   by inspect --full *)
Theorem concat_v2_witness :
  Forall (cin_ok dec_header_canon) [ex_cin1; ex_cin2] /\
  exists out, concat_car dec_header_canon 2 (map cin_file [ex_cin1; ex_cin2]) = (true, Some out) /\
    br_read_all hok_true dec_header_canon default_ropts out = Err EOther /\
    inspect_car hok_true dec_header_canon true out = Err EOther /\
    verify_car hok_true dec_header_canon out = Err EOther.
Proof.
  split; [exact ex_cin_ok|]. eexists. split; [vm_compute; reflexivity|].
  split; [vm_compute; reflexivity|]. split; vm_compute; reflexivity.
Qed.

(* the full-strength concat clause instantiated at --version 2 is false: every hypothesis of
   concat_v1_closed except ver <> 2 holds of this instance, and its conclusion fails *)
Theorem concat_v2_refuted :
  exists hok hdrdec x xs,
    hdrdec pragma_body = Some ([], 2) /\
    Forall (cin_ok hdrdec) (x :: xs) /\
    Forall (fun y => blocks_ok (cin_blocks y) /\ hashes_ok hok (cin_blocks y)) (x :: xs) /\
    exists out, concat_car hdrdec 2 (map cin_file (x :: xs)) = (true, Some out) /\
      br_read_all hok hdrdec default_ropts out = Err EOther /\
      inspect_car hok hdrdec true out = Err EOther /\
      verify_car hok hdrdec out = Err EOther.
Proof.
  exists hok_true, dec_header_canon, ex_cin1, [ex_cin2].
  split; [exact dec_header_pragma|]. split; [exact ex_cin_ok|]. split.
  - constructor; [split; [exact ex_blocks_ok|exact ex_hashes_ok]|].
    constructor; [split; [exact ex_blocks_ok|exact ex_hashes_ok]|constructor].
  - exact (proj2 concat_v2_witness).
Qed.

(* ---- car filter --append -------------------------------------------------------------------------------------- *)
(* the existing output: the index-less CARv2 (no padding) of the same archive; appended: kc2's block is
   already there (same multihash), nothing new is added, the identity block of the selection is dropped *)
Definition ex_out0 : bytes := v2file 0 0 0 0 ex_v1 [].

Example ex_filter_append :
  exists out st_,
    filter_car hok_true dec_header_canon [kc2; kci] false 2 true ex_v2 (Some ex_out0) = (true, Some out) /\
    br_read_all hok_true dec_header_canon default_ropts out = Ok (2, ex_roots, mkscan ex_bs EEof) /\
    inspect_car hok_true dec_header_canon true out = Ok st_ /\ is_count st_ = 4.
Proof.
  pose proof (filter_append_reads_back hok_true dec_header_canon dec_header_pragma [kc2; kci] false ex_hb ex_roots ex_bs ex_v2
                ex_hb ex_roots ex_bs 0 0 0 [] ex_hdr_ok ex_blocks_ok ex_hashes_ok ex_indexable ex_valid_v2
                ex_hdr_ok eq_refl ex_blocks_ok ex_hashes_ok) as H.
  assert (Hd : ex_bs ++ dedup_from (map fst ex_bs) (filter (fun b => match_filter [kc2; kci] false (fst b)) ex_bs) = ex_bs)
    by (vm_compute; reflexivity).
  cbv zeta in H. rewrite Hd in H. apply H; nlt.
Qed.

(* ---- car get-block ------------------------------------------------------------------------------------------ *)
Example ex_no_index : no_index_input ex_hb ex_bs ex_v2.
Proof. right. exists 0, 0, 7, []. repeat split; nlt. Qed.

Example ex_get_block :
  exists c d, In (c, d) ex_bs /\ same_mh c kc2 = true /\ get_block dec_header_canon ex_v2 kc2 = Ok d.
Proof.
  apply (get_block_generated hok_true dec_header_canon dec_header_pragma ex_hb ex_roots ex_bs ex_v2 kc2 xp2
           ex_hdr_ok ex_blocks_ok ex_indexable ex_no_index); vm_compute; reflexivity.
Qed.
Example ex_get_block_value : get_block dec_header_canon ex_v2 kc2 = Ok [x62; x63].
Proof. vm_compute. reflexivity. Qed.

Example ex_get_block_identity : get_block dec_header_canon ex_v2 kci = Ok [x69; x64].
Proof.
  exact (get_block_identity hok_true dec_header_canon dec_header_pragma ex_hb ex_roots ex_bs ex_v2 kci xpi
           ex_hdr_ok ex_blocks_ok ex_indexable ex_no_index eq_refl eq_refl).
Qed.

Example ex_get_block_absent :
  get_block dec_header_canon ex_v2 (cid_enc (mkcid 1 85 18 (x00 :: tl dg_bc))) = Err ENotFound.
Proof.
  apply (get_block_generated_absent hok_true dec_header_canon dec_header_pragma ex_hb ex_roots ex_bs ex_v2 _
           (mkcid 1 85 18 (x00 :: tl dg_bc)) ex_hdr_ok ex_blocks_ok ex_indexable ex_no_index); vm_compute; reflexivity.
Qed.

(* ---- round 2: the full theorems (guards discharged) on the same instance ------------------------------------ *)
Example ex_full_verify_index :
  exists out, index_car dec_header_canon 0 2 ex_v2 = (true, Some out) /\ verify_car hok_true dec_header_canon out = Ok tt.
Proof.
  apply (closed_verify_index hok_true dec_header_canon dec_header_pragma ex_hb ex_roots ex_bs ex_v2 0 codec_mh_sorted (IdxMh [])
           ex_hdr_ok ex_reencode ex_blocks_ok ex_valid_v2 eq_refl eq_refl ex_hashes_ok).
  - discriminate.
  - vm_compute. reflexivity.
  - nlt.
  - intros _. nlt.
Qed.

Example ex_full_verify_filter_v2 :
  exists out, filter_car hok_true dec_header_canon ex_sel false 2 false ex_v1 None = (true, Some out) /\
    verify_car hok_true dec_header_canon out = Ok tt.
Proof.
  apply (closed_verify_filter_v2 hok_true dec_header_canon dec_header_pragma ex_sel false ex_hb ex_roots ex_bs ex_v1 None
           ex_hdr_ok ex_blocks_ok ex_hashes_ok ex_indexable ex_valid_v1 ex_filter_hdr_ok ex_filter_v2_size).
  - vm_compute. discriminate.
  - vm_compute. reflexivity.
  - nlt.
Qed.

Example ex_full_get_block_present :
  exists c d, In (c, d) ex_bs /\ same_mh c kc2 = true /\ get_block dec_header_canon ex_v2 kc2 = Ok d.
Proof.
  apply (get_block_present hok_true dec_header_canon dec_header_pragma ex_hb ex_roots ex_bs ex_v2 kc2 xp2
           ex_hdr_ok ex_blocks_ok ex_indexable ex_no_index); vm_compute; reflexivity.
Qed.

Example ex_full_get_block_absent :
  get_block dec_header_canon ex_v2 (cid_enc (mkcid 1 85 18 (x00 :: tl dg_bc))) = Err ENotFound.
Proof.
  apply (get_block_absent hok_true dec_header_canon dec_header_pragma ex_hb ex_roots ex_bs ex_v2 _
           (mkcid 1 85 18 (x00 :: tl dg_bc)) ex_hdr_ok ex_blocks_ok ex_indexable ex_no_index); vm_compute; reflexivity.
Qed.

(* get-block on what `car index --codec car-index-sorted` wrote for the archive (digest-only index) *)
Example ex_full_get_block_own_index :
  exists c d, In (c, d) ex_bs /\ same_mh c kc2 = true /\
    get_block dec_header_canon
      (v2file 0 0 0 (51 + 0 + blen ex_v1 + 0) ex_v1
              (zerosN 0 ++ idx_write (idx_load (regen_records_hb ex_hb ex_bs) (IdxSorted [])) ++ [])) kc2 = Ok d.
Proof.
  apply (get_block_own_index_present hok_true dec_header_canon dec_header_pragma ex_hb ex_roots ex_bs 0 0 0 0
           (regen_records_hb ex_hb ex_bs) (IdxSorted []) [] ex_hdr_ok ex_blocks_ok) with (kp := xp2);
    try nlt; try (vm_compute; reflexivity); try (left; reflexivity); try apply regen_describes;
    try apply length_regen; try exact I.
Qed.

Example ex_full_detach_list :
  exists ibytes l,
    index_create dec_header_canon 0 ex_v2 = (true, Some ibytes) /\
    detach_list ibytes = (true, l) /\
    Permutation.Permutation l (map (fun r => (mh_enc (r_code r) (r_digest r), r_off r)) (regen_records_hb ex_hb ex_bs)).
Proof.
  apply (detach_list_of_index_create hok_true dec_header_canon dec_header_pragma ex_hb ex_roots ex_bs ex_v2 0
           ex_hdr_ok ex_blocks_ok ex_indexable ex_valid_v2 eq_refl); nlt.
Qed.

Example ex_inspect_quick :
  inspect_car hok_true dec_header_canon false ex_v2
  = Ok (mkis 2 (mkv2 0 0 (51 + 7) (blen ex_v1) 0) ex_roots (map isec_of ex_bs) 0 (blen ex_v1)).
Proof.
  apply (inspect_quick_v2_indexless hok_true dec_header_canon dec_header_pragma ex_hb ex_roots ex_bs 0 0 7 []
           ex_hdr_ok ex_blocks_ok); nlt.
Qed.

(* ---- round 4: car get-dag on the same archive, with a load sequence that repeats a CID and contains an
   identity block (kc1 kci kc2 kc1): --version 1 keeps kc1 kci kc2, --version 2 keeps kc1 kc2 -------------- *)
Example ex_opens : exists r, opens dec_header_canon ex_v2 r /\ reader_roots dec_header_canon r ex_v2 = Ok ex_roots.
Proof.
  exact (opens_no_index hok_true dec_header_canon dec_header_pragma ex_hb ex_roots ex_bs ex_v2
           ex_hdr_ok ex_blocks_ok ex_indexable ex_no_index).
Qed.

Example ex_dag_hdr_ok : hdr_ok dec_header_canon (dag_hb kc1) [kc1].
Proof. split; [vm_compute; reflexivity|nle]. Qed.

Example ex_get_dag_v1 :
  exists r, opens dec_header_canon ex_v2 r /\
    get_dag dec_header_canon 1 None ex_bs true ex_v2 None
    = (true, Some (payload_hb (dag_hb kc1) [(kc1, [x61]); (kci, [x69; x64]); (kc2, [x62; x63])])).
Proof.
  destruct ex_opens as (r & Ho & Hr). exists r. split; [exact Ho|].
  rewrite (get_dag_root_from_archive hok_true dec_header_canon dec_header_pragma 1 ex_v2 r kc1 ex_bs true None Ho Hr).
  rewrite (get_dag_v1 hok_true dec_header_canon dec_header_pragma ex_v2 r kc1 ex_bs true None Ho).
  reflexivity.
Qed.

Example ex_get_dag_v2_closed :
  exists out st,
    get_dag dec_header_canon 2 (Some kc1) ex_bs true ex_v2 None = (true, Some out) /\
    br_read_all hok_true dec_header_canon default_ropts out = Ok (2, [kc1], mkscan [(kc1, [x61]); (kc2, [x62; x63])] EEof) /\
    inspect_car hok_true dec_header_canon true out = Ok st /\ is_count st = 2 /\
    verify_car hok_true dec_header_canon out = Ok tt.
Proof.
  destruct ex_opens as (r & Ho & _).
  destruct (get_dag_v2_closed hok_true dec_header_canon dec_header_pragma ex_v2 r kc1 ex_bs None Ho
              ex_blocks_ok ex_hashes_ok ex_dag_hdr_ok ex_indexable) as (H1 & H2 & (st & H3 & H4) & H5); [nlt|].
  do 2 eexists. split; [exact H1|]. split; [exact H2|]. split; [exact H3|]. split; [exact H4|].
  apply H5; [vm_compute; reflexivity|nlt].
Qed.

Example ex_get_dag_v1_closed :
  let out := payload_hb (dag_hb kc1) (first_occ ex_bs) in
  get_dag dec_header_canon 1 (Some kc1) ex_bs true ex_v2 None = (true, Some out) /\
  verify_car hok_true dec_header_canon out = Ok tt.
Proof.
  destruct ex_opens as (r & Ho & _).
  destruct (get_dag_v1_closed hok_true dec_header_canon dec_header_pragma ex_v2 r kc1 ex_bs None Ho
              ex_blocks_ok ex_hashes_ok ex_dag_hdr_ok) as (H1 & _ & _ & H5).
  split; [exact H1|]. apply H5. vm_compute. reflexivity.
Qed.

(* the two versions agree on a load sequence without identity CIDs and multihash twins *)
Example ex_versions_agree :
  first_occ [(kc1, [x61]); (kc2, [x62; x63]); (kc1, [x61])] = dedup_blocks [(kc1, [x61]); (kc2, [x62; x63]); (kc1, [x61])].
Proof.
  apply first_occ_eq_dedup. intros c Hc. cbn [map fst In] in Hc.
  destruct Hc as [<-|[<-|[<-|[]]]]; (split; [vm_compute; reflexivity|split; [vm_compute; reflexivity|]]);
    intros c' Hc'; cbn [map fst In] in Hc'; destruct Hc' as [<-|[<-|[<-|[]]]]; intros Hs; try reflexivity;
    vm_compute in Hs; discriminate.
Qed.

(* ---- round 6: a pipe on standard input, debug | compile, list --unixfs ------------------------------ *)
Example ex_list_stdin :
  list_car_stdin true hok_true dec_header_canon ex_v2 = (true, [kc1; kci; kc2; kc1]) /\
  root_car_stdin true dec_header_canon ex_v2 = (true, ex_roots).
Proof.
  exact (list_stdin_valid hok_true dec_header_canon dec_header_pragma ex_hb ex_roots ex_bs ex_v2
           ex_hdr_ok ex_blocks_ok ex_hashes_ok ex_valid_v2).
Qed.

(* before the fix *)
Example ex_list_stdin_v1 : list_car_stdin false hok_true dec_header_canon ex_v1 = (true, [kc1; kci; kc2; kc1]).
Proof.
  exact (proj1 (list_stdin_v1 hok_true dec_header_canon dec_header_pragma ex_hb ex_roots ex_bs
                  ex_hdr_ok ex_blocks_ok ex_hashes_ok ltac:(nlt))).
Qed.

Example ex_list_stdin_v2_refused :
  list_car hok_true dec_header_canon ex_v2 = (true, [kc1; kci; kc2; kc1]) /\
  list_car_stdin false hok_true dec_header_canon ex_v2 = (false, []) /\
  root_car_stdin false dec_header_canon ex_v2 = (false, []).
Proof.
  destruct (list_stdin_v2_refused hok_true dec_header_canon dec_header_pragma ex_hb ex_roots ex_bs 0 0 7 0 []
              ex_hdr_ok ex_blocks_ok ex_hashes_ok ltac:(nlt) ltac:(nlt) ltac:(nlt) ltac:(nlt)) as (H1 & _ & H3 & H4).
  split; [exact H1|]. split; [exact H3|exact H4].
Qed.

(* compile's order is not determined; here the ascending-CID order of the executable model *)
Example ex_compile :
  let out := compile_out ex_roots (sort_blocks (first_occ ex_bs)) in
  br_read_all hok_true dec_header_canon default_ropts out
  = Ok (1, ex_roots, mkscan [(kci, [x69; x64]); (kc1, [x61]); (kc2, [x62; x63])] EEof) /\
  verify_car hok_true dec_header_canon out = Ok tt.
Proof.
  destruct (compile_any_order hok_true dec_header_canon dec_header_pragma ex_roots ex_bs (sort_blocks (first_occ ex_bs))
              ex_hdr_ok ex_blocks_ok ex_hashes_ok (sort_blocks_perm _)) as (H1 & _ & H3).
  split; [exact H1|]. apply H3; [discriminate|vm_compute; reflexivity].
Qed.

Definition ex_utree : utree :=
  UDir [([x61], UFile [x31]); ([x64], UDir [([x62], ULink [x61]); ([x63], UFile [])]); ([x65], UDir [])].
Example ex_ulist :
  ulist_roots [RRaw; RNode ex_utree]
  = ([[x61]; [x64]; [x64; x2f; x62]; [x64; x2f; x63]; [x65]], true).
Proof. reflexivity. Qed.
Example ex_ulist_whole : snd (ulist_tree [] ex_utree) = true /\ length (fst (ulist_tree [] ex_utree)) = 5%nat.
Proof. exact (ulist_whole ex_utree [] eq_refl). Qed.
Example ex_ulist_missing :
  ulist_roots [RNode (UDir [([x61], UFile []); ([x62], UMissing); ([x63], UFile [])])] = ([[x61]; [x62]], false).
Proof. reflexivity. Qed.

(* ---- the same bytes as the replayed corpus case ---------------------------------------------------- *)
(* corpus/C19/ex-theorem-instances.case, cli-000005: the input file of `car index` and what the real
   tool wrote for it *)
Definition ex_v1_on_disk : bytes :=
  [x3a; xa2; x65; x72; x6f; x6f; x74; x73; x81; xd8; x2a; x58; x25; x00; x01; x55; x12; x20; xca; x97; x81; x12; xca; x1b; xbd; xca; xfa; xc2; x31; xb3; x9a; x23; xdc; x4d; xa7; x86; xef; xf8; x14; x7c; x4e; x72; xb9; x80; x77; x85; xaf; xee; x48; xbb; x67; x76; x65; x72; x73; x69; x6f; x6e; x01; x25; x01; x55; x12; x20; xca; x97; x81; x12; xca; x1b; xbd; xca; xfa; xc2; x31; xb3; x9a; x23; xdc; x4d; xa7; x86; xef; xf8; x14; x7c; x4e; x72; xb9; x80; x77; x85; xaf; xee; x48; xbb; x61; x08; x01; x55; x00; x02; x69; x64; x69; x64; x26; x01; x71; x12; x20; x1e; x0b; xbd; x6c; x68; x6b; xa0; x50; xb8; xeb; x03; xff; xee; xdc; x64; xfd; xc9; xd8; x09; x47; xfc; xe8; x21; xab; xbe; x5d; x6d; xc8; xd2; x52; xc5; xac; x62; x63; x25; x01; x55; x12; x20; xca; x97; x81; x12; xca; x1b; xbd; xca; xfa; xc2; x31; xb3; x9a; x23; xdc; x4d; xa7; x86; xef; xf8; x14; x7c; x4e; x72; xb9; x80; x77; x85; xaf; xee; x48; xbb; x61].
Definition ex_index_mh_on_disk : bytes :=
  [x0a; xa1; x67; x76; x65; x72; x73; x69; x6f; x6e; x02; x00; x00; x00; x00; x00; x00; x00; x00; x00; x00; x00; x00; x00; x00; x00; x00; x33; x00; x00; x00; x00; x00; x00; x00; xb7; x00; x00; x00; x00; x00; x00; x00; xea; x00; x00; x00; x00; x00; x00; x00; x3a; xa2; x65; x72; x6f; x6f; x74; x73; x81; xd8; x2a; x58; x25; x00; x01; x55; x12; x20; xca; x97; x81; x12; xca; x1b; xbd; xca; xfa; xc2; x31; xb3; x9a; x23; xdc; x4d; xa7; x86; xef; xf8; x14; x7c; x4e; x72; xb9; x80; x77; x85; xaf; xee; x48; xbb; x67; x76; x65; x72; x73; x69; x6f; x6e; x01; x25; x01; x55; x12; x20; xca; x97; x81; x12; xca; x1b; xbd; xca; xfa; xc2; x31; xb3; x9a; x23; xdc; x4d; xa7; x86; xef; xf8; x14; x7c; x4e; x72; xb9; x80; x77; x85; xaf; xee; x48; xbb; x61; x08; x01; x55; x00; x02; x69; x64; x69; x64; x26; x01; x71; x12; x20; x1e; x0b; xbd; x6c; x68; x6b; xa0; x50; xb8; xeb; x03; xff; xee; xdc; x64; xfd; xc9; xd8; x09; x47; xfc; xe8; x21; xab; xbe; x5d; x6d; xc8; xd2; x52; xc5; xac; x62; x63; x25; x01; x55; x12; x20; xca; x97; x81; x12; xca; x1b; xbd; xca; xfa; xc2; x31; xb3; x9a; x23; xdc; x4d; xa7; x86; xef; xf8; x14; x7c; x4e; x72; xb9; x80; x77; x85; xaf; xee; x48; xbb; x61; x81; x08; x01; x00; x00; x00; x12; x00; x00; x00; x00; x00; x00; x00; x01; x00; x00; x00; x28; x00; x00; x00; x78; x00; x00; x00; x00; x00; x00; x00; x1e; x0b; xbd; x6c; x68; x6b; xa0; x50; xb8; xeb; x03; xff; xee; xdc; x64; xfd; xc9; xd8; x09; x47; xfc; xe8; x21; xab; xbe; x5d; x6d; xc8; xd2; x52; xc5; xac; x6a; x00; x00; x00; x00; x00; x00; x00; xca; x97; x81; x12; xca; x1b; xbd; xca; xfa; xc2; x31; xb3; x9a; x23; xdc; x4d; xa7; x86; xef; xf8; x14; x7c; x4e; x72; xb9; x80; x77; x85; xaf; xee; x48; xbb; x3b; x00; x00; x00; x00; x00; x00; x00; xca; x97; x81; x12; xca; x1b; xbd; xca; xfa; xc2; x31; xb3; x9a; x23; xdc; x4d; xa7; x86; xef; xf8; x14; x7c; x4e; x72; xb9; x80; x77; x85; xaf; xee; x48; xbb; x91; x00; x00; x00; x00; x00; x00; x00].

Example ex_v1_is_the_corpus_file : ex_v1 = ex_v1_on_disk.
Proof. vm_compute. reflexivity. Qed.

Example ex_index_mh_is_what_the_tool_wrote :
  index_car dec_header_canon 0 2 ex_v1 = (true, Some ex_index_mh_on_disk).
Proof. vm_compute. reflexivity. Qed.
