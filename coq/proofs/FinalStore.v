(* C05 layout: the store invariant over put histories and what Finalize leaves in the file. *)
From GoCar Require Import Bytes Varint Cid Header Frame V2Header Scan Index Store Wf.
From GoCarProofs Require Import BytesFacts VarintFacts ScanFacts FinalBytes.

(* the options fit Go's uint64 header arithmetic *)
Definition opts_fit (o : wopts) : Prop := 51 + w_dpad o + w_ipad o < two64.

Lemma wrap64_small n : n < two64 -> wrap64 n = n.
Proof. intros H. unfold wrap64. apply N.mod_small. exact H. Qed.

Lemma hdr_of_fields o : opts_fit o ->
  hdr_of o = mkv2 0 0 (51 + w_dpad o) 0 (51 + w_dpad o + w_ipad o).
Proof.
  unfold opts_fit, hdr_of, new_header, with_data_padding, with_index_padding. intros H.
  cbn [h_hi h_lo h_doff h_dsize h_ioff]. rewrite (wrap64_small (51 + 0)) by (unfold two64 in *; lia).
  destruct (0 <? w_dpad o) eqn:Ed; destruct (0 <? w_ipad o) eqn:Ei; cbn [h_hi h_lo h_doff h_dsize h_ioff].
  - rewrite !wrap64_small; try (unfold two64 in *; lia).
    + f_equal; lia.
    + rewrite wrap64_small; unfold two64 in *; lia.
  - rewrite !wrap64_small by (unfold two64 in *; lia). f_equal; lia.
  - rewrite !wrap64_small by (unfold two64 in *; lia). f_equal; lia.
  - f_equal; lia.
Qed.

Lemma data_base_eq o : opts_fit o -> data_base o = if w_v1 o then 0 else 51 + w_dpad o.
Proof. intros H. unfold data_base. rewrite hdr_of_fields by exact H. reflexivity. Qed.

Lemma final_hdr_eq o n : opts_fit o -> 51 + w_dpad o + n + w_ipad o < two64 ->
  set_fully_indexed (w_storeid o) (with_data_size n (hdr_of o)) = final_hdr o n.
Proof.
  intros Ho Hn. rewrite hdr_of_fields by exact Ho.
  unfold set_fully_indexed, with_data_size, final_hdr. cbn [h_hi h_lo h_doff h_dsize h_ioff].
  rewrite wrap64_small by lia. destruct (w_storeid o); f_equal; try lia; reflexivity.
Qed.

(* what is in the file before the payload *)
Definition prefix (o : wopts) : bytes := if w_v1 o then [] else pragma ++ zerosN (40 + w_dpad o).
Lemma blen_prefix o : opts_fit o -> blen (prefix o) = data_base o.
Proof.
  intros H. rewrite data_base_eq by exact H. unfold prefix. destruct (w_v1 o); [reflexivity|].
  rewrite blen_app, blen_zerosN, blen_pragma. lia.
Qed.

Lemma blen_payload_opt ro bs : blen (payload_opt ro bs) = hdr_len ro + blen (enc_sections bs).
Proof. unfold payload_opt, hdr_len. rewrite blen_app, blen_ld. reflexivity. Qed.

Lemma enc_sections_app a b : enc_sections (a ++ b) = enc_sections a ++ enc_sections b.
Proof. unfold enc_sections. rewrite map_app, concat_app. reflexivity. Qed.
Lemma enc_sections_one c d : enc_sections [(c, d)] = enc_section c d.
Proof. unfold enc_sections. cbn. apply app_nil_r. Qed.

Lemma payload_opt_snoc ro bs c d :
  payload_opt ro (bs ++ [(c, d)]) = payload_opt ro bs ++ enc_section c d.
Proof. unfold payload_opt. rewrite enc_sections_app, enc_sections_one, app_assoc. reflexivity. Qed.

Lemma records_from_snoc bs : forall pos c d p, cid_parse c = Some p ->
  records_from pos (bs ++ [(c, d)]) =
  records_from pos bs ++ [mkrec c (c_mhcode p) (c_digest p) (pos + blen (enc_sections bs))].
Proof.
  induction bs as [|[c0 d0] bs IH]; intros pos c d p Hp.
  - cbn [app records_from]. rewrite Hp. unfold enc_sections. cbn. rewrite N.add_0_r. reflexivity.
  - cbn [app records_from].
    assert (E : pos + blen (enc_sections ((c0, d0) :: bs)) = pos + section_size c0 d0 + blen (enc_sections bs)).
    { unfold enc_sections. cbn [map concat fst snd]. rewrite blen_app, blen_enc_section. lia. }
    rewrite E. rewrite (IH _ c d p Hp). destruct (cid_parse c0); reflexivity.
Qed.

Lemma ii_load_snoc l r : ii_load (l ++ [r]) [] = ii_insert r (ii_load l []).
Proof. unfold ii_load. rewrite fold_left_app. reflexivity. Qed.

Lemma idx_of_snoc ro bs c d p : cid_parse c = Some p ->
  idx_of ro (bs ++ [(c, d)]) =
  ii_insert (mkrec c (c_mhcode p) (c_digest p) (blen (payload_opt ro bs))) (idx_of ro bs).
Proof.
  intros Hp. unfold idx_of. rewrite (records_from_snoc bs _ c d p Hp), ii_load_snoc.
  rewrite blen_payload_opt. reflexivity.
Qed.

(* ---- the invariant ------------------------------------------------------------------------------ *)
Record Inv (k : skind) (o : wopts) (roots : list bytes) (ro : option (list bytes))
           (s : wstate) (stored : list block) : Prop := mkInv {
  inv_file : ws_file s = prefix o ++ payload_opt ro stored;
  inv_idx : ws_idx s = idx_of ro stored;
  inv_pos : ws_pos s = blen (payload_opt ro stored);
  inv_faults : d_faults (ws_dev s) = [];
  inv_opts : ws_opts s = o;
  inv_kind : ws_kind s = k;
  inv_roots : ws_roots s = roots;
  inv_closed : ws_closed s = false;
  inv_fin : ws_finalized s = false }.

Lemma open_new_inv k o nilroots roots :
  opts_fit o -> (k = KStorage false -> w_v1 o = true) ->
  exists s, open_new k o nilroots roots [] = Ok s /\ Inv k o roots (roots_opt nilroots roots) s [].
Proof.
  intros Ho Hk. unfold open_new.
  assert (Hs : match k with KStorage false => negb (w_v1 o) | _ => false end = false).
  { destruct k as [|[|]]; try reflexivity. rewrite Hk by reflexivity. reflexivity. }
  rewrite Hs. set (ro := roots_opt nilroots roots).
  set (dv0 := mkdev [] [] []).
  assert (Hstep : exists dv1, (if w_v1 o then (dv0, true)
            else let '(d, _, ok) := dev_write dv0 0 pragma in (d, ok)) = (dv1, true) /\
            d_faults dv1 = [] /\ d_file dv1 = if w_v1 o then [] else pragma).
  { destruct (w_v1 o); [exists dv0; auto|]. unfold dev_write, dv0. cbn [d_faults d_file d_log].
    eexists. split; [reflexivity|]. split; reflexivity. }
  destruct Hstep as (dv1 & -> & Hf1 & Hfile1). cbn [negb].
  destruct (write_chunks_nofault (header_chunks nilroots roots) dv1 (data_base o) Hf1)
    as (dv2 & Hw & Hf2 & Hfile2).
  rewrite Hw. cbn [negb]. eexists. split; [reflexivity|].
  unfold header_chunks in *. change (roots_opt nilroots roots) with ro in Hfile2, Hw |- *.
  rewrite concat_ld_chunks1 in Hfile2. rewrite concat_ld_chunks1.
  assert (Hpay : payload_opt ro [] = ld (enc_header ro 1)).
  { unfold payload_opt, enc_sections. cbn. apply app_nil_r. }
  constructor; cbn [ws_file ws_dev ws_idx ws_pos ws_opts ws_kind ws_roots ws_closed ws_finalized]; try reflexivity.
  - unfold ws_file. cbn [ws_dev]. rewrite Hfile2, Hfile1, Hpay.
    rewrite data_base_eq by exact Ho. unfold prefix.
    destruct (w_v1 o).
    + rewrite write_at_end. reflexivity.
    + assert (Hne : ld (enc_header ro 1) <> []).
      { unfold ld. intros H. apply app_eq_nil in H. destruct H as [H _]. exact (put_uv_nonempty _ H). }
      rewrite write_at_beyond by (try exact Hne; rewrite blen_pragma; lia).
      rewrite blen_pragma. replace (51 + w_dpad o - 11) with (40 + w_dpad o) by lia.
      rewrite app_assoc. reflexivity.
  - rewrite Hpay. lia.
  - exact Hf2.
Qed.

(* one accepted block *)
Lemma put_one_accept k o roots ro s stored c d p :
  opts_fit o -> Inv k o roots ro s stored -> cid_parse c = Some p ->
  should_put o (idx_of ro stored) c p = Ok true ->
  exists s', put_one s c d p = (s', ONil) /\ Inv k o roots ro s' (stored ++ [(c, d)]).
Proof.
  intros Ho I Hp Hs. destruct I as [Hfile Hidx Hpos Hf Hopts Hkind Hroots Hcl Hfin].
  unfold put_one. rewrite Hopts, Hidx, Hs.
  destruct (write_chunks_nofault (ld_chunks [c; d]) (ws_dev s) (data_base o + ws_pos s) Hf)
    as (dv' & Hw & Hf' & Hfile').
  rewrite Hw. rewrite concat_ld_chunks2 in *.
  eexists. split; [reflexivity|].
  assert (Hend : data_base o + ws_pos s = blen (ws_file s)).
  { rewrite Hfile, blen_app, blen_prefix, Hpos by exact Ho. reflexivity. }
  constructor; cbn [set_idx set_dev ws_file ws_dev ws_idx ws_pos ws_opts ws_kind ws_roots ws_closed ws_finalized];
    try assumption.
  - unfold ws_file in *. cbn [ws_dev set_idx set_dev]. rewrite Hfile', Hend, write_at_end, Hfile.
    rewrite payload_opt_snoc, app_assoc. reflexivity.
  - symmetry. etransitivity; [exact (idx_of_snoc ro stored c d p Hp)|]. rewrite Hidx, Hpos. reflexivity.
  - rewrite payload_opt_snoc, blen_app, Hpos. lia.
Qed.

(* one put against the spec *)
Lemma put_one_spec k o roots ro s stored c d p :
  opts_fit o -> Inv k o roots ro s stored -> cid_parse c = Some p ->
  exists s' out, put_one s c d p = (s', out) /\
    Inv k o roots ro s' (fst (spec_put o ro stored (c, d))) /\
    (out = ONil <-> snd (spec_put o ro stored (c, d)) = false).
Proof.
  intros Ho I Hp. unfold spec_put. cbn [fst snd]. rewrite Hp.
  destruct (should_put o (idx_of ro stored) c p) as [[|]|e] eqn:Hs.
  - destruct (put_one_accept k o roots ro s stored c d p Ho I Hp Hs) as (s' & Hput & I').
    exists s', ONil. cbn [fst snd]. split; [exact Hput|]. split; [exact I'|]. split; reflexivity.
  - exists s, ONil. unfold put_one. destruct I as [Hfile Hidx Hpos Hf Hopts Hkind Hroots Hcl Hfin].
    rewrite Hopts, Hidx, Hs. cbn [fst snd]. split; [reflexivity|]. split; [constructor; assumption|].
    split; reflexivity.
  - exists s, (OErr e). unfold put_one. destruct I as [Hfile Hidx Hpos Hf Hopts Hkind Hroots Hcl Hfin].
    rewrite Hopts, Hidx, Hs. cbn [fst snd]. split; [reflexivity|]. split; [constructor; assumption|].
    split; intros H; discriminate.
Qed.

Lemma put_many_loop_spec k o roots ro b : forall s stored,
  opts_fit o -> Inv k o roots ro s stored ->
  exists s' out, put_many_loop s b = (s', out) /\ Inv k o roots ro s' (spec_batch true o ro stored b).
Proof.
  induction b as [|[c d] t IH]; intros s stored Ho I; cbn [put_many_loop spec_batch].
  - exists s, ONil. auto.
  - destruct (cid_parse c) as [p|] eqn:Hp.
    + destruct (put_one_spec k o roots ro s stored c d p Ho I Hp) as (s' & out & Hput & I' & Hout).
      rewrite Hput. destruct (spec_put o ro stored (c, d)) as [stored' refused] eqn:Hsp. cbn [fst snd] in *.
      destruct refused; cbn [andb].
      * destruct out; try (exists s'; eexists; split; [reflexivity|exact I']).
        destruct Hout as [Hout _]. specialize (Hout eq_refl). discriminate.
      * destruct Hout as [_ Hout]. rewrite (Hout eq_refl). apply IH; assumption.
    + unfold spec_put. cbn [fst]. rewrite Hp. cbn [andb]. exists s, (OErr EOther). auto.
Qed.

Lemma st_puts_spec k o roots ro b : forall s stored acc,
  opts_fit o -> Inv k o roots ro s stored ->
  exists s' outs, st_puts s b acc = (s', outs) /\ Inv k o roots ro s' (spec_batch false o ro stored b).
Proof.
  induction b as [|[c d] t IH]; intros s stored acc Ho I; cbn [st_puts spec_batch].
  - exists s, (rev acc). auto.
  - unfold st_put. destruct (cid_parse c) as [p|] eqn:Hp.
    + rewrite (inv_closed _ _ _ _ _ _ I), (inv_fin _ _ _ _ _ _ I).
      destruct (put_one_spec k o roots ro s stored c d p Ho I Hp) as (s' & out & Hput & I' & _).
      rewrite Hput. destruct (spec_put o ro stored (c, d)) as [stored' refused]. cbn [fst] in I'.
      rewrite andb_false_r. apply IH; assumption.
    + unfold spec_put. cbn [fst]. rewrite Hp. rewrite andb_false_r. apply IH; assumption.
Qed.

Lemma put_batch_spec k o roots ro s stored b :
  opts_fit o -> Inv k o roots ro s stored ->
  exists s' outs, put_batch s b = (s', outs) /\ Inv k o roots ro s' (spec_batch (stops k) o ro stored b).
Proof.
  intros Ho I. unfold put_batch. rewrite (inv_kind _ _ _ _ _ _ I). destruct k as [|wa]; cbn [stops].
  - unfold bs_put_many. rewrite (inv_closed _ _ _ _ _ _ I), (inv_fin _ _ _ _ _ _ I).
    destruct (put_many_loop_spec KBlockstore o roots ro b s stored Ho I) as (s' & out & Hl & I').
    rewrite Hl. eauto.
  - apply st_puts_spec; assumption.
Qed.

Lemma put_batches_spec k o roots ro h : forall s stored acc,
  opts_fit o -> Inv k o roots ro s stored ->
  exists s' outs, put_batches s h acc = (s', outs) /\
                  Inv k o roots ro s' (fold_left (spec_batch (stops k) o ro) h stored).
Proof.
  induction h as [|b t IH]; intros s stored acc Ho I; cbn [put_batches fold_left].
  - exists s, (rev acc). auto.
  - destruct (put_batch_spec k o roots ro s stored b Ho I) as (s' & outs & Hb & I').
    rewrite Hb. apply IH; assumption.
Qed.

(* ---- Finalize -------------------------------------------------------------------------------------- *)
Lemma zeros40 : blen (zerosN 40) = 40.
Proof. apply blen_zerosN. Qed.

Lemma store_finalize_layout k o roots ro s stored fi cl fin :
  opts_fit o -> w_v1 o = false -> Inv k o roots ro s stored ->
  51 + w_dpad o + blen (payload_opt ro stored) + w_ipad o < two64 ->
  final_index o ro stored = Some fi ->
  exists s', store_finalize (set_flags s cl fin) = (s', ONil) /\
             ws_file s' = layout o ro stored fi /\ ws_closed s' = cl /\ ws_finalized s' = fin.
Proof.
  intros Ho Hv2 I Hfit Hfi. destruct I as [Hfile Hidx Hpos Hf Hopts Hkind Hroots Hcl Hfin].
  unfold store_finalize. cbn [set_flags ws_opts ws_pos ws_idx ws_dev]. rewrite Hopts, Hpos, Hidx.
  rewrite final_hdr_eq by assumption. unfold final_index in Hfi. rewrite Hfi.
  set (P := payload_opt ro stored) in *. set (h := final_hdr o (blen P)).
  destruct (write_chunks_nofault (idx_chunks fi) (ws_dev s) (h_ioff h) Hf) as (dv1 & Hw1 & Hf1 & Hfile1).
  rewrite Hw1. cbn [negb].
  destruct (write_chunks_nofault (v2hdr_chunks h) dv1 pragma_size Hf1) as (dv2 & Hw2 & Hf2 & Hfile2).
  rewrite Hw2. eexists. split; [reflexivity|].
  cbn [set_dev ws_closed ws_finalized ws_file ws_dev]. split; [|split; reflexivity].
  unfold ws_file in *. cbn [ws_dev set_dev set_flags]. rewrite Hfile2, Hfile1. cbn [ws_dev set_dev set_flags].
  rewrite Hfile, concat_idx_chunks, concat_v2hdr_chunks.
  unfold prefix, layout. rewrite Hv2. fold P.
  assert (Hlen : blen ((pragma ++ zerosN (40 + w_dpad o)) ++ P) = 51 + w_dpad o + blen P).
  { rewrite !blen_app, blen_zerosN, blen_pragma. lia. }
  rewrite (write_at_beyond ((pragma ++ zerosN (40 + w_dpad o)) ++ P) (h_ioff h) (idx_write fi));
    [|apply idx_write_nonempty|rewrite Hlen; unfold h, final_hdr; cbn [h_ioff]; lia].
  rewrite Hlen. unfold h at 1. unfold final_hdr at 1. cbn [h_ioff].
  replace (51 + w_dpad o + blen P + w_ipad o - (51 + w_dpad o + blen P)) with (w_ipad o) by lia.
  rewrite zerosN_add. rewrite <- !app_assoc.
  change pragma_size with (blen pragma).
  rewrite (write_at_over pragma (zerosN 40) _ (enc_v2hdr h)) by (rewrite blen_enc_v2hdr, zeros40; reflexivity).
  reflexivity.
Qed.

Lemma store_finalize_bad_codec k o roots ro s stored cl fin :
  Inv k o roots ro s stored -> final_index o ro stored = None ->
  store_finalize (set_flags s cl fin) = (set_flags s cl fin, OErr EOther).
Proof.
  intros I Hfi. destruct I as [Hfile Hidx Hpos Hf Hopts Hkind Hroots Hcl Hfin].
  unfold store_finalize. cbn [set_flags ws_opts ws_pos ws_idx ws_dev]. rewrite Hopts, Hidx.
  unfold final_index in Hfi. rewrite Hfi. reflexivity.
Qed.

Lemma finalize_layout k o roots ro s stored fi :
  opts_fit o -> Inv k o roots ro s stored ->
  51 + w_dpad o + blen (payload_opt ro stored) + w_ipad o < two64 ->
  (w_v1 o = false -> final_index o ro stored = Some fi) ->
  exists s', finalize s = (s', ONil) /\ ws_file s' = layout o ro stored fi.
Proof.
  intros Ho I Hfit Hfi. pose proof I as [Hfile Hidx Hpos Hf Hopts Hkind Hroots Hcl Hfin].
  unfold finalize. rewrite Hkind. destruct (w_v1 o) eqn:Hv.
  - (* CARv1 mode: nothing is written *)
    assert (Hl : ws_file s = layout o ro stored fi).
    { rewrite Hfile. unfold prefix, layout. rewrite Hv. reflexivity. }
    destruct k as [|wa].
    + unfold bs_finalize, bs_finalize_ro. rewrite Hopts, Hv.
      unfold bs_close. cbn [set_flags ws_opts ws_finalized ws_closed]. rewrite Hopts, Hv, Hcl. cbn [negb andb].
      eexists. split; [reflexivity|]. exact Hl.
    + unfold st_finalize. rewrite Hfin, Hopts, Hv, Hcl. eexists. split; [reflexivity|]. exact Hl.
  - destruct k as [|wa].
    + unfold bs_finalize, bs_finalize_ro. rewrite Hopts, Hv, Hcl, Hfin.
      destruct (store_finalize_layout KBlockstore o roots ro s stored fi false true Ho Hv I Hfit (Hfi eq_refl))
        as (s' & Hsf & Hl & Hc' & Hf').
      rewrite Hsf. unfold bs_close.
      assert (Ho' : ws_opts s' = o).
      { unfold store_finalize in Hsf. cbn [set_flags ws_opts ws_idx ws_dev ws_pos] in Hsf.
        destruct (ii_flatten (w_codec (ws_opts s)) (ws_idx s)); [|discriminate].
        destruct (write_chunks _ _ _) as [[? ?] ?]. destruct (negb _); [discriminate|].
        destruct (write_chunks _ _ _) as [[? ?] ?]. inversion Hsf. cbn. exact Hopts. }
      rewrite Ho', Hv, Hf', Hc'. cbn [negb andb]. eexists. split; [reflexivity|]. exact Hl.
    + unfold st_finalize. rewrite Hfin, Hcl, Hopts, Hv.
      destruct (store_finalize_layout (KStorage wa) o roots ro s stored fi true false Ho Hv I Hfit (Hfi eq_refl))
        as (s' & Hsf & Hl & _).
      rewrite Hsf. eexists. split; [reflexivity|]. exact Hl.
Qed.

(* every block LdWrite can frame: its 8-byte varint buffer holds lengths below 2^56 (the model
   does not reproduce the panic beyond) *)
Definition frameable (b : block) : Prop := blen (fst b) + blen (snd b) < 72057594037927936.

(* ---- C05_layout --------------------------------------------------------------------------------------- *)
Theorem session_layout k o nilroots roots h fi :
  let ro := roots_opt nilroots roots in
  let stored := spec_stored k o ro h in
  opts_fit o -> (k = KStorage false -> w_v1 o = true) ->
  Forall (Forall frameable) h ->
  51 + w_dpad o + blen (payload_opt ro stored) + w_ipad o < two64 ->
  (w_v1 o = false -> final_index o ro stored = Some fi) ->
  exists s outs, session k o nilroots roots h = Ok (s, outs, ONil) /\
                 ws_file s = layout o ro stored fi.
Proof.
  intros ro stored Ho Hk _ Hfit Hfi. unfold session.
  destruct (open_new_inv k o nilroots roots Ho Hk) as (s0 & Hopen & I0). rewrite Hopen.
  destruct (put_batches_spec k o roots ro h s0 [] [] Ho I0) as (s1 & outs & Hp & I1). rewrite Hp.
  fold (spec_stored k o ro h) in I1. fold stored in I1.
  destruct (finalize_layout k o roots ro s1 stored fi Ho I1 Hfit Hfi) as (s2 & Hfin & Hl).
  rewrite Hfin. exists s2, outs. auto.
Qed.

(* an index codec the library does not know: Finalize fails and writes nothing *)
Theorem session_bad_codec k o nilroots roots h :
  let ro := roots_opt nilroots roots in
  let stored := spec_stored k o ro h in
  opts_fit o -> (k = KStorage false -> w_v1 o = true) -> w_v1 o = false ->
  final_index o ro stored = None ->
  exists s outs, session k o nilroots roots h = Ok (s, outs, OErr EOther) /\
                 ws_file s = prefix o ++ payload_opt ro stored.
Proof.
  intros ro stored Ho Hk Hv Hfi. unfold session.
  destruct (open_new_inv k o nilroots roots Ho Hk) as (s0 & Hopen & I0). rewrite Hopen.
  destruct (put_batches_spec k o roots ro h s0 [] [] Ho I0) as (s1 & outs & Hp & I1). rewrite Hp.
  fold (spec_stored k o ro h) in I1. fold stored in I1.
  pose proof I1 as [Hfile Hidx Hpos Hf Hopts Hkind Hroots Hcl Hfin].
  unfold finalize. rewrite Hkind. destruct k as [|wa].
  - unfold bs_finalize, bs_finalize_ro. rewrite Hopts, Hv, Hcl, Hfin.
    rewrite (store_finalize_bad_codec KBlockstore o roots ro s1 stored false true I1 Hfi).
    unfold bs_close. cbn [set_flags ws_opts ws_finalized ws_closed]. rewrite Hopts, Hv. cbn [negb andb].
    eexists. eexists. split; [reflexivity|]. exact Hfile.
  - unfold st_finalize. rewrite Hfin, Hcl, Hopts, Hv.
    rewrite (store_finalize_bad_codec (KStorage wa) o roots ro s1 stored true false I1 Hfi).
    eexists. eexists. split; [reflexivity|]. exact Hfile.
Qed.

(* a plain stream cannot carry a CARv2 *)
Theorem session_stream_v2_refused o nilroots roots h :
  w_v1 o = false -> session (KStorage false) o nilroots roots h = Err EOther.
Proof. intros Hv. unfold session, open_new. rewrite Hv. reflexivity. Qed.

(* the stored blocks all carry parseable CIDs *)
Lemma spec_put_parse o ro stored b :
  Forall (fun x => cid_parse (fst x) <> None) stored ->
  Forall (fun x => cid_parse (fst x) <> None) (fst (spec_put o ro stored b)).
Proof.
  intros H. unfold spec_put. destruct (cid_parse (fst b)) as [p|] eqn:Hp; [|exact H].
  destruct (should_put o (idx_of ro stored) (fst b) p) as [[|]|e]; cbn [fst]; try exact H.
  apply Forall_app. split; [exact H|]. constructor; [congruence|constructor].
Qed.
