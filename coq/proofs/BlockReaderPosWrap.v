(* C14, extension round: the uint64 model of br.offset (brp_*64) coincides with the unbounded one
   under the size guard -- for EVERY input, valid or not: wrap-around is unreachable. *)
From GoCar Require Import Bytes Varint Cid Header Frame V2Header Scan BlockReaderPos.
From GoCarProofs Require Import BytesFacts VarintFacts CidFacts InspectParse BlockReaderPosFacts BlockReaderPosMore.

Lemma vis_len st : blen (vis st) <= blen (p_all st) - p_pos st.
Proof. unfold vis. destruct (p_lim st); [rewrite blen_take|]; rewrite blen_drop; lia. Qed.

Lemma vis_adv' k st : vis (adv k st) = drop k (vis st).
Proof.
  unfold vis, adv. cbn [p_lim p_pos p_all]. destruct (p_lim st) as [n|].
  - rewrite <- drop_drop. rewrite !drop_skipn, !take_firstn. rewrite skipn_firstn_comm. f_equal. lia.
  - rewrite drop_drop. reflexivity.
Qed.

(* the size guard: the position is inside the source, the offset slack plus what is left of the
   source fits in 64 bits, and a learnt readerSize does not exceed the source *)
Definition guard (st : brp) : Prop :=
  p_pos st <= blen (p_all st) /\
  p_off st + (blen (p_all st) - p_pos st) < two64 /\
  (p_lim st = None -> match p_rsize st with None => True | Some r => r <= blen (p_all st) end).

Lemma wrap_off_id st : p_off st < two64 -> wrap_off st = st.
Proof. intros H. unfold wrap_off, set_off. rewrite wrap64_small by exact H. destruct st; reflexivity. Qed.

Section Oracles.
  Variable hok : bytes -> bytes -> option bool.
  Variable hdrdec : bytes -> option (list bytes * N).

  Lemma brp_next_guard o st b st' : guard st -> brp_next hok o st = Ok (b, st') -> guard st'.
  Proof.
    intros (G1 & G2 & G3) H. destruct (brp_next_off_tracks_pos hok o st b st' H) as (T1 & T2).
    unfold brp_next in H. destruct (next_block hok o (vis st)) as [[[c d] rest]|e] eqn:En; [|discriminate].
    inversion H; subst b st'. clear H. unfold guard. cbn [set_off adv p_pos p_off p_all p_lim p_rsize] in *.
    pose proof (vis_len st) as Hv.
    assert (Hu : blen (vis st) - blen rest <= blen (vis st)) by lia.
    split; [lia|]. split; [lia|]. intros Hl. destruct (p_lim st); [discriminate|]. apply G3. reflexivity.
  Qed.

  Lemma brp_skip_guard o st m st' : guard st -> brp_skip o st = Ok (m, st') -> guard st'.
  Proof.
    intros (G1 & G2 & G3) H. destruct (brp_skip_off_tracks_pos hok o st m st' H) as (T1 & T2 & _).
    assert (Hall : p_all st' = p_all st /\ p_pos st' <= blen (p_all st) /\
                   (p_lim st' = None -> match p_rsize st' with None => True | Some r => r <= blen (p_all st) end)).
    { unfold brp_skip, ld_read_size in H.
      destruct (read_uv (vis st)) as [l rest n| | | |] eqn:Euv; try discriminate.
      destruct ((l =? 0) && o_zeof o); [discriminate|]. destruct (o_maxs o <? l); [discriminate|].
      destruct (l =? 0); [discriminate|].
      destruct (cid_from_reader (take l rest)) as [cn c p after| |k] eqn:Ec; try discriminate.
      destruct (read_uv_ok_len _ _ _ _ Euv) as (Hlen & _).
      destruct (cid_from_reader_inv _ _ _ _ _ Ec) as (_ & _ & Hs & _ & Hcn).
      assert (Hcr : cn <= blen rest).
      { assert (X : blen (take l rest) <= blen rest) by (rewrite blen_take; lia). rewrite Hs, blen_app in X. lia. }
      pose proof (vis_len st) as Hv.
      destruct (p_lim st) as [lim|] eqn:El; [|destruct (p_seek st)].
      - destruct (blen (vis (adv (n + cn) st)) <? l - cn) eqn:Eb; [discriminate|]. inversion H; subst m st'.
        cbn [set_off adv p_all p_pos p_lim p_rsize]. rewrite vis_adv', blen_drop in Eb. rewrite El.
        split; [reflexivity|]. split; [lia|discriminate].
      - destruct (negb (p_pos (adv (n + cn) st) + (l - cn) =? p_off st + uv_size l + l)); [discriminate|].
        destruct (match p_rsize st with Some r => r | None => blen (p_all st) end <? p_pos (adv (n + cn) st) + (l - cn)) eqn:Er; [discriminate|].
        inversion H; subst m st'. cbn [set_off seek_to adv p_all p_pos p_lim p_rsize] in *.
        specialize (G3 eq_refl).
        assert (Hr : match p_rsize st with Some r => r | None => blen (p_all st) end <= blen (p_all st))
          by (destruct (p_rsize st); [exact G3|lia]).
        split; [reflexivity|]. split; [lia|]. intros _. exact Hr.
      - destruct (blen (vis (adv (n + cn) st)) <? l - cn) eqn:Eb; [discriminate|]. inversion H; subst m st'.
        cbn [set_off adv p_all p_pos p_lim p_rsize]. rewrite vis_adv', blen_drop in Eb. rewrite El.
        split; [reflexivity|]. split; [lia|]. intros _. apply G3. reflexivity. }
    destruct Hall as (Ha & Hp & Hr). unfold guard. rewrite Ha. split; [exact Hp|]. split; [lia|exact Hr].
  Qed.

  Lemma guard_off st : guard st -> p_off st < two64.
  Proof. intros (G1 & G2 & _). lia. Qed.

  (* the two walks are the same function on guarded states *)
  Theorem brp_walk64_eq o : forall w st, guard st -> brp_walk64 hok o w st = brp_walk hok o w st.
  Proof.
    induction w as [|ch w IH]; intros st G; [reflexivity|].
    destruct ch; cbn [brp_walk64 brp_walk].
    - unfold brp_next64. destruct (brp_next hok o st) as [[[c d] st']|e] eqn:E; [|reflexivity].
      pose proof (brp_next_guard o st _ st' G E) as G'.
      rewrite (wrap_off_id st' (guard_off st' G')). rewrite (IH st' G'). reflexivity.
    - unfold brp_skip64. destruct (brp_skip o st) as [[m st']|e] eqn:E; [|reflexivity].
      pose proof (brp_skip_guard o st _ st' G E) as G'.
      rewrite (wrap_off_id st' (guard_off st' G')). rewrite (IH st' G'). reflexivity.
  Qed.

  (* NewBlockReader + walk: for every byte string, option set, source kind and choice string, if
     the state NewBlockReader leaves satisfies the guard, uint64 arithmetic changes nothing *)
  Theorem brp_run64_eq o seek file w :
    (forall v roots st0, brp_open hdrdec o seek file = Ok (v, roots, st0) -> guard st0) ->
    brp_run64 hok hdrdec o seek file w = brp_run hok hdrdec o seek file w.
  Proof.
    intros Hg. unfold brp_run64, brp_run, brp_open64.
    destruct (brp_open hdrdec o seek file) as [[[v roots] st0]|e] eqn:E; [|reflexivity].
    pose proof (Hg v roots st0 eq_refl) as G.
    rewrite (wrap_off_id st0 (guard_off st0 G)). rewrite (brp_walk64_eq o w st0 G). reflexivity.
  Qed.
End Oracles.

(* ---- valid archives shorter than 2^64 bytes satisfy the guard: the C14 theorems hold verbatim
   for the uint64 model --------------------------------------------------------------------- *)
From GoCarProofs Require Import ScanFacts BlockReaderPosValid BlockReaderPosC14.
Section Valid.
  Variable hok : bytes -> bytes -> option bool.
  Variable hdrdec : bytes -> option (list bytes * N).

  Lemma open_of_run o seek file v roots st0 r :
    brp_run hok hdrdec o seek file [] = Ok (v, roots, st0, r) ->
    forall v' roots' st0', brp_open hdrdec o seek file = Ok (v', roots', st0') -> st0' = st0.
  Proof.
    unfold brp_run. intros H v' roots' st0' E. rewrite E in H. inversion H. reflexivity.
  Qed.

  Theorem brp_run64_valid_v1 o seek roots bs w :
    walk_ok hok hdrdec o roots bs -> blen (enc_payload roots bs) < two64 ->
    brp_run64 hok hdrdec o seek (enc_payload roots bs) w = brp_run hok hdrdec o seek (enc_payload roots bs) w.
  Proof.
    intros Hok Hlt. apply brp_run64_eq. intros v r st0' E.
    destruct (brp_run_v1 hok hdrdec o seek roots bs [] Hok) as (st0 & fin & Hrun & _ & Hpos & _ & Hoff & Hall & Hrs).
    cbn zeta in *. rewrite (open_of_run _ _ _ _ _ _ _ Hrun v r st0' E).
    pose proof (sec_start_le roots bs 0) as Hle.
    unfold guard. rewrite Hall, Hpos, Hoff, Hrs. split; [exact Hle|]. split; [lia|]. intros _. exact I.
  Qed.

  Theorem brp_run64_valid_v2 o seek roots bs w hi lo ioff pad trailer :
    walk_ok hok hdrdec o roots bs -> v2_params_ok hdrdec o hi lo ioff pad (enc_payload roots bs) ->
    blen (v2_file hi lo ioff pad (enc_payload roots bs) trailer) < two64 ->
    brp_run64 hok hdrdec o seek (v2_file hi lo ioff pad (enc_payload roots bs) trailer) w
    = brp_run hok hdrdec o seek (v2_file hi lo ioff pad (enc_payload roots bs) trailer) w.
  Proof.
    intros Hok Hpar Hlt. apply brp_run64_eq. intros v r st0' E.
    destruct (brp_run_v2 hok hdrdec o seek roots bs [] hi lo ioff pad trailer Hok Hpar)
      as (st0 & fin & Hrun & _ & Hpos & _ & Hoff & Hall & Hlim).
    cbn zeta in *. rewrite (open_of_run _ _ _ _ _ _ _ Hrun v r st0' E).
    pose proof (offsets_inside_file_v2 hi lo ioff pad roots bs trailer 0) as Hle.
    fold (sec_start roots bs 0) in Hle.
    unfold guard. rewrite Hall, Hpos, Hoff. split; [lia|]. split; [lia|]. intros Hn. contradiction.
  Qed.
End Valid.

(* packaged with primitive hypotheses for props/C14.v *)
Theorem c14_run64_valid hok hdrdec o seek roots bs w :
  hdrdec (enc_header (Some roots) 1) = Some (roots, 1) ->
  blen (enc_header (Some roots) 1) <= o_maxh o -> blen (enc_header (Some roots) 1) < two63 ->
  Forall (block_ok (o_maxs o)) bs -> Forall (fun b => cid_stream_ok (fst b)) bs ->
  (o_trusted o = false -> Forall (hash_good hok) bs) ->
  (blen (enc_payload roots bs) < two64 ->
   brp_run64 hok hdrdec o seek (enc_payload roots bs) w = brp_run hok hdrdec o seek (enc_payload roots bs) w) /\
  (forall hi lo ioff pad trailer,
     hdrdec pragma_body = Some ([], 2) -> 10 <= o_maxh o ->
     hi < two64 -> lo < two64 -> ioff < two63 ->
     51 + blen pad < two63 -> blen (enc_payload roots bs) < two63 ->
     blen (v2_file hi lo ioff pad (enc_payload roots bs) trailer) < two64 ->
     brp_run64 hok hdrdec o seek (v2_file hi lo ioff pad (enc_payload roots bs) trailer) w
     = brp_run hok hdrdec o seek (v2_file hi lo ioff pad (enc_payload roots bs) trailer) w).
Proof.
  intros H1 H2 H3 H4 H5 H6.
  pose proof (walk_ok_intro hok hdrdec o roots bs H1 H2 H3 H4 H5 H6) as Hok.
  split; [intros Hlt; apply brp_run64_valid_v1; assumption|].
  intros hi lo ioff pad trailer P1 P2 P3 P4 P5 P6 P7 Hlt.
  apply brp_run64_valid_v2; [exact Hok|repeat split; assumption|exact Hlt].
Qed.
