(* ReplaceRootsInFile: for every file, either an error and the file untouched, or exactly the
   bytes of the framed header that was read are replaced by the new framed header of the same
   length; and the constructed CARv1 / CARv2 cases. *)
From GoCar Require Import Bytes Varint Cid Header Frame V2Header Scan Index Transform.
From GoCarProofs Require Import BytesFacts VarintFacts CidFacts HeaderFacts ScanFacts TransformFacts TransformWrap.

(* what a reader leaves is a suffix of what it was given *)
Lemma read_uv_f_suffix : forall fuel i x bs v r n,
  read_uv_f fuel i x bs = VOk v r n -> exists pre, bs = pre ++ r.
Proof.
  induction fuel as [|f IH]; intros i x bs v r n H; [discriminate|].
  cbn [read_uv_f] in H. destruct bs as [|b t]; [destruct (i =? 0); discriminate|].
  destruct (((i =? 8) && (128 <=? b2n b)) || (9 <=? i)); [discriminate|].
  destruct (b2n b <? 128).
  - destruct ((b2n b =? 0) && (0 <? i)); [discriminate|]. inversion H; subst. exists [b]. reflexivity.
  - apply IH in H. destruct H as (pre & ->). exists (b :: pre). reflexivity.
Qed.

Section Replace.
  Variable hdrdec : bytes -> option (list bytes * N).

  Lemma read_header_suffix maxh s roots v rest used :
    read_header hdrdec maxh s = Ok (roots, v, rest, used) -> exists pre, s = pre ++ rest.
  Proof.
    unfold read_header, ld_read, ld_read_size.
    destruct (read_uv s) as [l r n| | | |] eqn:Eu; try discriminate.
    destruct ((l =? 0) && false); [discriminate|].
    destruct (maxh <? l); [discriminate|].
    destruct (blen r <? l); [discriminate|].
    destruct (hdrdec (take l r)) as [[rs ver]|]; [|discriminate].
    intros H. inversion H; subst.
    unfold read_uv in Eu. apply read_uv_f_suffix in Eu. destruct Eu as (pre & ->).
    exists (pre ++ take l r). rewrite <- app_assoc, take_drop_id. reflexivity.
  Qed.

  Lemma consumed_app pre rest : consumed (pre ++ rest) rest = blen pre.
  Proof. unfold consumed. rewrite blen_app. lia. Qed.

  (* replace_finish in words *)
  Lemma replace_finish_spec A pre rest roots :
    replace_finish (A ++ pre ++ rest) (blen A) (blen pre) roots
    = if blen pre =? blen (new_header_bytes roots)
      then (Ok tt, Some (A ++ new_header_bytes roots ++ rest))
      else (Err EOther, Some (A ++ pre ++ rest)).
  Proof.
    unfold replace_finish. destruct (blen pre =? blen (new_header_bytes roots)) eqn:E; cbn [negb]; [|reflexivity].
    f_equal. f_equal. rewrite write_at_inb by (rewrite blen_app; lia).
    rewrite take_app. f_equal. f_equal.
    assert (Hl : blen A + blen (new_header_bytes roots) = blen (A ++ pre)) by (rewrite blen_app; lia).
    rewrite Hl. rewrite app_assoc. apply drop_app.
  Qed.

  (* ---- C10 replace-roots, for every file --------------------------------------------------- *)
  (* [hdr_window a A pre rest]: a = A ++ pre ++ rest where pre is the framed header the function
     read (at offset 0 of a CARv1, at the data offset of a CARv2) *)
  Theorem replace_roots_frame o a roots r f' :
    replace_roots hdrdec o (Some a) roots = (r, f') ->
    (forall e, r = Err e -> f' = Some a) /\
    (r = Ok tt ->
       exists A pre rest rs v used,
         a = A ++ pre ++ rest /\
         read_header hdrdec (x_maxh o) (pre ++ rest) = Ok (rs, v, rest, used) /\
         blen pre = blen (new_header_bytes roots) /\
         f' = Some (A ++ new_header_bytes roots ++ rest)).
  Proof.
    unfold replace_roots.
    destruct (read_header hdrdec (x_maxh o) a) as [[[[rs v] rest] used]|e] eqn:Erh;
      [|intros H; inversion H; split; [reflexivity|discriminate]].
    destruct (v =? 1) eqn:E1.
    - destruct (read_header_suffix _ _ _ _ _ _ Erh) as (pre & Ha).
      rewrite Ha at 1 2. rewrite consumed_app.
      change (pre ++ rest) with ([] ++ pre ++ rest). change 0 with (blen (@nil byte)).
      rewrite replace_finish_spec.
      destruct (blen pre =? blen (new_header_bytes roots)) eqn:El; intros H; inversion H; subst r f'.
      + split; [discriminate|]. intros _. exists [], pre, rest, rs, v, used.
        cbn [app]. split; [exact Ha|]. split; [rewrite <- Ha; exact Erh|]. split; [lia|reflexivity].
      + split; [|discriminate]. intros _ _. cbn [app]. rewrite <- Ha. reflexivity.
    - destruct (v =? 2); [|intros H; inversion H; split; [reflexivity|discriminate]].
      destruct (read_v2hdr rest) as [[h rest2]|e]; [|intros H; inversion H; split; [reflexivity|discriminate]].
      destruct (negb (seek_ok o (h_doff h))); [intros H; inversion H; split; [reflexivity|discriminate]|].
      destruct (read_header hdrdec (x_maxh o) (drop (h_doff h) a)) as [[[[rs1 v1] rest1] used1]|e] eqn:Erh1;
        [|intros H; inversion H; split; [reflexivity|discriminate]].
      destruct (read_header_suffix _ _ _ _ _ _ Erh1) as (pre & Hd).
      (* the data offset lies inside the file: the header read there is not empty *)
      assert (Hin : h_doff h <= blen a).
      { destruct (N.le_gt_cases (h_doff h) (blen a)) as [Hle|Hgt]; [exact Hle|].
        exfalso. rewrite drop_ge in Erh1 by lia.
        unfold read_header, ld_read, ld_read_size in Erh1. cbn in Erh1. discriminate. }
      set (A := take (h_doff h) a).
      assert (HA : blen A = h_doff h) by (unfold A; rewrite blen_take; lia).
      assert (Ha : a = A ++ pre ++ rest1) by (rewrite <- Hd; unfold A; symmetry; apply take_drop_id).
      rewrite Hd, consumed_app. rewrite <- HA. rewrite Ha at 1.
      rewrite replace_finish_spec.
      destruct (blen pre =? blen (new_header_bytes roots)) eqn:El; intros H; inversion H; subst r f'.
      + split; [discriminate|]. intros _. exists A, pre, rest1, rs1, v1, used1.
        split; [exact Ha|]. split; [rewrite <- Hd; exact Erh1|]. split; [lia|reflexivity].
      + split; [|discriminate]. intros _ _. rewrite <- Ha. reflexivity.
  Qed.

  (* ---- constructed CARv1 file ------------------------------------------------------------------ *)
  Theorem replace_roots_v1 o roots bs roots' :
    hdr_good hdrdec roots -> blen (enc_header (Some roots) 1) <= x_maxh o ->
    blen (enc_header (Some roots) 1) < two63 ->
    replace_roots hdrdec o (Some (enc_payload roots bs)) roots'
    = if blen (ld (enc_header (Some roots) 1)) =? blen (ld (enc_header roots' 1))
      then (Ok tt, Some (ld (enc_header roots' 1) ++ enc_sections bs))
      else (Err EOther, Some (enc_payload roots bs)).
  Proof.
    intros Hg Hmax H63. unfold replace_roots, enc_payload.
    rewrite read_header_payload by assumption. cbn [N.eqb Pos.eqb].
    rewrite consumed_app.
    change (ld (enc_header (Some roots) 1) ++ enc_sections bs)
      with ([] ++ ld (enc_header (Some roots) 1) ++ enc_sections bs) at 1.
    change 0 with (blen (@nil byte)).
    rewrite replace_finish_spec. reflexivity.
  Qed.

  (* ---- constructed CARv2 file: any padding, any trailer ---------------------------------------- *)
  Theorem replace_roots_v2 o h dpad tail roots bs roots' :
    pragma_good hdrdec -> 10 <= x_maxh o ->
    v2hdr_ok h -> h_doff h = 51 + blen dpad -> seek_ok o (h_doff h) = true ->
    hdr_good hdrdec roots -> blen (enc_header (Some roots) 1) <= x_maxh o ->
    blen (enc_header (Some roots) 1) < two63 ->
    replace_roots hdrdec o (Some (v2_container h dpad (enc_payload roots bs) tail)) roots'
    = if blen (ld (enc_header (Some roots) 1)) =? blen (ld (enc_header roots' 1))
      then (Ok tt, Some (v2_container h dpad (ld (enc_header roots' 1) ++ enc_sections bs) tail))
      else (Err EOther, Some (v2_container h dpad (enc_payload roots bs) tail)).
  Proof.
    intros Hpg Hmax10 Hh Hdoff Hseek Hg Hmax H63. unfold replace_roots, v2_container.
    destruct (read_header_pragma hdrdec (x_maxh o) (enc_v2hdr h ++ dpad ++ enc_payload roots bs ++ tail) Hpg Hmax10)
      as (rs & Hrh).
    rewrite Hrh. cbn [N.eqb Pos.eqb].
    rewrite read_v2hdr_enc by exact Hh. rewrite Hseek. cbn [negb].
    set (A := pragma ++ enc_v2hdr h ++ dpad).
    assert (HA : blen A = h_doff h).
    { unfold A. rewrite !blen_app, blen_enc_v2hdr. change (blen pragma) with 11. lia. }
    assert (Hfile : forall pl, pragma ++ enc_v2hdr h ++ dpad ++ pl ++ tail = A ++ pl ++ tail).
    { intros pl. unfold A. rewrite <- !app_assoc. reflexivity. }
    rewrite !Hfile. rewrite <- HA. rewrite drop_app.
    unfold enc_payload. rewrite <- !app_assoc.
    rewrite read_header_payload by assumption.
    rewrite consumed_app.
    rewrite replace_finish_spec. reflexivity.
  Qed.
End Replace.
