(* MonitorExamples.v -- non-vacuity examples of the C08 theorems over the committed tables
   (these refer to particular path numbers of theories/GeneratedLockFacts.v), the finding about
   DeferredCarWriter.OnPut, and the refutation witness for the shape ReadWrite.AllKeysChan had
   before the repair (notes/fixes/C08-allkeyschan-snapshot.patch). *)
From Coq Require Import List Arith Bool Lia.
From Coq Require Strings.String.
Import ListNotations.
Import Coq.Strings.String.StringSyntax.
From GoCar Require Import Monitor GeneratedLockFacts.
From GoCarProofs Require Import MonitorDRF MonitorLive MonitorInst MonitorExec MonitorFacts.
Local Open Scope string_scope.

(* outside the property: DeferredCarWriter.OnPut appends to putCb without taking lk *)
Lemma deferred_onput_unsynchronised :
  other_violations inst_DeferredCarWriter = [("OnPut", 0); ("OnPut", 1)].
Proof. vm_compute. reflexivity. Qed.

(* ---- concrete clients --------------------------------------------------------------------- *)
Fixpoint find_method (ms : list (string * list path)) (name : string) : option (list path) :=
  match ms with
  | [] => None
  | (n, ps) :: r => if String.eqb n name then Some ps else find_method r name
  end.

(* the code of one call: method name, path number, loop unrolling *)
Definition call_of (I : instance) (name : string) (k : nat) (ch : list (list nat)) : option (list act) :=
  match find_method (i_methods I) name with
  | Some ps => match nth_error ps k with Some p => Some (expand_with p ch) | None => None end
  | None => None
  end.

Lemma find_method_In ms name ps : find_method ms name = Some ps -> In (name, ps) ms.
Proof.
  induction ms as [|[n q] r IH]; cbn; [discriminate|].
  destruct (String.eqb_spec n name) as [->|]; intro H; [inversion H; subst; auto|auto].
Qed.

Lemma call_of_code I name k ch cd : call_of I name k ch = Some cd -> call_code I cd.
Proof.
  unfold call_of. destruct (find_method (i_methods I) name) as [ps|] eqn:Ef; [|discriminate].
  destruct (nth_error ps k) as [p|] eqn:En; [|discriminate]. intro H. inversion H; subst.
  exists name, ps, p. repeat split.
  - apply find_method_In. exact Ef.
  - eapply nth_error_In. exact En.
  - apply expands_with_ok.
Qed.

Fixpoint calls_of (I : instance) (cs : list (string * nat * list (list nat))) : option (list act) :=
  match cs with
  | [] => Some []
  | c :: cs' =>
      match call_of I (fst (fst c)) (snd (fst c)) (snd c), calls_of I cs' with
      | Some cd, Some rest => Some (cd ++ rest)
      | _, _ => None
      end
  end.

Lemma calls_of_client I cs cd : calls_of I cs = Some cd -> client_code I cd.
Proof.
  revert cd. induction cs as [|c cs IH]; cbn [calls_of]; intros cd H.
  - inversion H; subst. exists []. split; [constructor|reflexivity].
  - destruct (call_of I (fst (fst c)) (snd (fst c)) (snd c)) as [c1|] eqn:E1; [|discriminate].
    destruct (calls_of I cs) as [rest|]; [|discriminate]. inversion H; subst.
    destruct (IH _ eq_refl) as (cds & Hall & ->).
    exists (c1 :: cds). split; [constructor; [eapply call_of_code; eauto|exact Hall]|reflexivity].
Qed.

Fixpoint clients_of (I : instance) (ts : list (list (string * nat * list (list nat)))) : option (list (list act)) :=
  match ts with
  | [] => Some []
  | t :: ts' =>
      match calls_of I t, clients_of I ts' with Some cd, Some r => Some (cd :: r) | _, _ => None end
  end.

Lemma clients_of_ok I ts progs : clients_of I ts = Some progs -> Forall (client_code I) progs.
Proof.
  revert progs. induction ts as [|t ts IH]; cbn [clients_of]; intros progs H.
  - inversion H; subst. constructor.
  - destruct (calls_of I t) as [cd|] eqn:E; [|discriminate].
    destruct (clients_of I ts) as [r|]; [|discriminate]. inversion H; subst.
    constructor; [eapply calls_of_client; eauto|auto].
Qed.

(* Example for the race-freedom / isolation / progress theorems: three goroutines on one ReadWrite
   blockstore -- PutMany with two loop iterations then Has; AllKeysChan (the path that starts the
   listing goroutine) then Get; Finalize -- and a schedule after which the first one is inside
   its critical section, the second is waiting for the lock and the listing has not started. *)
Definition ex_rw_threads : list (list (string * nat * list (list nat))) :=
  [ [("PutMany", 2, [[1; 0]]); ("Has", 1, [])];
    [("AllKeysChan", 3, [[0; 0]]); ("Get", 2, [])];
    [("Finalize", 15, [])] ].

Definition ex_rw_progs : list (list act) :=
  match clients_of inst_ReadWrite ex_rw_threads with Some p => p | None => [] end.

Example ex_rw_clients : Forall (client_code inst_ReadWrite) ex_rw_progs /\ length ex_rw_progs = 3.
Proof.
  split; [|vm_compute; reflexivity].
  apply (clients_of_ok inst_ReadWrite ex_rw_threads). vm_compute. reflexivity.
Qed.

Definition ex_rw_sched : list (nat * list (list nat)) :=
  [(0, []); (0, []); (0, []); (0, [])].

Lemma frun_example tbl progs sched (P : cfg -> bool) :
  match frun tbl (init progs) sched with Some c => P c | None => false end = true ->
  exists c, steps tbl (init progs) c /\ P c = true.
Proof.
  destruct (frun tbl (init progs) sched) as [c|] eqn:E; [|discriminate].
  intro H. exists c. split; [eapply frun_sound; eauto|exact H].
Qed.

(* some thread holds the mutex exclusively, another one has work left and holds nothing *)
Example ex_rw_reachable :
  exists c, steps (i_table inst_ReadWrite) (init ex_rw_progs) c /\
    (existsb (fun t => holdsW (th t) 0) (ts c)
     && existsb (fun t => negb (is_nil (code t)) && is_nil (th t)) (ts c)) = true.
Proof. apply (frun_example _ _ ex_rw_sched). vm_compute. reflexivity. Qed.

(* ---- the shape before the repair ------------------------------------------------------------
   What the translator produced for ReadWrite.AllKeysChan / PutMany on the unrepaired source
   (fields renumbered: 0 ronly.closed, 1 idx [exempt pointer], 2 idx.* [the LLRB], 3 opts [exempt],
   4 dataWriter [exempt pointer], 5 dataWriter.* [position], 6 finalized): the listing goroutine is
   started without the lock and walks idx.* while PutMany inserts into it.  The check rejects
   it, and the semantics exhibits the race under a concrete schedule (this schedule is what the
   dynamic search reproduces with the race detector, corpus/C08). *)
Definition old_rw : instance := {|
  i_name := "ReadWrite (before the repair)";
  i_mutexes := ["ronly.mu"];
  i_fields := [("ronly.closed", 0, false); ("idx", 0, true); ("idx.*", 0, false); ("opts", 0, true);
               ("dataWriter", 0, true); ("dataWriter.*", 0, false); ("finalized", 0, false)];
  i_blk := [("ReadWrite.AllKeysChan/go0: select", false)];
  i_tbl := [("ReadWrite.AllKeysChan/go0", [], [Straight [Rd 1; Rd 2]; Iter [[Rd 3; Blk 0; Rd 2]]])];
  i_methods := [
    ("AllKeysChan", [[Straight [Acq 0 MW; Rd 0; Spawn 0; Rel 0 MW]]]);
    ("PutMany", [[Straight [Acq 0 MW; Rd 0; Rd 6];
                  Iter [[Rd 1; Rd 3; Rd 2; Rd 4; Rd 5; Rd 4; Wr 5; Rd 1; Wr 2]];
                  Straight [Rel 0 MW]]])];
  i_panic := [];
  i_other := []
|}.

Example prefix_allkeyschan_rejected : violations old_rw = [("ReadWrite.AllKeysChan/go0", 0)].
Proof. vm_compute. reflexivity. Qed.

Definition old_progs : list (list act) :=
  match clients_of old_rw [[("AllKeysChan", 0, [])]; [("PutMany", 0, [[0]])]] with Some p => p | None => [] end.

Example old_progs_clients : Forall (client_code old_rw) old_progs /\ length old_progs = 2.
Proof.
  split; [|vm_compute; reflexivity].
  apply (clients_of_ok old_rw [[("AllKeysChan", 0, [])]; [("PutMany", 0, [[0]])]]). vm_compute. reflexivity.
Qed.

(* AllKeysChan runs to completion (its goroutine, thread 2, is started with one iteration to go);
   PutMany takes the lock and proceeds to its insertion; the goroutine proceeds to its tree walk *)
Definition old_sched : list (nat * list (list nat)) :=
  [(0, []); (0, []); (0, [[0]]); (0, []);
   (1, []); (1, []); (1, []); (1, []); (1, []); (1, []); (1, []); (1, []); (1, []); (1, []); (1, []);
   (2, [])].

Example prefix_allkeyschan_races :
  exists c, steps (i_table old_rw) (init old_progs) c /\ race c.
Proof.
  destruct (frun_example (i_table old_rw) old_progs old_sched raceb) as (c & Hs & Hr);
    [vm_compute; reflexivity|].
  exists c. split; [exact Hs|apply raceb_sound; exact Hr].
Qed.


(* ---- the check rejects what the deadlock clause forbids ------------------------------------------ *)
(* lock-order inversion: taking mutex 0 while holding mutex 1 *)
Example lock_order_inversion_rejected :
  ok (fun _ => 0) (fun _ => false) (fun _ => false) [] [] [Acq 0 MW; Acq 1 MW; Rel 1 MW; Rel 0 MW] = true /\
  ok (fun _ => 0) (fun _ => false) (fun _ => false) [] [] [Acq 1 MW; Acq 0 MW; Rel 0 MW; Rel 1 MW] = false.
Proof. split; reflexivity. Qed.

(* returning with the lock held, re-entrant acquisition, releasing in the wrong mode, blocking under
   a lock at a site that is not listed *)
Example lock_misuse_rejected :
  ok (fun _ => 0) (fun _ => false) (fun _ => false) [] [] [Acq 0 MR; Rd 3] = false /\
  ok (fun _ => 0) (fun _ => false) (fun _ => false) [] [] [Acq 0 MW; Acq 0 MW; Rel 0 MW; Rel 0 MW] = false /\
  ok (fun _ => 0) (fun _ => false) (fun _ => false) [] [] [Acq 0 MR; Rel 0 MW] = false /\
  ok (fun _ => 0) (fun _ => false) (fun _ => false) [] [] [Acq 0 MR; Blk 0; Rel 0 MR] = false /\
  ok (fun _ => 0) (fun _ => false) (fun s => Nat.eqb s 0) [] [] [Acq 0 MR; Blk 0; Rel 0 MR] = true.
Proof. repeat split; reflexivity. Qed.

(* two threads that take two mutexes in opposite orders do get stuck: after each has taken its first
   mutex neither can step (so the order check is not stronger than needed for this program) *)
Example inversion_gets_stuck :
  exists c,
    steps [] (init [[Acq 0 MW; Acq 1 MW; Rel 1 MW; Rel 0 MW]; [Acq 1 MW; Acq 0 MW; Rel 0 MW; Rel 1 MW]]) c /\
    (exists t, In t (ts c) /\ code t <> []) /\
    forall i a c', ~ step [] c i a c'.
Proof.
  destruct (frun_example [] [[Acq 0 MW; Acq 1 MW; Rel 1 MW; Rel 0 MW]; [Acq 1 MW; Acq 0 MW; Rel 0 MW; Rel 1 MW]]
              [(0, []); (1, [])]
              (fun c => wl (lk c 0) && wl (lk c 1) &&
                        match ts c with
                        | [t0; t1] => match code t0, code t1 with
                                      | Acq 1 MW :: _, Acq 0 MW :: _ => true
                                      | _, _ => false
                                      end
                        | _ => false
                        end)) as (c & Hs & Hc); [vm_compute; reflexivity|].
  exists c. split; [exact Hs|].
  apply andb_prop in Hc as [Hl Hc]. apply andb_prop in Hl as [Hl0 Hl1].
  destruct (ts c) as [|t0 [|t1 [|]]] eqn:Ets; try discriminate.
  destruct (code t0) as [|[[|[|]] [|]| | | | | |] k0] eqn:E0; try discriminate.
  destruct (code t1) as [|[[|] [|]| | | | | |] k1] eqn:E1; try discriminate.
  split.
  - exists t0. split; [left; reflexivity|]. rewrite E0. discriminate.
  - intros i a c' Hstep.
    assert (forall l r (t : thread), [t0; t1] = l ++ t :: r -> t = t0 \/ t = t1) as Hmid.
    { intros l r t E. destruct l as [|x [|y [|]]]; inversion E; subst; auto.
      all: try (destruct l; discriminate). }
    inversion Hstep as [l r h k c0 m E Hw Hr|l r h k c0 m E Hw|l r h k c0 m E|l r h k c0 m E
                       |l r h k f c0 E|l r h k f c0 E|l r h k s c0 E|l r h k b cd c0 E Hx|l r h k b cd c0 E Hx];
      subst; rewrite Ets in E; destruct (Hmid _ _ _ E) as [Ht|Ht];
      (rewrite <- Ht in E0 || rewrite <- Ht in E1); cbn in *; try discriminate;
      try (inversion E0; subst; congruence); try (inversion E1; subst; congruence).
Qed.

(* check-then-act over a released lock: every access is under the lock (the discipline holds) but the
   call is two critical sections (shape of StorageCar.Put testing the index under RLock and inserting
   under a second Lock) *)
Example two_sections_rejected :
  let p := [Straight [Acq 0 MR; Rd 1; Rel 0 MR; Acq 0 MW; Wr 1; Rel 0 MW]] in
  ok_path (fun _ => 0) (fun _ => false) (fun _ => false) [] [] p = true /\ sections_path 0 p = 2 /\
  sections_path 0 [Straight [Acq 0 MW; Acq 1 MW; Rel 1 MW]; Iter [[Rd 1]]; Straight [Rel 0 MW]] = 1.
Proof. repeat split; reflexivity. Qed.
