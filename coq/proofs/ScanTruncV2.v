(* C02 (b),(c) for CARv2 containers: the BlockReader over pragma ++ header ++ padding ++ payload
   behaves on the payload window exactly as on a bare CARv1, for the intact and the truncated file. *)
From GoCar Require Import Bytes Varint Cid Header Frame V2Header Scan.
From GoCarProofs Require Import BytesFacts VarintFacts CidFacts HeaderFacts ScanFacts ScanTrunc.

Lemma blen_le_enc8 x : blen (le_enc 8 x) = 8.
Proof. unfold blen. rewrite le_enc_length. reflexivity. Qed.

Definition v2hdr_ok (h : v2hdr) : Prop :=
  h_hi h < two64 /\ h_lo h < two64 /\ 51 <= h_doff h < two63 /\ 0 < h_dsize h < two63 /\ h_ioff h < two63.

Lemma blen_enc_v2hdr h : blen (enc_v2hdr h) = 40.
Proof. unfold enc_v2hdr. rewrite !blen_app, !blen_le_enc8. reflexivity. Qed.

Lemma le_dec_take8 x rest : x < two64 -> le_dec (take 8 (le_enc 8 x ++ rest)) = x.
Proof.
  intros Hx. rewrite <- (blen_le_enc8 x) at 1. rewrite take_app. apply le_dec_enc.
  change (256 ^ N.of_nat 8) with two64. exact Hx.
Qed.
Lemma drop8 x rest : drop 8 (le_enc 8 x ++ rest) = rest.
Proof. rewrite <- (blen_le_enc8 x) at 1. apply drop_app. Qed.

Lemma read_v2hdr_enc h rest : v2hdr_ok h -> read_v2hdr (enc_v2hdr h ++ rest) = Ok (h, rest).
Proof.
  intros (Hhi & Hlo & Hdo & Hds & Hio). unfold read_v2hdr.
  assert (Hl : blen (enc_v2hdr h ++ rest) = 40 + blen rest) by (rewrite blen_app, blen_enc_v2hdr; reflexivity).
  replace (blen (enc_v2hdr h ++ rest) <? 16) with false by lia.
  replace (blen (enc_v2hdr h ++ rest) <? 40) with false by lia.
  unfold enc_v2hdr. rewrite <- !app_assoc.
  rewrite le_dec_take8 by exact Hhi.
  replace (drop 16 (le_enc 8 (h_hi h) ++ le_enc 8 (h_lo h) ++ le_enc 8 (h_doff h) ++ le_enc 8 (h_dsize h) ++ le_enc 8 (h_ioff h) ++ rest))
    with (le_enc 8 (h_doff h) ++ le_enc 8 (h_dsize h) ++ le_enc 8 (h_ioff h) ++ rest)
    by (change 16 with (8 + 8); rewrite <- drop_drop, !drop8; reflexivity).
  replace (drop 24 (le_enc 8 (h_hi h) ++ le_enc 8 (h_lo h) ++ le_enc 8 (h_doff h) ++ le_enc 8 (h_dsize h) ++ le_enc 8 (h_ioff h) ++ rest))
    with (le_enc 8 (h_dsize h) ++ le_enc 8 (h_ioff h) ++ rest)
    by (change 24 with (8 + (8 + 8)); rewrite <- !drop_drop, !drop8; reflexivity).
  replace (drop 32 (le_enc 8 (h_hi h) ++ le_enc 8 (h_lo h) ++ le_enc 8 (h_doff h) ++ le_enc 8 (h_dsize h) ++ le_enc 8 (h_ioff h) ++ rest))
    with (le_enc 8 (h_ioff h) ++ rest)
    by (change 32 with (8 + (8 + (8 + 8))); rewrite <- !drop_drop, !drop8; reflexivity).
  replace (drop 40 (le_enc 8 (h_hi h) ++ le_enc 8 (h_lo h) ++ le_enc 8 (h_doff h) ++ le_enc 8 (h_dsize h) ++ le_enc 8 (h_ioff h) ++ rest))
    with rest
    by (change 40 with (8 + (8 + (8 + (8 + 8)))); rewrite <- !drop_drop, !drop8; reflexivity).
  rewrite drop8. rewrite !le_dec_take8 by (unfold two63, two64 in *; lia).
  unfold as_int64.
  replace (h_doff h <? two63) with true by lia.
  replace (h_dsize h <? two63) with true by lia.
  replace (h_ioff h <? two63) with true by lia.
  replace (Z.of_N (h_doff h) <? 51)%Z with false by lia.
  replace (Z.of_N (h_dsize h) <=? 0)%Z with false by lia.
  replace (Z.of_N (h_ioff h) <? 0)%Z with false by lia.
  destruct h; reflexivity.
Qed.

Section V2.
  Variable hok : bytes -> bytes -> option bool.
  Variable hdrdec : bytes -> option (list bytes * N).
  Hypothesis pragma_ok : hdrdec pragma_body = Some ([], 2).

  Lemma pragma_is_ld : pragma = ld pragma_body.
  Proof. reflexivity. Qed.

  Lemma read_header_pragma maxh rest : 10 <= maxh ->
    read_header hdrdec maxh (pragma ++ rest) = Ok ([], 2, rest, 11).
  Proof.
    intros Hm. rewrite pragma_is_ld. unfold read_header.
    rewrite ld_read_ld; [rewrite pragma_ok; reflexivity| | |discriminate];
      change (blen pragma_body) with 10; unfold two63; lia.
  Qed.

  (* the BlockReader on pragma ++ header ++ X only looks at the window of X the header declares *)
  Definition window (h : v2hdr) (x : bytes) : bytes := take (h_dsize h) (drop (h_doff h - 51) x).

  Lemma br_read_all_v2 o h x : 10 <= o_maxh o -> v2hdr_ok h ->
    br_read_all hok hdrdec o (pragma ++ enc_v2hdr h ++ x)
    = match read_header hdrdec (o_maxh o) (window h x) with
      | Err e => Err e
      | Ok (roots1, v1, rest3, _) =>
          if v1 =? 1 then Ok (2, roots1, scan_all hok o rest3) else Err EOther
      end.
  Proof.
    intros Hm Hh. unfold br_read_all, br_open.
    rewrite read_header_pragma by exact Hm. cbn [N.eqb Pos.eqb].
    rewrite read_v2hdr_enc by exact Hh. fold (window h x).
    destruct (read_header hdrdec (o_maxh o) (window h x)) as [[[[r v] rest] u]|e]; [|reflexivity].
    destruct (v =? 1); reflexivity.
  Qed.

  (* ... so every statement about a bare CARv1 transfers to the container *)
  Corollary br_read_all_v2_as_v1 o h x : 10 <= o_maxh o -> v2hdr_ok h ->
    br_read_all hok hdrdec o (pragma ++ enc_v2hdr h ++ x)
    = match br_read_all hok hdrdec o (window h x) with
      | Ok (1, roots, s) => Ok (2, roots, s)
      | Ok (_, _, _) => Err EOther     (* nested pragma: "invalid data payload header version" *)
      | Err e => Err e
      end
    \/ exists r v rest u, read_header hdrdec (o_maxh o) (window h x) = Ok (r, v, rest, u) /\ v <> 1.
  Proof.
    intros Hm Hh. rewrite br_read_all_v2 by assumption. unfold br_read_all at 1, br_open.
    destruct (read_header hdrdec (o_maxh o) (window h x)) as [[[[r v] rest] u]|e] eqn:E; [|left; reflexivity].
    destruct (N.eq_dec v 1) as [->|Hv]; [left; reflexivity|].
    right. exists r, v, rest, u. split; [reflexivity|exact Hv].
  Qed.

  (* what the v1 reader says about the window decides what the container reader says *)
  Lemma lift_ok o w roots s :
    br_read_all hok hdrdec o w = Ok (1, roots, s) ->
    match read_header hdrdec (o_maxh o) w with
    | Err e => Err e
    | Ok (roots1, v1, rest3, _) => if v1 =? 1 then Ok (2, roots1, scan_all hok o rest3) else Err EOther
    end = Ok (2, roots, s).
  Proof.
    unfold br_read_all, br_open. intros H.
    destruct (read_header hdrdec (o_maxh o) w) as [[[[r v] rest] u]|e']; [|discriminate].
    destruct (v =? 1) eqn:Ev; [inversion H; reflexivity|].
    exfalso. destruct (v =? 2); [|discriminate].
    destruct (read_v2hdr rest) as [[h2 r2]|]; [|discriminate].
    destruct (read_header hdrdec (o_maxh o) (take (h_dsize h2) (drop (h_doff h2 - 51) r2))) as [[[[r1 v1] r3] u1]|]; [|discriminate].
    destruct (v1 =? 1); [|discriminate]. inversion H.
  Qed.
  Lemma lift_err o w e :
    br_read_all hok hdrdec o w = Err e ->
    exists e', match read_header hdrdec (o_maxh o) w with
    | Err e => Err e
    | Ok (roots1, v1, rest3, _) => if v1 =? 1 then Ok (2, roots1, scan_all hok o rest3) else Err EOther
    end = @Err (N * list bytes * scan_out) e'.
  Proof.
    unfold br_read_all, br_open. intros H.
    destruct (read_header hdrdec (o_maxh o) w) as [[[[r v] rest] u]|e']; [|eexists; reflexivity].
    destruct (v =? 1) eqn:Ev; [discriminate|]. eexists; reflexivity.
  Qed.

  (* a padded, index-less or indexed container around a constructed payload *)
  Definition container (dpad : N) (ioff : N) (payload tail : bytes) : bytes :=
    pragma ++ enc_v2hdr (mkv2 0 0 (51 + dpad) (blen payload) ioff) ++ zerosN dpad ++ payload ++ tail.

  Lemma window_container dpad ioff payload tail m :
    m <= dpad + blen payload + blen tail ->
    window (mkv2 0 0 (51 + dpad) (blen payload) ioff) (take m (zerosN dpad ++ payload ++ tail))
    = take (m - dpad) payload.
  Proof.
    intros Hm. unfold window. cbn [h_dsize h_doff]. replace (51 + dpad - 51) with dpad by lia.
    destruct (N.leb_spec m dpad) as [Hle|Hgt].
    - rewrite take_app_le by (rewrite blen_zerosN; lia).
      rewrite drop_ge by (rewrite blen_take, blen_zerosN; lia).
      replace (m - dpad) with 0 by lia. rewrite take_0. destruct (blen payload); reflexivity.
    - rewrite take_app_ge by (rewrite blen_zerosN; lia). rewrite blen_zerosN.
      rewrite <- (blen_zerosN dpad) at 1. rewrite drop_app.
      destruct (N.leb_spec (m - dpad) (blen payload)) as [Hin|Hout].
      + rewrite take_app_le by lia. rewrite take_ge by (rewrite blen_take; lia). reflexivity.
      + rewrite take_app_ge by lia.
        rewrite take_app_le by lia. rewrite take_all. rewrite (take_ge (m - dpad)) by lia. reflexivity.
  Qed.

  (* (b) for CARv2: a cut at k inside the payload window behaves like the cut at k - data offset
     of the bare payload; every cut in front of the payload is a failed open *)
  Theorem br_read_all_trunc_v2 o roots bs dpad ioff tail k :
    archive_ok hok hdrdec o roots bs -> 10 <= o_maxh o ->
    51 + dpad < two63 -> ioff < two63 -> 0 < blen (enc_payload roots bs) < two63 ->
    51 + dpad <= k -> k < 51 + dpad + blen (enc_payload roots bs) ->
    ~ (exists j, (j <= length bs)%nat /\
         k = 51 + dpad + blen (ld (enc_header (Some roots) 1)) + blen (enc_sections (firstn j bs))) ->
    (exists e, br_read_all hok hdrdec o (take k (container dpad ioff (enc_payload roots bs) tail)) = Err e)
    \/ (exists j e, (j < length bs)%nat /\ e <> EEof /\
          br_read_all hok hdrdec o (take k (container dpad ioff (enc_payload roots bs) tail))
          = Ok (2, roots, mkscan (firstn j bs) e)).
  Proof.
    intros Hok Hm Hd Hi Hp Hk1 Hk2 Hnb. unfold container.
    set (P := enc_payload roots bs) in *.
    set (h := mkv2 0 0 (51 + dpad) (blen P) ioff).
    assert (Hh : v2hdr_ok h) by (unfold v2hdr_ok, h; cbn [h_hi h_lo h_doff h_dsize h_ioff]; unfold two63, two64 in *; lia).
    rewrite take_app_ge by (change (blen pragma) with 11; lia). change (blen pragma) with 11.
    rewrite take_app_ge by (rewrite blen_enc_v2hdr; lia). rewrite blen_enc_v2hdr.
    rewrite br_read_all_v2 by assumption.
    assert (Hw : window h (take (k - 11 - 40) (zerosN dpad ++ P ++ tail)) = take (k - (51 + dpad)) P).
    { unfold h. rewrite window_container by (rewrite ?blen_app; lia). f_equal. lia. }
    rewrite Hw.
    destruct (br_read_all_trunc_v1 hok hdrdec o roots bs (k - (51 + dpad)) Hok) as [[Hlt (e & He)]|[Hge (j & e & Hj & Hne & He)]].
    - fold P. lia.
    - intros (j & Hj & Hkj). apply Hnb. exists j. split; [exact Hj|]. lia.
    - left. fold P in He. destruct (lift_err _ _ _ He) as (e' & He'). exists e'. exact He'.
    - right. fold P in He. exists j, e. split; [exact Hj|]. split; [exact Hne|].
      apply lift_ok. exact He.
  Qed.
End V2.
