(* C14: the statements of props/C14.v, proved from BlockReaderPosValid, and their
   non-vacuity examples. *)
From GoCar Require Import Bytes Varint Cid Header Frame V2Header Scan BlockReaderPos.
From GoCarProofs Require Import BytesFacts VarintFacts CidFacts HeaderFacts ScanFacts
  BlockReaderPosFacts BlockReaderPosValid.

Lemma sec_start_eq roots bs i :
  sec_start roots bs i = blen (ld (enc_header (Some roots) 1)) + blen (enc_sections (firstn i bs)).
Proof. unfold sec_start. apply blen_app. Qed.
Lemma sec_start_0 roots bs : sec_start roots bs 0 = blen (ld (enc_header (Some roots) 1)).
Proof. rewrite sec_start_eq. cbn [firstn]. change (enc_sections []) with (@nil byte). rewrite blen_nil. lia. Qed.

Lemma sec_start_le roots bs i : sec_start roots bs i <= blen (enc_payload roots bs).
Proof.
  rewrite sec_start_eq. unfold enc_payload. rewrite blen_app.
  rewrite <- (firstn_skipn i bs) at 2. rewrite enc_sections_app, blen_app. lia.
Qed.

Lemma payload_split roots bs i c d : nth_error bs i = Some (c, d) ->
  enc_payload roots bs
  = (ld (enc_header (Some roots) 1) ++ enc_sections (firstn i bs))
    ++ enc_section c d ++ enc_sections (skipn (S i) bs).
Proof.
  intros H. unfold enc_payload. rewrite (enc_sections_split bs i c d H) at 1.
  rewrite <- !app_assoc. reflexivity.
Qed.

Section Oracles.
  Variable hok : bytes -> bytes -> option bool.
  Variable hdrdec : bytes -> option (list bytes * N).

  Lemma walk_ok_intro o roots bs :
    hdrdec (enc_header (Some roots) 1) = Some (roots, 1) ->
    blen (enc_header (Some roots) 1) <= o_maxh o -> blen (enc_header (Some roots) 1) < two63 ->
    Forall (block_ok (o_maxs o)) bs -> Forall (fun b => cid_stream_ok (fst b)) bs ->
    (o_trusted o = false -> Forall (hash_good hok) bs) ->
    walk_ok hok hdrdec o roots bs.
  Proof. intros. split; [repeat split; assumption|assumption]. Qed.

  (* shared: what the steps of an expected walk look like, in absolute terms *)
  Lemma exp_walk_steps_abs sp base0 roots bs w :
    let base := base0 in
    let h := base + sec_start roots bs 0 in
    forall i s, nth_error (fst (exp_walk sp base w bs h h)) i = Some s ->
      exists c d ch hw, nth_error bs i = Some (c, d) /\ nth_error w i = Some ch /\
        hw <= base + sec_start roots bs (S i) /\
        s = if ch : bool then StN c d (base + sec_start roots bs (S i)) hw
            else StS (mkmeta c (sec_start roots bs i) (base + sec_start roots bs i) (blen d))
                     (base + sec_start roots bs (S i)) hw.
  Proof.
    cbn zeta. intros i s H.
    destruct (exp_walk_nth _ _ _ _ _ _ _ _ H) as (c & d & ch & hw & Hb & Hw & Hs). cbn zeta in Hs.
    exists c, d, ch, hw. split; [exact Hb|split; [exact Hw|]].
    rewrite sec_start_0 in Hs. rewrite !sec_start_eq.
    assert (Hin : In s (fst (exp_walk sp base0 w bs (base0 + sec_start roots bs 0) (base0 + sec_start roots bs 0))))
      by (eapply nth_error_In; exact H).
    destruct (exp_walk_bounds _ _ _ _ _ _ s (N.le_refl _) Hin) as (Hb1 & _).
    split.
    - rewrite Hs in Hb1. destruct ch; cbn [step_hw step_pos] in Hb1; lia.
    - rewrite Hs. destruct ch; [f_equal; lia|].
      f_equal; [f_equal|]; lia.
  Qed.

  Theorem c14_v1 o seek roots bs w :
    hdrdec (enc_header (Some roots) 1) = Some (roots, 1) ->
    blen (enc_header (Some roots) 1) <= o_maxh o -> blen (enc_header (Some roots) 1) < two63 ->
    Forall (block_ok (o_maxs o)) bs -> Forall (fun b => cid_stream_ok (fst b)) bs ->
    (o_trusted o = false -> Forall (hash_good hok) bs) ->
    let start k := blen (ld (enc_header (Some roots) 1) ++ enc_sections (firstn k bs)) in
    exists st0 steps e fin,
      brp_run hok hdrdec o seek (enc_payload roots bs) w = Ok (1, roots, st0, (steps, (e, fin))) /\
      br_read_all hok hdrdec o (enc_payload roots bs) = Ok (1, roots, mkscan bs EEof) /\
      map step_cid steps = firstn (length w) (map fst bs) /\
      length steps = Nat.min (length w) (length bs) /\
      e = (if (length bs <? length w)%nat then Some EEof else None) /\
      forall i s, nth_error steps i = Some s ->
        exists c d ch hw, nth_error bs i = Some (c, d) /\ nth_error w i = Some ch /\
          enc_payload roots bs
          = (ld (enc_header (Some roots) 1) ++ enc_sections (firstn i bs))
            ++ enc_section c d ++ enc_sections (skipn (S i) bs) /\
          hw <= start (S i) /\
          s = if ch : bool then StN c d (start (S i)) hw
              else StS (mkmeta c (start i) (start i) (blen d)) (start (S i)) hw.
  Proof.
    intros H1 H2 H3 H4 H5 H6. cbn zeta.
    pose proof (walk_ok_intro o roots bs H1 H2 H3 H4 H5 H6) as Hok.
    destruct (brp_run_v1 hok hdrdec o seek roots bs w Hok) as (st0 & fin & Hrun & _).
    cbn zeta in Hrun.
    exists st0, (fst (exp_walk seek 0 w bs (sec_start roots bs 0) (sec_start roots bs 0))),
           (snd (exp_walk seek 0 w bs (sec_start roots bs 0) (sec_start roots bs 0))), fin.
    split; [exact Hrun|]. split; [apply br_read_all_v1; exact (proj1 Hok)|].
    split; [apply exp_walk_cids|]. split; [apply exp_walk_length|]. split; [apply exp_walk_end|].
    intros i s Hn.
    pose proof (exp_walk_steps_abs seek 0 roots bs w) as Habs. cbn zeta in Habs.
    rewrite N.add_0_l in Habs.
    destruct (Habs i s Hn) as (c & d & ch & hw & Hb & Hw & Hhw & Hs).
    exists c, d, ch, hw. split; [exact Hb|split; [exact Hw|]].
    split; [apply payload_split; exact Hb|].
    fold (sec_start roots bs i). fold (sec_start roots bs (S i)).
    rewrite !N.add_0_l in *. split; [exact Hhw|exact Hs].
  Qed.

  Theorem c14_v2 o seek roots bs w hi lo ioff pad trailer :
    hdrdec (enc_header (Some roots) 1) = Some (roots, 1) ->
    blen (enc_header (Some roots) 1) <= o_maxh o -> blen (enc_header (Some roots) 1) < two63 ->
    Forall (block_ok (o_maxs o)) bs -> Forall (fun b => cid_stream_ok (fst b)) bs ->
    (o_trusted o = false -> Forall (hash_good hok) bs) ->
    hdrdec pragma_body = Some ([], 2) -> 10 <= o_maxh o ->
    hi < two64 -> lo < two64 -> ioff < two63 ->
    51 + blen pad < two63 -> blen (enc_payload roots bs) < two63 ->
    let file := v2_file hi lo ioff pad (enc_payload roots bs) trailer in
    let base := 51 + blen pad in
    let start k := blen (ld (enc_header (Some roots) 1) ++ enc_sections (firstn k bs)) in
    let payload_end := base + blen (enc_payload roots bs) in
    exists st0 steps e fin,
      brp_run hok hdrdec o seek file w = Ok (2, roots, st0, (steps, (e, fin))) /\
      map step_cid steps = firstn (length w) (map fst bs) /\
      length steps = Nat.min (length w) (length bs) /\
      e = (if (length bs <? length w)%nat then Some EEof else None) /\
      (forall i s, nth_error steps i = Some s ->
        exists c d ch hw, nth_error bs i = Some (c, d) /\ nth_error w i = Some ch /\
          file = (pragma ++ enc_v2hdr (mkv2 hi lo base (blen (enc_payload roots bs)) ioff) ++ pad
                  ++ ld (enc_header (Some roots) 1) ++ enc_sections (firstn i bs))
                 ++ enc_section c d ++ enc_sections (skipn (S i) bs) ++ trailer /\
          enc_payload roots bs
          = (ld (enc_header (Some roots) 1) ++ enc_sections (firstn i bs))
            ++ enc_section c d ++ enc_sections (skipn (S i) bs) /\
          blen (pragma ++ enc_v2hdr (mkv2 hi lo base (blen (enc_payload roots bs)) ioff) ++ pad
                ++ ld (enc_header (Some roots) 1) ++ enc_sections (firstn i bs)) = base + start i /\
          hw <= base + start (S i) /\
          s = if ch : bool then StN c d (base + start (S i)) hw
              else StS (mkmeta c (start i) (base + start i) (blen d)) (base + start (S i)) hw) /\
      (* the source is never consumed past the end of the payload *)
      p_hw st0 <= payload_end /\ (forall s, In s steps -> step_hw s <= payload_end) /\
      p_hw fin <= payload_end.
  Proof.
    intros H1 H2 H3 H4 H5 H6 P1 P2 P3 P4 P5 P6 P7. cbn zeta.
    pose proof (walk_ok_intro o roots bs H1 H2 H3 H4 H5 H6) as Hok.
    assert (Hpar : v2_params_ok hdrdec o hi lo ioff pad (enc_payload roots bs))
      by (repeat split; assumption).
    destruct (brp_run_v2 hok hdrdec o seek roots bs w hi lo ioff pad trailer Hok Hpar)
      as (st0 & fin & Hrun & Hhw0 & _ & Hfin & _).
    cbn zeta in Hrun, Hhw0, Hfin.
    set (base := 51 + blen pad) in *. set (h := base + sec_start roots bs 0) in *.
    set (steps := fst (exp_walk false base w bs h h)) in *.
    assert (Hbound : forall s, In s steps -> step_hw s <= base + blen (enc_payload roots bs)).
    { intros s Hin. destruct (exp_walk_bounds _ _ _ _ _ _ s (N.le_refl _) Hin) as (Ha & Hb).
      unfold h in Hb. rewrite sec_start_0 in Hb. unfold enc_payload. rewrite blen_app. lia. }
    assert (Hh : h <= base + blen (enc_payload roots bs))
      by (unfold h; pose proof (sec_start_le roots bs 0); lia).
    exists st0, steps, (snd (exp_walk false base w bs h h)), fin.
    split; [exact Hrun|]. split; [apply exp_walk_cids|]. split; [apply exp_walk_length|].
    split; [apply exp_walk_end|]. split; [|split; [rewrite Hhw0; exact Hh|split; [exact Hbound|]]].
    - intros i s Hn.
      destruct (exp_walk_steps_abs false base roots bs w i s Hn) as (c & d & ch & hw & Hb & Hw & Hhw & Hs).
      exists c, d, ch, hw. split; [exact Hb|split; [exact Hw|]].
      pose proof (payload_split roots bs i c d Hb) as Hsplit.
      split; [|split; [exact Hsplit|split; [|split; [exact Hhw|exact Hs]]]].
      + unfold v2_file. fold base. rewrite Hsplit at 2. rewrite <- !app_assoc. reflexivity.
      + rewrite !blen_app, blen_enc_v2hdr, blen_pragma. unfold base. lia.
    - rewrite Hfin. destruct steps as [|s0 steps'] eqn:Es; [exact Hh|].
      assert (Hl : In (last (map step_hw (s0 :: steps')) h) (map step_hw (s0 :: steps'))).
      { generalize (s0 :: steps') (@nil_cons _ s0 steps'). intros l Hne.
        induction l as [|a l IH]; [congruence|]. destruct l as [|b l]; [left; reflexivity|].
        right. apply IH. discriminate. }
      apply in_map_iff in Hl. destruct Hl as (s & <- & Hin). apply Hbound. exact Hin.
  Qed.
End Oracles.

(* ---- non-vacuity: a concrete archive (identity CID, CIDv0, CIDv1 with empty data), every
   hypothesis of the theorems holds, and the model's answer on it ------------------------ *)
Module Ex.
  Definition hok : bytes -> bytes -> option bool := fun _ _ => Some true.
  Definition d1 : bytes := [x61; x62; x63].
  Definition p1 := mkcid 1 85 0 d1.                        (* raw, identity *)
  (* real digests, so that the same archive is a differential case (corpus/C14/example-*.case) *)
  Definition dig2 : bytes := (* sha2-256 of 130 zero bytes *)
    [xe5; x5a; x5c; x27; x73; x6a; x87; x61; xc8; xe9; x6a; xce; xc0; x72; x10; x23;
     x25; xe0; x8c; xb2; xd0; xdb; xb4; xd4; x70; x2c; xfe; x38; xf8; xab; x07; x09].
  Definition dig3 : bytes := (* sha2-256 of the empty string *)
    [xe3; xb0; xc4; x42; x98; xfc; x1c; x14; x9a; xfb; xf4; xc8; x99; x6f; xb9; x24;
     x27; xae; x41; xe4; x64; x9b; x93; x4c; xa4; x95; x99; x1b; x78; x52; xb8; x55].
  Definition p2 := mkcid 0 112 18 dig2.                    (* CIDv0 *)
  Definition p3 := mkcid 1 113 18 dig3.                    (* dag-cbor, sha2-256 *)
  Definition c1 := cid_enc p1. Definition c2 := cid_enc p2. Definition c3 := cid_enc p3.
  Definition bs : list block := [(c1, d1); (c2, zeros 130); (c3, [])].
  Definition roots : list bytes := [c3; c1].
  Definition o := default_ropts.
  Definition w : list bool := [false; true; false; true].

  Lemma cid_ok1 : cid_ok p1. Proof. right. cbn. unfold two63, max_int32. lia. Qed.
  Lemma cid_ok2 : cid_ok p2. Proof. left. cbn. repeat split. Qed.
  Lemma cid_ok3 : cid_ok p3. Proof. right. cbn. unfold two63, max_int32. lia. Qed.

  Lemma blocks_block_ok : Forall (block_ok (o_maxs o)) bs.
  Proof.
    repeat constructor; cbn [fst snd];
      try (eexists; split; [|reflexivity]; first [exact cid_ok1|exact cid_ok2|exact cid_ok3]);
      vm_compute; congruence.
  Qed.
  Lemma blocks_stream_ok : Forall (fun b => cid_stream_ok (fst b)) bs.
  Proof.
    repeat constructor; cbn [fst].
    - exists p1. split; [exact cid_ok1|split; [vm_compute; congruence|reflexivity]].
    - exists p2. split; [exact cid_ok2|split; [vm_compute; congruence|reflexivity]].
    - exists p3. split; [exact cid_ok3|split; [vm_compute; congruence|reflexivity]].
  Qed.
  Lemma blocks_hash_good : Forall (hash_good hok) bs.
  Proof.
    repeat constructor; intros p Hp; vm_compute in Hp; inversion Hp; subst; reflexivity.
  Qed.

  Example c14_v1_hypotheses :
    dec_header_canon (enc_header (Some roots) 1) = Some (roots, 1) /\
    blen (enc_header (Some roots) 1) <= o_maxh o /\ blen (enc_header (Some roots) 1) < two63 /\
    Forall (block_ok (o_maxs o)) bs /\ Forall (fun b => cid_stream_ok (fst b)) bs /\
    (o_trusted o = false -> Forall (hash_good hok) bs).
  Proof.
    split; [vm_compute; reflexivity|]. split; [vm_compute; congruence|]. split; [vm_compute; reflexivity|].
    split; [exact blocks_block_ok|]. split; [exact blocks_stream_ok|]. intros _. exact blocks_hash_good.
  Qed.

  Definition pad : bytes := [x00; xff; x00].
  Definition trailer : bytes := [x01; x02].
  Example c14_v2_hypotheses :
    dec_header_canon pragma_body = Some ([], 2) /\ 10 <= o_maxh o /\
    7 < two64 /\ 9 < two64 /\ 1000 < two63 /\
    51 + blen pad < two63 /\ blen (enc_payload roots bs) < two63.
  Proof. repeat split; vm_compute; congruence. Qed.

  (* what the model computes on it (these become corpus cases) *)
  Definition show (r : res (N * list bytes * brp * (list step * (option err * brp)))) :=
    match r with
    | Err e => None
    | Ok (v, _, st0, (steps, (e, fin))) =>
        Some (v, p_pos st0, map (fun s => (step_pos s, step_hw s, match s with StS m _ _ => Some (m_off m, m_soff m, m_size m) | _ => None end)) steps, e, p_hw fin)
    end.
  Example c14_v1_run_seek :
    show (brp_run hok dec_header_canon o true (enc_payload roots bs) w)
    = Some (1, 70, [(81, 78, Some (70, 70, 3)); (247, 247, None); (284, 284, Some (247, 247, 0))], Some EEof, 284).
  Proof. vm_compute. reflexivity. Qed.
  Example c14_v2_run_plain :
    show (brp_run hok dec_header_canon o false (v2_file 7 9 1000 pad (enc_payload roots bs) trailer) w)
    = Some (2, 124, [(135, 135, Some (70, 124, 3)); (301, 301, None); (338, 338, Some (247, 301, 0))], Some EEof, 338).
  Proof. vm_compute. reflexivity. Qed.

  (* a CARv1 cut right after a section's length varint (0x4e): SkipNext does not report a clean
     end (corpus/C14/skipnext-trunc-after-varint.case), while at a real end it does *)
  Definition cut : bytes := ld (enc_header (Some []) 1) ++ [x4e].
  Example c14_skip_cut_after_varint :
    match brp_run hok dec_header_canon o false cut [false] with
    | Ok (_, _, _, (steps, (e, _))) => (steps, e) = ([], Some EUnexpectedEof)
    | Err _ => False
    end.
  Proof. vm_compute. reflexivity. Qed.
  Example c14_skip_at_real_end :
    match brp_run hok dec_header_canon o false (ld (enc_header (Some []) 1)) [false] with
    | Ok (_, _, st0, (steps, (e, _))) => (steps, e) = ([], Some EEof) /\ vis st0 = []
    | Err _ => False
    end.
  Proof. vm_compute. split; reflexivity. Qed.
End Ex.

Theorem c14_eof_clean hok o st :
  (brp_next hok o st = Err EEof ->
     vis st = [] \/ (o_zeof o = true /\ exists rest n, read_uv (vis st) = VOk 0 rest n)) /\
  (brp_skip o st = Err EEof ->
     vis st = [] \/ (o_zeof o = true /\ exists rest n, read_uv (vis st) = VOk 0 rest n)).
Proof. split; [apply brp_next_eof_clean|apply brp_skip_eof_clean]. Qed.
