(* C15 for the v2 traversal writers: counting loader, teeing loader, WriteV1, WriteV2Header,
   WriteTo, TraverseV1, NewSelectiveWriter, TraverseToFile -- for every load sequence. *)
From GoCar Require Import Bytes Varint Cid Header Frame V2Header Scan Index Traversal.
From GoCarProofs Require Import BytesFacts VarintFacts CidFacts ScanFacts TraversalSpec.

(* hypotheses about the oracle, per opened block *)
Definition load_ok (l : load) : Prop := cid_bytes_ok (l_cid l) /\ l_touched l = true.
Definition reads_all (l : load) : Prop := l_nread l = blen (l_data l).

(* ---- counting loader -------------------------------------------------------------------------- *)
Lemma count_one_section l : reads_all l -> count_one l = section_size (l_cid l) (l_data l).
Proof.
  unfold reads_all, count_one, section_size, ld_size. intros ->.
  rewrite (N.add_comm (blen (l_data l)) (blen (l_cid l))). lia.
Qed.

(* repaired loader: the count is the length of the sections of the first occurrences *)
Lemma counting_fixed seen ls : Forall reads_all ls ->
  counting true seen ls = sections_len (first_occ_from seen (blocks_of ls)).
Proof.
  revert seen. induction ls as [|l t IH]; intros seen H; cbn [counting blocks_of map first_occ_from]; [reflexivity|].
  inversion H as [|? ? Hl Ht]; subst. cbn [andb l_block fst].
  destruct (mem (l_cid l) seen); [apply IH; exact Ht|].
  rewrite sections_len_cons. cbn [fst snd]. rewrite count_one_section by exact Hl.
  fold (blocks_of t). rewrite IH by exact Ht. reflexivity.
Qed.

(* the loader as it was: every open is counted *)
Lemma counting_unfixed seen ls : Forall reads_all ls ->
  counting false seen ls = sections_len (blocks_of ls).
Proof.
  revert seen. induction ls as [|l t IH]; intros seen H; cbn [counting blocks_of map]; [reflexivity|].
  inversion H as [|? ? Hl Ht]; subst. cbn [andb]. fold (blocks_of t).
  rewrite sections_len_cons. cbn [l_block fst snd]. rewrite count_one_section by exact Hl.
  rewrite IH by exact Ht. reflexivity.
Qed.

(* ---- teeing loader ------------------------------------------------------------------------------ *)
Definition rec_of_place (e : block * N * N) : bytes * N := (fst (fst (fst e)), snd (fst e)).

Lemma has_rec_app c r1 r2 : has_rec c (r1 ++ r2) = has_rec c r1 || has_rec c r2.
Proof. induction r1 as [|r t IH]; cbn [app has_rec]; [reflexivity|]. rewrite IH, orb_assoc. reflexivity. Qed.

Lemma tee_spec : forall ls recs seen size,
  Forall load_ok ls -> (forall c, has_rec c recs = mem c seen) ->
  let fo := first_occ_from seen (blocks_of ls) in
  tee recs size ls
  = mktee (enc_sections fo) (size + sections_len fo) (recs ++ map rec_of_place (place size fo)) true.
Proof.
  induction ls as [|l t IH]; intros recs seen size Hok Hinv; cbn [tee blocks_of map first_occ_from].
  - cbn [enc_sections map concat place]. unfold sections_len. cbn [enc_sections map concat]. rewrite app_nil_r.
    rewrite blen_nil, N.add_0_r. reflexivity.
  - inversion Hok as [|? ? [Hc Ht] Hok']; subst.
    destruct (cid_from_bytes_ok (l_cid l) [] Hc) as (p & Hp & _). rewrite app_nil_r in Hp.
    rewrite Hp. rewrite take_all. rewrite Hinv. cbn [l_block fst].
    destruct (mem (l_cid l) seen) eqn:Em.
    + apply IH; assumption.
    + rewrite Ht. fold (blocks_of t).
      rewrite (IH (recs ++ [(l_cid l, size)]) (l_cid l :: seen)); [|exact Hok'|].
      * cbn [te_bytes te_size te_recs te_ok place map]. cbn [fst snd].
        rewrite enc_sections_cons, sections_len_cons. cbn [fst snd].
        unfold rec_of_place at 2. cbn [fst snd].
        rewrite blen_put_uv. unfold section_size, ld_size, enc_section.
        rewrite (N.add_comm (blen (l_data l)) (blen (l_cid l))).
        rewrite <- !app_assoc. cbn [app]. unfold l_block. cbn [fst snd].
        replace (size + (blen (l_data l) + (uv_size (blen (l_cid l) + blen (l_data l)) + blen (l_cid l))))
          with (size + (blen (l_cid l) + blen (l_data l) + uv_size (blen (l_cid l) + blen (l_data l)))) by lia.
        f_equal. lia.
      * intros c. rewrite has_rec_app, Hinv. cbn [has_rec mem fst]. rewrite orb_false_r. apply orb_comm.
Qed.

(* an unparsable link aborts the walk *)
Lemma tee_bad_cid l t recs size : cid_from_bytes (l_cid l) = None -> te_ok (tee recs size (l :: t)) = false.
Proof. intros H. cbn [tee]. rewrite H. reflexivity. Qed.

(* ---- WriteV1 --------------------------------------------------------------------------------------- *)
Lemma head_size_blen root : head_size root = blen (ld (hdr1 root)).
Proof. unfold head_size. rewrite blen_ld. reflexivity. Qed.

Lemma blen_enc_payload roots bs :
  blen (enc_payload roots bs) = blen (ld (enc_header (Some roots) 1)) + sections_len bs.
Proof. unfold enc_payload, sections_len. rewrite blen_app. reflexivity. Qed.

Definition v1_recs (root : bytes) (ls : list load) : list (bytes * N) :=
  map rec_of_place (place (head_size root) (first_occ (blocks_of ls))).

Section Order.
  Variable order : list (bytes * N) -> list (bytes * N).

  Lemma write_v1_spec root codec tcsize ls ok : Forall load_ok ls ->
    let P := enc_payload [root] (first_occ (blocks_of ls)) in
    write_v1 order root codec tcsize (mktrace ls ok)
    = mkv1 P (blen P)
        (if negb ok then V1Err TWalk
         else if negb (tcsize =? 0) && negb (tcsize =? blen P) then V1Err TSizeMismatch
         else if codec =? codec_none then V1Ok None
         else match writer_index order codec (v1_recs root ls) with
              | Some i => V1Ok (Some i)
              | None => V1Err TIndex
              end).
  Proof.
    intros Hok P. unfold write_v1. cbn [t_loads t_ok].
    rewrite (tee_spec ls [] [] (head_size root) Hok) by reflexivity.
    cbn [te_bytes te_size te_recs te_ok app]. fold (first_occ (blocks_of ls)).
    assert (HP : ld (hdr1 root) ++ enc_sections (first_occ (blocks_of ls)) = P) by reflexivity.
    assert (HS : head_size root + sections_len (first_occ (blocks_of ls)) = blen P).
    { unfold P. rewrite blen_enc_payload, head_size_blen. reflexivity. }
    rewrite HP, HS. rewrite andb_true_r. fold (v1_recs root ls).
    destruct ok; cbn [negb]; [|reflexivity].
    destruct (negb (tcsize =? 0) && negb (tcsize =? blen P)); [reflexivity|].
    destruct (codec =? codec_none); [reflexivity|].
    destruct (writer_index order codec (v1_recs root ls)); reflexivity.
  Qed.

  (* TraverseV1 *)
  Theorem traverse_v1_spec root ls ok : Forall load_ok ls ->
    let P := enc_payload [root] (first_occ (blocks_of ls)) in
    traverse_v1 order root (mktrace ls ok) = (P, blen P, if ok then None else Some TWalk).
  Proof.
    intros Hok P. unfold traverse_v1. rewrite write_v1_spec by exact Hok. cbn [v_bytes v_size v_res].
    fold P. destruct ok; cbn [negb]; [|reflexivity].
    cbn [N.eqb negb andb]. rewrite N.eqb_refl. reflexivity.
  Qed.

  (* ---- WriteV2Header ------------------------------------------------------------------------------ *)
  Lemma blen_enc_v2hdr h : blen (enc_v2hdr h) = 40.
  Proof. unfold enc_v2hdr, blen. rewrite !app_length, !le_enc_length. reflexivity. Qed.
  Lemma blen_v2_base h : blen (pragma ++ enc_v2hdr h) = 51.
  Proof. rewrite blen_app, blen_enc_v2hdr. reflexivity. Qed.

  (* the paddings can be allocated: make([]byte, n) panics above max_alloc; the index padding is
     only allocated when an index is written *)
  Definition pads_ok (o : topts) : bool :=
    (o_dpad o <=? max_alloc) && ((o_codec o =? codec_none) || (o_ipad o <=? max_alloc)).
  (* no uint64 wrap-around anywhere in the header arithmetic that matters (the index offset is
     overwritten with 0 when there is no index), and the paddings can be allocated *)
  Definition no_wrap (o : topts) (size : N) : bool :=
    (51 + o_dpad o + size + (if o_codec o =? codec_none then 0 else o_ipad o) <? two64) && pads_ok o.

  (* allocatable paddings and a payload below 2^63 bytes cannot wrap anything *)
  Lemma no_wrap_of_pads o size : pads_ok o = true -> size < two63 -> no_wrap o size = true.
  Proof.
    unfold no_wrap, pads_ok. intros H Hs.
    apply andb_true_iff in H. destruct H as [H1 H2].
    apply andb_true_iff. split.
    - apply N.ltb_lt. apply N.leb_le in H1.
      destruct (o_codec o =? codec_none); cbn [orb] in H2.
      + unfold max_alloc, two63, two64 in *; lia.
      + apply N.leb_le in H2. unfold max_alloc, two63, two64 in *; lia.
    - apply andb_true_iff. split; assumption.
  Qed.

  Definition v2_header (o : topts) (size : N) : v2hdr :=
    mkv2 0 0 (51 + o_dpad o) size
         (if o_codec o =? codec_none then 0 else 51 + o_dpad o + size + o_ipad o).

  Lemma tc_header_no_wrap o size : no_wrap o size = true -> tc_header o size = v2_header o size.
  Proof.
    unfold no_wrap, tc_header, v2_header, new_header, with_data_padding, with_index_padding, wrap64.
    intros H. apply andb_true_iff in H. destruct H as [H _].
    destruct (o_codec o =? codec_none);
      (assert (H' : 51 + o_dpad o + size < two64) by lia);
      destruct (0 <? o_dpad o) eqn:Ed; destruct (0 <? o_ipad o) eqn:Ei;
      cbn [h_hi h_lo h_doff h_dsize h_ioff];
      unfold two64 in *; f_equal; lia.
  Qed.

  Lemma no_wrap_dpad o size : no_wrap o size = true -> o_dpad o <= max_alloc.
  Proof. unfold no_wrap, pads_ok. intros H. lia. Qed.
  Lemma no_wrap_ipad o size : no_wrap o size = true -> o_codec o =? codec_none = false -> o_ipad o <= max_alloc.
  Proof. unfold no_wrap, pads_ok. intros H E. rewrite E in H. cbn [orb] in H. lia. Qed.

  Lemma write_v2_header_no_wrap o size : no_wrap o size = true ->
    write_v2_header o size = (pragma ++ enc_v2hdr (v2_header o size) ++ zerosN (o_dpad o), None).
  Proof.
    intros H. unfold write_v2_header. rewrite tc_header_no_wrap by exact H.
    rewrite blen_v2_base. cbn [v2_header h_doff]. pose proof (no_wrap_dpad o size H) as Hd.
    destruct (51 <? 51 + o_dpad o) eqn:E.
    - replace (51 + o_dpad o - 51) with (o_dpad o) by lia.
      replace (max_alloc <? o_dpad o) with false by lia. rewrite <- app_assoc. reflexivity.
    - replace (51 + o_dpad o <? 51) with false by lia.
      assert (o_dpad o = 0) as -> by lia. unfold zerosN. cbn [N.to_nat zeros]. rewrite app_nil_r. reflexivity.
  Qed.

  (* a data padding that pushes DataOffset past 2^64 is refused (after pragma+header went out) *)
  Lemma write_v2_header_wraps o size : two64 <= 51 + o_dpad o -> o_dpad o < two64 ->
    snd (write_v2_header o size) = Some TOffsetImpossible.
  Proof.
    intros H1 H2. unfold write_v2_header. rewrite blen_v2_base.
    assert (Hd : h_doff (tc_header o size) = 51 + o_dpad o - two64).
    { unfold tc_header, new_header, with_data_padding, with_index_padding, wrap64.
      replace (0 <? o_dpad o) with true by (unfold two64 in *; lia).
      destruct (0 <? o_ipad o); destruct (o_codec o =? codec_none); cbn [h_doff];
        unfold two64 in *; lia. }
    rewrite Hd. replace (51 <? 51 + o_dpad o - two64) with false by lia.
    replace (51 + o_dpad o - two64 <? 51) with true by lia. reflexivity.
  Qed.

  Lemma blen_v2_head o size : blen (pragma ++ enc_v2hdr (v2_header o size) ++ zerosN (o_dpad o)) = 51 + o_dpad o.
  Proof. rewrite !blen_app, blen_enc_v2hdr, blen_zerosN. change (blen pragma) with 11. lia. Qed.

  Lemma ipad_zeros p : (if 0 <? p then zerosN p else []) = zerosN p.
  Proof. destruct (0 <? p) eqn:E; [reflexivity|]. assert (p = 0) as -> by lia. reflexivity. Qed.

  (* ---- WriteTo --------------------------------------------------------------------------------------- *)
  (* what follows the payload, and the error, once the walk has succeeded and the sizes agree *)
  Definition index_tail (o : topts) (recs : list (bytes * N)) : bytes * option terr :=
    if o_codec o =? codec_none then ([], None)
    else match writer_index order (o_codec o) recs with
         | Some i => (zerosN (o_ipad o) ++ idx_write i, None)
         | None => ([], Some TIndex)
         end.

  Lemma write_to_spec root o tcsize ls : Forall load_ok ls ->
    let P := enc_payload [root] (first_occ (blocks_of ls)) in
    no_wrap o tcsize = true -> (tcsize = 0 \/ tcsize = blen P) ->
    let H := pragma ++ enc_v2hdr (v2_header o tcsize) ++ zerosN (o_dpad o) in
    let tl := index_tail o (v1_recs root ls) in
    write_to order root o tcsize (mktrace ls true)
    = mkw (H ++ P ++ fst tl) (blen (H ++ P ++ fst tl)) (snd tl)
          (match snd tl with None => blen P | Some _ => tcsize end).
  Proof.
    intros Hok P Hnw Hsz H tl. unfold write_to.
    rewrite write_v2_header_no_wrap by exact Hnw. fold H.
    rewrite write_v1_spec by exact Hok. fold P. cbn [v_bytes v_size v_res negb].
    replace (negb (tcsize =? 0) && negb (tcsize =? blen P)) with false
      by (destruct Hsz as [-> | ->]; [reflexivity|rewrite N.eqb_refl, andb_false_r; reflexivity]).
    unfold tl, index_tail.
    destruct (o_codec o =? codec_none) eqn:Ec.
    - cbn [fst snd]. rewrite app_nil_r. rewrite blen_app. reflexivity.
    - destruct (writer_index order (o_codec o) (v1_recs root ls)) as [i|] eqn:Ew; cbn [fst snd].
      + pose proof (no_wrap_ipad o tcsize Hnw Ec) as Hi.
        replace (max_alloc <? o_ipad o) with false by lia.
        rewrite ipad_zeros. f_equal. rewrite !blen_app. lia.
      + rewrite app_nil_r. rewrite blen_app. reflexivity.
  Qed.

  (* the ErrSizeMismatch guard: an announced size that differs from what was written is reported *)
  Lemma write_to_mismatch root o tcsize ls : Forall load_ok ls ->
    let P := enc_payload [root] (first_occ (blocks_of ls)) in
    no_wrap o tcsize = true -> tcsize <> 0 -> tcsize <> blen P ->
    w_err (write_to order root o tcsize (mktrace ls true)) = Some TSizeMismatch.
  Proof.
    intros Hok P Hnw H0 H1. unfold write_to.
    rewrite write_v2_header_no_wrap by exact Hnw.
    rewrite write_v1_spec by exact Hok. fold P. cbn [v_bytes v_size v_res negb].
    replace (tcsize =? 0) with false by lia. replace (tcsize =? blen P) with false by lia. reflexivity.
  Qed.

  (* ---- NewSelectiveWriter + WriteTo ---------------------------------------------------------------- *)
  Lemma new_selective_writer_fixed root ls1 : Forall reads_all ls1 ->
    new_selective_writer true root (mktrace ls1 true)
    = Some (blen (enc_payload [root] (first_occ (blocks_of ls1)))).
  Proof.
    intros H. unfold new_selective_writer. cbn [t_ok t_loads]. rewrite counting_fixed by exact H.
    rewrite blen_enc_payload, head_size_blen. reflexivity.
  Qed.

  Theorem selective_write_spec root o ls1 ls2 :
    Forall reads_all ls1 -> Forall load_ok ls2 -> blocks_of ls1 = blocks_of ls2 ->
    let o' := apply_opts o in
    let P := enc_payload [root] (first_occ (blocks_of ls2)) in
    no_wrap o' (blen P) = true ->
    let H := pragma ++ enc_v2hdr (v2_header o' (blen P)) ++ zerosN (o_dpad o') in
    let tl := index_tail o' (v1_recs root ls2) in
    selective_write order true root o (mktrace ls1 true) (mktrace ls2 true)
    = Some (mkw (H ++ P ++ fst tl) (blen (H ++ P ++ fst tl)) (snd tl) (blen P)).
  Proof.
    intros Hr Hok Heq o' P Hnw H tl. unfold selective_write.
    rewrite new_selective_writer_fixed by exact Hr. rewrite Heq. fold P. fold o'.
    rewrite write_to_spec; [|exact Hok|exact Hnw|right; reflexivity].
    fold P H tl. destruct (snd tl); reflexivity.
  Qed.

  Lemma new_selective_writer_pos fixed root tr1 size :
    new_selective_writer fixed root tr1 = Some size -> size <> 0.
  Proof.
    unfold new_selective_writer. destruct (t_ok tr1); [|discriminate]. intros H. inversion H.
    unfold head_size, ld_size. pose proof (uv_size_pos (blen (hdr1 root))). lia.
  Qed.

  (* whatever the two walks saw (any counting trace, fixed or not): if WriteTo reports no error,
     the data size announced in the CARv2 header is exactly what was written, the payload is the
     first occurrences of the teeing walk's loads, and the returned count is the output length *)
  Theorem selective_write_sound fixed root o tr1 ls2 size w :
    Forall load_ok ls2 ->
    new_selective_writer fixed root tr1 = Some size ->
    let o' := apply_opts o in
    no_wrap o' size = true ->
    selective_write order fixed root o tr1 (mktrace ls2 true) = Some w -> w_err w = None ->
    let P := enc_payload [root] (first_occ (blocks_of ls2)) in
    let tl := index_tail o' (v1_recs root ls2) in
    size = blen P
    /\ w_bytes w = (pragma ++ enc_v2hdr (v2_header o' (blen P)) ++ zerosN (o_dpad o')) ++ P ++ fst tl
    /\ w_n w = blen (w_bytes w).
  Proof.
    intros Hok Hn o' Hnw Hs He P tl. unfold selective_write in Hs. rewrite Hn in Hs.
    fold o' in Hs. assert (Hw : w = write_to order root o' size (mktrace ls2 true)) by congruence. clear Hs.
    pose proof (new_selective_writer_pos _ _ _ _ Hn) as Hpos.
    destruct (N.eq_dec size (blen P)) as [Heq|Hne].
    - split; [exact Heq|]. rewrite Hw. rewrite Heq in *.
      rewrite write_to_spec; [|exact Hok|exact Hnw|right; reflexivity].
      cbn [w_bytes w_n]. split; reflexivity.
    - exfalso. pose proof (write_to_mismatch root o' size ls2 Hok Hnw Hpos Hne) as Hm.
      rewrite <- Hw in Hm. rewrite He in Hm. discriminate.
  Qed.

  (* ---- TraverseToFile ------------------------------------------------------------------------------- *)
  Lemma no_wrap_mono o a b : a <= b -> no_wrap o b = true -> no_wrap o a = true.
  Proof.
    unfold no_wrap. intros Hab H. apply andb_true_iff in H. destruct H as [H1 H2]. rewrite H2, andb_true_r.
    destruct (o_codec o =? codec_none); lia.
  Qed.

  Theorem traverse_to_file_spec root o ls : Forall load_ok ls ->
    let o' := apply_opts o in
    let P := enc_payload [root] (first_occ (blocks_of ls)) in
    no_wrap o' (blen P) = true ->
    let H := pragma ++ enc_v2hdr (v2_header o' (blen P)) ++ zerosN (o_dpad o') in
    let tl := index_tail o' (v1_recs root ls) in
    traverse_to_file order root o (mktrace ls true)
    = match snd tl with
      | None => (H ++ P ++ fst tl, None)
      | Some e => ((pragma ++ enc_v2hdr (v2_header o' 0) ++ zerosN (o_dpad o')) ++ P ++ fst tl, Some e)
      end.
  Proof.
    intros Hok o' P Hnw H tl. unfold traverse_to_file. fold o'.
    assert (Hnw0 : no_wrap o' 0 = true) by (eapply no_wrap_mono; [|exact Hnw]; lia).
    rewrite write_to_spec; [|exact Hok|exact Hnw0|left; reflexivity]. fold P tl.
    cbn [w_err w_bytes w_size]. destruct (snd tl) as [e|] eqn:Et; [reflexivity|].
    rewrite write_v2_header_no_wrap by exact Hnw. fold H.
    assert (Hl : blen H = blen (pragma ++ enc_v2hdr (v2_header o' 0) ++ zerosN (o_dpad o')))
      by (unfold H; rewrite !blen_v2_head; reflexivity).
    rewrite Hl.
    rewrite drop_app. reflexivity.
  Qed.

  (* ---- the records handed to the index locate their sections ------------------------------------------ *)
  Theorem v1_recs_locate root ls c off :
    In (c, off) (v1_recs root ls) ->
    let P := enc_payload [root] (first_occ (blocks_of ls)) in
    exists d, In (c, d) (first_occ (blocks_of ls))
              /\ take (section_size c d) (drop off P) = enc_section c d
              /\ off + section_size c d <= blen P.
  Proof.
    intros Hin P. unfold v1_recs in Hin. apply in_map_iff in Hin. destruct Hin as ([[b o1] sz] & He & Hin).
    unfold rec_of_place in He. cbn [fst snd] in He. inversion He; subst. clear He.
    exists (snd b). split.
    - pose proof (place_blocks (head_size root) (first_occ (blocks_of ls))) as Hb.
      assert (In b (map (fun e => fst (fst e)) (place (head_size root) (first_occ (blocks_of ls))))).
      { apply in_map_iff. exists (b, off, sz). split; [reflexivity|exact Hin]. }
      rewrite Hb in H. destruct b. exact H.
    - rewrite head_size_blen in Hin.
      destruct (place_locates _ (ld (hdr1 root)) [] b off sz Hin) as (H1 & H2 & H3 & _).
      rewrite app_nil_r in H1. rewrite <- blen_enc_section. rewrite <- H2. split; [exact H1|exact H3].
  Qed.
  (* ---- paddings that cannot be allocated, and uint64 wrap of the index offset ---------------------- *)
  Lemma tc_header_doff o size :
    h_doff (tc_header o size) = if 0 <? o_dpad o then (51 + o_dpad o) mod two64 else 51.
  Proof.
    unfold tc_header, new_header, with_data_padding, with_index_padding, wrap64.
    destruct (0 <? o_dpad o); destruct (0 <? o_ipad o); destruct (o_codec o =? codec_none); reflexivity.
  Qed.

  (* WriteV2Header reports no error only if the data offset did not wrap and the data padding could
     be allocated (paddings are uint64 options) *)
  Lemma write_v2_header_ok_inv o size : o_dpad o < two64 ->
    snd (write_v2_header o size) = None -> o_dpad o <= max_alloc.
  Proof.
    intros Hu. unfold write_v2_header. rewrite blen_v2_base, tc_header_doff.
    destruct (0 <? o_dpad o) eqn:E0; [|unfold max_alloc; lia].
    destruct (51 <? (51 + o_dpad o) mod two64) eqn:E1.
    - destruct (max_alloc <? (51 + o_dpad o) mod two64 - 51) eqn:E2; cbn [snd]; [discriminate|].
      intros _. unfold two64, max_alloc in *. lia.
    - destruct ((51 + o_dpad o) mod two64 <? 51) eqn:E3; cbn [snd]; [discriminate|].
      intros _. unfold two64, max_alloc in *. lia.
  Qed.

  (* a data padding above the allocation limit whose data offset still fits: pragma and header
     (possibly with a wrapped index offset) go out, then make() panics *)
  Lemma write_v2_header_panics o size : max_alloc < o_dpad o -> 51 + o_dpad o < two64 ->
    snd (write_v2_header o size) = Some TPanic.
  Proof.
    intros H1 H2. unfold write_v2_header. rewrite blen_v2_base, tc_header_doff.
    replace (0 <? o_dpad o) with true by (unfold max_alloc in *; lia).
    rewrite N.mod_small by exact H2.
    replace (51 <? 51 + o_dpad o) with true by (unfold max_alloc in *; lia).
    replace (max_alloc <? 51 + o_dpad o - 51) with true by lia. reflexivity.
  Qed.

  (* WriteTo reports success only if both paddings could be allocated *)
  Lemma write_to_success_pads root o tcsize ls ok : Forall load_ok ls -> o_dpad o < two64 ->
    w_err (write_to order root o tcsize (mktrace ls ok)) = None -> pads_ok o = true.
  Proof.
    intros Hok Hu. unfold write_to, pads_ok.
    pose proof (write_v2_header_ok_inv o tcsize Hu) as Hd.
    destruct (write_v2_header o tcsize) as [hb [e|]]; [cbn; discriminate|].
    specialize (Hd eq_refl). replace (o_dpad o <=? max_alloc) with true by lia. cbn [andb].
    rewrite write_v1_spec by exact Hok. cbn [v_bytes v_size v_res].
    destruct (negb ok); [cbn; discriminate|].
    destruct (negb (tcsize =? 0) && negb (tcsize =? blen (enc_payload [root] (first_occ (blocks_of ls)))));
      [cbn; discriminate|].
    destruct (o_codec o =? codec_none); [reflexivity|]. cbn [orb].
    destruct (writer_index order (o_codec o) (v1_recs root ls)); [|cbn; discriminate].
    destruct (max_alloc <? o_ipad o) eqn:E; [cbn; discriminate|]. intros _. lia.
  Qed.

  (* THE GAP "data offset fits, index offset wraps": it never ends in success.  With an index, a
     payload below 2^63 bytes and uint64 paddings, 51+dpad+size+ipad >= 2^64 forces a padding above
     the allocation limit, so WriteTo panics (or has failed earlier) -- after having written a
     header whose index offset is wrapped. *)
  Theorem index_offset_wrap_never_succeeds root o tcsize ls ok :
    Forall load_ok ls -> o_dpad o < two64 -> tcsize < two63 ->
    o_codec o =? codec_none = false ->
    two64 <= 51 + o_dpad o + tcsize + o_ipad o ->
    w_err (write_to order root o tcsize (mktrace ls ok)) <> None.
  Proof.
    intros Hok Hu Hs Hc Hw He. pose proof (write_to_success_pads root o tcsize ls ok Hok Hu He) as Hp.
    unfold pads_ok in Hp. apply andb_true_iff in Hp. destruct Hp as [H1 H2].
    rewrite Hc in H2. cbn [orb] in H2. apply N.leb_le in H1. apply N.leb_le in H2.
    clear He Hok. unfold max_alloc, two63, two64 in *. lia.
  Qed.

  (* an index padding above the limit, everything else fine: payload written, then the panic *)
  Lemma write_to_ipad_panics root o ls i :
    Forall load_ok ls -> o_dpad o <= max_alloc -> 51 + o_dpad o < two64 ->
    o_codec o =? codec_none = false -> max_alloc < o_ipad o ->
    writer_index order (o_codec o) (v1_recs root ls) = Some i ->
    w_err (write_to order root o 0 (mktrace ls true)) = Some TPanic.
  Proof.
    intros Hok Hd Hf Hc Hi Hw. unfold write_to.
    assert (Hh : snd (write_v2_header o 0) = None).
    { unfold write_v2_header. rewrite blen_v2_base, tc_header_doff.
      destruct (0 <? o_dpad o) eqn:E0; [|reflexivity].
      rewrite N.mod_small by exact Hf.
      replace (51 <? 51 + o_dpad o) with true by lia.
      replace (max_alloc <? 51 + o_dpad o - 51) with false by lia. reflexivity. }
    destruct (write_v2_header o 0) as [hb e]. cbn [snd] in Hh. subst e.
    rewrite write_v1_spec by exact Hok. cbn [v_bytes v_size v_res negb N.eqb andb].
    rewrite Hc, Hw. replace (max_alloc <? o_ipad o) with true by lia. reflexivity.
  Qed.

  (* ---- the main statements with the guard "paddings allocatable, payload below 2^63 bytes" ----------- *)
  Theorem selective_write_spec_pads root o ls1 ls2 :
    Forall reads_all ls1 -> Forall load_ok ls2 -> blocks_of ls1 = blocks_of ls2 ->
    let o' := apply_opts o in
    let P := enc_payload [root] (first_occ (blocks_of ls2)) in
    pads_ok o' = true -> blen P < two63 ->
    let H := pragma ++ enc_v2hdr (v2_header o' (blen P)) ++ zerosN (o_dpad o') in
    let tl := index_tail o' (v1_recs root ls2) in
    selective_write order true root o (mktrace ls1 true) (mktrace ls2 true)
    = Some (mkw (H ++ P ++ fst tl) (blen (H ++ P ++ fst tl)) (snd tl) (blen P)).
  Proof.
    intros Hr Hok Heq o' P Hp Hs. apply selective_write_spec; try assumption.
    apply no_wrap_of_pads; assumption.
  Qed.

  (* success of WriteTo alone (no guard on the paddings beyond being uint64) *)
  Theorem selective_write_sound_pads fixed root o tr1 ls2 size w :
    Forall load_ok ls2 ->
    new_selective_writer fixed root tr1 = Some size ->
    let o' := apply_opts o in
    o_dpad o' < two64 -> size < two63 ->
    selective_write order fixed root o tr1 (mktrace ls2 true) = Some w -> w_err w = None ->
    let P := enc_payload [root] (first_occ (blocks_of ls2)) in
    let tl := index_tail o' (v1_recs root ls2) in
    size = blen P
    /\ w_bytes w = (pragma ++ enc_v2hdr (v2_header o' (blen P)) ++ zerosN (o_dpad o')) ++ P ++ fst tl
    /\ w_n w = blen (w_bytes w)
    /\ 51 + o_dpad o' + blen P + (if o_codec o' =? codec_none then 0 else o_ipad o') < two64.
  Proof.
    intros Hok Hn o' Hu Hs Hsel He P tl.
    assert (Hp : pads_ok o' = true).
    { unfold selective_write in Hsel. rewrite Hn in Hsel. fold o' in Hsel.
      assert (Hw : w = write_to order root o' size (mktrace ls2 true)) by congruence.
      rewrite Hw in He. eapply write_to_success_pads; eassumption. }
    pose proof (no_wrap_of_pads o' size Hp Hs) as Hnw.
    destruct (selective_write_sound fixed root o tr1 ls2 size w Hok Hn Hnw Hsel He) as (H1 & H2 & H3).
    split; [exact H1|]. split; [exact H2|]. split; [exact H3|].
    fold P in H1. rewrite <- H1. unfold no_wrap in Hnw. apply andb_true_iff in Hnw. destruct Hnw as [Hnw _]. lia.
  Qed.

  Theorem traverse_to_file_spec_pads root o ls : Forall load_ok ls ->
    let o' := apply_opts o in
    let P := enc_payload [root] (first_occ (blocks_of ls)) in
    pads_ok o' = true -> blen P < two63 ->
    let H := pragma ++ enc_v2hdr (v2_header o' (blen P)) ++ zerosN (o_dpad o') in
    let tl := index_tail o' (v1_recs root ls) in
    traverse_to_file order root o (mktrace ls true)
    = match snd tl with
      | None => (H ++ P ++ fst tl, None)
      | Some e => ((pragma ++ enc_v2hdr (v2_header o' 0) ++ zerosN (o_dpad o')) ++ P ++ fst tl, Some e)
      end.
  Proof.
    intros Hok o' P Hp Hs. apply traverse_to_file_spec; [exact Hok|]. apply no_wrap_of_pads; assumption.
  Qed.
End Order.

(* ---- the defect in the loader as it was (fixed = false) ------------------------------------------ *)
(* without repeats both loaders count the same *)
Lemma counting_unfixed_norepeat seen ls :
  has_repeat seen (blocks_of ls) = false -> counting false seen ls = counting true seen ls.
Proof.
  revert seen. induction ls as [|l t IH]; intros seen; cbn [counting blocks_of map has_repeat]; [reflexivity|].
  cbn [l_block fst]. intros H. apply orb_false_iff in H. destruct H as [H1 H2].
  rewrite H1. cbn [andb]. fold (blocks_of t) in H2. rewrite IH by exact H2. reflexivity.
Qed.

(* the output of TraverseV1 read back by the v2 BlockReader (ScanFacts, L4) *)
Theorem traverse_v1_reads_back hok hdrdec o order root ls :
  Forall load_ok ls ->
  archive_ok hok hdrdec o [root] (first_occ (blocks_of ls)) ->
  br_read_all hok hdrdec o (fst (fst (traverse_v1 order root (mktrace ls true))))
  = Ok (1, [root], mkscan (first_occ (blocks_of ls)) EEof).
Proof.
  intros Hok Ha. rewrite traverse_v1_spec by exact Hok. cbn [fst]. apply br_read_all_v1. exact Ha.
Qed.
