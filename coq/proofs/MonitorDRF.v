(* MonitorDRF.v -- lock discipline => data-race freedom, section isolation, no lock misuse,
   for any number of threads, any interleaving, any number of RW mutexes, goroutine spawn
   with and without lock hand-off.  Generic: nothing here mentions go-car. *)
From Coq Require Import List Arith Bool Lia.
Import ListNotations.
From GoCar Require Import Monitor.

(* ---- held-set facts ------------------------------------------------------------------ *)
Lemma mode_eqb_eq a b : mode_eqb a b = true -> a = b.
Proof. destruct a, b; cbn; congruence. Qed.

Lemma held_eqb_eq a : forall b, held_eqb a b = true -> a = b.
Proof.
  induction a as [|[m md] a IH]; intros [|[m' md'] b]; cbn; try congruence.
  intro H. apply andb_prop in H as [H H3]. apply andb_prop in H as [H1 H2].
  apply Nat.eqb_eq in H1. apply mode_eqb_eq in H2. rewrite (IH _ H3). congruence.
Qed.

Lemma held_eqb_refl a : held_eqb a a = true.
Proof. induction a as [|[m md] a IH]; cbn; auto. rewrite Nat.eqb_refl, IH. destruct md; reflexivity. Qed.

Lemma is_nil_eq {A} (l : list A) : is_nil l = true -> l = [].
Proof. destruct l; cbn; congruence. Qed.

Lemma hget_hdel_other h m m' : m' <> m -> hget (hdel h m) m' = hget h m'.
Proof.
  intro Hne. induction h as [|[x md] t IH]; cbn; auto.
  destruct (Nat.eqb_spec x m) as [->|Hx].
  - destruct (Nat.eqb_spec m m'); [congruence|reflexivity].
  - cbn. rewrite IH. reflexivity.
Qed.

Lemma hget_lt_none h m : forallb (fun e => Nat.ltb (fst e) m) h = true -> hget h m = None.
Proof.
  induction h as [|[x md] t IH]; cbn; auto. intro H. apply andb_prop in H as [H1 H2].
  apply Nat.ltb_lt in H1. destruct (Nat.eqb_spec x m); [lia|auto].
Qed.

Lemma hget_some_lt h m x md :
  forallb (fun e => Nat.ltb (fst e) x) h = true -> hget h m = Some md -> m < x.
Proof.
  induction h as [|[y md'] t IH]; cbn; [discriminate|]. intros H G. apply andb_prop in H as [H1 H2].
  apply Nat.ltb_lt in H1. destruct (Nat.eqb_spec y m); [lia|auto].
Qed.

Lemma forallb_hdel (P : nat * mode -> bool) h m : forallb P h = true -> forallb P (hdel h m) = true.
Proof.
  induction h as [|[x md] t IH]; cbn; auto. intro H. apply andb_prop in H as [H1 H2].
  destruct (Nat.eqb x m); auto. cbn. rewrite H1. auto.
Qed.

Lemma hsorted_hdel h m : hsorted h = true -> hsorted (hdel h m) = true.
Proof.
  induction h as [|[x md] t IH]; cbn; auto. intro H. apply andb_prop in H as [H1 H2].
  destruct (Nat.eqb x m); auto. cbn. rewrite forallb_hdel by exact H1. auto.
Qed.

Lemma hget_hdel_same h m : hsorted h = true -> hget (hdel h m) m = None.
Proof.
  induction h as [|[x md] t IH]; cbn; auto. intro H. apply andb_prop in H as [H1 H2].
  destruct (Nat.eqb_spec x m) as [->|Hx].
  - apply hget_lt_none. exact H1.
  - cbn. destruct (Nat.eqb_spec x m); [congruence|auto].
Qed.

(* ---- counting threads by a predicate --------------------------------------------------- *)
Definition cnt (p : thread -> bool) (l : list thread) : nat := length (filter p l).
Lemma cnt_app p a b : cnt p (a ++ b) = cnt p a + cnt p b.
Proof. unfold cnt. rewrite filter_app, app_length. reflexivity. Qed.
Lemma cnt_cons p t l : cnt p (t :: l) = (if p t then 1 else 0) + cnt p l.
Proof. unfold cnt. cbn. destruct (p t); reflexivity. Qed.
Lemma cnt_nil p : cnt p [] = 0.
Proof. reflexivity. Qed.
Lemma cnt_pos_ex p l : cnt p l <> 0 -> exists t, In t l /\ p t = true.
Proof.
  induction l as [|t l IH]; [rewrite cnt_nil; congruence|]. rewrite cnt_cons.
  destruct (p t) eqn:E; [exists t; cbn; auto|]. intro H. destruct IH as (u & Hu & Pu); [lia|].
  exists u; cbn; auto.
Qed.

Definition pW (m : nat) (t : thread) : bool := holdsW (th t) m.
Definition pR (m : nat) (t : thread) : bool := holdsR (th t) m.

Lemma Forall_mid {A} (P : A -> Prop) l x r :
  Forall P (l ++ x :: r) <-> Forall P l /\ P x /\ Forall P r.
Proof.
  rewrite Forall_app. split; intros [H1 H2]; [inversion H2; subst; auto | destruct H2; auto].
Qed.

Section Env.
Variable guard : nat -> nat.
Variable exempt : nat -> bool.
Variable listed : nat -> bool.
Variable tbl : list (held * path).

Notation step_ok := (step_ok guard exempt listed tbl).
Notation run := (run guard exempt listed tbl).
Notation ok := (ok guard exempt listed tbl).
Notation neutral := (neutral guard exempt listed tbl).
Notation run_path := (run_path guard exempt listed tbl).
Notation ok_path := (ok_path guard exempt listed tbl).
Notation tbl_ok := (tbl_ok guard exempt listed tbl).
Notation entry := (entry tbl).
Notation step := (step tbl).
Notation steps := (steps tbl).

(* ---- the check: composition, loops ------------------------------------------------------ *)
Lemma run_app h a b : run h (a ++ b) = match run h a with Some h' => run h' b | None => None end.
Proof. revert h. induction a as [|x a IH]; intro h; cbn; auto. destruct (step_ok h x); auto. Qed.

Lemma ok_cons h a k : ok h (a :: k) = match step_ok h a with Some h' => ok h' k | None => false end.
Proof. unfold Monitor.ok. cbn. destruct (step_ok h a); reflexivity. Qed.

Lemma ok_nil h : ok h [] = true -> h = [].
Proof. unfold Monitor.ok. cbn. destruct h; congruence. Qed.

Lemma ok_app h a b : ok [] a = true -> ok h b = true -> h = [] -> ok [] (a ++ b) = true.
Proof.
  intros Ha Hb ->. unfold Monitor.ok in *. rewrite run_app.
  destruct (run [] a) as [[|]|]; try discriminate. exact Hb.
Qed.

Lemma ok_concat cds : Forall (fun c => ok [] c = true) cds -> ok [] (concat cds) = true.
Proof.
  induction 1 as [|c cds Hc _ IH]; cbn; [reflexivity|]. eapply ok_app; eauto.
Qed.

Lemma run_path_expands p cd : expands p cd -> forall h h', run_path h p = Some h' -> run h cd = Some h'.
Proof.
  induction 1 as [|l p c _ IH|alts p c _ IH|alts b p c Hb _ IH]; intros h h' H.
  - cbn in *. exact H.
  - cbn in H. rewrite run_app. destruct (run h l) as [h1|]; [|discriminate]. apply IH. exact H.
  - cbn in H. destruct (forallb (neutral h) alts); [|discriminate]. apply IH. exact H.
  - pose proof H as H0. cbn in H. destruct (forallb (neutral h) alts) eqn:En; [|discriminate].
    rewrite forallb_forall in En. specialize (En _ Hb). unfold Monitor.neutral in En.
    rewrite run_app. destruct (run h b) as [h1|]; [|discriminate].
    apply held_eqb_eq in En. subst h1. apply IH. exact H0.
Qed.

Lemma ok_path_expands h p cd : ok_path h p = true -> expands p cd -> ok h cd = true.
Proof.
  unfold Monitor.ok_path, Monitor.ok. intros H E.
  destruct (run_path h p) as [h'|] eqn:R; [|discriminate].
  rewrite (run_path_expands _ _ E _ _ R). exact H.
Qed.

Lemma step_ok_sorted h a h' : step_ok h a = Some h' -> hsorted h = true -> hsorted h' = true.
Proof.
  destruct a as [m md|m md|f|f|i|i|s]; cbn; intros H Hs.
  - destruct (forallb _ h) eqn:E; inversion H; subst. cbn. rewrite E, Hs. reflexivity.
  - destruct (hget h m) as [md'|]; [|discriminate]. destruct (mode_eqb md md'); inversion H; subst.
    apply hsorted_hdel. exact Hs.
  - destruct (_ || _); inversion H; subst; auto.
  - destruct (_ && _); inversion H; subst; auto.
  - destruct (is_nil _); inversion H; subst; auto.
  - destruct (held_eqb _ _); inversion H; subst; auto.
  - destruct (_ || _); inversion H; subst; auto.
Qed.

(* ---- the invariant -------------------------------------------------------------------- *)
Definition tinv (t : thread) : Prop := ok (th t) (code t) = true /\ hsorted (th t) = true.

Definition linv (c : cfg) (m : nat) : Prop :=
  cnt (pW m) (ts c) = (if wl (lk c m) then 1 else 0) /\
  cnt (pR m) (ts c) = rc (lk c m) /\
  (wl (lk c m) = true -> rc (lk c m) = 0).

Definition Inv (c : cfg) : Prop := Forall tinv (ts c) /\ forall m, linv c m.

Hypothesis Htbl : tbl_ok = true.

Lemma entry_ok i cd : expands (snd (entry i)) cd ->
  ok (fst (entry i)) cd = true /\ hsorted (fst (entry i)) = true.
Proof.
  intro E. unfold Monitor.entry in *.
  destruct (nth_in_or_default i tbl ([], [])) as [Hin | Hd].
  - unfold Monitor.tbl_ok in Htbl. rewrite forallb_forall in Htbl. specialize (Htbl _ Hin).
    apply andb_prop in Htbl as [H1 H2]. split; [|exact H1]. eapply ok_path_expands; eauto.
  - rewrite Hd in *. cbn in *. split; [|reflexivity]. inversion E; subst. reflexivity.
Qed.

Lemma pW_nil m k : pW m {| th := []; code := k |} = false. Proof. reflexivity. Qed.
Lemma pR_nil m k : pR m {| th := []; code := k |} = false. Proof. reflexivity. Qed.

Ltac cntnorm :=
  repeat (rewrite ?cnt_app, ?cnt_cons, ?cnt_nil in * ).

(* threads other than the acting one are untouched; a mutex other than the acted one keeps
   its state and every thread's view of it *)
Lemma pW_other m m0 md h k k' : m0 <> m ->
  pW m0 {| th := (m, md) :: h; code := k |} = pW m0 {| th := h; code := k' |}.
Proof. intro H. unfold pW, holdsW. cbn. destruct (Nat.eqb_spec m m0); [congruence|reflexivity]. Qed.
Lemma pR_other m m0 md h k k' : m0 <> m ->
  pR m0 {| th := (m, md) :: h; code := k |} = pR m0 {| th := h; code := k' |}.
Proof. intro H. unfold pR, holdsR. cbn. destruct (Nat.eqb_spec m m0); [congruence|reflexivity]. Qed.
Lemma pW_del_other m m0 h k k' : m0 <> m ->
  pW m0 {| th := hdel h m; code := k |} = pW m0 {| th := h; code := k' |}.
Proof. intro H. unfold pW, holdsW. cbn. rewrite hget_hdel_other by exact H. reflexivity. Qed.
Lemma pR_del_other m m0 h k k' : m0 <> m ->
  pR m0 {| th := hdel h m; code := k |} = pR m0 {| th := h; code := k' |}.
Proof. intro H. unfold pR, holdsR. cbn. rewrite hget_hdel_other by exact H. reflexivity. Qed.
Lemma p_code_irrel h k k' m :
  pW m {| th := h; code := k |} = pW m {| th := h; code := k' |} /\
  pR m {| th := h; code := k |} = pR m {| th := h; code := k' |}.
Proof. split; reflexivity. Qed.

Lemma upd_same l m v : upd l m v m = v.
Proof. unfold upd. rewrite Nat.eqb_refl. reflexivity. Qed.
Lemma upd_other l m v m0 : m0 <> m -> upd l m v m0 = l m0.
Proof. unfold upd. intro H. destruct (Nat.eqb_spec m0 m); [congruence|reflexivity]. Qed.

Lemma step_inv c i a c' : Inv c -> step c i a c' -> Inv c'.
Proof.
  intros [Hts Hl] Hs.
  destruct Hs as [l r h k c m E Hw Hr | l r h k c m E Hw | l r h k c m E | l r h k c m E
                 | l r h k f c E | l r h k f c E | l r h k s c E
                 | l r h k b cd c E Hex | l r h k b cd c E Hex];
    rewrite E in Hts; apply Forall_mid in Hts; destruct Hts as (Htl & [Hx Hsx] & Htr);
    cbn [th code] in Hx, Hsx; rewrite ok_cons in Hx;
    destruct (step_ok h _) as [h1|] eqn:Es; try discriminate;
    pose proof (step_ok_sorted _ _ _ Es Hsx) as Hs1; cbn in Es.
  - (* AcqW *)
    destruct (forallb _ h) eqn:Ef; inversion Es; subst h1.
    split; [apply Forall_mid; repeat split; auto|].
    intro m0. specialize (Hl m0). unfold linv in *. cbn [lk ts]. rewrite E in Hl.
    destruct (Nat.eq_dec m0 m) as [->|Hne].
    + rewrite upd_same. cbn [wl rc]. rewrite Hw, Hr in Hl. destruct Hl as (HW & HR & _).
      pose proof (hget_lt_none _ _ Ef) as Hn. cntnorm.
      unfold pW, pR, holdsW, holdsR in *. cbn [th hget] in *. rewrite Nat.eqb_refl. rewrite Hn in *.
      repeat split; lia.
    + rewrite upd_other by exact Hne. cntnorm.
      rewrite (pW_other m m0 MW h k (Acq m MW :: k)) by exact Hne.
      rewrite (pR_other m m0 MW h k (Acq m MW :: k)) by exact Hne. exact Hl.
  - (* AcqR *)
    destruct (forallb _ h) eqn:Ef; inversion Es; subst h1.
    split; [apply Forall_mid; repeat split; auto|].
    intro m0. specialize (Hl m0). unfold linv in *. cbn [lk ts]. rewrite E in Hl.
    destruct (Nat.eq_dec m0 m) as [->|Hne].
    + rewrite upd_same. cbn [wl rc]. rewrite Hw in Hl. destruct Hl as (HW & HR & _).
      pose proof (hget_lt_none _ _ Ef) as Hn. cntnorm.
      unfold pW, pR, holdsW, holdsR in *. cbn [th hget] in *. rewrite Nat.eqb_refl. rewrite Hn in *.
      repeat split; try lia; try discriminate.
    + rewrite upd_other by exact Hne. cntnorm.
      rewrite (pW_other m m0 MR h k (Acq m MR :: k)) by exact Hne.
      rewrite (pR_other m m0 MR h k (Acq m MR :: k)) by exact Hne. exact Hl.
  - (* RelW *)
    destruct (hget h m) as [md'|] eqn:Eg; [|discriminate].
    destruct md'; cbn in Es; inversion Es; subst h1.
    split; [apply Forall_mid; repeat split; auto|].
    intro m0. specialize (Hl m0). unfold linv in *. cbn [lk ts]. rewrite E in Hl.
    destruct (Nat.eq_dec m0 m) as [->|Hne].
    + rewrite upd_same. cbn [wl rc]. destruct Hl as (HW & HR & Hex).
      pose proof (hget_hdel_same h m Hsx) as Hn. cntnorm.
      unfold pW, pR, holdsW, holdsR in *. cbn [th] in *. rewrite Hn. rewrite Eg in *.
      destruct (wl (lk c m)); [|lia]. specialize (Hex eq_refl).
      repeat split; try lia; try discriminate.
    + rewrite upd_other by exact Hne. cntnorm.
      rewrite (pW_del_other m m0 h k (Rel m MW :: k)) by exact Hne.
      rewrite (pR_del_other m m0 h k (Rel m MW :: k)) by exact Hne. exact Hl.
  - (* RelR *)
    destruct (hget h m) as [md'|] eqn:Eg; [|discriminate].
    destruct md'; cbn in Es; inversion Es; subst h1.
    split; [apply Forall_mid; repeat split; auto|].
    intro m0. specialize (Hl m0). unfold linv in *. cbn [lk ts]. rewrite E in Hl.
    destruct (Nat.eq_dec m0 m) as [->|Hne].
    + rewrite upd_same. cbn [wl rc]. destruct Hl as (HW & HR & Hex).
      pose proof (hget_hdel_same h m Hsx) as Hn. cntnorm.
      unfold pW, pR, holdsW, holdsR in *. cbn [th] in *. rewrite Hn. rewrite Eg in *.
      repeat split; try lia. intro Hw. specialize (Hex Hw). lia.
    + rewrite upd_other by exact Hne. cntnorm.
      rewrite (pW_del_other m m0 h k (Rel m MR :: k)) by exact Hne.
      rewrite (pR_del_other m m0 h k (Rel m MR :: k)) by exact Hne. exact Hl.
  - (* Rd *)
    destruct (_ || _); inversion Es; subst h1.
    split; [apply Forall_mid; repeat split; auto|].
    intro m0. specialize (Hl m0). unfold linv in *. cbn [lk ts]. rewrite E in Hl. cntnorm. exact Hl.
  - (* Wr *)
    destruct (_ && _); inversion Es; subst h1.
    split; [apply Forall_mid; repeat split; auto|].
    intro m0. specialize (Hl m0). unfold linv in *. cbn [lk ts]. rewrite E in Hl. cntnorm. exact Hl.
  - (* Blk *)
    destruct (_ || _); inversion Es; subst h1.
    split; [apply Forall_mid; repeat split; auto|].
    intro m0. specialize (Hl m0). unfold linv in *. cbn [lk ts]. rewrite E in Hl. cntnorm. exact Hl.
  - (* Spawn *)
    destruct (is_nil (fst (entry b))) eqn:En; inversion Es; subst h1.
    apply is_nil_eq in En. destruct (entry_ok b cd Hex) as [Ho Hso]. rewrite En in Ho.
    split.
    + apply Forall_mid. repeat split; auto. apply Forall_app. split; auto.
      constructor; [|constructor]. split; cbn; auto.
    + intro m0. specialize (Hl m0). unfold linv in *. cbn [lk ts]. rewrite E in Hl. cntnorm.
      rewrite pW_nil, pR_nil. cbn in *.
      replace (cnt (pW m0) r + 0) with (cnt (pW m0) r) by lia.
      replace (cnt (pR m0) r + 0) with (cnt (pR m0) r) by lia. exact Hl.
  - (* Handoff *)
    destruct (held_eqb (fst (entry b)) h) eqn:En; inversion Es; subst h1.
    apply held_eqb_eq in En. destruct (entry_ok b cd Hex) as [Ho Hso]. rewrite En in Ho, Hso.
    split.
    + apply Forall_mid. repeat split; auto. apply Forall_app. split; auto.
      constructor; [|constructor]. split; cbn; auto.
    + intro m0. specialize (Hl m0). unfold linv in *. cbn [lk ts]. rewrite E in Hl. cntnorm.
      unfold pW, pR in *. cbn [th] in *. change (holdsW [] m0) with false. change (holdsR [] m0) with false.
      destruct Hl as (HW & HR & Hex'). repeat split; try lia. exact Hex'.
Qed.

Lemma steps_inv c c' : Inv c -> steps c c' -> Inv c'.
Proof.
  intros Hi Hs. induction Hs as [|a b i x c0 Hab IH Hbc]; [assumption|].
  eapply step_inv; [apply IH; assumption | exact Hbc].
Qed.

Lemma init_inv progs : Forall (fun p => ok [] p = true) progs -> Inv (init progs).
Proof.
  intro Hp. split.
  - unfold init. cbn. apply Forall_forall. intros t Ht. apply in_map_iff in Ht as (p & <- & Hin).
    rewrite Forall_forall in Hp. split; cbn; auto.
  - intro m. unfold linv, init. cbn [lk ts wl rc].
    assert (forall q : thread -> bool, (forall p, q {| th := []; code := p |} = false) ->
            cnt q (map (fun p => {| th := []; code := p |}) progs) = 0) as Hc.
    { intros q Hq. clear Hp. induction progs as [|p ps IH]; [reflexivity|].
      cbn [map]. rewrite cnt_cons, Hq, IH. reflexivity. }
    rewrite (Hc (pW m)) by (intro; reflexivity). rewrite (Hc (pR m)) by (intro; reflexivity).
    repeat split; auto.
Qed.

(* ---- mutual exclusion of lock holders -------------------------------------------------- *)
Lemma excl c l t1 mid t2 r m :
  Inv c -> ts c = l ++ t1 :: mid ++ t2 :: r ->
  (holdsW (th t1) m = true /\ holdsAny (th t2) m = true) \/
  (holdsAny (th t1) m = true /\ holdsW (th t2) m = true) -> False.
Proof.
  intros [_ Hl] E H. specialize (Hl m). unfold linv in Hl. rewrite E in Hl. cntnorm.
  destruct Hl as (HW & HR & Hex). unfold pW, pR, holdsW, holdsR, holdsAny in *.
  destruct (hget (th t1) m) as [[|]|], (hget (th t2) m) as [[|]|];
    destruct H as [[A B]|[A B]]; try discriminate;
    destruct (wl (lk c m)); try lia; specialize (Hex eq_refl); lia.
Qed.

Lemma tinv_at c t : Inv c -> In t (ts c) -> tinv t.
Proof. intros [H _] Hin. rewrite Forall_forall in H. auto. Qed.

(* what the discipline gives at the moment of an access *)
Lemma write_holds t f : tinv t -> accesses t f true ->
  exempt f = false /\ holdsW (th t) (guard f) = true.
Proof.
  intros [Ho _]. unfold accesses. destruct (code t) as [|[m md|m md|g|g|i|i|s] k]; try tauto.
  - intros [_ H]; discriminate.
  - intros <-. rewrite ok_cons in Ho. cbn in Ho.
    destruct (exempt g); cbn in *; [discriminate|]. destruct (holdsW (th t) (guard g)); [auto|discriminate].
Qed.

Lemma access_holds t f w : tinv t -> accesses t f w ->
  exempt f = true \/ holdsAny (th t) (guard f) = true.
Proof.
  intros [Ho _]. unfold accesses. destruct (code t) as [|[m md|m md|g|g|i|i|s] k]; try tauto.
  - intros [<- _]. rewrite ok_cons in Ho. cbn in Ho.
    destruct (exempt g); [auto|]. cbn in Ho. destruct (holdsAny (th t) (guard g)); [auto|discriminate].
  - intros <-. rewrite ok_cons in Ho. cbn in Ho.
    destruct (exempt g); cbn in *; [discriminate|]. right.
    unfold holdsW, holdsAny in *. destruct (hget (th t) (guard g)) as [[|]|]; auto; discriminate.
Qed.

Theorem inv_no_race c : Inv c -> ~ race c.
Proof.
  intros Hi (l & m & r & t1 & t2 & f & w & E & Hacc).
  assert (In t1 (ts c)) as I1 by (rewrite E; apply in_or_app; right; left; reflexivity).
  assert (In t2 (ts c)) as I2
    by (rewrite E; apply in_or_app; right; right; apply in_or_app; right; left; reflexivity).
  pose proof (tinv_at _ _ Hi I1) as T1. pose proof (tinv_at _ _ Hi I2) as T2.
  apply (excl c l t1 m t2 r (guard f) Hi E).
  destruct Hacc as [[A B]|[A B]].
  - destruct (write_holds _ _ T1 A) as [Hx HW]. destruct (access_holds _ _ _ T2 B) as [Hy|Hy]; [congruence|].
    left; auto.
  - destruct (write_holds _ _ T2 B) as [Hx HW]. destruct (access_holds _ _ _ T1 A) as [Hy|Hy]; [congruence|].
    right; auto.
Qed.

(* section isolation: while a thread holds mutex m exclusively no other thread is at an access
   of a field guarded by m; while it holds m shared nobody is at a write of such a field *)
Theorem inv_isolation c l t1 mid t2 r f w :
  Inv c -> ts c = l ++ t1 :: mid ++ t2 :: r -> exempt f = false ->
  (holdsW (th t1) (guard f) = true -> ~ accesses t2 f w) /\
  (holdsW (th t2) (guard f) = true -> ~ accesses t1 f w) /\
  (holdsAny (th t1) (guard f) = true -> ~ accesses t2 f true) /\
  (holdsAny (th t2) (guard f) = true -> ~ accesses t1 f true).
Proof.
  intros Hi E Hx.
  assert (In t1 (ts c)) as I1 by (rewrite E; apply in_or_app; right; left; reflexivity).
  assert (In t2 (ts c)) as I2
    by (rewrite E; apply in_or_app; right; right; apply in_or_app; right; left; reflexivity).
  pose proof (tinv_at _ _ Hi I1) as T1. pose proof (tinv_at _ _ Hi I2) as T2.
  repeat split; intros H A.
  - destruct (access_holds _ _ _ T2 A) as [Hy|Hy]; [congruence|].
    apply (excl c l t1 mid t2 r (guard f) Hi E). left; auto.
  - destruct (access_holds _ _ _ T1 A) as [Hy|Hy]; [congruence|].
    apply (excl c l t1 mid t2 r (guard f) Hi E). right; auto.
  - destruct (write_holds _ _ T2 A) as [_ Hy].
    apply (excl c l t1 mid t2 r (guard f) Hi E). right; auto.
  - destruct (write_holds _ _ T1 A) as [_ Hy].
    apply (excl c l t1 mid t2 r (guard f) Hi E). left; auto.
Qed.

Theorem inv_no_bad_unlock c : Inv c -> ~ bad_unlock c.
Proof.
  intros Hi (t & m & md & k & Hin & Hc & Hb). destruct (tinv_at _ _ Hi Hin) as [Ho _].
  rewrite Hc, ok_cons in Ho. cbn in Ho. destruct (hget (th t) m) as [md'|]; [|discriminate].
  destruct (mode_eqb md md') eqn:Em; [|discriminate]. apply mode_eqb_eq in Em. congruence.
Qed.

(* every thread that holds a lock still has code to run (it will release it) *)
Lemma inv_holder_unfinished c t : Inv c -> In t (ts c) -> code t = [] -> th t = [].
Proof. intros Hi Hin Hc. destruct (tinv_at _ _ Hi Hin) as [Ho _]. rewrite Hc in Ho. apply ok_nil in Ho. exact Ho. Qed.

End Env.

(* ---- packaged statements ---------------------------------------------------------------- *)
Theorem discipline_race_free guard exempt listed tbl progs c :
  tbl_ok guard exempt listed tbl = true ->
  Forall (fun p => ok guard exempt listed tbl [] p = true) progs ->
  steps tbl (init progs) c ->
  ~ race c /\ ~ bad_unlock c.
Proof.
  intros Ht Hp Hs.
  assert (Inv guard exempt listed tbl c) as Hi by (eapply steps_inv; eauto using init_inv).
  split; [eapply inv_no_race | eapply inv_no_bad_unlock]; eauto.
Qed.
