(* C09: CUMULATIVE allocation, alloc <= a * |input| + b for ALL inputs, for the parsers beyond the sequential
   readers and the index (proofs/TotalAlloc.v, TotalIndex.v): NewReader + Inspect (unconditionally), the
   read-only open path (under the executable guard "no visited section is shorter than its CID" -- without it
   the bound is false, C09_resume_cumulative_allocation_refuted / ro_open_cumulative_refuted), NewReader and
   the CARv2 header. *)
From GoCar Require Import Bytes Varint Cid Header Frame V2Header Scan Index Store Alloc RunTotal.
From GoCar Require Inspect ReadOnly.
From GoCarProofs Require Import BytesFacts VarintFacts Termination TotalAlloc TotalIndex TotalMain TotalOverlap TotalRO.

(* a CID that parses leaves exactly the bytes behind it *)
Lemma cfr_rest_len s n c p rest : cid_from_reader s = CfrOk n c p rest -> blen rest + n = blen s.
Proof.
  unfold cid_from_reader. intros H.
  destruct (read_uv s) as [vers r1 n1| | | |] eqn:E1; try discriminate.
  apply read_uv_consumes in E1.
  destruct (vers =? 18).
  { destruct (blen r1 <? 33) eqn:E33; [discriminate|].
    destruct (take 34 s) as [|b0 [|b1 t]]; try discriminate.
    destruct (b2n b1 =? 32); [|discriminate]. inversion H; subst. rewrite blen_drop. lia. }
  destruct (negb (vers =? 1)); [discriminate|].
  destruct (read_uv r1) as [codec r2 n2| | | |] eqn:E2; try discriminate. apply read_uv_consumes in E2.
  destruct (read_uv r2) as [code r3 n3| | | |] eqn:E3; try discriminate. apply read_uv_consumes in E3.
  destruct (read_uv r3) as [mhl r4 n4| | | |] eqn:E4; try discriminate. apply read_uv_consumes in E4.
  destruct (max_digest_alloc <? mhl); [discriminate|].
  destruct (blen r4 <? mhl) eqn:E5; [discriminate|]. inversion H; subst. rewrite blen_drop. lia.
Qed.

(* ---- Inspect: every digest buffer is backed by bytes of the section it belongs to ------------------------ *)
Section Insp.
  Variable hok : bytes -> bytes -> option bool.
  Variable hdrdec : bytes -> option (list bytes * N).

  Lemma insp_loop_allocs_sum v o : forall fuel s,
    sumN (insp_loop_allocs hok fuel v o s) <= blen s + max_digest_alloc.
  Proof.
    induction fuel as [|f IH]; intros s; cbn [insp_loop_allocs sumN]; [lia|].
    destruct (read_uv s) as [l rest n| | | |] eqn:E; cbn [sumN]; try lia.
    apply read_uv_consumes in E.
    destruct ((l =? 0) && o_zeof o); [cbn [sumN]; lia|]. destruct (o_maxs o <? l); [cbn [sumN]; lia|].
    rewrite sumN_app.
    destruct (cid_from_reader rest) as [cn c p after| |] eqn:Ec;
      try (pose proof (cfr_allocs_sum rest); cbn [sumN]; lia).
    destruct (cfr_allocs_ok_n _ _ _ _ _ Ec) as (Ha & Hn). apply cfr_rest_len in Ec.
    destruct (l <? cn) eqn:El; [cbn [sumN]; lia|]. cbv zeta.
    assert (Hnext : sumN (insp_loop_allocs hok f v o (drop (l - cn) after)) <= blen after + max_digest_alloc).
    { specialize (IH (drop (l - cn) after)). rewrite blen_drop in IH. lia. }
    destruct v.
    - destruct (blen after <? l - cn); [cbn [sumN]; lia|].
      destruct (verify hok c p _); [lia|cbn [sumN]; lia].
    - lia.
  Qed.

  (* NewReader + Inspect, both modes, ANY file: at most the file size plus two header limits plus one digest *)
  Theorem inspect_allocs_sum o file v :
    sumN (inspect_allocs hok hdrdec o file v) <= blen file + 2 * o_maxh o + max_digest_alloc.
  Proof.
    unfold inspect_allocs. cbv zeta. rewrite sumN_app.
    pose proof (ld_read_allocs_sum false (o_maxh o) file) as H1.
    destruct (Inspect.new_reader hdrdec o file) as [rd|]; [|cbn [sumN]; lia].
    rewrite sumN_app.
    set (dr := Inspect.data_window rd file).
    assert (Hdr : blen dr <= blen file).
    { subst dr. unfold Inspect.data_window. destruct (Inspect.r_version rd =? 2); [rewrite blen_take, blen_drop|]; lia. }
    pose proof (ld_read_allocs_sum false (o_maxh o) dr) as H2.
    destruct (read_header hdrdec (o_maxh o) dr) as [[[[roots hv] rest] used]|] eqn:E; [|cbn [sumN]; lia].
    destruct (read_header_ld_read hdrdec _ _ _ _ _ _ E) as (hb & Hb). apply ld_read_consumes in Hb.
    destruct ((Inspect.r_version rd =? 2) && negb (hv =? 1)); [cbn [sumN]; lia|].
    pose proof (insp_loop_allocs_sum v o (S (length rest)) rest). lia.
  Qed.
End Insp.

(* ---- the read-only open path ------------------------------------------------------------------------------ *)
Section RO.
  Variable hdrdec : bytes -> option (list bytes * N).

  Lemma li_scan_allocs_sum_guarded o base src doff dsize : forall fuel pos,
    li_sections_ok fuel o base src doff dsize pos = true ->
    sumN (li_scan_allocs fuel o base src doff dsize pos) <= (blen src - pos) + max_digest_alloc.
  Proof.
    induction fuel as [|f IH]; intros pos G; cbn [li_scan_allocs li_sections_ok sumN] in *; [lia|].
    destruct (read_uv (drop pos src)) as [len r1 n1| | | |] eqn:E; cbn [sumN]; try lia.
    apply read_uv_consumes in E. rewrite blen_drop in E.
    destruct (len =? 0); [cbn [sumN]; lia|]. rewrite sumN_app.
    destruct (cid_from_reader r1) as [n c p rest| |] eqn:Ec;
      try (pose proof (cfr_allocs_sum r1); cbn [sumN]; lia).
    destruct (cfr_allocs_ok_n _ _ _ _ _ Ec) as (Ha & Hn).
    destruct (len <? n) eqn:El; [discriminate|]. cbv zeta in *.
    destruct (_ && (ReadOnly.q_maxcid o <? n)); [cbn [sumN]; lia|].
    destruct (two63 <=? _); [cbn [sumN]; lia|]. destruct (negb (dsize =? 0) && _); [cbn [sumN]; lia|].
    specialize (IH _ G). lia.
  Qed.

  Lemma load_records_allocs_sum_guarded o base src : load_records_ok hdrdec o base src = true ->
    sumN (load_records_allocs hdrdec o base src) <= blen src + 2 * ReadOnly.q_maxh o + max_digest_alloc.
  Proof.
    unfold load_records_ok, load_records_allocs. intros G. rewrite sumN_app.
    pose proof (ld_read_allocs_sum false (ReadOnly.q_maxh o) src) as H1.
    destruct (read_header hdrdec (ReadOnly.q_maxh o) src) as [[[[roots ver] rest] used]|]; [|cbn [sumN]; lia].
    destruct (ver =? 1).
    { pose proof (li_scan_allocs_sum_guarded o base src 0 0 _ _ G). lia. }
    destruct (ver =? 2); [|cbn [sumN]; lia].
    destruct (read_v2hdr rest) as [[h r2]|]; [|cbn [sumN]; lia].
    destruct (two63 <=? _); [cbn [sumN]; lia|]. rewrite sumN_app.
    pose proof (ld_read_allocs_sum false (ReadOnly.q_maxh o) (drop (h_doff h) src)) as H2.
    destruct (read_header hdrdec (ReadOnly.q_maxh o) (drop (h_doff h) src)) as [[[[roots1 v1] rest1] used1]|]; [|cbn [sumN]; lia].
    destruct (negb (v1 =? 1)); [cbn [sumN]; lia|].
    pose proof (li_scan_allocs_sum_guarded o base src _ _ _ _ G). lia.
  Qed.

  (* NewReadOnly(backing, nil): version probe, NewReader, then the embedded index (no guard needed: the bucket
     reader is linear on every input) or the generated one (guard) *)
  Theorem ro_open_allocs_sum_guarded o file : ro_open_ok hdrdec o file = true ->
    sumN (ro_open_allocs hdrdec o file) <= 4 * blen file + 4 * ReadOnly.q_maxh o + max_digest_alloc + idx_chunk.
  Proof.
    unfold ro_open_ok, ro_open_allocs. intros G. rewrite sumN_app.
    pose proof (ld_read_allocs_sum false (ReadOnly.q_maxh o) file) as H1.
    destruct (read_header hdrdec (ReadOnly.q_maxh o) file) as [[[[roots ver] rest] used]|]; [|cbn [sumN]; lia].
    destruct (ver =? 1).
    { unfold gen_allocs_ro. destruct (idx_new _); [|cbn [sumN]; lia].
      pose proof (load_records_allocs_sum_guarded o 0 file G). lia. }
    destruct (ver =? 2); [|cbn [sumN]; lia]. rewrite sumN_app.
    destruct (ReadOnly.new_reader hdrdec (ReadOnly.q_maxh o) file) as [r|] eqn:En; [|cbn [sumN]; lia].
    pose proof (new_reader_file hdrdec _ _ _ En) as Hf.
    unfold embedded_or_allocs. unfold ReadOnly.index_window in *.
    destruct ((ReadOnly.rd_ver r =? 1) || negb (has_index (ReadOnly.rd_hdr r))).
    - unfold gen_allocs_ro. destruct (idx_new _); [|cbn [sumN]; lia].
      pose proof (load_records_allocs_sum_guarded o _ _ G) as H2.
      assert (blen (ReadOnly.data_window r) <= blen file).
      { unfold ReadOnly.data_window. rewrite Hf. destruct (ReadOnly.rd_ver r =? 2); [rewrite blen_take, blen_drop|]; lia. }
      lia.
    - pose proof (idx_allocs_sum (drop (h_ioff (ReadOnly.rd_hdr r)) (ReadOnly.rd_file r))) as H2.
      rewrite blen_drop in H2. assert (blen (ReadOnly.rd_file r) = blen file) by (rewrite Hf; reflexivity). lia.
  Qed.

  (* without the guard the bound fails for the open path exactly as for Resume: the same 758-byte file *)
  Definition overlap_qopts : ReadOnly.qopts := ReadOnly.mkq false false true 33554432 8388608 2048 1025.
End RO.
Lemma ro_open_cumulative_refuted :
  ro_open_ok dec_header_canon overlap_qopts overlap_file = false /\
  16 * blen overlap_file < sumN (ro_open_allocs dec_header_canon overlap_qopts overlap_file) /\
  (exists s, ReadOnly.ro_open dec_header_canon overlap_qopts overlap_file None = Ok s).
Proof. vm_compute. repeat split; try reflexivity. eexists. reflexivity. Qed.

(* ---- NewReader, the CARv2 header ---------------------------------------------------------------------------- *)
(* ReadVersion's header buffer is the only input-sized request of NewReader; Header.ReadFrom requests none *)
Lemma version_allocs_sum maxh s : sumN (ld_read_allocs false maxh s) <= maxh.
Proof. apply ld_read_allocs_sum. Qed.
