(* C09 for the read-only stores (theories/ReadOnly.v: NewReadOnly, OpenReadable, Get, AllKeysChan) and the
   position-tracking BlockReader (theories/BlockReaderPos.v: Next / SkipNext strings). *)
From GoCar Require Import Bytes Varint Cid Header Frame V2Header Scan Index Store Alloc RunTotal.
From GoCar Require ReadOnly BlockReaderPos.
From GoCarProofs Require Import BytesFacts VarintFacts Termination TotalAlloc TotalIndex TotalMain.

(* ---- index generation inside the stores ------------------------------------------------------------------ *)
Section RO.
  Variable hdrdec : bytes -> option (list bytes * N).

  Lemma li_scan_no_fuel o base src doff dsize : forall fuel pos acc,
    (1 <= fuel)%nat -> (length src + 1 <= fuel + N.to_nat pos)%nat ->
    ReadOnly.li_scan fuel o base src doff dsize pos acc <> Err EFuel.
  Proof.
    induction fuel as [|f IH]; intros pos acc H1 Hf; [lia|]. cbn [ReadOnly.li_scan].
    destruct (read_uv (drop pos src)) as [len r1 n1| | | |] eqn:E; try discriminate.
    apply read_uv_consumes in E. rewrite blen_drop in E.
    destruct (len =? 0) eqn:El; [destruct (ReadOnly.q_zeof o); discriminate|].
    destruct (cid_from_reader r1) as [n c p rest| |]; try discriminate. cbv zeta.
    destruct (_ && (ReadOnly.q_maxcid o <? n)); [discriminate|].
    destruct (two63 <=? _); [discriminate|]. destruct (negb (dsize =? 0) && _); [discriminate|].
    unfold blen in E. apply IH; lia.
  Qed.
  Lemma li_scan_not_panic o base src doff dsize : forall fuel pos acc e,
    ReadOnly.li_scan fuel o base src doff dsize pos acc = Err e -> e <> EPanic.
  Proof.
    induction fuel as [|f IH]; intros pos acc e H; cbn [ReadOnly.li_scan] in H; [inversion H; discriminate|].
    destruct (read_uv (drop pos src)) as [len r1 n1| | | |]; try (inversion H; discriminate).
    destruct (len =? 0); [destruct (ReadOnly.q_zeof o); inversion H; discriminate|].
    destruct (cid_from_reader r1) as [n c p rest| |]; try (inversion H; discriminate). cbv zeta in H.
    destruct (_ && (ReadOnly.q_maxcid o <? n)); [inversion H; discriminate|].
    destruct (two63 <=? _); [inversion H; discriminate|]. destruct (negb (dsize =? 0) && _); [discriminate|].
    eapply IH; eassumption.
  Qed.

  Lemma load_records_err_total o base src e : ReadOnly.load_records hdrdec o base src = Err e -> err_total e.
  Proof.
    unfold ReadOnly.load_records. intros H.
    destruct (read_header hdrdec (ReadOnly.q_maxh o) src) as [[[[roots ver] rest] used]|e'] eqn:E.
    2:{ apply read_header_err_total in E. destruct E as (Ea & Eb). inversion H; subst.
        unfold ReadOnly.wrap_hdr_err. destruct e'; split; try discriminate; congruence. }
    destruct (ver =? 1).
    { split; [intros ->; revert H; apply li_scan_no_fuel; lia|eapply li_scan_not_panic; eassumption]. }
    destruct (ver =? 2); [|inversion H; split; discriminate].
    destruct (read_v2hdr rest) as [[h r2]|e'] eqn:E2; [|inversion H; subst; apply (read_v2hdr_err_total _ _ E2)].
    destruct (two63 <=? _); [inversion H; split; discriminate|].
    destruct (read_header hdrdec (ReadOnly.q_maxh o) (drop (h_doff h) src)) as [[[[roots1 v1] rest1] used1]|e'] eqn:E3;
      [|inversion H; subst; apply (read_header_err_total hdrdec _ _ _ E3)].
    destruct (negb (v1 =? 1)); [inversion H; split; discriminate|].
    destruct (negb (h_dsize h =? 0) && (h_dsize h <=? used1)); [discriminate|].
    split; [intros ->; revert H; apply li_scan_no_fuel; lia|eapply li_scan_not_panic; eassumption].
  Qed.

  Lemma gen_flat_err_total o base src e : ReadOnly.gen_flat hdrdec o base src = Err e -> err_total e.
  Proof.
    unfold ReadOnly.gen_flat. destruct (idx_new (ReadOnly.q_codec o)); [|intros H; inversion H; split; discriminate].
    destruct (ReadOnly.load_records hdrdec o base src) eqn:E; [discriminate|].
    intros H; inversion H; subst. eapply load_records_err_total; eassumption.
  Qed.
  Lemma gen_ins_err_total o base src e : ReadOnly.gen_ins hdrdec o base src = Err e -> err_total e.
  Proof.
    unfold ReadOnly.gen_ins. destruct (ReadOnly.load_records hdrdec o base src) eqn:E; [discriminate|].
    intros H; inversion H; subst. eapply load_records_err_total; eassumption.
  Qed.

  Lemma ro_new_reader_err_total maxh file e : ReadOnly.new_reader hdrdec maxh file = Err e -> err_total e.
  Proof.
    unfold ReadOnly.new_reader. intros H.
    destruct (read_header hdrdec maxh file) as [[[[roots ver] rest] used]|e'] eqn:E;
      [|inversion H; subst; apply (read_header_err_total hdrdec _ _ _ E)].
    destruct (ver =? 1); [discriminate|]. destruct (ver =? 2); [|inversion H; split; discriminate].
    destruct (negb (used =? pragma_size)); [inversion H; split; discriminate|].
    destruct (read_v2hdr _) as [[h r]|e'] eqn:E2; [discriminate|].
    inversion H; subst. apply (read_v2hdr_err_total _ _ E2).
  Qed.

  Lemma embedded_or_err_total gen o r e :
    (forall o b s e, gen o b s = Err e -> err_total e) ->
    ReadOnly.embedded_or gen o r = Err e -> err_total e.
  Proof.
    intros Hg. unfold ReadOnly.embedded_or. destruct (ReadOnly.index_window r) as [iw|]; [|apply Hg].
    destruct (idx_read iw) as [[i rest]|e'] eqn:E; [discriminate|].
    intros H; inversion H; subst. eapply idx_read_err_total; eassumption.
  Qed.

  Lemma ro_open_err_total o file e : ReadOnly.ro_open hdrdec o file None = Err e -> err_total e.
  Proof.
    unfold ReadOnly.ro_open. intros H.
    destruct (read_header hdrdec (ReadOnly.q_maxh o) file) as [[[[roots ver] rest] used]|e'] eqn:E;
      [|inversion H; subst; apply (read_header_err_total hdrdec _ _ _ E)].
    destruct (ver =? 1).
    { destruct (ReadOnly.gen_flat hdrdec o 0 file) eqn:Eg; [discriminate|].
      inversion H; subst. eapply gen_flat_err_total; eassumption. }
    destruct (ver =? 2); [|inversion H; split; discriminate].
    destruct (ReadOnly.new_reader hdrdec (ReadOnly.q_maxh o) file) as [r|e'] eqn:En;
      [|inversion H; subst; eapply ro_new_reader_err_total; eassumption].
    destruct (ReadOnly.embedded_or (ReadOnly.gen_flat hdrdec) o r) eqn:Ee; [discriminate|].
    inversion H; subst. eapply embedded_or_err_total; [|eassumption]. intros; eapply gen_flat_err_total; eassumption.
  Qed.

  Lemma sto_open_err_total o file e : ReadOnly.sto_open hdrdec o file = Err e -> err_total e.
  Proof.
    unfold ReadOnly.sto_open. intros H.
    destruct (read_header hdrdec (ReadOnly.q_maxh o) file) as [[[[roots ver] rest] used]|e'] eqn:E;
      [|inversion H; subst; apply (read_header_err_total hdrdec _ _ _ E)].
    destruct (ver =? 1).
    { destruct (ReadOnly.gen_ins hdrdec o 0 file) eqn:Eg; [discriminate|].
      inversion H; subst. eapply gen_ins_err_total; eassumption. }
    destruct (ver =? 2); [|inversion H; split; discriminate].
    destruct (ReadOnly.new_reader hdrdec (ReadOnly.q_maxh o) file) as [r|e'] eqn:En;
      [|inversion H; subst; eapply ro_new_reader_err_total; eassumption].
    destruct (ReadOnly.reader_roots hdrdec (ReadOnly.q_maxh o) r) as [roots1|e'] eqn:Er.
    2:{ inversion H; subst. unfold ReadOnly.reader_roots in Er.
        destruct (read_header hdrdec (ReadOnly.q_maxh o) (ReadOnly.data_window r)) as [[[[a b] c] d]|e''] eqn:Eh; [discriminate|].
        inversion Er; subst. apply (read_header_err_total hdrdec _ _ _ Eh). }
    destruct (ReadOnly.embedded_or (ReadOnly.gen_ins hdrdec) o r) eqn:Ee; [discriminate|].
    inversion H; subst. eapply embedded_or_err_total; [|eassumption]. intros; eapply gen_ins_err_total; eassumption.
  Qed.

  (* ---- queries: FindCid walks the candidate offsets of the index, no loop to run away ---- *)
  Lemma find_cid_err_total view key kp whole zeof maxs rb : forall offs e,
    find_cid view offs key kp whole zeof maxs rb = Err e -> err_total e.
  Proof.
    induction offs as [|off more IH]; intros e H; cbn [find_cid] in H; [inversion H; split; discriminate|].
    cbv zeta in H. destruct rb.
    - destruct (read_node zeof maxs (drop off view)) as [[[[c p] d] r]|e'] eqn:E;
        [|inversion H; subst; eapply read_node_err_total; eassumption].
      destruct (key_matches whole key kp c p); [discriminate|apply IH; exact H].
    - unfold raw_uv in H. destruct (read_uv (drop off view)) as [slen r1 n1| | | |]; try (inversion H; split; discriminate).
      destruct (maxs <? slen); [inversion H; split; discriminate|].
      destruct (cid_from_reader r1) as [n c p rest| |]; try (inversion H; split; discriminate).
      destruct (key_matches whole key kp c p); [discriminate|apply IH; exact H].
  Qed.
  Lemma ro_find_err_total s key kp rb e : ReadOnly.ro_find s key kp rb = Err e -> err_total e.
  Proof.
    unfold ReadOnly.ro_find. cbv zeta.
    destruct (ReadOnly.int64_prefix (ReadOnly.ridx_getall (ReadOnly.s_idx s) kp)) as [offs bad]. intros H.
    destruct (find_cid _ _ _ _ _ _ _ _) as [[[d off] n]|e'] eqn:E.
    - destruct (n =? -1)%Z; inversion H; split; discriminate.
    - pose proof (find_cid_err_total _ _ _ _ _ _ _ _ _ E) as Ht.
      destruct e'; try (inversion H; subst; exact Ht).
      destruct bad; [destruct (ReadOnly.s_v2 s)|]; inversion H; split; discriminate.
  Qed.
  Lemma ro_get_total s key e : ReadOnly.ro_get s key = OErr e -> err_total e.
  Proof.
    unfold ReadOnly.ro_get. destruct (cid_parse key) as [kp|]; [|intros H; inversion H; split; discriminate].
    destruct (negb _ && is_identity kp); [discriminate|].
    destruct (ReadOnly.ro_find s key kp true) as [[[d off] n]|e'] eqn:E; [discriminate|].
    intros H; inversion H; subst. eapply ro_find_err_total; eassumption.
  Qed.
  Lemma sto_get_total s key e : ReadOnly.sto_get s key = OErr e -> err_total e.
  Proof.
    unfold ReadOnly.sto_get. destruct (cid_parse key) as [kp|]; [|intros H; inversion H; split; discriminate].
    destruct (negb _ && is_identity kp); [discriminate|].
    destruct (ReadOnly.ro_find s key kp false) as [[[d off] n]|e'] eqn:E.
    - destruct (n <? 0)%Z; discriminate.
    - intros H; inversion H; subst. eapply ro_find_err_total; eassumption.
  Qed.

  (* AllKeysChan: the walk ends, and never with a panic *)
  Lemma keys_scan_no_fuel s : forall fuel pos acc,
    (1 <= fuel)%nat -> (length (ReadOnly.s_view s) + 1 <= fuel + N.to_nat pos)%nat ->
    snd (ReadOnly.keys_scan fuel s pos acc) <> Some EFuel /\ snd (ReadOnly.keys_scan fuel s pos acc) <> Some EPanic.
  Proof.
    induction fuel as [|f IH]; intros pos acc H1 Hf; [lia|]. cbn [ReadOnly.keys_scan].
    destruct (read_uv (drop pos (ReadOnly.s_view s))) as [len r1 n1| | | |] eqn:E; cbn [snd]; try (split; discriminate).
    apply read_uv_consumes in E. rewrite blen_drop in E.
    destruct (len =? 0) eqn:El; [destruct (ReadOnly.q_zeof _); cbn [snd]; split; discriminate|].
    destruct (cid_from_reader r1) as [n c p rest| |]; cbn [snd]; try (split; discriminate). cbv zeta.
    destruct (two63 <=? _); [destruct (ReadOnly.s_v2 s); cbn [snd]; split; discriminate|].
    unfold blen in E. apply IH; lia.
  Qed.
  Theorem ro_keys_total s :
    match ReadOnly.ro_keys hdrdec s with
    | ReadOnly.KOpenErr e => err_total e
    | ReadOnly.KKeys _ (Some e) => err_total e
    | ReadOnly.KKeys _ None => True
    end.
  Proof.
    unfold ReadOnly.ro_keys.
    destruct (read_header hdrdec _ (ReadOnly.s_view s)) as [[[[roots ver] rest] used]|e] eqn:E.
    - cbv zeta.
      pose proof (keys_scan_no_fuel s (S (S (length (ReadOnly.s_view s))))
                    (ld_size (blen (enc_header (Some roots) ver))) [] ltac:(lia) ltac:(lia)) as (Ha & Hb).
      destruct (ReadOnly.keys_scan _ s _ []) as [ks [e|]]; cbn [snd] in *; [|exact I].
      split; congruence.
    - apply read_header_err_total in E. destruct E as (Ea & Eb). unfold ReadOnly.wrap_hdr_err.
      destruct e; split; try discriminate; congruence.
  Qed.

  (* ---- buffers ---- *)
  Definition ro_buf (o : ReadOnly.qopts) (s : bytes) (a : N) : Prop :=
    a <= ReadOnly.q_maxh o \/ a <= ReadOnly.q_maxs o \/ a <= max_digest_alloc \/ a <= idx_chunk \/ a <= 2 * blen s.

  Lemma li_scan_allocs_bound o base src doff dsize : forall fuel pos,
    Forall (fun a => a <= max_digest_alloc) (li_scan_allocs fuel o base src doff dsize pos).
  Proof.
    induction fuel as [|f IH]; intros pos; cbn [li_scan_allocs]; [constructor|].
    destruct (read_uv (drop pos src)) as [len r1 n1| | | |]; try constructor.
    destruct (len =? 0); [constructor|]. apply Forall_app. split; [apply cfr_allocs_bound|].
    destruct (cid_from_reader r1) as [n c p rest| |]; try constructor. cbv zeta.
    destruct (_ && (ReadOnly.q_maxcid o <? n)); [constructor|].
    destruct (two63 <=? _); [constructor|]. destruct (negb (dsize =? 0) && _); [constructor|apply IH].
  Qed.
  Lemma load_records_allocs_bound o base src file :
    Forall (ro_buf o file) (load_records_allocs hdrdec o base src).
  Proof.
    unfold load_records_allocs.
    assert (Hh : forall s, Forall (ro_buf o file) (ld_read_allocs false (ReadOnly.q_maxh o) s)).
    { intros s. eapply Forall_weaken; [|apply ld_read_allocs_bound]. unfold ro_buf. cbv beta. intros; lia. }
    assert (Hl : forall fuel doff dsize pos, Forall (ro_buf o file) (li_scan_allocs fuel o base src doff dsize pos)).
    { intros. eapply Forall_weaken; [|apply li_scan_allocs_bound]. unfold ro_buf. cbv beta. intros; lia. }
    apply Forall_app. split; [apply Hh|].
    destruct (read_header hdrdec (ReadOnly.q_maxh o) src) as [[[[roots ver] rest] used]|]; [|constructor].
    destruct (ver =? 1); [apply Hl|]. destruct (ver =? 2); [|constructor].
    destruct (read_v2hdr rest) as [[h r2]|]; [|constructor]. destruct (two63 <=? _); [constructor|].
    apply Forall_app. split; [apply Hh|].
    destruct (read_header hdrdec (ReadOnly.q_maxh o) (drop (h_doff h) src)) as [[[[roots1 v1] rest1] used1]|]; [|constructor].
    destruct (negb (v1 =? 1)); [constructor|apply Hl].
  Qed.
  Lemma gen_allocs_ro_bound flat o base src file : Forall (ro_buf o file) (gen_allocs_ro hdrdec flat o base src).
  Proof.
    unfold gen_allocs_ro. destruct flat; [|apply load_records_allocs_bound].
    destruct (idx_new _); [apply load_records_allocs_bound|constructor].
  Qed.
  Lemma embedded_or_allocs_bound flat o r :
    Forall (ro_buf o (ReadOnly.rd_file r)) (embedded_or_allocs hdrdec flat o r).
  Proof.
    unfold embedded_or_allocs, ReadOnly.index_window.
    destruct ((ReadOnly.rd_ver r =? 1) || negb (has_index (ReadOnly.rd_hdr r))); [apply gen_allocs_ro_bound|].
    eapply Forall_weaken; [|apply idx_allocs_bound]. unfold ro_buf. cbv beta. rewrite blen_drop. intros a [H|H]; lia.
  Qed.
  Lemma new_reader_file maxh file r : ReadOnly.new_reader hdrdec maxh file = Ok r -> ReadOnly.rd_file r = file.
  Proof.
    unfold ReadOnly.new_reader. destruct (read_header hdrdec maxh file) as [[[[roots ver] rest] used]|]; [|discriminate].
    destruct (ver =? 1); [intros H; inversion H; reflexivity|]. destruct (ver =? 2); [|discriminate].
    destruct (negb (used =? pragma_size)); [discriminate|].
    destruct (read_v2hdr _) as [[h rr]|]; [|discriminate]. intros H; inversion H; reflexivity.
  Qed.

  (* NewReadOnly: header buffers within MaxAllowedHeaderSize, digest buffers within go-cid's constant,
     buckets of an embedded index within 1 MiB or twice the file *)
  Theorem ro_open_allocs_bound o file : Forall (ro_buf o file) (ro_open_allocs hdrdec o file).
  Proof.
    unfold ro_open_allocs.
    assert (Hh : forall s, Forall (ro_buf o file) (ld_read_allocs false (ReadOnly.q_maxh o) s)).
    { intros s. eapply Forall_weaken; [|apply ld_read_allocs_bound]. unfold ro_buf. cbv beta. intros; lia. }
    apply Forall_app. split; [apply Hh|].
    destruct (read_header hdrdec (ReadOnly.q_maxh o) file) as [[[[roots ver] rest] used]|]; [|constructor].
    destruct (ver =? 1); [apply gen_allocs_ro_bound|]. destruct (ver =? 2); [|constructor].
    apply Forall_app. split; [apply Hh|].
    destruct (ReadOnly.new_reader hdrdec (ReadOnly.q_maxh o) file) as [r|] eqn:En; [|constructor].
    rewrite <- (new_reader_file _ _ _ En). apply embedded_or_allocs_bound.
  Qed.
  Theorem sto_open_allocs_bound o file : Forall (ro_buf o file) (sto_open_allocs hdrdec o file).
  Proof.
    unfold sto_open_allocs.
    assert (Hh : forall s, Forall (ro_buf o file) (ld_read_allocs false (ReadOnly.q_maxh o) s)).
    { intros s. eapply Forall_weaken; [|apply ld_read_allocs_bound]. unfold ro_buf. cbv beta. intros; lia. }
    apply Forall_app. split; [apply Hh|].
    destruct (read_header hdrdec (ReadOnly.q_maxh o) file) as [[[[roots ver] rest] used]|]; [|constructor].
    destruct (ver =? 1); [apply gen_allocs_ro_bound|]. destruct (ver =? 2); [|constructor].
    apply Forall_app. split; [apply Hh|].
    destruct (ReadOnly.new_reader hdrdec (ReadOnly.q_maxh o) file) as [r|] eqn:En; [|constructor].
    apply Forall_app. split; [apply Hh|].
    destruct (ReadOnly.reader_roots hdrdec (ReadOnly.q_maxh o) r); [|constructor].
    rewrite <- (new_reader_file _ _ _ En). apply embedded_or_allocs_bound.
  Qed.

  (* a query: every section buffer within MaxAllowedSectionSize, every digest buffer within go-cid's constant *)
  Theorem find_cid_allocs_bound view key kp whole zeof maxs rb : forall offs,
    Forall (fun a => a <= maxs \/ a <= max_digest_alloc) (find_cid_allocs view offs key kp whole zeof maxs rb).
  Proof.
    induction offs as [|off more IH]; cbn [find_cid_allocs]; [constructor|]. cbv zeta. destruct rb.
    - apply Forall_app. split.
      { eapply Forall_weaken; [|apply ld_read_allocs_bound]. cbv beta. intros; lia. }
      destruct (read_node zeof maxs (drop off view)) as [[[[c p] d] r]|]; [|constructor].
      destruct (key_matches whole key kp c p); [constructor|exact IH].
    - destruct (raw_uv (drop off view)) as [[[slen r1] n1]|]; [|constructor].
      destruct (maxs <? slen); [constructor|]. apply Forall_app. split.
      { eapply Forall_weaken; [|apply cfr_allocs_bound]. cbv beta. intros; lia. }
      destruct (cid_from_reader r1) as [n c p rest| |]; try constructor.
      destruct (key_matches whole key kp c p); [constructor|exact IH].
  Qed.

  Lemma ro_buf_no_panic o file l :
    ReadOnly.q_maxh o <= go_max_alloc -> ReadOnly.q_maxs o <= go_max_alloc -> 2 * blen file <= go_max_alloc ->
    Forall (ro_buf o file) l -> allocs_panic l = false.
  Proof.
    intros H1 H2 H3 F. apply allocs_panic_false. eapply Forall_weaken; [|exact F]. unfold ro_buf. cbv beta.
    unfold max_digest_alloc, idx_chunk, go_max_alloc in *. intros a [H|[H|[H|[H|H]]]]; lia.
  Qed.

  Theorem tot_robs_total o file key :
    ReadOnly.q_maxh o <= go_max_alloc -> ReadOnly.q_maxs o <= go_max_alloc -> 2 * blen file <= go_max_alloc ->
    tot_robs hdrdec o file key = TOk \/
    (exists e, tot_robs hdrdec o file key = TOpen e /\ err_total e) \/
    (exists e, tot_robs hdrdec o file key = TErr e /\ err_total e).
  Proof.
    intros H1 H2 H3. unfold tot_robs.
    rewrite (ro_buf_no_panic o file _ H1 H2 H3 (ro_open_allocs_bound o file)).
    destruct (ReadOnly.ro_open hdrdec o file None) as [s|e] eqn:E.
    2:{ right. left. exists e. split; [reflexivity|]. eapply ro_open_err_total; eassumption. }
    destruct key as [k|]; [|left; reflexivity].
    destruct (cid_parse k) as [kp|]; [|right; right; exists EOther; split; [reflexivity|split; discriminate]].
    rewrite allocs_panic_false.
    2:{ eapply Forall_weaken; [|apply find_cid_allocs_bound]. cbv beta.
        assert (Hq : ReadOnly.q_maxs (ReadOnly.s_opts s) <= go_max_alloc).
        { unfold ReadOnly.ro_open in E.
          destruct (read_header hdrdec _ file) as [[[[a b] c] d]|]; [|discriminate].
          destruct (b =? 1); [destruct (ReadOnly.gen_flat hdrdec o 0 file); inversion E; subst; exact H2|].
          destruct (b =? 2); [|discriminate].
          destruct (ReadOnly.new_reader hdrdec _ file) as [rr|]; [|discriminate].
          destruct (ReadOnly.embedded_or _ o rr); inversion E; subst; exact H2. }
        unfold max_digest_alloc, go_max_alloc in *. intros a [H|H]; lia. }
    destruct (ReadOnly.ro_get s k) as [| e | | | |] eqn:Eg; cbn [out_tout]; try (left; reflexivity).
    right. right. exists e. split; [reflexivity|]. eapply ro_get_total; eassumption.
  Qed.

  Theorem tot_storage_total o file key :
    ReadOnly.q_maxh o <= go_max_alloc -> ReadOnly.q_maxs o <= go_max_alloc -> 2 * blen file <= go_max_alloc ->
    tot_storage hdrdec o file key = TOk \/
    (exists e, tot_storage hdrdec o file key = TOpen e /\ err_total e) \/
    (exists e, tot_storage hdrdec o file key = TErr e /\ err_total e).
  Proof.
    intros H1 H2 H3. unfold tot_storage.
    rewrite (ro_buf_no_panic o file _ H1 H2 H3 (sto_open_allocs_bound o file)).
    destruct (ReadOnly.sto_open hdrdec o file) as [s|e] eqn:E.
    2:{ right. left. exists e. split; [reflexivity|]. eapply sto_open_err_total; eassumption. }
    destruct key as [k|]; [|left; reflexivity].
    destruct (cid_parse k) as [kp|]; [|right; right; exists EOther; split; [reflexivity|split; discriminate]].
    rewrite allocs_panic_false.
    2:{ eapply Forall_weaken; [|apply find_cid_allocs_bound]. cbv beta.
        assert (Hq : ReadOnly.q_maxs (ReadOnly.s_opts s) <= go_max_alloc).
        { unfold ReadOnly.sto_open in E.
          destruct (read_header hdrdec _ file) as [[[[a b] c] d]|]; [|discriminate].
          destruct (b =? 1); [destruct (ReadOnly.gen_ins hdrdec o 0 file); inversion E; subst; exact H2|].
          destruct (b =? 2); [|discriminate].
          destruct (ReadOnly.new_reader hdrdec _ file) as [rr|]; [|discriminate].
          destruct (ReadOnly.reader_roots hdrdec _ rr); [|discriminate].
          destruct (ReadOnly.embedded_or _ o rr); inversion E; subst; exact H2. }
        unfold max_digest_alloc, go_max_alloc in *. intros a [H|H]; lia. }
    destruct (ReadOnly.sto_get s k) as [| e | | | |] eqn:Eg; cbn [out_tout]; try (left; reflexivity).
    right. right. exists e. split; [reflexivity|]. eapply sto_get_total; eassumption.
  Qed.
End RO.
