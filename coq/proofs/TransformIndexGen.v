(* One model of LoadIndex: Transform.load_index (the copy WrapV1 uses, with the file system's seek
   limit) against IndexGen.load_index (C03's model, all source kinds) on seekable sources; and,
   through C03 / C11, what "a correct index" means for the index WrapV1 appends: reading it back
   gives the index value, and its lookups resolve exactly the sections of the payload. *)
From Coq Require Import Permutation Sorting.Sorted.
From GoCar Require Import Bytes Varint Cid Header Frame V2Header Scan Index IndexGen Transform.
From GoCarProofs Require Import BytesFacts VarintFacts CidFacts HeaderFacts ScanFacts InspectParse
  IndexKv IndexSort IndexCompact IndexSearch IndexRoundtrip IndexLoad IndexCanon IndexGenFacts IndexGenLookup
  TransformFacts TransformWrap.

(* the options IndexGen's model takes *)
Definition gopts_of (o : xopts) : gopts := mkgopts (x_zeof o) (x_maxh o) (x_storeid o) (x_maxcid o).

(* ---- the section loops ------------------------------------------------------------------------ *)
(* they agree step for step, except that the file system may refuse a seek target above its limit
   (an error of class "other") that int64 arithmetic alone would accept *)
Lemma li_loop_rel : forall fuel o all pos doff dsize acc,
  Transform.li_loop fuel o all pos doff dsize acc
  = IndexGen.li_loop fuel true SrcSeek (gopts_of o) all doff dsize (mkrs pos pos) acc
  \/ (x_maxseek o < two63 - 1 /\ Transform.li_loop fuel o all pos doff dsize acc = Err EOther).
Proof.
  induction fuel as [|f IH]; intros o all pos doff dsize acc; [left; reflexivity|].
  cbn [Transform.li_loop IndexGen.li_loop andb]. unfold payload_end, view. cbn [rs_pos rs_woff].
  destruct (negb (dsize =? 0) && (dsize <=? pos - doff)); [left; reflexivity|].
  destruct (read_uv (drop pos all)) as [slen r n| | | |]; try (left; reflexivity).
  unfold advance. cbn [rs_pos rs_woff].
  destruct (slen =? 0); [left; reflexivity|].
  destruct (cid_from_reader (drop (pos + n) all)) as [cn c p r2| |k]; try (left; reflexivity).
  unfold indexed, gopts_of at 1 2. cbn [g_store_id g_max_cid].
  destruct ((x_storeid o || negb (is_identity p)) && (x_maxcid o <? cn)); [left; reflexivity|].
  unfold seek_cur. cbn [rs_pos rs_woff].
  replace (Z.of_N (pos + n + cn) + (Z.of_N slen - Z.of_N cn))%Z with (Z.of_N (pos + n + slen)) by lia.
  replace (Z.of_N (pos + n + slen) <? 0)%Z with false by lia.
  rewrite Znat.N2Z.id. unfold seek_ok.
  destruct (pos + n + slen <? two63) eqn:E63.
  - replace (Z.of_N two63 <=? Z.of_N (pos + n + slen))%Z with false by lia.
    cbn [negb andb]. rewrite andb_true_r.
    destruct (pos + n + slen <=? x_maxseek o) eqn:Elim; cbn [negb].
    + unfold gopts_of at 1. cbn [g_store_id]. apply IH.
    + right. split; [lia|reflexivity].
  - replace (Z.of_N two63 <=? Z.of_N (pos + n + slen))%Z with true by lia.
    rewrite andb_false_r. left. reflexivity.
Qed.

Section OneModel.
  Variable hdrdec : bytes -> option (list bytes * N).

  (* ReadHeader consumes exactly the framed header: the position f.Seek(0, SeekCurrent) reports
     ([consumed]) is the framed length read_header returns (go-varint accepts minimal encodings only) *)
  Lemma read_header_used maxh s rs v rest used :
    read_header hdrdec maxh s = Ok (rs, v, rest, used) ->
    consumed s rest = used /\ rest = drop used s.
  Proof.
    unfold read_header, ld_read, ld_read_size.
    destruct (read_uv s) as [l r n| | | |] eqn:Eu; try discriminate.
    destruct ((l =? 0) && false); [discriminate|].
    destruct (maxh <? l); [discriminate|].
    destruct (blen r <? l) eqn:El; [discriminate|].
    destruct (hdrdec (take l r)) as [[rs' ver]|]; [|discriminate].
    intros H. inversion H; subst. clear H.
    destruct (read_uv_inv _ _ _ _ Eu) as (Hs & Hn & _). subst s.
    assert (Hb : blen (take l r) = l) by (rewrite blen_take; lia).
    rewrite Hb. unfold consumed, ld_size. rewrite blen_app, blen_put_uv, blen_drop.
    split; [lia|].
    replace (l + uv_size l) with (blen (put_uv l) + l) by (rewrite blen_put_uv; lia).
    rewrite <- drop_drop, drop_app. reflexivity.
  Qed.

  Theorem load_index_rel o all :
    Transform.load_index hdrdec o all = IndexGen.load_index hdrdec SrcSeek (gopts_of o) all
    \/ (x_maxseek o < two63 - 1 /\ Transform.load_index hdrdec o all = Err EOther).
  Proof.
    unfold Transform.load_index, IndexGen.load_index, load_index_gen, repaired.
    cbn [fx_counted fx_topcheck g_maxh gopts_of].
    destruct (read_header hdrdec (x_maxh o) all) as [[[[rs v] rest] used]|e] eqn:Erh; [|left; reflexivity].
    destruct (read_header_used _ _ _ _ _ _ Erh) as (Hc & Hrest). rewrite Hc.
    unfold advance_raw, advance, view. cbn [rs_pos rs_woff N.add].
    destruct (v =? 1); [apply li_loop_rel|].
    destruct (v =? 2); [|left; reflexivity].
    rewrite <- Hrest.
    destruct (read_v2hdr rest) as [[h rest2]|e] eqn:Ev2; [|left; reflexivity].
    destruct (read_v2hdr_ok _ _ _ Ev2) as ((_ & Hd63) & _).
    unfold seek_start, seek_ok. cbn [rs_pos].
    replace (h_doff h <? two63) with true by lia. rewrite andb_true_r.
    destruct (h_doff h <=? x_maxseek o) eqn:Elim; cbn [negb]; [|right; split; [lia|reflexivity]].
    destruct (read_header hdrdec (x_maxh o) (drop (h_doff h) all)) as [[[[rs1 v1] rest1] used1]|e] eqn:Erh1;
      [|left; reflexivity].
    destruct (read_header_used _ _ _ _ _ _ Erh1) as (Hc1 & _). rewrite Hc1.
    destruct (negb (v1 =? 1)); [left; reflexivity|].
    cbn [rs_pos rs_woff]. apply li_loop_rel.
  Qed.

  (* sources whose Seek has no limit below int64 (bytes.Reader, files on tmpfs): one model *)
  Corollary load_index_is_indexgen o all : two63 - 1 <= x_maxseek o ->
    Transform.load_index hdrdec o all = IndexGen.load_index hdrdec SrcSeek (gopts_of o) all.
  Proof. intros H. destruct (load_index_rel o all) as [E|[Hl _]]; [exact E|lia]. Qed.

  (* any limit: whatever the limited run returns other than the refused seek is C03's answer *)
  Corollary load_index_sound_indexgen o all recs :
    Transform.load_index hdrdec o all = Ok recs ->
    IndexGen.load_index hdrdec SrcSeek (gopts_of o) all = Ok recs.
  Proof. intros H. destruct (load_index_rel o all) as [E|[_ E]]; [rewrite <- E; exact H|congruence]. Qed.
End OneModel.

(* ---- the records in C03's vocabulary ----------------------------------------------------------- *)
Lemma spec_records_section_recs o bs : forall off,
  spec_records (x_storeid o) off bs = section_recs (gopts_of o) off bs.
Proof.
  unfold section_recs. induction bs as [|[c d] t IH]; intros off; [reflexivity|].
  cbn [spec_records sections_at flat_map fst snd]. rewrite IH. f_equal.
  unfold keep_cid, rec_of_cid, rec_of_section, indexed, gopts_of. cbn [fst snd g_store_id].
  destruct (cid_parse c) as [p|]; [|reflexivity].
  destruct (x_storeid o || negb (is_identity p)); reflexivity.
Qed.

Lemma lblock_gblock o b : lblock_ok o b -> gblock_ok b.
Proof. intros (p & Hp & Hc & Hd & Hl & _). exists p. auto. Qed.

(* ---- WrapV1 appends a correct index -------------------------------------------------------------- *)
Section IndexCorrect.
  Variable hdrdec : bytes -> option (list bytes * N).
  Variable srt : list irec -> list irec.
  Hypothesis srt_ok : sort_contract srt.

  Theorem wrap_index_correct o roots bs i0 :
    wrap_ok hdrdec o roots bs -> idx_new (x_codec o) = Some i0 ->
    let g := gopts_of o in
    let hl := ld_size (blen (enc_header (Some roots) 1)) in
    let x := enc_payload roots bs in
    fits (x_codec o) (section_recs g hl bs) ->
    exists i w,
      wrap_bytes_with hdrdec srt o x = Ok w /\
      w = pragma ++ enc_v2hdr (new_header (blen x)) ++ x ++ idx_write i /\
      (* the header's IndexOffset points at bytes that index.ReadFrom turns back into i, entirely *)
      idx_read (drop (h_ioff (new_header (blen x))) w) = Ok (i, []) /\
      (* GetAll: exactly the payload-relative offsets of the indexed sections carrying the key *)
      (forall code d, Permutation (idx_getall i code d)
                                  (spec_lookup g (negb (x_codec o =? codec_sorted)) code d hl bs)) /\
      (* and each of them is where that section starts in x *)
      (forall code d off, In off (idx_getall i code d) ->
         exists c dd, section_at x off = Some (c, dd) /\ section_indexed g c = true /\
                      key_match (negb (x_codec o =? codec_sorted)) code d c = true).
  Proof.
    intros Hok Hnew g hl x Hfit.
    pose proof Hok as (Hg & Hmax & Hbs & Hseek & H63).
    assert (Hgb : Forall gblock_ok bs) by (eapply Forall_impl; [|exact Hbs]; intros b; apply lblock_gblock).
    set (recs := section_recs g hl bs) in *.
    exists (idx_load_with srt recs i0).
    exists (pragma ++ enc_v2hdr (new_header (blen x)) ++ x ++ idx_write (idx_load_with srt recs i0)). split.
    { pose proof (wrap_layout_payload hdrdec srt o roots bs i0 Hok Hnew) as Hw. cbv zeta in Hw.
      unfold x. rewrite Hw. rewrite spec_records_section_recs, blen_ld. reflexivity. }
    split; [reflexivity|].
    assert (Hio : h_ioff (new_header (blen x)) = blen (pragma ++ enc_v2hdr (new_header (blen x)) ++ x)).
    { unfold new_header, wrap64. cbn [h_ioff]. rewrite !blen_app, TransformWrap.blen_enc_v2hdr.
      change (blen pragma) with 11. fold x in H63. rewrite N.mod_small by (unfold two63, two64 in *; lia). lia. }
    split.
    { rewrite Hio.
      replace (pragma ++ enc_v2hdr (new_header (blen x)) ++ x ++ idx_write (idx_load_with srt recs i0))
        with ((pragma ++ enc_v2hdr (new_header (blen x)) ++ x) ++ idx_write (idx_load_with srt recs i0))
        by (rewrite <- !app_assoc; reflexivity).
      rewrite drop_app. rewrite <- (app_nil_r (idx_write _)).
      apply (c11_roundtrip srt (x_codec o)); [exact srt_ok|exact Hnew| |exact Hfit].
      apply section_recs_ok; assumption. }
    destruct Hfit as [Hrf _].
    split.
    - intros code d. apply gen_getall_exact; assumption.
    - intros code d off Hin. eapply gen_getall_sound; eassumption.
  Qed.
End IndexCorrect.
