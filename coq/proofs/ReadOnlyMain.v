(* C07: the assembled theorems, the refutations of the unguarded statement, and examples showing
   the hypotheses are satisfiable. *)
From GoCar Require Import Bytes Varint Cid Header Frame V2Header Scan Index Store ReadOnly.
From GoCarProofs Require Import BytesFacts VarintFacts CidFacts HeaderFacts ScanFacts StoreInv
  ReadOnlyFacts ReadOnlyRefine ReadOnlyIndex ReadOnlyRoundTrip ReadOnlyOpen.

Definition no_hash : bytes -> bytes -> option bool := fun _ _ => None.
(* the reference scan: the v2 BlockReader, trusted mode (nothing on the read-only path hashes) *)
Definition scan_opts (o : qopts) : ropts := mkropts (q_zeof o) (q_maxh o) (q_maxs o) true.
Definition ct_version (ct : container) : N := match ct with CV1 => 1 | CV2 _ _ _ _ _ => 2 end.

Section Main.
  Variable hdrdec : bytes -> option (list bytes * N).

  Lemma arch_archive_ok o ro bs npad :
    arch_ok hdrdec o ro bs npad -> archive_ok_o no_hash hdrdec (scan_opts o) ro bs.
  Proof.
    intros [Hh Hm H63 Hb Hn]. repeat split; try assumption.
    - cbn [scan_opts o_maxs]. rewrite Forall_forall in *. intros b Hin. eapply rblock_block_ok. apply Hb. exact Hin.
    - cbn. discriminate.
  Qed.

  (* the front-to-back scan of the same file returns the ro and the section list *)
  Theorem scan_of_file o ct ro bs npad file :
    file_ok hdrdec o ct ro bs npad file ->
    br_read_all no_hash hdrdec (scan_opts o) file = Ok (ct_version ct, hdr_roots ro, mkscan bs EEof).
  Proof.
    intros Hfo. pose proof (arch_archive_ok o ro bs npad (fo_arch _ _ _ _ _ _ _ Hfo)) as Hao.
    pose proof (ao_npad _ _ _ _ _ (fo_arch _ _ _ _ _ _ _ Hfo)) as Hz.
    destruct ct as [|chi clo dpad ipad emb].
    - pose proof (fo_file _ _ _ _ _ _ _ Hfo) as Hf. cbn [car_file] in Hf. inversion Hf; subst file.
      apply br_read_all_v1_np; assumption.
    - destruct (car_file_v2 ro bs npad chi clo dpad ipad emb file (fo_file _ _ _ _ _ _ _ Hfo)) as (ib & Hfile & _).
      destruct (fo_v2 _ _ _ _ _ _ _ Hfo) as (Hchi & Hclo & Hmh & Hpr & _).
      pose proof (fo_len _ _ _ _ _ _ _ Hfo) as Hl. rewrite Hfile in *.
      apply br_read_all_v2; assumption.
  Qed.

  (* C07, blockstore.ReadOnly *)
  Theorem ro_refines_scan o ct ro bs npad file sup si :
    file_ok hdrdec o ct ro bs npad file -> supplied_ok hdrdec sup si ro bs npad ->
    exists s, ro_open hdrdec o file si = Ok s /\
      br_read_all no_hash hdrdec (scan_opts o) file = Ok (ct_version ct, hdr_roots ro, mkscan bs EEof) /\
      ro_keys hdrdec s = KKeys (ref_keys (q_whole o) bs) None /\
      ro_roots hdrdec s = OKeys (hdr_roots ro) /\
      forall key kp, cid_parse key = Some kp ->
        getsize_spec o key kp bs (ro_getsize s key) /\
        (id_guard o (index_wid o ct sup) kp = true ->
           ro_has s key = OBool (ref_has o key kp bs) /\ get_spec o key kp bs (ro_get s key)).
  Proof.
    intros Hfo Hsup. destruct (ro_open_ok hdrdec o ct ro bs npad file sup si Hfo Hsup) as (s & Hs & Hop).
    pose proof (fo_arch _ _ _ _ _ _ _ Hfo) as Ha.
    pose proof (file_payload_bound hdrdec o ct ro bs npad file Hfo) as H63.
    exists s. split; [exact Hs|]. split; [apply (scan_of_file o ct ro bs npad file Hfo)|].
    split; [apply (ro_keys_spec hdrdec s o (index_wid o ct sup) ro bs npad Ha Hop (file_payload_bound hdrdec o ct ro bs npad file Hfo))|].
    split; [apply (ro_roots_spec hdrdec s o (index_wid o ct sup) ro bs npad Ha Hop)|].
    intros key kp Hk. split; [apply (ro_getsize_spec hdrdec s o (index_wid o ct sup) ro bs npad key kp Ha Hop H63 Hk)|].
    intros Hg. split; [apply (ro_has_spec hdrdec s o _ ro bs npad key kp Ha Hop H63 Hk Hg)|apply (ro_get_spec hdrdec s o _ ro bs npad key kp Ha Hop H63 Hk Hg)].
  Qed.

  (* C07, storage.OpenReadable *)
  Theorem sto_refines_scan o ct ro bs npad file :
    file_ok hdrdec o ct ro bs npad file ->
    exists s, sto_open hdrdec o file = Ok s /\
      br_read_all no_hash hdrdec (scan_opts o) file = Ok (ct_version ct, hdr_roots ro, mkscan bs EEof) /\
      sto_roots s = OKeys (hdr_roots ro) /\
      forall key kp, cid_parse key = Some kp -> id_guard o (index_wid o ct None) kp = true ->
        ro_has s key = OBool (ref_has o key kp bs) /\ get_spec o key kp bs (sto_get s key).
  Proof.
    intros Hfo. destruct (sto_open_ok hdrdec o ct ro bs npad file Hfo) as (s & Hs & Hop & Hr).
    pose proof (fo_arch _ _ _ _ _ _ _ Hfo) as Ha.
    pose proof (file_payload_bound hdrdec o ct ro bs npad file Hfo) as H63.
    exists s. split; [exact Hs|]. split; [apply (scan_of_file o ct ro bs npad file Hfo)|].
    split; [unfold sto_roots; rewrite Hr; reflexivity|].
    intros key kp Hk Hg. split; [apply (ro_has_spec hdrdec s o _ ro bs npad key kp Ha Hop H63 Hk Hg)|apply (sto_get_spec hdrdec s o _ ro bs npad key kp Ha Hop H63 Hk Hg)].
  Qed.

  (* the two front-ends agree on every query (Get: on hash-consistent sections) *)
  Theorem frontends_agree o ct ro bs npad file sup si s1 s2 :
    file_ok hdrdec o ct ro bs npad file -> supplied_ok hdrdec sup si ro bs npad ->
    ro_open hdrdec o file si = Ok s1 -> sto_open hdrdec o file = Ok s2 ->
    ro_roots hdrdec s1 = sto_roots s2 /\
    forall key kp, cid_parse key = Some kp ->
      id_guard o (index_wid o ct sup) kp = true -> id_guard o (index_wid o ct None) kp = true ->
      ro_has s1 key = ro_has s2 key /\ (consistent bs -> ro_get s1 key = sto_get s2 key).
  Proof.
    intros Hfo Hsup H1 H2.
    destruct (ro_refines_scan o ct ro bs npad file sup si Hfo Hsup) as (s1' & E1 & _ & _ & Hr1 & Hq1).
    destruct (sto_refines_scan o ct ro bs npad file Hfo) as (s2' & E2 & _ & Hr2 & Hq2).
    rewrite H1 in E1. inversion E1; subst s1'. rewrite H2 in E2. inversion E2; subst s2'.
    split; [rewrite Hr1, Hr2; reflexivity|].
    intros key kp Hk G1 G2. destruct (Hq1 key kp Hk) as [_ Hb]. destruct (Hb G1) as [Hh1 Hg1].
    destruct (Hq2 key kp Hk G2) as [Hh2 Hg2]. split; [rewrite Hh1, Hh2; reflexivity|].
    intros Hc. eapply get_specs_agree; eassumption.
  Qed.
End Main.

(* ---- instantiation with the model's own header decoder ------------------------------------------- *)
Lemma canon_pragma : dec_header_canon pragma_body = Some ([], 2).
Proof. reflexivity. Qed.

(* ---- concrete instances -------------------------------------------------------------------------- *)
Ltac numgoal := vm_compute; first [reflexivity | discriminate | (intro; discriminate) | (split; intro; discriminate)].

Definition ex_opts (storeid : bool) : qopts := mkq false storeid false 33554432 8388608 2048 1025.
Definition ex_idcid : bytes := cid_enc (mkcid 1 85 0 [x61]).                 (* raw identity "a" *)
Definition ex_cid (codec : N) (tag : byte) : bytes := cid_enc (mkcid 1 codec 18 (tag :: zeros 31)).

Lemma ex_cid_ok codec tag : codec < two63 -> cid_ok (mkcid 1 codec 18 (tag :: zeros 31)).
Proof. intros H. right. cbn. repeat split; try assumption; numgoal. Qed.

Lemma ex_rblock codec tag d : codec < 128 -> blen d <= 1000 ->
  rblock_ok 8388608 2048 (ex_cid codec tag, d).
Proof.
  intros Hc Hd. exists (mkcid 1 codec 18 (tag :: zeros 31)). cbn [fst snd].
  assert (Hl : blen (ex_cid codec tag) = 36).
  { unfold ex_cid, cid_enc, mh_enc. cbn [c_ver c_codec c_mhcode c_digest N.eqb].
    rewrite !blen_app, !blen_put_uv. rewrite (uv_size_small codec) by lia. reflexivity. }
  split; [apply ex_cid_ok; unfold two63; lia|]. split; [reflexivity|].
  rewrite Hl. split; [numgoal|]. unfold two63. repeat split; lia.
Qed.

Lemma ex_rblock_id : rblock_ok 8388608 2048 (ex_idcid, [x61]).
Proof.
  exists (mkcid 1 85 0 [x61]). cbn [fst snd]. split; [right; cbn; repeat split; numgoal|].
  split; [reflexivity|]. repeat split; numgoal.
Qed.

(* a non-trivial archive: duplicate section, same multihash under two codecs, an identity section;
   one root; CARv2 with data padding 7, index padding 3, embedded multihash-sorted index that has
   identity entries; opened with StoreIdentityCIDs *)
Definition ex_bs : list block :=
  [ (ex_cid 85 x01, [x0a; x0b]); (ex_cid 113 x01, [x0a; x0b]); (ex_idcid, [x61]);
    (ex_cid 85 x02, []); (ex_cid 85 x01, [x0a; x0b]) ].
Definition ex_roots : list bytes := [ex_cid 85 x01].
Definition ex_ct : container := CV2 128 0 7 3 (Some (1025, true)).
Definition ex_file : bytes :=
  match car_file ex_ct (Some ex_roots) ex_bs 0 with Some f => f | None => [] end.

Lemma ex_roots_ok : roots_ok ex_roots.
Proof.
  split; [|numgoal]. constructor; [|constructor]. split; [|numgoal].
  exists (mkcid 1 85 18 (x01 :: zeros 31)). split; [apply ex_cid_ok; numgoal|reflexivity].
Qed.

Lemma ex_arch_ok storeid : arch_ok dec_header_canon (ex_opts storeid) (Some ex_roots) ex_bs 0.
Proof.
  split.
  - apply (hdr_good_canon ex_roots). apply ex_roots_ok.
  - numgoal.
  - numgoal.
  - cbn [ex_opts q_maxs q_maxcid]. unfold ex_bs.
    apply Forall_cons; [apply ex_rblock; [lia|cbn; lia]|].
    apply Forall_cons; [apply ex_rblock; [lia|cbn; lia]|].
    apply Forall_cons; [apply ex_rblock_id|].
    apply Forall_cons; [apply ex_rblock; [lia|cbn; lia]|].
    apply Forall_cons; [apply ex_rblock; [lia|cbn; lia]|]. apply Forall_nil.
  - left. reflexivity.
Qed.

Example ex_file_ok : file_ok dec_header_canon (ex_opts true) ex_ct (Some ex_roots) ex_bs 0 ex_file.
Proof.
  split.
  - apply ex_arch_ok.
  - reflexivity.
  - numgoal.
  - discriminate.
  - cbn [ex_ct]. repeat split; try numgoal; intros _; numgoal.
Qed.

(* the same archive as a bare CARv1 with a caller-supplied sorted index *)
Example ex_supplied_ok :
  supplied_ok dec_header_canon (Some (mkq false true false 33554432 8388608 2048 1024))
    (match gen_flat dec_header_canon (mkq false true false 33554432 8388608 2048 1024) 0 (payload_np (Some ex_roots) ex_bs 0)
     with Ok i => Some i | Err _ => None end) (Some ex_roots) ex_bs 0.
Proof.
  split.
  - split.
    + apply (hdr_good_canon ex_roots). apply ex_roots_ok.
    + numgoal.
    + numgoal.
    + cbn [q_maxs q_maxcid]. unfold ex_bs.
      apply Forall_cons; [apply ex_rblock; [lia|cbn; lia]|].
    apply Forall_cons; [apply ex_rblock; [lia|cbn; lia]|].
    apply Forall_cons; [apply ex_rblock_id|].
    apply Forall_cons; [apply ex_rblock; [lia|cbn; lia]|].
    apply Forall_cons; [apply ex_rblock; [lia|cbn; lia]|]. apply Forall_nil.
    + left. reflexivity.
  - eexists. split; vm_compute; reflexivity.
Qed.

(* what the model answers on the example (cross-checks the theorem on a concrete instance) *)
Example ex_answers :
  match ro_open dec_header_canon (ex_opts true) ex_file None with
  | Ok s => ro_has s (ex_cid 113 x01) = OBool true /\ ro_get s (ex_cid 113 x01) = OBytes [x0a; x0b] /\
            ro_has s ex_idcid = OBool true /\ ro_has s (ex_cid 85 x03) = OBool false /\
            ro_getsize s (ex_cid 85 x02) = OSize 0
  | Err _ => False
  end.
Proof. vm_compute. repeat split. Qed.

Example ex_consistent : consistent ex_bs.
Proof.
  unfold consistent, ex_bs. intros b1 b2 p1 p2 H1 H2.
  repeat (destruct H1 as [<-|H1]; [|]); try contradiction;
  repeat (destruct H2 as [<-|H2]; [|]); try contradiction;
  vm_compute; intros E1 E2; inversion E1; inversion E2; subst; intros; try reflexivity; try discriminate.
Qed.

(* ---- the unguarded statement is false ------------------------------------------------------------ *)
(* (1) embedded index without identity entries, opened with StoreIdentityCIDs: Has/Get miss a section
   the scan yields *)
Definition rf_bs : list block := [(ex_idcid, [x61])].
Definition rf_ct : container := CV2 0 0 0 0 (Some (1025, false)).
Definition rf_file : bytes := match car_file rf_ct (Some []) rf_bs 0 with Some f => f | None => [] end.

Lemma rf_arch_ok : arch_ok dec_header_canon (ex_opts true) (Some []) rf_bs 0.
Proof.
  split.
  - apply (hdr_good_canon []). split; [constructor|numgoal].
  - numgoal.
  - numgoal.
  - apply Forall_cons; [apply ex_rblock_id|apply Forall_nil].
  - left. reflexivity.
Qed.

Lemma rf_file_ok : file_ok dec_header_canon (ex_opts true) rf_ct (Some []) rf_bs 0 rf_file.
Proof.
  split.
  - apply rf_arch_ok.
  - reflexivity.
  - numgoal.
  - discriminate.
  - cbn [rf_ct]. repeat split; try numgoal; intros _; numgoal.
Qed.

Theorem has_refuted :
  exists o ct ro bs npad file key kp s,
    file_ok dec_header_canon o ct ro bs npad file /\
    ro_open dec_header_canon o file None = Ok s /\ cid_parse key = Some kp /\
    ref_has o key kp bs = true /\ ro_has s key = OBool false /\ ro_get s key = OErr ENotFound.
Proof.
  exists (ex_opts true), rf_ct, (Some []), rf_bs, 0, rf_file, ex_idcid, (mkcid 1 85 0 [x61]).
  destruct (ro_open dec_header_canon (ex_opts true) rf_file None) as [s|e] eqn:E; [|vm_compute in E; discriminate].
  exists s. split; [exact rf_file_ok|]. split; [reflexivity|].
  vm_compute in E. inversion E; subst s. vm_compute. repeat split.
Qed.

Theorem sto_has_refuted :
  exists o ct ro bs npad file key kp s,
    file_ok dec_header_canon o ct ro bs npad file /\
    sto_open dec_header_canon o file = Ok s /\ cid_parse key = Some kp /\
    ref_has o key kp bs = true /\ ro_has s key = OBool false /\ sto_get s key = OErr ENotFound.
Proof.
  exists (ex_opts true), rf_ct, (Some []), rf_bs, 0, rf_file, ex_idcid, (mkcid 1 85 0 [x61]).
  destruct (sto_open dec_header_canon (ex_opts true) rf_file) as [s|e] eqn:E; [|vm_compute in E; discriminate].
  exists s. split; [exact rf_file_ok|]. split; [reflexivity|].
  vm_compute in E. inversion E; subst s. vm_compute. repeat split.
Qed.

(* (2) GetSize of an identity key no section carries, under StoreIdentityCIDs: a size, not not-found *)
Lemma rg_file_ok : file_ok dec_header_canon (ex_opts true) CV1 (Some []) [] 0 (payload_np (Some []) [] 0).
Proof.
  split.
  - split; [apply (hdr_good_canon []); split; [constructor|numgoal]|numgoal|numgoal|constructor|left; reflexivity].
  - reflexivity.
  - numgoal.
  - discriminate.
  - exact I.
Qed.

Theorem getsize_refuted :
  exists o ct ro bs npad file key kp s,
    file_ok dec_header_canon o ct ro bs npad file /\
    ro_open dec_header_canon o file None = Ok s /\ cid_parse key = Some kp /\
    ref_has o key kp bs = false /\ ro_has s key = OBool false /\ ro_get s key = OErr ENotFound /\
    ro_getsize s key = OSize 1.
Proof.
  exists (ex_opts true), CV1, (Some []), [], 0, (payload_np (Some []) [] 0), ex_idcid, (mkcid 1 85 0 [x61]).
  destruct (ro_open dec_header_canon (ex_opts true) (payload_np (Some []) [] 0) None) as [s|e] eqn:E; [|vm_compute in E; discriminate].
  exists s. split; [exact rg_file_ok|]. split; [reflexivity|].
  vm_compute in E. inversion E; subst s. vm_compute. repeat split.
Qed.

(* ---- the statements of props/C07.v, hypotheses spelled out, header decoder = the model's own ------ *)
Lemma canon_hdr_ro ro : roots_ok (hdr_roots ro) ->
  dec_header_canon (enc_header ro 1) = Some (hdr_roots ro, 1).
Proof.
  destruct ro as [r|]; cbn [hdr_roots]; intros H.
  - apply dec_header_enc; [exact H|unfold two64; lia].
  - apply dec_header_enc_nil. unfold two64. lia.
Qed.

Definition limits_ok (o : qopts) (ro : option (list bytes)) (bs : list block) (npad : N) : Prop :=
  blen (enc_header ro 1) <= q_maxh o /\
  Forall (rblock_ok (q_maxs o) (q_maxcid o)) bs /\
  (npad = 0 \/ q_zeof o = true).

Lemma car_file_payload_le ct ro bs npad file :
  car_file ct ro bs npad = Some file -> blen (payload_np ro bs npad) <= blen file.
Proof.
  destruct ct as [|chi clo dpad ipad emb].
  - cbn [car_file]. intros H. inversion H. lia.
  - intros H. destruct (car_file_v2 ro bs npad chi clo dpad ipad emb file H) as (ib & -> & _).
    rewrite v2_file_len'. lia.
Qed.

Lemma mk_arch_ok o ro bs npad :
  roots_ok (hdr_roots ro) -> limits_ok o ro bs npad -> blen (payload_np ro bs npad) < two63 ->
  arch_ok dec_header_canon o ro bs npad.
Proof.
  intros Hr (Hm & Hb & Hn) H63. split; try assumption.
  - apply canon_hdr_ro. exact Hr.
  - rewrite payload_np_split, !blen_app, blen_ld in H63. unfold ld_size in H63. lia.
Qed.

Lemma mk_file_ok o ct ro bs npad file :
  car_file ct ro bs npad = Some file -> roots_ok (hdr_roots ro) -> limits_ok o ro bs npad ->
  blen file < two63 -> (q_codec o = codec_sorted \/ q_codec o = codec_mh_sorted) ->
  match ct with
  | CV1 => True
  | CV2 chi clo _ _ emb => chi < two64 /\ clo < two64 /\ 10 <= q_maxh o /\
                           (emb <> None -> N.of_nat (length bs) < two31)
  end ->
  file_ok dec_header_canon o ct ro bs npad file.
Proof.
  intros Hf Hr Hl H63 Hc Hv. pose proof (car_file_payload_le ct ro bs npad file Hf) as Hle.
  split; try assumption.
  - apply mk_arch_ok; try assumption. lia.
  - unfold idx_new. destruct Hc as [-> | ->]; discriminate.
  - destruct ct as [|chi clo dpad ipad emb]; [exact I|].
    destruct Hv as (H1 & H2 & H3 & H4). repeat split; try assumption.
Qed.

Lemma mk_supplied_ok sup si ro bs npad :
  roots_ok (hdr_roots ro) -> blen (payload_np ro bs npad) < two63 ->
  match sup with
  | None => si = None
  | Some og => limits_ok og ro bs npad /\
               exists i, gen_flat dec_header_canon og 0 (payload_np ro bs npad) = Ok i /\ si = Some i
  end ->
  supplied_ok dec_header_canon sup si ro bs npad.
Proof.
  intros Hr H63. destruct sup as [og|]; cbn [supplied_ok]; [|tauto].
  intros (Hl & Hi). split; [apply mk_arch_ok; assumption|exact Hi].
Qed.

Theorem C07_ro_full o ct ro bs npad file sup si :
  car_file ct ro bs npad = Some file -> roots_ok (hdr_roots ro) -> limits_ok o ro bs npad ->
  blen file < two63 -> (q_codec o = codec_sorted \/ q_codec o = codec_mh_sorted) ->
  match ct with
  | CV1 => True
  | CV2 chi clo _ _ emb => chi < two64 /\ clo < two64 /\ 10 <= q_maxh o /\
                           (emb <> None -> N.of_nat (length bs) < two31)
  end ->
  match sup with
  | None => si = None
  | Some og => limits_ok og ro bs npad /\
               exists i, gen_flat dec_header_canon og 0 (payload_np ro bs npad) = Ok i /\ si = Some i
  end ->
  exists s, ro_open dec_header_canon o file si = Ok s /\
    br_read_all no_hash dec_header_canon (scan_opts o) file = Ok (ct_version ct, hdr_roots ro, mkscan bs EEof) /\
    ro_keys dec_header_canon s = KKeys (ref_keys (q_whole o) bs) None /\
    ro_roots dec_header_canon s = OKeys (hdr_roots ro) /\
    forall key kp, cid_parse key = Some kp ->
      getsize_spec o key kp bs (ro_getsize s key) /\
      (id_guard o (index_wid o ct sup) kp = true ->
         ro_has s key = OBool (ref_has o key kp bs) /\ get_spec o key kp bs (ro_get s key)).
Proof.
  intros Hf Hr Hl H63 Hc Hv Hs. pose proof (car_file_payload_le ct ro bs npad file Hf) as Hle.
  apply (ro_refines_scan dec_header_canon o ct ro bs npad file sup si); [apply mk_file_ok; assumption|apply mk_supplied_ok; try assumption; lia].
Qed.

Theorem C07_sto_full o ct ro bs npad file :
  car_file ct ro bs npad = Some file -> roots_ok (hdr_roots ro) -> limits_ok o ro bs npad ->
  blen file < two63 -> (q_codec o = codec_sorted \/ q_codec o = codec_mh_sorted) ->
  match ct with
  | CV1 => True
  | CV2 chi clo _ _ emb => chi < two64 /\ clo < two64 /\ 10 <= q_maxh o /\
                           (emb <> None -> N.of_nat (length bs) < two31)
  end ->
  exists s, sto_open dec_header_canon o file = Ok s /\
    br_read_all no_hash dec_header_canon (scan_opts o) file = Ok (ct_version ct, hdr_roots ro, mkscan bs EEof) /\
    sto_roots s = OKeys (hdr_roots ro) /\
    forall key kp, cid_parse key = Some kp -> id_guard o (index_wid o ct None) kp = true ->
      ro_has s key = OBool (ref_has o key kp bs) /\ get_spec o key kp bs (sto_get s key).
Proof.
  intros Hf Hr Hl H63 Hc Hv. apply (sto_refines_scan dec_header_canon o ct ro bs npad file). apply mk_file_ok; assumption.
Qed.

Theorem C07_agree_full o ct ro bs npad file sup si s1 s2 :
  car_file ct ro bs npad = Some file -> roots_ok (hdr_roots ro) -> limits_ok o ro bs npad ->
  blen file < two63 -> (q_codec o = codec_sorted \/ q_codec o = codec_mh_sorted) ->
  match ct with
  | CV1 => True
  | CV2 chi clo _ _ emb => chi < two64 /\ clo < two64 /\ 10 <= q_maxh o /\
                           (emb <> None -> N.of_nat (length bs) < two31)
  end ->
  match sup with
  | None => si = None
  | Some og => limits_ok og ro bs npad /\
               exists i, gen_flat dec_header_canon og 0 (payload_np ro bs npad) = Ok i /\ si = Some i
  end ->
  ro_open dec_header_canon o file si = Ok s1 -> sto_open dec_header_canon o file = Ok s2 ->
  ro_roots dec_header_canon s1 = sto_roots s2 /\
  forall key kp, cid_parse key = Some kp ->
    id_guard o (index_wid o ct sup) kp = true -> id_guard o (index_wid o ct None) kp = true ->
    ro_has s1 key = ro_has s2 key /\ (consistent bs -> ro_get s1 key = sto_get s2 key).
Proof.
  intros Hf Hr Hl H63 Hc Hv Hs. pose proof (car_file_payload_le ct ro bs npad file Hf) as Hle.
  apply (frontends_agree dec_header_canon o ct ro bs npad file sup si s1 s2); [apply mk_file_ok; assumption|apply mk_supplied_ok; try assumption; lia].
Qed.

(* the guard excludes exactly the documented corner *)
Theorem id_guard_false_iff o wid kp :
  id_guard o wid kp = false <-> q_storeid o = true /\ is_identity kp = true /\ wid = false.
Proof.
  unfold id_guard. destruct (q_storeid o), (is_identity kp), wid; cbn; split; intros H; try discriminate; try tauto;
    destruct H as (H1 & H2 & H3); discriminate.
Qed.
Corollary id_guard_generated o ct kp :
  (match ct with CV2 _ _ _ _ (Some _) => False | _ => True end) -> id_guard o (index_wid o ct None) kp = true.
Proof.
  intros H. unfold id_guard, index_wid. destruct ct as [|a b c d [[codec wid]|]]; try contradiction;
    destruct (q_storeid o), (is_identity kp); reflexivity.
Qed.
Corollary id_guard_same_setting o ct og kp :
  q_storeid og = q_storeid o -> id_guard o (index_wid o ct (Some og)) kp = true.
Proof.
  intros H. unfold id_guard, index_wid. rewrite H. destruct (q_storeid o), (is_identity kp); reflexivity.
Qed.
