(* C13: non-vacuity examples and the witnesses of the four repaired defects, evaluated on the
   model (the same byte strings are corpus/C13/*.case). *)
From GoCar Require Import Bytes Varint Cid Header Frame V2Header Scan BlockReaderPos Inspect.
From GoCarProofs Require Import BlockReaderPosC14 InspectFacts InspectC13 InspectQuick.

Module ExI.
  Import Ex.
  Definition hd := dec_header_canon.
  Definition payload := enc_payload roots bs.
  (* summary of a Stats value: count, roots present, (avg,max,min) cid, (avg,max,min) block,
     codec counts, hash counts, index codec *)
  Definition show (r : res stats) :=
    match r with
    | Ok t => Some (t_version t, t_count t, t_roots_present t, (t_avg_cid t, t_max_cid t, t_min_cid t),
                    (t_avg_blk t, t_max_blk t, t_min_blk t), t_codecs t, t_mhtypes t, t_index_codec t)
    | Err _ => None
    end.

  (* the theorem's hypotheses hold and both sides of the iff are true *)
  Example c13_v1_accepted :
    o_maxs o <= max_digest_alloc /\ new_reader hd o payload = Ok (mkrdr 1 zero_v2hdr) /\
    show (inspect hok hd o (mkrdr 1 zero_v2hdr) payload true)
    = Some (1, 3, true, (25, 36, 7), (44, 130, 0), [(85, 1); (112, 1); (113, 1)], [(0, 1); (18, 2)], 0) /\
    br_read_all hok hd (untrusted o) payload = Ok (1, roots, mkscan bs EEof).
  Proof.
    split; [vm_compute; congruence|]. split; [vm_compute; reflexivity|].
    split; vm_compute; reflexivity.
  Qed.

  (* CARv2 with padding and an index whose codec (0x0401) is readable *)
  Definition idx : bytes := [x81; x08; x00; x00].
  Definition v2 := v2_file 0 0 (51 + 3 + blen payload) pad payload idx.
  Definition rd2 := mkrdr 2 (mkv2 0 0 54 (blen payload) (54 + blen payload)).
  Example c13_v2_accepted :
    new_reader hd o v2 = Ok rd2 /\
    show (inspect hok hd o rd2 v2 true)
    = Some (2, 3, true, (25, 36, 7), (44, 130, 0), [(85, 1); (112, 1); (113, 1)], [(0, 1); (18, 2)], 1025) /\
    br_read_all hok hd (untrusted o) v2 = Ok (2, roots, mkscan bs EEof) /\
    index_codec rd2 v2 = Ok 1025.
  Proof.
    split; [vm_compute; reflexivity|]. split; [vm_compute; reflexivity|].
    split; vm_compute; reflexivity.
  Qed.

  (* a root that is in no block, no blocks at all: RootsPresent false, all lengths 0 *)
  Example c13_empty :
    show (inspect_file hok hd o (enc_payload [c1] []) true)
    = Some (1, 0, false, (0, 0, 0), (0, 0, 0), [], [], 0).
  Proof. vm_compute. reflexivity. Qed.

  (* ---- the four witnesses: accepted by NewReader, refused by Inspect(true) as repaired, and
     refused by the BlockReader (both sides of the iff false) ------------------------------ *)
  Definition is_err {A} (r : res A) : bool := match r with Err _ => true | Ok _ => false end.

  (* 1. CARv2 whose payload header says version 2 (DESIGN 6 #11) *)
  Definition inner2 : bytes := ld (enc_header (Some roots) 2) ++ enc_sections bs.
  Definition v2_inner2 := v2_file 0 0 0 [] inner2 [].
  Example c13_inner_version_2 :
    (exists rd, new_reader hd o v2_inner2 = Ok rd /\ inspect hok hd o rd v2_inner2 true = Err EOther) /\
    br_read_all hok hd (untrusted o) v2_inner2 = Err EOther.
  Proof.
    split; [exists (mkrdr 2 (mkv2 0 0 51 (blen inner2) 0)); split|]; vm_compute; reflexivity.
  Qed.

  (* 2. cut right after a section's length varint *)
  Definition cut_after_varint : bytes := ld (enc_header (Some roots) 1) ++ [x0a].
  Example c13_cut_after_varint :
    inspect_file hok hd o cut_after_varint true = Err EUnexpectedEof /\
    (exists v r blocks e, br_read_all hok hd (untrusted o) cut_after_varint = Ok (v, r, mkscan blocks e) /\ e <> EEof).
  Proof. split; [vm_compute; reflexivity|]. do 4 eexists. split; [vm_compute; reflexivity|discriminate]. Qed.

  (* 3. the last section's length promises 5 bytes more than the file holds; the bytes that
     are there hash to the CID *)
  Definition short_last : bytes :=
    ld (enc_header (Some roots) 1) ++ put_uv (blen c1 + blen d1 + 5) ++ c1 ++ d1.
  Example c13_short_last_section :
    inspect_file hok hd o short_last true = Err EUnexpectedEof /\
    (exists v r blocks e, br_read_all hok hd (untrusted o) short_last = Ok (v, r, mkscan blocks e) /\ e <> EEof).
  Proof. split; [vm_compute; reflexivity|]. do 4 eexists. split; [vm_compute; reflexivity|discriminate]. Qed.

  (* 4. a version-2 first header that is not the 11-byte pragma ({roots:[],version:2}, 18 bytes):
     the CARv2 header NewReader would read at offset 11 overlaps it *)
  Definition long_pragma : bytes :=
    ld (enc_header (Some []) 2) ++ zeros 9 ++ le_enc 8 100 ++ le_enc 8 (blen payload) ++ le_enc 8 0
    ++ zeros 49 ++ payload.
  Example c13_long_pragma :
    is_err (new_reader hd o long_pragma) = true /\ is_err (br_read_all hok hd (untrusted o) long_pragma) = true /\
    (* what the unrepaired NewReader took as the CARv2 header, and where the payload then is *)
    match read_v2hdr (drop 11 long_pragma) with
    | Ok (h, _) => (h_doff h, h_dsize h, h_ioff h) = (100, blen payload, 0)
    | Err _ => False
    end /\
    take (blen payload) (drop 100 long_pragma) = payload.
  Proof.
    split; [vm_compute; reflexivity|]. split; [vm_compute; reflexivity|].
    split; vm_compute; reflexivity.
  Qed.

  (* ---- Inspect(false) ------------------------------------------------------------------- *)
  (* on an intact archive: the statistics of the (non-verifying) scan *)
  Example c13_quick_clean :
    show (inspect hok hd o (mkrdr 1 zero_v2hdr) payload false)
    = Some (1, 3, true, (25, 36, 7), (44, 130, 0), [(85, 1); (112, 1); (113, 1)], [(0, 1); (18, 2)], 0) /\
    br_read_all hok hd (trusted o) payload = Ok (1, roots, mkscan bs EEof).
  Proof. split; vm_compute; reflexivity. Qed.

  (* the second block's data cut 50 bytes short, nothing after it: the trusted scan stops with
     ErrUnexpectedEOF after one block, Inspect(false) succeeds and counts the cut block with its
     promised 130 bytes *)
  Definition two : list block := [(c1, d1); (c2, zeros 130)].
  Definition cut50 : bytes := take (blen (enc_payload roots two) - 50) (enc_payload roots two).
  Example c13_quick_accepts_a_cut_last_block :
    show (inspect hok hd o (mkrdr 1 zero_v2hdr) cut50 false)
    = Some (1, 2, false, (20, 34, 7), (66, 130, 3), [(85, 1); (112, 1)], [(0, 1); (18, 1)], 0) /\
    br_read_all hok hd (trusted o) cut50 = Ok (1, roots, mkscan [(c1, d1)] EUnexpectedEof) /\
    cut_last o (br_read_tail hok hd (trusted o) cut50) = Some (c2, p2, 34, 130) /\
    (* Inspect(true) refuses it *)
    inspect hok hd o (mkrdr 1 zero_v2hdr) cut50 true = Err EUnexpectedEof.
  Proof.
    split; [vm_compute; reflexivity|]. split; [vm_compute; reflexivity|].
    split; vm_compute; reflexivity.
  Qed.
End ExI.
