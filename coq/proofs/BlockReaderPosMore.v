(* C14, round 3:
   - the stream-parser hypothesis [cid_stream_ok] follows from the section limit when
     MaxAllowedSectionSize <= 32 MiB (so the theorems are unconditional for default options);
   - br.offset moves exactly as the source position does, for ALL inputs, and on valid archives
     never exceeds the file size: uint64 arithmetic on it cannot wrap for a file < 2^64 bytes;
   - the CARv2 theorem instantiated with a real embedded index (index padding + written index +
     anything after it). *)
From GoCar Require Import Bytes Varint Cid Header Frame V2Header Scan Index BlockReaderPos.
From GoCarProofs Require Import BytesFacts VarintFacts CidFacts HeaderFacts ScanFacts InspectParse
  BlockReaderPosFacts BlockReaderPosValid BlockReaderPosC14.

(* ---- (3) ---------------------------------------------------------------------------------- *)
Lemma digest_le_cid p : blen (c_digest p) <= blen (cid_enc p).
Proof. unfold cid_enc, mh_enc. destruct (c_ver p =? 0); rewrite !blen_app; lia. Qed.

Theorem stream_ok_of_block_ok maxs b :
  maxs <= max_digest_alloc -> block_ok maxs b -> cid_stream_ok (fst b).
Proof.
  intros Hcap ((p & Hp & Hc) & Hmax & _). exists p. split; [exact Hp|]. split; [|exact Hc].
  pose proof (digest_le_cid p). rewrite <- Hc in H. lia.
Qed.

Theorem stream_ok_within_cap maxs bs :
  maxs <= max_digest_alloc -> Forall (block_ok maxs) bs -> Forall (fun b => cid_stream_ok (fst b)) bs.
Proof. intros Hcap H. eapply Forall_impl; [|exact H]. intros b. apply stream_ok_of_block_ok. exact Hcap. Qed.

(* ---- (2b) br.offset tracks the source position, all inputs ---------------------------------- *)
Section Track.
  Variable hok : bytes -> bytes -> option bool.

  Theorem brp_next_off_tracks_pos o st b st' :
    brp_next hok o st = Ok (b, st') ->
    p_off st' + p_pos st = p_off st + p_pos st' /\ p_pos st <= p_pos st'.
  Proof.
    unfold brp_next, next_block, read_node, ld_read, ld_read_size. intros H.
    destruct (read_uv (vis st)) as [l rest n| | | |] eqn:Euv; try discriminate.
    destruct ((l =? 0) && o_zeof o); [discriminate|]. destruct (o_maxs o <? l); [discriminate|].
    destruct (blen rest <? l) eqn:El; [discriminate|].
    destruct (cid_from_bytes (take l rest)) as [[cn p]|] eqn:Ec; [|discriminate].
    assert (Hb : b = (take cn (take l rest), drop cn (take l rest)) /\
                 st' = set_off (p_off st + (uv_size (blen (take cn (take l rest)) + blen (drop cn (take l rest)))
                                             + (blen (take cn (take l rest)) + blen (drop cn (take l rest)))))
                               (adv (blen (vis st) - blen (drop l rest)) st)).
    { destruct (o_trusted o); [inversion H; auto|].
      destruct (verify hok (take cn (take l rest)) p (drop cn (take l rest))) as [[]|e]; [|discriminate].
      inversion H; auto. }
    destruct Hb as (_ & ->).
    destruct (read_uv_inv _ _ _ _ Euv) as (Hs & Hn & _).
    assert (Hlen : blen (take cn (take l rest)) + blen (drop cn (take l rest)) = l).
    { rewrite <- blen_app, take_drop_id, blen_take. lia. }
    rewrite Hlen. cbn [set_off adv p_off p_pos].
    rewrite Hs at 1. rewrite blen_app, blen_put_uv, blen_drop. lia.
  Qed.

  Theorem brp_skip_off_tracks_pos o st m st' :
    brp_skip o st = Ok (m, st') ->
    p_off st' + p_pos st = p_off st + p_pos st' /\ p_pos st <= p_pos st' /\
    m_soff m = p_off st /\ m_off m = p_off st - p_v1off st.
  Proof.
    unfold brp_skip, ld_read_size. intros H.
    destruct (read_uv (vis st)) as [l rest n| | | |] eqn:Euv; try discriminate.
    destruct ((l =? 0) && o_zeof o); [discriminate|]. destruct (o_maxs o <? l); [discriminate|].
    destruct (l =? 0); [discriminate|].
    destruct (cid_from_reader (take l rest)) as [cn c p after| |k] eqn:Ec; try discriminate.
    destruct (read_uv_inv _ _ _ _ Euv) as (_ & Hn & _).
    destruct (cid_from_reader_inv _ _ _ _ _ Ec) as (_ & _ & Hs & _ & Hcn).
    assert (Hcl : cn <= l).
    { assert (X : blen (take l rest) <= l) by (rewrite blen_take; lia).
      rewrite Hs, blen_app in X. lia. }
    destruct (p_lim st) as [lim|]; [|destruct (p_seek st)].
    - destruct (blen (vis (adv (n + cn) st)) <? l - cn); [discriminate|]. inversion H; subst m st'.
      cbn [set_off adv p_off p_pos m_soff m_off]. repeat split; lia.
    - destruct (negb (p_pos (adv (n + cn) st) + (l - cn) =? p_off st + uv_size l + l)); [discriminate|].
      destruct (match p_rsize st with Some r => r | None => blen (p_all st) end <? p_pos (adv (n + cn) st) + (l - cn)); [discriminate|].
      inversion H; subst m st'. cbn [set_off seek_to adv p_off p_pos m_soff m_off]. repeat split; lia.
    - destruct (blen (vis (adv (n + cn) st)) <? l - cn); [discriminate|]. inversion H; subst m st'.
      cbn [set_off adv p_off p_pos m_soff m_off]. repeat split; lia.
  Qed.
End Track.

(* ---- (2b) on valid archives every offset the reader computes is inside the file ------------- *)
Lemma sec_start_le_payload roots bs i : sec_start roots bs i <= blen (enc_payload roots bs).
Proof. apply sec_start_le. Qed.

Lemma wrap64_small n : n < two64 -> wrap64 n = n.
Proof. intros H. unfold wrap64. apply N.mod_small. exact H. Qed.

(* the positions of the C14 theorems (= br.offset after the call, = SourceOffset + section size)
   are bounded by the file length; below 2^64 the uint64 additions of the Go code are exact *)
Theorem offsets_inside_file_v1 roots bs i :
  blen (ld (enc_header (Some roots) 1) ++ enc_sections (firstn i bs)) <= blen (enc_payload roots bs).
Proof. apply (sec_start_le roots bs i). Qed.

Theorem offsets_inside_file_v2 hi lo ioff pad roots bs trailer i :
  51 + blen pad + blen (ld (enc_header (Some roots) 1) ++ enc_sections (firstn i bs))
  <= blen (v2_file hi lo ioff pad (enc_payload roots bs) trailer).
Proof.
  pose proof (sec_start_le roots bs i) as H. unfold sec_start in H.
  set (x := blen (ld (enc_header (Some roots) 1) ++ enc_sections (firstn i bs))) in *.
  unfold v2_file. rewrite !blen_app, blen_enc_v2hdr, blen_pragma. lia.
Qed.

Theorem offsets_do_not_wrap file off : off <= blen file -> blen file < two64 -> wrap64 off = off.
Proof. intros H1 H2. apply wrap64_small. lia. Qed.

(* ---- (2a) CARv2 with an embedded index ------------------------------------------------------- *)
(* index padding, the index as index.WriteTo writes it, anything after it; IndexOffset pointing
   at the index *)
Definition v2_indexed (hi lo : N) (pad payload ipad : bytes) (i : index) (junk : bytes) : bytes :=
  v2_file hi lo (51 + blen pad + blen payload + blen ipad) pad payload (ipad ++ idx_write i ++ junk).

Lemma v2_indexed_layout hi lo pad payload ipad i junk :
  v2_indexed hi lo pad payload ipad i junk
  = (pragma ++ enc_v2hdr (mkv2 hi lo (51 + blen pad) (blen payload) (51 + blen pad + blen payload + blen ipad))
     ++ pad ++ payload ++ ipad) ++ idx_write i ++ junk /\
  blen (pragma ++ enc_v2hdr (mkv2 hi lo (51 + blen pad) (blen payload) (51 + blen pad + blen payload + blen ipad))
        ++ pad ++ payload ++ ipad) = 51 + blen pad + blen payload + blen ipad.
Proof.
  split.
  - unfold v2_indexed, v2_file. rewrite <- !app_assoc. reflexivity.
  - rewrite !blen_app, blen_enc_v2hdr, blen_pragma. lia.
Qed.

Lemma drop_app_eq (P rest : bytes) n : blen P = n -> drop n (P ++ rest) = rest.
Proof. intros <-. apply drop_app. Qed.

Section Indexed.
  Variable hok : bytes -> bytes -> option bool.
  Variable hdrdec : bytes -> option (list bytes * N).

  (* the CARv2 theorem for a file with a real embedded index, section limit within go-cid's cap
     (so no stream-parser hypothesis), any source kind: metadata exact, and the source is never
     consumed up to the index *)
  Theorem c14_v2_indexed o seek roots bs w hi lo pad ipad i junk :
    hdrdec (enc_header (Some roots) 1) = Some (roots, 1) ->
    blen (enc_header (Some roots) 1) <= o_maxh o -> blen (enc_header (Some roots) 1) < two63 ->
    Forall (block_ok (o_maxs o)) bs -> o_maxs o <= max_digest_alloc ->
    (o_trusted o = false -> Forall (hash_good hok) bs) ->
    hdrdec pragma_body = Some ([], 2) -> 10 <= o_maxh o ->
    hi < two64 -> lo < two64 ->
    51 + blen pad + blen (enc_payload roots bs) + blen ipad < two63 ->
    let file := v2_indexed hi lo pad (enc_payload roots bs) ipad i junk in
    let base := 51 + blen pad in
    let start k := blen (ld (enc_header (Some roots) 1) ++ enc_sections (firstn k bs)) in
    let index_offset := base + blen (enc_payload roots bs) + blen ipad in
    exists st0 steps e fin,
      brp_run hok hdrdec o seek file w = Ok (2, roots, st0, (steps, (e, fin))) /\
      map step_cid steps = firstn (length w) (map fst bs) /\
      e = (if (length bs <? length w)%nat then Some EEof else None) /\
      (forall k s, nth_error steps k = Some s ->
        exists c d ch hw, nth_error bs k = Some (c, d) /\ nth_error w k = Some ch /\
          s = if ch : bool then StN c d (base + start (S k)) hw
              else StS (mkmeta c (start k) (base + start k) (blen d)) (base + start (S k)) hw) /\
      (forall s, In s steps -> step_hw s <= index_offset - blen ipad) /\
      p_hw fin <= index_offset - blen ipad /\
      drop index_offset file = idx_write i ++ junk.
  Proof.
    intros H1 H2 H3 H4 Hcap H6 P1 P2 P3 P4 P5. cbn zeta.
    pose proof (stream_ok_within_cap _ _ Hcap H4) as H5.
    destruct (c14_v2 hok hdrdec o seek roots bs w hi lo
                (51 + blen pad + blen (enc_payload roots bs) + blen ipad) pad (ipad ++ idx_write i ++ junk)
                H1 H2 H3 H4 H5 H6 P1 P2 P3 P4) as (st0 & steps & e & fin & Hrun & Hc & _ & He & Hst & _ & Hb & Hf);
      try lia.
    cbn zeta in *.
    exists st0, steps, e, fin. split; [exact Hrun|]. split; [exact Hc|]. split; [exact He|].
    split; [|split; [|split]].
    - intros k s Hk. destruct (Hst k s Hk) as (c & d & ch & hw & Hb1 & Hw & _ & _ & _ & _ & Hs).
      exists c, d, ch, hw. auto.
    - intros s Hin. specialize (Hb s Hin). lia.
    - lia.
    - destruct (v2_indexed_layout hi lo pad (enc_payload roots bs) ipad i junk) as (Hl & Hlen).
      rewrite Hl. apply drop_app_eq. exact Hlen.
  Qed.
End Indexed.

(* the statements of props/C14.v (round 3), packaged *)
Theorem c14_offset_tracks hok o st :
  (forall b st', brp_next hok o st = Ok (b, st') ->
     p_off st' + p_pos st = p_off st + p_pos st' /\ p_pos st <= p_pos st') /\
  (forall m st', brp_skip o st = Ok (m, st') ->
     p_off st' + p_pos st = p_off st + p_pos st' /\ p_pos st <= p_pos st' /\
     m_soff m = p_off st /\ m_off m = p_off st - p_v1off st).
Proof.
  split; [intros b st'; apply brp_next_off_tracks_pos|intros m st'; apply (brp_skip_off_tracks_pos hok)].
Qed.

Theorem c14_offsets_inside roots bs i :
  (blen (ld (enc_header (Some roots) 1) ++ enc_sections (firstn i bs)) <= blen (enc_payload roots bs)) /\
  (forall hi lo ioff pad trailer,
     51 + blen pad + blen (ld (enc_header (Some roots) 1) ++ enc_sections (firstn i bs))
     <= blen (v2_file hi lo ioff pad (enc_payload roots bs) trailer)) /\
  (forall file off, off <= blen file -> blen file < two64 -> wrap64 off = off).
Proof.
  split; [apply offsets_inside_file_v1|]. split; [intros; apply offsets_inside_file_v2|].
  exact offsets_do_not_wrap.
Qed.

(* non-vacuity of the embedded-index theorem: the Ex archive with an (empty) multihash-sorted
   index after two bytes of index padding; the hypotheses hold and the index starts where the
   header says *)
Module ExIdx.
  Import Ex.
  Definition i0 : index := IdxMh [].
  Definition file := v2_indexed 0 128 pad (enc_payload roots bs) [x00; x00] i0 [xff].
  Example c14_indexed_hypotheses :
    o_maxs o <= max_digest_alloc /\ 51 + blen pad + blen (enc_payload roots bs) + 2 < two63.
  Proof. split; vm_compute; congruence. Qed.
  Example c14_indexed_run :
    match brp_run hok dec_header_canon o true file [false; false; true; false] with
    | Ok (v, _, _, (steps, (e, fin))) =>
        (v, map step_pos steps, e, p_hw fin) = (2, [135; 301; 338], Some EEof, 338) /\
        drop 340 file = idx_write i0 ++ [xff]
    | Err _ => False
    end.
  Proof. vm_compute. split; reflexivity. Qed.
End ExIdx.
