(* C05 over resumed sessions.
   (1) Composition, not re-proof: C12 (ResumeTheorems.C12_transparent_thm) says a session interrupted and resumed
       any number of times leaves, after the final Finalize, the very bytes of the uninterrupted session; C05_wf
       says what those bytes are.  Hence the file of a resumed session is well-formed and carries the puts of ALL
       its segments.
   (2) The zero tail: Resume's rescan over a payload followed by zero bytes (null padding, a zero-filled crash tail)
       under ZeroLengthSectionAsEOF stops AT the zero length -- same index, and the writer position is the end of
       the last section, not one byte later. *)
From Coq Require Import Sorting.Permutation.
From GoCar Require Import Bytes Varint Cid Header Frame V2Header Scan Index Store Wf Crash.
From GoCarProofs Require Import BytesFacts VarintFacts CidFacts HeaderFacts ScanFacts
     FinalBytes FinalStore FinalWf FinalWide FinalMain FinalProducers.
From GoCarProofs Require ResumeFacts ResumeTheorems CrashGuarded.

(* ---- (1) C12 + C05 ---------------------------------------------------------------------------------------- *)
Theorem resumed_session_wf :
  forall (hdrdec : bytes -> option (list bytes * N)) (k : skind) (o0 : wopts) (nilroots : bool)
         (roots : list bytes) (segs : list (list block * cut)) (last : list block) (s0 : wstate),
  let o := apply_wopts o0 in
  let ro := roots_opt nilroots roots in
  let all := concat (map fst segs) ++ last in
  hdrdec (enc_header ro 1) = Some (roots, 1) ->
  (exists r, hdrdec pragma_body = Some (r, 2)) ->
  blen (enc_header ro 1) <= w_maxh o ->
  match k with KStorage false => negb (w_v1 o) | _ => false end = false ->
  51 + w_dpad o + w_ipad o + ld_size (blen (enc_header ro 1)) + blen (enc_sections all) < two63 ->
  open_new k o nilroots roots [] = Ok s0 ->
  exists sN,
    run_segs hdrdec nilroots s0 segs = Some sN /\
    let fin := fe_finalize (run_puts sN last) in
    (snd (fe_finalize (run_puts s0 all)) = ONil ->
     w_ipad o < two63 -> roots_ok roots ->
     history_ok (CrashGuarded.singles all) = true ->
     blen (ws_file (fst fin)) < two63 ->
     (w_v1 o = false -> w_codec o = codec_mh_sorted ->
      N.of_nat (length (group_by r_code (ii_load (records_from (ld_size (blen (enc_header ro 1)))
                                                   (spec_stored k o ro (CrashGuarded.singles all))) []))) < two31) ->
     wf_parse o (ws_file (fst fin)) = Some (roots, spec_stored k o ro (CrashGuarded.singles all))).
Proof.
  intros hdrdec k o0 nilroots roots segs last s0 o ro all Hd Hpr Hmaxh Hk Hb Hopen.
  assert (Hmc : w_maxcid o <= max_digest_alloc).
  { pose proof (apply_wopts_maxcid o0). fold o in H. unfold max_width, max_digest_alloc in *. lia. }
  destruct (ResumeTheorems.C12_transparent_thm hdrdec k o nilroots roots Hd Hpr Hmaxh Hmc Hk segs last s0 Hb Hopen)
    as (sN & Hrun & Hfile).
  exists sN. split; [exact Hrun|]. cbv zeta. fold all in Hfile.
  intros Hfo Hip Hr Hh Hlen Hcodes.
  destruct (CrashGuarded.session_singles k o nilroots roots all s0 Hopen) as (outs & Hs).
  rewrite Hfo in Hs. rewrite Hfile in *.
  assert (Ho : 51 + w_dpad o + w_ipad o < two64) by (unfold two63, two64 in *; lia).
  exact (proj1 (c05_wf_guarded k o0 nilroots roots (CrashGuarded.singles all) _ outs Hs Ho Hip Hr Hh Hlen Hcodes)).
Qed.

(* ---- (2) the rescan stops at a zero tail, where the last section ends ----------------------------------------- *)
Lemma read_uv_zero rest : read_uv (x00 :: rest) = VOk 0 rest 1.
Proof. reflexivity. Qed.

Theorem resume_scan_zero_tail base : forall bs pre ii fuel n,
  Forall ResumeFacts.stored_ok bs ->
  base + blen pre + blen (enc_sections bs) < two63 ->
  (length bs < fuel)%nat -> 0 < n ->
  resume_scan fuel true base (pre ++ enc_sections bs ++ zerosN n) (blen pre) ii
  = Ok (ii_load (records_from (blen pre) bs) ii, blen pre + blen (enc_sections bs)).
Proof.
  induction bs as [|[c d] t IH]; intros pre ii fuel n Hok Hfit Hfuel Hn;
    (destruct fuel as [|f]; [cbn in Hfuel; lia|]); cbn [resume_scan].
  - cbn [enc_sections map concat app]. rewrite drop_app.
    assert (Hz : exists z, zerosN n = x00 :: z).
    { unfold zerosN. destruct (N.to_nat n) eqn:E; [lia|]. cbn [zeros]. eexists. reflexivity. }
    destruct Hz as (z & ->). rewrite read_uv_zero. cbn [N.eqb]. cbn. rewrite N.add_0_r. reflexivity.
  - inversion Hok as [|? ? (p & Hp & Hcap) Hok']; subst. cbn [fst snd] in *.
    rewrite ResumeFacts.enc_sections_cons in *. cbn [fst snd] in *. rewrite blen_app in Hfit.
    rewrite <- app_assoc. rewrite drop_app. unfold enc_section at 1. rewrite <- !app_assoc.
    pose proof (ResumeFacts.cid_parse_len c p Hp) as Hc2.
    pose proof (ResumeFacts.blen_enc_section_eq c d) as Hsz. unfold section_size, ld_size in Hsz.
    pose proof (uv_size_pos (blen c + blen d)) as Huv.
    rewrite read_uv_put_uv by lia.
    replace (blen c + blen d =? 0) with false by lia.
    rewrite (ResumeFacts.cid_from_reader_parsed c p _ Hp Hcap).
    replace (two63 <=? base + blen pre + uv_size (blen c + blen d) + (blen c + blen d)) with false by lia.
    rewrite andb_false_r.
    rewrite (app_assoc pre (enc_section c d)).
    replace (blen pre + uv_size (blen c + blen d) + (blen c + blen d)) with (blen (pre ++ enc_section c d))
      by (rewrite blen_app; lia).
    rewrite IH; [|exact Hok'|rewrite blen_app; lia|cbn in Hfuel; lia|exact Hn].
    cbn [records_from]. rewrite Hp. rewrite ResumeFacts.ii_load_cons.
    rewrite !blen_app. rewrite Hsz. unfold section_size, ld_size.
    do 2 f_equal. lia.
Qed.
