(* C06: the three refutations of the full statement (each replayed on the real library as
   corpus/C06/kf-*.case) and the non-vacuity examples of the C06 theorems. *)
From GoCar Require Import Bytes Varint Cid Header Frame V2Header Index Scan Store Crash.
From GoCarProofs Require Import BytesFacts HeaderFacts ResumeFacts ResumeInv ResumeRefuted
     CrashImage CrashPartial CrashTheorems.

Definition c6_root : bytes := [x01; x55; x12; x20; x9d; x78; x8b; x85; x59; x3f; xd1; x15; x55; xd1; x4a; xfc; x41; x75; xc8; x18; xb9; xd7; xec; x0e; xc1; x1b; x42; x4e; x75; x7b; xed; xf9; x23; x20; xa2; x24].
Definition c6_c1 : bytes := [x01; x55; x12; x20; x39; x7d; x5d; xc2; xb5; xde; x8d; x12; xdb; x73; x81; xdf; x1e; xc4; xce; x7d; x5e; xc7; x36; x18; x3b; x7d; xf7; xf5; x05; xae; xcc; x87; xb5; xa6; x85; x1b].
Definition c6_d1 : bytes := [x76; x65; x72; x69; x66; x2d; x63; x30; x36; x2d; x61].
Definition c6_c2 : bytes := [x01; x55; x12; x20; x73; xe0; x04; x7d; xfd; x7d; xcb; x13; x1a; x0c; x0c; xeb; x28; xa9; x6e; x62; x37; x5e; x63; x97; xbc; xd7; xdc; xa2; xdc; x6e; x9b; x8d; x1c; x88; x66; x4c].
Definition c6_d2 : bytes := concat (repeat [x76; x65; x72; x69; x66; x2d; x63; x30; x36; x2d; x62; x62] 20).

(* blockstore, default options, one root, two puts, Finalize *)
Definition c6_sess : csess :=
  mkcs KBlockstore wit_opts false [c6_root] [] [(c6_c1, c6_d1); (c6_c2, c6_d2)] true.

(* ---- the full statement at one crash point ------------------------------------------------------- *)
Definition crash_safe_at (hdrdec : bytes -> option (list bytes * N)) (x : csess) (f0 : bytes) (start : wstate)
           (acked_pre : list (bytes * bytes)) (k : nat) (t : N) : Prop :=
  let o := cs_opts x in
  let img := image f0 (cs_writes x start) k t in
  match reopen hdrdec (cs_kind x) o (cs_nil x) (cs_roots x) img with
  | inr (_, dv) =>
      let lim := data_base o + ws_pos (run_puts start (firstn (cs_done x start k) (cs_puts x))) in
      drop (data_base o) (take lim (d_file dv)) = drop (data_base o) (take lim img)
  | inl s1 =>
      (forall b, In b (cs_acked x start acked_pre k) ->
                 fe_has s1 (fst b) = OBool true /\ fe_get s1 (fst b) = OBytes (snd b)) /\
      (forall b, In b (cs_attempted x) -> fe_has s1 (fst b) = OBool true -> fe_get s1 (fst b) = OBytes (snd b)) /\
      (forall r, In r (ws_idx s1) -> exists b, In b (cs_attempted x) /\ r_cid r = fst b) /\
      (forall xb, snd (fe_put s1 xb) = ONil ->
         snd (fe_finalize (fst (fe_put s1 xb))) = ONil /\
         wf_final hdrdec o (cs_roots x) (xb :: cs_attempted x)
                  (filter (fun b => negb (skipped_identity o b)) (xb :: cs_acked x start acked_pre k))
                  (ws_file (fst (fe_finalize (fst (fe_put s1 xb))))) = true)
  end.

Lemma c6_params : params_ok dec_header_canon wit_opts false [c6_root].
Proof.
  constructor.
  - vm_compute. reflexivity.
  - exists []. reflexivity.
  - apply N.leb_le. vm_compute. reflexivity.
  - apply N.leb_le. vm_compute. reflexivity.
Qed.
Lemma c6_budget : budget wit_opts false [c6_root] [] (concat (map fst (cs_pre c6_sess)) ++ cs_puts c6_sess).
Proof. unfold budget. apply N.ltb_lt. vm_compute. reflexivity. Qed.

(* (1) torn data: crash 3 bytes into the data write of the first put.  Resume succeeds, the torn
   block is indexed (Has = true) and Get does not return its bytes. *)
Theorem torn_data_refuted :
  exists f0 start acked k t s1,
    cs_start dec_header_canon c6_sess = Some (f0, start, acked) /\
    pt_of_units (cs_writes c6_sess start) 107 = (k, t) /\
    crash_class c6_sess start k t = CData /\
    reopen dec_header_canon KBlockstore wit_opts false [c6_root] (image f0 (cs_writes c6_sess start) k t) = inl s1 /\
    In (c6_c1, c6_d1) (cs_attempted c6_sess) /\
    fe_has s1 c6_c1 = OBool true /\ fe_get s1 c6_c1 <> OBytes c6_d1.
Proof.
  eexists. eexists. eexists. eexists. eexists. eexists.
  split; [vm_compute; reflexivity|]. split; [vm_compute; reflexivity|].
  split; [vm_compute; reflexivity|]. split; [vm_compute; reflexivity|].
  split; [left; reflexivity|]. split; [vm_compute; reflexivity|].
  vm_compute. discriminate.
Qed.

(* (2) index before header: crash after the first bytes of the index, before the header is
   written.  Resume parses the index bytes as a section and lists a key that was never put. *)
Theorem index_before_header_refuted :
  exists f0 start acked k t s1 r,
    cs_start dec_header_canon c6_sess = Some (f0, start, acked) /\
    pt_of_units (cs_writes c6_sess start) 402 = (k, t) /\
    crash_class c6_sess start k t = CIndex /\
    reopen dec_header_canon KBlockstore wit_opts false [c6_root] (image f0 (cs_writes c6_sess start) k t) = inl s1 /\
    In r (ws_idx s1) /\ forall b, In b (cs_attempted c6_sess) -> r_cid r <> fst b.
Proof.
  eexists. eexists. eexists. eexists. eexists. eexists. eexists.
  split; [vm_compute; reflexivity|]. split; [vm_compute; reflexivity|].
  split; [vm_compute; reflexivity|]. split; [vm_compute; reflexivity|].
  split; [left; reflexivity|].
  intros b [<-|[<-|[]]]; vm_compute; discriminate.
Qed.

(* (3) torn header: crash 9 bytes into the final 24-byte header write (DataOffset and the low byte of
   DataSize are in).  The header validates, Resume truncates the file at DataOffset + 129 -- inside
   the second, acknowledged block -- and then fails: acknowledged bytes are gone. *)
Theorem torn_header_refuted :
  exists f0 start acked k t e dv,
    cs_start dec_header_canon c6_sess = Some (f0, start, acked) /\
    pt_of_units (cs_writes c6_sess start) 531 = (k, t) /\
    crash_class c6_sess start k t = CHeader /\
    cs_done c6_sess start k = 2%nat /\
    let img := image f0 (cs_writes c6_sess start) k t in
    reopen dec_header_canon KBlockstore wit_opts false [c6_root] img = inr (e, dv) /\
    blen (d_file dv) = 180 /\ blen img = 546 /\
    let lim := data_base wit_opts + ws_pos (run_puts start (cs_puts c6_sess)) in
    drop (data_base wit_opts) (take lim (d_file dv)) <> drop (data_base wit_opts) (take lim img).
Proof.
  eexists. eexists. eexists. eexists. eexists. eexists. eexists.
  split; [vm_compute; reflexivity|]. split; [vm_compute; reflexivity|].
  split; [vm_compute; reflexivity|]. split; [vm_compute; reflexivity|].
  cbv zeta.
  split; [vm_compute; reflexivity|]. split; [vm_compute; reflexivity|]. split; [vm_compute; reflexivity|].
  vm_compute. discriminate.
Qed.

(* the full statement is false (torn data) *)
Theorem crash_safe_refuted :
  ~ (forall hdrdec x f0 start acked_pre k t,
       params_ok hdrdec (cs_opts x) (cs_nil x) (cs_roots x) -> kind_ok (cs_kind x) (cs_opts x) ->
       budget (cs_opts x) (cs_nil x) (cs_roots x) [] (concat (map fst (cs_pre x)) ++ cs_puts x) ->
       cs_start hdrdec x = Some (f0, start, acked_pre) ->
       crash_safe_at hdrdec x f0 start acked_pre k t).
Proof.
  intros H.
  destruct torn_data_refuted as (f0 & start & acked & k & t & s1 & Hst & _ & _ & Hre & Hin & Hhas & Hget).
  specialize (H dec_header_canon c6_sess f0 start acked k t c6_params eq_refl c6_budget Hst).
  unfold crash_safe_at in H. cbn [cs_opts cs_kind cs_nil cs_roots c6_sess] in H. rewrite Hre in H.
  destruct H as (_ & H2 & _). exact (Hget (H2 _ Hin Hhas)).
Qed.

(* ---- non-vacuity of C06_partial / C06_header_complete -------------------------------------------- *)
(* inside the guard: a boundary (after the first put), a torn CID, a torn pragma; after the last write *)
Example partial_example :
  exists f0 start acked,
    cs_start dec_header_canon c6_sess = Some (f0, start, acked) /\
    crash_guard c6_sess start 6 0 = true /\ crash_class c6_sess start 6 0 = CBoundary /\
    crash_guard c6_sess start 4 7 = true /\ crash_class c6_sess start 4 7 = CHead /\
    crash_guard c6_sess start 0 5 = true /\ crash_class c6_sess start 0 5 = COpen /\
    crash_guard c6_sess start 5 3 = false /\
    loglen (cs_end c6_sess start) = 18%nat /\ cs_done c6_sess start 6 = 1%nat.
Proof.
  eexists. eexists. eexists. split; [vm_compute; reflexivity|].
  repeat split; vm_compute; reflexivity.
Qed.
