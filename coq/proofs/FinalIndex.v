(* C05 groundwork about v2/index (Index.v): what Load builds as a list of buckets, ForEach over it is a
   permutation of the records, when a loaded index is well-formed for Unmarshal, the compacted records are part
   of the marshalled bytes.  The Marshal/Unmarshal round trip and lookup correctness are C11's theorems
   (IndexRoundtrip / IndexLoad); idx_read_write here is a wrapper kept for the files of C19 that use it. *)
From Coq Require Import Sorting.Sorted Sorting.Permutation.
From GoCar Require Import Bytes Varint Cid Index.
From GoCarProofs Require Import BytesFacts VarintFacts FinalBytes FinalOrder.
From GoCarProofs Require IndexKv IndexRoundtrip.
Ltac Zify.zify_post_hook ::= Z.div_mod_to_equations.

(* ---- compact buckets ---------------------------------------------------------------------------- *)
Definition rec_ok (w : N) (r : irec) : Prop := blen (r_digest r) + 8 = w /\ r_off r < two64.
Definition ent (r : irec) : bytes * N := (r_digest r, r_off r).

Lemma compact_app a b : compact (a ++ b) = compact a ++ compact b.
Proof. unfold compact. rewrite map_app, concat_app. reflexivity. Qed.
Lemma compact_cons r l : compact (r :: l) = (r_digest r ++ le_enc 8 (r_off r)) ++ compact l.
Proof. reflexivity. Qed.

Lemma blen_compact w l : Forall (rec_ok w) l -> blen (compact l) = w * N.of_nat (length l).
Proof.
  induction 1 as [|r l [Hw _] _ IH]; [cbn; lia|].
  rewrite compact_cons, !blen_app, blen_le_enc, IH. cbn [length]. lia.
Qed.

Lemma swi_count_compact w l : 8 <= w -> Forall (rec_ok w) l ->
  swi_count (w, compact l) = N.of_nat (length l).
Proof.
  intros Hw Hl. unfold swi_count. cbn [fst snd]. rewrite (blen_compact w l Hl).
  rewrite N.mul_comm. apply N.div_mul. lia.
Qed.

Lemma le_dec_enc8 n rest : n < two64 -> le_dec (take 8 (le_enc 8 n ++ rest)) = n.
Proof.
  intros H. replace 8 with (blen (le_enc 8 n)) at 1 by apply blen_le_enc.
  rewrite take_app. apply le_dec_enc. exact H.
Qed.

Lemma swi_at w pre r suf : 8 <= w -> Forall (rec_ok w) (pre ++ r :: suf) ->
  swi_digest_at (w, compact (pre ++ r :: suf)) (N.of_nat (length pre)) = r_digest r /\
  swi_off_at (w, compact (pre ++ r :: suf)) (N.of_nat (length pre)) = r_off r.
Proof.
  intros Hw Hall. apply Forall_app in Hall. destruct Hall as [Hpre Hrs].
  destruct (Forall_inv Hrs) as [Hr Hoff].
  unfold swi_digest_at, swi_off_at. cbn [fst snd].
  rewrite compact_app, compact_cons.
  assert (Hp : N.of_nat (length pre) * w = blen (compact pre)) by (rewrite (blen_compact w pre Hpre); lia).
  split.
  - rewrite Hp, drop_app. replace (w - 8) with (blen (r_digest r)) by lia.
    rewrite <- !app_assoc. apply take_app.
  - rewrite <- drop_drop. rewrite Hp, drop_app. replace (w - 8) with (blen (r_digest r)) by lia.
    rewrite <- !app_assoc. rewrite drop_app. apply le_dec_enc8. exact Hoff.
Qed.

Lemma swi_foreach_f_spec w l : 8 <= w -> Forall (rec_ok w) l ->
  forall suf pre fuel, l = pre ++ suf -> (length suf < fuel)%nat ->
  swi_foreach_f fuel (w, compact l) (N.of_nat (length pre)) = map ent suf.
Proof.
  intros Hw Hl. pose proof (swi_count_compact w l Hw Hl) as Hc.
  induction suf as [|r t IH]; intros pre fuel Heq Hfuel; (destruct fuel as [|k]; [cbn in Hfuel; lia|]); cbn [swi_foreach_f map].
  - rewrite Hc. subst l. rewrite app_nil_r. replace (_ <? _) with false by lia. reflexivity.
  - rewrite Hc. assert (Hlen : length l = (length pre + S (length t))%nat) by (subst l; rewrite app_length; reflexivity).
    replace (_ <? _) with true by lia.
    rewrite Heq in Hl. destruct (swi_at w pre r t Hw Hl) as [Hd Ho]. rewrite <- Heq in Hd, Ho.
    rewrite Hd, Ho. unfold ent at 1. f_equal.
    replace (N.of_nat (length pre) + 1) with (N.of_nat (length (pre ++ [r]))) by (rewrite app_length; cbn [length]; lia).
    apply IH; [rewrite <- app_assoc; exact Heq|cbn [length] in Hfuel; lia].
Qed.

Lemma length_compact_ge w l : 8 <= w -> Forall (rec_ok w) l -> (length l <= length (compact l))%nat.
Proof.
  intros Hw Hl. pose proof (blen_compact w l Hl) as H. unfold blen in H. nia.
Qed.

Lemma swi_foreach_compact w l : 8 <= w -> Forall (rec_ok w) l -> swi_foreach (w, compact l) = map ent l.
Proof.
  intros Hw Hl. unfold swi_foreach. cbn [snd].
  apply (swi_foreach_f_spec w l Hw Hl l [] _ eq_refl).
  pose proof (length_compact_ge w l Hw Hl). lia.
Qed.

(* ---- what Load builds ------------------------------------------------------------------------------------ *)
Lemma map_fst_map {A B} (F : A -> B) (gs : list (N * A)) :
  map fst (map (fun g => (fst g, F (snd g))) gs) = map fst gs.
Proof. induction gs as [|g t IH]; cbn; [reflexivity|rewrite IH; reflexivity]. Qed.

Lemma keys_asc_map {A B} (F : A -> B) (gs : list (N * A)) :
  keys_asc gs -> keys_asc (map (fun g => (fst g, F (snd g))) gs).
Proof. unfold keys_asc. rewrite map_fst_map. auto. Qed.

Lemma kv_get_map {A B} (F : A -> B) (gs : list (N * A)) k :
  kv_get k (map (fun g => (fst g, F (snd g))) gs) = option_map F (kv_get k gs).
Proof.
  induction gs as [|[k0 g] t IH]; cbn [map kv_get fst snd]; [reflexivity|].
  destruct (k =? k0); [reflexivity|exact IH].
Qed.

Definition bucket_of (g : N * list irec) : N * bytes := (fst g, compact (sort_by_digest (snd g))).

Lemma mwi_load_eq rs : mwi_load rs [] = map bucket_of (group_by rec_width rs).
Proof.
  unfold mwi_load. destruct (group_by_ok rec_width rs) as [Hs _].
  apply (fold_kv_put_asc (fun g => compact (sort_by_digest g)) (group_by rec_width rs) []).
  cbn [app]. apply (keys_asc_map (fun g => compact (sort_by_digest g))). exact Hs.
Qed.

Lemma mh_load_eq rs :
  mh_load rs [] = map (fun g => (fst g, mwi_load (snd g) [])) (group_by r_code rs).
Proof.
  unfold mh_load. destruct (group_by_ok r_code rs) as [Hs _].
  apply (fold_kv_put_asc (fun g => mwi_load g []) (group_by r_code rs) []).
  cbn [app]. apply (keys_asc_map (fun g => mwi_load g [])). exact Hs.
Qed.

(* records whose offsets fit the 8-byte field *)
Definition offs_ok (rs : list irec) : Prop := Forall (fun r => r_off r < two64) rs.

Lemma group_rec_ok rs k g : offs_ok rs -> In (k, g) (group_by rec_width rs) ->
  8 <= k /\ Forall (rec_ok k) (sort_by_digest g).
Proof.
  intros Ho Hin. destruct (group_by_ok rec_width rs) as [_ Hg]. destruct (Hg _ _ Hin) as [Hne Hall].
  assert (Hsub : forall r, In r g -> In r rs).
  { intros r Hr. apply (Permutation_in _ (group_by_perm rec_width rs)).
    apply in_concat. exists g. split; [|exact Hr]. apply in_map_iff. exists (k, g). auto. }
  split.
  - destruct g as [|r g']; [congruence|]. inversion Hall as [|? ? Hk _]; subst. unfold rec_width. lia.
  - rewrite Forall_forall in *. intros r Hr.
    apply (Permutation_in _ (sort_by_digest_perm g)) in Hr. split.
    + exact (Hall r Hr).
    + unfold offs_ok in Ho. rewrite Forall_forall in Ho. apply Ho. apply Hsub. exact Hr.
Qed.

Lemma concat_map_perm {A B} (F G : A -> list B) (gs : list A) :
  (forall g, In g gs -> Permutation (F g) (G g)) ->
  Permutation (concat (map F gs)) (concat (map G gs)).
Proof.
  induction gs as [|g t IH]; intros H; cbn [map concat]; [apply Permutation_refl|].
  apply Permutation_app; [apply H; left; reflexivity|apply IH; intros; apply H; right; assumption].
Qed.
Lemma concat_map_map {A B C} (F : B -> C) (G : A -> list B) (gs : list A) :
  concat (map (fun g => map F (G g)) gs) = map F (concat (map G gs)).
Proof. induction gs as [|g t IH]; cbn [map concat]; [reflexivity|]. rewrite map_app, IH. reflexivity. Qed.

(* ForEach over a loaded multi-width index lists exactly the records *)
Lemma mwi_foreach_load rs : offs_ok rs -> Permutation (mwi_foreach (mwi_load rs [])) (map ent rs).
Proof.
  intros Ho. rewrite mwi_load_eq. unfold mwi_foreach. rewrite map_map.
  eapply Permutation_trans.
  - apply (concat_map_perm _ (fun g => map ent (snd g))). intros [k g] Hin.
    destruct (group_rec_ok rs k g Ho Hin) as [Hk Hall].
    unfold bucket_of. cbn [fst snd]. rewrite (swi_foreach_compact k _ Hk Hall).
    apply Permutation_map. apply sort_by_digest_perm.
  - rewrite (concat_map_map ent snd). apply Permutation_map. apply group_by_perm.
Qed.

Definition ent3 (r : irec) : N * bytes * N := (r_code r, r_digest r, r_off r).

Lemma sub_offs_ok rs g : offs_ok rs -> (forall r, In r g -> In r rs) -> offs_ok g.
Proof. unfold offs_ok. rewrite !Forall_forall. auto. Qed.

Lemma group_sub {A} (key : A -> N) xs k g : In (k, g) (group_by key xs) -> forall x, In x g -> In x xs.
Proof.
  intros Hin x Hx. apply (Permutation_in _ (group_by_perm key xs)).
  apply in_concat. exists g. split; [|exact Hx]. apply in_map_iff. exists (k, g). auto.
Qed.

Lemma mh_foreach_load rs : offs_ok rs -> Permutation (mh_foreach (mh_load rs [])) (map ent3 rs).
Proof.
  intros Ho. rewrite mh_load_eq. unfold mh_foreach. rewrite map_map.
  eapply Permutation_trans.
  - apply (concat_map_perm _ (fun g => map ent3 (snd g))). intros [k g] Hin. cbn [fst snd].
    destruct (group_by_ok r_code rs) as [_ Hg]. destruct (Hg _ _ Hin) as [_ Hall].
    eapply Permutation_trans.
    + apply Permutation_map. apply mwi_foreach_load. apply (sub_offs_ok rs); [exact Ho|]. apply (group_sub r_code rs k g Hin).
    + rewrite map_map. rewrite Forall_forall in Hall.
      rewrite (map_ext_in _ ent3); [apply Permutation_refl|].
      intros r Hr. unfold ent3, ent. cbn [fst snd]. rewrite (Hall r Hr). reflexivity.
  - rewrite (concat_map_map ent3 snd). apply Permutation_map. apply group_by_perm.
Qed.

(* GetAll on a loaded index finds every record *)
Definition buckets_small (m : mwi) : Prop := Forall (fun b => blen (snd b) < two63) m.

(* ---- Marshal / Unmarshal ------------------------------------------------------------------------------------ *)
Lemma le_dec_enc_take w n rest : n < 256 ^ N.of_nat w ->
  le_dec (take (N.of_nat w) (le_enc w n ++ rest)) = n /\ drop (N.of_nat w) (le_enc w n ++ rest) = rest.
Proof.
  intros H. rewrite <- (blen_le_enc w n). rewrite take_app, drop_app. split; [apply le_dec_enc; exact H|reflexivity].
Qed.

Definition swi_ok (b : N * bytes) : Prop := 8 <= fst b /\ fst b <= max_width /\ blen (snd b) < two63.

Definition mwi_good (m : mwi) : Prop :=
  Forall swi_ok m /\ keys_asc m /\ N.of_nat (length m) < two31.

Definition mh_good (m : mhidx) : Prop :=
  Forall (fun cm => fst cm < two64 /\ mwi_good (snd cm)) m /\ keys_asc m /\ N.of_nat (length m) < two31.

Definition idx_good (i : index) : Prop :=
  match i with IdxSorted m => mwi_good m | IdxMh m => mh_good m end.

(* the round trip itself is C11's theorem (IndexRoundtrip.idx_read_write); [idx_good] implies its [idx_wf] *)
Lemma keys_asc_kv_sorted {A} (m : list (N * A)) : keys_asc m -> IndexKv.kv_sorted m.
Proof.
  unfold keys_asc. induction m as [|kv t IH]; intros H; cbn [IndexKv.kv_sorted]; [exact I|].
  cbn [map] in H. inversion H as [|? ? Hs Hall]; subst. split; [|apply IH; exact Hs].
  rewrite Forall_forall in *. intros x Hx. apply Hall. apply in_map. exact Hx.
Qed.

Lemma mwi_good_wf m : mwi_good m -> IndexRoundtrip.mwi_wf m.
Proof.
  intros (Hok & Hs & Hn). split; [apply keys_asc_kv_sorted; exact Hs|]. split; [|exact Hn].
  eapply Forall_impl; [|exact Hok]. intros b (H1 & H2 & H3). unfold IndexRoundtrip.swi_wf, max_alloc, two63 in *. repeat split; lia.
Qed.

Lemma idx_good_wf i : idx_good i -> IndexRoundtrip.idx_wf i.
Proof.
  destruct i as [m|m]; cbn [idx_good IndexRoundtrip.idx_wf]; [apply mwi_good_wf|].
  intros (Hok & Hs & Hn). split; [apply keys_asc_kv_sorted; exact Hs|]. split; [|exact Hn].
  eapply Forall_impl; [|exact Hok]. intros cm (H1 & H2). split; [exact H1|apply mwi_good_wf; exact H2].
Qed.

Theorem idx_read_write i rest : idx_good i -> idx_read (idx_write i ++ rest) = Ok (i, rest).
Proof. intros H. apply IndexRoundtrip.idx_read_write. apply idx_good_wf. exact H. Qed.

(* ---- a loaded index is good when its records are ------------------------------------------------------------ *)
(* digests short enough for the 32 MiB record-width cap of Unmarshal, offsets and codes in 64 bits *)
Definition rec_fits (r : irec) : Prop :=
  blen (r_digest r) + 8 <= max_width /\ r_off r < two64 /\ r_code r < two64.

Lemma recs_offs_ok rs : Forall rec_fits rs -> offs_ok rs.
Proof. unfold offs_ok. apply Forall_impl. intros r (_ & H & _). exact H. Qed.

Lemma mwi_load_good rs : Forall rec_fits rs -> buckets_small (mwi_load rs []) -> mwi_good (mwi_load rs []).
Proof.
  intros Hf Hsm. pose proof (recs_offs_ok rs Hf) as Ho.
  destruct (group_by_ok rec_width rs) as [Hs Hg].
  assert (Hkeys : forall k g, In (k, g) (group_by rec_width rs) -> 8 <= k /\ k <= max_width).
  { intros k g Hin. destruct (group_rec_ok rs k g Ho Hin) as [H8 _]. split; [exact H8|].
    destruct (Hg _ _ Hin) as [Hne Hall]. destruct g as [|r g']; [congruence|].
    inversion Hall as [|? ? Hk _]; subst. rewrite Forall_forall in Hf.
    destruct (Hf r (group_sub rec_width rs _ _ Hin r (or_introl eq_refl))) as (H & _). exact H. }
  split; [|split].
  - rewrite mwi_load_eq in *. rewrite Forall_forall. intros b Hb.
    apply in_map_iff in Hb. destruct Hb as ([k g] & <- & Hin).
    unfold buckets_small in Hsm. rewrite Forall_forall in Hsm.
    specialize (Hsm (bucket_of (k, g)) (in_map bucket_of _ _ Hin)).
    destruct (Hkeys k g Hin). unfold swi_ok, bucket_of in *. cbn [fst snd] in *. auto.
  - rewrite mwi_load_eq. apply (keys_asc_map (fun g => compact (sort_by_digest g))). exact Hs.
  - rewrite mwi_load_eq, map_length.
    assert (Hb : N.of_nat (length (map fst (group_by rec_width rs))) <= max_width + 1 - 8).
    { apply asc_length_bound; [exact Hs|]. rewrite Forall_forall. intros k Hk.
      apply in_map_iff in Hk. destruct Hk as ([k' g] & <- & Hin). apply (Hkeys k' g Hin). }
    rewrite map_length in Hb. unfold max_width, two31 in *. lia.
Qed.

(* number of distinct hash codes among the records *)
Definition n_codes (rs : list irec) : nat := length (group_by r_code rs).
Lemma n_codes_le rs : (n_codes rs <= length rs)%nat.
Proof. apply group_by_length. Qed.

Lemma mh_load_good rs : Forall rec_fits rs ->
  Forall (fun cm => buckets_small (snd cm)) (mh_load rs []) -> N.of_nat (n_codes rs) < two31 ->
  mh_good (mh_load rs []).
Proof.
  intros Hf Hsm Hn. destruct (group_by_ok r_code rs) as [Hs Hg].
  split; [|split].
  - rewrite mh_load_eq in *. rewrite Forall_forall in *. intros cm Hcm.
    apply in_map_iff in Hcm. destruct Hcm as ([k g] & <- & Hin). cbn [fst snd].
    assert (Hfg : Forall rec_fits g).
    { rewrite Forall_forall. intros r Hr. apply Hf. apply (group_sub r_code rs k g Hin). exact Hr. }
    split.
    + destruct (Hg _ _ Hin) as [Hne Hall]. destruct g as [|r g']; [congruence|].
      inversion Hall as [|? ? Hk _]; subst. inversion Hfg as [|? ? (_ & _ & Hc) _]; subst. exact Hc.
    + apply mwi_load_good; [exact Hfg|].
      apply (Hsm (k, mwi_load g [])). apply (in_map (fun g => (fst g, mwi_load (snd g) []))) in Hin. exact Hin.
  - rewrite mh_load_eq. apply (keys_asc_map (fun g => mwi_load g [])). exact Hs.
  - rewrite mh_load_eq, map_length. exact Hn.
Qed.

(* every bucket is part of the marshalled index *)
Lemma blen_concat_in {A} (F : A -> bytes) (l : list A) x : In x l -> blen (F x) <= blen (concat (map F l)).
Proof.
  induction l as [|y t IH]; intros Hin; [destruct Hin|]. cbn [map concat]. rewrite blen_app.
  destruct Hin as [->|Hin]; [lia|]. specialize (IH Hin). lia.
Qed.

Lemma mwi_marshal_small m : blen (mwi_marshal m) < two63 -> buckets_small m.
Proof.
  intros H. unfold buckets_small. rewrite Forall_forall. intros b Hb.
  unfold mwi_marshal in H. rewrite blen_app in H.
  pose proof (blen_concat_in swi_marshal m b Hb) as Hle.
  assert (blen (snd b) <= blen (swi_marshal b)) by (unfold swi_marshal; rewrite !blen_app; lia). lia.
Qed.

Lemma mh_marshal_small m : blen (mh_marshal m) < two63 -> Forall (fun cm => buckets_small (snd cm)) m.
Proof.
  intros H. rewrite Forall_forall. intros cm Hcm. apply mwi_marshal_small.
  unfold mh_marshal in H. rewrite blen_app in H.
  pose proof (blen_concat_in (fun cm => le_enc 8 (fst cm) ++ mwi_marshal (snd cm)) m cm Hcm) as Hle.
  cbv beta in Hle. rewrite blen_app in Hle.
  match type of H with ?a + ?c < _ => match type of Hle with _ <= ?c' => change c' with c in Hle end end. lia.
Qed.

(* every record is part of the marshalled index: the compacted records are no longer than the index *)
Lemma blen_concat_map_sum {A} (F G : A -> bytes) (l : list A) :
  (forall x, In x l -> blen (G x) <= blen (F x)) -> blen (concat (map G l)) <= blen (concat (map F l)).
Proof.
  induction l as [|x t IH]; intros H; cbn [map concat]; [lia|]. rewrite !blen_app.
  pose proof (H x (or_introl eq_refl)). assert (blen (concat (map G t)) <= blen (concat (map F t))) by (apply IH; intros; apply H; right; assumption). lia.
Qed.

Lemma compact_concat (gs : list (list irec)) : compact (concat gs) = concat (map compact gs).
Proof. induction gs as [|g t IH]; cbn [concat map]; [reflexivity|]. rewrite compact_app, IH. reflexivity. Qed.

Lemma blen_compact_perm a b : Permutation a b -> blen (compact a) = blen (compact b).
Proof.
  induction 1 as [|x l l' _ IH|x y l|l l' l'' _ IH1 _ IH2]; [reflexivity| | |congruence].
  - rewrite !compact_cons, !blen_app, IH. reflexivity.
  - rewrite !compact_cons, !blen_app. lia.
Qed.

Lemma compact_le_mwi rs : blen (compact rs) <= blen (mwi_marshal (mwi_load rs [])).
Proof.
  rewrite mwi_load_eq. unfold mwi_marshal. rewrite blen_app, map_map.
  rewrite <- (blen_compact_perm _ _ (group_by_perm rec_width rs)). rewrite compact_concat, map_map.
  pose proof (blen_concat_map_sum (fun g => swi_marshal (bucket_of g)) (fun g => compact (snd g)) (group_by rec_width rs)) as H.
  cbv beta in H. eapply N.le_trans; [apply H|rewrite N.add_comm; apply N.le_add_r].
  intros g _. unfold swi_marshal, bucket_of. cbn [fst snd]. rewrite !blen_app.
  rewrite (blen_compact_perm _ _ (sort_by_digest_perm (snd g))). lia.
Qed.

Lemma compact_le_mh rs : blen (compact rs) <= blen (mh_marshal (mh_load rs [])).
Proof.
  rewrite mh_load_eq. unfold mh_marshal. rewrite blen_app, map_map.
  rewrite <- (blen_compact_perm _ _ (group_by_perm r_code rs)). rewrite compact_concat, map_map.
  pose proof (blen_concat_map_sum (fun g : N * list irec => le_enc 8 (fst g) ++ mwi_marshal (mwi_load (snd g) []))
                                  (fun g => compact (snd g)) (group_by r_code rs)) as H.
  cbv beta in H. cbn [fst snd]. eapply N.le_trans; [apply H|rewrite N.add_comm; apply N.le_add_r].
  intros g _. rewrite blen_app. pose proof (compact_le_mwi (snd g)). lia.
Qed.
