(* C05 groundwork about v2/index (Index.v): what Load builds, ForEach and GetAll on it,
   Marshal / Unmarshal round trip.  (Lookup correctness = sortedness + sort.Search.) *)
From Coq Require Import Sorting.Sorted Sorting.Permutation.
From GoCar Require Import Bytes Varint Cid Index.
From GoCarProofs Require Import BytesFacts VarintFacts FinalBytes FinalOrder.
Ltac Zify.zify_post_hook ::= Z.div_mod_to_equations.

(* ---- compact buckets ---------------------------------------------------------------------------- *)
Definition rec_ok (w : N) (r : irec) : Prop := blen (r_digest r) + 8 = w /\ r_off r < two64.
Definition ent (r : irec) : bytes * N := (r_digest r, r_off r).

Lemma compact_app a b : compact (a ++ b) = compact a ++ compact b.
Proof. unfold compact. rewrite map_app, concat_app. reflexivity. Qed.
Lemma compact_cons r l : compact (r :: l) = (r_digest r ++ le_enc 8 (r_off r)) ++ compact l.
Proof. reflexivity. Qed.

Lemma blen_compact w l : Forall (rec_ok w) l -> blen (compact l) = w * N.of_nat (length l).
Proof.
  induction 1 as [|r l [Hw _] _ IH]; [cbn; lia|].
  rewrite compact_cons, !blen_app, blen_le_enc, IH. cbn [length]. lia.
Qed.

Lemma swi_count_compact w l : 8 <= w -> Forall (rec_ok w) l ->
  swi_count (w, compact l) = N.of_nat (length l).
Proof.
  intros Hw Hl. unfold swi_count. cbn [fst snd]. rewrite (blen_compact w l Hl).
  rewrite N.mul_comm. apply N.div_mul. lia.
Qed.

Lemma le_dec_enc8 n rest : n < two64 -> le_dec (take 8 (le_enc 8 n ++ rest)) = n.
Proof.
  intros H. replace 8 with (blen (le_enc 8 n)) at 1 by apply blen_le_enc.
  rewrite take_app. apply le_dec_enc. exact H.
Qed.

Lemma swi_at w pre r suf : 8 <= w -> Forall (rec_ok w) (pre ++ r :: suf) ->
  swi_digest_at (w, compact (pre ++ r :: suf)) (N.of_nat (length pre)) = r_digest r /\
  swi_off_at (w, compact (pre ++ r :: suf)) (N.of_nat (length pre)) = r_off r.
Proof.
  intros Hw Hall. apply Forall_app in Hall. destruct Hall as [Hpre Hrs].
  destruct (Forall_inv Hrs) as [Hr Hoff].
  unfold swi_digest_at, swi_off_at. cbn [fst snd].
  rewrite compact_app, compact_cons.
  assert (Hp : N.of_nat (length pre) * w = blen (compact pre)) by (rewrite (blen_compact w pre Hpre); lia).
  split.
  - rewrite Hp, drop_app. replace (w - 8) with (blen (r_digest r)) by lia.
    rewrite <- !app_assoc. apply take_app.
  - rewrite <- drop_drop. rewrite Hp, drop_app. replace (w - 8) with (blen (r_digest r)) by lia.
    rewrite <- !app_assoc. rewrite drop_app. apply le_dec_enc8. exact Hoff.
Qed.

Lemma swi_foreach_f_spec w l : 8 <= w -> Forall (rec_ok w) l ->
  forall suf pre fuel, l = pre ++ suf -> (length suf < fuel)%nat ->
  swi_foreach_f fuel (w, compact l) (N.of_nat (length pre)) = map ent suf.
Proof.
  intros Hw Hl. pose proof (swi_count_compact w l Hw Hl) as Hc.
  induction suf as [|r t IH]; intros pre fuel Heq Hfuel; (destruct fuel as [|k]; [cbn in Hfuel; lia|]); cbn [swi_foreach_f map].
  - rewrite Hc. subst l. rewrite app_nil_r. replace (_ <? _) with false by lia. reflexivity.
  - rewrite Hc. assert (Hlen : length l = (length pre + S (length t))%nat) by (subst l; rewrite app_length; reflexivity).
    replace (_ <? _) with true by lia.
    rewrite Heq in Hl. destruct (swi_at w pre r t Hw Hl) as [Hd Ho]. rewrite <- Heq in Hd, Ho.
    rewrite Hd, Ho. unfold ent at 1. f_equal.
    replace (N.of_nat (length pre) + 1) with (N.of_nat (length (pre ++ [r]))) by (rewrite app_length; cbn [length]; lia).
    apply IH; [rewrite <- app_assoc; exact Heq|cbn [length] in Hfuel; lia].
Qed.

Lemma length_compact_ge w l : 8 <= w -> Forall (rec_ok w) l -> (length l <= length (compact l))%nat.
Proof.
  intros Hw Hl. pose proof (blen_compact w l Hl) as H. unfold blen in H. nia.
Qed.

Lemma swi_foreach_compact w l : 8 <= w -> Forall (rec_ok w) l -> swi_foreach (w, compact l) = map ent l.
Proof.
  intros Hw Hl. unfold swi_foreach. cbn [snd].
  apply (swi_foreach_f_spec w l Hw Hl l [] _ eq_refl).
  pose proof (length_compact_ge w l Hw Hl). lia.
Qed.

(* ---- GetAll on a sorted bucket finds every record with that digest ----------------------------------- *)
Lemma sorted_nth {A} (R : A -> A -> Prop) (d : A) l : StronglySorted R l ->
  forall a b, (a < b)%nat -> (b < length l)%nat -> R (nth a l d) (nth b l d).
Proof.
  induction 1 as [|x t Ht IH Hx]; intros a b Hab Hb; [cbn in Hb; lia|].
  destruct b as [|b']; [lia|]. cbn [length] in Hb. destruct a as [|a']; cbn [nth].
  - rewrite Forall_forall in Hx. apply Hx. apply nth_In. lia.
  - apply IH; lia.
Qed.

Lemma swi_at_nth w l d0 i : 8 <= w -> Forall (rec_ok w) l -> (i < length l)%nat ->
  swi_digest_at (w, compact l) (N.of_nat i) = r_digest (nth i l d0) /\
  swi_off_at (w, compact l) (N.of_nat i) = r_off (nth i l d0).
Proof.
  intros Hw Hl Hi. destruct (nth_split l d0 Hi) as (pre & suf & Heq & Hlen).
  rewrite Heq in Hl. pose proof (swi_at w pre (nth i l d0) suf Hw Hl) as H.
  rewrite <- Heq, Hlen in H. exact H.
Qed.

Lemma swi_scan_eq_hits b d : forall fuel i j, i <= j -> j < swi_count b -> (N.to_nat (j - i) < fuel)%nat ->
  (forall a, i <= a -> a <= j -> swi_digest_at b a = d) -> In (swi_off_at b j) (swi_scan_eq fuel b d i).
Proof.
  induction fuel as [|k IH]; intros i j Hij Hj Hfuel Hall; [lia|]. cbn [swi_scan_eq].
  replace (i <? swi_count b) with true by lia.
  rewrite (Hall i) by lia. rewrite bytes_eqb_refl.
  destruct (N.eq_dec i j) as [->|Hne]; [left; reflexivity|].
  right. apply IH; try lia. intros a H1 H2. apply Hall; lia.
Qed.

Lemma swi_getall_complete w l r : 8 <= w -> Forall (rec_ok w) l -> StronglySorted dle l ->
  blen (compact l) < two63 -> In r l -> In (r_off r) (swi_getall (w, compact l) (r_digest r)).
Proof.
  intros Hw Hl Hs Hsmall Hin.
  set (b := (w, compact l)). set (d := r_digest r). set (n := length l).
  assert (Hc : swi_count b = N.of_nat n) by (apply swi_count_compact; assumption).
  assert (Hnle : (n <= length (compact l))%nat) by (apply (length_compact_ge w); assumption).
  assert (Hdg : forall i, (i < n)%nat -> swi_digest_at b (N.of_nat i) = r_digest (nth i l r)).
  { intros i Hi. apply (swi_at_nth w l r i Hw Hl Hi). }
  assert (Hle : forall i j, (i <= j)%nat -> (j < n)%nat ->
                bytes_leb (swi_digest_at b (N.of_nat i)) (swi_digest_at b (N.of_nat j)) = true).
  { intros i j Hij Hj. rewrite !Hdg by lia. destruct (Nat.eq_dec i j) as [->|Hne]; [apply bytes_leb_refl|].
    apply (sorted_nth dle r l Hs i j); lia. }
  set (f := fun i => bytes_leb d (swi_digest_at b i)).
  assert (Hmono : forall a c, a <= c -> c < N.of_nat n -> f a = true -> f c = true).
  { intros a c Hac Hcn Hfa. unfold f in *. eapply bytes_leb_trans; [exact Hfa|].
    replace a with (N.of_nat (N.to_nat a)) by lia. replace c with (N.of_nat (N.to_nat c)) by lia.
    apply Hle; lia. }
  assert (Hn70 : N.of_nat n < 2 ^ 70).
  { unfold two63, blen in Hsmall. change (2 ^ 70) with 1180591620717411303424. lia. }
  destruct (sort_search_spec (N.of_nat n) f Hn70 Hmono) as (Hr & Hlo & Hhi).
  unfold swi_getall. cbv zeta. rewrite Hc. change (fun i : N => bytes_leb d (swi_digest_at b i)) with f.
  set (idx := sort_search (N.of_nat n) f) in *.
  destruct (In_nth l r r Hin) as (j & Hj & Hnth). fold n in Hj.
  assert (Hfj : f (N.of_nat j) = true).
  { unfold f. rewrite Hdg by exact Hj. rewrite Hnth. apply bytes_leb_refl. }
  assert (Hidxj : idx <= N.of_nat j).
  { destruct (N.of_nat j <? idx) eqn:E; [|lia]. rewrite Hlo in Hfj by lia. discriminate. }
  destruct (swi_at_nth w l r j Hw Hl Hj) as [Hdj Hoj]. fold b in Hdj, Hoj. rewrite Hnth in Hdj, Hoj.
  rewrite <- Hoj. apply swi_scan_eq_hits; try lia.
  - cbn [snd b]. unfold b. cbn [snd]. lia.
  - intros a Ha1 Ha2. apply bytes_leb_antisym.
    + unfold d. rewrite <- Hdj. replace a with (N.of_nat (N.to_nat a)) by lia. apply Hle; lia.
    + apply Hhi; lia.
Qed.

(* ---- what Load builds ------------------------------------------------------------------------------------ *)
Lemma map_fst_map {A B} (F : A -> B) (gs : list (N * A)) :
  map fst (map (fun g => (fst g, F (snd g))) gs) = map fst gs.
Proof. induction gs as [|g t IH]; cbn; [reflexivity|rewrite IH; reflexivity]. Qed.

Lemma keys_asc_map {A B} (F : A -> B) (gs : list (N * A)) :
  keys_asc gs -> keys_asc (map (fun g => (fst g, F (snd g))) gs).
Proof. unfold keys_asc. rewrite map_fst_map. auto. Qed.

Lemma kv_get_map {A B} (F : A -> B) (gs : list (N * A)) k :
  kv_get k (map (fun g => (fst g, F (snd g))) gs) = option_map F (kv_get k gs).
Proof.
  induction gs as [|[k0 g] t IH]; cbn [map kv_get fst snd]; [reflexivity|].
  destruct (k =? k0); [reflexivity|exact IH].
Qed.

Definition bucket_of (g : N * list irec) : N * bytes := (fst g, compact (sort_by_digest (snd g))).

Lemma mwi_load_eq rs : mwi_load rs [] = map bucket_of (group_by rec_width rs).
Proof.
  unfold mwi_load. destruct (group_by_ok rec_width rs) as [Hs _].
  apply (fold_kv_put_asc (fun g => compact (sort_by_digest g)) (group_by rec_width rs) []).
  cbn [app]. apply (keys_asc_map (fun g => compact (sort_by_digest g))). exact Hs.
Qed.

Lemma mh_load_eq rs :
  mh_load rs [] = map (fun g => (fst g, mwi_load (snd g) [])) (group_by r_code rs).
Proof.
  unfold mh_load. destruct (group_by_ok r_code rs) as [Hs _].
  apply (fold_kv_put_asc (fun g => mwi_load g []) (group_by r_code rs) []).
  cbn [app]. apply (keys_asc_map (fun g => mwi_load g [])). exact Hs.
Qed.

(* records whose offsets fit the 8-byte field *)
Definition offs_ok (rs : list irec) : Prop := Forall (fun r => r_off r < two64) rs.

Lemma group_rec_ok rs k g : offs_ok rs -> In (k, g) (group_by rec_width rs) ->
  8 <= k /\ Forall (rec_ok k) (sort_by_digest g).
Proof.
  intros Ho Hin. destruct (group_by_ok rec_width rs) as [_ Hg]. destruct (Hg _ _ Hin) as [Hne Hall].
  assert (Hsub : forall r, In r g -> In r rs).
  { intros r Hr. apply (Permutation_in _ (group_by_perm rec_width rs)).
    apply in_concat. exists g. split; [|exact Hr]. apply in_map_iff. exists (k, g). auto. }
  split.
  - destruct g as [|r g']; [congruence|]. inversion Hall as [|? ? Hk _]; subst. unfold rec_width. lia.
  - rewrite Forall_forall in *. intros r Hr.
    apply (Permutation_in _ (sort_by_digest_perm g)) in Hr. split.
    + exact (Hall r Hr).
    + unfold offs_ok in Ho. rewrite Forall_forall in Ho. apply Ho. apply Hsub. exact Hr.
Qed.

Lemma concat_map_perm {A B} (F G : A -> list B) (gs : list A) :
  (forall g, In g gs -> Permutation (F g) (G g)) ->
  Permutation (concat (map F gs)) (concat (map G gs)).
Proof.
  induction gs as [|g t IH]; intros H; cbn [map concat]; [apply Permutation_refl|].
  apply Permutation_app; [apply H; left; reflexivity|apply IH; intros; apply H; right; assumption].
Qed.
Lemma concat_map_map {A B C} (F : B -> C) (G : A -> list B) (gs : list A) :
  concat (map (fun g => map F (G g)) gs) = map F (concat (map G gs)).
Proof. induction gs as [|g t IH]; cbn [map concat]; [reflexivity|]. rewrite map_app, IH. reflexivity. Qed.

(* ForEach over a loaded multi-width index lists exactly the records *)
Lemma mwi_foreach_load rs : offs_ok rs -> Permutation (mwi_foreach (mwi_load rs [])) (map ent rs).
Proof.
  intros Ho. rewrite mwi_load_eq. unfold mwi_foreach. rewrite map_map.
  eapply Permutation_trans.
  - apply (concat_map_perm _ (fun g => map ent (snd g))). intros [k g] Hin.
    destruct (group_rec_ok rs k g Ho Hin) as [Hk Hall].
    unfold bucket_of. cbn [fst snd]. rewrite (swi_foreach_compact k _ Hk Hall).
    apply Permutation_map. apply sort_by_digest_perm.
  - rewrite (concat_map_map ent snd). apply Permutation_map. apply group_by_perm.
Qed.

Definition ent3 (r : irec) : N * bytes * N := (r_code r, r_digest r, r_off r).

Lemma sub_offs_ok rs g : offs_ok rs -> (forall r, In r g -> In r rs) -> offs_ok g.
Proof. unfold offs_ok. rewrite !Forall_forall. auto. Qed.

Lemma group_sub {A} (key : A -> N) xs k g : In (k, g) (group_by key xs) -> forall x, In x g -> In x xs.
Proof.
  intros Hin x Hx. apply (Permutation_in _ (group_by_perm key xs)).
  apply in_concat. exists g. split; [|exact Hx]. apply in_map_iff. exists (k, g). auto.
Qed.

Lemma mh_foreach_load rs : offs_ok rs -> Permutation (mh_foreach (mh_load rs [])) (map ent3 rs).
Proof.
  intros Ho. rewrite mh_load_eq. unfold mh_foreach. rewrite map_map.
  eapply Permutation_trans.
  - apply (concat_map_perm _ (fun g => map ent3 (snd g))). intros [k g] Hin. cbn [fst snd].
    destruct (group_by_ok r_code rs) as [_ Hg]. destruct (Hg _ _ Hin) as [_ Hall].
    eapply Permutation_trans.
    + apply Permutation_map. apply mwi_foreach_load. apply (sub_offs_ok rs); [exact Ho|]. apply (group_sub r_code rs k g Hin).
    + rewrite map_map. rewrite Forall_forall in Hall.
      rewrite (map_ext_in _ ent3); [apply Permutation_refl|].
      intros r Hr. unfold ent3, ent. cbn [fst snd]. rewrite (Hall r Hr). reflexivity.
  - rewrite (concat_map_map ent3 snd). apply Permutation_map. apply group_by_perm.
Qed.

(* GetAll on a loaded index finds every record *)
Definition buckets_small (m : mwi) : Prop := Forall (fun b => blen (snd b) < two63) m.

Lemma mwi_getall_load rs r : offs_ok rs -> buckets_small (mwi_load rs []) -> In r rs ->
  In (r_off r) (mwi_getall (mwi_load rs []) (r_digest r)).
Proof.
  intros Ho Hsm Hin. unfold mwi_getall. rewrite mwi_load_eq in *.
  unfold bucket_of at 1. rewrite (kv_get_map (fun g => compact (sort_by_digest g))).
  destruct (group_by_find rec_width rs r Hin) as (g & Hget & Hrg).
  unfold rec_width in Hget at 1. rewrite Hget. cbn [option_map].
  destruct (group_by_ok rec_width rs) as [Hs _].
  apply (kv_get_in _ Hs) in Hget.
  destruct (group_rec_ok rs _ g Ho Hget) as [Hk Hall].
  apply swi_getall_complete; try assumption.
  - apply sort_by_digest_sorted.
  - unfold buckets_small in Hsm. rewrite Forall_forall in Hsm.
    apply (Hsm (bucket_of (blen (r_digest r) + 8, g))). apply in_map. exact Hget.
  - apply (Permutation_in _ (Permutation_sym (sort_by_digest_perm g))). exact Hrg.
Qed.

Lemma mh_getall_load rs r : offs_ok rs ->
  Forall (fun cm => buckets_small (snd cm)) (mh_load rs []) -> In r rs ->
  In (r_off r) (mh_getall (mh_load rs []) (r_code r) (r_digest r)).
Proof.
  intros Ho Hsm Hin. unfold mh_getall. rewrite mh_load_eq in *.
  rewrite (kv_get_map (fun g => mwi_load g [])).
  destruct (group_by_find r_code rs r Hin) as (g & Hget & Hrg). rewrite Hget. cbn [option_map].
  destruct (group_by_ok r_code rs) as [Hs _]. apply (kv_get_in _ Hs) in Hget.
  apply mwi_getall_load; [apply (sub_offs_ok rs); [exact Ho|apply (group_sub r_code rs _ g Hget)]| |exact Hrg].
  rewrite Forall_forall in Hsm. apply (Hsm (r_code r, mwi_load g [])).
  apply (in_map (fun g => (fst g, mwi_load (snd g) []))) in Hget. exact Hget.
Qed.

(* ---- Marshal / Unmarshal ------------------------------------------------------------------------------------ *)
Lemma le_dec_enc_take w n rest : n < 256 ^ N.of_nat w ->
  le_dec (take (N.of_nat w) (le_enc w n ++ rest)) = n /\ drop (N.of_nat w) (le_enc w n ++ rest) = rest.
Proof.
  intros H. rewrite <- (blen_le_enc w n). rewrite take_app, drop_app. split; [apply le_dec_enc; exact H|reflexivity].
Qed.

Definition swi_ok (b : N * bytes) : Prop := 8 <= fst b /\ fst b <= max_width /\ blen (snd b) < two63.

Lemma swi_unmarshal_marshal b rest : swi_ok b -> swi_unmarshal (swi_marshal b ++ rest) = Ok (b, rest).
Proof.
  destruct b as [w data]. intros (H8 & Hmax & Hsm). cbn [fst snd] in *.
  unfold swi_unmarshal, swi_marshal. cbn [fst snd]. rewrite <- !app_assoc.
  assert (Hw : w < 256 ^ N.of_nat 4) by (unfold max_width in Hmax; change (256 ^ N.of_nat 4) with 4294967296; lia).
  assert (Hd : blen data < 256 ^ N.of_nat 8) by (unfold two63 in Hsm; change (256 ^ N.of_nat 8) with 18446744073709551616; lia).
  destruct (le_dec_enc_take 4 w (le_enc 8 (blen data) ++ data ++ rest) Hw) as [E1 E2].
  destruct (le_dec_enc_take 8 (blen data) (data ++ rest) Hd) as [E3 E4].
  change (N.of_nat 4) with 4 in *. change (N.of_nat 8) with 8 in *.
  replace (blen (le_enc 4 w ++ le_enc 8 (blen data) ++ data ++ rest) <? 4) with false
    by (rewrite blen_app, blen_le_enc; lia).
  rewrite E1, E2.
  replace (blen (le_enc 8 (blen data) ++ data ++ rest) <? 8) with false by (rewrite blen_app, blen_le_enc; lia).
  rewrite E3, E4.
  replace (w <? 8) with false by lia. replace (max_width <? w) with false by lia.
  replace (two63 <=? blen data) with false by lia.
  replace ((0 <? blen data) && (blen (data ++ rest) =? 0)) with false by (rewrite blen_app; lia).
  replace (blen (data ++ rest) <? blen data) with false by (rewrite blen_app; lia).
  rewrite take_app, drop_app. reflexivity.
Qed.

Lemma keys_asc_app_lt {A} (m1 : list (N * A)) k v t : keys_asc (m1 ++ (k, v) :: t) ->
  forall k' v', In (k', v') m1 -> k' < k.
Proof.
  induction m1 as [|[k1 v1] m1 IH]; intros Hs k' v' Hin; [destruct Hin|].
  unfold keys_asc in *. cbn [map app fst] in Hs. inversion Hs as [|? ? Hs' Hall]; subst.
  destruct Hin as [Hin|Hin].
  - inversion Hin; subst. rewrite Forall_forall in Hall. apply Hall. rewrite map_app. apply in_or_app. right. left. reflexivity.
  - eapply IH; eassumption.
Qed.

Lemma swis_unmarshal_marshal m2 : forall fuel m1 rest,
  Forall swi_ok m2 -> keys_asc (m1 ++ m2) -> (length m2 < fuel)%nat ->
  swis_unmarshal fuel (N.of_nat (length m2)) (concat (map swi_marshal m2) ++ rest) m1 = Ok (m1 ++ m2, rest).
Proof.
  induction m2 as [|[w data] t IH]; intros fuel m1 rest Hok Hs Hfuel; (destruct fuel as [|f]; [cbn in Hfuel; lia|]);
    cbn [swis_unmarshal length map concat].
  - cbn. rewrite app_nil_r. reflexivity.
  - replace (N.of_nat (S (length t)) =? 0) with false by lia.
    inversion Hok as [|? ? Hb Hok']; subst. rewrite <- app_assoc.
    rewrite (swi_unmarshal_marshal (w, data) _ Hb). cbn [fst snd].
    replace (N.of_nat (S (length t)) - 1) with (N.of_nat (length t)) by lia.
    rewrite (kv_put_append w data m1 (keys_asc_app_lt m1 w data t Hs)).
    rewrite IH; [rewrite <- app_assoc; reflexivity|exact Hok'|rewrite <- app_assoc; exact Hs|cbn [length] in Hfuel; lia].
Qed.

Definition mwi_good (m : mwi) : Prop :=
  Forall swi_ok m /\ keys_asc m /\ N.of_nat (length m) < two31.

Lemma length_concat_ge {A} (F : A -> bytes) (l : list A) :
  (forall x, In x l -> (1 <= length (F x))%nat) -> (length l <= length (concat (map F l)))%nat.
Proof.
  induction l as [|x t IH]; intros H; cbn [length map concat]; [lia|].
  rewrite app_length. specialize (H x (or_introl eq_refl)) as Hx.
  assert (length t <= length (concat (map F t)))%nat by (apply IH; intros; apply H; right; assumption). lia.
Qed.

Lemma mwi_unmarshal_marshal m rest : mwi_good m -> mwi_unmarshal (mwi_marshal m ++ rest) = Ok (m, rest).
Proof.
  intros (Hok & Hs & Hn). unfold mwi_unmarshal, mwi_marshal. rewrite <- app_assoc.
  assert (Hc : N.of_nat (length m) < 256 ^ N.of_nat 4) by (unfold two31 in Hn; change (256 ^ N.of_nat 4) with 4294967296; lia).
  destruct (le_dec_enc_take 4 _ (concat (map swi_marshal m) ++ rest) Hc) as [E1 E2].
  change (N.of_nat 4) with 4 in *.
  replace (blen (le_enc 4 (N.of_nat (length m)) ++ concat (map swi_marshal m) ++ rest) <? 4) with false
    by (rewrite blen_app, blen_le_enc; lia).
  rewrite E1, E2. replace (two31 <=? N.of_nat (length m)) with false by lia.
  apply (swis_unmarshal_marshal m _ [] rest Hok Hs).
  rewrite !app_length, le_enc_length.
  assert (length m <= length (concat (map swi_marshal m)))%nat.
  { apply length_concat_ge. intros b _. unfold swi_marshal. rewrite app_length, le_enc_length. lia. }
  lia.
Qed.

Definition mh_good (m : mhidx) : Prop :=
  Forall (fun cm => fst cm < two64 /\ mwi_good (snd cm)) m /\ keys_asc m /\ N.of_nat (length m) < two31.

Lemma mwcis_unmarshal_marshal m2 : forall fuel m1 rest,
  Forall (fun cm => fst cm < two64 /\ mwi_good (snd cm)) m2 -> keys_asc (m1 ++ m2) -> (length m2 < fuel)%nat ->
  mwcis_unmarshal fuel (N.of_nat (length m2))
    (concat (map (fun cm => le_enc 8 (fst cm) ++ mwi_marshal (snd cm)) m2) ++ rest) m1 = Ok (m1 ++ m2, rest).
Proof.
  induction m2 as [|[code w] t IH]; intros fuel m1 rest Hok Hs Hfuel; (destruct fuel as [|f]; [cbn in Hfuel; lia|]);
    cbn [mwcis_unmarshal length map concat fst snd].
  - cbn. rewrite app_nil_r. reflexivity.
  - replace (N.of_nat (S (length t)) =? 0) with false by lia.
    inversion Hok as [|? ? [Hcode Hw] Hok']; subst. cbn [fst snd] in *. rewrite <- !app_assoc.
    assert (Hc : code < 256 ^ N.of_nat 8) by (unfold two64 in Hcode; change (256 ^ N.of_nat 8) with 18446744073709551616; lia).
    destruct (le_dec_enc_take 8 code (mwi_marshal w ++ concat (map (fun cm => le_enc 8 (fst cm) ++ mwi_marshal (snd cm)) t) ++ rest) Hc) as [E1 E2].
    change (N.of_nat 8) with 8 in *.
    replace (blen (le_enc 8 code ++ mwi_marshal w ++ concat (map (fun cm => le_enc 8 (fst cm) ++ mwi_marshal (snd cm)) t) ++ rest) <? 8)
      with false by (rewrite blen_app, blen_le_enc; lia).
    rewrite E1, E2. rewrite (mwi_unmarshal_marshal w _ Hw).
    replace (N.of_nat (S (length t)) - 1) with (N.of_nat (length t)) by lia.
    rewrite (kv_put_append code w m1 (keys_asc_app_lt m1 code w t Hs)).
    rewrite IH; [rewrite <- app_assoc; reflexivity|exact Hok'|rewrite <- app_assoc; exact Hs|cbn [length] in Hfuel; lia].
Qed.

Lemma mh_unmarshal_marshal m rest : mh_good m -> mh_unmarshal (mh_marshal m ++ rest) = Ok (m, rest).
Proof.
  intros (Hok & Hs & Hn). unfold mh_unmarshal, mh_marshal. rewrite <- app_assoc.
  assert (Hc : N.of_nat (length m) < 256 ^ N.of_nat 4) by (unfold two31 in Hn; change (256 ^ N.of_nat 4) with 4294967296; lia).
  destruct (le_dec_enc_take 4 _ (concat (map (fun cm => le_enc 8 (fst cm) ++ mwi_marshal (snd cm)) m) ++ rest) Hc) as [E1 E2].
  change (N.of_nat 4) with 4 in *.
  replace (blen (le_enc 4 (N.of_nat (length m)) ++ concat (map (fun cm => le_enc 8 (fst cm) ++ mwi_marshal (snd cm)) m) ++ rest) <? 4)
    with false by (rewrite blen_app, blen_le_enc; lia).
  rewrite E1, E2. replace (two31 <=? N.of_nat (length m)) with false by lia.
  apply (mwcis_unmarshal_marshal m _ [] rest Hok Hs).
  rewrite !app_length, le_enc_length.
  assert (length m <= length (concat (map (fun cm => le_enc 8 (fst cm) ++ mwi_marshal (snd cm)) m)))%nat.
  { apply length_concat_ge. intros b _. rewrite app_length, le_enc_length. lia. }
  lia.
Qed.

Definition idx_good (i : index) : Prop :=
  match i with IdxSorted m => mwi_good m | IdxMh m => mh_good m end.

Theorem idx_read_write i rest : idx_good i -> idx_read (idx_write i ++ rest) = Ok (i, rest).
Proof.
  intros Hg. unfold idx_read, idx_write. rewrite <- app_assoc.
  destruct i as [m|m]; cbn [idx_codec idx_marshal idx_good] in *.
  - rewrite read_uv_put_uv by (unfold codec_sorted, two63; lia).
    cbn [N.eqb codec_sorted Pos.eqb]. rewrite (mwi_unmarshal_marshal m rest Hg). reflexivity.
  - rewrite read_uv_put_uv by (unfold codec_mh_sorted, two63; lia).
    change (codec_mh_sorted =? codec_sorted) with false. change (codec_mh_sorted =? codec_mh_sorted) with true. cbv iota.
    rewrite (mh_unmarshal_marshal m rest Hg). reflexivity.
Qed.

(* ---- a loaded index is good when its records are ------------------------------------------------------------ *)
(* digests short enough for the 32 MiB record-width cap of Unmarshal, offsets and codes in 64 bits *)
Definition rec_fits (r : irec) : Prop :=
  blen (r_digest r) + 8 <= max_width /\ r_off r < two64 /\ r_code r < two64.

Lemma recs_offs_ok rs : Forall rec_fits rs -> offs_ok rs.
Proof. unfold offs_ok. apply Forall_impl. intros r (_ & H & _). exact H. Qed.

Lemma mwi_load_good rs : Forall rec_fits rs -> buckets_small (mwi_load rs []) -> mwi_good (mwi_load rs []).
Proof.
  intros Hf Hsm. pose proof (recs_offs_ok rs Hf) as Ho.
  destruct (group_by_ok rec_width rs) as [Hs Hg].
  assert (Hkeys : forall k g, In (k, g) (group_by rec_width rs) -> 8 <= k /\ k <= max_width).
  { intros k g Hin. destruct (group_rec_ok rs k g Ho Hin) as [H8 _]. split; [exact H8|].
    destruct (Hg _ _ Hin) as [Hne Hall]. destruct g as [|r g']; [congruence|].
    inversion Hall as [|? ? Hk _]; subst. rewrite Forall_forall in Hf.
    destruct (Hf r (group_sub rec_width rs _ _ Hin r (or_introl eq_refl))) as (H & _). exact H. }
  split; [|split].
  - rewrite mwi_load_eq in *. rewrite Forall_forall. intros b Hb.
    apply in_map_iff in Hb. destruct Hb as ([k g] & <- & Hin).
    unfold buckets_small in Hsm. rewrite Forall_forall in Hsm.
    specialize (Hsm (bucket_of (k, g)) (in_map bucket_of _ _ Hin)).
    destruct (Hkeys k g Hin). unfold swi_ok, bucket_of in *. cbn [fst snd] in *. auto.
  - rewrite mwi_load_eq. apply (keys_asc_map (fun g => compact (sort_by_digest g))). exact Hs.
  - rewrite mwi_load_eq, map_length.
    assert (Hb : N.of_nat (length (map fst (group_by rec_width rs))) <= max_width + 1 - 8).
    { apply asc_length_bound; [exact Hs|]. rewrite Forall_forall. intros k Hk.
      apply in_map_iff in Hk. destruct Hk as ([k' g] & <- & Hin). apply (Hkeys k' g Hin). }
    rewrite map_length in Hb. unfold max_width, two31 in *. lia.
Qed.

(* number of distinct hash codes among the records *)
Definition n_codes (rs : list irec) : nat := length (group_by r_code rs).
Lemma n_codes_le rs : (n_codes rs <= length rs)%nat.
Proof. apply group_by_length. Qed.

Lemma mh_load_good rs : Forall rec_fits rs ->
  Forall (fun cm => buckets_small (snd cm)) (mh_load rs []) -> N.of_nat (n_codes rs) < two31 ->
  mh_good (mh_load rs []).
Proof.
  intros Hf Hsm Hn. destruct (group_by_ok r_code rs) as [Hs Hg].
  split; [|split].
  - rewrite mh_load_eq in *. rewrite Forall_forall in *. intros cm Hcm.
    apply in_map_iff in Hcm. destruct Hcm as ([k g] & <- & Hin). cbn [fst snd].
    assert (Hfg : Forall rec_fits g).
    { rewrite Forall_forall. intros r Hr. apply Hf. apply (group_sub r_code rs k g Hin). exact Hr. }
    split.
    + destruct (Hg _ _ Hin) as [Hne Hall]. destruct g as [|r g']; [congruence|].
      inversion Hall as [|? ? Hk _]; subst. inversion Hfg as [|? ? (_ & _ & Hc) _]; subst. exact Hc.
    + apply mwi_load_good; [exact Hfg|].
      apply (Hsm (k, mwi_load g [])). apply (in_map (fun g => (fst g, mwi_load (snd g) []))) in Hin. exact Hin.
  - rewrite mh_load_eq. apply (keys_asc_map (fun g => mwi_load g [])). exact Hs.
  - rewrite mh_load_eq, map_length. exact Hn.
Qed.

(* every bucket is part of the marshalled index *)
Lemma blen_concat_in {A} (F : A -> bytes) (l : list A) x : In x l -> blen (F x) <= blen (concat (map F l)).
Proof.
  induction l as [|y t IH]; intros Hin; [destruct Hin|]. cbn [map concat]. rewrite blen_app.
  destruct Hin as [->|Hin]; [lia|]. specialize (IH Hin). lia.
Qed.

Lemma mwi_marshal_small m : blen (mwi_marshal m) < two63 -> buckets_small m.
Proof.
  intros H. unfold buckets_small. rewrite Forall_forall. intros b Hb.
  unfold mwi_marshal in H. rewrite blen_app in H.
  pose proof (blen_concat_in swi_marshal m b Hb) as Hle.
  assert (blen (snd b) <= blen (swi_marshal b)) by (unfold swi_marshal; rewrite !blen_app; lia). lia.
Qed.

Lemma mh_marshal_small m : blen (mh_marshal m) < two63 -> Forall (fun cm => buckets_small (snd cm)) m.
Proof.
  intros H. rewrite Forall_forall. intros cm Hcm. apply mwi_marshal_small.
  unfold mh_marshal in H. rewrite blen_app in H.
  pose proof (blen_concat_in (fun cm => le_enc 8 (fst cm) ++ mwi_marshal (snd cm)) m cm Hcm) as Hle.
  cbv beta in Hle. rewrite blen_app in Hle.
  match type of H with ?a + ?c < _ => match type of Hle with _ <= ?c' => change c' with c in Hle end end. lia.
Qed.
