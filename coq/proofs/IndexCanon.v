(* C11 order independence: for any two sorting functions meeting sort.Sort's contract and any two
   load orders of one record multiset, the loaded indexes have the same canonical form (they differ
   at most in the order inside runs of equal digests) and are EQUAL when no two records share a
   key; flattening an insertion index agrees with loading the records directly. *)
From Coq Require Import Permutation Sorting.Sorted.
From GoCar Require Import Bytes Varint Cid Index.
From GoCarProofs Require Import BytesFacts VarintFacts IndexKv IndexSort IndexCompact IndexSearch
  IndexRoundtrip IndexLoad.

Lemma swi_canon_compact w l : 8 <= w -> all_width w l -> offs_ok l ->
  swi_canon (w, compact l) = (w, compact_entries (sort_entries (map entry_of l))).
Proof. intros Hw Hl Ho. unfold swi_canon. rewrite swi_foreach_compact by assumption. reflexivity. Qed.

Lemma mwi_canon_get m w :
  kv_get w (mwi_canon m) = match kv_get w m with Some d => Some (snd (swi_canon (w, d))) | None => None end.
Proof.
  unfold mwi_canon. change (map swi_canon m) with (map (fun kv => (fst kv, snd (swi_canon kv))) m).
  apply (kv_get_map (fun kv => snd (swi_canon kv))).
Qed.

Lemma mwi_canon_sorted m : kv_sorted m -> kv_sorted (mwi_canon m).
Proof.
  unfold mwi_canon. change (map swi_canon m) with (map (fun kv => (fst kv, snd (swi_canon kv))) m).
  apply (kv_sorted_map (fun kv => snd (swi_canon kv))).
Qed.

Lemma mh_canon_get m c :
  kv_get c (mh_canon m) = match kv_get c m with Some w => Some (mwi_canon w) | None => None end.
Proof. unfold mh_canon. apply (kv_get_map (fun kv => mwi_canon (snd kv))). Qed.

Lemma mh_canon_sorted m : kv_sorted m -> kv_sorted (mh_canon m).
Proof. unfold mh_canon. apply (kv_sorted_map (fun kv => mwi_canon (snd kv))). Qed.

Definition idx_keys_sorted (i : index) : Prop :=
  match i with IdxSorted m => kv_sorted m | IdxMh m => kv_sorted m end.

Lemma idx_new_keys_sorted codec i0 : idx_new codec = Some i0 -> idx_keys_sorted i0.
Proof.
  unfold idx_new. destruct (codec =? codec_sorted); [intros H; inversion H; exact I|].
  destruct (codec =? codec_mh_sorted); [intros H; inversion H; exact I|discriminate].
Qed.

Lemma idx_wf_keys_sorted i : idx_wf i -> idx_keys_sorted i.
Proof. destruct i; intros (H & _); exact H. Qed.

(* which records collide in a bucket: digest only for car-index-sorted, (code, digest) otherwise *)
Definition rec_key (codec : N) (r : irec) : N * bytes :=
  (if codec =? codec_sorted then 0 else r_code r, r_digest r).

Lemma NoDup_map_filter {A B} (f : A -> B) p (l : list A) : NoDup (map f l) -> NoDup (map f (filter p l)).
Proof.
  induction l as [|x l IH]; cbn [map filter]; intros H; [constructor|].
  inversion H as [|? ? Hn H']; subst. destruct (p x); [|apply IH; exact H'].
  cbn [map]. constructor; [|apply IH; exact H'].
  intros Hin. apply Hn. apply in_map_iff in Hin. destruct Hin as (y & Hy & Hy').
  apply filter_In in Hy'. apply in_map_iff. exists y. tauto.
Qed.

Lemma NoDup_code_digest c rs :
  NoDup (map (fun r => (r_code r, r_digest r)) rs) -> NoDup (map r_digest (filter (code_is c) rs)).
Proof.
  induction rs as [|x l IH]; cbn [map filter]; intros H; [constructor|].
  inversion H as [|? ? Hn H']; subst. unfold code_is at 1. destruct (r_code x =? c) eqn:E; [|apply IH; exact H'].
  cbn [map]. constructor; [|apply IH; exact H'].
  intros Hin. apply Hn. apply in_map_iff in Hin. destruct Hin as (y & Hy & Hy').
  apply filter_In in Hy'. destruct Hy' as [Hy1 Hy2]. unfold code_is in Hy2.
  apply in_map_iff. exists y. split; [|exact Hy1]. f_equal; [lia|exact Hy].
Qed.

Lemma fold_put_map {A B} (F : N * list A -> B) (gs : list (N * list A)) : forall m,
  fold_left (fun acc g => kv_put (fst g) (F g) acc) gs m
  = fold_left (fun acc kv => kv_put (fst kv) (snd kv) acc) (map (fun g => (fst g, F g)) gs) m.
Proof. induction gs as [|g gs IH]; intros m; [reflexivity|]. cbn [map fold_left fst snd]. apply IH. Qed.

Section TwoSorts.
  Variables srt srt' : list irec -> list irec.
  Hypothesis srt_ok : sort_contract srt.
  Hypothesis srt_ok' : sort_contract srt'.

  Lemma srt_perm2 l l' : Permutation l l' -> Permutation (srt l) (srt' l').
  Proof.
    intros H. etransitivity; [apply srt_ok|]. etransitivity; [exact H|]. symmetry. apply srt_ok'.
  Qed.

  Lemma bucket_canon_perm w l l' : 8 <= w -> Permutation l l' -> all_width w l -> offs_ok l ->
    swi_canon (w, compact (srt l)) = swi_canon (w, compact (srt' l')).
  Proof.
    intros Hw Hp Hl Ho.
    assert (Hl' : all_width w l').
    { unfold all_width in *. apply Forall_forall. intros x Hx. rewrite Forall_forall in Hl. apply Hl.
      eapply Permutation_in; [symmetry; exact Hp|exact Hx]. }
    assert (Ho' : offs_ok l').
    { unfold offs_ok in *. apply Forall_forall. intros x Hx. rewrite Forall_forall in Ho. apply Ho.
      eapply Permutation_in; [symmetry; exact Hp|exact Hx]. }
    rewrite !swi_canon_compact; try assumption;
      try (apply (srt_all_width srt srt_ok); assumption); try (apply (srt_all_width srt' srt_ok'); assumption);
      try (apply (srt_offs_ok srt srt_ok); assumption); try (apply (srt_offs_ok srt' srt_ok'); assumption).
    f_equal. f_equal. apply sort_entries_unique. apply Permutation_map. apply srt_perm2. exact Hp.
  Qed.

  Lemma bucket_eq_noties l l' : Permutation l l' -> NoDup (map r_digest l) ->
    compact (srt l) = compact (srt' l').
  Proof.
    intros Hp Hn. rewrite <- !compact_entries_of. f_equal.
    assert (Hnd : forall s, sort_contract s -> forall k, Permutation k l -> NoDup (map fst (map entry_of (s k)))).
    { intros s Hs k Hk. rewrite map_map. cbn [entry_of fst].
      eapply Permutation_NoDup; [|exact Hn]. apply Permutation_map. symmetry.
      etransitivity; [apply Hs|exact Hk]. }
    apply sorted_perm_eq.
    - apply fst_sorted_nodup_canon; [apply digest_sorted_entries, srt_ok|apply (Hnd srt srt_ok l); reflexivity].
    - apply fst_sorted_nodup_canon; [apply digest_sorted_entries, srt_ok'|apply (Hnd srt' srt_ok' l'); symmetry; exact Hp].
    - apply Permutation_map. apply srt_perm2. exact Hp.
  Qed.

  Lemma filter_perm_cases {A} (p : A -> bool) l l' : Permutation l l' ->
    (filter p l = [] /\ filter p l' = []) \/
    (exists x t y u, filter p l = x :: t /\ filter p l' = y :: u /\ Permutation (x :: t) (y :: u)).
  Proof.
    intros H. pose proof (perm_filter p l l' H) as Hp.
    destruct (filter p l) as [|x t] eqn:E; destruct (filter p l') as [|y u] eqn:E'.
    - left. split; reflexivity.
    - apply Permutation_nil in Hp. discriminate.
    - symmetry in Hp. apply Permutation_nil in Hp. discriminate.
    - right. exists x, t, y, u. repeat split. exact Hp.
  Qed.

  Theorem mwi_load_canon_perm rs rs' m : Permutation rs rs' -> Forall rec_ok rs -> kv_sorted m ->
    mwi_canon (mwi_load_with srt rs m) = mwi_canon (mwi_load_with srt' rs' m).
  Proof.
    intros Hp Hok Hm. apply kv_ext.
    - apply mwi_canon_sorted, mwi_load_sorted. exact Hm.
    - apply mwi_canon_sorted, mwi_load_sorted. exact Hm.
    - intros w. rewrite !mwi_canon_get, !mwi_load_get.
      destruct (filter_perm_cases (width_is w) rs rs' Hp) as [[E E']|(x & t & y & u & E & E' & Hxy)]; rewrite E, E'.
      + reflexivity.
      + f_equal. f_equal. apply bucket_canon_perm.
        * assert (Hx : In x (filter (width_is w) rs)) by (rewrite E; left; reflexivity).
          apply filter_In in Hx. unfold width_is in Hx. pose proof (rec_width_ge8 x). lia.
        * exact Hxy.
        * rewrite <- E. apply filter_width_all.
        * rewrite <- E. apply offs_ok_filter, recs_offs_ok. exact Hok.
  Qed.

  Theorem mwi_load_eq_noties rs rs' m : Permutation rs rs' -> NoDup (map r_digest rs) ->
    mwi_load_with srt rs m = mwi_load_with srt' rs' m.
  Proof.
    intros Hp Hn. unfold mwi_load_with.
    (* both group lists are sorted association lists: compare them through the buckets *)
    assert (H : forall w,
      match filter (width_is w) rs with [] => None | l => Some (compact (srt l)) end
      = match filter (width_is w) rs' with [] => None | l => Some (compact (srt' l)) end).
    { intros w.
      destruct (filter_perm_cases (width_is w) rs rs' Hp) as [[E E']|(x & t & y & u & E & E' & Hxy)]; rewrite E, E'.
      - reflexivity.
      - f_equal. apply bucket_eq_noties; [exact Hxy|]. rewrite <- E. apply NoDup_map_filter. exact Hn. }
    (* fold over groups = fold over the same (key, bucket) list *)
    assert (G : map (fun g => (fst g, compact (srt (snd g)))) (group_by rec_width rs)
              = map (fun g => (fst g, compact (srt' (snd g)))) (group_by rec_width rs')).
    { apply kv_ext.
      - apply (kv_sorted_map (fun g => compact (srt (snd g)))), group_by_sorted.
      - apply (kv_sorted_map (fun g => compact (srt' (snd g)))), group_by_sorted.
      - intros w. rewrite (kv_get_map (fun g => compact (srt (snd g)))), (kv_get_map (fun g => compact (srt' (snd g)))).
        rewrite !group_by_get. specialize (H w). unfold width_is in H.
        destruct (filter (fun x => rec_width x =? w) rs); destruct (filter (fun x => rec_width x =? w) rs'); exact H. }
    rewrite (fold_put_map (fun g => compact (srt (snd g)))), (fold_put_map (fun g => compact (srt' (snd g)))).
    rewrite G. reflexivity.
  Qed.

  Theorem mh_load_canon_perm rs rs' m : Permutation rs rs' -> Forall rec_ok rs -> kv_sorted m ->
    mh_canon (mh_load_with srt rs m) = mh_canon (mh_load_with srt' rs' m).
  Proof.
    intros Hp Hok Hm. apply kv_ext.
    - apply mh_canon_sorted, mh_load_sorted. exact Hm.
    - apply mh_canon_sorted, mh_load_sorted. exact Hm.
    - intros c. rewrite !mh_canon_get, !mh_load_get.
      destruct (filter_perm_cases (code_is c) rs rs' Hp) as [[E E']|(x & t & y & u & E & E' & Hxy)]; rewrite E, E'.
      + reflexivity.
      + f_equal. apply mwi_load_canon_perm; [exact Hxy| |exact I].
        rewrite <- E. apply Forall_filter. exact Hok.
  Qed.

  Theorem mh_load_eq_noties rs rs' m : Permutation rs rs' -> kv_sorted m ->
    NoDup (map (fun r => (r_code r, r_digest r)) rs) ->
    mh_load_with srt rs m = mh_load_with srt' rs' m.
  Proof.
    intros Hp Hm Hn. apply kv_ext.
    - apply mh_load_sorted. exact Hm.
    - apply mh_load_sorted. exact Hm.
    - intros c. rewrite !mh_load_get.
      destruct (filter_perm_cases (code_is c) rs rs' Hp) as [[E E']|(x & t & y & u & E & E' & Hxy)]; rewrite E, E'.
      + reflexivity.
      + f_equal. apply mwi_load_eq_noties; [exact Hxy|]. rewrite <- E. apply NoDup_code_digest. exact Hn.
  Qed.

  (* C11: the serialized form depends only on the record multiset, up to the order inside
     equal-digest runs *)
  Theorem idx_load_canon_perm i0 rs rs' :
    idx_keys_sorted i0 -> Forall rec_ok rs -> Permutation rs rs' ->
    idx_canon (idx_load_with srt rs i0) = idx_canon (idx_load_with srt' rs' i0).
  Proof.
    intros H0 Hok Hp. destruct i0 as [m|m]; cbn [idx_load_with idx_canon idx_keys_sorted] in *; f_equal.
    - apply mwi_load_canon_perm; assumption.
    - apply mh_load_canon_perm; assumption.
  Qed.

  (* ... and exactly, when no two records share a key *)
  Theorem idx_load_eq_noties codec i0 rs rs' :
    idx_new codec = Some i0 -> Permutation rs rs' -> NoDup (map (rec_key codec) rs) ->
    idx_load_with srt rs i0 = idx_load_with srt' rs' i0.
  Proof.
    unfold idx_new, rec_key. intros Hnew Hp Hn. destruct (codec =? codec_sorted) eqn:E1.
    - inversion Hnew; subst. cbn [idx_load_with]. f_equal. apply mwi_load_eq_noties; [exact Hp|].
      rewrite <- (map_map r_digest (fun d => (0, d))) in Hn. apply NoDup_map_inv in Hn. exact Hn.
    - destruct (codec =? codec_mh_sorted) eqn:E2; [|discriminate]. inversion Hnew; subst.
      cbn [idx_load_with]. f_equal. apply mh_load_eq_noties; [exact Hp|exact I|exact Hn].
  Qed.
End TwoSorts.

(* ---- the insertion index ---------------------------------------------------------------------- *)
Lemma ins_by_digest_filter d r l : digest_sorted l ->
  filter (has_digest d) (ins_by_digest r l)
  = filter (has_digest d) l ++ (if has_digest d r then [r] else []).
Proof.
  induction l as [|x t IH]; intros Hs; cbn [ins_by_digest].
  - cbn [filter app]. reflexivity.
  - inversion Hs as [|? ? Hst Hlb]; subst. destruct (bytes_ltb (r_digest r) (r_digest x)) eqn:E.
    + cbn [filter]. destruct (has_digest d r) eqn:Hr.
      * (* r carries d and sits strictly below x: nothing in x :: t carries d *)
        unfold has_digest in Hr. apply bytes_eqb_eq in Hr. subst d.
        rewrite bytes_ltb_leb in E.
        assert (Hrx : bytes_leb (r_digest r) (r_digest x) = true).
        { apply bytes_leb_total. destruct (bytes_leb (r_digest x) (r_digest r)); [discriminate|reflexivity]. }
        assert (Hne : r_digest x <> r_digest r).
        { intros X. rewrite X, bytes_leb_refl in E. discriminate. }
        replace (has_digest (r_digest r) x) with false
          by (symmetry; unfold has_digest; apply bytes_eqb_false_ne; exact Hne).
        rewrite (filter_none_above (r_digest r) x t Hrx Hne Hlb). reflexivity.
      * rewrite app_nil_r. reflexivity.
    + cbn [filter]. rewrite (IH Hst). destruct (has_digest d x); reflexivity.
Qed.

Lemma ii_load_filter d rs : forall ii, digest_sorted ii ->
  filter (has_digest d) (ii_load rs ii) = filter (has_digest d) ii ++ filter (has_digest d) rs.
Proof.
  unfold ii_load, ii_insert. induction rs as [|r rs IH]; intros ii Hs; cbn [fold_left filter].
  - rewrite app_nil_r. reflexivity.
  - rewrite IH by (apply ins_by_digest_sorted; exact Hs). rewrite ins_by_digest_filter by exact Hs.
    rewrite <- app_assoc. destruct (has_digest d r); reflexivity.
Qed.

(* InsertionIndex.GetAll: the offsets of the records with that digest, IN INSERTION ORDER *)
Theorem ii_getall_load rs d : ii_getall d (ii_load rs []) = spec_offsets_digest rs d.
Proof.
  unfold ii_getall, ii_with_digest, spec_offsets_digest. fold (has_digest d).
  rewrite ii_load_filter by constructor. reflexivity.
Qed.

(* ---- flatten vs regenerate ---------------------------------------------------------------------- *)
Section Flatten.
  Variables srt srt' : list irec -> list irec.
  Hypothesis srt_ok : sort_contract srt.
  Hypothesis srt_ok' : sort_contract srt'.

  Lemma ii_records_perm rs : Permutation (ii_flatten_records (ii_load rs [])) rs.
  Proof. unfold ii_flatten_records. apply (ii_load_perm rs []). Qed.

  Lemma rec_ok_perm rs rs' : Permutation rs rs' -> Forall rec_ok rs -> Forall rec_ok rs'.
  Proof.
    intros Hp H. apply Forall_forall. intros x Hx. rewrite Forall_forall in H. apply H.
    eapply Permutation_in; [symmetry; exact Hp|exact Hx].
  Qed.

  Theorem flatten_canon_regen codec i0 rs :
    idx_new codec = Some i0 -> Forall rec_ok rs ->
    exists fi, ii_flatten_with srt codec (ii_load rs []) = Some fi /\
               idx_canon fi = idx_canon (idx_load_with srt' rs i0).
  Proof.
    intros Hnew Hok. unfold ii_flatten_with. rewrite Hnew. eexists. split; [reflexivity|].
    apply idx_load_canon_perm; try assumption.
    - eapply idx_new_keys_sorted. exact Hnew.
    - eapply rec_ok_perm; [symmetry; apply ii_records_perm|exact Hok].
    - apply ii_records_perm.
  Qed.

  Theorem flatten_eq_regen_noties codec i0 rs :
    idx_new codec = Some i0 -> NoDup (map (rec_key codec) rs) ->
    ii_flatten_with srt codec (ii_load rs []) = Some (idx_load_with srt' rs i0).
  Proof.
    intros Hnew Hn. unfold ii_flatten_with. rewrite Hnew. f_equal.
    apply (idx_load_eq_noties srt srt' srt_ok srt_ok' codec); [exact Hnew|apply ii_records_perm|].
    eapply Permutation_NoDup; [|exact Hn]. apply Permutation_map. symmetry. apply ii_records_perm.
  Qed.

  Lemma spec_digest_perm rs rs' d : Permutation rs rs' ->
    Permutation (spec_offsets_digest rs d) (spec_offsets_digest rs' d).
  Proof. intros H. unfold spec_offsets_digest. apply Permutation_map, perm_filter, H. Qed.
  Lemma spec_mh_perm rs rs' c d : Permutation rs rs' ->
    Permutation (spec_offsets_mh rs c d) (spec_offsets_mh rs' c d).
  Proof. intros H. unfold spec_offsets_mh. apply Permutation_map, perm_filter, H. Qed.

  Theorem flatten_getall_regen codec i0 rs c d :
    idx_new codec = Some i0 -> Forall rec_ok rs -> recs_fit rs ->
    exists fi, ii_flatten_with srt codec (ii_load rs []) = Some fi /\
               Permutation (idx_getall fi c d) (idx_getall (idx_load_with srt' rs i0) c d).
  Proof.
    intros Hnew Hok Hfit. unfold ii_flatten_with. rewrite Hnew. eexists. split; [reflexivity|].
    pose proof (ii_records_perm rs) as Hp.
    etransitivity.
    - apply (idx_getall_load srt srt_ok codec); [exact Hnew| |].
      + eapply rec_ok_perm; [symmetry; exact Hp|exact Hok].
      + unfold recs_fit in *. rewrite (blen_compact_perm _ _ Hp). exact Hfit.
    - symmetry. etransitivity; [apply (idx_getall_load srt' srt_ok' codec); assumption|].
      destruct (codec =? codec_sorted); [apply spec_digest_perm|apply spec_mh_perm]; symmetry; exact Hp.
  Qed.
End Flatten.

(* ---- what canon may change: only the order inside runs of equal digests ------------------------- *)
Definition rec_of_entry (e : entry) : irec := mkrec [] 0 (fst e) (snd e).

Lemma compact_of_entries es : compact_entries es = compact (map rec_of_entry es).
Proof. unfold compact_entries, compact. rewrite map_map. reflexivity. Qed.

Lemma entry_of_rec_of_entry es : map entry_of (map rec_of_entry es) = es.
Proof. rewrite map_map. induction es as [|[d o] es IH]; cbn [map]; [reflexivity|]. rewrite IH. reflexivity. Qed.

Theorem swi_canon_foreach w l : 8 <= w -> all_width w l -> offs_ok l -> digest_sorted l ->
  Permutation (swi_foreach (swi_canon (w, compact l))) (swi_foreach (w, compact l)) /\
  map fst (swi_foreach (swi_canon (w, compact l))) = map fst (swi_foreach (w, compact l)).
Proof.
  intros Hw Hl Ho Hs. rewrite swi_canon_compact by assumption.
  rewrite (swi_foreach_compact w l Hw Hl Ho).
  set (es := sort_entries (map entry_of l)).
  assert (Hp : Permutation es (map entry_of l)) by apply sort_entries_perm.
  rewrite compact_of_entries.
  assert (Hl' : all_width w (map rec_of_entry es)).
  { unfold all_width. apply Forall_forall. intros r Hr. apply in_map_iff in Hr. destruct Hr as (e & <- & He).
    apply (Permutation_in _ Hp) in He. apply in_map_iff in He. destruct He as (r0 & <- & Hr0).
    unfold all_width in Hl. rewrite Forall_forall in Hl. apply (Hl r0 Hr0). }
  assert (Ho' : offs_ok (map rec_of_entry es)).
  { unfold offs_ok. apply Forall_forall. intros r Hr. apply in_map_iff in Hr. destruct Hr as (e & <- & He).
    apply (Permutation_in _ Hp) in He. apply in_map_iff in He. destruct He as (r0 & <- & Hr0).
    unfold offs_ok in Ho. rewrite Forall_forall in Ho. apply (Ho r0 Hr0). }
  rewrite (swi_foreach_compact w _ Hw Hl' Ho'), entry_of_rec_of_entry.
  split; [exact Hp|]. apply canon_keeps_digests. apply digest_sorted_entries. exact Hs.
Qed.

(* ---- the width limit of Unmarshal (the boundary of the round trip) -------------------------------- *)
Lemma swi_unmarshal_rejects_wide w data rest : max_width < w -> w < two32 ->
  swi_unmarshal (swi_marshal (w, data) ++ rest) = Err EOther.
Proof.
  intros Hw H32. unfold swi_unmarshal, swi_marshal. cbn [fst snd]. rewrite <- !app_assoc.
  replace (blen (le_enc 4 w ++ le_enc 8 (blen data) ++ data ++ rest) <? 4) with false
    by (rewrite blen_app, blen_le_enc; lia).
  assert (H4 : w < 256 ^ N.of_nat 4) by (unfold two32 in H32; change (256 ^ N.of_nat 4) with 4294967296; lia).
  destruct (le_field 4 w (le_enc 8 (blen data) ++ data ++ rest) H4) as [E1 E2].
  change (N.of_nat 4) with 4 in E1, E2. rewrite E1, E2.
  replace (blen (le_enc 8 (blen data) ++ data ++ rest) <? 8) with false
    by (rewrite blen_app, blen_le_enc; lia).
  replace (w <? 8) with false by (unfold max_width in Hw; lia).
  replace (max_width <? w) with true by lia. reflexivity.
Qed.

(* ---- the statements of props/C11.v, assembled ----------------------------------------------------- *)
Lemma c11_roundtrip (srt : list irec -> list irec) codec i0 rs rest :
  sort_contract srt -> idx_new codec = Some i0 -> Forall rec_ok rs -> fits codec rs ->
  idx_read (idx_write (idx_load_with srt rs i0) ++ rest) = Ok (idx_load_with srt rs i0, rest).
Proof. intros Hs Hn Hok Hfit. apply idx_read_write. eapply idx_load_fresh_wf; eassumption. Qed.

Lemma c11_order_independent (srt srt' : list irec -> list irec) i0 rs rs' :
  sort_contract srt -> sort_contract srt' -> idx_keys_sorted i0 -> Forall rec_ok rs -> Permutation rs rs' ->
  idx_write (idx_canon (idx_load_with srt rs i0)) = idx_write (idx_canon (idx_load_with srt' rs' i0)).
Proof. intros H1 H2 H0 Hok Hp. f_equal. apply idx_load_canon_perm; assumption. Qed.

Lemma c11_bytes_equal (srt srt' : list irec -> list irec) codec i0 rs rs' :
  sort_contract srt -> sort_contract srt' -> idx_new codec = Some i0 -> Permutation rs rs' ->
  NoDup (map (rec_key codec) rs) ->
  idx_write (idx_load_with srt rs i0) = idx_write (idx_load_with srt' rs' i0).
Proof. intros H1 H2 Hn Hp Hnd. f_equal. eapply idx_load_eq_noties; eassumption. Qed.

Lemma c11_flatten_lookups (srt srt' : list irec -> list irec) codec i0 rs code d :
  sort_contract srt -> sort_contract srt' -> idx_new codec = Some i0 -> Forall rec_ok rs -> recs_fit rs ->
  exists fi, ii_flatten_with srt codec (ii_load rs []) = Some fi /\
             Permutation (idx_getall fi code d) (idx_getall (idx_load_with srt' rs i0) code d).
Proof. intros H1 H2 Hn Hok Hfit. apply flatten_getall_regen; assumption. Qed.
