(* MonitorExec.v -- the executable stepper of Monitor.v is sound for the step relation, so a
   concrete schedule evaluated by vm_compute yields a genuine execution (used for the
   non-vacuity examples and for the refutation witness of the unrepaired AllKeysChan). *)
From Coq Require Import List Arith Bool Lia.
Import ListNotations.
From GoCar Require Import Monitor.

Lemma expands_with_ok p : forall ch, expands p (expand_with p ch).
Proof.
  induction p as [|[l|alts] p IH]; intro ch; cbn.
  - constructor.
  - constructor. apply IH.
  - destruct ch as [|c ch'].
    + constructor. apply IH.
    + induction c as [|i c IHc]; cbn.
      * constructor. apply IH.
      * rewrite <- app_assoc. destruct (nth_error alts i) as [b|] eqn:E.
        -- apply ex_iter; [eapply nth_error_In; eauto|exact IHc].
        -- cbn. exact IHc.
Qed.

Lemma nth_error_split_eq {A} (l : list A) i x :
  nth_error l i = Some x -> l = firstn i l ++ x :: skipn (S i) l /\ length (firstn i l) = i.
Proof.
  revert i. induction l as [|y l IH]; intros [|i] H; cbn in *; try discriminate.
  - inversion H; subst. auto.
  - destruct (IH _ H) as [E L]. split; [congruence|lia].
Qed.

Section Env.
Variable tbl : list (held * path).

Lemma fstep_sound c i ch c' : fstep tbl c i ch = Some c' -> exists a, step tbl c i a c'.
Proof.
  unfold fstep. destruct (nth_error (ts c) i) as [t|] eqn:En; [|discriminate].
  destruct (nth_error_split_eq _ _ _ En) as [E L]. destruct t as [h cd]. cbn [th code].
  remember (firstn i (ts c)) as l. remember (skipn (S i) (ts c)) as r.
  destruct cd as [|a k]; [discriminate|]. rewrite <- L.
  destruct a as [m [|]|m [|]|f|f|b|b|s]; intro H.
  - destruct (negb (wl (lk c m))) eqn:Ew; [|discriminate]. inversion H; subst c'.
    eexists. eapply SAcqR; eauto. destruct (wl (lk c m)); [discriminate|reflexivity].
  - destruct (negb (wl (lk c m))) eqn:Ew; [|discriminate]. cbn in H.
    destruct (Nat.eqb_spec (rc (lk c m)) 0) as [Er|]; [|discriminate]. inversion H; subst c'.
    eexists. eapply SAcqW; eauto. destruct (wl (lk c m)); [discriminate|reflexivity].
  - inversion H; subst c'. eexists. eapply SRelR; eauto.
  - inversion H; subst c'. eexists. eapply SRelW; eauto.
  - inversion H; subst c'. eexists. eapply SRd; eauto.
  - inversion H; subst c'. eexists. eapply SWr; eauto.
  - inversion H; subst c'. eexists. eapply SSpawn; eauto. apply expands_with_ok.
  - inversion H; subst c'. eexists. eapply SHandoff; eauto. apply expands_with_ok.
  - inversion H; subst c'. eexists. eapply SBlk; eauto.
Qed.

Lemma frun_sound sched : forall c c', frun tbl c sched = Some c' -> steps tbl c c'.
Proof.
  assert (forall c a b, steps tbl a b -> steps tbl c a -> steps tbl c b) as Htrans.
  { intros c a b H. induction H as [|a b i x d Hab IHab Hbd]; intro Hc; [exact Hc|].
    eapply steps_trans; [apply IHab; exact Hc|exact Hbd]. }
  induction sched as [|[i ch] s IH]; intros c c' H; cbn in H.
  - inversion H; subst. constructor.
  - destruct (fstep tbl c i ch) as [c1|] eqn:E; [|discriminate].
    destruct (fstep_sound _ _ _ _ E) as [a Ha].
    eapply Htrans; [apply IH; exact H|]. econstructor; [constructor|exact Ha].
Qed.
End Env.

Lemma conflict_accesses t u :
  conflict (head_access t) (head_access u) = true ->
  exists f w, (accesses t f true /\ accesses u f w) \/ (accesses t f w /\ accesses u f true).
Proof.
  unfold head_access, accesses.
  destruct (code t) as [|[m md|m md|f|f|i|i|s] kt]; cbn; try discriminate;
  destruct (code u) as [|[m' md'|m' md'|g|g|i'|i'|s'] ku]; cbn; try discriminate;
  intro H; apply andb_prop in H as [H1 H2]; apply Nat.eqb_eq in H1; subst; try discriminate.
  - exists g, false. right. auto.
  - exists g, false. left. auto.
  - exists g, true. left. auto.
Qed.

Lemma raceb_sound c : raceb c = true -> race c.
Proof.
  unfold raceb, race. generalize (ts c) as l. intro l.
  assert (forall pre, raceb_list l = true ->
     exists l0 m r t1 t2 f w, pre ++ l = l0 ++ t1 :: m ++ t2 :: r /\
       ((accesses t1 f true /\ accesses t2 f w) \/ (accesses t1 f w /\ accesses t2 f true))) as H.
  { induction l as [|t l IH]; intros pre H; cbn in H; [discriminate|].
    apply orb_prop in H as [H|H].
    - apply existsb_exists in H as (u & Hu & Hc). apply in_split in Hu as (m & r & ->).
      destruct (conflict_accesses _ _ Hc) as (f & w & Hacc).
      exists pre, m, r, t, u, f, w. auto.
    - destruct (IH (pre ++ [t]) H) as (l0 & m & r & t1 & t2 & f & w & E & Hacc).
      exists l0, m, r, t1, t2, f, w. rewrite <- app_assoc in E. auto. }
  intro Hr. destruct (H [] Hr) as (l0 & m & r & t1 & t2 & f & w & E & Hacc). cbn in E. eauto 10.
Qed.
