(* Forward ("it succeeds and does exactly this") lemmas for the operations of the extraction
   walk on a path whose parent is a chain of real directories and whose last component is free.
   Used by the round-trip theorem (C18). *)
From GoCar Require Import Bytes ExtractFs.
From GoCarProofs Require Import BytesFacts ExtractFsFacts ExtractFsEval ExtractFsOps ExtractFsSafe.

Local Open Scope nat_scope.

(* ---- kernel walks ---- *)
Lemma kwalk_to_free_leaf links fs follow cur names leaf :
  dirchain fs cur names -> name_ok leaf -> look fs (cur ++ names ++ [leaf]) = None ->
  kwalk links fs follow cur (names ++ [leaf]) = KOk (cur ++ names ++ [leaf]) None.
Proof.
  intros Hd [Hn [Hl _]] Hf. rewrite kwalk_dirchain by exact Hd. rewrite kwalk_cons.
  apply normalb_true in Hn as [H1 H2]. rewrite H1, H2, Hl. cbn zeta.
  rewrite <- app_assoc. rewrite Hf. reflexivity.
Qed.

Lemma kwalk_to_dir links fs follow cur names :
  dirchain fs cur names ->
  kwalk links fs follow cur names = KOk (cur ++ names) (look fs (cur ++ names)).
Proof.
  intro Hd. pose proof (kwalk_dirchain links fs follow cur names [] Hd) as H.
  rewrite app_nil_r in H. rewrite H. apply kwalk_nil.
Qed.

Lemma name_ok_no_nul_list names : Forall name_ok names -> existsb has_nul names = false.
Proof.
  intro H. pose proof (names_ok_no_nul names [] H) as E. rewrite app_nil_r in E. exact E.
Qed.

(* resolving a clean path whose parent is all directories and whose leaf is free *)
Lemma k_resolve_free_leaf fs follow cwd (j : npath) init leaf :
  n_names j = init ++ [leaf] -> dirchain fs (nbase cwd j) init -> name_ok leaf ->
  look fs (phys_of cwd j) = None ->
  k_resolve fs follow (k_start cwd (n_abs j)) (n_comps j) = KOk (phys_of cwd j) None.
Proof.
  intros E Hd Hok Hf. rewrite k_resolve_npath0. rewrite E.
  rewrite name_ok_no_nul_list.
  2:{ apply Forall_app; split; [eapply dirchain_names_ok; exact Hd|constructor; [exact Hok|constructor]]. }
  rewrite phys_of_nbase, E in *. apply kwalk_to_free_leaf; assumption.
Qed.

Lemma k_resolve_dir fs follow cwd (j : npath) :
  alldirs fs cwd j ->
  k_resolve fs follow (k_start cwd (n_abs j)) (n_comps j) = KOk (phys_of cwd j) (look fs (phys_of cwd j)).
Proof.
  intro Ha. rewrite k_resolve_npath0.
  rewrite name_ok_no_nul_list by (eapply dirchain_names_ok; exact Ha).
  rewrite phys_of_nbase. apply kwalk_to_dir. exact Ha.
Qed.

(* ---- EvalSymlinks on a chain of real directories is the identity ---- *)
Lemma eval_go_ups links fs cwd k : forall u rest,
  eval_go links fs cwd (mknp false u []) (repeat s_dotdot k ++ rest) =
  eval_go links fs cwd (mknp false (u + k) []) rest.
Proof.
  induction k as [|k IH]; intros u rest.
  - rewrite Nat.add_0_r. reflexivity.
  - cbn [repeat app]. rewrite eval_go_cons. rewrite dd_triv, dd_dd.
    unfold n_push. rewrite dd_triv, dd_dd. cbn [n_names n_abs n_ups].
    rewrite IH. f_equal. f_equal. lia.
Qed.

Lemma eval_go_dirs links fs cwd a u : forall names done rest,
  dirchain fs (nbase cwd (mknp a u done)) (done ++ names) ->
  eval_go links fs cwd (mknp a u done) (names ++ rest) =
  eval_go links fs cwd (mknp a u (done ++ names)) rest.
Proof.
  induction names as [|c names IH]; intros done rest Hd.
  - rewrite app_nil_r. reflexivity.
  - cbn [app]. rewrite eval_go_cons.
    assert (Hd1 : dirchain fs (nbase cwd (mknp a u done)) (done ++ [c])).
    { eapply dirchain_app_l. rewrite <- app_assoc. exact Hd. }
    destruct (dirchain_last _ _ _ _ Hd1) as [Hl [Hn [Hlen Hz]]].
    apply normalb_true in Hn as [H1 H2]. rewrite H1, H2. cbn zeta. cbn [n_abs n_ups n_names].
    unfold k_lstat.
    pose proof (k_resolve_dir fs false cwd (mknp a u (done ++ [c])) Hd1) as K.
    rewrite phys_of_nbase in K. cbn [n_abs n_names] in K.
    change (nbase cwd (mknp a u (done ++ [c]))) with (nbase cwd (mknp a u done)) in K.
    rewrite Hl in K. rewrite K.
    replace (done ++ c :: names) with ((done ++ [c]) ++ names) in * by (rewrite <- app_assoc; reflexivity).
    apply IH. exact Hd.
Qed.

Lemma eval_symlinks_alldirs fs cwd g :
  (n_abs g = true -> n_ups g = 0) ->
  alldirs fs cwd g -> eval_symlinks fs cwd (n_abs g) (n_comps g) = Some g.
Proof.
  intros Hu Ha. unfold eval_symlinks, n_comps. destruct g as [a u names]. cbn [n_abs n_ups n_names] in *.
  destruct a.
  - rewrite (Hu eq_refl) in *. cbn [repeat app]. unfold np_root.
    pose proof (eval_go_dirs max_eval_links fs cwd true 0 names [] [] ) as H.
    rewrite app_nil_r in H. cbn [app] in H. rewrite H by exact Ha. apply eval_go_nil.
  - unfold np_here. rewrite eval_go_ups. cbn [Nat.add].
    pose proof (eval_go_dirs max_eval_links fs cwd false u names [] []) as H.
    rewrite app_nil_r in H. cbn [app] in H. rewrite H by exact Ha. apply eval_go_nil.
Qed.

Lemma names_eqb_refl a : names_eqb a a = true.
Proof. apply names_eqb_eq. reflexivity. Qed.

Lemma npath_eqb_refl g : npath_eqb g g = true.
Proof.
  unfold npath_eqb. rewrite Bool.eqb_reflx, Nat.eqb_refl, names_eqb_refl. reflexivity.
Qed.

Lemma resolve_path_alldirs fs cwd root pth :
  (n_abs (ndir (n_apply root (n_names pth))) = true -> n_ups (ndir (n_apply root (n_names pth))) = 0) ->
  alldirs fs cwd (ndir (n_apply root (n_names pth))) ->
  resolve_path fs cwd root pth = Some (n_apply root (n_names pth)).
Proof.
  intros Hu Ha. unfold resolve_path. rewrite eval_symlinks_alldirs by assumption.
  rewrite npath_eqb_refl. reflexivity.
Qed.

(* ---- the mutating operations succeed ---- *)
Lemma ext_set_free fs p n : look fs p = None -> ext fs (fs_set fs p n).
Proof.
  intros Hf q m Hl. exists m. split; [|apply same_kind_refl].
  rewrite look_set_other; [exact Hl|]. intro; subst. congruence.
Qed.

Lemma mkdir_all_existing fs cwd j :
  alldirs fs cwd j -> look fs (phys_of cwd j) = Some NDir -> mkdir_all fs cwd j = (fs, true).
Proof.
  intros Ha Hl. unfold mkdir_all. rewrite mkdir_all_go_eq. cbn zeta. rewrite rev_involutive, app_nil_r.
  unfold k_stat. rewrite k_resolve_dir by exact Ha. rewrite Hl. reflexivity.
Qed.

Lemma mkdir_all_creates fs cwd (j : npath) init leaf :
  cwd_ok fs cwd ->
  n_names j = init ++ [leaf] -> dirchain fs (nbase cwd j) init -> name_ok leaf ->
  look fs (phys_of cwd j) = None ->
  mkdir_all fs cwd j = (fs_set fs (phys_of cwd j) NDir, true).
Proof.
  intros Hc E Hd Hok Hf. unfold mkdir_all. rewrite mkdir_all_go_eq. cbn zeta.
  rewrite rev_involutive, app_nil_r. unfold k_stat.
  rewrite (k_resolve_free_leaf fs true cwd j init leaf) by assumption.
  rewrite (n_comps_snoc _ _ _ E). rewrite rev_unit.
  assert (Hp : (if (n_abs j || (match rev (n_comps (mknp (n_abs j) (n_ups j) init)) with [] => false | _ => true end))%bool
               then mkdir_all_go fs (k_start cwd (n_abs j)) (n_abs j) (rev (n_comps (mknp (n_abs j) (n_ups j) init))) true
               else (fs, true)) = (fs, true)).
  { destruct (n_abs j || _)%bool; [|reflexivity].
    apply (mkdir_all_parent_dirs fs cwd (mknp (n_abs j) (n_ups j) init) Hc). exact Hd. }
  rewrite Hp. cbn [negb]. rewrite <- (n_comps_snoc _ _ _ E).
  unfold k_mkdir. rewrite (k_resolve_free_leaf fs false cwd j init leaf) by assumption.
  reflexivity.
Qed.

Lemma extract_file_creates fs cwd (j : npath) init leaf d :
  n_names j = init ++ [leaf] -> dirchain fs (nbase cwd j) init -> name_ok leaf ->
  look fs (phys_of cwd j) = None ->
  extract_file true fs cwd j d true = (fs_set fs (phys_of cwd j) (NFile d), true).
Proof.
  intros E Hd Hok Hf. unfold extract_file, k_lstat, k_create.
  rewrite (k_resolve_free_leaf fs false cwd j init leaf) by assumption.
  rewrite (k_resolve_free_leaf fs true cwd j init leaf) by assumption.
  reflexivity.
Qed.

Definition target_ok (t : bytes) : Prop :=
  is_empty t = false /\ has_nul t = false /\ (4095 <? blen t)%N = false.

Lemma k_symlink_creates fs cwd (j : npath) init leaf tg :
  target_ok tg ->
  n_names j = init ++ [leaf] -> dirchain fs (nbase cwd j) init -> name_ok leaf ->
  look fs (phys_of cwd j) = None ->
  k_symlink fs tg (k_start cwd (n_abs j)) (n_comps j) = (fs_set fs (phys_of cwd j) (NLink tg), true).
Proof.
  intros [T1 [T2 T3]] E Hd Hok Hf. unfold k_symlink. rewrite T1, T2, T3. cbn [orb].
  rewrite (k_resolve_free_leaf fs false cwd j init leaf) by assumption. reflexivity.
Qed.
