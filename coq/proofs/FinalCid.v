(* C05 groundwork: what go-varint / go-cid accept is exactly what they produce -- a byte string that
   cid.Cast parses is the canonical encoding of its parts.  Removes "the key is a well-formed CID" from
   the hypotheses about stored blocks: the stores parse every key before storing it. *)
From GoCar Require Import Bytes Varint Cid.
From GoCarProofs Require Import BytesFacts VarintFacts CidFacts FinalOrder.
Ltac Zify.zify_post_hook ::= Z.div_mod_to_equations.

Lemma pow7_succ i : 2 ^ (7 * (i + 1)) = 128 * 2 ^ (7 * i).
Proof. replace (7 * (i + 1)) with (7 + 7 * i) by lia. rewrite N.pow_add_r. reflexivity. Qed.

Lemma read_uv_f_inv : forall fuel i x bs v rest n,
  read_uv_f fuel i x bs = VOk v rest n ->
  exists y, v = x + y * 2 ^ (7 * i) /\ bs = put_uv_f fuel y ++ rest /\ n = i + uv_size_f fuel y /\
            (0 < i -> 0 < y) /\ i <= 8 /\ y < 2 ^ (7 * (9 - i)).
Proof.
  induction fuel as [|f IH]; intros i x bs v rest n H; cbn [read_uv_f] in H; [discriminate|].
  destruct bs as [|b t]; [destruct (i =? 0); discriminate|].
  destruct (((i =? 8) && (128 <=? b2n b)) || (9 <=? i)) eqn:Eov; [discriminate|].
  assert (Hi : i <= 8) by lia.
  destruct (b2n b <? 128) eqn:Eb.
  - destruct ((b2n b =? 0) && (0 <? i)) eqn:Emin; [discriminate|]. inversion H; subst.
    exists (b2n b). cbn [put_uv_f uv_size_f]. rewrite Eb, n2b_b2n. repeat split; try lia.
    assert (128 <= 2 ^ (7 * (9 - i))).
    { replace (7 * (9 - i)) with (7 + 7 * (8 - i)) by lia. rewrite N.pow_add_r. change (2 ^ 7) with 128.
      pose proof (N.pow_nonzero 2 (7 * (8 - i))). lia. }
    lia.
  - destruct (IH _ _ _ _ _ _ H) as (y' & Hv & Ht & Hn & Hpos & Hi' & Hlt).
    assert (Hy' : 0 < y') by (apply Hpos; lia).
    pose proof (b2n_lt b) as Hb256.
    exists (b2n b - 128 + 128 * y'). cbn [put_uv_f uv_size_f].
    replace (b2n b - 128 + 128 * y' <? 128) with false by lia.
    replace ((b2n b - 128 + 128 * y') mod 128) with (b2n b - 128) by lia.
    replace ((b2n b - 128 + 128 * y') / 128) with y' by lia.
    replace (128 + (b2n b - 128)) with (b2n b) by lia. rewrite n2b_b2n.
    repeat split; try lia.
    + rewrite Hv, pow7_succ. lia.
    + cbn [app]. rewrite Ht. reflexivity.
    + replace (7 * (9 - i)) with (7 + 7 * (9 - (i + 1))) by lia. rewrite N.pow_add_r. change (2 ^ 7) with 128. lia.
Qed.

(* go-varint accepts only the minimal encoding of values below 2^63 *)
Theorem read_uv_inv s v rest n : read_uv s = VOk v rest n ->
  s = put_uv v ++ rest /\ n = uv_size v /\ v < two63.
Proof.
  unfold read_uv. intros H. destruct (read_uv_f_inv _ _ _ _ _ _ _ H) as (y & Hv & Hs & Hn & _ & _ & Hlt).
  assert (v = y) by lia. subst y. unfold put_uv, uv_size. repeat split; try assumption; try lia.
Qed.

Lemma mh_from_bytes_inv buf n code dig : mh_from_bytes buf = Some (n, code, dig) ->
  exists rest, buf = mh_enc code dig ++ rest /\ n = blen (mh_enc code dig) /\ code < two63 /\ blen dig <= max_int32.
Proof.
  unfold mh_from_bytes. destruct (blen buf <? 2); [discriminate|].
  destruct (read_uv buf) as [code' r1 n1| | | |] eqn:E1; try discriminate.
  destruct (read_uv r1) as [len r2 n2| | | |] eqn:E2; try discriminate.
  destruct (max_int32 <? len) eqn:E3; [discriminate|]. destruct (blen r2 <? len) eqn:E4; [discriminate|].
  intros H. inversion H; subst.
  destruct (read_uv_inv _ _ _ _ E1) as (-> & -> & Hc). destruct (read_uv_inv _ _ _ _ E2) as (-> & -> & _).
  exists (drop len r2). unfold mh_enc.
  assert (Hl : blen (take len r2) = len) by (rewrite blen_take; lia).
  rewrite Hl. rewrite <- !app_assoc. rewrite take_drop_id. repeat split; try lia.
  rewrite !blen_app, !blen_put_uv, Hl. lia.
Qed.

Theorem cid_parse_bytes_ok c p : cid_parse c = Some p -> cid_ok p /\ c = cid_enc p.
Proof.
  unfold cid_parse. destruct (cid_from_bytes c) as [[n q]|] eqn:E; [|discriminate].
  destruct (n =? blen c) eqn:En; [|discriminate]. intros H. inversion H; subst q. assert (n = blen c) by lia. subst n.
  unfold cid_from_bytes in E. destruct (is_v0_prefix c) eqn:Ev0.
  - destruct (blen c <? 34) eqn:E34; [discriminate|]. inversion E as [[Hlen Hp]].
    destruct c as [|b0 [|b1 [|b2 t]]]; try discriminate. cbn [is_v0_prefix] in Ev0.
    assert (b0 = x12) by (apply b2n_inj; change (b2n x12) with 18; lia).
    assert (b1 = x20) by (apply b2n_inj; change (b2n x20) with 32; lia). subst b0 b1.
    change (x12 :: x20 :: b2 :: t) with ([x12; x20] ++ (b2 :: t)).
    change 2 with (blen [x12; x20]). rewrite drop_app.
    assert (Ht : blen (b2 :: t) = 32) by (rewrite !blen_cons in Hlen; rewrite blen_cons; lia).
    rewrite take_ge by lia. split.
    + left. cbn [c_ver c_codec c_mhcode c_digest]. auto.
    + unfold cid_enc, mh_enc. cbn [c_ver c_mhcode c_digest N.eqb]. rewrite Ht. reflexivity.
  - destruct (read_uv c) as [vers r1 n1| | | |] eqn:E1; try discriminate.
    destruct (negb (vers =? 1)) eqn:Evers; [discriminate|]. assert (vers = 1) by (destruct (vers =? 1) eqn:X; [lia|discriminate]). subst vers.
    destruct (read_uv r1) as [codec r2 n2| | | |] eqn:E2; try discriminate.
    destruct (mh_from_bytes r2) as [[[n3 code] dig]|] eqn:E3; [|discriminate].
    inversion E as [[Hlen Hp]].
    destruct (read_uv_inv _ _ _ _ E1) as (Hc1 & Hn1 & _). destruct (read_uv_inv _ _ _ _ E2) as (Hc2 & Hn2 & Hcodec).
    destruct (mh_from_bytes_inv _ _ _ _ E3) as (rest & Hc3 & Hn3 & Hcode & Hdig).
    assert (rest = []).
    { destruct rest as [|z rest']; [reflexivity|exfalso].
      subst c r1 r2 n1 n2 n3. rewrite !blen_app, !blen_put_uv, blen_cons in Hlen. lia. }
    subst rest. rewrite app_nil_r in Hc3. split.
    + right. cbn [c_ver c_codec c_mhcode c_digest]. auto.
    + unfold cid_enc. cbn [c_ver c_codec c_mhcode c_digest N.eqb]. subst c r1 r2. reflexivity.
Qed.

Corollary cid_parse_ok c p : cid_parse c = Some p -> cid_bytes_ok c.
Proof. intros H. exists p. apply cid_parse_bytes_ok. exact H. Qed.
