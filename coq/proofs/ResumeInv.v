(* L5/L7 for the writable stores: the layout invariant of an open, fault-free writing session,
   its preservation by Put, and resumption (after Discard or after Finalize) re-establishing it. *)
From GoCar Require Import Bytes Varint Cid Header Frame V2Header Index Scan Store Crash.
From GoCarProofs Require Import BytesFacts VarintFacts CidFacts ResumeFacts.

Lemma hdr_len_nil nilroots roots :
  blen (enc_header (roots_opt nilroots roots) 1) = blen (enc_header (Some roots) 1).
Proof. destruct roots; [destruct nilroots|]; reflexivity. Qed.

Lemma header_chunks_concat nilroots roots :
  concat (header_chunks nilroots roots) = ld (enc_header (roots_opt nilroots roots) 1).
Proof. unfold header_chunks, ld_chunks, ld. cbn [fold_left concat]. rewrite app_nil_r. reflexivity. Qed.
Lemma ld_chunks_section c d : concat (ld_chunks [c; d]) = enc_section c d.
Proof.
  unfold ld_chunks, enc_section. cbn [fold_left concat]. rewrite app_nil_r.
  replace (0 + blen c + blen d) with (blen c + blen d) by lia. reflexivity.
Qed.

Lemma hdr_of_doff o : 51 + w_dpad o < two64 -> h_doff (hdr_of o) = 51 + w_dpad o.
Proof.
  intros H. unfold hdr_of.
  destruct (0 <? w_dpad o) eqn:E1; destruct (0 <? w_ipad o) eqn:E2;
    cbn [h_doff with_index_padding with_data_padding new_header]; unfold wrap64;
    try (rewrite N.mod_small by exact H; reflexivity); lia.
Qed.
Lemma hdr_of_ioff o : 51 + w_dpad o + w_ipad o < two64 -> h_ioff (hdr_of o) = 51 + w_dpad o + w_ipad o.
Proof.
  intros H. unfold hdr_of.
  assert (W51 : wrap64 (51 + 0) = 51) by reflexivity.
  destruct (0 <? w_dpad o) eqn:E1; destruct (0 <? w_ipad o) eqn:E2;
    cbn [h_ioff with_index_padding with_data_padding new_header]; rewrite W51; unfold wrap64.
  - rewrite (N.mod_small (51 + w_dpad o)) by lia. rewrite N.mod_small by lia. reflexivity.
  - rewrite N.mod_small by lia. lia.
  - rewrite N.mod_small by lia. lia.
  - lia.
Qed.
Lemma hdr_of_hi o : h_hi (hdr_of o) = 0 /\ h_lo (hdr_of o) = 0 /\ h_dsize (hdr_of o) = 0.
Proof. unfold hdr_of. destruct (0 <? w_dpad o); destruct (0 <? w_ipad o); repeat split. Qed.

Lemma data_base_v2 o : w_v1 o = false -> 51 + w_dpad o < two64 -> data_base o = 51 + w_dpad o.
Proof. intros Hv H. unfold data_base. rewrite Hv. apply hdr_of_doff. exact H. Qed.
Lemma data_base_v1 o : w_v1 o = true -> data_base o = 0.
Proof. intros Hv. unfold data_base. rewrite Hv. reflexivity. Qed.

Lemma blen_pragma : blen pragma = 11.
Proof. reflexivity. Qed.
Lemma write_pragma : write_at [] 0 pragma = pragma.
Proof. reflexivity. Qed.

Lemma zerosN_add a b : zerosN (a + b) = zerosN a ++ zerosN b.
Proof.
  unfold zerosN. rewrite N2Nat.inj_add. induction (N.to_nat a) as [|n IH]; [reflexivity|].
  cbn [Nat.add zeros app]. rewrite IH. reflexivity.
Qed.
Lemma zero_hdr_enc : zerosN 40 = enc_v2hdr (mkv2 0 0 0 0 0).
Proof. reflexivity. Qed.
Lemma zero_hdr_chunks : concat (v2hdr_chunks (mkv2 0 0 0 0 0)) = zerosN 40.
Proof. reflexivity. Qed.
Lemma v2hdr_chunks_concat h : concat (v2hdr_chunks h) = enc_v2hdr h.
Proof. unfold v2hdr_chunks, enc_v2hdr. cbn [concat]. rewrite app_nil_r, <- !app_assoc. reflexivity. Qed.
Lemma blen_pragma_body : blen pragma_body = 10.
Proof. reflexivity. Qed.

Lemma header_matches_refl roots : header_matches roots 1 roots = true.
Proof.
  unfold header_matches. rewrite !N.eqb_refl. cbn [andb].
  assert (H : forallb (fun r => roots_count roots r =? roots_count roots r) roots = true).
  { apply forallb_forall. intros x _. apply N.eqb_refl. }
  destruct roots as [|a [|b t]]; [reflexivity|apply bytes_eqb_refl|exact H].
Qed.

Section Inv.
  Variable hdrdec : bytes -> option (list bytes * N).
  Variables (k : skind) (o : wopts) (nilroots : bool) (roots : list bytes).

  Definition hdr : bytes := enc_header (roots_opt nilroots roots) 1.
  Definition hsz : N := ld_size (blen hdr).
  Definition v2_prefix : bytes := pragma ++ zerosN (40 + w_dpad o).
  Definition base_file : bytes := (if w_v1 o then [] else v2_prefix) ++ ld hdr.
  Definition idx_of (st : list block) : iidx := ii_load (records_from hsz st) [].

  (* what a Put does to the list of stored blocks (the decision is ShouldPut's) *)
  Definition abs_put (st : list block) (b : block) : list block :=
    match cid_parse (fst b) with
    | None => st
    | Some p => match should_put o (idx_of st) (fst b) p with Ok true => st ++ [b] | _ => st end
    end.
  Definition abs_puts (st : list block) (bs : list block) : list block := fold_left abs_put bs st.

  Definition fits (st : list block) : Prop :=
    51 + w_dpad o + w_ipad o + hsz + blen (enc_sections st) < two63.

  Record params_ok : Prop := {
    po_hdr : hdrdec hdr = Some (roots, 1);
    po_pragma : exists r, hdrdec pragma_body = Some (r, 2);
    po_maxh : blen hdr <= w_maxh o;
    po_cid : w_maxcid o <= max_digest_alloc }.

  Record Inv (s : wstate) (st : list block) : Prop := {
    inv_file : ws_file s = base_file ++ enc_sections st;
    inv_idx : ws_idx s = idx_of st;
    inv_pos : ws_pos s = hsz + blen (enc_sections st);
    inv_closed : ws_closed s = false;
    inv_fin : ws_finalized s = false;
    inv_roots : ws_roots s = roots;
    inv_opts : ws_opts s = o;
    inv_kind : ws_kind s = k;
    inv_faults : d_faults (ws_dev s) = [];
    inv_cids : Forall stored_ok st;
    inv_fits : fits st }.

  Lemma hdr_ge_10 : 10 <= blen hdr.
  Proof.
    unfold hdr, enc_header. rewrite !blen_app. change (blen [xa2]) with 1. change (blen key_roots) with 6.
    change (blen key_version) with 8. change (blen (cbor_head 0 1)) with 1. lia.
  Qed.

  Lemma blen_base_file : 51 + w_dpad o < two64 -> blen base_file = data_base o + hsz.
  Proof.
    intros H. unfold base_file, hsz, v2_prefix. destruct (w_v1 o) eqn:Ev.
    - rewrite data_base_v1 by exact Ev. cbn [app]. rewrite blen_ld_eq. lia.
    - rewrite data_base_v2 by assumption. rewrite !blen_app, blen_zerosN, blen_ld_eq.
      rewrite blen_pragma. lia.
  Qed.

  Lemma hsz_pos : 1 <= hsz.
  Proof. unfold hsz, ld_size. pose proof (uv_size_pos (blen hdr)). lia. Qed.

  (* ---- open on an empty file ------------------------------------------------------------ *)
  Definition kind_ok : Prop :=
    match k with KStorage false => negb (w_v1 o) | _ => false end = false.
  Definition open_log : list wr :=
    rev (chunk_log (data_base o) (header_chunks nilroots roots)) ++ (if w_v1 o then [] else [WrAt 0 pragma]).
  Definition open_state : wstate :=
    mkws (mkdev base_file open_log []) [] hsz false false roots o k.

  Lemma fits_nil_64 : fits [] -> 51 + w_dpad o + w_ipad o + hsz < two63.
  Proof. unfold fits. cbn [enc_sections map concat]. rewrite blen_nil. lia. Qed.

  Lemma ld_nonempty payload : ld payload <> [].
  Proof. unfold ld. intros X. apply app_eq_nil in X. destruct X as [X _]. exact (put_uv_nonempty _ X). Qed.

  Lemma open_new_eq : kind_ok -> fits [] -> open_new k o nilroots roots [] = Ok open_state.
  Proof.
    intros Hk Hfit. apply fits_nil_64 in Hfit.
    assert (H64 : 51 + w_dpad o < two64) by (unfold two63, two64 in *; lia).
    unfold open_new. rewrite Hk. unfold open_state, open_log, base_file, v2_prefix.
    destruct (w_v1 o) eqn:Ev.
    - rewrite write_chunks_nofault by reflexivity.
      rewrite header_chunks_concat, data_base_v1 by exact Ev.
      cbv beta iota zeta delta [negb d_file d_log].
      change 0 with (blen (@nil byte)) at 1. rewrite write_at_append.
      fold hdr. rewrite blen_ld_eq. fold hsz. rewrite app_nil_r. cbn [app blen length N.of_nat].
      replace (0 + hsz - 0) with hsz by lia. reflexivity.
    - rewrite dev_write_nofault by reflexivity.
      cbv beta iota zeta delta [negb d_file d_log].
      rewrite write_chunks_nofault by reflexivity.
      rewrite header_chunks_concat, data_base_v2 by assumption.
      cbv beta iota zeta delta [negb d_file d_log].
      rewrite write_pragma. rewrite write_at_hole; [|rewrite blen_pragma; lia|apply ld_nonempty].
      rewrite blen_pragma. fold hdr. rewrite blen_ld_eq. fold hsz.
      replace (51 + w_dpad o - 11) with (40 + w_dpad o) by lia.
      replace (51 + w_dpad o + hsz - (51 + w_dpad o)) with hsz by lia.
      rewrite <- app_assoc. reflexivity.
  Qed.

  Lemma open_state_inv : fits [] -> Inv open_state [].
  Proof.
    intros Hfit. constructor; try reflexivity.
    - unfold open_state, ws_file. cbn [ws_dev d_file enc_sections map concat]. rewrite app_nil_r. reflexivity.
    - cbn [enc_sections map concat]. rewrite blen_nil. cbn [open_state ws_pos]. lia.
    - constructor.
    - exact Hfit.
  Qed.

  (* ---- Put ---------------------------------------------------------------------------------- *)
  Hypothesis Hpar : params_ok.

  Lemma should_put_true_len ii c p : should_put o ii c p = Ok true -> blen c <= w_maxcid o.
  Proof.
    unfold should_put. destruct (negb (w_storeid o) && is_identity p); [discriminate|].
    destruct (w_maxcid o <? blen c) eqn:E; [discriminate|]. intros _. lia.
  Qed.

  Lemma abs_put_cases st b : abs_put st b = st \/
    (abs_put st b = st ++ [b] /\ exists p, cid_parse (fst b) = Some p /\ should_put o (idx_of st) (fst b) p = Ok true).
  Proof.
    unfold abs_put. destruct (cid_parse (fst b)) as [p|] eqn:Ep; [|left; reflexivity].
    destruct (should_put o (idx_of st) (fst b) p) as [[|]|e] eqn:Es; try (left; reflexivity).
    right. split; [reflexivity|]. exists p. split; [reflexivity|exact Es].
  Qed.

  Lemma put_one_inv s st c d p :
    Inv s st -> cid_parse c = Some p -> fits (abs_put st (c, d)) ->
    Inv (fst (put_one s c d p)) (abs_put st (c, d)).
  Proof.
    intros HI Hp Hfit. destruct HI as [Hfile Hidx Hpos Hcl Hfin Hroots Hopts Hkind Hfaults Hcids Hfits].
    assert (H64 : 51 + w_dpad o < two64) by (unfold fits, two63, two64 in *; lia).
    unfold abs_put in *. cbn [fst] in *. rewrite Hp in *.
    unfold put_one. rewrite Hopts, Hidx.
    destruct (should_put o (idx_of st) c p) as [[|]|e] eqn:Es;
      [|constructor; assumption|constructor; assumption].
    rewrite write_chunks_nofault by exact Hfaults.
    cbv beta iota zeta. rewrite ld_chunks_section.
    assert (Hbl : data_base o + ws_pos s = blen (ws_file s)).
    { rewrite Hfile, Hpos, blen_app, blen_base_file by exact H64. lia. }
    cbn [fst].
    constructor; cbn [set_idx set_dev ws_file ws_dev d_file ws_idx ws_pos ws_closed ws_finalized ws_roots ws_opts ws_kind d_faults];
      try assumption; try reflexivity.
    - fold (ws_file s). rewrite Hbl, write_at_append, Hfile. rewrite enc_sections_app, <- app_assoc.
      cbn [enc_sections map concat fst snd]. rewrite app_nil_r. reflexivity.
    - unfold idx_of. rewrite records_from_app, ii_load_app. cbn [records_from]. rewrite Hp.
      cbn [ii_load fold_left]. rewrite Hpos, Hidx. reflexivity.
    - rewrite enc_sections_app, blen_app. cbn [enc_sections map concat fst snd]. rewrite app_nil_r.
      rewrite Hpos. lia.
    - apply Forall_app. split; [exact Hcids|]. constructor; [|constructor].
      exists p. cbn [fst]. split; [exact Hp|].
      pose proof (should_put_true_len _ _ _ Es). pose proof (cid_parse_digest_le _ _ Hp).
      pose proof (po_cid Hpar). lia.
  Qed.

  Lemma fe_put_inv s st b :
    Inv s st -> fits (abs_put st b) -> Inv (fst (fe_put s b)) (abs_put st b).
  Proof.
    intros HI Hfit. destruct b as [c d].
    assert (Hnone : cid_parse c = None -> abs_put st (c, d) = st).
    { intros E. unfold abs_put. cbn [fst]. rewrite E. reflexivity. }
    unfold fe_put. destruct (ws_kind s).
    - unfold bs_put_many. rewrite (inv_closed _ _ HI), (inv_fin _ _ HI). cbn [put_many_loop].
      destruct (cid_parse c) as [p|] eqn:Ep.
      + pose proof (put_one_inv s st c d p HI Ep Hfit) as HI'.
        destruct (put_one s c d p) as [s' [| | | | |]]; exact HI'.
      + rewrite Hnone by reflexivity. exact HI.
    - unfold st_put. cbn [fst snd]. destruct (cid_parse c) as [p|] eqn:Ep.
      + rewrite (inv_closed _ _ HI), (inv_fin _ _ HI). apply put_one_inv; assumption.
      + rewrite Hnone by reflexivity. exact HI.
  Qed.

  Lemma abs_put_size st b :
    blen (enc_sections (abs_put st b)) <= blen (enc_sections st) + blen (enc_sections [b]).
  Proof.
    destruct (abs_put_cases st b) as [->|[-> _]]; [lia|]. rewrite enc_sections_app, blen_app. lia.
  Qed.

  Lemma run_puts_inv bs : forall s st,
    Inv s st ->
    51 + w_dpad o + w_ipad o + hsz + blen (enc_sections st) + blen (enc_sections bs) < two63 ->
    Inv (run_puts s bs) (abs_puts st bs).
  Proof.
    induction bs as [|b t IH]; intros s st HI Hfit; [exact HI|].
    unfold run_puts, abs_puts. cbn [fold_left]. fold (run_puts (fst (fe_put s b)) t). fold (abs_puts (abs_put st b) t).
    change (b :: t) with ([b] ++ t) in Hfit. rewrite enc_sections_app, blen_app in Hfit.
    pose proof (abs_put_size st b) as Hsz.
    apply IH; [apply fe_put_inv; [exact HI|unfold fits; lia]|lia].
  Qed.

  (* ---- Resume (L7) ------------------------------------------------------------------------------ *)
  Definition zero_hdr_log : list wr := rev (chunk_log pragma_size (v2hdr_chunks (mkv2 0 0 0 0 0))).
  Definition live_file (st : list block) : bytes := base_file ++ enc_sections st.
  (* the state Resume builds (log = the writes Resume itself issued, newest first) *)
  Definition resumed_state (log : list wr) (st : list block) : wstate :=
    mkws (mkdev (live_file st) log []) (idx_of st) (hsz + blen (enc_sections st)) false false roots o k.

  Lemma resumed_state_inv log st : Forall stored_ok st -> fits st -> Inv (resumed_state log st) st.
  Proof. intros Hc Hf. constructor; try reflexivity; assumption. Qed.

  Lemma hdr_lt63 : fits [] -> blen hdr < two63.
  Proof. intros H. apply fits_nil_64 in H. unfold hsz, ld_size in H. lia. Qed.

  Lemma fits_mono st : fits st -> fits [].
  Proof. unfold fits. cbn [enc_sections map concat]. rewrite blen_nil. lia. Qed.

  (* reading the CARv1 header at the payload start *)
  Lemma read_payload_header maxh rest : fits [] -> blen hdr <= maxh ->
    read_header hdrdec maxh (ld hdr ++ rest) = Ok (roots, 1, rest, hsz).
  Proof. intros Hf Hm. apply read_header_ld; [exact (po_hdr Hpar)|exact Hm|apply hdr_lt63; exact Hf]. Qed.

  Lemma resume_live st : Forall stored_ok st -> fits st ->
    resume hdrdec k true o roots (live_file st) [] =
      inl (resumed_state (if w_v1 o then [] else zero_hdr_log) st).
  Proof.
    intros Hc Hfit. pose proof (fits_mono _ Hfit) as Hfit0. pose proof (fits_nil_64 Hfit0) as Hf0.
    assert (H64 : 51 + w_dpad o < two64) by (unfold two63, two64 in *; lia).
    destruct Hpar as [Hhdr [r0 Hprag] Hmaxh Hcid].
    assert (Hp10 : 10 <= w_maxh o) by (pose proof hdr_ge_10; lia).
    unfold resume, live_file, base_file.
    destruct (w_v1 o) eqn:Ev.
    - (* CARv1 *)
      cbn [app].
      rewrite read_payload_header by assumption.
      cbn [N.eqb Pos.eqb andb orb negb].
      rewrite data_base_v1 by exact Ev. rewrite drop_0.
      rewrite read_payload_header by assumption.
      rewrite header_matches_refl. cbn [negb].
      cbv beta iota zeta delta [d_file].
      rewrite drop_0.
      rewrite <- hdr_len_nil with (nilroots := nilroots). fold hdr. fold hsz.
      replace hsz with (blen (ld hdr)) at 1 by (rewrite blen_ld_eq; reflexivity).
      rewrite resume_scan_sections.
      + rewrite blen_ld_eq. fold hsz. unfold resumed_state, live_file, base_file, idx_of. rewrite Ev. reflexivity.
      + exact Hc.
      + rewrite blen_ld_eq; fold hsz; unfold fits in Hfit; lia.
      + rewrite app_length; pose proof (enc_sections_len st) as Hl; unfold block in *; lia.
    - (* CARv2, header still zero *)
      unfold v2_prefix. rewrite pragma_is_ld at 1. rewrite <- !app_assoc.
      rewrite (read_header_ld hdrdec (w_maxh o) pragma_body r0 2) by
        (try exact Hprag; rewrite blen_pragma_body; try exact Hp10; unfold two63; lia).
      cbn [N.eqb Pos.eqb andb orb negb].
      rewrite data_base_v2 by assumption.
      rewrite (drop_app_len pragma_size pragma) by reflexivity.
      rewrite zerosN_add, zero_hdr_enc, <- !app_assoc.
      rewrite read_v2hdr_enc by (repeat split; reflexivity).
      cbn [h_doff]. replace (as_int64 0 <? 51)%Z with true by reflexivity. cbv iota.
      replace (51 + w_dpad o) with (blen (pragma ++ enc_v2hdr (mkv2 0 0 0 0 0) ++ zerosN (w_dpad o)))
        by (rewrite !blen_app, blen_pragma, blen_enc_v2hdr, blen_zerosN; lia).
      rewrite !(app_assoc pragma), !(app_assoc (pragma ++ _)).
      rewrite drop_app.
      rewrite read_payload_header by assumption.
      rewrite header_matches_refl. cbn [negb].
      rewrite write_chunks_nofault by reflexivity.
      cbv beta iota zeta delta [d_file d_log negb].
      rewrite v2hdr_chunks_concat.
      rewrite <- !app_assoc.
      replace pragma_size with (blen pragma) by reflexivity.
      rewrite write_at_inside by reflexivity.
      rewrite !(app_assoc pragma), !(app_assoc (pragma ++ _)).
      rewrite drop_app.
      rewrite <- hdr_len_nil with (nilroots := nilroots). fold hdr. fold hsz.
      replace hsz with (blen (ld hdr)) at 1 by (rewrite blen_ld_eq; reflexivity).
      rewrite resume_scan_sections.
      + rewrite blen_ld_eq. fold hsz. unfold resumed_state, live_file, base_file, v2_prefix, idx_of, zero_hdr_log.
        rewrite Ev. rewrite zerosN_add, zero_hdr_enc, <- !app_assoc. rewrite app_nil_r. reflexivity.
      + exact Hc.
      + rewrite blen_ld_eq, !blen_app, blen_pragma, blen_enc_v2hdr, blen_zerosN; fold hsz; unfold fits in Hfit; lia.
      + rewrite app_length; pose proof (enc_sections_len st) as Hl; unfold block in *; lia.
  Qed.

  (* ---- Finalize ---------------------------------------------------------------------------------- *)
  Definition pos_of (st : list block) : N := hsz + blen (enc_sections st).
  Definition fin_hdr (st : list block) : v2hdr :=
    mkv2 (if w_storeid o then 128 else 0) 0 (51 + w_dpad o) (pos_of st) (51 + w_dpad o + w_ipad o + pos_of st).
  Definition fin_file (st : list block) (fi : index) : bytes :=
    pragma ++ enc_v2hdr (fin_hdr st) ++ zerosN (w_dpad o) ++ ld hdr ++ enc_sections st ++
    zerosN (w_ipad o) ++ concat (idx_chunks fi).
  Definition fin_log (st : list block) (fi : index) : list wr :=
    rev (chunk_log pragma_size (v2hdr_chunks (fin_hdr st))) ++
    rev (chunk_log (h_ioff (fin_hdr st)) (idx_chunks fi)).

  Lemma fin_hdr_eq st : fits st ->
    set_fully_indexed (w_storeid o) (with_data_size (pos_of st) (hdr_of o)) = fin_hdr st.
  Proof.
    intros Hfit. unfold fits in Hfit.
    assert (Hp : pos_of st = hsz + blen (enc_sections st)) by reflexivity.
    unfold set_fully_indexed, with_data_size, fin_hdr. cbn [h_hi h_lo h_doff h_dsize h_ioff].
    destruct (hdr_of_hi o) as (Hhi & Hlo & _). rewrite Hhi, Hlo.
    rewrite hdr_of_doff by (unfold two63, two64 in *; lia).
    rewrite hdr_of_ioff by (unfold two63, two64 in *; lia).
    unfold wrap64. rewrite N.mod_small by (unfold two63, two64 in *; lia).
    destruct (w_storeid o); cbn [N.lor N.land]; f_equal; lia.
  Qed.

  Lemma idx_chunks_nonempty fi : concat (idx_chunks fi) <> [].
  Proof.
    unfold idx_chunks. cbn [concat]. intros X. apply app_eq_nil in X. destruct X as [X _].
    exact (put_uv_nonempty _ X).
  Qed.

  Lemma live_file_v2 st : w_v1 o = false ->
    live_file st = pragma ++ zerosN 40 ++ zerosN (w_dpad o) ++ ld hdr ++ enc_sections st.
  Proof.
    intros Ev. unfold live_file, base_file, v2_prefix. rewrite Ev, zerosN_add, <- !app_assoc. reflexivity.
  Qed.
  Lemma blen_live_file st : 51 + w_dpad o < two64 -> blen (live_file st) = data_base o + pos_of st.
  Proof. intros H. unfold live_file, pos_of. rewrite blen_app, blen_base_file by exact H. lia. Qed.

  Lemma store_finalize_eq s st fi :
    ws_file s = live_file st -> ws_pos s = pos_of st -> ws_opts s = o -> d_faults (ws_dev s) = [] ->
    w_v1 o = false -> fits st -> ii_flatten (w_codec o) (ws_idx s) = Some fi ->
    store_finalize s =
      (set_dev s (mkdev (fin_file st fi) (fin_log st fi ++ d_log (ws_dev s)) []) (pos_of st), ONil).
  Proof.
    intros Hfile Hpos Hopts Hfaults Ev Hfit Hfl.
    assert (H64 : 51 + w_dpad o < two64) by (unfold fits, two63, two64 in *; lia).
    unfold store_finalize. rewrite Hopts, Hpos, Hfl, fin_hdr_eq by exact Hfit.
    rewrite write_chunks_nofault by exact Hfaults.
    cbv beta iota zeta delta [negb].
    rewrite write_chunks_nofault by reflexivity.
    cbn [d_file d_log].
    fold (ws_file s). rewrite Hfile.
    f_equal. f_equal. f_equal.
    - rewrite (write_at_hole (live_file st)); [|rewrite blen_live_file, data_base_v2 by assumption; cbn [h_ioff fin_hdr]; lia|apply idx_chunks_nonempty].
      rewrite blen_live_file, data_base_v2 by assumption. cbn [h_ioff fin_hdr].
      replace (51 + w_dpad o + w_ipad o + pos_of st - (51 + w_dpad o + pos_of st)) with (w_ipad o) by lia.
      rewrite live_file_v2 by exact Ev. rewrite zero_hdr_enc. rewrite <- !app_assoc.
      replace pragma_size with (blen pragma) by reflexivity.
      rewrite v2hdr_chunks_concat.
      rewrite write_at_inside by (rewrite !blen_enc_v2hdr; reflexivity).
      unfold fin_file. reflexivity.
  Qed.

  Lemma as_int64_small n : n < two63 -> as_int64 n = Z.of_N n.
  Proof. intros H. unfold as_int64. replace (n <? two63) with true by lia. reflexivity. Qed.

  Lemma fin_hdr_fields_ok st : fits st -> v2_fields_ok (fin_hdr st).
  Proof.
    intros Hfit. unfold fits in Hfit. unfold v2_fields_ok, fin_hdr, pos_of. cbn [h_hi h_lo h_doff h_dsize h_ioff].
    unfold two63, two64 in *. repeat split; try lia. destruct (w_storeid o); lia.
  Qed.

  Lemma resume_fin st fi : Forall stored_ok st -> fits st -> w_v1 o = false ->
    resume hdrdec k true o roots (fin_file st fi) [] =
      inl (resumed_state (zero_hdr_log ++ [Trunc (51 + w_dpad o + pos_of st)]) st).
  Proof.
    intros Hc Hfit Ev. pose proof (fits_mono _ Hfit) as Hfit0. pose proof (fits_nil_64 Hfit0) as Hf0.
    assert (H64 : 51 + w_dpad o < two64) by (unfold two63, two64 in *; lia).
    assert (Hpos : pos_of st = hsz + blen (enc_sections st)) by reflexivity.
    pose proof Hfit as Hfit'. unfold fits in Hfit'.
    pose proof hsz_pos as Hhp.
    destruct Hpar as [Hhdr [r0 Hprag] Hmaxh Hcid].
    assert (Hp10 : 10 <= w_maxh o) by (pose proof hdr_ge_10; lia).
    unfold resume, fin_file. rewrite Ev.
    rewrite pragma_is_ld at 1.
    rewrite (read_header_ld hdrdec (w_maxh o) pragma_body r0 2) by
      (try exact Hprag; rewrite blen_pragma_body; try exact Hp10; unfold two63; lia).
    cbn [N.eqb Pos.eqb andb orb negb].
    rewrite data_base_v2 by assumption.
    rewrite (drop_app_len pragma_size pragma) by reflexivity.
    rewrite read_v2hdr_enc by (apply fin_hdr_fields_ok; exact Hfit).
    cbn [h_doff h_dsize h_ioff fin_hdr].
    rewrite !as_int64_small by lia.
    replace (Z.of_N (51 + w_dpad o) <? 51)%Z with false by lia.
    replace (Z.of_N (pos_of st) <=? 0)%Z with false by lia.
    replace (Z.of_N (51 + w_dpad o + w_ipad o + pos_of st) <? 0)%Z with false by lia.
    rewrite N.eqb_refl. cbn [negb].
    set (H := fin_hdr st).
    set (tail := zerosN (w_ipad o) ++ concat (idx_chunks fi)).
    assert (Hpre : blen (pragma ++ enc_v2hdr H ++ zerosN (w_dpad o)) = 51 + w_dpad o)
      by (rewrite !blen_app, blen_pragma, blen_enc_v2hdr, blen_zerosN; lia).
    replace (pragma ++ enc_v2hdr H ++ zerosN (w_dpad o) ++ ld hdr ++ enc_sections st ++ tail)
      with ((pragma ++ enc_v2hdr H ++ zerosN (w_dpad o)) ++ ld hdr ++ enc_sections st ++ tail)
      by (rewrite <- !app_assoc; reflexivity).
    rewrite (drop_app_len _ _ _ Hpre).
    rewrite read_payload_header by assumption.
    rewrite header_matches_refl. cbn [negb].
    unfold dev_truncate. cbn [d_file d_log d_faults].
    assert (Hw : wrap64 (h_doff H + h_dsize H) = 51 + w_dpad o + pos_of st).
    { unfold H, fin_hdr, wrap64. cbn [h_doff h_dsize]. apply N.mod_small. unfold two63, two64 in *. lia. }
    rewrite Hw.
    assert (Hlen : blen ((pragma ++ enc_v2hdr H ++ zerosN (w_dpad o)) ++ ld hdr ++ enc_sections st) = 51 + w_dpad o + pos_of st)
      by (rewrite blen_app, Hpre, blen_app, blen_ld_eq; fold hsz; lia).
    replace ((pragma ++ enc_v2hdr H ++ zerosN (w_dpad o)) ++ ld hdr ++ enc_sections st ++ tail)
      with (((pragma ++ enc_v2hdr H ++ zerosN (w_dpad o)) ++ ld hdr ++ enc_sections st) ++ tail)
      by (rewrite <- !app_assoc; reflexivity).
    rewrite <- Hlen at 1. rewrite truncate_to_app.
    rewrite write_chunks_nofault by reflexivity.
    cbv beta iota zeta delta [d_file d_log negb].
    rewrite v2hdr_chunks_concat.
    rewrite <- !app_assoc.
    replace pragma_size with (blen pragma) by reflexivity.
    rewrite write_at_inside by (rewrite !blen_enc_v2hdr; reflexivity).
    assert (Hpre0 : blen (pragma ++ enc_v2hdr (mkv2 0 0 0 0 0) ++ zerosN (w_dpad o)) = 51 + w_dpad o)
      by (rewrite !blen_app, blen_pragma, blen_enc_v2hdr, blen_zerosN; lia).
    replace (pragma ++ enc_v2hdr (mkv2 0 0 0 0 0) ++ zerosN (w_dpad o) ++ ld hdr ++ enc_sections st)
      with ((pragma ++ enc_v2hdr (mkv2 0 0 0 0 0) ++ zerosN (w_dpad o)) ++ ld hdr ++ enc_sections st)
      by (rewrite <- !app_assoc; reflexivity).
    rewrite (drop_app_len _ _ _ Hpre0).
    rewrite <- hdr_len_nil with (nilroots := nilroots). fold hdr. fold hsz.
    replace hsz with (blen (ld hdr)) at 1 by (rewrite blen_ld_eq; reflexivity).
    rewrite resume_scan_sections.
    - rewrite blen_ld_eq. fold hsz. unfold resumed_state, live_file, base_file, v2_prefix, idx_of, zero_hdr_log.
      rewrite Ev. rewrite zerosN_add, zero_hdr_enc, <- !app_assoc. reflexivity.
    - exact Hc.
    - rewrite blen_ld_eq; fold hsz; lia.
    - rewrite app_length; pose proof (enc_sections_len st) as Hl; unfold block in *; lia.
  Qed.

  (* ---- a segment end followed by reopen (L7) ----------------------------------------------------- *)
  Definition cut_file (c : cut) (st : list block) : bytes :=
    match c with
    | CDiscard => live_file st
    | CFinalize =>
        if w_v1 o then live_file st
        else match ii_flatten (w_codec o) (idx_of st) with
             | None => live_file st
             | Some fi => fin_file st fi
             end
    end.

  Lemma set_flags_file s a b : ws_file (set_flags s a b) = ws_file s.
  Proof. reflexivity. Qed.

  Lemma store_finalize_file s st :
    ws_file s = live_file st -> ws_pos s = pos_of st -> ws_idx s = idx_of st -> ws_opts s = o ->
    d_faults (ws_dev s) = [] -> w_v1 o = false -> fits st ->
    ws_file (fst (store_finalize s)) =
      match ii_flatten (w_codec o) (idx_of st) with None => live_file st | Some fi => fin_file st fi end.
  Proof.
    intros Hfile Hpos Hidx Hopts Hfaults Ev Hfit.
    destruct (ii_flatten (w_codec o) (idx_of st)) as [fi|] eqn:Efl.
    - rewrite (store_finalize_eq s st fi) by (try assumption; rewrite Hidx; exact Efl). reflexivity.
    - unfold store_finalize. rewrite Hopts, Hidx, Efl. exact Hfile.
  Qed.

  Lemma end_seg_file s st c : Inv s st -> ws_file (end_seg c s) = cut_file c st.
  Proof.
    intros [Hfile Hidx Hpos Hcl Hfin Hroots Hopts Hkind Hfaults Hcids Hfits].
    destruct c; unfold end_seg, cut_file.
    - unfold fe_discard. destruct (ws_kind s); exact Hfile.
    - unfold fe_finalize. destruct (ws_kind s).
      + unfold bs_finalize, bs_finalize_ro. rewrite Hopts, Hcl, Hfin.
        destruct (w_v1 o) eqn:Ev.
        * destruct (bs_close (set_flags s false true)) as [s2 r2] eqn:Ec. cbn [fst].
          unfold bs_close in Ec. cbn [set_flags ws_opts ws_finalized ws_closed] in Ec.
          rewrite Hopts, Ev in Ec. cbn [negb andb] in Ec. injection Ec as <- _. exact Hfile.
        * destruct (store_finalize (set_flags s false true)) as [s1 r1] eqn:Es.
          assert (Hf1 : ws_file s1 = match ii_flatten (w_codec o) (idx_of st) with None => live_file st | Some fi => fin_file st fi end).
          { replace s1 with (fst (store_finalize (set_flags s false true))) by (rewrite Es; reflexivity).
            apply store_finalize_file; assumption. }
          destruct (bs_close s1) as [s2 r2] eqn:Ec. cbn [fst].
          unfold bs_close in Ec.
          destruct (negb (w_v1 (ws_opts s1)) && negb (ws_finalized s1)); [injection Ec as <- _; exact Hf1|].
          destruct (ws_closed s1); injection Ec as <- _; exact Hf1.
      + unfold st_finalize. rewrite Hopts, Hcl, Hfin.
        destruct (w_v1 o) eqn:Ev; [exact Hfile|].
        apply store_finalize_file; assumption.
  Qed.

  Lemma live_file_nonempty st : live_file st <> [].
  Proof.
    unfold live_file, base_file. intros X. apply app_eq_nil in X. destruct X as [X _].
    apply app_eq_nil in X. destruct X as [_ X]. exact (ld_nonempty _ X).
  Qed.
  Lemma fin_file_nonempty st fi : fin_file st fi <> [].
  Proof. unfold fin_file. discriminate. Qed.

  Lemma reopen_nonempty file : file <> [] ->
    reopen hdrdec k o nilroots roots file = resume hdrdec k true o roots file [].
  Proof. intros H. unfold reopen. destruct k; [destruct file; [congruence|reflexivity]|reflexivity]. Qed.

  (* L7: whatever way the segment ended, reopening yields the state of an uninterrupted session *)
  Lemma reopen_after_cut c st : Forall stored_ok st -> fits st ->
    exists log, reopen hdrdec k o nilroots roots (cut_file c st) = inl (resumed_state log st).
  Proof.
    intros Hc Hfit. unfold cut_file.
    destruct c; [|destruct (w_v1 o) eqn:Ev; [|destruct (ii_flatten (w_codec o) (idx_of st)) as [fi|]]].
    - rewrite reopen_nonempty by apply live_file_nonempty. rewrite resume_live by assumption. eexists; reflexivity.
    - rewrite reopen_nonempty by apply live_file_nonempty. rewrite resume_live by assumption. eexists; reflexivity.
    - rewrite reopen_nonempty by apply fin_file_nonempty. rewrite resume_fin by assumption. eexists; reflexivity.
    - rewrite reopen_nonempty by apply live_file_nonempty. rewrite resume_live by assumption. eexists; reflexivity.
  Qed.

  Lemma abs_puts_size bs : forall st,
    blen (enc_sections (abs_puts st bs)) <= blen (enc_sections st) + blen (enc_sections bs).
  Proof.
    induction bs as [|b t IH]; intros st.
    { unfold abs_puts. cbn [fold_left]. change (enc_sections []) with (@nil byte). rewrite blen_nil. lia. }
    unfold abs_puts. cbn [fold_left]. fold (abs_puts (abs_put st b) t).
    specialize (IH (abs_put st b)). pose proof (abs_put_size st b).
    change (b :: t) with ([b] ++ t). rewrite enc_sections_app, blen_app. lia.
  Qed.
  Lemma abs_puts_app st a b : abs_puts st (a ++ b) = abs_puts (abs_puts st a) b.
  Proof. unfold abs_puts. apply fold_left_app. Qed.

  Definition budget (st : list block) (bs : list block) : Prop :=
    51 + w_dpad o + w_ipad o + hsz + blen (enc_sections st) + blen (enc_sections bs) < two63.

  Lemma run_segs_inv segs : forall s st,
    Inv s st -> budget st (concat (map fst segs)) ->
    exists sN, run_segs hdrdec nilroots s segs = Some sN /\ Inv sN (abs_puts st (concat (map fst segs))).
  Proof.
    induction segs as [|[bs c] t IH]; intros s st HI Hb.
    - exists s. split; [reflexivity|exact HI].
    - cbn [run_segs map concat fst]. cbn [map concat fst] in Hb. unfold budget in Hb.
      rewrite enc_sections_app, blen_app in Hb.
      assert (HI1 : Inv (run_puts s bs) (abs_puts st bs)) by (apply run_puts_inv; [exact HI|lia]).
      rewrite (end_seg_file _ _ c HI1).
      rewrite (inv_kind _ _ HI), (inv_opts _ _ HI), (inv_roots _ _ HI).
      pose proof (abs_puts_size bs st) as Hsz.
      destruct (reopen_after_cut c (abs_puts st bs) (inv_cids _ _ HI1) (inv_fits _ _ HI1)) as (log & Hre).
      rewrite Hre.
      destruct (IH (resumed_state log (abs_puts st bs)) (abs_puts st bs)) as (sN & HsN & HIN).
      + apply resumed_state_inv; [exact (inv_cids _ _ HI1)|exact (inv_fits _ _ HI1)].
      + unfold budget. lia.
      + exists sN. split; [exact HsN|]. rewrite abs_puts_app. exact HIN.
  Qed.

  (* C12, first half *)
  Theorem transparent segs last s0 :
    kind_ok -> budget [] (concat (map fst segs) ++ last) ->
    open_new k o nilroots roots [] = Ok s0 ->
    exists sN, run_segs hdrdec nilroots s0 segs = Some sN /\
      ws_file (fst (fe_finalize (run_puts sN last))) =
      ws_file (fst (fe_finalize (run_puts s0 (concat (map fst segs) ++ last)))).
  Proof.
    intros Hk Hb Hopen. unfold budget in Hb. cbn [enc_sections map concat] in Hb. rewrite blen_nil in Hb.
    rewrite enc_sections_app, blen_app in Hb.
    assert (Hf0 : fits []) by (unfold fits; cbn [enc_sections map concat]; rewrite blen_nil; lia).
    rewrite open_new_eq in Hopen by assumption. injection Hopen as <-.
    pose proof (open_state_inv Hf0) as HI0.
    destruct (run_segs_inv segs open_state [] HI0) as (sN & HsN & HIN).
    { unfold budget. cbn [enc_sections map concat]. rewrite blen_nil. lia. }
    exists sN. split; [exact HsN|].
    pose proof (abs_puts_size (concat (map fst segs)) []) as Hsz. cbn [enc_sections map concat] in Hsz. rewrite blen_nil in Hsz.
    assert (HA : Inv (run_puts sN last) (abs_puts [] (concat (map fst segs) ++ last))).
    { rewrite abs_puts_app. apply run_puts_inv; [exact HIN|lia]. }
    assert (HB : Inv (run_puts open_state (concat (map fst segs) ++ last)) (abs_puts [] (concat (map fst segs) ++ last))).
    { apply run_puts_inv; [exact HI0|]. cbn [enc_sections map concat]. rewrite blen_nil, enc_sections_app, blen_app. lia. }
    change (fst (fe_finalize (run_puts sN last))) with (end_seg CFinalize (run_puts sN last)).
    change (fst (fe_finalize (run_puts open_state (concat (map fst segs) ++ last))))
      with (end_seg CFinalize (run_puts open_state (concat (map fst segs) ++ last))).
    rewrite (end_seg_file _ _ _ HA), (end_seg_file _ _ _ HB). reflexivity.
  Qed.
End Inv.
