(* L5/L7 for the writable stores: the layout invariant of an open, fault-free writing session,
   its preservation by Put, and resumption (after Discard or after Finalize) re-establishing it. *)
From GoCar Require Import Bytes Varint Cid Header Frame V2Header Index Scan Store Crash.
From GoCarProofs Require Import BytesFacts VarintFacts CidFacts ResumeFacts.

Lemma hdr_len_nil nilroots roots :
  blen (enc_header (roots_opt nilroots roots) 1) = blen (enc_header (Some roots) 1).
Proof. destruct roots; [destruct nilroots|]; reflexivity. Qed.

Lemma header_chunks_concat nilroots roots :
  concat (header_chunks nilroots roots) = ld (enc_header (roots_opt nilroots roots) 1).
Proof. unfold header_chunks, ld_chunks, ld. cbn [fold_left concat]. rewrite app_nil_r. reflexivity. Qed.
Lemma ld_chunks_section c d : concat (ld_chunks [c; d]) = enc_section c d.
Proof.
  unfold ld_chunks, enc_section. cbn [fold_left concat]. rewrite app_nil_r.
  replace (0 + blen c + blen d) with (blen c + blen d) by lia. reflexivity.
Qed.

Lemma hdr_of_doff o : 51 + w_dpad o < two64 -> h_doff (hdr_of o) = 51 + w_dpad o.
Proof.
  intros H. unfold hdr_of.
  destruct (0 <? w_dpad o) eqn:E1; destruct (0 <? w_ipad o) eqn:E2;
    cbn [h_doff with_index_padding with_data_padding new_header]; unfold wrap64;
    try (rewrite N.mod_small by exact H; reflexivity); lia.
Qed.
Lemma hdr_of_ioff o : 51 + w_dpad o + w_ipad o < two64 -> h_ioff (hdr_of o) = 51 + w_dpad o + w_ipad o.
Proof.
  intros H. unfold hdr_of.
  assert (W51 : wrap64 (51 + 0) = 51) by reflexivity.
  destruct (0 <? w_dpad o) eqn:E1; destruct (0 <? w_ipad o) eqn:E2;
    cbn [h_ioff with_index_padding with_data_padding new_header]; rewrite W51; unfold wrap64.
  - rewrite (N.mod_small (51 + w_dpad o)) by lia. rewrite N.mod_small by lia. reflexivity.
  - rewrite N.mod_small by lia. lia.
  - rewrite N.mod_small by lia. lia.
  - lia.
Qed.
Lemma hdr_of_hi o : h_hi (hdr_of o) = 0 /\ h_lo (hdr_of o) = 0 /\ h_dsize (hdr_of o) = 0.
Proof. unfold hdr_of. destruct (0 <? w_dpad o); destruct (0 <? w_ipad o); repeat split. Qed.

Lemma data_base_v2 o : w_v1 o = false -> 51 + w_dpad o < two64 -> data_base o = 51 + w_dpad o.
Proof. intros Hv H. unfold data_base. rewrite Hv. apply hdr_of_doff. exact H. Qed.
Lemma data_base_v1 o : w_v1 o = true -> data_base o = 0.
Proof. intros Hv. unfold data_base. rewrite Hv. reflexivity. Qed.

Lemma blen_pragma : blen pragma = 11.
Proof. reflexivity. Qed.
Lemma write_pragma : write_at [] 0 pragma = pragma.
Proof. reflexivity. Qed.

Lemma zerosN_add a b : zerosN (a + b) = zerosN a ++ zerosN b.
Proof.
  unfold zerosN. rewrite N2Nat.inj_add. induction (N.to_nat a) as [|n IH]; [reflexivity|].
  cbn [Nat.add zeros app]. rewrite IH. reflexivity.
Qed.
Lemma zero_hdr_enc : zerosN 40 = enc_v2hdr (mkv2 0 0 0 0 0).
Proof. reflexivity. Qed.
Lemma zero_hdr_chunks : concat (v2hdr_chunks (mkv2 0 0 0 0 0)) = zerosN 40.
Proof. reflexivity. Qed.
Lemma v2hdr_chunks_concat h : concat (v2hdr_chunks h) = enc_v2hdr h.
Proof. unfold v2hdr_chunks, enc_v2hdr. cbn [concat]. rewrite app_nil_r, <- !app_assoc. reflexivity. Qed.
Lemma blen_pragma_body : blen pragma_body = 10.
Proof. reflexivity. Qed.

Lemma header_matches_refl roots : header_matches roots 1 roots = true.
Proof.
  unfold header_matches. rewrite !N.eqb_refl. cbn [andb].
  assert (H : forallb (roots_contains roots) roots = true).
  { apply forallb_forall. intros x Hx. unfold roots_contains. apply existsb_exists.
    exists x. split; [exact Hx|apply bytes_eqb_refl]. }
  destruct roots as [|a [|b t]]; [reflexivity|apply bytes_eqb_refl|exact H].
Qed.

Section Inv.
  Variable hdrdec : bytes -> option (list bytes * N).
  Variables (k : skind) (o : wopts) (nilroots : bool) (roots : list bytes).

  Definition hdr : bytes := enc_header (roots_opt nilroots roots) 1.
  Definition hsz : N := ld_size (blen hdr).
  Definition v2_prefix : bytes := pragma ++ zerosN (40 + w_dpad o).
  Definition base_file : bytes := (if w_v1 o then [] else v2_prefix) ++ ld hdr.
  Definition idx_of (st : list block) : iidx := ii_load (records_from hsz st) [].

  (* what a Put does to the list of stored blocks (the decision is ShouldPut's) *)
  Definition abs_put (st : list block) (b : block) : list block :=
    match cid_parse (fst b) with
    | None => st
    | Some p => match should_put o (idx_of st) (fst b) p with Ok true => st ++ [b] | _ => st end
    end.
  Definition abs_puts (st : list block) (bs : list block) : list block := fold_left abs_put bs st.

  Definition fits (st : list block) : Prop :=
    51 + w_dpad o + w_ipad o + hsz + blen (enc_sections st) < two63.

  Record params_ok : Prop := {
    po_hdr : hdrdec hdr = Some (roots, 1);
    po_pragma : exists r, hdrdec pragma_body = Some (r, 2);
    po_maxh : blen hdr <= w_maxh o;
    po_maxh0 : blen hdr <= default_maxh;
    po_cid : w_maxcid o <= max_digest_alloc }.

  Record Inv (s : wstate) (st : list block) : Prop := {
    inv_file : ws_file s = base_file ++ enc_sections st;
    inv_idx : ws_idx s = idx_of st;
    inv_pos : ws_pos s = hsz + blen (enc_sections st);
    inv_closed : ws_closed s = false;
    inv_fin : ws_finalized s = false;
    inv_roots : ws_roots s = roots;
    inv_opts : ws_opts s = o;
    inv_kind : ws_kind s = k;
    inv_faults : d_faults (ws_dev s) = [];
    inv_cids : Forall stored_ok st;
    inv_fits : fits st }.

  Lemma blen_base_file : 51 + w_dpad o < two64 -> blen base_file = data_base o + hsz.
  Proof.
    intros H. unfold base_file, hsz, v2_prefix. destruct (w_v1 o) eqn:Ev.
    - rewrite data_base_v1 by exact Ev. cbn [app]. rewrite blen_ld_eq. lia.
    - rewrite data_base_v2 by assumption. rewrite !blen_app, blen_zerosN, blen_ld_eq.
      rewrite blen_pragma. lia.
  Qed.

  Lemma hsz_pos : 1 <= hsz.
  Proof. unfold hsz, ld_size. pose proof (uv_size_pos (blen hdr)). lia. Qed.

  (* ---- open on an empty file ------------------------------------------------------------ *)
  Definition kind_ok : Prop :=
    match k with KStorage false => negb (w_v1 o) | _ => false end = false.
  Definition open_log : list wr :=
    rev (chunk_log (data_base o) (header_chunks nilroots roots)) ++ (if w_v1 o then [] else [WrAt 0 pragma]).
  Definition open_state : wstate :=
    mkws (mkdev base_file open_log []) [] hsz false false roots o k.

  Lemma fits_nil_64 : fits [] -> 51 + w_dpad o + w_ipad o + hsz < two63.
  Proof. unfold fits. cbn [enc_sections map concat]. rewrite blen_nil. lia. Qed.

  Lemma ld_nonempty payload : ld payload <> [].
  Proof. unfold ld. intros X. apply app_eq_nil in X. destruct X as [X _]. exact (put_uv_nonempty _ X). Qed.

  Lemma open_new_eq : kind_ok -> fits [] -> open_new k o nilroots roots [] = Ok open_state.
  Proof.
    intros Hk Hfit. apply fits_nil_64 in Hfit.
    assert (H64 : 51 + w_dpad o < two64) by (unfold two63, two64 in *; lia).
    unfold open_new. rewrite Hk. unfold open_state, open_log, base_file, v2_prefix.
    destruct (w_v1 o) eqn:Ev.
    - rewrite write_chunks_nofault by reflexivity.
      rewrite header_chunks_concat, data_base_v1 by exact Ev.
      cbv beta iota zeta delta [negb d_file d_log].
      change 0 with (blen (@nil byte)) at 1. rewrite write_at_append.
      fold hdr. rewrite blen_ld_eq. fold hsz. rewrite app_nil_r. cbn [app blen length N.of_nat].
      replace (0 + hsz - 0) with hsz by lia. reflexivity.
    - rewrite dev_write_nofault by reflexivity.
      cbv beta iota zeta delta [negb d_file d_log].
      rewrite write_chunks_nofault by reflexivity.
      rewrite header_chunks_concat, data_base_v2 by assumption.
      cbv beta iota zeta delta [negb d_file d_log].
      rewrite write_pragma. rewrite write_at_hole; [|rewrite blen_pragma; lia|apply ld_nonempty].
      rewrite blen_pragma. fold hdr. rewrite blen_ld_eq. fold hsz.
      replace (51 + w_dpad o - 11) with (40 + w_dpad o) by lia.
      replace (51 + w_dpad o + hsz - (51 + w_dpad o)) with hsz by lia.
      rewrite <- app_assoc. reflexivity.
  Qed.

  Lemma open_state_inv : fits [] -> Inv open_state [].
  Proof.
    intros Hfit. constructor; try reflexivity.
    - unfold open_state, ws_file. cbn [ws_dev d_file enc_sections map concat]. rewrite app_nil_r. reflexivity.
    - cbn [enc_sections map concat]. rewrite blen_nil. cbn [open_state ws_pos]. lia.
    - constructor.
    - exact Hfit.
  Qed.

  (* ---- Put ---------------------------------------------------------------------------------- *)
  Hypothesis Hpar : params_ok.

  Lemma should_put_true_len ii c p : should_put o ii c p = Ok true -> blen c <= w_maxcid o.
  Proof.
    unfold should_put. destruct (negb (w_storeid o) && is_identity p); [discriminate|].
    destruct (w_maxcid o <? blen c) eqn:E; [discriminate|]. intros _. lia.
  Qed.

  Lemma abs_put_cases st b : abs_put st b = st \/
    (abs_put st b = st ++ [b] /\ exists p, cid_parse (fst b) = Some p /\ should_put o (idx_of st) (fst b) p = Ok true).
  Proof.
    unfold abs_put. destruct (cid_parse (fst b)) as [p|] eqn:Ep; [|left; reflexivity].
    destruct (should_put o (idx_of st) (fst b) p) as [[|]|e] eqn:Es; try (left; reflexivity).
    right. split; [reflexivity|]. exists p. split; [reflexivity|exact Es].
  Qed.

  Lemma put_one_inv s st c d p :
    Inv s st -> cid_parse c = Some p -> fits (abs_put st (c, d)) ->
    Inv (fst (put_one s c d p)) (abs_put st (c, d)).
  Proof.
    intros HI Hp Hfit. destruct HI as [Hfile Hidx Hpos Hcl Hfin Hroots Hopts Hkind Hfaults Hcids Hfits].
    assert (H64 : 51 + w_dpad o < two64) by (unfold fits, two63, two64 in *; lia).
    unfold abs_put in *. cbn [fst] in *. rewrite Hp in *.
    unfold put_one. rewrite Hopts, Hidx.
    destruct (should_put o (idx_of st) c p) as [[|]|e] eqn:Es;
      [|constructor; assumption|constructor; assumption].
    rewrite write_chunks_nofault by exact Hfaults.
    cbv beta iota zeta. rewrite ld_chunks_section.
    assert (Hbl : data_base o + ws_pos s = blen (ws_file s)).
    { rewrite Hfile, Hpos, blen_app, blen_base_file by exact H64. lia. }
    cbn [fst].
    constructor; cbn [set_idx set_dev ws_file ws_dev d_file ws_idx ws_pos ws_closed ws_finalized ws_roots ws_opts ws_kind d_faults];
      try assumption; try reflexivity.
    - fold (ws_file s). rewrite Hbl, write_at_append, Hfile. rewrite enc_sections_app, <- app_assoc.
      cbn [enc_sections map concat fst snd]. rewrite app_nil_r. reflexivity.
    - unfold idx_of. rewrite records_from_app, ii_load_app. cbn [records_from]. rewrite Hp.
      cbn [ii_load fold_left]. rewrite Hpos, Hidx. reflexivity.
    - rewrite enc_sections_app, blen_app. cbn [enc_sections map concat fst snd]. rewrite app_nil_r.
      rewrite Hpos. lia.
    - apply Forall_app. split; [exact Hcids|]. constructor; [|constructor].
      exists p. cbn [fst]. split; [exact Hp|].
      pose proof (should_put_true_len _ _ _ Es). pose proof (cid_parse_digest_le _ _ Hp).
      pose proof (po_cid Hpar). lia.
  Qed.

  Lemma fe_put_inv s st b :
    Inv s st -> fits (abs_put st b) -> Inv (fst (fe_put s b)) (abs_put st b).
  Proof.
    intros HI Hfit. destruct b as [c d].
    assert (Hnone : cid_parse c = None -> abs_put st (c, d) = st).
    { intros E. unfold abs_put. cbn [fst]. rewrite E. reflexivity. }
    unfold fe_put. destruct (ws_kind s).
    - unfold bs_put_many. rewrite (inv_closed _ _ HI), (inv_fin _ _ HI). cbn [put_many_loop].
      destruct (cid_parse c) as [p|] eqn:Ep.
      + pose proof (put_one_inv s st c d p HI Ep Hfit) as HI'.
        destruct (put_one s c d p) as [s' [| | | | |]]; exact HI'.
      + rewrite Hnone by reflexivity. exact HI.
    - unfold st_put. cbn [fst snd]. destruct (cid_parse c) as [p|] eqn:Ep.
      + rewrite (inv_closed _ _ HI). apply put_one_inv; assumption.
      + rewrite Hnone by reflexivity. exact HI.
  Qed.

  Lemma abs_put_size st b :
    blen (enc_sections (abs_put st b)) <= blen (enc_sections st) + blen (enc_sections [b]).
  Proof.
    destruct (abs_put_cases st b) as [->|[-> _]]; [lia|]. rewrite enc_sections_app, blen_app. lia.
  Qed.

  Lemma run_puts_inv bs : forall s st,
    Inv s st ->
    51 + w_dpad o + w_ipad o + hsz + blen (enc_sections st) + blen (enc_sections bs) < two63 ->
    Inv (run_puts s bs) (abs_puts st bs).
  Proof.
    induction bs as [|b t IH]; intros s st HI Hfit; [exact HI|].
    unfold run_puts, abs_puts. cbn [fold_left]. fold (run_puts (fst (fe_put s b)) t). fold (abs_puts (abs_put st b) t).
    change (b :: t) with ([b] ++ t) in Hfit. rewrite enc_sections_app, blen_app in Hfit.
    pose proof (abs_put_size st b) as Hsz.
    apply IH; [apply fe_put_inv; [exact HI|unfold fits; lia]|lia].
  Qed.

  (* ---- Resume (L7) ------------------------------------------------------------------------------ *)
  Definition zero_hdr_log : list wr := rev (chunk_log pragma_size (v2hdr_chunks (mkv2 0 0 0 0 0))).
  Definition live_file (st : list block) : bytes := base_file ++ enc_sections st.
  (* the state Resume builds (log = the writes Resume itself issued, newest first) *)
  Definition resumed_state (log : list wr) (st : list block) : wstate :=
    mkws (mkdev (live_file st) log []) (idx_of st) (hsz + blen (enc_sections st)) false false roots o k.

  Lemma resumed_state_inv log st : Forall stored_ok st -> fits st -> Inv (resumed_state log st) st.
  Proof. intros Hc Hf. constructor; try reflexivity; assumption. Qed.

  Lemma hdr_lt63 : fits [] -> blen hdr < two63.
  Proof. intros H. apply fits_nil_64 in H. unfold hsz, ld_size in H. lia. Qed.

  Lemma fits_mono st : fits st -> fits [].
  Proof. unfold fits. cbn [enc_sections map concat]. rewrite blen_nil. lia. Qed.

  (* reading the CARv1 header at the payload start *)
  Lemma read_payload_header maxh rest : fits [] -> blen hdr <= maxh ->
    read_header hdrdec maxh (ld hdr ++ rest) = Ok (roots, 1, rest, hsz).
  Proof. intros Hf Hm. apply read_header_ld; [exact (po_hdr Hpar)|exact Hm|apply hdr_lt63; exact Hf]. Qed.

  Lemma resume_live st : Forall stored_ok st -> fits st ->
    resume hdrdec k true o roots (live_file st) [] =
      inl (resumed_state (if w_v1 o then [] else zero_hdr_log) st).
  Proof.
    intros Hc Hfit. pose proof (fits_mono _ Hfit) as Hfit0. pose proof (fits_nil_64 Hfit0) as Hf0.
    assert (H64 : 51 + w_dpad o < two64) by (unfold two63, two64 in *; lia).
    destruct Hpar as [Hhdr [r0 Hprag] Hmaxh Hmaxh0 Hcid].
    unfold resume, live_file, base_file.
    destruct (w_v1 o) eqn:Ev.
    - (* CARv1 *)
      cbn [app].
      rewrite read_payload_header by assumption.
      cbn [N.eqb Pos.eqb andb orb negb].
      rewrite data_base_v1 by exact Ev. rewrite drop_0.
      rewrite read_payload_header by assumption.
      rewrite header_matches_refl. cbn [negb].
      cbv beta iota zeta delta [d_file].
      rewrite drop_0.
      rewrite <- hdr_len_nil with (nilroots := nilroots). fold hdr. fold hsz.
      replace hsz with (blen (ld hdr)) at 1 by (rewrite blen_ld_eq; reflexivity).
      rewrite resume_scan_sections.
      + rewrite blen_ld_eq. fold hsz. unfold resumed_state, live_file, base_file, idx_of. rewrite Ev. reflexivity.
      + exact Hc.
      + rewrite blen_ld_eq; fold hsz; unfold fits in Hfit; lia.
      + rewrite app_length; pose proof (enc_sections_len st) as Hl; unfold block in *; lia.
    - (* CARv2, header still zero *)
      unfold v2_prefix. rewrite pragma_is_ld at 1. rewrite <- !app_assoc.
      rewrite (read_header_ld hdrdec default_maxh pragma_body r0 2) by
        (try exact Hprag; rewrite blen_pragma_body; unfold default_maxh, two63; lia).
      cbn [N.eqb Pos.eqb andb orb negb].
      rewrite data_base_v2 by assumption.
      rewrite (drop_app_len pragma_size pragma) by reflexivity.
      rewrite zerosN_add, zero_hdr_enc, <- !app_assoc.
      rewrite read_v2hdr_enc by (repeat split; reflexivity).
      cbn [h_doff as_int64 N.ltb N.compare Z.ltb Z.compare Z.of_N].
      admit.
  Admitted.
End Inv.
