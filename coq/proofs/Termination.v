(* Termination part of C09 for the loops modelled with fuel: the out-of-fuel outcome is
   unreachable with the fuel the entry points pass, for EVERY byte string and option row,
   because every iteration consumes at least one byte. *)
From GoCar Require Import Bytes Varint Cid Header Frame V2Header Scan Index.
From GoCarProofs Require Import BytesFacts VarintFacts.

(* ---- a successful varint read consumes n - i >= 1 bytes ------------------------------------- *)
Lemma read_uv_f_consumes : forall fuel i x s v rest n,
  read_uv_f fuel i x s = VOk v rest n -> i < n /\ blen s = (n - i) + blen rest.
Proof.
  induction fuel as [|f IH]; intros i x s v rest n H; cbn [read_uv_f] in H; [discriminate|].
  destruct s as [|b t]; [destruct (i =? 0); discriminate|].
  destruct (((i =? 8) && (128 <=? b2n b)) || (9 <=? i)); [discriminate|].
  destruct (b2n b <? 128).
  - destruct ((b2n b =? 0) && (0 <? i)); [discriminate|]. inversion H; subst.
    rewrite blen_cons. lia.
  - apply IH in H. rewrite blen_cons. lia.
Qed.
Lemma read_uv_consumes s v rest n : read_uv s = VOk v rest n -> 0 < n /\ blen s = n + blen rest.
Proof. intros H. apply read_uv_f_consumes in H. lia. Qed.

Lemma read_uv_std_f_consumes : forall fuel i x s v rest n,
  read_uv_std_f fuel i x s = VOk v rest n -> i < n /\ blen s = (n - i) + blen rest.
Proof.
  induction fuel as [|f IH]; intros i x s v rest n H; cbn [read_uv_std_f] in H; [discriminate|].
  destruct s as [|b t]; [destruct (i =? 0); discriminate|].
  destruct (b2n b <? 128).
  - destruct ((i =? 9) && (1 <? b2n b)); [discriminate|]. inversion H; subst. rewrite blen_cons. lia.
  - destruct (i =? 9); [discriminate|]. apply IH in H. rewrite blen_cons. lia.
Qed.
Lemma read_uv_std_consumes s v rest n : read_uv_std s = VOk v rest n -> 0 < n /\ blen s = n + blen rest.
Proof. intros H. apply read_uv_std_f_consumes in H. lia. Qed.

(* ---- framing ----------------------------------------------------------------------------------- *)
Lemma ld_read_consumes zeof maxb s buf rest :
  ld_read zeof maxb s = Ok (buf, rest) -> blen rest < blen s /\ blen buf <= maxb.
Proof.
  unfold ld_read, ld_read_size. intros H.
  destruct (read_uv s) as [l r n| | | |] eqn:E; try discriminate.
  apply read_uv_consumes in E.
  destruct ((l =? 0) && zeof); [discriminate|].
  destruct (maxb <? l) eqn:Em; [discriminate|].
  destruct (blen r <? l) eqn:El; [discriminate|]. inversion H; subst.
  rewrite blen_drop, blen_take. lia.
Qed.

Lemma read_node_consumes zeof maxb s c p d rest :
  read_node zeof maxb s = Ok (c, p, d, rest) -> blen rest < blen s.
Proof.
  unfold read_node. intros H.
  destruct (ld_read zeof maxb s) as [[buf r]|] eqn:E; [|discriminate].
  apply ld_read_consumes in E.
  destruct (cid_from_bytes buf) as [[n q]|]; [|discriminate]. inversion H; subst. lia.
Qed.

Lemma ld_read_root_consumes s buf rest :
  ld_read_root s = Ok (buf, rest) -> blen rest < blen s.
Proof.
  unfold ld_read_root. intros H. destruct s as [|b t]; [discriminate|].
  destruct (read_uv_std (b :: t)) as [l r n| | | |] eqn:E; try discriminate.
  apply read_uv_std_consumes in E.
  destruct (root_max_section <? wrap64 l); [discriminate|].
  destruct (blen r <? wrap64 l) eqn:El; [discriminate|]. inversion H; subst.
  rewrite blen_drop. lia.
Qed.

Section Scan.
  Variable hok : bytes -> bytes -> option bool.

  Lemma next_block_consumes o s b rest : next_block hok o s = Ok (b, rest) -> blen rest < blen s.
  Proof.
    unfold next_block. intros H.
    destruct (read_node (o_zeof o) (o_maxs o) s) as [[[[c p] d] r]|] eqn:E; [|discriminate].
    apply read_node_consumes in E.
    destruct (o_trusted o); [inversion H; subst; exact E|].
    destruct (verify hok c p d); [inversion H; subst; exact E|discriminate].
  Qed.

  Lemma scan_blocks_no_fuel o : forall fuel s acc,
    (length s < fuel)%nat -> s_end (scan_blocks hok fuel o s acc) <> EFuel.
  Proof.
    induction fuel as [|f IH]; intros s acc Hf; [lia|]. cbn [scan_blocks].
    destruct (next_block hok o s) as [[b rest]|e] eqn:E.
    - apply IH. apply next_block_consumes in E. unfold blen in E. lia.
    - cbn [s_end]. unfold next_block in E.
      destruct (read_node (o_zeof o) (o_maxs o) s) as [[[[c p] d] r]|e'] eqn:E1.
      + destruct (o_trusted o); [discriminate|]. unfold verify in E.
        destruct (hash_matches hok c p d) as [[|]|]; inversion E; discriminate.
      + inversion E; subst. unfold read_node in E1.
        destruct (ld_read (o_zeof o) (o_maxs o) s) as [[buf r]|e''] eqn:E2.
        * destruct (cid_from_bytes buf) as [[n q]|]; inversion E1; discriminate.
        * inversion E1; subst. unfold ld_read, ld_read_size in E2.
          destruct (read_uv s) as [l r n| | | |]; try (inversion E2; discriminate).
          destruct ((l =? 0) && o_zeof o); [inversion E2; discriminate|].
          destruct (o_maxs o <? l); [inversion E2; discriminate|].
          destruct (blen r <? l); inversion E2; discriminate.
  Qed.

  (* C09 (termination): the v2 BlockReader / internal CARv1 reader loop never runs out of fuel *)
  Theorem scan_all_terminates o s : s_end (scan_all hok o s) <> EFuel.
  Proof. unfold scan_all. apply scan_blocks_no_fuel. lia. Qed.

  Lemma next_block_root_consumes s b rest : next_block_root hok s = Ok (b, rest) -> blen rest < blen s.
  Proof.
    unfold next_block_root, read_node_root. intros H.
    destruct (ld_read_root s) as [[buf r]|] eqn:E; [|discriminate].
    apply ld_read_root_consumes in E.
    destruct (cid_from_reader buf) as [n c p after| |]; try discriminate.
    destruct (verify hok c p after); [inversion H; subst; exact E|discriminate].
  Qed.

  Lemma scan_blocks_root_no_fuel : forall fuel s acc,
    (length s < fuel)%nat -> s_end (scan_blocks_root hok fuel s acc) <> EFuel.
  Proof.
    induction fuel as [|f IH]; intros s acc Hf; [lia|]. cbn [scan_blocks_root].
    destruct (next_block_root hok s) as [[b rest]|e] eqn:E.
    - apply IH. apply next_block_root_consumes in E. unfold blen in E. lia.
    - cbn [s_end]. unfold next_block_root, read_node_root in E.
      destruct (ld_read_root s) as [[buf r]|e'] eqn:E1.
      + destruct (cid_from_reader buf) as [n c p after| |]; try (inversion E; discriminate).
        unfold verify in E. destruct (hash_matches hok c p after) as [[|]|]; inversion E; discriminate.
      + inversion E; subst. unfold ld_read_root in E1. destruct s as [|b0 t]; [inversion E1; discriminate|].
        destruct (read_uv_std (b0 :: t)) as [l r n| | | |]; try (inversion E1; discriminate).
        destruct (root_max_section <? wrap64 l); [inversion E1; discriminate|].
        destruct (blen r <? wrap64 l); inversion E1; discriminate.
  Qed.

  Theorem scan_all_root_terminates s : s_end (scan_all_root hok s) <> EFuel.
  Proof. unfold scan_all_root. apply scan_blocks_root_no_fuel. lia. Qed.
End Scan.

(* ---- index.ReadFrom -------------------------------------------------------------------------- *)
Lemma swi_unmarshal_consumes s b rest : swi_unmarshal s = Ok (b, rest) -> blen rest + 12 <= blen s.
Proof.
  unfold swi_unmarshal. intros H.
  destruct (blen s <? 4) eqn:E1; [discriminate|].
  destruct (blen (drop 4 s) <? 8) eqn:E2; [discriminate|].
  destruct (le_dec (take 4 s) <? 8); [discriminate|].
  destruct (max_width <? le_dec (take 4 s)); [discriminate|].
  destruct (two63 <=? le_dec (take 8 (drop 4 s))); [discriminate|].
  destruct ((0 <? le_dec (take 8 (drop 4 s))) && (blen (drop 8 (drop 4 s)) =? 0)); [discriminate|].
  destruct (blen (drop 8 (drop 4 s)) <? le_dec (take 8 (drop 4 s))) eqn:E3; [discriminate|].
  inversion H; subst. rewrite !blen_drop in *. lia.
Qed.

Lemma swis_unmarshal_no_fuel : forall fuel count s m,
  (length s < fuel)%nat -> swis_unmarshal fuel count s m <> Err EFuel.
Proof.
  induction fuel as [|f IH]; intros count s m Hf; [lia|]. cbn [swis_unmarshal].
  destruct (count =? 0); [discriminate|].
  destruct (swi_unmarshal s) as [[b rest]|e] eqn:E.
  - apply IH. apply swi_unmarshal_consumes in E. unfold blen in E. lia.
  - unfold swi_unmarshal in E.
    repeat match type of E with
           | (if ?c then _ else _) = _ => destruct c; try (inversion E; discriminate)
           end.
Qed.

Lemma mwi_unmarshal_no_fuel s : mwi_unmarshal s <> Err EFuel.
Proof.
  unfold mwi_unmarshal. destruct (blen s <? 4); [discriminate|].
  destruct (two31 <=? le_dec (take 4 s)); [discriminate|].
  apply swis_unmarshal_no_fuel. pose proof (blen_drop 4 s) as Hd. unfold blen in Hd. lia.
Qed.

Lemma swis_unmarshal_consumes : forall fuel count s m m' rest,
  swis_unmarshal fuel count s m = Ok (m', rest) -> blen rest <= blen s.
Proof.
  induction fuel as [|f IH]; intros count s m m' rest H; cbn [swis_unmarshal] in H; [discriminate|].
  destruct (count =? 0); [inversion H; subst; lia|].
  destruct (swi_unmarshal s) as [[b r]|e] eqn:E; [|discriminate].
  apply swi_unmarshal_consumes in E. apply IH in H. lia.
Qed.
Lemma mwi_unmarshal_consumes s m rest : mwi_unmarshal s = Ok (m, rest) -> blen rest + 4 <= blen s.
Proof.
  unfold mwi_unmarshal. intros H. destruct (blen s <? 4) eqn:E; [discriminate|].
  destruct (two31 <=? le_dec (take 4 s)); [discriminate|].
  apply swis_unmarshal_consumes in H. rewrite blen_drop in H. lia.
Qed.

Lemma mwcis_unmarshal_no_fuel : forall fuel count s m,
  (length s < fuel)%nat -> mwcis_unmarshal fuel count s m <> Err EFuel.
Proof.
  induction fuel as [|f IH]; intros count s m Hf; [lia|]. cbn [mwcis_unmarshal].
  destruct (count =? 0); [discriminate|].
  destruct (blen s <? 8) eqn:E8; [discriminate|].
  destruct (mwi_unmarshal (drop 8 s)) as [[w rest]|e] eqn:E.
  - apply IH. apply mwi_unmarshal_consumes in E. rewrite blen_drop in E. unfold blen in *. lia.
  - intros Habs. inversion Habs; subst. exact (mwi_unmarshal_no_fuel _ E).
Qed.

Lemma mh_unmarshal_no_fuel s : mh_unmarshal s <> Err EFuel.
Proof.
  unfold mh_unmarshal. destruct (blen s <? 4); [discriminate|].
  destruct (two31 <=? le_dec (take 4 s)); [discriminate|].
  apply mwcis_unmarshal_no_fuel. pose proof (blen_drop 4 s) as Hd. unfold blen in Hd. lia.
Qed.

(* C09 (termination): index.ReadFrom never runs out of fuel, whatever counts the bytes declare *)
Theorem idx_read_terminates s : idx_read s <> Err EFuel.
Proof.
  unfold idx_read. destruct (read_uv s) as [codec rest n| | | |]; try discriminate.
  destruct (codec =? codec_sorted).
  - destruct (mwi_unmarshal rest) as [[m r]|e] eqn:E; [discriminate|].
    intros H. inversion H; subst. exact (mwi_unmarshal_no_fuel _ E).
  - destruct (codec =? codec_mh_sorted); [|discriminate].
    destruct (mh_unmarshal rest) as [[m r]|e] eqn:E; [discriminate|].
    intros H. inversion H; subst. exact (mh_unmarshal_no_fuel _ E).
Qed.

(* ---- store.Resume's section loop --------------------------------------------------------------- *)
From GoCar Require Import Store.

Lemma resume_scan_no_fuel zeof base view : forall fuel pos ii,
  (1 <= fuel)%nat -> (length view + 1 <= fuel + N.to_nat pos)%nat ->
  resume_scan fuel zeof base view pos ii <> Err EFuel.
Proof.
  induction fuel as [|f IH]; intros pos ii H1 Hf; [lia|]. cbn [resume_scan].
  destruct (read_uv (drop pos view)) as [len r1 n1| | | |] eqn:E; try discriminate.
  apply read_uv_consumes in E. rewrite blen_drop in E.
  destruct (len =? 0) eqn:El; [destruct zeof; discriminate|].
  destruct (cid_from_reader r1) as [n c p rest| |]; try discriminate.
  destruct ((n <=? len) && (two63 <=? base + pos + n1 + len)); [discriminate|].
  unfold blen in E. apply IH; lia.
Qed.

(* C09 (termination): Resume's rescan never runs out of the fuel `resume` gives it *)
Theorem resume_scan_terminates zeof base view start :
  resume_scan (S (length view)) zeof base view start [] <> Err EFuel.
Proof. apply resume_scan_no_fuel; lia. Qed.
