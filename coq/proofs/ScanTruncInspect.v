(* C02 for full inspection and for SkipNext, as corollaries of C13 (Inspect(true) succeeds iff the
   hash-verifying BlockReader scan ends cleanly) and C14 (io.EOF only at a clean end):
   Reader.Inspect(true) on a constructed CARv1 cut anywhere but on a section boundary, or with a
   section whose bytes do not hash to its CID, fails -- and past the header never with io.EOF. *)
From GoCar Require Import Bytes Varint Cid Header Frame V2Header Scan Inspect BlockReaderPos.
From GoCarProofs Require Import BytesFacts VarintFacts CidFacts HeaderFacts ScanFacts ScanTrunc
  InspectFacts InspectC13 BlockReaderPosFacts BlockReaderPosC14.

Section Inspect.
  Variable hok : bytes -> bytes -> option bool.
  Variable hdrdec : bytes -> option (list bytes * N).

  (* NewReader + Inspect(true) on a file that starts with a complete version-1 header: never Ok when
     the verifying scan of the same bytes does not end cleanly, and the error is not io.EOF *)
  Lemma inspect_file_v1_fails o roots rest bl e :
    o_maxs o <= max_digest_alloc ->
    hdr_good hdrdec roots -> blen (enc_header (Some roots) 1) <= o_maxh o ->
    blen (enc_header (Some roots) 1) < two63 ->
    br_read_all hok hdrdec (untrusted o) (ld (enc_header (Some roots) 1) ++ rest)
      = Ok (1, roots, mkscan bl e) ->
    e <> EEof ->
    exists e', e' <> EEof /\
      inspect_file hok hdrdec o (ld (enc_header (Some roots) 1) ++ rest) true = Err e'.
  Proof.
    intros Hcap Hg Hmax H63 Hbr Hne.
    set (file := ld (enc_header (Some roots) 1) ++ rest) in *.
    assert (Hrh : read_header hdrdec (o_maxh o) file
                  = Ok (roots, 1, rest, ld_size (blen (enc_header (Some roots) 1))))
      by (apply read_header_payload; assumption).
    assert (Hnr : new_reader hdrdec o file = Ok (mkrdr 1 zero_v2hdr)).
    { unfold new_reader. rewrite Hrh. reflexivity. }
    unfold inspect_file. rewrite Hnr.
    destruct (inspect hok hdrdec o (mkrdr 1 zero_v2hdr) file true) as [st|e'] eqn:Ei.
    - exfalso. apply (c13_iff hok hdrdec o file _ Hcap Hnr) in Ei.
      destruct Ei as (roots' & blocks & codec & Hbr' & _). cbn [r_version] in Hbr'.
      rewrite Hbr in Hbr'. inversion Hbr'. congruence.
    - exists e'. split; [|reflexivity]. intros ->.
      destruct (inspect_eof_origin hok hdrdec o _ file true Ei) as [H|H].
      + unfold data_window in H. cbn [r_version N.eqb Pos.eqb] in H. rewrite Hrh in H. discriminate.
      + unfold index_codec in H. cbn [r_version N.eqb Pos.eqb negb andb] in H. discriminate.
  Qed.

  Lemma untrusted_archive_ok o roots bs :
    hdr_good hdrdec roots -> blen (enc_header (Some roots) 1) <= o_maxh o ->
    blen (enc_header (Some roots) 1) < two63 ->
    Forall (block_ok (o_maxs o)) bs -> Forall (hash_good hok) bs ->
    archive_ok hok hdrdec (untrusted o) roots bs.
  Proof. intros. repeat split; try assumption. intros _. assumption. Qed.

  (* (b) for Reader.Inspect(true) *)
  Theorem inspect_trunc_v1 o roots bs k :
    o_maxs o <= max_digest_alloc ->
    hdr_good hdrdec roots -> blen (enc_header (Some roots) 1) <= o_maxh o ->
    blen (enc_header (Some roots) 1) < two63 ->
    Forall (block_ok (o_maxs o)) bs -> Forall (hash_good hok) bs ->
    k < blen (enc_payload roots bs) ->
    ~ (exists j, (j <= length bs)%nat /\
                 k = blen (ld (enc_header (Some roots) 1)) + blen (enc_sections (firstn j bs))) ->
    exists e, inspect_file hok hdrdec o (take k (enc_payload roots bs)) true = Err e /\
              (blen (ld (enc_header (Some roots) 1)) <= k -> e <> EEof).
  Proof.
    intros Hcap Hg Hmax H63 Hok Hh Hk Hnb.
    pose proof (untrusted_archive_ok o roots bs Hg Hmax H63 Hok Hh) as Ha.
    destruct (br_read_all_trunc_v1 hok hdrdec (untrusted o) roots bs k Ha Hk Hnb)
      as [(Hlt & e & He)|(Hge & j & e & Hj & Hne & He)].
    - (* cut inside the header: NewReader fails *)
      unfold enc_payload in *. rewrite take_app_le in * by lia.
      destruct (read_header_trunc hok hdrdec (o_maxh o) (enc_header (Some roots) 1) k H63
                  (enc_header_nonempty _ _) Hlt) as (e0 & He0).
      exists e0. split; [|lia]. unfold inspect_file, new_reader. rewrite He0. reflexivity.
    - unfold enc_payload in *. rewrite take_app_ge in * by lia.
      destruct (inspect_file_v1_fails o roots _ _ e Hcap Hg Hmax H63 He Hne) as (e' & Hne' & Hi).
      exists e'. split; [exact Hi|]. intros _. exact Hne'.
  Qed.

  (* (c) for Reader.Inspect(true) *)
  Theorem inspect_corrupt_v1 o roots pre c d rest :
    o_maxs o <= max_digest_alloc ->
    hdr_good hdrdec roots -> blen (enc_header (Some roots) 1) <= o_maxh o ->
    blen (enc_header (Some roots) 1) < two63 ->
    Forall (block_ok (o_maxs o)) pre -> Forall (hash_good hok) pre ->
    block_ok (o_maxs o) (c, d) -> hash_bad hok (c, d) ->
    exists e, e <> EEof /\
      inspect_file hok hdrdec o
        (ld (enc_header (Some roots) 1) ++ enc_sections pre ++ enc_section c d ++ rest) true = Err e.
  Proof.
    intros Hcap Hg Hmax H63 Hok Hh Hb Hbad.
    apply (inspect_file_v1_fails o roots _ pre EOther Hcap Hg Hmax H63); [|discriminate].
    apply br_read_all_corrupt_v1; try assumption. reflexivity.
  Qed.
End Inspect.

(* ---- SkipNext / Next in front of a cut section ------------------------------------------------------ *)
Lemma cut_section_not_clean o c d m :
  block_ok (o_maxs o) (c, d) -> 0 < m -> m < blen (enc_section c d) ->
  ~ (take m (enc_section c d) = [] \/
     (o_zeof o = true /\ exists rest n, read_uv (take m (enc_section c d)) = VOk 0 rest n)).
Proof.
  intros Hb Hm0 Hm. destruct (block_ok_len _ _ _ Hb) as [H2 H63].
  intros [Hnil|(_ & rest & n & Hr)].
  - pose proof (blen_take m (enc_section c d)) as Hl. rewrite Hnil, blen_nil in Hl. lia.
  - unfold enc_section in *. rewrite blen_app, blen_put_uv in Hm.
    destruct (N.ltb_spec m (uv_size (blen c + blen d))) as [Hlt|Hge].
    + rewrite take_app_le in Hr by (rewrite blen_put_uv; lia).
      rewrite read_uv_put_uv_trunc in Hr by assumption. discriminate.
    + rewrite take_app_ge in Hr by (rewrite blen_put_uv; lia).
      rewrite read_uv_put_uv in Hr by exact H63. inversion Hr. lia.
Qed.

(* whenever what is left in front of the BlockReader is a proper non-empty prefix of a section (the
   situation after the complete sections of a cut archive have been consumed, by Next or SkipNext),
   neither call reports io.EOF *)
Theorem skip_next_cut_section_not_eof hok o st c d m :
  block_ok (o_maxs o) (c, d) -> 0 < m -> m < blen (enc_section c d) ->
  vis st = take m (enc_section c d) ->
  brp_skip o st <> Err EEof /\ brp_next hok o st <> Err EEof.
Proof.
  intros Hb Hm0 Hm Hvis. pose proof (cut_section_not_clean o c d m Hb Hm0 Hm) as Hn.
  destruct (c14_eof_clean hok o st) as (Hnext & Hskip). rewrite Hvis in Hnext, Hskip.
  split; intros H; apply Hn; [apply Hskip|apply Hnext]; exact H.
Qed.

(* ---- non-vacuity ------------------------------------------------------------------------------------ *)
Example ex_inspect_trunc_runs :
  inspect_file ex_hok dec_header_canon default_ropts
    (take (blen (enc_payload [ex_cid1] ex_blocks) - 1) (enc_payload [ex_cid1] ex_blocks)) true
  = Err EUnexpectedEof.
Proof. vm_compute. reflexivity. Qed.

Example ex_inspect_corrupt_runs :
  inspect_file ex_hok dec_header_canon default_ropts
    (ld (enc_header (Some [ex_cid1]) 1) ++ enc_sections [(ex_cid1, [x61; x62])] ++ enc_section ex_cid2 [x64] ++ []) true
  = Err EOther.
Proof. vm_compute. reflexivity. Qed.

Example ex_inspect_intact_runs :
  exists st, inspect_file ex_hok dec_header_canon default_ropts (enc_payload [ex_cid1] ex_blocks) true = Ok st
             /\ t_count st = 2.
Proof. eexists. split; vm_compute; reflexivity. Qed.

Example ex_skip_cut_runs :
  let file := take (blen (enc_payload [ex_cid1] ex_blocks) - 1) (enc_payload [ex_cid1] ex_blocks) in
  exists st0 s1 fin,
    brp_run ex_hok dec_header_canon default_ropts true file [false; false]
    = Ok (1, [ex_cid1], st0, ([s1], (Some EUnexpectedEof, fin))).
Proof. cbv zeta. eexists. eexists. eexists. vm_compute. reflexivity. Qed.
