(* C07: opening a constructed archive (NewReadOnly / OpenReadable, every index source) yields a
   store whose backing is the payload and whose index is correct for the payload's section
   records; the final refinement and agreement theorems. *)
From Coq Require Import Sorting.Sorted Permutation.
From GoCar Require Import Bytes Varint Cid Header Frame V2Header Scan Index Store ReadOnly.
From GoCarProofs Require Import BytesFacts VarintFacts CidFacts HeaderFacts ScanFacts StoreInv
  ReadOnlyFacts ReadOnlyRefine ReadOnlyIndex ReadOnlyRoundTrip.

Lemma sect_records_length wid bs : forall pos, (length (sect_records wid pos bs) <= length bs)%nat.
Proof.
  induction bs as [|[c d] bs IH]; intros pos; cbn [sect_records length]; [lia|].
  specialize (IH (pos + section_size c d)).
  destruct (cid_parse c) as [p|]; [destruct (wid || negb (is_identity p)); cbn [length]|]; lia.
Qed.

Lemma sec_at_bound view off b : sec_at view off b -> off <= blen view.
Proof. intros (pre & rest & -> & <-). rewrite blen_app. lia. Qed.

Section Open.
  Variable hdrdec : bytes -> option (list bytes * N).

  Lemma bs_count_bound roots bs npad : N.of_nat (length bs) <= blen (payload_np roots bs npad).
  Proof.
    pose proof (enc_sections_length (fun _ _ => None) hdrdec bs).
    rewrite payload_np_split, !blen_app. unfold blen at 2. lia.
  Qed.

  Lemma payload_records_bounds o wid roots bs npad r :
    arch_ok hdrdec o roots bs npad -> In r (payload_records wid roots bs) ->
    r_off r <= blen (payload_np roots bs npad) /\ rec_width r <= max_width /\ r_code r < two63.
  Proof.
    intros Ha Hr. destruct (payload_records_sound wid roots bs npad r Hr) as (b & p & Hsec & Hb & Hp & Heq).
    split; [apply (sec_at_bound _ _ _ Hsec)|].
    pose proof (ao_blocks _ _ _ _ _ Ha) as Hall. rewrite Forall_forall in Hall.
    destruct (Hall b Hb) as (p' & Hok & Hc & Hw & _).
    rewrite Hc, (cid_parse_enc p' Hok) in Hp. inversion Hp; subst p'.
    rewrite Heq. unfold rec_width. cbn [r_digest r_code]. split; [exact Hw|].
    destruct Hok as [(_ & _ & Hm & _)|(_ & _ & Hm & _)]; [rewrite Hm; unfold two63; lia|exact Hm].
  Qed.

  Lemma payload_records_ok o wid roots bs npad :
    arch_ok hdrdec o roots bs npad -> blen (payload_np roots bs npad) < two63 ->
    recs_ok (payload_records wid roots bs).
  Proof.
    intros Ha H63. split.
    - rewrite Forall_forall. intros r Hr. destruct (payload_records_bounds o wid roots bs npad r Ha Hr) as (H1 & _).
      unfold two63, two64 in *. lia.
    - pose proof (sect_records_length wid bs (ld_size (blen (enc_header roots 1)))) as Hl.
      fold (payload_records wid roots bs) in Hl. pose proof (bs_count_bound roots bs npad).
      assert (two63 < 2 ^ 69) by (unfold two63; change 9223372036854775808 with (2 ^ 63); apply N.pow_lt_mono_r; lia). lia.
  Qed.

  Lemma payload_records_mok o wid roots bs npad :
    arch_ok hdrdec o roots bs npad -> blen (payload_np roots bs npad) < two63 ->
    N.of_nat (length bs) < two31 -> recs_mok (payload_records wid roots bs).
  Proof.
    intros Ha H63 Hn. split.
    - rewrite Forall_forall. intros r Hr.
      destruct (payload_records_bounds o wid roots bs npad r Ha Hr) as (H1 & H2 & H3).
      unfold two63, two64 in *. lia.
    - pose proof (sect_records_length wid bs (ld_size (blen (enc_header roots 1)))) as Hl.
      fold (payload_records wid roots bs) in Hl. lia.
  Qed.

  (* GenerateIndex over the bare payload *)
  Lemma gen_flat_payload o roots bs npad base i0 :
    arch_ok hdrdec o roots bs npad -> base + blen (payload_np roots bs npad) < two63 ->
    idx_new (q_codec o) = Some i0 ->
    gen_flat hdrdec o base (payload_np roots bs npad)
    = Ok (RFlat (idx_load (payload_records (q_storeid o) roots bs) i0)).
  Proof.
    intros Ha Hb Hn. unfold gen_flat. rewrite Hn. rewrite (load_records_payload hdrdec o base roots bs npad Ha Hb). reflexivity.
  Qed.
  Lemma gen_ins_payload o roots bs npad base :
    arch_ok hdrdec o roots bs npad -> base + blen (payload_np roots bs npad) < two63 ->
    gen_ins hdrdec o base (payload_np roots bs npad)
    = Ok (RIns (ii_load (payload_records (q_storeid o) roots bs) [])).
  Proof.
    intros Ha Hb. unfold gen_ins. rewrite (load_records_payload hdrdec o base roots bs npad Ha Hb). reflexivity.
  Qed.

  (* the archive file and the limits it must respect to be opened with options o *)
  Record file_ok (o : qopts) (ct : container) (roots : option (list bytes)) (bs : list block) (npad : N) (file : bytes) : Prop := {
    fo_arch : arch_ok hdrdec o roots bs npad;
    fo_file : car_file ct roots bs npad = Some file;
    fo_len : blen file < two63;
    fo_codec : idx_new (q_codec o) <> None;
    fo_v2 : match ct with
            | CV1 => True
            | CV2 chi clo _ _ emb =>
                chi < two64 /\ clo < two64 /\ 10 <= q_maxh o /\ hdrdec pragma_body = Some ([], 2) /\
                (emb <> None -> N.of_nat (length bs) < two31)
            end }.

  (* the caller-supplied index: None, or GenerateIndex(payload) under options og *)
  Definition supplied_ok (sup : option qopts) (si : option ridx) (roots : option (list bytes)) (bs : list block) (npad : N) : Prop :=
    match sup with
    | None => si = None
    | Some og => arch_ok hdrdec og roots bs npad /\
                 exists i, gen_flat hdrdec og 0 (payload_np roots bs npad) = Ok i /\ si = Some i
    end.

  Lemma payload_pos roots bs npad : 0 < blen (payload_np roots bs npad).
  Proof.
    rewrite payload_np_split, !blen_app, blen_ld. unfold ld_size.
    pose proof (uv_size_pos (blen (enc_header roots 1))). lia.
  Qed.

  Lemma supplied_correct og si roots bs npad :
    supplied_ok (Some og) si roots bs npad -> blen (payload_np roots bs npad) < two63 ->
    exists i, si = Some i /\ idx_correct i (payload_records (q_storeid og) roots bs).
  Proof.
    intros (Hag & i & Hgen & ->) H63. exists i. split; [reflexivity|].
    unfold gen_flat in Hgen. destruct (idx_new (q_codec og)) as [i0|] eqn:En; [|discriminate].
    rewrite (load_records_payload hdrdec og 0 roots bs npad Hag) in Hgen by lia. inversion Hgen; subst i.
    apply (flat_correct (q_codec og) i0); [exact En|]. eapply payload_records_ok; eassumption.
  Qed.

  (* what NewReader shows of a constructed CARv2 *)
  Lemma v2_open_parts chi clo dpad ipad payload ib maxh :
    hdrdec pragma_body = Some ([], 2) -> chi < two64 -> clo < two64 -> 0 < blen payload ->
    blen (v2_file chi clo dpad ipad payload ib) < two63 -> 10 <= maxh ->
    exists h, new_reader hdrdec maxh (v2_file chi clo dpad ipad payload ib)
              = Ok (mkrd 2 h (v2_file chi clo dpad ipad payload ib)) /\
              data_window (mkrd 2 h (v2_file chi clo dpad ipad payload ib)) = payload /\
              index_window (mkrd 2 h (v2_file chi clo dpad ipad payload ib)) = ib /\
              window_base (mkrd 2 h (v2_file chi clo dpad ipad payload ib)) = 51 + dpad.
  Proof.
    intros Hpr Hchi Hclo Hpos Hl Hmh.
    exists (mkv2 chi clo (51 + dpad) (blen payload)
                 (match ib with Some _ => 51 + dpad + blen payload + ipad | None => 0 end)).
    split; [apply (v2_new_reader hdrdec Hpr chi clo dpad ipad payload ib _ _ _ eq_refl eq_refl eq_refl Hchi Hclo Hpos Hl _ Hmh)|].
    split; [apply (v2_data_window chi clo dpad ipad payload ib _ _ _ eq_refl eq_refl eq_refl Hchi Hclo Hpos Hl)|].
    split; [apply (v2_index_window chi clo dpad ipad payload ib _ _ _ eq_refl eq_refl eq_refl Hchi Hclo Hpos Hl)|].
    apply (v2_window_base chi clo dpad payload _ _ _ eq_refl).
  Qed.

  Lemma v2_file_len' chi clo dpad ipad payload ib :
    blen (v2_file chi clo dpad ipad payload ib)
    = 51 + dpad + blen payload + ipad + match ib with Some x => blen x | None => 0 end.
  Proof. apply (v2_file_len chi clo dpad ipad payload ib _ _ _ eq_refl eq_refl eq_refl). Qed.

  (* the file of a CARv2 container, with the index bytes named *)
  Lemma car_file_v2 roots bs npad chi clo dpad ipad emb file :
    car_file (CV2 chi clo dpad ipad emb) roots bs npad = Some file ->
    exists ib, file = v2_file chi clo dpad ipad (payload_np roots bs npad) ib /\
      match emb with
      | None => ib = None
      | Some (codec, wid) => exists i0, idx_new codec = Some i0 /\
                             ib = Some (idx_write (idx_load (payload_records wid roots bs) i0))
      end.
  Proof.
    cbn [car_file]. destruct emb as [[codec wid]|].
    - unfold flat_of. destruct (idx_new codec) as [i0|] eqn:En; [|discriminate].
      intros Hf. inversion Hf. eexists. split; [reflexivity|]. exists i0. split; reflexivity.
    - intros Hf. inversion Hf. exists None. split; reflexivity.
  Qed.

  (* the two ways a CARv2's index is obtained when none is supplied *)
  Lemma embedded_or_gen (gen : qopts -> N -> bytes -> res ridx) o roots bs npad chi clo dpad ipad emb file :
    file_ok o (CV2 chi clo dpad ipad emb) roots bs npad file ->
    (forall base, base + blen (payload_np roots bs npad) < two63 ->
       exists i, gen o base (payload_np roots bs npad) = Ok i /\
                 idx_correct i (payload_records (q_storeid o) roots bs)) ->
    exists h i, new_reader hdrdec (q_maxh o) file = Ok (mkrd 2 h file) /\
                data_window (mkrd 2 h file) = payload_np roots bs npad /\
                embedded_or gen o (mkrd 2 h file) = Ok i /\
                idx_correct i (payload_records (index_wid o (CV2 chi clo dpad ipad emb) None) roots bs).
  Proof.
    intros [Ha Hf Hl Hc (Hchi & Hclo & Hmh & Hpr & Hemb)] Hgen.
    destruct (car_file_v2 roots bs npad chi clo dpad ipad emb file Hf) as (ib & Hfile & Hib).
    pose proof (payload_pos roots bs npad) as Hpos.
    rewrite Hfile in Hl.
    destruct (v2_open_parts chi clo dpad ipad (payload_np roots bs npad) ib (q_maxh o) Hpr Hchi Hclo Hpos Hl Hmh)
      as (h & Hr & Hw & Hiw & Hb).
    pose proof (v2_file_len' chi clo dpad ipad (payload_np roots bs npad) ib) as Hlen.
    rewrite <- Hfile in Hr, Hw, Hiw, Hb.
    exists h. unfold embedded_or. rewrite Hiw.
    destruct emb as [[codec wid]|].
    - destruct Hib as (i0 & En & ->).
      assert (H63 : blen (payload_np roots bs npad) < two63) by lia.
      rewrite <- (app_nil_r (idx_write _)).
      rewrite (flat_roundtrip codec i0 _ [] En).
      + eexists. split; [exact Hr|]. split; [exact Hw|]. split; [reflexivity|]. cbn [index_wid].
        apply (flat_correct codec i0); [exact En|]. eapply payload_records_ok; eassumption.
      + eapply payload_records_mok; try eassumption. apply Hemb. discriminate.
      + lia.
    - subst ib. rewrite Hw, Hb.
      destruct (Hgen (51 + dpad)) as (i & Hi & Hic); [lia|].
      exists i. split; [exact Hr|]. split; [reflexivity|]. split; [exact Hi|exact Hic].
  Qed.

  Lemma embedded_or_flat o roots bs npad chi clo dpad ipad emb file :
    file_ok o (CV2 chi clo dpad ipad emb) roots bs npad file ->
    exists h i, new_reader hdrdec (q_maxh o) file = Ok (mkrd 2 h file) /\
                data_window (mkrd 2 h file) = payload_np roots bs npad /\
                embedded_or (gen_flat hdrdec) o (mkrd 2 h file) = Ok i /\
                idx_correct i (payload_records (index_wid o (CV2 chi clo dpad ipad emb) None) roots bs).
  Proof.
    intros Hfo. apply embedded_or_gen; [exact Hfo|]. intros base Hb.
    destruct (idx_new (q_codec o)) as [i0|] eqn:En; [|exfalso; apply (fo_codec _ _ _ _ _ _ Hfo); exact En].
    eexists. split; [apply (gen_flat_payload o roots bs npad base i0 (fo_arch _ _ _ _ _ _ Hfo) Hb En)|].
    apply (flat_correct (q_codec o) i0); [exact En|].
    eapply payload_records_ok; [apply (fo_arch _ _ _ _ _ _ Hfo)|lia].
  Qed.

  Lemma embedded_or_ins o roots bs npad chi clo dpad ipad emb file :
    file_ok o (CV2 chi clo dpad ipad emb) roots bs npad file ->
    exists h i, new_reader hdrdec (q_maxh o) file = Ok (mkrd 2 h file) /\
                data_window (mkrd 2 h file) = payload_np roots bs npad /\
                embedded_or (gen_ins hdrdec) o (mkrd 2 h file) = Ok i /\
                idx_correct i (payload_records (index_wid o (CV2 chi clo dpad ipad emb) None) roots bs).
  Proof.
    intros Hfo. apply embedded_or_gen; [exact Hfo|]. intros base Hb.
    eexists. split; [apply (gen_ins_payload o roots bs npad base (fo_arch _ _ _ _ _ _ Hfo) Hb)|].
    apply ins_correct.
  Qed.

  Lemma file_payload_bound o ct roots bs npad file :
    file_ok o ct roots bs npad file -> blen (payload_np roots bs npad) < two63.
  Proof.
    intros [Ha Hf Hl Hc Hv2]. destruct ct as [|chi clo dpad ipad emb].
    - cbn [car_file] in Hf. inversion Hf; subst. exact Hl.
    - destruct (car_file_v2 roots bs npad chi clo dpad ipad emb file Hf) as (ib & Hfile & _).
      rewrite Hfile, v2_file_len' in Hl. lia.
  Qed.

  Lemma v2_read_version_file o roots bs npad chi clo dpad ipad emb file :
    file_ok o (CV2 chi clo dpad ipad emb) roots bs npad file ->
    exists rest, read_header hdrdec (q_maxh o) file = Ok ([], 2, rest, 11).
  Proof.
    intros [Ha Hf Hl Hc (Hchi & Hclo & Hmh & Hpr & Hemb)].
    destruct (car_file_v2 roots bs npad chi clo dpad ipad emb file Hf) as (ib & Hfile & _).
    pose proof (payload_pos roots bs npad) as Hpos.
    apply (v2_read_version hdrdec Hpr chi clo dpad ipad (payload_np roots bs npad) ib file _ Hfile eq_refl Hchi Hclo Hpos Hl _ Hmh).
  Qed.

  Lemma opened_mk view i o v2 rts wid roots bs npad :
    view = payload_np roots bs npad -> idx_correct i (payload_records wid roots bs) ->
    opened (mkro view i o v2 rts) o wid roots bs npad.
  Proof. intros Hv Hi. split; [exact Hv|]. split; [reflexivity|exact Hi]. Qed.

  (* blockstore.NewReadOnly *)
  Theorem ro_open_ok o ct roots bs npad file sup si :
    file_ok o ct roots bs npad file -> supplied_ok sup si roots bs npad ->
    exists s, ro_open hdrdec o file si = Ok s /\ opened s o (index_wid o ct sup) roots bs npad.
  Proof.
    intros Hfo Hsup. pose proof (file_payload_bound o ct roots bs npad file Hfo) as H63.
    destruct ct as [|chi clo dpad ipad emb].
    - destruct Hfo as [Ha Hf Hl Hc _]. cbn [car_file] in Hf. inversion Hf; subst file.
      unfold ro_open. rewrite (payload_read_header hdrdec o roots bs npad Ha). cbn [N.eqb Pos.eqb].
      destruct sup as [og|].
      + destruct (supplied_correct og si roots bs npad Hsup H63) as (i & -> & Hic).
        eexists. split; [reflexivity|]. apply opened_mk; [reflexivity|exact Hic].
      + cbn in Hsup. subst si. destruct (idx_new (q_codec o)) as [i0|] eqn:En; [|congruence].
        rewrite (gen_flat_payload o roots bs npad 0 i0 Ha ltac:(lia) En).
        eexists. split; [reflexivity|]. apply opened_mk; [reflexivity|]. cbn [index_wid].
        apply (flat_correct (q_codec o) i0); [exact En|]. eapply payload_records_ok; eassumption.
    - destruct (v2_read_version_file o roots bs npad chi clo dpad ipad emb file Hfo) as (rest & Hv).
      destruct (embedded_or_flat o roots bs npad chi clo dpad ipad emb file Hfo) as (h & i & Hr & Hw & He & Hic).
      unfold ro_open. rewrite Hv. cbn [N.eqb Pos.eqb]. rewrite Hr.
      destruct sup as [og|].
      + destruct (supplied_correct og si roots bs npad Hsup H63) as (i' & -> & Hic').
        eexists. split; [reflexivity|]. apply opened_mk; [exact Hw|exact Hic'].
      + cbn in Hsup. subst si. rewrite He. eexists. split; [reflexivity|]. apply opened_mk; [exact Hw|exact Hic].
  Qed.

  (* storage.OpenReadable *)
  Theorem sto_open_ok o ct roots bs npad file :
    file_ok o ct roots bs npad file ->
    exists s, sto_open hdrdec o file = Ok s /\ opened s o (index_wid o ct None) roots bs npad /\ s_roots s = hdr_roots roots.
  Proof.
    intros Hfo. pose proof (file_payload_bound o ct roots bs npad file Hfo) as H63.
    destruct ct as [|chi clo dpad ipad emb].
    - destruct Hfo as [Ha Hf Hl Hc _]. cbn [car_file] in Hf. inversion Hf; subst file.
      unfold sto_open. rewrite (payload_read_header hdrdec o roots bs npad Ha). cbn [N.eqb Pos.eqb].
      rewrite (gen_ins_payload o roots bs npad 0 Ha ltac:(lia)).
      eexists. split; [reflexivity|]. split; [|reflexivity]. apply opened_mk; [reflexivity|]. apply ins_correct.
    - destruct (v2_read_version_file o roots bs npad chi clo dpad ipad emb file Hfo) as (rest & Hv).
      destruct (embedded_or_ins o roots bs npad chi clo dpad ipad emb file Hfo) as (h & i & Hr & Hw & He & Hic).
      unfold sto_open. rewrite Hv. cbn [N.eqb Pos.eqb]. rewrite Hr.
      unfold reader_roots. rewrite Hw. rewrite (payload_read_header hdrdec o roots bs npad (fo_arch _ _ _ _ _ _ Hfo)).
      rewrite He. eexists. split; [reflexivity|]. split; [|reflexivity]. apply opened_mk; [reflexivity|exact Hic].
  Qed.
End Open.
