(* C19: what car index / car index create / car detach-index / car concat write for every valid
   input archive. *)
From GoCar Require Import Bytes Varint Cid Header Frame V2Header Scan Index Store CliCmds.
From GoCarProofs Require Import BytesFacts VarintFacts CidFacts HeaderFacts ScanFacts ScanTrunc ScanTruncV2 StoreInv CliBase CliWalk.

Lemma codec_of_kind_new k codec : codec_of_kind k = Some codec ->
  exists i0, idx_new codec = Some i0.
Proof.
  unfold codec_of_kind. destruct ((k =? 0) || (k =? 3)).
  - intros H; inversion H; subst. eexists; reflexivity.
  - destruct (k =? 2); [|discriminate]. intros H; inversion H; subst. eexists; reflexivity.
Qed.

Lemma codec_of_kind_not_none k codec : codec_of_kind k = Some codec -> codec_is_none k = false.
Proof.
  unfold codec_of_kind, codec_is_none. destruct (k =? 0) eqn:E0; [intros _; lia|].
  destruct (k =? 3) eqn:E3; [intros _; lia|]. cbn [orb]. destruct (k =? 2) eqn:E2; [intros _; lia|discriminate].
Qed.

Lemma drop_app_eq (a b : bytes) n : n = blen a -> drop n (a ++ b) = b.
Proof. intros ->. apply drop_app. Qed.
Lemma take_app_eq (a b : bytes) n : n = blen a -> take n (a ++ b) = a.
Proof. intros ->. apply take_app. Qed.

Set Default Proof Using "All".
Section Producers.
  Variable hok : bytes -> bytes -> option bool.
  Variable hdrdec : bytes -> option (list bytes * N).
  Hypothesis pragma_ok : hdrdec pragma_body = Some ([], 2).

  (* the DataSize car index puts into the header it writes *)
  Lemma index_dsize hb bs file r : reader_of hdrdec hb bs file r ->
    (if cr_ver r =? 1 then blen file else h_dsize (cr_hdr r)) = blen (payload_hb hb bs).
  Proof.
    intros (_ & _ & [(Hv & _ & Hf & _)|(Hv & hi & lo & dpad & ioff & tr & Hh & _)]); rewrite Hv.
    - cbn [N.eqb Pos.eqb]. rewrite Hf. reflexivity.
    - cbn [N.eqb Pos.eqb]. rewrite Hh. reflexivity.
  Qed.

  (* ---- car index --version 2 --codec <sorted|multihash-sorted|(default)> --------------------------- *)
  Theorem index_car_codec hb roots bs file k codec :
    hdr_ok hdrdec hb roots -> reencode_header hb roots 1 = hb -> blocks_ok bs ->
    valid_input hb bs file -> codec_of_kind k = Some codec ->
    index_car hdrdec k 2 file = (true, indexed_file codec hb bs).
  Proof.
    intros Hh Hre Hb Hv Hk.
    destruct (valid_reader hok hdrdec pragma_ok hb roots bs file Hh Hv) as (r & Hr).
    pose proof (index_dsize hb bs file r Hr) as Hds.
    destruct Hr as (Hnew & Hdv & _).
    destruct (codec_of_kind_new k codec Hk) as (i0 & Hi0).
    unfold index_car, indexed_file. rewrite Hnew, Hdv, Hds, Hi0.
    cbn [N.eqb Pos.eqb negb]. rewrite (codec_of_kind_not_none k codec Hk), Hk, Hi0.
    unfold payload_hb at 1.
    rewrite (root_read_header_hb hok hdrdec pragma_ok hb roots) by exact Hh.
    rewrite Hre.
    replace (blen (payload_hb hb bs) - blen (enc_sections bs)) with (blen (ld hb))
      by (unfold payload_hb; rewrite blen_app; lia).
    rewrite ix_walk_sections; [|exact Hb|apply Nat.lt_succ_r; apply (enc_sections_length hok hdrdec)].
    rewrite regen_records_hb_from. unfold payload_hb. rewrite <- !app_assoc. reflexivity.
  Qed.

  (* ---- car index --codec none ------------------------------------------------------------------------ *)
  Theorem index_car_none hb roots bs file :
    hdr_ok hdrdec hb roots -> valid_input hb bs file ->
    index_car hdrdec 1 2 file = (true, Some (indexless_file hb bs)).
  Proof.
    intros Hh Hv.
    destruct (valid_reader hok hdrdec pragma_ok hb roots bs file Hh Hv) as (r & Hr).
    pose proof (index_dsize hb bs file r Hr) as Hds.
    destruct Hr as (Hnew & Hdv & _).
    unfold index_car, indexless_file. rewrite Hnew, Hdv, Hds. reflexivity.
  Qed.

  (* ---- car index --version 1 (no codec, or "none") ---------------------------------------------------- *)
  Theorem index_car_v1 hb roots bs file k :
    hdr_ok hdrdec hb roots -> valid_input hb bs file -> k = 0 \/ k = 1 ->
    index_car hdrdec k 1 file = (true, Some (payload_hb hb bs)).
  Proof.
    intros Hh Hv Hk.
    destruct (valid_reader hok hdrdec pragma_ok hb roots bs file Hh Hv) as (r & Hnew & Hdv & _).
    unfold index_car. rewrite Hnew, Hdv. destruct Hk; subst k; reflexivity.
  Qed.

  (* a codec given together with --version 1 is refused and nothing is written *)
  Theorem index_car_v1_codec_refused hb roots bs file k :
    hdr_ok hdrdec hb roots -> valid_input hb bs file -> k <> 0 -> k <> 1 ->
    index_car hdrdec k 1 file = (false, None).
  Proof.
    intros Hh Hv H0 H1.
    destruct (valid_reader hok hdrdec pragma_ok hb roots bs file Hh Hv) as (r & Hnew & Hdv & _).
    unfold index_car, codec_set, codec_is_none. rewrite Hnew.
    replace (k =? 0) with false by lia. replace (k =? 1) with false by lia. reflexivity.
  Qed.

  (* ---- carv2.LoadIndex / GenerateIndex over the data reader of a valid input ---------------------------- *)
  Lemma mm_bad_valid hb bs file r : reader_of hdrdec hb bs file r ->
    forall q, q <= blen (payload_hb hb bs) -> mm_bad r file q = false.
  Proof.
    intros (_ & _ & [(Hv & _ & Hf & _)|(Hv & hi & lo & dpad & ioff & tr & Hh & Hf & _)]) q Hq;
      unfold mm_bad, data_base_of; rewrite Hv; cbn [N.eqb Pos.eqb].
    - rewrite Hf. replace (blen (payload_hb hb bs) <? 0 + q) with false by lia. reflexivity.
    - rewrite Hh, Hf. cbn [h_doff h_dsize]. rewrite blen_v2file.
      replace (51 + dpad + blen (payload_hb hb bs) + blen tr <? 51 + dpad + q) with false by lia. reflexivity.
  Qed.

  Lemma base_fits_valid hb bs file r : reader_of hdrdec hb bs file r ->
    data_base_of r + blen (payload_hb hb bs) < two63.
  Proof.
    intros (_ & _ & [(Hv & _ & Hf & H63)|(Hv & hi & lo & dpad & ioff & tr & Hh & Hf & _ & _ & _ & H63)]);
      unfold data_base_of; rewrite Hv; cbn [N.eqb Pos.eqb].
    - lia.
    - rewrite Hh. cbn [h_doff]. lia.
  Qed.

  Theorem generate_index_valid hb roots bs file r codec i0 :
    hdr_ok hdrdec hb roots -> blocks_ok bs -> cids_indexable bs ->
    reader_of hdrdec hb bs file r -> idx_new codec = Some i0 ->
    generate_index hdrdec codec r file = Ok (idx_load (regen_records_hb hb bs) i0).
  Proof.
    intros Hh Hb Hix Hr Hi0.
    pose proof (mm_bad_valid hb bs file r Hr) as Hbad.
    pose proof (base_fits_valid hb bs file r Hr) as Hfit.
    destruct Hr as (_ & Hdv & _).
    unfold generate_index, load_index_records. rewrite Hi0, Hdv. unfold payload_hb at 1.
    rewrite (read_header_hb hok hdrdec pragma_ok hb roots 1)
      by (try apply Hh; eapply (hdr_ok_63 hok hdrdec pragma_ok); exact Hh).
    cbn [N.eqb Pos.eqb]. rewrite <- blen_ld.
    rewrite (li_walk_sections (mm_bad r file) (data_base_of r) bs (payload_hb hb bs) (ld hb) [] _ eq_refl Hbad Hb Hix Hfit).
    - reflexivity.
    - pose proof (length_payload_ge hok hdrdec pragma_ok hb bs). lia.
  Qed.

  (* ---- car index create ------------------------------------------------------------------------------------ *)
  Theorem index_create_valid hb roots bs file k codec :
    hdr_ok hdrdec hb roots -> blocks_ok bs -> cids_indexable bs ->
    valid_input hb bs file -> codec_of_kind k = Some codec ->
    index_create hdrdec k file = (true, detached_index codec hb bs).
  Proof.
    intros Hh Hb Hix Hv Hk.
    destruct (valid_reader hok hdrdec pragma_ok hb roots bs file Hh Hv) as (r & Hr).
    destruct (codec_of_kind_new k codec Hk) as (i0 & Hi0).
    unfold index_create, detached_index. rewrite (proj1 Hr), Hk, Hi0.
    rewrite (generate_index_valid hb roots bs file r codec i0 Hh Hb Hix Hr Hi0). reflexivity.
  Qed.

  (* ---- car detach-index --------------------------------------------------------------------------------------- *)
  (* any CARv2 whose IndexOffset field points behind the payload and the index padding *)
  Theorem detach_index_valid hi lo dpad ipad payload ibytes :
    hi < two64 -> lo < two64 -> 1 <= blen payload ->
    51 + dpad + blen payload + ipad + blen ibytes < two63 ->
    detach_index hdrdec (v2file hi lo dpad (51 + dpad + blen payload + ipad) payload (zerosN ipad ++ ibytes))
    = (true, Some ibytes).
  Proof.
    intros H1 H2 Hp H63.
    set (ioff := 51 + dpad + blen payload + ipad).
    assert (Hok : v2hdr_ok (mkv2 hi lo (51 + dpad) (blen payload) ioff)).
    { apply (v2file_hdr_ok hi lo dpad ioff payload (zerosN ipad ++ ibytes)); try assumption.
      - unfold ioff. lia.
      - rewrite blen_app, blen_zerosN. lia. }
    unfold detach_index. rewrite (new_reader_v2 hok hdrdec pragma_ok) by exact Hok.
    unfold has_index. cbn [cr_hdr h_ioff].
    replace (ioff =? 0) with false by (unfold ioff; lia). cbn [negb].
    rewrite blen_v2file, blen_app, blen_zerosN.
    replace (51 + dpad + blen payload + (ipad + blen ibytes) <? ioff) with false by (unfold ioff; lia).
    rewrite v2file_split.
    replace ((pragma ++ enc_v2hdr (mkv2 hi lo (51 + dpad) (blen payload) ioff) ++ zerosN dpad) ++ payload ++ zerosN ipad ++ ibytes)
      with (((pragma ++ enc_v2hdr (mkv2 hi lo (51 + dpad) (blen payload) ioff) ++ zerosN dpad) ++ payload ++ zerosN ipad) ++ ibytes)
      by (rewrite <- !app_assoc; reflexivity).
    rewrite (drop_app_eq _ _ ioff); [reflexivity|].
    rewrite blen_app, blen_v2_prefix, blen_app, blen_zerosN. unfold ioff. lia.
  Qed.

  (* an archive without an index (every CARv1; a CARv2 whose IndexOffset is 0) is refused, nothing written *)
  Theorem detach_index_v1_refused hb roots bs :
    hdr_ok hdrdec hb roots -> detach_index hdrdec (payload_hb hb bs) = (false, None).
  Proof.
    intros Hh. unfold detach_index. rewrite (new_reader_v1 hok hdrdec pragma_ok hb roots bs Hh). reflexivity.
  Qed.

  Theorem detach_index_indexless_refused hi lo dpad payload tr :
    hi < two64 -> lo < two64 -> 1 <= blen payload -> 51 + dpad + blen payload + blen tr < two63 ->
    detach_index hdrdec (v2file hi lo dpad 0 payload tr) = (false, None).
  Proof.
    intros H1 H2 Hp H63.
    assert (Hok : v2hdr_ok (mkv2 hi lo (51 + dpad) (blen payload) 0)).
    { apply (v2file_hdr_ok hi lo dpad 0 payload tr); try assumption. unfold two63; lia. }
    unfold detach_index. rewrite (new_reader_v2 hok hdrdec pragma_ok) by exact Hok. reflexivity.
  Qed.
End Producers.
