(* MonitorLin.v -- linearizability over the atomic-section semantics (RunConc.v part 3):
   every execution in which each call's critical section is one atomic step of the sequential
   specification, taken between the call's invocation and its response, passes the
   linearizability check with the order of the critical sections as witness: that order
   contains every call once, respects real time, and replaying the specification along it
   yields exactly the results the calls returned.  Then: what a history that passes the check
   guarantees in the words of the property (a block whose Put returned is found by every later
   Has/Get; nothing is reported that was never put). *)
From Coq Require Import List Arith NArith Lia Bool.
From GoCar Require Import Bytes RunConc.
Import ListNotations.
Local Open Scope nat_scope.

(* ---- positions in a trace ---------------------------------------------------------------- *)
Lemma ev_eqb_eq a b : ev_eqb a b = true <-> a = b.
Proof.
  destruct a, b; cbn; split; intro H; try discriminate; try (apply Nat.eqb_eq in H; congruence);
    inversion H; subst; apply Nat.eqb_refl.
Qed.

Lemma ev_eqb_neq a b : a <> b -> ev_eqb a b = false.
Proof. intro H. destruct (ev_eqb a b) eqn:E; [apply ev_eqb_eq in E; congruence|reflexivity]. Qed.

Lemma pos_in x l : In x l -> exists q, pos x l = Some q.
Proof.
  induction l as [|y l IH]; [intros []|]. intro H. cbn.
  destruct (ev_eqb x y) eqn:E; [eauto|].
  destruct H as [->|H]; [rewrite (proj2 (ev_eqb_eq x x) eq_refl) in E; discriminate|].
  destruct (IH H) as [q ->]. cbn. eauto.
Qed.

Lemma pos_some_in x l q : pos x l = Some q -> In x l.
Proof.
  revert q. induction l as [|y l IH]; cbn; [discriminate|]. intros q H.
  destruct (ev_eqb x y) eqn:E; [apply ev_eqb_eq in E; auto|].
  destruct (pos x l) as [p|]; [|discriminate]. right. eauto.
Qed.

Lemma pos_app_skip x pre rest : ~ In x pre ->
  pos x (pre ++ rest) = option_map (fun q => length pre + q) (pos x rest).
Proof.
  induction pre as [|y pre IH]; intro H; cbn.
  - destruct (pos x rest); reflexivity.
  - rewrite ev_eqb_neq by (intro; subst; apply H; left; reflexivity).
    rewrite IH by (intro; apply H; right; assumption).
    destruct (pos x rest); reflexivity.
Qed.

Lemma pos_here x pre suf : ~ In x pre -> pos x (pre ++ x :: suf) = Some (length pre).
Proof.
  intro H. rewrite pos_app_skip by exact H. cbn. rewrite (proj2 (ev_eqb_eq x x) eq_refl). cbn. f_equal. lia.
Qed.

Lemma pos_later x e pre suf : ~ In x pre -> x <> e -> In x suf ->
  exists p, pos x (pre ++ e :: suf) = Some p /\ length pre < p.
Proof.
  intros Hn Hne Hin. rewrite pos_app_skip by exact Hn. cbn. rewrite ev_eqb_neq by exact Hne.
  destruct (pos_in _ _ Hin) as [q ->]. cbn. eexists. split; [reflexivity|lia].
Qed.

Lemma nodup_app_disjoint {A} (a b : list A) x : NoDup (a ++ b) -> In x a -> In x b -> False.
Proof.
  induction a as [|y a IH]; [intros _ []|]. cbn. intros Hnd [->|Ha] Hb; inversion Hnd as [|? ? Hy Hr]; subst.
  - apply Hy. apply in_or_app. auto.
  - eapply IH; eauto.
Qed.

Lemma in_lin_order i tr : In i (lin_order tr) <-> In (ELin i) tr.
Proof.
  unfold lin_order. rewrite in_flat_map. split.
  - intros (e & He & Hi). destruct e; cbn in Hi; try tauto. destruct Hi as [<-|[]]. exact He.
  - intro H. exists (ELin i). split; [exact H|left; reflexivity].
Qed.

Lemma lin_order_nodup tr : NoDup tr -> NoDup (lin_order tr).
Proof.
  induction 1 as [|e tr Hn _ IH]; [constructor|].
  destruct e; cbn; auto. constructor; [|exact IH]. rewrite in_lin_order. exact Hn.
Qed.

Lemma nth_map_seq {A} (f : nat -> A) n i d : i < n -> nth i (map f (seq 0 n)) d = f i.
Proof.
  intro H. rewrite nth_indep with (d' := f 0) by (rewrite map_length, seq_length; exact H).
  rewrite map_nth with (d := 0). rewrite seq_nth by exact H. reflexivity.
Qed.

(* ---- the three parts of the check ----------------------------------------------------------- *)
Lemma atomic_perm_ok n tr : wf_trace n tr -> perm_ok n (lin_order tr) = true.
Proof.
  intros (Hnd & Hlt & Hall). unfold perm_ok. apply andb_true_intro. split.
  - apply Nat.eqb_eq. apply Nat.le_antisymm.
    + rewrite <- (seq_length n 0). apply NoDup_incl_length; [apply lin_order_nodup; exact Hnd|].
      intros i Hi. apply in_lin_order in Hi. specialize (Hlt _ Hi). cbn in Hlt. apply in_seq. lia.
    + rewrite <- (seq_length n 0) at 1. apply NoDup_incl_length; [apply seq_NoDup|].
      intros i Hi. apply in_seq in Hi. destruct (Hall i) as (a & b & c & _ & Hb & _); [lia|].
      apply in_lin_order. eapply pos_some_in; eauto.
  - apply forallb_forall. intros i Hi. apply in_seq in Hi.
    destruct (Hall i) as (a & b & c & _ & Hb & _); [lia|].
    apply existsb_exists. exists i. split; [|apply Nat.eqb_refl].
    apply in_lin_order. eapply pos_some_in; eauto.
Qed.

Lemma atomic_rt_ok n tr : wf_trace n tr ->
  forall suf pre, tr = pre ++ suf -> rt_ok (hist_of n tr) (lin_order suf) = true.
Proof.
  intros (Hnd & Hlt & Hall). induction suf as [|e suf IH]; intros pre E; [reflexivity|].
  assert (tr = (pre ++ [e]) ++ suf) as E' by (rewrite <- app_assoc; exact E).
  specialize (IH _ E').
  destruct e as [i|i|i]; try exact IH.
  change (lin_order (ELin i :: suf)) with (i :: lin_order suf). cbn [rt_ok].
  apply andb_true_intro. split; [|exact IH].
  apply forallb_forall. intros j Hj. apply in_lin_order in Hj.
  assert (NoDup (pre ++ ELin i :: suf)) as Hnd' by (rewrite <- E; exact Hnd).
  apply NoDup_remove in Hnd' as [Hnd1 Hni].
  assert (~ In (ELin i) pre) as Hipre by (intro; apply Hni; apply in_or_app; auto).
  assert (ELin j <> ELin i) as Hji by (intro Heq; rewrite Heq in Hj; apply Hni; apply in_or_app; auto).
  assert (~ In (ELin j) pre) as Hjpre.
  { intro Hp. exact (nodup_app_disjoint _ _ _ Hnd1 Hp Hj). }
  assert (i < n) as Hin by (apply (Hlt (ELin i)); rewrite E; apply in_or_app; right; left; reflexivity).
  assert (j < n) as Hjn by (apply (Hlt (ELin j)); rewrite E; apply in_or_app; right; right; exact Hj).
  destruct (Hall i Hin) as (ai & bi & ci & Hai & Hbi & Hci & Hlt1 & Hlt2).
  destruct (Hall j Hjn) as (aj & bj & cj & Haj & Hbj & Hcj & Hlt3 & Hlt4).
  rewrite E in Hbi, Hbj. rewrite pos_here in Hbi by exact Hipre.
  destruct (pos_later (ELin j) (ELin i) pre suf Hjpre Hji Hj) as (p & Hp & Hpl).
  rewrite Hp in Hbj. inversion Hbi; subst bi. inversion Hbj; subst bj.
  unfold h_ret, h_inv, hist_of. rewrite !nth_map_seq by assumption. cbn [fst snd].
  unfold stamp. rewrite Hai, Hcj. apply negb_true_iff. apply N.ltb_ge. lia.
Qed.

Lemma assoc_res_in i x l : NoDup (map fst l) -> In (i, x) l -> assoc_res i l = x.
Proof.
  induction l as [|[j y] l IH]; [intros _ []|]. cbn. intros Hnd [H|H].
  - inversion H; subst. rewrite Nat.eqb_refl. reflexivity.
  - inversion Hnd as [|? ? Hj Hr]; subst. destruct (Nat.eqb_spec i j) as [->|_].
    + exfalso. apply Hj. apply in_map_iff. exists (j, x). auto.
    + apply IH; auto.
Qed.

Lemma exec_atomic_fst store v1 ops w : forall s, map fst (exec_atomic store v1 ops w s) = w.
Proof.
  induction w as [|i w IH]; intro s; cbn; [reflexivity|].
  destruct (spec_step store v1 s (nth_op ops i)) as [s' x]. cbn. rewrite IH. reflexivity.
Qed.

Lemma res_eqb_refl x : x <> RPanic -> x <> RNone -> res_eqb x x = true.
Proof.
  destruct x; cbn; try congruence; intros _ _; try apply N.eqb_refl.
  induction l as [|y l IH]; cbn; auto. rewrite N.eqb_refl. exact IH.
Qed.

(* the specification never answers RPanic; it answers RNone only to an operation the store kind
   does not have *)
Definition supported (store : N) (o : cop) : bool :=
  let k := c_kind o in
  if (store =? 0)%N then (k <=? 8)%N
  else if (store =? 1)%N then ((k =? 0) || (k =? 2) || (k =? 3) || (k =? 6) || (k =? 7))%N
  else ((k =? 0) || (k =? 2) || (k =? 7))%N.

Lemma spec_step_answers store v1 s o :
  supported store o = true ->
  snd (spec_step store v1 s o) <> RPanic /\ snd (spec_step store v1 s o) <> RNone.
Proof.
  unfold supported, spec_step, step_blockstore, step_storage, step_deferred, read_ops, fin_ro_step, close_step.
  intro H. destruct s as [ks fn cl cr]. destruct o as [k ids]. cbn [c_kind] in *.
  destruct (store =? 0)%N; [|destruct (store =? 1)%N].
  - assert (k = 0 \/ k = 1 \/ k = 2 \/ k = 3 \/ k = 4 \/ k = 5 \/ k = 6 \/ k = 7 \/ k = 8)%N as Hk
      by (apply N.leb_le in H; lia).
    destruct Hk as [->|[->|[->|[->|[->|[->|[->|[->| ->]]]]]]]]; destruct v1, cl, fn; cbn;
      try (split; discriminate);
      match goal with |- context [if ?c then _ else _] => destruct c end; split; discriminate.
  - assert (k = 0 \/ k = 2 \/ k = 3 \/ k = 6 \/ k = 7)%N as Hk.
    { repeat (apply orb_prop in H as [H|H]); apply N.eqb_eq in H; lia. }
    destruct Hk as [->|[->|[->|[->| ->]]]]; destruct cl; cbn; try (split; discriminate);
      match goal with |- context [if ?c then _ else _] => destruct c end; split; discriminate.
  - assert (k = 0 \/ k = 2 \/ k = 7)%N as Hk.
    { repeat (apply orb_prop in H as [H|H]); apply N.eqb_eq in H; lia. }
    destruct Hk as [->|[->| ->]]; destruct cl; cbn; try (split; discriminate);
      match goal with |- context [if ?c then _ else _] => destruct c end; split; discriminate.
Qed.

Lemma atomic_replay_ok store v1 ops results w :
  (forall i, In i w -> supported store (nth_op ops i) = true) ->
  forall s, (forall i x, In (i, x) (exec_atomic store v1 ops w s) -> nth i results RNone = x) ->
  exists s', replay_ok store v1 ops results w s = Some s'.
Proof.
  intro Hsup. induction w as [|i w IH]; intros s H; cbn; [eauto|].
  cbn in H. pose proof (spec_step_answers store v1 s (nth_op ops i) (Hsup i (or_introl eq_refl))) as [Hp Hn].
  destruct (spec_step store v1 s (nth_op ops i)) as [s' x] eqn:Es. cbn in Hp, Hn.
  rewrite (H i x (or_introl eq_refl)). rewrite res_eqb_refl by assumption.
  apply IH; [intros j Hj; apply Hsup; right; exact Hj|]. intros j y Hj. apply H. right. exact Hj.
Qed.

Theorem atomic_sections_linearizable store v1 ops tr :
  wf_trace (length ops) tr ->
  forallb (supported store) ops = true ->
  lin_check store v1 ops (hist_of (length ops) tr) (results_of store v1 ops tr) (lin_order tr) = true.
Proof.
  intros Hwf Hsup. unfold lin_check.
  rewrite (atomic_perm_ok _ _ Hwf). rewrite (atomic_rt_ok _ _ Hwf tr [] eq_refl). cbn [andb].
  destruct (atomic_replay_ok store v1 ops (results_of store v1 ops tr) (lin_order tr)) with (s := s_init) as [s' ->];
    [| |reflexivity].
  - intros i Hi. apply in_lin_order in Hi. destruct Hwf as (_ & Hlt & _). specialize (Hlt _ Hi). cbn in Hlt.
    rewrite forallb_forall in Hsup. apply Hsup. unfold nth_op. apply nth_In. exact Hlt.
  - intros i x Hin. unfold results_of.
    assert (i < length ops) as Hi.
    { destruct Hwf as (_ & Hlt & _). apply (Hlt (ELin i)). apply in_lin_order.
      rewrite <- (exec_atomic_fst store v1 ops (lin_order tr) s_init). apply in_map_iff. exists (i, x). auto. }
    rewrite nth_map_seq by exact Hi. apply assoc_res_in; [|exact Hin].
    rewrite exec_atomic_fst. apply lin_order_nodup. destruct Hwf as (H & _). exact H.
Qed.

(* ---- what a history that passes the check guarantees ------------------------------------------ *)
Lemma memN_In x l : memN x l = true <-> exists y, In y l /\ mhkey y = mhkey x.
Proof.
  unfold memN, same_mh. rewrite existsb_exists. split.
  - intros (y & Hy & E). apply N.eqb_eq in E. exists y. auto.
  - intros (y & Hy & E). exists y. split; [exact Hy|apply N.eqb_eq; auto].
Qed.

Lemma firstN_spec x l : memN x l = true -> In (firstN x l) l /\ mhkey (firstN x l) = mhkey x.
Proof.
  unfold memN, firstN. intro H. destruct (find (same_mh x) l) as [j|] eqn:E.
  - apply find_some in E as [Hj Hs]. unfold same_mh in Hs. apply N.eqb_eq in Hs. auto.
  - apply existsb_exists in H as (y & Hy & Hs). rewrite (find_none _ _ E y Hy) in Hs. discriminate.
Qed.

Lemma add_keys_incl k ids : forall ks, In k ks -> In k (add_keys ks ids).
Proof.
  induction ids as [|i ids IH]; intros ks H; cbn; [exact H|]. apply IH.
  destruct (memN i ks); [exact H|apply in_or_app; auto].
Qed.

Lemma add_keys_In k ids : forall ks, In k (add_keys ks ids) -> In k ks \/ In k ids.
Proof.
  induction ids as [|i ids IH]; intro ks; cbn; [tauto|]. intro H. apply IH in H as [H|H]; [|auto].
  destruct (memN i ks); [auto|]. apply in_app_or in H as [H|[<-|[]]]; auto.
Qed.

Lemma memN_incl x a b : (forall y, In y a -> In y b) -> memN x a = true -> memN x b = true.
Proof. intros Hi H. apply memN_In in H as (y & Hy & E). apply memN_In. exists y. auto. Qed.

(* after putting ids, every one of them is present (under its multihash) *)
Lemma add_keys_mem k ids : forall ks, In k ids -> memN k (add_keys ks ids) = true.
Proof.
  induction ids as [|i ids IH]; intros ks []; cbn.
  - subst i. apply (memN_incl k (if memN k ks then ks else ks ++ [k])); [intros y; apply add_keys_incl|].
    destruct (memN k ks) eqn:E; [exact E|]. apply memN_In. exists k. split; [apply in_or_app; right; left|]; reflexivity.
  - apply IH. assumption.
Qed.

Ltac split_ifs :=
  repeat match goal with
         | |- context [if ?c then _ else _] => destruct c eqn:?
         | H : context [if ?c then _ else _] |- _ => destruct c eqn:?
         end.

Definition is_put (o : cop) : Prop := c_kind o = 0%N \/ c_kind o = 1%N.

(* the key set only grows, and only by the ids of Put / PutMany *)
Lemma spec_step_keys store v1 s o k :
  In k (s_keys (fst (spec_step store v1 s o))) ->
  In k (s_keys s) \/ (is_put o /\ In k (c_ids o)).
Proof.
  destruct s as [ks fn cl cr], o as [kd ids]. unfold is_put. cbn [c_kind c_ids s_keys].
  unfold spec_step, step_blockstore, step_storage, step_deferred, read_ops, fin_ro_step, close_step.
  cbn [c_kind c_ids s_keys s_closed s_fin s_created with_keys with_fin with_closed with_created].
  intro H. split_ifs; cbn in *; auto;
    apply add_keys_In in H as [H|H]; auto; right; (split; [|exact H]);
    repeat match goal with E : (_ || _)%bool = true |- _ => apply orb_prop in E as [E|E] end;
    repeat match goal with E : (_ =? _)%N = true |- _ => apply N.eqb_eq in E end; auto.
Qed.

Lemma spec_step_mono store v1 s o k :
  In k (s_keys s) -> In k (s_keys (fst (spec_step store v1 s o))).
Proof.
  destruct s as [ks fn cl cr], o as [kd ids].
  unfold spec_step, step_blockstore, step_storage, step_deferred, read_ops, fin_ro_step, close_step.
  cbn [c_kind c_ids s_keys s_closed s_fin s_created with_keys with_fin with_closed with_created].
  intro H. split_ifs; cbn; auto; apply add_keys_incl; auto.
Qed.

Lemma spec_step_put_ok store v1 s o k :
  is_put o -> snd (spec_step store v1 s o) = ROk -> In k (c_ids o) ->
  memN k (s_keys (fst (spec_step store v1 s o))) = true.
Proof.
  destruct s as [ks fn cl cr], o as [kd ids]. unfold is_put. cbn [c_kind c_ids].
  unfold spec_step, step_blockstore, step_storage, step_deferred, read_ops, fin_ro_step, close_step.
  cbn [c_kind c_ids s_keys s_closed s_fin s_created with_keys with_fin with_closed with_created].
  intros Hk Hr Hin. destruct Hk as [-> | ->]; cbn in *; split_ifs; cbn in *; try discriminate;
    apply add_keys_mem; auto.
Qed.

(* Has / Get answer from the current key set; Get returns the block that was asked for *)
Lemma spec_step_has store v1 s o b :
  c_kind o = 2%N -> snd (spec_step store v1 s o) = RNum b ->
  b = (if memN (first_id o) (s_keys s) then 1 else 0)%N.
Proof.
  destruct s as [ks fn cl cr], o as [kd ids]. cbn [c_kind]. intros -> .
  unfold spec_step, step_blockstore, step_storage, step_deferred, read_ops.
  cbn [c_kind c_ids s_keys s_closed s_fin s_created].
  intro H. split_ifs; cbn in *; try discriminate; inversion H; reflexivity.
Qed.

Lemma spec_step_get store v1 s o x :
  c_kind o = 3%N -> snd (spec_step store v1 s o) = RNum x ->
  In x (s_keys s) /\ mhkey x = mhkey (first_id o).
Proof.
  destruct s as [ks fn cl cr], o as [kd ids]. cbn [c_kind]. intros -> .
  unfold spec_step, step_blockstore, step_storage, step_deferred, read_ops.
  cbn [c_kind c_ids s_keys s_closed s_fin s_created].
  intro H. split_ifs; cbn in *; try discriminate; inversion H; subst; apply firstN_spec; assumption.
Qed.

Lemma res_eqb_ok x : res_eqb x ROk = true -> x = ROk.
Proof. destruct x; cbn; congruence. Qed.
Lemma res_eqb_num x b : res_eqb x (RNum b) = true -> x = RNum b.
Proof. destruct x; cbn; try congruence. intro H. apply N.eqb_eq in H. congruence. Qed.

Lemma replay_split store v1 ops results w1 i w2 : forall s sf,
  replay_ok store v1 ops results (w1 ++ i :: w2) s = Some sf ->
  exists s1, replay_ok store v1 ops results w1 s = Some s1 /\
    res_eqb (snd (spec_step store v1 s1 (nth_op ops i))) (nth i results RNone) = true /\
    replay_ok store v1 ops results w2 (fst (spec_step store v1 s1 (nth_op ops i))) = Some sf.
Proof.
  induction w1 as [|j w1 IH]; intros s sf H; cbn in H.
  - exists s. destruct (spec_step store v1 s (nth_op ops i)) as [s' x]. cbn.
    destruct (res_eqb x (nth i results RNone)); [auto|discriminate].
  - destruct (spec_step store v1 s (nth_op ops j)) as [s' x] eqn:Es.
    destruct (res_eqb x (nth j results RNone)) eqn:Er; [|discriminate].
    destruct (IH _ _ H) as (s1 & H1 & H2 & H3). exists s1. cbn. rewrite Es, Er. auto.
Qed.

Lemma replay_mono store v1 ops results w k : forall s sf,
  replay_ok store v1 ops results w s = Some sf -> In k (s_keys s) -> In k (s_keys sf).
Proof.
  induction w as [|i w IH]; intros s sf H Hin; cbn in H; [inversion H; subst; exact Hin|].
  destruct (spec_step store v1 s (nth_op ops i)) as [s' x] eqn:Es.
  destruct (res_eqb x (nth i results RNone)); [|discriminate].
  eapply IH; eauto. pose proof (spec_step_mono store v1 s (nth_op ops i) k Hin) as Hm.
  rewrite Es in Hm. exact Hm.
Qed.

(* every key of a replayed state was put by an operation of the replayed prefix *)
Lemma replay_origin store v1 ops results w k : forall s sf,
  replay_ok store v1 ops results w s = Some sf -> In k (s_keys sf) ->
  In k (s_keys s) \/ exists i, In i w /\ is_put (nth_op ops i) /\ In k (c_ids (nth_op ops i)).
Proof.
  induction w as [|i w IH]; intros s sf H Hin; cbn in H; [inversion H; subst; auto|].
  destruct (spec_step store v1 s (nth_op ops i)) as [s' x] eqn:Es.
  destruct (res_eqb x (nth i results RNone)); [|discriminate].
  destruct (IH _ _ H Hin) as [Hs'|(j & Hj & Hp & Hk)].
  - assert (s' = fst (spec_step store v1 s (nth_op ops i))) as E by (rewrite Es; reflexivity).
    rewrite E in Hs'. apply spec_step_keys in Hs' as [Hs|(Hp & Hk)]; [auto|].
    right. exists i. cbn. auto.
  - right. exists j. cbn. auto.
Qed.

(* real time forces the order: if a returned before b was invoked, a is before b in the witness *)
Lemma rt_order hist w a b :
  rt_ok hist w = true -> In a w -> In b w -> a <> b ->
  (h_ret hist a < h_inv hist b)%N ->
  exists w1 w2, w = w1 ++ a :: w2 /\ In b w2.
Proof.
  induction w as [|x w IH]; intros Hrt Ha Hb Hne Hlt; [destruct Ha|].
  cbn in Hrt. apply andb_prop in Hrt as [Hx Hrt].
  destruct Ha as [->|Ha].
  - destruct Hb as [->|Hb]; [congruence|]. exists [], w. auto.
  - destruct Hb as [->|Hb].
    + exfalso. rewrite forallb_forall in Hx. specialize (Hx _ Ha).
      apply negb_true_iff in Hx. apply N.ltb_ge in Hx. lia.
    + destruct (IH Hrt Ha Hb Hne Hlt) as (w1 & w2 & -> & Hb2). exists (x :: w1), w2. auto.
Qed.

Lemma perm_ok_in n w i : perm_ok n w = true -> i < n -> In i w.
Proof.
  unfold perm_ok. intros H Hi. apply andb_prop in H as [_ H]. rewrite forallb_forall in H.
  specialize (H i (proj2 (in_seq n 0 i) (conj (Nat.le_0_l i) Hi))).
  apply existsb_exists in H as (j & Hj & E). apply Nat.eqb_eq in E. subst. exact Hj.
Qed.

Section Guarantees.
Variables (store : N) (v1 : bool) (ops : list cop) (hist : list (N * N)) (results : list cres) (w : list nat).
Hypothesis Hlin : lin_check store v1 ops hist results w = true.

Lemma lin_parts :
  perm_ok (length ops) w = true /\ rt_ok hist w = true /\
  exists sf, replay_ok store v1 ops results w s_init = Some sf.
Proof.
  unfold lin_check in Hlin. apply andb_prop in Hlin as [H H3]. apply andb_prop in H as [H1 H2].
  repeat split; auto. destruct (replay_ok store v1 ops results w s_init) as [sf|]; [eauto|discriminate].
Qed.

(* a block whose Put (or PutMany) has returned successfully before Has was invoked is reported present
   -- also when it is asked for under another CID with the same multihash -- (unless the store has been
   closed meanwhile, in which case Has answers with an error, not "absent") *)
Theorem lin_put_then_has a b k k' r :
  a < length ops -> b < length ops ->
  is_put (nth_op ops a) -> In k (c_ids (nth_op ops a)) -> nth a results RNone = ROk ->
  c_kind (nth_op ops b) = 2%N -> first_id (nth_op ops b) = k' -> mhkey k' = mhkey k ->
  nth b results RNone = RNum r ->
  (h_ret hist a < h_inv hist b)%N ->
  r = 1%N.
Proof.
  intros Ha Hb Hput Hk Hra Hkind Hid Hmh Hrb Hrt.
  destruct lin_parts as (Hperm & Hrtok & sf & Hrep).
  assert (a <> b) as Hne by (intro; subst; destruct Hput as [E|E]; rewrite E in Hkind; discriminate).
  destruct (rt_order hist w a b Hrtok (perm_ok_in _ _ _ Hperm Ha) (perm_ok_in _ _ _ Hperm Hb) Hne Hrt)
    as (w1 & w2 & -> & Hb2).
  destruct (replay_split _ _ _ _ _ _ _ _ _ Hrep) as (s1 & _ & Hres & Hrest).
  rewrite Hra in Hres. apply res_eqb_ok in Hres.
  pose proof (spec_step_put_ok store v1 s1 (nth_op ops a) k Hput Hres Hk) as Hin.
  apply memN_In in Hin as (y & Hy & Ey).
  apply in_split in Hb2 as (u1 & u2 & ->).
  destruct (replay_split _ _ _ _ _ _ _ _ _ Hrest) as (s2 & Hpre & Hres2 & _).
  rewrite Hrb in Hres2. apply res_eqb_num in Hres2.
  pose proof (replay_mono _ _ _ _ _ y _ _ Hpre Hy) as Hin2.
  rewrite (spec_step_has store v1 s2 (nth_op ops b) r Hkind Hres2), Hid.
  assert (memN k' (s_keys s2) = true) as Hm by (apply memN_In; exists y; split; [exact Hin2|congruence]).
  rewrite Hm. reflexivity.
Qed.

(* ... and whenever Get returns a block, it is a block with the multihash that was asked for (ids stand
   for the exact bytes) that some Put invoked before the Get returned has carried *)
Theorem lin_get_exact b x :
  b < length ops -> c_kind (nth_op ops b) = 3%N -> nth b results RNone = RNum x ->
  mhkey x = mhkey (first_id (nth_op ops b)) /\
  exists a, a < length ops /\ is_put (nth_op ops a) /\ In x (c_ids (nth_op ops a)) /\
            ~ (h_ret hist b < h_inv hist a)%N.
Proof.
  intros Hb Hkind Hrb. destruct lin_parts as (Hperm & Hrtok & sf & Hrep).
  pose proof (perm_ok_in _ _ _ Hperm Hb) as Hbw. apply in_split in Hbw as (w1 & w2 & ->).
  destruct (replay_split _ _ _ _ _ _ _ _ _ Hrep) as (s1 & Hpre & Hres & _).
  rewrite Hrb in Hres. apply res_eqb_num in Hres.
  destruct (spec_step_get store v1 s1 (nth_op ops b) x Hkind Hres) as [Hin Hmh].
  split; [exact Hmh|].
  destruct (replay_origin _ _ _ _ _ _ _ _ Hpre Hin) as [[]|(a & Ha & Hput & Hk)].
  exists a. repeat split; auto.
  - destruct (Nat.lt_ge_cases a (length ops)) as [Hlt|Hge]; [exact Hlt|].
    unfold nth_op in Hput. rewrite nth_overflow in Hput by exact Hge. destruct Hput; discriminate.
  - clear - Hrtok Ha. induction w1 as [|y w1 IH]; [destruct Ha|].
    cbn in Hrtok. apply andb_prop in Hrtok as [Hy Hr]. destruct Ha as [->|Ha]; [|auto].
    rewrite forallb_forall in Hy. specialize (Hy b (in_or_app _ _ _ (or_intror (in_eq _ _)))).
    apply negb_true_iff in Hy. apply N.ltb_ge in Hy. lia.
Qed.

(* Has never reports a block whose multihash no Put carried *)
Theorem lin_has_only_put b :
  b < length ops -> c_kind (nth_op ops b) = 2%N -> nth b results RNone = RNum 1%N ->
  exists a x, a < length ops /\ is_put (nth_op ops a) /\ In x (c_ids (nth_op ops a)) /\
              mhkey x = mhkey (first_id (nth_op ops b)) /\
              ~ (h_ret hist b < h_inv hist a)%N.
Proof.
  intros Hb Hkind Hrb. destruct lin_parts as (Hperm & Hrtok & sf & Hrep).
  pose proof (perm_ok_in _ _ _ Hperm Hb) as Hbw. apply in_split in Hbw as (w1 & w2 & ->).
  destruct (replay_split _ _ _ _ _ _ _ _ _ Hrep) as (s1 & Hpre & Hres & _).
  rewrite Hrb in Hres. apply res_eqb_num in Hres.
  pose proof (spec_step_has store v1 s1 (nth_op ops b) 1%N Hkind Hres) as Hm.
  destruct (memN (first_id (nth_op ops b)) (s_keys s1)) eqn:Em; [|discriminate].
  apply memN_In in Em as (x & Hx & Ex).
  destruct (replay_origin _ _ _ _ _ _ _ _ Hpre Hx) as [[]|(a & Ha & Hput & Hk)].
  exists a, x. repeat split; auto.
  - destruct (Nat.lt_ge_cases a (length ops)) as [Hlt|Hge]; [exact Hlt|].
    unfold nth_op in Hput. rewrite nth_overflow in Hput by exact Hge. destruct Hput; discriminate.
  - clear - Hrtok Ha. induction w1 as [|y w1 IH]; [destruct Ha|].
    cbn in Hrtok. apply andb_prop in Hrtok as [Hy Hr]. destruct Ha as [->|Ha]; [|auto].
    rewrite forallb_forall in Hy. specialize (Hy b (in_or_app _ _ _ (or_intror (in_eq _ _)))).
    apply negb_true_iff in Hy. apply N.ltb_ge in Hy. lia.
Qed.
End Guarantees.

(* ---- non-vacuity -------------------------------------------------------------------------------- *)
(* three calls on a blockstore: Put(5) and Has(5) overlap, the Has takes effect first (answers 0);
   a later Get(5) starts after the Put has returned and finds block 5 *)
Definition ex_ops : list cop :=
  [ {| c_kind := 0; c_ids := [5%N] |}; {| c_kind := 2; c_ids := [5%N] |}; {| c_kind := 3; c_ids := [5%N] |} ].
Definition ex_trace : list ev :=
  [EInv 0; EInv 1; ELin 1; ELin 0; ERet 0; EInv 2; ERet 1; ELin 2; ERet 2].

Example ex_trace_wf : wf_trace (length ex_ops) ex_trace.
Proof.
  unfold wf_trace, ex_trace. repeat split.
  - repeat constructor; cbn; intuition discriminate.
  - intros e H. cbn in H. cbn. repeat (destruct H as [<-|H]; [cbn; lia|]). destruct H.
  - intros i Hi. cbn in Hi.
    destruct i as [|[|[|i]]]; [| | |lia]; cbn; do 3 eexists; repeat split; try reflexivity; lia.
Qed.

Example ex_trace_supported : forallb (supported 0) ex_ops = true.
Proof. reflexivity. Qed.

Example ex_trace_results :
  results_of 0 false ex_ops ex_trace = [ROk; RNum 0; RNum 5] /\
  lin_order ex_trace = [1; 0; 2] /\
  lin_check 0 false ex_ops (hist_of 3 ex_trace) (results_of 0 false ex_ops ex_trace) (lin_order ex_trace) = true.
Proof. vm_compute. auto. Qed.

(* the hypotheses of the guarantees are met by that history: the Put returned (stamp 4) before the
   Get was invoked (stamp 5) *)
Example ex_guarantee_hyps :
  is_put (nth_op ex_ops 0) /\ nth 0 (results_of 0 false ex_ops ex_trace) RNone = ROk /\
  c_kind (nth_op ex_ops 2) = 3%N /\ nth 2 (results_of 0 false ex_ops ex_trace) RNone = RNum 5 /\
  (h_ret (hist_of 3 ex_trace) 0 < h_inv (hist_of 3 ex_trace) 2)%N.
Proof. vm_compute. repeat split; auto. Qed.

(* a history that is NOT linearizable is rejected for every witness order: Put(5) returned before
   Has(5) was invoked, yet Has answered "absent" *)
Example ex_stale_read_rejected :
  forallb (fun w => negb (lin_check 0 false
      [ {| c_kind := 0; c_ids := [5%N] |}; {| c_kind := 2; c_ids := [5%N] |} ]
      [(1, 2); (3, 4)]%N [ROk; RNum 0] w)) [[0; 1]; [1; 0]] = true.
Proof. vm_compute. reflexivity. Qed.

(* ---- OnPut callbacks: what n successful Puts fire --------------------------------------------- *)
Lemma cb_filter_nodup (l : list (nat * bool)) f : NoDup (map fst l) -> NoDup (map fst (filter f l)).
Proof.
  induction l as [|c l IH]; cbn; intro H; [constructor|]. inversion H as [|? ? Hn Hr]; subst.
  destruct (f c); cbn; [constructor|]; auto.
  intro Hin. apply Hn. apply in_map_iff in Hin as (x & Hx & Hf). apply filter_In in Hf as [Hf _].
  apply in_map_iff. eauto.
Qed.

Lemma cb_persistent_fixed (ps : list (nat * bool)) :
  (forall c, In c ps -> snd c = false) -> filter (fun c => negb (snd c)) ps = ps.
Proof.
  induction ps as [|c ps IH]; cbn; intro H; [reflexivity|].
  rewrite (H c (or_introl eq_refl)). cbn. f_equal. apply IH. intros x Hx. apply H. right. exact Hx.
Qed.

Lemma cb_fires_persistent ps i : (forall c, In c ps -> snd c = false) ->
  forall n, count_occ Nat.eq_dec (cb_fires ps n) i = n * count_occ Nat.eq_dec (map fst ps) i.
Proof.
  intros H n. induction n as [|n IH]; [reflexivity|].
  cbn [cb_fires cb_one_put fst snd]. rewrite count_occ_app, (cb_persistent_fixed ps H), IH. lia.
Qed.

(* a once-only callback fires exactly once if there is any successful Put, a persistent one once per
   successful Put: the counts [cb_expected] that the check demands of the implementation *)
Theorem cb_fires_counts (cbs : list (nat * bool)) i once n :
  NoDup (map fst cbs) -> In (i, once) cbs ->
  count_occ Nat.eq_dec (cb_fires cbs n) i = N.to_nat (cb_expected once (N.of_nat n)).
Proof.
  intros Hnd Hin. destruct n as [|n]; [destruct once; reflexivity|].
  cbn [cb_fires cb_one_put fst snd]. rewrite count_occ_app.
  assert (count_occ Nat.eq_dec (map fst cbs) i = 1) as H1.
  { apply NoDup_count_occ'; [exact Hnd|]. apply in_map_iff. exists (i, once). auto. }
  rewrite H1. rewrite cb_fires_persistent
    by (intros c Hc; apply filter_In in Hc as [_ Hc]; destruct (snd c); [discriminate|reflexivity]).
  pose proof (cb_filter_nodup cbs (fun c => negb (snd c)) Hnd) as Hnd'.
  destruct once.
  - assert (count_occ Nat.eq_dec (map fst (filter (fun c => negb (snd c)) cbs)) i = 0) as H0.
    { apply count_occ_not_In. intro Hi. apply in_map_iff in Hi as ([j o] & Hj & Hf). cbn in Hj. subst j.
      apply filter_In in Hf as [Hf Ho]. cbn in Ho. destruct o; [discriminate|].
      (* two entries with the same number: (i,true) and (i,false) *)
      clear - Hnd Hin Hf. induction cbs as [|c cbs IH]; [destruct Hin|].
      cbn in Hnd. inversion Hnd as [|? ? Hn Hr]; subst.
      destruct Hin as [->|Hin], Hf as [E|Hf]; try discriminate.
      - apply Hn. apply in_map_iff. exists (i, false). auto.
      - subst c. apply Hn. apply in_map_iff. exists (i, true). auto.
      - auto. }
    rewrite H0. unfold cb_expected. lia.
  - assert (count_occ Nat.eq_dec (map fst (filter (fun c => negb (snd c)) cbs)) i = 1) as H2.
    { apply NoDup_count_occ'; [exact Hnd'|]. apply in_map_iff. exists (i, false). split; [reflexivity|].
      apply filter_In. auto. }
    rewrite H2. unfold cb_expected. lia.
Qed.

Example cb_fires_example :
  cb_fires [(0, true); (1, false); (2, true); (3, false)] 3 = [0; 1; 2; 3; 1; 3; 1; 3].
Proof. reflexivity. Qed.

(* ---- key families -------------------------------------------------------------------------------- *)
Example mhkey_classes :
  map mhkey [7; 100; 101; 102; 103; 104; 105; 113; 115]%N = [7; 100; 100; 100; 103; 103; 105; 113; 115]%N.
Proof. reflexivity. Qed.

(* sequentially: Put(v0), Put(v3) [same digest bytes, other hash code: another key], Put(v1) [same
   multihash as v0: skipped], Has(v3), Get(v2) [finds v0's block], AllKeys, GetSize(v4) *)
Example family_history :
  snd (fold_left (fun acc o => let '(s, r) := spec_step 0 false (fst acc) o in (s, snd acc ++ [r]))
        [ {| c_kind := 0; c_ids := [100%N] |}; {| c_kind := 0; c_ids := [103%N] |};
          {| c_kind := 0; c_ids := [101%N] |}; {| c_kind := 2; c_ids := [103%N] |};
          {| c_kind := 3; c_ids := [102%N] |}; {| c_kind := 5; c_ids := [] |};
          {| c_kind := 4; c_ids := [104%N] |} ] (s_init, []))
  = [ROk; ROk; ROk; RNum 1; RNum 100; RList [100; 103]%N; RNum (blk_size 103)].
Proof. vm_compute. reflexivity. Qed.

(* the defect class of a digest-only lookup: Put(v3) returned, a later Has(v3) answers "absent" --
   rejected for every witness order *)
Example family_stale_has_rejected :
  forallb (fun w => negb (lin_check 0 false
      [ {| c_kind := 0; c_ids := [100%N] |}; {| c_kind := 0; c_ids := [103%N] |}; {| c_kind := 2; c_ids := [103%N] |} ]
      [(1, 2); (3, 4); (5, 6)]%N [ROk; ROk; RNum 0] w))
    [[0; 1; 2]; [0; 2; 1]; [1; 0; 2]; [1; 2; 0]; [2; 0; 1]; [2; 1; 0]] = true.
Proof. vm_compute. reflexivity. Qed.
