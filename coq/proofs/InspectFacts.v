(* C13, part 1: Inspect's own section walk and the BlockReader's walk accept exactly the same
   section streams, with the same blocks. *)
From GoCar Require Import Bytes Varint Cid Header Frame V2Header Scan Inspect.
From GoCarProofs Require Import BytesFacts VarintFacts CidFacts InspectParse.

Lemma drop_take n l (s : bytes) : drop n (take l s) = take (l - n) (drop n s).
Proof.
  rewrite !drop_skipn, !take_firstn. rewrite skipn_firstn_comm. f_equal. lia.
Qed.

(* the options of the hash-verifying scan Inspect(true) is compared with *)
Definition untrusted (o : ropts) : ropts := mkropts (o_zeof o) (o_maxh o) (o_maxs o) false.

(* what one scanned block adds to Inspect's running variables *)
Definition blk_step (roots : list bytes) (a : iacc) (b : block) : iacc :=
  iacc_step roots (fst b) (cid_parts (fst b)) (blen (fst b)) (blen (snd b)) a.

Lemma cid_parts_enc p : cid_ok p -> cid_parts (cid_enc p) = p.
Proof.
  intros H. unfold cid_parts. rewrite <- (app_nil_r (cid_enc p)).
  rewrite cid_from_bytes_enc by exact H. reflexivity.
Qed.

Section Oracles.
  Variable hok : bytes -> bytes -> option bool.

  Lemma verify_not_eof c p d : verify hok c p d <> Err EEof.
  Proof. unfold verify. destruct (hash_matches hok c p d) as [[|]|]; discriminate. Qed.

  (* section size bound every accepted block satisfies *)
  Definition blk_small (o : ropts) (b : block) : Prop := blen (fst b) + blen (snd b) <= o_maxs o.

  Lemma loop_scan o roots : o_maxs o <= max_digest_alloc ->
    forall fuel s a acc,
    match insp_loop hok fuel true o roots s a with
    | Ok a' => exists bs, scan_blocks hok fuel (untrusted o) s acc = mkscan (rev acc ++ bs) EEof /\
                          a' = fold_left (blk_step roots) bs a /\ Forall (blk_small o) bs
    | Err _ => s_end (scan_blocks hok fuel (untrusted o) s acc) <> EEof
    end.
  Proof.
    intros Hcap. induction fuel as [|f IH]; intros s a acc; [cbn; discriminate|].
    cbn [insp_loop scan_blocks]. unfold next_block, read_node, ld_read, ld_read_size.
    change (o_zeof (untrusted o)) with (o_zeof o). change (o_maxs (untrusted o)) with (o_maxs o).
    change (o_trusted (untrusted o)) with false. cbv iota.
    destruct (read_uv s) as [l rest n| | | |] eqn:Euv.
    2:{ exists []. rewrite app_nil_r. split; [reflexivity|split; [reflexivity|constructor]]. }
    2,3,4: cbn; discriminate.
    destruct ((l =? 0) && o_zeof o) eqn:Ez.
    { exists []. rewrite app_nil_r. split; [reflexivity|split; [reflexivity|constructor]]. }
    destruct (o_maxs o <? l) eqn:Emax; [cbn; discriminate|].
    destruct (blen rest <? l) eqn:Eshort.
    - (* the section is cut short: both fail *)
      destruct (cid_from_reader rest) as [cn c p after| |k] eqn:Ecfr; try (cbn; discriminate).
      destruct (l <? cn) eqn:Elc; [cbn; discriminate|].
      destruct (cid_from_reader_inv _ _ _ _ _ Ecfr) as (_ & _ & Hs & _ & Hn).
      assert (Hafter : blen rest = cn + blen after) by (rewrite Hs at 1; rewrite blen_app; lia).
      replace (blen after <? l - cn) with true by lia. cbn. discriminate.
    - destruct (cid_from_bytes (take l rest)) as [[cn p]|] eqn:Efb.
      + destruct (cid_bytes_to_reader l rest cn p Efb) as (Hr & Hcl); [lia|lia|].
        rewrite Hr. replace (l <? cn) with false by lia.
        replace (blen (drop cn rest) <? l - cn) with false by (rewrite blen_drop; lia).
        rewrite drop_take.
        destruct (verify hok (take cn (take l rest)) p (take (l - cn) (drop cn rest))) as [[]|e] eqn:Ev.
        2:{ cbn. intros X. subst e. eapply verify_not_eof. exact Ev. }
        rewrite drop_drop. replace (cn + (l - cn)) with l by lia.
        set (c := take cn (take l rest)). set (d := take (l - cn) (drop cn rest)).
        specialize (IH (drop l rest) (iacc_step roots c p cn (l - cn) a) ((c, d) :: acc)).
        destruct (insp_loop hok f true o roots (drop l rest) (iacc_step roots c p cn (l - cn) a)) as [a'|e].
        * destruct IH as (bs & Hscan & Ha' & Hsmall).
          destruct (cid_from_bytes_inv _ _ _ Efb) as (Hok & Hd & Hn).
          assert (Hc : c = cid_enc p) by (unfold c; rewrite Hd at 1; rewrite Hn; apply take_app).
          assert (Hcl2 : blen c = cn) by (rewrite Hc; symmetry; exact Hn).
          assert (Hdl : blen d = l - cn) by (unfold d; rewrite blen_take, blen_drop; lia).
          exists ((c, d) :: bs). split; [|split].
          -- etransitivity; [exact Hscan|]. cbn [rev]. rewrite <- app_assoc. reflexivity.
          -- cbn [fold_left]. unfold blk_step at 2. cbn [fst snd].
             rewrite Hcl2, Hdl. rewrite Hc at 2. rewrite cid_parts_enc by exact Hok. exact Ha'.
          -- constructor; [|exact Hsmall]. unfold blk_small. cbn [fst snd]. lia.
        * exact IH.
      + (* the buffer parser rejects: so does the stream parser, or the CID overruns the section *)
        destruct (cid_from_reader rest) as [cn c p after| |k] eqn:Ecfr; try (cbn; discriminate).
        destruct (l <? cn) eqn:Elc; [cbn; discriminate|].
        exfalso. destruct (cid_reader_to_bytes l rest cn c p after Ecfr) as (X & _); [lia|congruence].
  Qed.
End Oracles.
