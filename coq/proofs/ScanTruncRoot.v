(* C02 (b),(c) for the two CARv1 readers that ScanTrunc.v does not cover:
   - the internal carv1.CarReader ([carv1_read_all]: go-varint framing, CidFromBytes, rejects empty roots),
   - the root-module car.CarReader ([root_read_all]: encoding/binary varints over bufio, CidFromReader
     over the section buffer).
   Same statements as for the v2 BlockReader: a cut that is not on a section boundary is a failed open
   or exactly the complete blocks in front of the cut followed by an error that is not a clean EOF; a
   section whose bytes do not hash to its CID ends the scan with an error right after its predecessors. *)
From GoCar Require Import Bytes Varint Cid Header Frame V2Header Scan.
From GoCarProofs Require Import BytesFacts VarintFacts CidFacts HeaderFacts ScanFacts ScanTrunc
  ReadOnlyRoundTrip.

(* ---- internal carv1 reader ------------------------------------------------------------------------ *)
Section Carv1.
  Variable hok : bytes -> bytes -> option bool.
  Variable hdrdec : bytes -> option (list bytes * N).

  (* the options the internal reader's Next loop runs under: never trusted *)
  Definition c02_untrusted (o : ropts) : ropts := mkropts (o_zeof o) (o_maxh o) (o_maxs o) false.

  Theorem carv1_read_all_trunc_v1 o roots bs k :
    hdr_good hdrdec roots -> blen (enc_header (Some roots) 1) <= o_maxh o ->
    blen (enc_header (Some roots) 1) < two63 -> roots <> [] ->
    Forall (block_ok (o_maxs o)) bs -> Forall (hash_good hok) bs ->
    k < blen (enc_payload roots bs) ->
    ~ (exists j, (j <= length bs)%nat /\
                 k = blen (ld (enc_header (Some roots) 1)) + blen (enc_sections (firstn j bs))) ->
    (k < blen (ld (enc_header (Some roots) 1)) /\
       exists e, carv1_read_all hok hdrdec o (take k (enc_payload roots bs)) = Err e)
    \/ (blen (ld (enc_header (Some roots) 1)) <= k /\ exists j e, (j < length bs)%nat /\ e <> EEof /\
          carv1_read_all hok hdrdec o (take k (enc_payload roots bs))
          = Ok (roots, mkscan (firstn j bs) e)).
  Proof.
    intros Hg Hmax H63 Hne Hok Hh Hk Hnb. unfold enc_payload in *.
    remember (enc_header (Some roots) 1) as hb eqn:Ehb.
    destruct (N.ltb_spec k (blen (ld hb))) as [Hlt|Hge].
    - left. split; [exact Hlt|]. rewrite take_app_le by lia.
      destruct (read_header_trunc hok hdrdec (o_maxh o) hb k) as (e & He);
        try assumption; try (subst hb; apply enc_header_nonempty).
      exists e. unfold carv1_read_all. rewrite He. reflexivity.
    - right. split; [exact Hge|]. rewrite take_app_ge by lia.
      unfold carv1_read_all. subst hb.
      rewrite (read_header_payload hdrdec (o_maxh o) roots _ Hg Hmax H63). cbn [N.eqb Pos.eqb negb].
      destruct roots as [|r0 rs]; [congruence|].
      fold (c02_untrusted o). unfold scan_all.
      remember (ld (enc_header (Some (r0 :: rs)) 1)) as hdr.
      destruct (scan_blocks_trunc hok hdrdec (c02_untrusted o) bs Hok (fun _ => Hh) (k - blen hdr)
                  (S (length (take (k - blen hdr) (enc_sections bs)))) []) as (j & e & Hj & Hne' & Hs).
      + rewrite blen_app in Hk. lia.
      + pose proof (blen_take (k - blen hdr) (enc_sections bs)) as Hbt. unfold blen in Hbt at 1.
        rewrite blen_app in Hk. lia.
      + intros (j & Hj & Hmj). apply Hnb. exists j. split; [exact Hj|]. lia.
      + exists j, e. split; [exact Hj|]. split; [exact Hne'|].
        cbn [rev app] in Hs. rewrite Hs. reflexivity.
  Qed.

  Theorem carv1_read_all_corrupt_v1 o roots pre c d rest :
    hdr_good hdrdec roots -> blen (enc_header (Some roots) 1) <= o_maxh o ->
    blen (enc_header (Some roots) 1) < two63 -> roots <> [] ->
    Forall (block_ok (o_maxs o)) pre -> Forall (hash_good hok) pre ->
    block_ok (o_maxs o) (c, d) -> hash_bad hok (c, d) ->
    carv1_read_all hok hdrdec o
      (ld (enc_header (Some roots) 1) ++ enc_sections pre ++ enc_section c d ++ rest)
    = Ok (roots, mkscan pre EOther).
  Proof.
    intros Hg Hmax H63 Hne Hok Hh Hb Hbad. unfold carv1_read_all.
    rewrite (read_header_payload hdrdec (o_maxh o) roots _ Hg Hmax H63). cbn [N.eqb Pos.eqb negb].
    destruct roots as [|r0 rs]; [congruence|].
    fold (c02_untrusted o).
    rewrite (scan_all_corrupt hok hdrdec (c02_untrusted o)) by (try assumption; reflexivity).
    reflexivity.
  Qed.
End Carv1.

(* ---- root module: a truncated encoding/binary varint ------------------------------------------------ *)
Lemma read_std_put_trunc : forall fuel rf n i x j,
  (S fuel <= rf)%nat -> n < 128 ^ N.of_nat (S fuel) -> N.of_nat (S fuel) + i <= 9 ->
  j < uv_size_f (S fuel) n -> (0 < i \/ 0 < j) ->
  read_uv_std_f rf i x (take j (put_uv_f (S fuel) n)) = VUnexpectedEof.
Proof.
  induction fuel as [|f IH]; intros rf n i x j Hrf Hn Hi Hj Hpos;
    (destruct rf as [|rf']; [lia|]); rewrite (uv_size_f_S _ n) in Hj; cbn [put_uv_f];
    destruct (n <? 128) eqn:E.
  - assert (j = 0) by lia. subst j. rewrite take_0. cbn [read_uv_std_f].
    replace (i =? 0) with false by lia. reflexivity.
  - change (128 ^ N.of_nat 1) with 128 in Hn. lia.
  - assert (j = 0) by lia. subst j. rewrite take_0. cbn [read_uv_std_f].
    replace (i =? 0) with false by lia. reflexivity.
  - destruct (N.eq_dec j 0) as [->|Hj0].
    + rewrite take_0. cbn [read_uv_std_f]. replace (i =? 0) with false by lia. reflexivity.
    + rewrite take_cons_pos by lia. cbn [read_uv_std_f].
      assert (Hm : n mod 128 < 128) by (apply N.mod_lt; lia).
      rewrite b2n_n2b by lia.
      replace (128 + n mod 128 <? 128) with false by lia.
      replace (i =? 9) with false by lia.
      apply IH; try lia.
      rewrite pow128_succ in Hn. apply N.div_lt_upper_bound; lia.
Qed.

(* a proper non-empty prefix of a varint is io.ErrUnexpectedEOF for binary.ReadUvarint *)
Lemma read_uv_std_put_uv_trunc n j : n < two63 -> 0 < j -> j < uv_size n ->
  read_uv_std (take j (put_uv n)) = VUnexpectedEof.
Proof.
  intros Hn Hj0 Hj. unfold read_uv_std, put_uv, uv_size in *.
  assert (H9 : n < 128 ^ N.of_nat 9) by (unfold two63 in Hn; change (128 ^ N.of_nat 9) with 9223372036854775808; lia).
  rewrite (put_uv_f_fuel 8 10 n) by (try lia; exact H9).
  rewrite (uv_size_f_fuel 8 10 n) in Hj by (try lia; exact H9).
  apply (read_std_put_trunc 8 11 n 0 0 j); try lia; exact H9.
Qed.

Lemma take_nonempty m (s : bytes) : 0 < m -> s <> [] -> exists b t, take m s = b :: t.
Proof.
  intros Hm Hs. destruct s as [|b t]; [congruence|]. exists b, (take (N.pred m) t).
  apply take_cons_pos. exact Hm.
Qed.

(* a truncated frame is an error, never a clean EOF, for the root module's LdRead *)
Lemma ld_read_root_trunc payload m :
  blen payload <= root_max_section -> 0 < m -> m < blen (ld payload) -> blen payload <> 0 ->
  exists e, e <> EEof /\ ld_read_root (take m (ld payload)) = Err e.
Proof.
  intros Hmax Hm0 Hm Hne.
  assert (H63 : blen payload < two63) by (unfold root_max_section, two63 in *; lia).
  rewrite blen_ld in Hm. unfold ld_size in Hm.
  assert (Hnil : ld payload <> []).
  { unfold ld. pose proof (put_uv_nonempty (blen payload)) as Hp.
    destruct (put_uv (blen payload)); [congruence|discriminate]. }
  destruct (take_nonempty m (ld payload) Hm0 Hnil) as (b0 & t0 & Ecut).
  unfold ld_read_root. rewrite Ecut. rewrite <- Ecut. clear Ecut b0 t0.
  unfold ld. destruct (N.ltb_spec m (uv_size (blen payload))) as [Hlt|Hge].
  - rewrite take_app_le by (rewrite blen_put_uv; lia).
    rewrite read_uv_std_put_uv_trunc by assumption.
    exists EUnexpectedEof. split; [discriminate|reflexivity].
  - rewrite take_app_ge by (rewrite blen_put_uv; lia). rewrite blen_put_uv.
    rewrite read_uv_std_put_uv by exact H63.
    unfold wrap64. rewrite N.mod_small by (unfold two63, two64 in *; lia).
    replace (root_max_section <? blen payload) with false by lia.
    replace (blen (take (m - uv_size (blen payload)) payload) <? blen payload) with true
      by (rewrite blen_take; lia).
    exists EUnexpectedEof. split; [discriminate|reflexivity].
Qed.

Lemma root_block_ok_len c d : root_block_ok (c, d) -> 2 <= blen c + blen d <= root_max_section.
Proof.
  intros (p & Hp & Hc & _ & Hmax). cbn [fst snd] in *. split; [|exact Hmax].
  rewrite Hc. pose proof (cid_enc_nonempty p Hp). lia.
Qed.

Section Root.
  Variable hok : bytes -> bytes -> option bool.
  Variable hdrdec : bytes -> option (list bytes * N).

  Lemma next_block_root_trunc c d m :
    root_block_ok (c, d) -> 0 < m -> m < blen (enc_section c d) ->
    exists e, e <> EEof /\ next_block_root hok (take m (enc_section c d)) = Err e.
  Proof.
    intros Hb Hm0 Hm. destruct (root_block_ok_len _ _ Hb) as [H2 Hmax].
    rewrite enc_section_ld in *.
    destruct (ld_read_root_trunc (c ++ d) m) as (e & Hne & He);
      try assumption; try (rewrite blen_app; lia).
    exists e. split; [exact Hne|]. unfold next_block_root, read_node_root. rewrite He. reflexivity.
  Qed.

  Lemma scan_blocks_root_trunc : forall bs,
    Forall root_block_ok bs -> Forall (hash_good hok) bs ->
    forall m fuel acc, m < blen (enc_sections bs) -> (N.to_nat m < fuel)%nat -> ~ boundary bs m ->
    exists j e, (j < length bs)%nat /\ e <> EEof /\
      scan_blocks_root hok fuel (take m (enc_sections bs)) acc = mkscan (rev acc ++ firstn j bs) e.
  Proof.
    induction bs as [|[c d] bs IH]; intros Hok Hh m fuel acc Hm Hf Hnb.
    - cbn in Hm. lia.
    - inversion Hok as [|? ? Hb Hok']; subst. inversion Hh as [|? ? Hhb Hh']; subst.
      rewrite enc_sections_cons in *. cbn [fst snd] in *.
      destruct fuel as [|fuel]; [lia|]. cbn [scan_blocks_root].
      destruct (N.ltb_spec m (blen (enc_section c d))) as [Hlt|Hge].
      + assert (0 < m).
        { destruct (N.eq_dec m 0) as [->|]; [|lia]. exfalso. apply Hnb. exists 0%nat. split; [cbn; lia|reflexivity]. }
        rewrite take_app_le by lia.
        destruct (next_block_root_trunc c d m Hb) as (e & Hne & He); try assumption.
        rewrite He. exists 0%nat, e. split; [cbn; lia|]. split; [exact Hne|].
        cbn [firstn]. rewrite app_nil_r. reflexivity.
      + rewrite take_app_ge by lia.
        rewrite (next_block_root_section hok c d _ Hb Hhb).
        pose proof (enc_section_pos hok hdrdec c d) as Hpos.
        destruct (IH Hok' Hh' (m - blen (enc_section c d)) fuel ((c, d) :: acc)) as (j & e & Hj & Hne & Hs).
        * rewrite blen_app in Hm. lia.
        * lia.
        * intros (j & Hj & Hmj). apply Hnb. exists (S j). split; [cbn; lia|].
          cbn [firstn]. rewrite enc_sections_cons. cbn [fst snd]. rewrite blen_app. lia.
        * exists (S j), e. split; [cbn; lia|]. split; [exact Hne|].
          cbn beta iota. etransitivity; [exact Hs|]. cbn [rev firstn]. rewrite <- app_assoc. reflexivity.
  Qed.

  Lemma scan_blocks_root_prefix : forall pre,
    Forall root_block_ok pre -> Forall (hash_good hok) pre ->
    forall fuel tail acc,
    scan_blocks_root hok (length pre + fuel) (enc_sections pre ++ tail) acc
    = scan_blocks_root hok fuel tail (rev pre ++ acc).
  Proof.
    induction pre as [|[c d] pre IH]; intros Hok Hh fuel tail acc; [reflexivity|].
    inversion Hok as [|? ? Hb Hok']; subst. inversion Hh as [|? ? Hhb Hh']; subst.
    rewrite enc_sections_cons. cbn [fst snd length Nat.add scan_blocks_root]. rewrite <- app_assoc.
    rewrite (next_block_root_section hok c d _ Hb Hhb).
    rewrite IH by assumption.
    cbn [rev]. rewrite <- app_assoc. reflexivity.
  Qed.

  Theorem scan_all_root_corrupt pre c d rest :
    Forall root_block_ok pre -> Forall (hash_good hok) pre ->
    root_block_ok (c, d) -> hash_bad hok (c, d) ->
    scan_all_root hok (enc_sections pre ++ enc_section c d ++ rest) = mkscan pre EOther.
  Proof.
    intros Hok Hh Hb Hbad. unfold scan_all_root.
    pose proof (enc_sections_length hok hdrdec pre) as Hl. pose proof (enc_section_pos hok hdrdec c d) as Hp.
    assert (Hlen : (length pre + 1 <= length (enc_sections pre ++ enc_section c d ++ rest))%nat).
    { rewrite !app_length. unfold blen in Hp. lia. }
    remember (length (enc_sections pre ++ enc_section c d ++ rest)) as L.
    replace (S L) with (length pre + S (L - length pre))%nat by lia.
    rewrite scan_blocks_root_prefix by assumption.
    cbn [scan_blocks_root].
    destruct (read_node_root_section c d rest Hb) as (p & Hp' & Hr).
    unfold next_block_root. rewrite Hr. unfold verify.
    pose proof (Hbad p Hp') as X. cbn [fst snd] in X. rewrite X.
    rewrite app_nil_r, rev_involutive. reflexivity.
  Qed.

  Lemma read_header_root_trunc hb m :
    blen hb <= root_max_section -> blen hb <> 0 -> m < blen (ld hb) ->
    exists e, read_header_root hdrdec (take m (ld hb)) = Err e.
  Proof.
    intros Hmax Hne Hm. destruct (N.eq_dec m 0) as [->|Hm0].
    - rewrite take_0. exists EEof. reflexivity.
    - destruct (ld_read_root_trunc hb m) as (e & _ & He); try assumption; try lia.
      unfold read_header_root. rewrite He. exists e. reflexivity.
  Qed.

  (* (b) root-module reader on a constructed CARv1 *)
  Theorem root_read_all_trunc_v1 roots bs k :
    hdr_good hdrdec roots -> blen (enc_header (Some roots) 1) <= root_max_section -> roots <> [] ->
    Forall root_block_ok bs -> Forall (hash_good hok) bs ->
    k < blen (enc_payload roots bs) ->
    ~ (exists j, (j <= length bs)%nat /\
                 k = blen (ld (enc_header (Some roots) 1)) + blen (enc_sections (firstn j bs))) ->
    (k < blen (ld (enc_header (Some roots) 1)) /\
       exists e, root_read_all hok hdrdec (take k (enc_payload roots bs)) = Err e)
    \/ (blen (ld (enc_header (Some roots) 1)) <= k /\ exists j e, (j < length bs)%nat /\ e <> EEof /\
          root_read_all hok hdrdec (take k (enc_payload roots bs))
          = Ok (roots, mkscan (firstn j bs) e)).
  Proof.
    intros Hg Hmax Hne Hok Hh Hk Hnb. unfold enc_payload in *.
    remember (enc_header (Some roots) 1) as hb eqn:Ehb.
    destruct (N.ltb_spec k (blen (ld hb))) as [Hlt|Hge].
    - left. split; [exact Hlt|]. rewrite take_app_le by lia.
      destruct (read_header_root_trunc hb k) as (e & He);
        try assumption; try (subst hb; apply enc_header_nonempty).
      exists e. unfold root_read_all. rewrite He. reflexivity.
    - right. split; [exact Hge|]. rewrite take_app_ge by lia.
      unfold root_read_all, read_header_root. rewrite ld_read_root_ld by exact Hmax.
      subst hb. rewrite Hg. cbn [N.eqb Pos.eqb negb].
      destruct roots as [|r0 rs]; [congruence|].
      unfold scan_all_root.
      remember (ld (enc_header (Some (r0 :: rs)) 1)) as hdr.
      destruct (scan_blocks_root_trunc bs Hok Hh (k - blen hdr)
                  (S (length (take (k - blen hdr) (enc_sections bs)))) []) as (j & e & Hj & Hne' & Hs).
      + rewrite blen_app in Hk. lia.
      + pose proof (blen_take (k - blen hdr) (enc_sections bs)) as Hbt. unfold blen in Hbt at 1.
        rewrite blen_app in Hk. lia.
      + intros (j & Hj & Hmj). apply Hnb. exists j. split; [exact Hj|]. lia.
      + exists j, e. split; [exact Hj|]. split; [exact Hne'|].
        cbn [rev app] in Hs. rewrite Hs. reflexivity.
  Qed.

  (* (c) root-module reader *)
  Theorem root_read_all_corrupt_v1 roots pre c d rest :
    hdr_good hdrdec roots -> blen (enc_header (Some roots) 1) <= root_max_section -> roots <> [] ->
    Forall root_block_ok pre -> Forall (hash_good hok) pre ->
    root_block_ok (c, d) -> hash_bad hok (c, d) ->
    root_read_all hok hdrdec
      (ld (enc_header (Some roots) 1) ++ enc_sections pre ++ enc_section c d ++ rest)
    = Ok (roots, mkscan pre EOther).
  Proof.
    intros Hg Hmax Hne Hok Hh Hb Hbad. unfold root_read_all, read_header_root.
    rewrite ld_read_root_ld by exact Hmax. rewrite Hg. cbn [N.eqb Pos.eqb negb].
    destruct roots as [|r0 rs]; [congruence|].
    rewrite scan_all_root_corrupt by assumption. reflexivity.
  Qed.
End Root.

(* ---- non-vacuity: the example archive of ScanTrunc (identity CIDs, no oracle needed) ---------------- *)
Example ex_root_blocks_ok : Forall root_block_ok ex_blocks.
Proof.
  repeat constructor.
  - exists (mkcid 1 85 0 [x61; x62]). split; [right; vm_compute; repeat split; try reflexivity; discriminate|].
    split; [reflexivity|]. split; vm_compute; discriminate.
  - exists (mkcid 1 113 0 [x63]). split; [right; vm_compute; repeat split; try reflexivity; discriminate|].
    split; [reflexivity|]. split; vm_compute; discriminate.
Qed.

Example ex_hash_good : Forall (hash_good ex_hok) ex_blocks.
Proof. pose proof ex_archive_ok as (_ & _ & _ & _ & H). apply H. reflexivity. Qed.

Example ex_trunc_runs_carv1 :
  carv1_read_all ex_hok dec_header_canon default_ropts
    (take (blen (enc_payload [ex_cid1] ex_blocks) - 1) (enc_payload [ex_cid1] ex_blocks))
  = Ok ([ex_cid1], mkscan [(ex_cid1, [x61; x62])] EUnexpectedEof).
Proof. vm_compute. reflexivity. Qed.

Example ex_trunc_runs_root :
  root_read_all ex_hok dec_header_canon
    (take (blen (enc_payload [ex_cid1] ex_blocks) - 1) (enc_payload [ex_cid1] ex_blocks))
  = Ok ([ex_cid1], mkscan [(ex_cid1, [x61; x62])] EUnexpectedEof).
Proof. vm_compute. reflexivity. Qed.

(* a corrupted identity section: digest "c", data "d" *)
Example ex_hash_bad : hash_bad ex_hok (ex_cid2, [x64]).
Proof. intros p Hp. vm_compute in Hp. inversion Hp; subst. vm_compute. reflexivity. Qed.

Example ex_corrupt_runs_root :
  root_read_all ex_hok dec_header_canon
    (ld (enc_header (Some [ex_cid1]) 1) ++ enc_sections [(ex_cid1, [x61; x62])] ++ enc_section ex_cid2 [x64] ++ [])
  = Ok ([ex_cid1], mkscan [(ex_cid1, [x61; x62])] EOther).
Proof. vm_compute. reflexivity. Qed.

Example ex_corrupt_runs_carv1 :
  carv1_read_all ex_hok dec_header_canon default_ropts
    (ld (enc_header (Some [ex_cid1]) 1) ++ enc_sections [(ex_cid1, [x61; x62])] ++ enc_section ex_cid2 [x64] ++ [])
  = Ok ([ex_cid1], mkscan [(ex_cid1, [x61; x62])] EOther).
Proof. vm_compute. reflexivity. Qed.
