(* Concrete instances: the hypotheses of the C17 theorems are satisfiable on a non-trivial
   extraction, and the code before the fix violates containment. *)
From GoCar Require Import Bytes ExtractFs.
From GoCarProofs Require Import BytesFacts ExtractFsFacts ExtractFsEval ExtractFsOps ExtractFsSafe ExtractFsCmd.

Local Open Scope nat_scope.

(* /o is the output directory, /t a file next to it *)
Definition ex_o : name := [x6f].
Definition ex_t : name := [x74].
Definition ex_x : name := [x78].
Definition ex_a : name := [x61].
Definition ex_d : name := [x64].
Definition ex_b : name := [x62].
Definition ex_fs : fsmap := [([ex_o], NDir); ([ex_t], NFile [x53])].
Definition ex_outdir : bytes := [x2f; x6f].                 (* "/o" *)
Definition ex_target : bytes := [x2f; x74].                 (* "/t" *)

(* the hostile archive: a symlink entry x -> /t followed by a file entry x *)
Definition ex_hostile : list uroot :=
  [RNode (UDir [(ex_x, ULink ex_target); (ex_x, UFile [x50])])].

(* a benign archive: a, d/b -> ../a *)
Definition ex_benign : list uroot :=
  [RNode (UDir [(ex_a, UFile [x50]); (ex_d, UDir [(ex_b, ULink [x2e; x2e; x2f; x61])])])].


Lemma iter_removelast_nil k : Nat.iter k (@removelast name) [] = [].
Proof. induction k as [|k IH]; [reflexivity|]. unfold Nat.iter in *. cbn [nat_rect]. rewrite IH. reflexivity. Qed.

Lemma cwd_ok_root fs : cwd_ok fs [].
Proof. intro k. rewrite iter_removelast_nil. reflexivity. Qed.

Example ex_outdir_resolves :
  eval_symlinks_str ex_fs [] ex_outdir = Some (mknp true 0 [ex_o]).
Proof. vm_compute. reflexivity. Qed.

Example ex_not_under : ~ under (phys_of [] (mknp true 0 [ex_o])) [ex_t].
Proof. intros [s E]. discriminate E. Qed.

(* before the fix: /t is overwritten *)
Example ex_unfixed_overwrites_outside :
  look (fst (extract_cmd false ex_fs [] ex_outdir [] ex_hostile)) [ex_t] = Some (NFile [x50]).
Proof. vm_compute. reflexivity. Qed.

(* with the fix the same archive is refused and /t keeps its contents *)
Example ex_fixed_refuses :
  snd (extract_cmd true ex_fs [] ex_outdir [] ex_hostile) = XErr /\
  look (fst (extract_cmd true ex_fs [] ex_outdir [] ex_hostile)) [ex_t] = Some (NFile [x53]).
Proof. vm_compute. split; reflexivity. Qed.

(* non-vacuity of the containment theorem: a run that does write, inside *)
Example ex_benign_extracts :
  snd (extract_cmd true ex_fs [] ex_outdir [] ex_benign) = XOk 2 /\
  look (fst (extract_cmd true ex_fs [] ex_outdir [] ex_benign)) [ex_o; ex_a] = Some (NFile [x50]) /\
  look (fst (extract_cmd true ex_fs [] ex_outdir [] ex_benign)) [ex_o; ex_d; ex_b]
    = Some (NLink [x2e; x2e; x2f; x61]) /\
  look (fst (extract_cmd true ex_fs [] ex_outdir [] ex_benign)) [ex_t] = Some (NFile [x53]).
Proof. vm_compute. repeat split; reflexivity. Qed.

Lemma unfixed_refuted :
  exists fs cwd outdir pathflag roots root p,
    (forall k, look fs (Nat.iter k (@removelast name) cwd) = Some NDir) /\
    eval_symlinks_str fs cwd outdir = Some root /\
    ~ under (phys_of cwd root) p /\
    look (fst (extract_cmd false fs cwd outdir pathflag roots)) p <> look fs p.
Proof.
  exists ex_fs, [], ex_outdir, [], ex_hostile, (mknp true 0 [ex_o]), [ex_t].
  split; [apply cwd_ok_root|]. split; [exact ex_outdir_resolves|]. split; [exact ex_not_under|].
  rewrite ex_unfixed_overwrites_outside. vm_compute. discriminate.
Qed.

(* the same-kind relation spelled out *)
Lemma same_kind_cases n n' :
  same_kind n n' ->
  match n with
  | NDir => n' = NDir
  | NLink t => n' = NLink t
  | NFile _ => exists d, n' = NFile d
  end.
Proof. destruct n, n'; cbn; intro H; try contradiction; try reflexivity; [eexists; reflexivity|congruence]. Qed.

Theorem extract_cmd_preserves_spelled fs cwd outdir pathflag roots root fs' res :
  (forall k, look fs (Nat.iter k (@removelast name) cwd) = Some NDir) ->
  eval_symlinks_str fs cwd outdir = Some root ->
  extract_cmd true fs cwd outdir pathflag roots = (fs', res) ->
  forall p n, look fs p = Some n ->
    match n with
    | NDir => look fs' p = Some NDir
    | NLink t => look fs' p = Some (NLink t)
    | NFile _ => exists d, look fs' p = Some (NFile d)
    end.
Proof.
  intros Hc He H p n Hl.
  destruct (extract_cmd_preserves _ _ _ _ _ _ _ _ Hc He H p n Hl) as [n' [Hl' K]].
  apply same_kind_cases in K. destruct n; [subst; exact Hl'| |subst; exact Hl'].
  destruct K as [d K]. subst. exists d. exact Hl'.
Qed.

Lemma dirchain_firstn fs base names :
  dirchain fs base names ->
  forall k, 0 < k <= length names -> look fs (base ++ firstn k names) = Some NDir.
Proof.
  intro H; induction H as [cur|cur c rest Hok Hl Hd IH]; intros k Hk; cbn [length] in Hk; [lia|].
  destruct k as [|k]; [lia|]. cbn [firstn]. destruct k as [|k].
  - cbn [firstn]. exact Hl.
  - replace (cur ++ c :: firstn (S k) rest) with ((cur ++ [c]) ++ firstn (S k) rest)
      by (rewrite <- app_assoc; reflexivity).
    apply IH. lia.
Qed.

(* what EvalSymlinks' success says, spelled out: the resolved output directory exists, is not a
   symbolic link, and every proper ancestor of it (below the directory the relative path starts
   from) is a real directory *)
Theorem outdir_is_real fs cwd outdir root :
  eval_symlinks_str fs cwd outdir = Some root ->
  n_names root = [] \/
  ((exists n, look fs (phys_of cwd root) = Some n /\ (forall t, n <> NLink t)) /\
   (forall k, 0 < k < length (n_names root) ->
      look fs ((if n_abs root then [] else Nat.iter (n_ups root) (@removelast name) cwd)
               ++ firstn k (n_names root)) = Some NDir)).
Proof.
  intro H. apply eval_symlinks_good in H. destruct H as [E|[init [last [n [E [Hd [Hok [Hl Hn]]]]]]]].
  - left; exact E.
  - right. split.
    + exists n. split; [exact Hl|]. intros t ->. exact Hn.
    + intros k Hk. rewrite E in *. rewrite app_length in Hk. cbn [length] in Hk.
      rewrite firstn_app. replace (k - length init) with 0 by lia. cbn [firstn]. rewrite app_nil_r.
      apply (dirchain_firstn _ _ _ Hd). lia.
Qed.

(* an output directory named through a symbolic link: /l -> o *)
Definition ex_l : name := [x6c].
Definition ex_fs2 : fsmap := ([ex_l], NLink ex_o) :: ex_fs.
Example ex_outdir_through_link :
  eval_symlinks_str ex_fs2 [] [x2f; x6c] = Some (mknp true 0 [ex_o]) /\
  kwalk max_symlinks ex_fs2 true [] (split_slash [x2f; x6c]) = KOk [ex_o] (Some NDir) /\
  look (fst (extract_cmd true ex_fs2 [] [x2f; x6c] [] ex_benign)) [ex_o; ex_a] = Some (NFile [x50]).
Proof. vm_compute. repeat split; reflexivity. Qed.

(* ---- permission bits ---- *)
Lemma same_kind_default_mode n n' : same_kind n n' -> default_mode n = default_mode n'.
Proof. destruct n, n'; cbn; intro H; try contradiction; reflexivity. Qed.

Theorem modes_outside_unchanged fs cwd outdir pathflag roots root fs' res :
  (forall k, look fs (Nat.iter k (@removelast name) cwd) = Some NDir) ->
  eval_symlinks_str fs cwd outdir = Some root ->
  extract_cmd true fs cwd outdir pathflag roots = (fs', res) ->
  forall (m : modes) p, ~ under (phys_of cwd root) p -> mode_of m fs' p = mode_of m fs p.
Proof.
  intros Hc He H m p Hp. unfold mode_of.
  rewrite (extract_cmd_contained _ _ _ _ _ _ _ _ Hc He H p Hp). reflexivity.
Qed.

Theorem modes_of_existing_objects_unchanged fs cwd outdir pathflag roots root fs' res :
  (forall k, look fs (Nat.iter k (@removelast name) cwd) = Some NDir) ->
  eval_symlinks_str fs cwd outdir = Some root ->
  extract_cmd true fs cwd outdir pathflag roots = (fs', res) ->
  forall (m : modes) p, look fs p <> None -> mode_of m fs' p = mode_of m fs p.
Proof.
  intros Hc He H m p Hp. unfold mode_of. destruct (look fs p) as [n|] eqn:L; [|contradiction].
  destruct (extract_cmd_preserves _ _ _ _ _ _ _ _ Hc He H p n L) as [n' [L' K]].
  rewrite L'. rewrite (same_kind_default_mode _ _ K). reflexivity.
Qed.

Example ex_modes :
  mode_of [([ex_t], 384%N)] (fst (extract_cmd true ex_fs [] ex_outdir [] ex_benign)) [ex_t] = Some 384%N /\
  mode_of [([ex_t], 384%N)] (fst (extract_cmd true ex_fs [] ex_outdir [] ex_benign)) [ex_o; ex_a] = Some 420%N.
Proof. vm_compute. split; reflexivity. Qed.

(* ---- the command with any output argument, standard output included ---- *)
Theorem extract_main_contained fs cwd outdir pathflag roots fs' out res :
  (forall k, look fs (Nat.iter k (@removelast name) cwd) = Some NDir) ->
  extract_main true fs cwd outdir pathflag roots = (fs', out, res) ->
  (outdir = s_dash -> fs' = fs) /\
  (outdir <> s_dash ->
   out = [] /\
   forall root, eval_symlinks_str fs cwd outdir = Some root ->
     forall p, ~ under (phys_of cwd root) p -> look fs' p = look fs p).
Proof.
  intros Hc H. unfold extract_main in H. split.
  - intros ->. rewrite bytes_eqb_refl in H. destruct (path_segments pathflag).
    + destruct (stdout_roots [] l roots 0). inversion H; reflexivity.
    + inversion H; reflexivity.
  - intro Hne. destruct (bytes_eqb outdir s_dash) eqn:E.
    { apply bytes_eqb_eq in E. contradiction. }
    destruct (extract_cmd true fs cwd outdir pathflag roots) as [f r] eqn:X. inversion H; subst.
    split; [reflexivity|]. intros root He. eapply extract_cmd_contained; eassumption.
Qed.

Example ex_stdout :
  extract_main true ex_fs [] s_dash [] ex_benign = (ex_fs, [x50], XErr) /\
  extract_main true ex_fs [] s_dash ex_a ex_benign = (ex_fs, [x50], XOk 1).
Proof. vm_compute. split; reflexivity. Qed.
