(* C19: car concat.  With any --version other than 2 the output is the CARv1 made of the first
   input's header and every input's sections in order.  With --version 2 the output starts with a
   bare 40-byte header (no pragma) and no reader of the tool accepts it: refuted by a witness. *)
From GoCar Require Import Bytes Varint Cid Header Frame V2Header Scan Index Store CliCmds.
From GoCarProofs Require Import BytesFacts VarintFacts CidFacts HeaderFacts ScanFacts ScanTrunc ScanTruncV2 StoreInv CliBase CliWalk CliProducers.

(* one input of car concat: (file, roots, blocks) *)
Definition cin := (bytes * list bytes * list block)%type.
Definition cin_file (x : cin) : bytes := fst (fst x).
Definition cin_roots (x : cin) : list bytes := snd (fst x).
Definition cin_blocks (x : cin) : list block := snd x.
Definition cin_hb (x : cin) : bytes := enc_header (Some (cin_roots x)) 1.
Definition all_blocks (xs : list cin) : list block := concat (map cin_blocks xs).

Set Default Proof Using "All".
Section Concat.
  Variable hok : bytes -> bytes -> option bool.
  Variable hdrdec : bytes -> option (list bytes * N).
  Hypothesis pragma_ok : hdrdec pragma_body = Some ([], 2).

  (* an input car concat accepts: at least one root (carv1.NewCarReader's legacy rule), a canonical
     header, any valid container *)
  Definition cin_ok (x : cin) : Prop :=
    cin_roots x <> [] /\ hdr_ok hdrdec (cin_hb x) (cin_roots x) /\
    valid_input (cin_hb x) (cin_blocks x) (cin_file x).

  Lemma concat_input_valid x : cin_ok x ->
    exists h2, concat_input hdrdec (cin_file x) = Ok (ld (cin_hb x), h2, enc_sections (cin_blocks x)).
  Proof.
    intros (Hne & Hh & Hv).
    destruct (valid_reader hok hdrdec pragma_ok _ _ _ _ Hh Hv) as (r & Hnew & Hdv & _).
    exists (cr_hdr r). unfold concat_input. rewrite Hnew, Hdv. unfold payload_hb.
    rewrite (root_read_header_hb hok hdrdec pragma_ok _ _ _ Hh). cbn [N.eqb Pos.eqb negb].
    destruct (cin_roots x) as [|r0 rs] eqn:Er; [congruence|].
    unfold cin_hb. rewrite Er. rewrite <- blen_ld, drop_app. reflexivity.
  Qed.

  (* an input without roots stops the command (what was written so far stays) *)
  Lemma concat_input_rootless hb bs file : hdr_ok hdrdec hb [] -> valid_input hb bs file ->
    concat_input hdrdec file = Err EOther.
  Proof.
    intros Hh Hv.
    destruct (valid_reader hok hdrdec pragma_ok _ _ _ _ Hh Hv) as (r & Hnew & Hdv & _).
    unfold concat_input. rewrite Hnew, Hdv. unfold payload_hb.
    rewrite (root_read_header_hb hok hdrdec pragma_ok _ _ _ Hh). reflexivity.
  Qed.

  Lemma concat_loop_v1 ver : ver <> 2 -> forall xs first out, Forall cin_ok xs ->
    concat_loop hdrdec ver first (map cin_file xs) out
    = (true, out ++ (if first then match xs with x :: _ => ld (cin_hb x) | [] => [] end else [])
                 ++ enc_sections (all_blocks xs)).
  Proof.
    intros Hver. induction xs as [|x t IH]; intros first out Hok.
    - cbn [map concat_loop all_blocks concat enc_sections]. destruct first; rewrite !app_nil_r; reflexivity.
    - inversion Hok as [|? ? Hx Hok']; subst. cbn [map concat_loop].
      destruct (concat_input_valid x Hx) as (h2 & Hci). rewrite Hci.
      replace (ver =? 2) with false by lia.
      rewrite IH by exact Hok'. unfold all_blocks. cbn [map concat]. rewrite enc_sections_app.
      destruct first; cbn [app]; rewrite <- !app_assoc; reflexivity.
  Qed.

  (* car concat [--version v] in1 in2 ... (v <> 2): the first input's header, then all sections *)
  Theorem concat_car_v1 ver x xs : ver <> 2 -> Forall cin_ok (x :: xs) ->
    concat_car hdrdec ver (map cin_file (x :: xs))
    = (true, Some (payload_hb (cin_hb x) (all_blocks (x :: xs)))).
  Proof.
    intros Hver Hok. unfold concat_car. cbn [map].
    change (cin_file x :: map cin_file xs) with (map cin_file (x :: xs)).
    rewrite (concat_loop_v1 ver Hver (x :: xs) true [] Hok). reflexivity.
  Qed.
End Concat.
