(* C15 for the root module: SelectiveCar Write / Prepare / Dump with the OnNewCarBlock
   callbacks, and WriteCar -- for every sequence of store.Get calls / visited CIDs. *)
From GoCar Require Import Bytes Varint Cid Header Frame V2Header Scan Traversal.
From GoCarProofs Require Import BytesFacts VarintFacts ScanFacts TraversalSpec.

Definition cb_of_place (e : block * N * N) : cb :=
  mkcb (fst (fst (fst e))) (snd (fst (fst e))) (snd (fst e)) (snd e).

Lemma sc_loader_spec : forall ls set off,
  let fo := first_occ_from set ls in
  sc_loader set off ls = (map cb_of_place (place off fo), off + sections_len fo).
Proof.
  induction ls as [|b t IH]; intros set off; cbn [sc_loader first_occ_from].
  - cbn [place map]. unfold sections_len. cbn [enc_sections map concat]. rewrite blen_nil, N.add_0_r. reflexivity.
  - destruct (mem (fst b) set); [apply IH|].
    rewrite IH. cbn [fst snd place map]. rewrite sections_len_cons.
    unfold cb_of_place at 2. cbn [fst snd]. unfold section_size. f_equal. lia.
Qed.

Lemma cb_sections_place off bs :
  concat (map cb_section (map cb_of_place (place off bs))) = enc_sections bs.
Proof.
  revert off. induction bs as [|b t IH]; intros off; cbn [place map concat]; [reflexivity|].
  rewrite IH. reflexivity.
Qed.

Lemma cb_cids_place off bs : map cb_cid (map cb_of_place (place off bs)) = map fst bs.
Proof.
  revert off. induction bs as [|b t IH]; intros off; cbn [place map]; [reflexivity|].
  rewrite IH. reflexivity.
Qed.

Definition sc_cbs (roots : list bytes) (ls : list block) : list cb :=
  map cb_of_place (place (blen (ld (enc_header (Some roots) 1))) (first_occ ls)).

Lemma sc_traverse_spec roots ls :
  sc_traverse roots ls = (sc_cbs roots ls, blen (enc_payload roots (first_occ ls))).
Proof.
  unfold sc_traverse. rewrite sc_loader_spec. unfold sc_cbs. rewrite blen_ld.
  fold (first_occ ls). unfold enc_payload. rewrite blen_app, blen_ld. reflexivity.
Qed.

(* SelectiveCar.Write *)
Theorem sc_write_spec roots ls ok :
  sc_write roots ls ok = (enc_payload roots (first_occ ls), sc_cbs roots ls, ok).
Proof.
  unfold sc_write. rewrite sc_traverse_spec. cbn [fst snd]. unfold sc_cbs.
  rewrite cb_sections_place. reflexivity.
Qed.

(* SelectiveCar.Prepare *)
Theorem sc_prepare_spec roots ls :
  sc_prepare roots ls true
  = Some (blen (enc_payload roots (first_occ ls)), roots, map fst (first_occ ls)).
Proof.
  unfold sc_prepare. rewrite sc_traverse_spec. cbn [fst snd]. unfold sc_cbs.
  rewrite cb_cids_place. reflexivity.
Qed.

(* every callback reports the true position of its section in the bytes written *)
Theorem sc_cbs_locate roots ls c :
  In c (sc_cbs roots ls) ->
  let out := enc_payload roots (first_occ ls) in
  take (cb_size c) (drop (cb_off c) out) = enc_section (cb_cid c) (cb_data c)
  /\ cb_off c + cb_size c <= blen out.
Proof.
  intros Hin out. unfold sc_cbs in Hin. apply in_map_iff in Hin. destruct Hin as ([[b off] sz] & He & Hin).
  subst c. unfold cb_of_place. cbn [cb_cid cb_data cb_off cb_size fst snd].
  destruct (place_locates _ (ld (enc_header (Some roots) 1)) [] b off sz Hin) as (H1 & _ & H3 & _).
  rewrite app_nil_r in H1. split; [exact H1|exact H3].
Qed.

(* the callbacks are the first occurrences, in order *)
Lemma sc_cbs_blocks roots ls : map (fun c => (cb_cid c, cb_data c)) (sc_cbs roots ls) = first_occ ls.
Proof.
  unfold sc_cbs. generalize (blen (ld (enc_header (Some roots) 1))). generalize (first_occ ls).
  induction l as [|b t IH]; intros off; cbn [place map]; [reflexivity|].
  rewrite IH. unfold cb_of_place. cbn [cb_cid cb_data fst snd]. destruct b; reflexivity.
Qed.

(* SelectiveCarPrepared.Dump against a store that still answers as it did during Prepare *)
Definition store_agrees (store : bytes -> option bytes) (bs : list block) : Prop :=
  Forall (fun b => store (fst b) = Some (snd b)) bs.

Lemma sc_dump_blocks_spec store : forall bs off, store_agrees store bs ->
  sc_dump_blocks store off (map fst bs) = (enc_sections bs, map cb_of_place (place off bs), true).
Proof.
  induction bs as [|b t IH]; intros off H; cbn [map sc_dump_blocks place]; [reflexivity|].
  inversion H as [|? ? Hb Ht]; subst. rewrite Hb. rewrite IH by exact Ht.
  rewrite enc_sections_cons. unfold cb_of_place at 2. cbn [fst snd]. reflexivity.
Qed.

Theorem sc_dump_spec store roots ls : store_agrees store (first_occ ls) ->
  sc_dump store roots (map fst (first_occ ls))
  = (enc_payload roots (first_occ ls), sc_cbs roots ls, true).
Proof.
  intros H. unfold sc_dump. rewrite sc_dump_blocks_spec by exact H. unfold sc_cbs. rewrite blen_ld. reflexivity.
Qed.

(* Dump stops at the first cid the store no longer has *)
Lemma sc_dump_missing store roots c t : store c = None -> snd (sc_dump store roots (c :: t)) = false.
Proof. intros H. unfold sc_dump. cbn [sc_dump_blocks]. rewrite H. reflexivity. Qed.

(* ---- WriteCar ------------------------------------------------------------------------------------ *)
Lemma wc_walk_spec : forall vs seen, wc_walk seen vs = enc_sections (first_occ_from seen vs).
Proof.
  induction vs as [|b t IH]; intros seen; cbn [wc_walk first_occ_from]; [reflexivity|].
  destruct (mem (fst b) seen); [apply IH|]. rewrite enc_sections_cons, IH. reflexivity.
Qed.

Theorem write_car_spec roots vs ok :
  write_car roots vs ok = (ld (enc_header roots 1) ++ enc_sections (first_occ vs), ok).
Proof. unfold write_car. rewrite wc_walk_spec. reflexivity. Qed.

(* ---- the statements as the property words them ------------------------------------------------- *)
(* callbacks of Write: the first occurrences in order, each with its true (offset, size) *)
Theorem sc_write_callbacks roots ls ok out cbs ok' :
  sc_write roots ls ok = (out, cbs, ok') ->
  map (fun c => (cb_cid c, cb_data c)) cbs = first_occ ls
  /\ Forall (fun c => take (cb_size c) (drop (cb_off c) out) = enc_section (cb_cid c) (cb_data c)
                      /\ cb_off c + cb_size c <= blen out) cbs.
Proof.
  rewrite sc_write_spec. intros H. inversion H; subst. split; [apply sc_cbs_blocks|].
  apply Forall_forall. intros c Hc. apply sc_cbs_locate. exact Hc.
Qed.

(* Prepare then Dump = Write: same bytes, same callbacks; Size() is the length of both *)
Theorem sc_dump_eq_write store roots ls size hroots cids :
  sc_prepare roots ls true = Some (size, hroots, cids) ->
  Forall (fun b => store (fst b) = Some (snd b)) (first_occ ls) ->
  sc_dump store hroots cids = sc_write roots ls true
  /\ size = blen (fst (fst (sc_write roots ls true))).
Proof.
  rewrite sc_prepare_spec. intros H Hs. inversion H; subst.
  rewrite sc_dump_spec by exact Hs. rewrite sc_write_spec. split; reflexivity.
Qed.

(* a failed walk: Prepare reports the error, Write has sent a prefix *)
Lemma sc_prepare_failed roots ls : sc_prepare roots ls false = None.
Proof. reflexivity. Qed.

Theorem sc_write_exact roots ls ok :
  fst (fst (sc_write roots ls ok)) = enc_payload roots (first_occ ls)
  /\ snd (sc_write roots ls ok) = ok.
Proof. rewrite sc_write_spec. split; reflexivity. Qed.
