(* C15 for the root module: SelectiveCar Write / Prepare / Dump with the OnNewCarBlock
   callbacks, and WriteCar -- for every sequence of store.Get calls / visited CIDs. *)
From GoCar Require Import Bytes Varint Cid Header Frame V2Header Scan Traversal.
From GoCarProofs Require Import BytesFacts VarintFacts ScanFacts TraversalSpec.

Definition cb_of_place (e : block * N * N) : cb :=
  mkcb (fst (fst (fst e))) (snd (fst (fst e))) (snd (fst e)) (snd e).

Lemma sc_loader_spec : forall ls set off,
  let fo := first_occ_from set ls in
  sc_loader set off ls = (map cb_of_place (place off fo), off + sections_len fo).
Proof.
  induction ls as [|b t IH]; intros set off; cbn [sc_loader first_occ_from].
  - cbn [place map]. unfold sections_len. cbn [enc_sections map concat]. rewrite blen_nil, N.add_0_r. reflexivity.
  - destruct (mem (fst b) set); [apply IH|].
    rewrite IH. cbn [fst snd place map]. rewrite sections_len_cons.
    unfold cb_of_place at 2. cbn [fst snd]. unfold section_size. f_equal. lia.
Qed.

Lemma cb_sections_place off bs :
  concat (map cb_section (map cb_of_place (place off bs))) = enc_sections bs.
Proof.
  revert off. induction bs as [|b t IH]; intros off; cbn [place map concat]; [reflexivity|].
  rewrite IH. reflexivity.
Qed.

Lemma cb_cids_place off bs : map cb_cid (map cb_of_place (place off bs)) = map fst bs.
Proof.
  revert off. induction bs as [|b t IH]; intros off; cbn [place map]; [reflexivity|].
  rewrite IH. reflexivity.
Qed.

Definition sc_cbs (roots : list bytes) (ls : list block) : list cb :=
  map cb_of_place (place (blen (ld (enc_header (Some roots) 1))) (first_occ ls)).

Lemma sc_traverse_spec roots ls :
  sc_traverse roots ls = (sc_cbs roots ls, blen (enc_payload roots (first_occ ls))).
Proof.
  unfold sc_traverse. rewrite sc_loader_spec. unfold sc_cbs. rewrite blen_ld.
  fold (first_occ ls). unfold enc_payload. rewrite blen_app, blen_ld. reflexivity.
Qed.

(* ---- the event log of k registered callbacks ----------------------------------------------------- *)
Lemma reports_app i a b : reports i (a ++ b) = reports i a ++ reports i b.
Proof. unfold reports. rewrite filter_app, map_app. reflexivity. Qed.

Lemma reports_fanout_seq i b : forall k s,
  reports i (map (fun j => (j, b)) (seq s k))
  = if (s <=? i)%nat && (i <? s + k)%nat then [b] else [].
Proof.
  induction k as [|k IH]; intros s; cbn [seq map].
  - replace ((s <=? i)%nat && (i <? s + 0)%nat) with false by lia. reflexivity.
  - unfold reports in *. cbn [filter fst]. destruct (Nat.eqb s i) eqn:E.
    + cbn [map snd]. rewrite IH. apply Nat.eqb_eq in E. subst s.
      replace ((S i <=? i)%nat && (i <? S i + k)%nat) with false by lia.
      replace ((i <=? i)%nat && (i <? i + S k)%nat) with true by lia. reflexivity.
    + rewrite IH. apply Nat.eqb_neq in E.
      destruct ((S s <=? i)%nat && (i <? S s + k)%nat) eqn:E2.
      * replace ((s <=? i)%nat && (i <? s + S k)%nat) with true by lia. reflexivity.
      * replace ((s <=? i)%nat && (i <? s + S k)%nat) with false by lia. reflexivity.
Qed.

Lemma reports_fanout i k b : (i < k)%nat -> reports i (fanout k b) = [b].
Proof.
  intros H. unfold fanout. rewrite reports_fanout_seq.
  replace ((0 <=? i)%nat && (i <? 0 + k)%nat) with true by lia. reflexivity.
Qed.

(* each of the k callbacks is told exactly the Blocks, in order *)
Lemma reports_flat_fanout i k cbs : (i < k)%nat -> reports i (flat_map (fanout k) cbs) = cbs.
Proof.
  intros H. induction cbs as [|c t IH]; cbn [flat_map]; [reflexivity|].
  rewrite reports_app, reports_fanout by exact H. rewrite IH. reflexivity.
Qed.

(* and nobody else is told anything *)
Lemma fanout_indices k cbs e : In e (flat_map (fanout k) cbs) -> (fst e < k)%nat.
Proof.
  intros H. apply in_flat_map in H. destruct H as (c & _ & H). unfold fanout in H.
  apply in_map_iff in H. destruct H as (j & <- & Hj). apply in_seq in Hj. cbn [fst]. lia.
Qed.

(* SelectiveCar.Write *)
Theorem sc_write_spec k roots ls ok :
  sc_write k roots ls ok
  = (enc_payload roots (first_occ ls), flat_map (fanout k) (sc_cbs roots ls), ok).
Proof.
  unfold sc_write. rewrite sc_traverse_spec. cbn [fst snd]. unfold sc_cbs.
  rewrite cb_sections_place. reflexivity.
Qed.

(* SelectiveCar.Prepare *)
Theorem sc_prepare_spec roots ls :
  sc_prepare roots ls true
  = Some (blen (enc_payload roots (first_occ ls)), roots, map fst (first_occ ls)).
Proof.
  unfold sc_prepare. rewrite sc_traverse_spec. cbn [fst snd]. unfold sc_cbs.
  rewrite cb_cids_place. reflexivity.
Qed.

(* every Block reports the true position of its section in the bytes written *)
Theorem sc_cbs_locate roots ls c :
  In c (sc_cbs roots ls) ->
  let out := enc_payload roots (first_occ ls) in
  take (cb_size c) (drop (cb_off c) out) = enc_section (cb_cid c) (cb_data c)
  /\ cb_off c + cb_size c <= blen out.
Proof.
  intros Hin out. unfold sc_cbs in Hin. apply in_map_iff in Hin. destruct Hin as ([[b off] sz] & He & Hin).
  subst c. unfold cb_of_place. cbn [cb_cid cb_data cb_off cb_size fst snd].
  destruct (place_locates _ (ld (enc_header (Some roots) 1)) [] b off sz Hin) as (H1 & _ & H3 & _).
  rewrite app_nil_r in H1. split; [exact H1|exact H3].
Qed.

(* the Blocks are the first occurrences, in order *)
Lemma sc_cbs_blocks roots ls : map (fun c => (cb_cid c, cb_data c)) (sc_cbs roots ls) = first_occ ls.
Proof.
  unfold sc_cbs. generalize (blen (ld (enc_header (Some roots) 1))). generalize (first_occ ls).
  induction l as [|b t IH]; intros off; cbn [place map]; [reflexivity|].
  rewrite IH. unfold cb_of_place. cbn [cb_cid cb_data fst snd]. destruct b; reflexivity.
Qed.

(* SelectiveCarPrepared.Dump against a store that still answers as it did during Prepare *)
Definition store_agrees (store : bytes -> option bytes) (bs : list block) : Prop :=
  Forall (fun b => store (fst b) = Some (snd b)) bs.

Lemma sc_dump_blocks_spec k store : forall bs off, store_agrees store bs ->
  sc_dump_blocks k store off (map fst bs)
  = (enc_sections bs, flat_map (fanout k) (map cb_of_place (place off bs)), true).
Proof.
  induction bs as [|b t IH]; intros off H; cbn [map sc_dump_blocks place flat_map]; [reflexivity|].
  inversion H as [|? ? Hb Ht]; subst. rewrite Hb. rewrite IH by exact Ht.
  rewrite enc_sections_cons. unfold cb_of_place at 2. cbn [fst snd]. reflexivity.
Qed.

Theorem sc_dump_spec k store roots ls : store_agrees store (first_occ ls) ->
  sc_dump k store roots (map fst (first_occ ls))
  = (enc_payload roots (first_occ ls), flat_map (fanout k) (sc_cbs roots ls), true).
Proof.
  intros H. unfold sc_dump. rewrite sc_dump_blocks_spec by exact H. unfold sc_cbs. rewrite blen_ld. reflexivity.
Qed.

(* Dump stops at the first cid the store no longer has *)
Lemma sc_dump_missing k store roots c t : store c = None -> snd (sc_dump k store roots (c :: t)) = false.
Proof. intros H. unfold sc_dump. cbn [sc_dump_blocks]. rewrite H. reflexivity. Qed.

(* ---- WriteCar ------------------------------------------------------------------------------------ *)
Lemma wc_walk_spec : forall vs seen, wc_walk seen vs = enc_sections (first_occ_from seen vs).
Proof.
  induction vs as [|b t IH]; intros seen; cbn [wc_walk first_occ_from]; [reflexivity|].
  destruct (mem (fst b) seen); [apply IH|]. rewrite enc_sections_cons, IH. reflexivity.
Qed.

Theorem write_car_spec roots vs ok :
  write_car roots vs ok = (ld (enc_header roots 1) ++ enc_sections (first_occ vs), ok).
Proof. unfold write_car. rewrite wc_walk_spec. reflexivity. Qed.

(* ---- the statements as the property words them ------------------------------------------------- *)
(* callbacks of Write, for ANY number k of registered callbacks: every callback i < k is told the
   first occurrences in order, each with its true (offset, size); all callbacks are told the same;
   no event carries another index *)
Theorem sc_write_callbacks k roots ls ok out evs ok' :
  sc_write k roots ls ok = (out, evs, ok') ->
  (forall i, (i < k)%nat ->
     map (fun c => (cb_cid c, cb_data c)) (reports i evs) = first_occ ls
     /\ Forall (fun c => take (cb_size c) (drop (cb_off c) out) = enc_section (cb_cid c) (cb_data c)
                         /\ cb_off c + cb_size c <= blen out) (reports i evs))
  /\ (forall i j, (i < k)%nat -> (j < k)%nat -> reports i evs = reports j evs)
  /\ (forall e, In e evs -> (fst e < k)%nat).
Proof.
  rewrite sc_write_spec. intros H. inversion H; subst. split; [|split].
  - intros i Hi. rewrite reports_flat_fanout by exact Hi. split; [apply sc_cbs_blocks|].
    apply Forall_forall. intros c Hc. apply sc_cbs_locate. exact Hc.
  - intros i j Hi Hj. rewrite !reports_flat_fanout by assumption. reflexivity.
  - intros e. apply fanout_indices.
Qed.

(* Prepare(k callbacks) then Dump = Write(k callbacks): same bytes, same event log; Size() is the
   length of both *)
Theorem sc_dump_eq_write k store roots ls size hroots cids :
  sc_prepare roots ls true = Some (size, hroots, cids) ->
  Forall (fun b => store (fst b) = Some (snd b)) (first_occ ls) ->
  sc_dump k store hroots cids = sc_write k roots ls true
  /\ size = blen (fst (fst (sc_write k roots ls true))).
Proof.
  rewrite sc_prepare_spec. intros H Hs. inversion H; subst.
  rewrite sc_dump_spec by exact Hs. rewrite sc_write_spec. split; reflexivity.
Qed.

(* different numbers of callbacks for Write (kw) and Prepare/Dump (kd): same bytes, and every callback
   index registered on both sides is told the same *)
Theorem sc_dump_reports_eq_write kw kd store roots ls size hroots cids :
  sc_prepare roots ls true = Some (size, hroots, cids) ->
  Forall (fun b => store (fst b) = Some (snd b)) (first_occ ls) ->
  fst (fst (sc_dump kd store hroots cids)) = fst (fst (sc_write kw roots ls true))
  /\ forall i, (i < kw)%nat -> (i < kd)%nat ->
       reports i (snd (fst (sc_dump kd store hroots cids))) = reports i (snd (fst (sc_write kw roots ls true))).
Proof.
  rewrite sc_prepare_spec. intros H Hs. inversion H; subst.
  rewrite sc_dump_spec by exact Hs. rewrite sc_write_spec. cbn [fst snd]. split; [reflexivity|].
  intros i Hw Hd. rewrite !reports_flat_fanout by assumption. reflexivity.
Qed.

(* callbacks of Dump, for any number k of callbacks given to Prepare *)
Theorem sc_dump_callbacks k store roots ls size hroots cids out evs ok :
  sc_prepare roots ls true = Some (size, hroots, cids) ->
  Forall (fun b => store (fst b) = Some (snd b)) (first_occ ls) ->
  sc_dump k store hroots cids = (out, evs, ok) ->
  forall i, (i < k)%nat ->
    map (fun c => (cb_cid c, cb_data c)) (reports i evs) = first_occ ls
    /\ Forall (fun c => take (cb_size c) (drop (cb_off c) out) = enc_section (cb_cid c) (cb_data c)
                        /\ cb_off c + cb_size c <= blen out) (reports i evs).
Proof.
  intros Hp Hs Hd. destruct (sc_dump_eq_write k store roots ls size hroots cids Hp Hs) as [He _].
  rewrite He in Hd. destruct (sc_write_callbacks k roots ls true out evs ok Hd) as [H _]. exact H.
Qed.

(* a failed walk: Prepare reports the error, Write has sent a prefix *)
Lemma sc_prepare_failed roots ls : sc_prepare roots ls false = None.
Proof. reflexivity. Qed.

Theorem sc_write_exact k roots ls ok :
  fst (fst (sc_write k roots ls ok)) = enc_payload roots (first_occ ls)
  /\ snd (sc_write k roots ls ok) = ok.
Proof. rewrite sc_write_spec. split; reflexivity. Qed.

(* ---- several Dag entries (root, selector), one shared cidSet ---------------------------------------- *)
Definition dag_blocks (ds : list (bytes * trace)) : list block :=
  concat (map (fun d => blocks_of (t_loads (snd d))) ds).

Lemma dag_loads_all_ok ds : Forall (fun d => t_ok (snd d) = true) ds ->
  dag_loads ds = (dag_blocks ds, true).
Proof.
  induction 1 as [|d t Hd _ IH]; cbn [dag_loads dag_blocks map concat]; [reflexivity|].
  rewrite Hd, IH. reflexivity.
Qed.

(* the first walk that fails aborts everything after it *)
Lemma dag_loads_failed ds : Exists (fun d => t_ok (snd d) = false) ds -> snd (dag_loads ds) = false.
Proof.
  induction ds as [|d t IH]; intros H; [inversion H|]. cbn [dag_loads].
  destruct (t_ok (snd d)) eqn:E; [|reflexivity]. cbn [snd]. apply IH.
  inversion H; subst; [congruence|assumption].
Qed.

(* for ANY list of Dag entries and any number of callbacks: header roots are all the Dags' roots in
   order, the payload is the first occurrences of the per-Dag loads taken in Dag order *)
Theorem sc_write_dags_exact k ds :
  fst (fst (sc_write_dags k ds)) = enc_payload (map fst ds) (first_occ (fst (dag_loads ds)))
  /\ snd (sc_write_dags k ds) = snd (dag_loads ds).
Proof. unfold sc_write_dags, dag_roots. apply sc_write_exact. Qed.

Theorem sc_write_dags_all_ok k ds : Forall (fun d => t_ok (snd d) = true) ds ->
  fst (fst (sc_write_dags k ds))
  = enc_payload (map fst ds) (first_occ (concat (map (fun d => blocks_of (t_loads (snd d))) ds)))
  /\ snd (sc_write_dags k ds) = true.
Proof.
  intros H. destruct (sc_write_dags_exact k ds) as [H1 H2]. rewrite H1, H2.
  rewrite dag_loads_all_ok by exact H. split; reflexivity.
Qed.

Theorem sc_prepare_dags_all_ok ds : Forall (fun d => t_ok (snd d) = true) ds ->
  let bs := first_occ (concat (map (fun d => blocks_of (t_loads (snd d))) ds)) in
  sc_prepare_dags ds = Some (blen (enc_payload (map fst ds) bs), map fst ds, map fst bs).
Proof.
  intros H bs. unfold sc_prepare_dags, dag_roots. rewrite dag_loads_all_ok by exact H.
  cbn [fst snd]. apply sc_prepare_spec.
Qed.

(* no Dag entry is lost: if every walk succeeds and opens its own root first (Load(root) precedes
   the walk), every Dag's root -- and every block any Dag's walk opened -- is in the output *)
Theorem sc_dags_nothing_lost ds : Forall (fun d => t_ok (snd d) = true) ds ->
  let bs := first_occ (concat (map (fun d => blocks_of (t_loads (snd d))) ds)) in
  (forall d c, In d ds -> In c (map fst (blocks_of (t_loads (snd d)))) -> In c (map fst bs))
  /\ (Forall (fun d => exists x rest, blocks_of (t_loads (snd d)) = (fst d, x) :: rest) ds ->
      forall r, In r (map fst ds) -> In r (map fst bs)).
Proof.
  intros Hok bs.
  assert (Hall : forall d c, In d ds -> In c (map fst (blocks_of (t_loads (snd d)))) -> In c (map fst bs)).
  { intros d c Hd Hc. unfold bs. destruct (first_occ_spec (concat (map (fun d => blocks_of (t_loads (snd d))) ds))) as (_ & Hin & _).
    apply Hin. apply in_map_iff in Hc. destruct Hc as (b & <- & Hb). apply in_map.
    apply in_concat. exists (blocks_of (t_loads (snd d))). split; [|exact Hb].
    apply in_map_iff. exists d. split; [reflexivity|exact Hd]. }
  split; [exact Hall|].
  intros Hroot r Hr. apply in_map_iff in Hr. destruct Hr as (d & <- & Hd).
  rewrite Forall_forall in Hroot. destruct (Hroot d Hd) as (x & rest & He).
  apply (Hall d (fst d) Hd). rewrite He. left. reflexivity.
Qed.

(* Prepare then Dump = Write for any list of Dags *)
Theorem sc_dags_dump_eq_write k store ds size hroots cids :
  sc_prepare_dags ds = Some (size, hroots, cids) ->
  Forall (fun b => store (fst b) = Some (snd b)) (first_occ (fst (dag_loads ds))) ->
  sc_dump k store hroots cids = sc_write_dags k ds
  /\ size = blen (fst (fst (sc_write_dags k ds))).
Proof.
  unfold sc_prepare_dags, sc_write_dags. destruct (snd (dag_loads ds)) eqn:E; [|discriminate].
  apply sc_dump_eq_write.
Qed.

(* ---- destinations that fail, and histories --------------------------------------------------------- *)
(* what a failing destination accepted is a prefix of what a sound one receives *)
Lemma fault_write_prefix short : forall chunks k,
  exists rest, concat chunks = fst (fault_write k short chunks) ++ rest.
Proof.
  induction chunks as [|c t IH]; intros k; cbn [fault_write concat]; [exists []; reflexivity|].
  destruct (k =? 0).
  - destruct short; cbn [fst].
    + exists (drop (blen c / 2) c ++ concat t). rewrite app_assoc, take_drop_id. reflexivity.
    + exists (c ++ concat t). reflexivity.
  - cbn [fst]. destruct (IH (N.pred k)) as (rest & Hr). exists rest. rewrite Hr, app_assoc. reflexivity.
Qed.

(* a fault index beyond the last Write call is no fault *)
Lemma fault_write_none short : forall chunks k, N.of_nat (length chunks) <= k ->
  fault_write k short chunks = (concat chunks, false).
Proof.
  induction chunks as [|c t IH]; intros k Hk; cbn [fault_write concat]; [reflexivity|].
  cbn [length] in Hk. replace (k =? 0) with false by lia. rewrite IH by lia. reflexivity.
Qed.

Lemma concat_sec_chunks bs : concat (flat_map sec_chunks bs) = enc_sections bs.
Proof.
  induction bs as [|b t IH]; [reflexivity|]. cbn [flat_map]. rewrite concat_app, IH.
  rewrite enc_sections_cons. unfold sec_chunks, enc_section. cbn [concat]. rewrite app_nil_r, <- !app_assoc. reflexivity.
Qed.

(* WriteCar into a failing destination: a prefix of the fault-free output, and an error iff the fault
   was reached or the walk failed *)
Theorem write_car_faulty_prefix fk short roots vs ok :
  exists rest, fst (write_car roots vs ok) = fst (write_car_faulty fk short roots vs ok) ++ rest.
Proof.
  rewrite write_car_spec. unfold write_car_faulty. cbn [fst].
  destruct (fault_write_prefix short (hdr_chunks (enc_header roots 1) ++ flat_map sec_chunks (first_occ vs)) fk) as (rest & Hr).
  exists rest. rewrite <- Hr. rewrite concat_app, concat_sec_chunks. unfold hdr_chunks, ld. cbn [concat].
  rewrite app_nil_r. reflexivity.
Qed.

(* THE HISTORY STATEMENT: whatever the first write was (any Dags, any fault position, error or short
   write) the following fault-free Write / Prepare answer exactly what they answer stand-alone --
   the model of util.LdWrite carries nothing from one call to the next *)
Theorem sc_history_independent fk short ds1 k ds2 :
  snd (fst (sc_history fk short ds1 k ds2)) = sc_write_dags k ds2
  /\ snd (sc_history fk short ds1 k ds2) = sc_prepare_dags ds2.
Proof. split; reflexivity. Qed.

Theorem wc_history_independent fk short r1 vs1 ok1 r2 vs2 ok2 :
  snd (wc_history fk short r1 vs1 ok1 r2 vs2 ok2) = write_car r2 vs2 ok2.
Proof. reflexivity. Qed.

(* ... so after ANY first write the second one has the exact-once bytes and the announced size *)
Theorem sc_history_second_exact fk short ds1 k ds2 :
  Forall (fun d => t_ok (snd d) = true) ds2 ->
  let bs := first_occ (concat (map (fun d => blocks_of (t_loads (snd d))) ds2)) in
  fst (fst (snd (fst (sc_history fk short ds1 k ds2)))) = enc_payload (map fst ds2) bs
  /\ snd (sc_history fk short ds1 k ds2) = Some (blen (enc_payload (map fst ds2) bs), map fst ds2, map fst bs).
Proof.
  intros H bs. destruct (sc_history_independent fk short ds1 k ds2) as [H1 H2]. rewrite H1, H2.
  split; [apply sc_write_dags_all_ok; exact H|apply sc_prepare_dags_all_ok; exact H].
Qed.
