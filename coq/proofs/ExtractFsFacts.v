(* Basic facts about the file-system model: lookups, clean paths, kernel path resolution. *)
From GoCar Require Import Bytes ExtractFs.
From GoCarProofs Require Import BytesFacts.

Local Open Scope nat_scope.

(* ------------------------------------------------------------------------------------ *)
(* lookups                                                                                *)

Lemma phys_eqb_eq a b : phys_eqb a b = true <-> a = b.
Proof.
  revert b; induction a as [|x a IH]; intros [|y b]; cbn; split; intro H;
    try reflexivity; try discriminate.
  - apply andb_true_iff in H as [H1 H2]. apply bytes_eqb_eq in H1. apply IH in H2. congruence.
  - inversion H; subst. apply andb_true_iff; split; [apply bytes_eqb_refl | apply IH; reflexivity].
Qed.

Lemma phys_eqb_refl a : phys_eqb a a = true.
Proof. apply phys_eqb_eq; reflexivity. Qed.

Lemma phys_eqb_neq a b : a <> b -> phys_eqb a b = false.
Proof.
  intro H. destruct (phys_eqb a b) eqn:E; [|reflexivity]. apply phys_eqb_eq in E. contradiction.
Qed.

Lemma look_set_other fs p n q : q <> p -> look (fs_set fs p n) q = look fs q.
Proof.
  intro H. destruct q as [|c q]; [reflexivity|]. unfold look, fs_set. cbn [assoc].
  rewrite phys_eqb_neq by exact H. reflexivity.
Qed.

Lemma look_set_same fs p n : p <> [] -> look (fs_set fs p n) p = Some n.
Proof.
  intro H. destruct p as [|c p]; [contradiction|]. unfold look, fs_set. cbn [assoc].
  rewrite phys_eqb_refl. reflexivity.
Qed.

Lemma look_nil fs : look fs [] = Some NDir.
Proof. reflexivity. Qed.

(* ------------------------------------------------------------------------------------ *)
(* names                                                                                  *)

(* a component the kernel accepted as a directory entry name *)
Definition name_ok (c : name) : Prop :=
  normalb c = true /\ name_too_long c = false /\ has_nul c = false.

Lemma normalb_true c :
  normalb c = true -> (is_empty c || is_dot c)%bool = false /\ is_dotdot c = false.
Proof.
  unfold normalb. intro H. apply negb_true_iff in H.
  apply orb_false_iff in H as [H1 H2]. split; assumption.
Qed.

Lemma normalb_false_cases c :
  (is_empty c || is_dot c)%bool = false -> is_dotdot c = false -> normalb c = true.
Proof. intros H1 H2. unfold normalb. rewrite H1, H2. reflexivity. Qed.

Lemma dotdot_no_nul : has_nul s_dotdot = false.
Proof. reflexivity. Qed.

Lemma is_dotdot_eq c : is_dotdot c = true -> c = s_dotdot.
Proof. unfold is_dotdot. intro H. apply bytes_eqb_eq in H. exact H. Qed.

(* ------------------------------------------------------------------------------------ *)
(* kernel walk: unfolding equations                                                       *)

Lemma kwalk_nil links fs follow cur : kwalk links fs follow cur [] = KOk cur (look fs cur).
Proof. destruct links; reflexivity. Qed.

Lemma kwalk_cons links fs follow cur c rest :
  kwalk links fs follow cur (c :: rest) =
  if (is_empty c || is_dot c)%bool then kwalk links fs follow cur rest
  else if is_dotdot c then kwalk links fs follow (removelast cur) rest
  else if name_too_long c then KErr ENAMETOOLONG
  else
    let p := cur ++ [c] in
    match look fs p with
    | None => if forallb is_empty rest then KOk p None else KErr ENOENT
    | Some NDir => kwalk links fs follow p rest
    | Some (NFile d) => match rest with [] => KOk p (Some (NFile d)) | _ => KErr ENOTDIR end
    | Some (NLink t) =>
      if (match rest with [] => negb follow | _ => false end)
      then KOk p (Some (NLink t))
      else match links with
           | O => KErr ELOOP
           | S l =>
             match t with
             | [] => KErr ENOENT
             | _ => kwalk l fs follow (if is_abs t then [] else cur) (split_slash t ++ rest)
             end
           end
    end.
Proof. destruct links; reflexivity. Qed.

Global Opaque kwalk.

Lemma iter_removelast_succ (k : nat) (cur : phys) :
  Nat.iter k (@removelast name) (removelast cur) = Nat.iter (S k) (@removelast name) cur.
Proof.
  induction k as [|k IH]; [reflexivity|].
  cbn [Nat.iter nat_rect] in *. unfold Nat.iter in *. cbn [nat_rect] in *. rewrite IH. reflexivity.
Qed.

Lemma dd_triv : (is_empty s_dotdot || is_dot s_dotdot)%bool = false.
Proof. reflexivity. Qed.
Lemma dd_dd : is_dotdot s_dotdot = true.
Proof. reflexivity. Qed.

Lemma kwalk_ups links fs follow k cur rest :
  kwalk links fs follow cur (repeat s_dotdot k ++ rest) =
  kwalk links fs follow (Nat.iter k (@removelast name) cur) rest.
Proof.
  revert cur; induction k as [|k IH]; intro cur; [reflexivity|].
  cbn [repeat app]. rewrite kwalk_cons.
  rewrite dd_triv, dd_dd.
  rewrite IH. rewrite iter_removelast_succ. reflexivity.
Qed.

(* ------------------------------------------------------------------------------------ *)
(* chains of real directories                                                             *)

Inductive dirchain (fs : fsmap) : phys -> list name -> Prop :=
| dc_nil cur : dirchain fs cur []
| dc_cons cur c rest :
    name_ok c -> look fs (cur ++ [c]) = Some NDir ->
    dirchain fs (cur ++ [c]) rest -> dirchain fs cur (c :: rest).

Lemma dirchain_snoc fs cur names c :
  dirchain fs cur names -> name_ok c -> look fs (cur ++ names ++ [c]) = Some NDir ->
  dirchain fs cur (names ++ [c]).
Proof.
  intros H; induction H as [cur|cur c0 rest Hok Hl Hd IH]; intros Hc Hlook.
  - cbn in *. constructor; [assumption|assumption|constructor].
  - cbn [app]. constructor; [assumption|assumption|].
    apply IH; [assumption|]. rewrite <- app_assoc. exact Hlook.
Qed.

Lemma dirchain_app_l fs cur a b : dirchain fs cur (a ++ b) -> dirchain fs cur a.
Proof.
  revert cur; induction a as [|x a IH]; intros cur H; [constructor|].
  cbn [app] in H. inversion H; subst. constructor; [assumption|assumption|]. apply IH. assumption.
Qed.


Lemma removelast_snoc {A} (l : list A) (x : A) : removelast (l ++ [x]) = l.
Proof. apply removelast_last. Qed.

Lemma list_snoc_cases {A} (l : list A) : l = [] \/ exists init last, l = init ++ [last].
Proof.
  destruct l as [|a l]; [left; reflexivity|right].
  destruct (@exists_last _ (a :: l)) as [init [last E]]; [discriminate|]. eauto.
Qed.

Lemma dirchain_removelast fs cur names : dirchain fs cur names -> dirchain fs cur (removelast names).
Proof.
  intro H. destruct (list_snoc_cases names) as [E|[init [last E]]]; subst.
  - exact H.
  - rewrite removelast_snoc. eapply dirchain_app_l; exact H.
Qed.

Lemma dirchain_last fs cur init last :
  dirchain fs cur (init ++ [last]) -> look fs (cur ++ init ++ [last]) = Some NDir /\ name_ok last.
Proof.
  revert cur; induction init as [|x init IH]; intros cur H; cbn [app] in *.
  - inversion H; subst. split; assumption.
  - inversion H; subst. specialize (IH _ H5). rewrite <- app_assoc in IH. exact IH.
Qed.

Lemma dirchain_names_ok fs cur names : dirchain fs cur names -> Forall name_ok names.
Proof. induction 1; constructor; assumption. Qed.

(* walking through a chain of real directories *)
Lemma kwalk_dirchain links fs follow cur names rest :
  dirchain fs cur names ->
  kwalk links fs follow cur (names ++ rest) = kwalk links fs follow (cur ++ names) rest.
Proof.
  intro H; induction H as [cur|cur c r [Hn [Hl Hz]] Hlook Hd IH].
  - rewrite app_nil_r. reflexivity.
  - cbn [app]. rewrite kwalk_cons.
    apply normalb_true in Hn as [H1 H2]. rewrite H1, H2, Hl. cbn zeta. rewrite Hlook.
    rewrite IH. rewrite <- app_assoc. reflexivity.
Qed.

(* the last step, without following a final link *)
Lemma kwalk_leaf_nofollow links fs cur c p n :
  normalb c = true ->
  kwalk links fs false cur [c] = KOk p n ->
  p = cur ++ [c] /\ n = look fs p /\ name_too_long c = false.
Proof.
  intros Hn H. rewrite kwalk_cons in H. apply normalb_true in Hn as [H1 H2].
  rewrite H1, H2 in H. destruct (name_too_long c); [discriminate|]. cbn zeta in H.
  destruct (look fs (cur ++ [c])) as [[|d|t]|] eqn:E; cbn in H.
  - rewrite kwalk_nil in H. inversion H; subst. auto.
  - inversion H; subst. auto.
  - inversion H; subst. auto.
  - inversion H; subst. auto.
Qed.

Lemma kwalk_leaf_follow_nolink links fs cur c p n :
  normalb c = true ->
  (forall t, look fs (cur ++ [c]) <> Some (NLink t)) ->
  kwalk links fs true cur [c] = KOk p n ->
  p = cur ++ [c] /\ n = look fs p.
Proof.
  intros Hn Hnl H. rewrite kwalk_cons in H. apply normalb_true in Hn as [H1 H2].
  rewrite H1, H2 in H. destruct (name_too_long c); [discriminate|]. cbn zeta in H.
  destruct (look fs (cur ++ [c])) as [[|d|t]|] eqn:E; cbn in H.
  - rewrite kwalk_nil in H. inversion H; subst. auto.
  - inversion H; subst. auto.
  - exfalso. eapply Hnl. reflexivity.
  - inversion H; subst. auto.
Qed.

(* a leaf that is a symbolic link, seen by lstat *)
Lemma kwalk_leaf_link links fs cur c t :
  normalb c = true -> name_too_long c = false -> look fs (cur ++ [c]) = Some (NLink t) ->
  kwalk links fs false cur [c] = KOk (cur ++ [c]) (Some (NLink t)).
Proof.
  intros Hn Hl E. rewrite kwalk_cons. apply normalb_true in Hn as [H1 H2].
  rewrite H1, H2, Hl. cbn zeta. rewrite E. reflexivity.
Qed.

(* ------------------------------------------------------------------------------------ *)
(* clean paths                                                                            *)

Definition names_normal (p : npath) : Prop := Forall (fun c => normalb c = true) (n_names p).

Definition nbase (cwd : phys) (p : npath) : phys :=
  if n_abs p then [] else Nat.iter (n_ups p) (@removelast name) cwd.

Lemma phys_of_nbase cwd p : phys_of cwd p = nbase cwd p ++ n_names p.
Proof. reflexivity. Qed.

Lemma n_push_normal p c :
  normalb c = true -> n_push p c = mknp (n_abs p) (n_ups p) (n_names p ++ [c]).
Proof. intro H. unfold n_push. apply normalb_true in H as [H1 H2]. rewrite H1, H2. reflexivity. Qed.

Lemma n_apply_normal cs : forall p,
  Forall (fun c => normalb c = true) cs ->
  n_apply p cs = mknp (n_abs p) (n_ups p) (n_names p ++ cs).
Proof.
  induction cs as [|c cs IH]; intros p H.
  - unfold n_apply. cbn. rewrite app_nil_r. destruct p; reflexivity.
  - inversion H; subst. unfold n_apply in *. cbn [fold_left].
    rewrite n_push_normal by assumption. rewrite IH by assumption. cbn. rewrite <- app_assoc. reflexivity.
Qed.

Lemma Forall_removelast {A} (P : A -> Prop) l : Forall P l -> Forall P (removelast l).
Proof.
  intro H. destruct (list_snoc_cases l) as [E|[i [x E]]]; subst; [exact H|].
  rewrite removelast_snoc. apply Forall_app in H. tauto.
Qed.

Lemma n_push_names_normal p c : names_normal p -> names_normal (n_push p c).
Proof.
  unfold names_normal, n_push. intro H.
  destruct (is_empty c || is_dot c)%bool eqn:E1; [exact H|].
  destruct (is_dotdot c) eqn:E2.
  - destruct (n_names p) eqn:En.
    + destruct (n_abs p); cbn; [rewrite En|]; constructor.
    + cbn [n_names]. rewrite <- En. apply Forall_removelast. rewrite En. exact H.
  - cbn [n_names]. apply Forall_app; split; [exact H|]. constructor; [|constructor].
    apply normalb_false_cases; assumption.
Qed.

Lemma n_apply_names_normal cs : forall p, names_normal p -> names_normal (n_apply p cs).
Proof.
  induction cs as [|c cs IH]; intros p H; [exact H|].
  unfold n_apply in *. cbn [fold_left]. apply IH. apply n_push_names_normal. exact H.
Qed.

Lemma n_push_abs p c : n_abs (n_push p c) = n_abs p.
Proof.
  unfold n_push. destruct (is_empty c || is_dot c)%bool; [reflexivity|].
  destruct (is_dotdot c); [|reflexivity].
  destruct (n_names p); [destruct (n_abs p) eqn:E; cbn; congruence|reflexivity].
Qed.

Lemma n_apply_abs cs : forall p, n_abs (n_apply p cs) = n_abs p.
Proof.
  induction cs as [|c cs IH]; intro p; [reflexivity|].
  unfold n_apply in *. cbn [fold_left]. rewrite IH. apply n_push_abs.
Qed.

Lemma names_eqb_eq a b : names_eqb a b = true <-> a = b.
Proof.
  revert b; induction a as [|x a IH]; intros [|y b]; cbn; split; intro H;
    try reflexivity; try discriminate.
  - apply andb_true_iff in H as [H1 H2]. apply bytes_eqb_eq in H1. apply IH in H2. congruence.
  - inversion H; subst. apply andb_true_iff; split; [apply bytes_eqb_refl | apply IH; reflexivity].
Qed.

Lemma npath_eqb_eq a b : npath_eqb a b = true -> a = b.
Proof.
  unfold npath_eqb. intro H. apply andb_true_iff in H as [H H3]. apply andb_true_iff in H as [H1 H2].
  apply Bool.eqb_prop in H1. apply Nat.eqb_eq in H2. apply names_eqb_eq in H3.
  destruct a, b; cbn in *; congruence.
Qed.
