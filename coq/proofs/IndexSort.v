(* Sorting facts: the contract assumed of Go's sort.Sort (a digest-sorted permutation of the
   input -- nothing about ties), the stable insertion sort of the executable model meets it, and
   the canonical entry order (digest, offset) is unique per multiset. *)
From Coq Require Import Permutation Sorting.Sorted.
From GoCar Require Import Bytes Varint Cid Index.
From GoCarProofs Require Import BytesFacts IndexKv.

Definition digest_le (a b : irec) : Prop := bytes_leb (r_digest a) (r_digest b) = true.
Definition digest_sorted (l : list irec) : Prop := StronglySorted digest_le l.

(* what sort.Sort(recordSet) guarantees *)
Definition sort_contract (srt : list irec -> list irec) : Prop :=
  forall l, Permutation (srt l) l /\ digest_sorted (srt l).

Lemma ins_by_digest_perm r l : Permutation (ins_by_digest r l) (r :: l).
Proof.
  induction l as [|x t IH]; cbn [ins_by_digest]; [reflexivity|].
  destruct (bytes_ltb (r_digest r) (r_digest x)); [reflexivity|].
  rewrite IH. apply perm_swap.
Qed.

Lemma ins_by_digest_sorted r l : digest_sorted l -> digest_sorted (ins_by_digest r l).
Proof.
  unfold digest_sorted. induction l as [|x t IH]; intros Hs; cbn [ins_by_digest].
  - constructor; constructor.
  - inversion Hs as [|? ? Hst Hlb]; subst.
    destruct (bytes_ltb (r_digest r) (r_digest x)) eqn:E.
    + constructor; [exact Hs|].
      assert (Hrx : digest_le r x).
      { unfold digest_le. rewrite bytes_ltb_leb in E. apply bytes_leb_total.
        destruct (bytes_leb (r_digest x) (r_digest r)); [discriminate|reflexivity]. }
      constructor; [exact Hrx|].
      eapply Forall_impl; [|exact Hlb]. intros a Ha. unfold digest_le in *. eapply bytes_leb_trans; eauto.
    + constructor; [apply IH; exact Hst|].
      assert (Hxr : digest_le x r).
      { unfold digest_le. rewrite bytes_ltb_leb in E. destruct (bytes_leb (r_digest x) (r_digest r)); [reflexivity|discriminate]. }
      apply Forall_forall. intros a Ha.
      apply (Permutation_in _ (ins_by_digest_perm r t)) in Ha. destruct Ha as [<-|Ha]; [exact Hxr|].
      rewrite Forall_forall in Hlb. apply Hlb. exact Ha.
Qed.

Lemma sort_fold_perm rs : forall acc,
  Permutation (fold_left (fun acc r => ins_by_digest r acc) rs acc) (acc ++ rs).
Proof.
  induction rs as [|r rs IH]; intros acc; cbn [fold_left].
  - rewrite app_nil_r. reflexivity.
  - rewrite IH. rewrite ins_by_digest_perm. cbn [app]. apply Permutation_middle.
Qed.

Lemma sort_fold_sorted rs : forall acc, digest_sorted acc ->
  digest_sorted (fold_left (fun acc r => ins_by_digest r acc) rs acc).
Proof.
  induction rs as [|r rs IH]; intros acc H; cbn [fold_left]; [exact H|]. apply IH, ins_by_digest_sorted, H.
Qed.

Theorem sort_by_digest_contract : sort_contract sort_by_digest.
Proof.
  intros l. split.
  - unfold sort_by_digest. rewrite sort_fold_perm. reflexivity.
  - apply sort_fold_sorted. constructor.
Qed.

(* the insertion index is a digest-sorted permutation of what was inserted *)
Lemma ii_load_perm rs ii : Permutation (ii_load rs ii) (ii ++ rs).
Proof. apply sort_fold_perm. Qed.
Lemma ii_load_sorted rs ii : digest_sorted ii -> digest_sorted (ii_load rs ii).
Proof. apply sort_fold_sorted. Qed.

(* ---- canonical entry order ------------------------------------------------------------------ *)
Definition entry_le (a b : entry) : Prop := entry_leb a b = true.

Lemma entry_leb_total a b : entry_leb a b = false -> entry_leb b a = true.
Proof.
  unfold entry_leb. rewrite (bytes_cmp_antisym (fst a) (fst b)).
  destruct (bytes_cmp (fst a) (fst b)); cbn [CompOpp]; intros H; try congruence. lia.
Qed.

Lemma entry_leb_trans a b c : entry_leb a b = true -> entry_leb b c = true -> entry_leb a c = true.
Proof.
  unfold entry_leb. intros H1 H2.
  destruct (bytes_cmp (fst a) (fst b)) eqn:E1; try discriminate;
  destruct (bytes_cmp (fst b) (fst c)) eqn:E2; try discriminate.
  - apply bytes_cmp_eq in E1. rewrite E1, E2. lia.
  - apply bytes_cmp_eq in E1. rewrite E1, E2. reflexivity.
  - apply bytes_cmp_eq in E2. rewrite <- E2, E1. reflexivity.
  - rewrite (bytes_cmp_lt_trans _ _ _ E1 E2). reflexivity.
Qed.

Lemma entry_leb_antisym a b : entry_leb a b = true -> entry_leb b a = true -> a = b.
Proof.
  unfold entry_leb. rewrite (bytes_cmp_antisym (fst a) (fst b)).
  destruct (bytes_cmp (fst a) (fst b)) eqn:E; cbn [CompOpp]; intros H1 H2; try discriminate.
  apply bytes_cmp_eq in E. destruct a, b. cbn in *. f_equal; [exact E|lia].
Qed.

Lemma ins_entry_perm x l : Permutation (ins_entry x l) (x :: l).
Proof.
  induction l as [|y t IH]; cbn [ins_entry]; [reflexivity|].
  destruct (entry_leb x y); [reflexivity|]. rewrite IH. apply perm_swap.
Qed.

Lemma ins_entry_sorted x l : StronglySorted entry_le l -> StronglySorted entry_le (ins_entry x l).
Proof.
  induction l as [|y t IH]; intros Hs; cbn [ins_entry].
  - constructor; constructor.
  - inversion Hs as [|? ? Hst Hlb]; subst. destruct (entry_leb x y) eqn:E.
    + constructor; [exact Hs|]. constructor; [exact E|].
      eapply Forall_impl; [|exact Hlb]. intros a Ha. unfold entry_le in *. eapply entry_leb_trans; eauto.
    + constructor; [apply IH; exact Hst|].
      apply Forall_forall. intros a Ha.
      apply (Permutation_in _ (ins_entry_perm x t)) in Ha. destruct Ha as [<-|Ha].
      * apply entry_leb_total. exact E.
      * rewrite Forall_forall in Hlb. apply Hlb. exact Ha.
Qed.

Lemma sort_entries_perm l : Permutation (sort_entries l) l.
Proof.
  induction l as [|x t IH]; cbn [sort_entries fold_right]; [reflexivity|].
  fold (sort_entries t). rewrite ins_entry_perm, IH. reflexivity.
Qed.

Lemma sort_entries_sorted l : StronglySorted entry_le (sort_entries l).
Proof.
  induction l as [|x t IH]; cbn [sort_entries fold_right]; [constructor|].
  fold (sort_entries t). apply ins_entry_sorted, IH.
Qed.

Lemma sorted_perm_eq (l1 : list entry) : forall l2,
  StronglySorted entry_le l1 -> StronglySorted entry_le l2 -> Permutation l1 l2 -> l1 = l2.
Proof.
  induction l1 as [|a t1 IH]; intros l2 H1 H2 Hp.
  - apply Permutation_nil in Hp. subst. reflexivity.
  - destruct l2 as [|b t2]; [apply Permutation_sym, Permutation_nil in Hp; discriminate|].
    inversion H1 as [|? ? Hs1 Hlb1]; subst. inversion H2 as [|? ? Hs2 Hlb2]; subst.
    assert (Hab : a = b).
    { assert (Ha : In a (b :: t2)) by (eapply Permutation_in; [exact Hp|left; reflexivity]).
      assert (Hb : In b (a :: t1)) by (eapply Permutation_in; [apply Permutation_sym; exact Hp|left; reflexivity]).
      destruct Ha as [->|Ha]; [reflexivity|]. destruct Hb as [->|Hb]; [reflexivity|].
      rewrite Forall_forall in Hlb1, Hlb2. apply entry_leb_antisym; [apply Hlb1; exact Hb|apply Hlb2; exact Ha]. }
    subst b. f_equal. apply IH; try assumption. eapply Permutation_cons_inv. exact Hp.
Qed.

(* the canonical order depends only on the multiset *)
Theorem sort_entries_unique l l' : Permutation l l' -> sort_entries l = sort_entries l'.
Proof.
  intros Hp. apply sorted_perm_eq; try apply sort_entries_sorted.
  rewrite !sort_entries_perm. exact Hp.
Qed.

Lemma sort_entries_id l : StronglySorted entry_le l -> sort_entries l = l.
Proof.
  intros H. apply sorted_perm_eq; [apply sort_entries_sorted|exact H|apply sort_entries_perm].
Qed.

(* ---- a digest-sorted list: canon only moves entries inside runs of equal digests -------------- *)
Definition entry_of (r : irec) : entry := (r_digest r, r_off r).

Definition fst_le (a b : entry) : Prop := bytes_leb (fst a) (fst b) = true.

Lemma entry_le_fst a b : entry_le a b -> fst_le a b.
Proof.
  unfold entry_le, entry_leb, fst_le, bytes_leb. destruct (bytes_cmp (fst a) (fst b)); congruence.
Qed.

(* two lists sorted by digest (non-strictly) that are permutations of each other list the same
   digests in the same order *)
Lemma digest_sorted_perm_fst (l1 : list entry) : forall l2,
  StronglySorted fst_le l1 -> StronglySorted fst_le l2 -> Permutation l1 l2 ->
  map fst l1 = map fst l2.
Proof.
  induction l1 as [|a t1 IH]; intros l2 H1 H2 Hp.
  - apply Permutation_nil in Hp. subst. reflexivity.
  - destruct l2 as [|b t2]; [apply Permutation_sym, Permutation_nil in Hp; discriminate|].
    inversion H1 as [|? ? Hs1 Hlb1]; subst. inversion H2 as [|? ? Hs2 Hlb2]; subst.
    assert (Hab : fst a = fst b).
    { assert (Ha : In a (b :: t2)) by (eapply Permutation_in; [exact Hp|left; reflexivity]).
      assert (Hb : In b (a :: t1)) by (eapply Permutation_in; [apply Permutation_sym; exact Hp|left; reflexivity]).
      destruct Ha as [->|Ha]; [reflexivity|]. destruct Hb as [->|Hb]; [reflexivity|].
      rewrite Forall_forall in Hlb1, Hlb2. apply bytes_leb_antisym; [apply Hlb1; exact Hb|apply Hlb2; exact Ha]. }
    cbn [map]. f_equal; [exact Hab|].
    (* remove one occurrence of a from both sides *)
    assert (Ha : In a (b :: t2)) by (eapply Permutation_in; [exact Hp|left; reflexivity]).
    destruct Ha as [->|Ha].
    + apply IH; try assumption. eapply Permutation_cons_inv. exact Hp.
    + (* a occurs later in t2: t2 = u ++ a :: v, and every element of u has digest fst a;
         swap b and a (same digest) *)
      apply in_split in Ha. destruct Ha as (u & v & ->).
      assert (Hp' : Permutation t1 (b :: u ++ v)).
      { apply Permutation_cons_inv with (a := a). rewrite Hp.
        rewrite perm_swap. apply perm_skip. symmetry. apply Permutation_middle. }
      assert (Hsorted' : StronglySorted fst_le (b :: u ++ v)).
      { constructor.
        - clear -Hs2. induction u as [|x u IHu]; cbn [app] in *.
          + inversion Hs2; assumption.
          + inversion Hs2 as [|? ? Hs Hlb]; subst. constructor; [apply IHu; exact Hs|].
            apply Forall_app in Hlb. destruct Hlb as [Hl1 Hl2]. inversion Hl2; subst.
            apply Forall_app. split; assumption.
        - apply Forall_app in Hlb2. destruct Hlb2 as [Hl1 Hl2]. inversion Hl2; subst.
          apply Forall_app. split; assumption. }
      rewrite (IH _ Hs1 Hsorted' Hp'). cbn [map]. rewrite !map_app. cbn [map].
      (* digests of u all equal fst a = fst b *)
      assert (Hu : forall x, In x u -> fst x = fst b).
      { intros x Hx. apply bytes_leb_antisym.
        - (* x <= a (x before a in sorted t2) and fst a = fst b *)
          rewrite <- Hab.
          clear -Hs2 Hx. induction u as [|y u IHu]; [destruct Hx|]. cbn [app] in Hs2.
          inversion Hs2 as [|? ? Hs Hlb]; subst. destruct Hx as [->|Hx].
          + rewrite Forall_forall in Hlb. apply Hlb. apply in_or_app. right. left. reflexivity.
          + apply IHu; assumption.
        - rewrite Forall_forall in Hlb2. apply Hlb2. apply in_or_app. left. exact Hx. }
      assert (Hmu : map fst (b :: u) = map fst (u ++ [a])).
      { clear -Hu Hab. rewrite map_app. cbn [map]. rewrite Hab.
        induction u as [|x u IHu]; cbn [map app]; [reflexivity|].
        rewrite (Hu x) by (left; reflexivity). f_equal. apply IHu. intros y Hy. apply Hu. right. exact Hy. }
      cbn [map] in Hmu. rewrite map_app in Hmu. cbn [map] in Hmu.
      change (fst b :: map fst u ++ map fst v) with ((fst b :: map fst u) ++ map fst v).
      rewrite Hmu. rewrite <- app_assoc. reflexivity.
Qed.

Lemma sort_entries_fst_sorted l : StronglySorted fst_le (sort_entries l).
Proof.
  pose proof (sort_entries_sorted l) as H. induction H; constructor; [assumption|].
  eapply Forall_impl; [|eassumption]. intros x Hx. apply entry_le_fst. exact Hx.
Qed.

(* canon keeps the digest sequence of a digest-sorted bucket *)
Theorem canon_keeps_digests l : StronglySorted fst_le l -> map fst (sort_entries l) = map fst l.
Proof.
  intros H. apply digest_sorted_perm_fst; [apply sort_entries_fst_sorted|exact H|apply sort_entries_perm].
Qed.

(* no two entries with one digest: a digest-sorted list is already canonical *)
Lemma fst_sorted_nodup_canon l :
  StronglySorted fst_le l -> NoDup (map fst l) -> StronglySorted entry_le l.
Proof.
  induction l as [|a t IH]; intros Hs Hn; [constructor|].
  inversion Hs as [|? ? Hst Hlb]; subst. cbn [map] in Hn. inversion Hn as [|? ? Hnotin Hn']; subst.
  constructor; [apply IH; assumption|].
  apply Forall_forall. intros x Hx. rewrite Forall_forall in Hlb. specialize (Hlb x Hx).
  unfold fst_le, bytes_leb in Hlb. unfold entry_le, entry_leb.
  destruct (bytes_cmp (fst a) (fst x)) eqn:E; try congruence.
  apply bytes_cmp_eq in E. exfalso. apply Hnotin. rewrite E. apply in_map. exact Hx.
Qed.

Theorem canon_id_without_ties l :
  StronglySorted fst_le l -> NoDup (map fst l) -> sort_entries l = l.
Proof. intros Hs Hn. apply sort_entries_id. apply fst_sorted_nodup_canon; assumption. Qed.

Lemma digest_sorted_entries l : digest_sorted l -> StronglySorted fst_le (map entry_of l).
Proof.
  intros H. induction H as [|a t Hs IH Hlb]; cbn [map]; constructor; [exact IH|].
  apply Forall_forall. intros x Hx. apply in_map_iff in Hx. destruct Hx as (y & <- & Hy).
  rewrite Forall_forall in Hlb. apply (Hlb y Hy).
Qed.
