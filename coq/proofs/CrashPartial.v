(* C06: assembly -- a crash in the open phase of a fresh process, at a section boundary or inside a
   section head of the put phase (of a fresh or a resumed process), and after the last write. *)
From GoCar Require Import Bytes Varint Cid Header Frame V2Header Index Scan Store Crash.
From GoCarProofs Require Import BytesFacts VarintFacts CidFacts ResumeFacts ResumeInv ResumeReject
     CrashImage CrashScan CrashResume CrashPut CrashDev.

Lemma firstn_enc_sections_le (l : list block) : forall j, blen (enc_sections (firstn j l)) <= blen (enc_sections l).
Proof.
  induction l as [|b r IH]; intros j; [destruct j; cbn; lia|].
  destruct j as [|j']; [cbn [firstn enc_sections map concat]; rewrite blen_nil; lia|].
  cbn [firstn]. rewrite !enc_sections_cons, !blen_app. specialize (IH j'). lia.
Qed.

Lemma done_puts_le bs : forall s kk, (done_puts s bs kk <= length bs)%nat.
Proof.
  induction bs as [|b r IH]; intros s kk; cbn [done_puts length]; [lia|].
  destruct (_ <=? _)%nat; [specialize (IH (fst (fe_put s b)) (kk - (loglen (fst (fe_put s b)) - loglen s))%nat); lia|lia].
Qed.

Lemma reopen_empty_cases hdrdec k o nilroots roots :
  reopen hdrdec k o nilroots roots [] =
    match open_new k o nilroots roots [] with Ok s => inl s | Err e => inr (e, mkdev [] [] []) end \/
  reopen hdrdec k o nilroots roots [] = resume hdrdec k true o roots [] [].
Proof. destruct k; [left|right]; reflexivity. Qed.

Section A.
  Variable hdrdec : bytes -> option (list bytes * N).
  Variables (k : skind) (o : wopts) (nilroots : bool) (roots : list bytes).
  Hypothesis Hpar : params_ok hdrdec o nilroots roots.

  Notation Inv := (Inv k o nilroots roots).
  Notation live_file := (live_file o nilroots roots).
  Notation base_file := (base_file o nilroots roots).
  Notation fits := (fits o nilroots roots).
  Notation abs_puts := (abs_puts o nilroots roots).
  Notation budget := (budget o nilroots roots).
  Notation hdr := (hdr nilroots roots).
  Notation reopen_ := (reopen hdrdec k o nilroots roots).

  (* the two good outcomes of reopening a crash image of a process that started in state [start] *)
  Definition refused_untouched (img : bytes) : Prop :=
    exists e dv, reopen_ img = inr (e, dv) /\ d_file dv = img.

  Definition resumed_as_after (start : wstate) (puts : list block) (done : nat) (img : bytes) : Prop :=
    exists s1 j, reopen_ img = inl s1 /\ (done <= j <= length puts)%nat /\
      let sj := run_puts start (firstn j puts) in
      ws_file s1 = ws_file sj /\ ws_idx s1 = ws_idx sj /\ ws_pos s1 = ws_pos sj /\
      forall more, 51 + w_dpad o + w_ipad o + ws_pos sj + blen (enc_sections more) < two63 ->
        ws_file (fst (fe_finalize (run_puts s1 more))) = ws_file (fst (fe_finalize (run_puts sj more))).

  (* the strong form: reopen returns literally the state Resume builds for the stored list after the
     first j puts (st0 = what the process had stored when it started) *)
  Definition resumed_exactly (st0 : list block) (puts : list block) (done : nat) (img : bytes) : Prop :=
    exists log j, (done <= j <= length puts)%nat /\
      reopen_ img = inl (resumed_state k o nilroots roots log (abs_puts st0 (firstn j puts))).

  Lemma resumed_exactly_weaken start st0 puts done img :
    Inv start st0 -> budget st0 puts ->
    resumed_exactly st0 puts done img -> resumed_as_after start puts done img.
  Proof.
    intros HI Hb (log & j & Hj & Hre). unfold ResumeInv.budget in Hb.
    pose proof (firstn_enc_sections_le puts j) as Hle.
    assert (HIj : Inv (run_puts start (firstn j puts)) (abs_puts st0 (firstn j puts))).
    { apply (run_puts_inv hdrdec k o nilroots roots Hpar); [exact HI|lia]. }
    set (stj := abs_puts st0 (firstn j puts)) in *.
    pose proof (inv_cids _ _ _ _ _ _ HIj) as Hc. pose proof (inv_fits _ _ _ _ _ _ HIj) as Hf.
    unfold resumed_as_after.
    exists (resumed_state k o nilroots roots log stj), j.
    split; [exact Hre|]. split; [exact Hj|]. cbv zeta.
    split; [rewrite (inv_file _ _ _ _ _ _ HIj); reflexivity|].
    split; [rewrite (inv_idx _ _ _ _ _ _ HIj); reflexivity|].
    split; [rewrite (inv_pos _ _ _ _ _ _ HIj); reflexivity|].
    intros more Hm. rewrite (inv_pos _ _ _ _ _ _ HIj) in Hm.
    pose proof (resumed_state_inv k o nilroots roots log stj Hc Hf) as HI1.
    assert (HA : Inv (run_puts (resumed_state k o nilroots roots log stj) more) (abs_puts stj more))
      by (apply (run_puts_inv hdrdec k o nilroots roots Hpar); [exact HI1|lia]).
    assert (HB : Inv (run_puts (run_puts start (firstn j puts)) more) (abs_puts stj more))
      by (apply (run_puts_inv hdrdec k o nilroots roots Hpar); [exact HIj|lia]).
    change (fst (fe_finalize ?s)) with (end_seg CFinalize s).
    rewrite (end_seg_file k o nilroots roots _ _ CFinalize HA), (end_seg_file k o nilroots roots _ _ CFinalize HB).
    reflexivity.
  Qed.

  (* an image that is the live file of the first j puts resumes as the state after those puts *)
  Lemma boundary_outcome start st0 puts done j :
    Inv start st0 -> budget st0 puts -> (done <= j <= length puts)%nat ->
    resumed_exactly st0 puts done (live_file (abs_puts st0 (firstn j puts))).
  Proof.
    intros HI Hb Hj. exists (if w_v1 o then [] else zero_hdr_log), j. split; [exact Hj|].
    unfold ResumeInv.budget in Hb. pose proof (firstn_enc_sections_le puts j) as Hle.
    assert (HIj : Inv (run_puts start (firstn j puts)) (abs_puts st0 (firstn j puts))).
    { apply (run_puts_inv hdrdec k o nilroots roots Hpar); [exact HI|lia]. }
    rewrite (reopen_nonempty hdrdec k o nilroots roots) by apply live_file_nonempty.
    apply (resume_live hdrdec k o nilroots roots Hpar _ (inv_cids _ _ _ _ _ _ HIj) (inv_fits _ _ _ _ _ _ HIj)).
  Qed.

  (* ---- the put phase of any process ----------------------------------------------------------- *)
  Theorem put_phase_crash f0 start st0 puts W kk t :
    Inv start st0 -> dev_ok f0 (ws_dev start) -> budget st0 puts ->
    (exists F, W = writes_of (ws_dev start) ++ sess_writes o nilroots roots st0 puts ++ F) ->
    let img := image f0 W (loglen start + kk) t in
    match put_class start puts kk t with
    | Some CBoundary => resumed_exactly st0 puts (done_puts start puts kk) img
    | Some CHead => refused_untouched img
    | Some _ => True
    | None => kk = length (sess_writes o nilroots roots st0 puts) -> t = 0 ->
              resumed_exactly st0 puts (done_puts start puts kk) img
    end.
  Proof.
    intros HI Hdev Hb (F & HW). cbv zeta.
    assert (Himg : image f0 W (loglen start + kk) t =
                   image (live_file st0) (sess_writes o nilroots roots st0 puts ++ F) kk t).
    { rewrite HW, loglen_writes, image_app. unfold dev_ok in Hdev. rewrite Hdev.
      fold (ws_file start). rewrite (inv_file _ _ _ _ _ _ HI). reflexivity. }
    rewrite Himg.
    pose proof (put_phase hdrdec k o nilroots roots Hpar puts start st0 F kk t HI Hb) as Hspec.
    destruct (put_class start puts kk t) as [[]|]; cbn [image_spec] in Hspec; try exact I.
    - destruct Hspec as (j & Hj & ->). apply (boundary_outcome start st0 puts _ j HI Hb Hj).
    - destruct Hspec as (j & c & d & p & i & Hj & -> & Hp & Hi0 & Hi & Hfit).
      assert (HIj : Inv (run_puts start (firstn j puts)) (abs_puts st0 (firstn j puts))).
      { apply (run_puts_inv hdrdec k o nilroots roots Hpar); [exact HI|].
        pose proof (firstn_enc_sections_le puts j). unfold ResumeInv.budget in Hb. lia. }
      destruct (resume_torn_head hdrdec k o nilroots roots Hpar _ c d p i (inv_cids _ _ _ _ _ _ HIj) Hfit Hp Hi0 Hi)
        as (e & log & Hr).
      exists e, (mkdev (live_file (abs_puts st0 (firstn j puts)) ++ take i (enc_section c d)) log []).
      split; [|reflexivity].
      rewrite (reopen_nonempty hdrdec k o nilroots roots); [exact Hr|].
      intros X. apply app_eq_nil in X. destruct X as [X _]. exact (live_file_nonempty o nilroots roots _ X).
    - intros Hk Ht. subst kk t. rewrite image_end_zero.
      assert (Hrep : replay (live_file st0) (sess_writes o nilroots roots st0 puts) = live_file (abs_puts st0 puts)).
      { pose proof (run_puts_log hdrdec k o nilroots roots Hpar puts start st0 HI Hb) as Hlog.
        pose proof (dev_good_run_puts f0 puts start) as [Hok _]. specialize (Hok Hdev).
        unfold dev_ok in Hok, Hdev. rewrite Hlog, replay_app, Hdev in Hok.
        fold (ws_file start) in Hok. rewrite (inv_file _ _ _ _ _ _ HI) in Hok.
        fold (ResumeInv.live_file o nilroots roots st0) in Hok. rewrite Hok.
        fold (ws_file (run_puts start puts)).
        rewrite (inv_file _ _ _ _ _ _ (run_puts_inv hdrdec k o nilroots roots Hpar puts start st0 HI Hb)). reflexivity. }
      rewrite Hrep.
      pose proof (boundary_outcome start st0 puts (done_puts start puts (length (sess_writes o nilroots roots st0 puts)))
                    (length puts) HI Hb (conj (done_puts_le _ _ _) (le_n _))) as Hbo.
      rewrite firstn_all in Hbo. exact Hbo.
  Qed.

  (* ---- the open phase of a fresh process --------------------------------------------------------- *)
  Notation open_state := (open_state k o nilroots roots).
  Definition open_writes : list wr :=
    (if w_v1 o then [] else [WrAt 0 pragma]) ++ chunk_log (data_base o) (header_chunks nilroots roots).

  Lemma open_writes_eq : writes_of (ws_dev open_state) = open_writes.
  Proof.
    unfold ResumeInv.open_state, writes_of, open_writes, open_log. cbn [ws_dev d_log].
    rewrite rev_app_distr, rev_involutive. destruct (w_v1 o); reflexivity.
  Qed.

  Lemma write_at_empty d : write_at [] 0 d = d.
  Proof. change 0 with (blen (@nil byte)). rewrite write_at_append. reflexivity. Qed.

  Lemma open_image kk t R : fits [] -> (kk < length open_writes)%nat ->
    exists m, m <= blen base_file /\ image [] (open_writes ++ R) kk t = take m base_file.
  Proof.
    intros Hfit0 Hk. pose proof (fits_nil_64 _ _ _ Hfit0) as Hf0.
    assert (H64 : 51 + w_dpad o < two64) by (unfold two63, two64 in *; lia).
    rewrite image_prefix by exact Hk.
    unfold open_writes in *. unfold ResumeInv.base_file. unfold header_chunks, ld_chunks in *.
    cbn [fold_left chunk_log] in *. change (enc_header (roots_opt nilroots roots) 1) with hdr in *.
    replace (0 + blen hdr) with (blen hdr) in * by lia.
    set (uv := put_uv (blen hdr)) in *.
    assert (Huv : uv <> []) by apply put_uv_nonempty.
    assert (Hld : ld hdr = uv ++ hdr) by reflexivity.
    destruct (w_v1 o) eqn:Ev.
    - (* CARv1: two appends to the empty file *)
      rewrite data_base_v1 by exact Ev. cbn [app].
      rewrite image_appends by (cbn [appends blen length N.of_nat]; repeat split; lia).
      cbn [stream app blen length N.of_nat]. rewrite app_nil_r, N.add_0_l, Hld.
      eexists. split; [|reflexivity].
      pose proof (img_len_le [WrAt 0 uv; WrAt (0 + blen uv) hdr] kk t) as Hle. cbn [stream] in Hle.
      rewrite app_nil_r in Hle. exact Hle.
    - rewrite data_base_v2 by assumption. cbn [app] in *. unfold v2_prefix.
      set (base := 51 + w_dpad o) in *.
      assert (Hz : zerosN (base - blen pragma) = zerosN (40 + w_dpad o)) by (rewrite blen_pragma; unfold base; f_equal; lia).
      destruct kk as [|[|[|kk']]]; [| | |cbn [length] in Hk; lia]; cbn [image apply_torn apply_wr].
      + (* inside the pragma *)
        rewrite write_at_empty. exists (N.min t (blen pragma)). split; [rewrite !blen_app; lia|].
        rewrite <- app_assoc. rewrite take_app_le by lia. apply take_min.
      + (* pragma done; the header's length varint *)
        rewrite write_at_empty.
        destruct (take t uv) as [|x u] eqn:Eu.
        * rewrite write_at_nil. exists (blen pragma). split; [rewrite !blen_app; lia|].
          rewrite <- app_assoc. rewrite take_app. reflexivity.
        * rewrite <- Eu. rewrite write_at_hole by (try (rewrite Eu; discriminate); rewrite blen_pragma; unfold base; lia).
          rewrite Hz, Hld.
          exists (blen (pragma ++ zerosN (40 + w_dpad o)) + N.min t (blen uv)). split.
          -- rewrite !blen_app. lia.
          -- rewrite take_app_ge by lia.
             replace (blen (pragma ++ zerosN (40 + w_dpad o)) + N.min t (blen uv) - blen (pragma ++ zerosN (40 + w_dpad o)))
               with (N.min t (blen uv)) by lia.
             rewrite take_app_le by lia. rewrite <- take_min, <- app_assoc. reflexivity.
      + (* the header bytes *)
        rewrite write_at_empty.
        rewrite (write_at_hole pragma base uv) by (try exact Huv; rewrite blen_pragma; unfold base; lia).
        rewrite Hz.
        assert (Hlen : blen (pragma ++ zerosN (40 + w_dpad o) ++ uv) = base + blen uv)
          by (rewrite !blen_app, blen_pragma, blen_zerosN; unfold base; lia).
        rewrite <- Hlen, write_at_append, Hld.
        exists (blen (pragma ++ zerosN (40 + w_dpad o) ++ uv) + N.min t (blen hdr)). split.
        * rewrite !blen_app. lia.
        * replace ((pragma ++ zerosN (40 + w_dpad o)) ++ uv ++ hdr)
            with ((pragma ++ zerosN (40 + w_dpad o) ++ uv) ++ hdr) by (rewrite <- !app_assoc; reflexivity).
          rewrite take_app_ge by lia.
          replace (blen (pragma ++ zerosN (40 + w_dpad o) ++ uv) + N.min t (blen hdr) - blen (pragma ++ zerosN (40 + w_dpad o) ++ uv))
            with (N.min t (blen hdr)) by lia.
          rewrite <- take_min. rewrite <- !app_assoc. reflexivity.
  Qed.

  Theorem open_phase_crash puts kk t R :
    kind_ok k o -> budget [] puts -> (kk < length open_writes)%nat ->
    let img := image [] (open_writes ++ R) kk t in
    refused_untouched img \/ resumed_exactly [] puts 0 img.
  Proof.
    intros Hk Hb Hkk. cbv zeta.
    assert (Hfit0 : fits []).
    { unfold ResumeInv.budget in Hb. unfold ResumeInv.fits. change (enc_sections []) with (@nil byte) in *.
      rewrite blen_nil in *. lia. }
    pose proof (open_state_inv k o nilroots roots Hfit0) as HI0.
    destruct (open_image kk t R Hfit0 Hkk) as (m & Hm & ->).
    destruct (m =? blen base_file) eqn:Em.
    - (* all open writes are in: the live file of no puts *)
      right. replace m with (blen base_file) by lia. rewrite take_all.
      pose proof (boundary_outcome open_state [] puts 0 0 HI0 Hb (conj (le_n _) (Nat.le_0_l _))) as Hbo.
      cbn [firstn] in Hbo. unfold ResumeInv.abs_puts in Hbo. cbn [fold_left] in Hbo.
      unfold ResumeInv.live_file in Hbo. change (enc_sections []) with (@nil byte) in Hbo. rewrite app_nil_r in Hbo.
      exact Hbo.
    - destruct (checks_torn_open hdrdec o nilroots roots Hpar m Hfit0) as (e & He); [lia|].
      destruct (take m base_file) as [|x0 r0] eqn:Et.
      + destruct (reopen_empty_cases hdrdec k o nilroots roots) as [Hre|Hre].
        * (* blockstore on an empty file: initialised afresh = the state the process started in *)
          right. exists (open_log o nilroots roots), 0%nat. split; [lia|].
          rewrite Hre, (open_new_eq k o nilroots roots Hk Hfit0). cbn [firstn].
          unfold ResumeInv.abs_puts. cbn [fold_left]. f_equal.
          unfold ResumeInv.open_state, ResumeInv.resumed_state, ResumeInv.live_file, idx_of.
          change (enc_sections []) with (@nil byte). rewrite app_nil_r, blen_nil, N.add_0_r. reflexivity.
        * left. exists e, (mkdev [] [] []). split; [|reflexivity].
          rewrite Hre. apply resume_rejected. exact He.
      + left. exists e, (mkdev (x0 :: r0) [] []). split; [|reflexivity].
        rewrite (reopen_nonempty hdrdec k o nilroots roots) by discriminate. apply resume_rejected. exact He.
  Qed.
End A.
