(* C02, round 3 -- for ALL byte strings:
   (1) a Next call reports io.EOF only at a clean end (nothing left, or -- ZeroLengthSectionAsEOF -- the
       next length prefix is the single byte 0; root module: nothing left, or a zero-length section):
       a length prefix that fails to decode (cut inside a multi-byte varint, overflow, non-minimal) is
       never a clean end, whatever the options;
   (2) SkipNext / Next return metadata / a block only when the whole section its length prefix declares
       is in front of the reader;
   and, on constructed CARv1 archives cut anywhere but on a section boundary:
   (3) every walk mixing Next and SkipNext (seekable or plain source) returns only complete sections
       from in front of the cut, in order, and never ends with io.EOF. *)
From GoCar Require Import Bytes Varint Cid Header Frame V2Header Scan BlockReaderPos.
From GoCarProofs Require Import BytesFacts VarintFacts CidFacts HeaderFacts ScanFacts ScanTrunc
  InspectFacts BlockReaderPosFacts BlockReaderPosC14 Termination TotalWalk ScanTruncInspect.

(* ---- (1) ------------------------------------------------------------------------------------------- *)
Theorem next_block_eof_clean hok o s :
  next_block hok o s = Err EEof ->
  s = [] \/ (o_zeof o = true /\ exists rest n, read_uv s = VOk 0 rest n).
Proof.
  intros H. set (st := mkbrp s false 0 0 None 0 0 None).
  assert (Hvis : vis st = s) by (unfold vis, st; cbn [p_lim p_pos p_all]; apply drop_0).
  rewrite <- Hvis. apply (brp_next_eof_clean hok o st). unfold brp_next. rewrite Hvis, H. reflexivity.
Qed.

Lemma ld_read_root_eof s : ld_read_root s = Err EEof -> s = [].
Proof.
  unfold ld_read_root. destruct s as [|b t]; [reflexivity|]. intros H. exfalso. revert H.
  destruct (read_uv_std (b :: t)) as [l0 rest n| | | |]; try discriminate.
  destruct (root_max_section <? wrap64 l0); [discriminate|].
  destruct (blen rest <? wrap64 l0); discriminate.
Qed.

Theorem next_block_root_eof_clean hok s :
  next_block_root hok s = Err EEof -> s = [] \/ exists rest, ld_read_root s = Ok ([], rest).
Proof.
  unfold next_block_root, read_node_root. intros H.
  destruct (ld_read_root s) as [[buf rest]|e] eqn:E.
  - right. exists rest. f_equal. f_equal.
    destruct (cid_from_reader buf) as [n c p after| |k] eqn:Ec.
    + exfalso. destruct (verify hok c p after) as [[]|e'] eqn:Ev; [discriminate|].
      inversion H; subst e'. exact (verify_not_eof hok c p after Ev).
    + unfold cid_from_reader in Ec. destruct (read_uv buf) as [vers r1 n1| | | |] eqn:Eu.
      * exfalso. revert Ec. destruct (vers =? 18).
        { destruct (blen r1 <? 33); [discriminate|].
          destruct (take 34 buf) as [|b0 [|b1 t]]; try discriminate. destruct (b2n b1 =? 32); discriminate. }
        destruct (negb (vers =? 1)); [discriminate|].
        destruct (read_uv r1) as [codec r2 n2| | | |]; try discriminate.
        destruct (read_uv r2) as [code r3 n3| | | |]; try discriminate.
        destruct (read_uv r3) as [mhl r4 n4| | | |]; try discriminate.
        destruct (max_digest_alloc <? mhl); [discriminate|]. destruct (blen r4 <? mhl); discriminate.
      * apply read_uv_eof_nil. exact Eu.
      * discriminate.
      * discriminate.
      * discriminate.
    + discriminate.
  - left. inversion H; subst e. apply ld_read_root_eof. exact E.
Qed.

(* ---- (2) ------------------------------------------------------------------------------------------- *)
Lemma vis_adv k st : vis (adv k st) = drop k (vis st).
Proof.
  unfold vis, adv. cbn [p_lim p_pos p_all]. destruct (p_lim st) as [n|].
  - rewrite drop_take, drop_drop. reflexivity.
  - rewrite drop_drop. reflexivity.
Qed.

Lemma ld_read_size_consumes zeof maxb s l rest n :
  ld_read_size zeof maxb s = Ok (l, rest, n) -> 0 < n /\ blen s = n + blen rest.
Proof.
  unfold ld_read_size. destruct (read_uv s) as [l' r' n'| | | |] eqn:E; try discriminate.
  destruct ((l' =? 0) && zeof); [discriminate|]. destruct (maxb <? l'); [discriminate|].
  intros H. inversion H; subst. apply read_uv_consumes in E. exact E.
Qed.

Theorem brp_next_whole_section hok o st b st' :
  brp_next hok o st = Ok (b, st') ->
  exists l rest n, ld_read_size (o_zeof o) (o_maxs o) (vis st) = Ok (l, rest, n) /\ l <= blen rest.
Proof.
  unfold brp_next, next_block, read_node, ld_read. intros H.
  destruct (ld_read_size (o_zeof o) (o_maxs o) (vis st)) as [[[l rest] n]|e]; [|discriminate].
  exists l, rest, n. split; [reflexivity|].
  destruct (blen rest <? l) eqn:E; [discriminate|]. lia.
Qed.

Theorem brp_skip_whole_section o st m st' :
  rsize_ok st -> brp_skip o st = Ok (m, st') ->
  exists l rest n, ld_read_size (o_zeof o) (o_maxs o) (vis st) = Ok (l, rest, n) /\ l <= blen rest.
Proof.
  unfold brp_skip. intros Hs H.
  destruct (ld_read_size (o_zeof o) (o_maxs o) (vis st)) as [[[l rest] n]|e] eqn:E; [|discriminate].
  exists l, rest, n. split; [reflexivity|].
  destruct (ld_read_size_consumes _ _ _ _ _ _ E) as (Hn & Hlen).
  destruct (l =? 0) eqn:El; [discriminate|].
  destruct (cid_from_reader (take l rest)) as [cn c p r| |] eqn:Ec; try discriminate.
  apply (cfr_consumed (fun _ _ => None) (fun _ => None)) in Ec. rewrite blen_take in Ec. cbv zeta in H.
  (* the discard path: io.CopyN over what the stream still holds *)
  assert (Hd : forall x y, (if blen (vis (adv (n + cn) st)) <? l - cn then @Err (meta * brp) EUnexpectedEof
                            else Ok (x, y)) = Ok (m, st') -> l <= blen rest).
  { intros x y Hx. destruct (blen (vis (adv (n + cn) st)) <? l - cn) eqn:Eb; [discriminate|].
    rewrite vis_adv, blen_drop in Eb. lia. }
  destruct (p_lim st) as [lim|] eqn:Elim.
  - destruct (p_seek st); eapply Hd; exact H.
  - destruct (p_seek st) eqn:Eseek; [|eapply Hd; exact H].
    (* the seek path: the end of the section must not lie beyond the size of the source *)
    destruct (negb (_ =? _)); [discriminate|].
    destruct (_ <? _) eqn:Er; [discriminate|].
    assert (Hrs : match p_rsize st with None => blen (p_all st) | Some r => r end = blen (p_all st)).
    { destruct (Hs Elim) as [->| ->]; reflexivity. }
    rewrite Hrs in Er. unfold adv in Er. cbn [p_pos] in Er.
    unfold vis in Hlen. rewrite Elim, blen_drop in Hlen. lia.
Qed.

(* ---- (3) ------------------------------------------------------------------------------------------- *)
Lemma rsize_inv_ok st : rsize_inv st -> rsize_ok st.
Proof.
  unfold rsize_inv, rsize_ok. intros H Hl. destruct (p_rsize st) as [r|]; [|left; reflexivity].
  right. rewrite (H Hl). reflexivity.
Qed.

Section Walk.
  Variable hok : bytes -> bytes -> option bool.
  Variable hdrdec : bytes -> option (list bytes * N).

  (* both calls fail, and not with io.EOF, when a cut section is in front of the reader *)
  Lemma cut_section_calls_fail o st c d m :
    block_ok (o_maxs o) (c, d) -> 0 < m -> m < blen (enc_section c d) ->
    vis st = take m (enc_section c d) -> rsize_ok st ->
    (exists e, e <> EEof /\ brp_next hok o st = Err e) /\
    (exists e, e <> EEof /\ brp_skip o st = Err e).
  Proof.
    intros Hb Hm0 Hm Hvis Hrs.
    destruct (skip_next_cut_section_not_eof hok o st c d m Hb Hm0 Hm Hvis) as (Hs & Hn).
    split.
    - destruct (next_block_trunc hok hdrdec o c d m Hb Hm0 Hm) as (e & Hne & He).
      exists e. split; [exact Hne|]. unfold brp_next. rewrite Hvis, He. reflexivity.
    - destruct (brp_skip o st) as [[md st']|e] eqn:E.
      + exfalso. destruct (brp_skip_whole_section o st md st' Hrs E) as (l & rest & n & Hl & Hle).
        rewrite Hvis in Hl. destruct (block_ok_len _ _ _ Hb) as [H2 H63].
        destruct Hb as (_ & Hmax & _). cbn [fst snd] in Hmax.
        unfold enc_section in Hl, Hm. rewrite !blen_app, blen_put_uv in Hm.
        destruct (N.ltb_spec m (uv_size (blen c + blen d))) as [Hlt|Hge].
        * rewrite take_app_le in Hl by (rewrite blen_put_uv; lia).
          unfold ld_read_size in Hl. rewrite read_uv_put_uv_trunc in Hl by assumption. discriminate.
        * rewrite take_app_ge in Hl by (rewrite blen_put_uv; lia). rewrite blen_put_uv in Hl.
          rewrite ld_read_size_put in Hl by (try assumption; intros _; lia).
          inversion Hl; subst. rewrite blen_take, blen_app in Hle. lia.
      + exists e. split; [|reflexivity]. intros ->. apply Hs. reflexivity.
  Qed.

  (* the walk over whole sections followed by a cut one *)
  Lemma brp_walk_cut o c d m : block_ok (o_maxs o) (c, d) -> 0 < m -> m < blen (enc_section c d) ->
    forall w bs st pre,
    blocks_ok hok o bs ->
    at_bytes st pre (enc_sections bs ++ take m (enc_section c d)) [] -> p_off st = blen pre -> rsize_inv st ->
    map step_cid (fst (brp_walk hok o w st)) = firstn (length (fst (brp_walk hok o w st))) (map fst bs) /\
    (length (fst (brp_walk hok o w st)) <= length bs)%nat /\
    fst (snd (brp_walk hok o w st)) <> Some EEof /\
    ((length (fst (brp_walk hok o w st)) < length w)%nat ->
       exists e, e <> EEof /\ fst (snd (brp_walk hok o w st)) = Some e).
  Proof.
    intros Hb Hm0 Hm. induction w as [|ch w IH]; intros bs st pre Hbs Hat Hoff Hrs.
    - cbn. repeat split; try lia; discriminate.
    - destruct bs as [|[c1 d1] bs].
      + (* the cut section is next: the call fails, not with EOF *)
        change (enc_sections [] ++ take m (enc_section c d)) with (take m (enc_section c d)) in Hat.
        pose proof (vis_at _ _ _ _ Hat) as Hvis.
        destruct (cut_section_calls_fail o st c d m Hb Hm0 Hm Hvis (rsize_inv_ok st Hrs))
          as ((e1 & Hne1 & He1) & (e2 & Hne2 & He2)).
        destruct ch; cbn [brp_walk]; [rewrite He1|rewrite He2]; cbn [fst snd length map firstn].
        * repeat split; try lia; [congruence|]. intros _. exists e1. split; [exact Hne1|reflexivity].
        * repeat split; try lia; [congruence|]. intros _. exists e2. split; [exact Hne2|reflexivity].
      + destruct Hbs as (Hok & Hst & Hh).
        inversion Hok as [|? ? Hb1 Hok']; subst. inversion Hst as [|? ? Hs1 Hst']; subst. cbn [fst] in Hs1.
        assert (Hbs' : blocks_ok hok o bs).
        { split; [exact Hok'|split; [exact Hst'|]]. intros Ht. specialize (Hh Ht). inversion Hh; assumption. }
        change (enc_sections ((c1, d1) :: bs)) with (enc_section c1 d1 ++ enc_sections bs) in Hat.
        rewrite <- app_assoc in Hat.
        destruct ch; cbn [brp_walk].
        * destruct (brp_next_at hok o st pre c1 d1 _ [] Hat Hoff Hb1) as (st' & Hn & Hat' & Hoff' & _ & _ & Hrs').
          { intros Ht. specialize (Hh Ht). inversion Hh; assumption. }
          rewrite Hn. cbn [fst snd].
          destruct (IH bs st' (pre ++ enc_section c1 d1) Hbs' Hat' Hoff' (Hrs' Hrs)) as (I1 & I2 & I3 & I4).
          cbn [length map firstn step_cid fst]. split; [rewrite I1; reflexivity|].
          split; [lia|]. split; [exact I3|]. intros Hl. apply I4. lia.
        * destruct (brp_skip_at hok o st pre c1 d1 _ [] Hat Hoff Hb1 Hs1 Hrs) as (st' & Hn & Hat' & Hoff' & _ & _ & Hrs').
          rewrite Hn. cbn [fst snd].
          destruct (IH bs st' (pre ++ enc_section c1 d1) Hbs' Hat' Hoff' Hrs') as (I1 & I2 & I3 & I4).
          cbn [length map firstn step_cid m_cid fst]. split; [rewrite I1; reflexivity|].
          split; [lia|]. split; [exact I3|]. intros Hl. apply I4. lia.
  Qed.

  (* a non-boundary cut inside the sections, as whole sections followed by a cut one *)
  Lemma cut_decompose : forall bs m, m < blen (enc_sections bs) -> ~ boundary bs m ->
    exists j c d m', nth_error bs j = Some (c, d) /\ 0 < m' /\ m' < blen (enc_section c d) /\
      take m (enc_sections bs) = enc_sections (firstn j bs) ++ take m' (enc_section c d).
  Proof.
    induction bs as [|[c d] bs IH]; intros m Hm Hnb.
    - cbn in Hm. lia.
    - rewrite enc_sections_cons in *. cbn [fst snd] in *.
      destruct (N.ltb_spec m (blen (enc_section c d))) as [Hlt|Hge].
      + exists 0%nat, c, d, m. split; [reflexivity|].
        assert (0 < m).
        { destruct (N.eq_dec m 0) as [->|]; [|lia]. exfalso. apply Hnb. exists 0%nat. split; [cbn; lia|reflexivity]. }
        split; [assumption|]. split; [exact Hlt|]. rewrite take_app_le by lia. reflexivity.
      + destruct (IH (m - blen (enc_section c d))) as (j & c' & d' & m' & Hn & H0 & Hl & Ht).
        * rewrite blen_app in Hm. lia.
        * intros (j & Hj & Hmj). apply Hnb. exists (S j). split; [cbn; lia|].
          cbn [firstn]. rewrite enc_sections_cons. cbn [fst snd]. rewrite blen_app. lia.
        * exists (S j), c', d', m'. split; [exact Hn|]. split; [exact H0|]. split; [exact Hl|].
          rewrite take_app_ge by lia. rewrite Ht. cbn [firstn]. rewrite enc_sections_cons. cbn [fst snd].
          rewrite <- app_assoc. reflexivity.
  Qed.

  Lemma Forall_firstn {A} (P : A -> Prop) (l : list A) j : Forall P l -> Forall P (firstn j l).
  Proof.
    intros H. revert j. induction H as [|a l Ha Hl IH]; intros [|j]; cbn [firstn]; constructor; auto.
  Qed.
  Lemma Forall_nth {A} (P : A -> Prop) (l : list A) j x : Forall P l -> nth_error l j = Some x -> P x.
  Proof. intros H Hn. rewrite Forall_forall in H. apply H. eapply nth_error_In. exact Hn. Qed.

  (* (3): NewBlockReader + any walk over a CARv1 cut anywhere but on a section boundary *)
  Theorem brp_run_trunc_v1 o seek roots bs k w :
    hdr_good hdrdec roots -> blen (enc_header (Some roots) 1) <= o_maxh o ->
    blen (enc_header (Some roots) 1) < two63 ->
    Forall (block_ok (o_maxs o)) bs -> Forall (fun b => cid_stream_ok (fst b)) bs ->
    (o_trusted o = false -> Forall (hash_good hok) bs) ->
    k < blen (enc_payload roots bs) ->
    ~ (exists j, (j <= length bs)%nat /\
                 k = blen (ld (enc_header (Some roots) 1)) + blen (enc_sections (firstn j bs))) ->
    (k < blen (ld (enc_header (Some roots) 1)) /\
       exists e, brp_run hok hdrdec o seek (take k (enc_payload roots bs)) w = Err e)
    \/ (blen (ld (enc_header (Some roots) 1)) <= k /\
        exists j st0 steps e fin, (j < length bs)%nat /\
          blen (ld (enc_header (Some roots) 1)) + blen (enc_sections (firstn j bs)) < k /\
          brp_run hok hdrdec o seek (take k (enc_payload roots bs)) w = Ok (1, roots, st0, (steps, (e, fin))) /\
          (length steps <= j)%nat /\
          map step_cid steps = firstn (length steps) (map fst bs) /\
          e <> Some EEof /\
          ((length steps < length w)%nat -> exists e', e' <> EEof /\ e = Some e')).
  Proof.
    intros Hg Hmax H63 Hok Hst Hh Hk Hnb. unfold enc_payload in *.
    set (hb := enc_header (Some roots) 1) in *.
    destruct (N.ltb_spec k (blen (ld hb))) as [Hlt|Hge].
    - left. split; [exact Hlt|]. rewrite take_app_le by lia.
      destruct (read_header_trunc hok hdrdec (o_maxh o) hb k H63 (enc_header_nonempty _ _) Hlt) as (e & He).
      exists e. unfold brp_run, brp_open. rewrite He. reflexivity.
    - right. split; [exact Hge|]. rewrite take_app_ge by lia.
      destruct (cut_decompose bs (k - blen (ld hb))) as (j & c & d & m' & Hn & H0 & Hl & Ht).
      { rewrite blen_app in Hk. lia. }
      { intros (j & Hj & Hmj). apply Hnb. exists j. split; [exact Hj|]. lia. }
      rewrite Ht.
      assert (Hjl : (j < length bs)%nat) by (apply nth_error_Some; congruence).
      assert (Hbc : block_ok (o_maxs o) (c, d)) by (eapply Forall_nth; eassumption).
      set (x := enc_sections (firstn j bs) ++ take m' (enc_section c d)).
      set (st0 := mkbrp (ld hb ++ x) seek (ld_size (blen hb)) (ld_size (blen hb)) None (header_size roots 1) 0 None).
      assert (Hopen : brp_open hdrdec o seek (ld hb ++ x) = Ok (1, roots, st0)).
      { unfold brp_open. unfold hb. rewrite (read_header_payload hdrdec (o_maxh o) roots x Hg Hmax H63).
        reflexivity. }
      assert (Hat : at_bytes st0 (ld hb) x []).
      { unfold at_bytes, st0. cbn [p_all p_pos p_lim]. rewrite app_nil_r, blen_ld. repeat split. }
      assert (Hbs : blocks_ok hok o (firstn j bs)).
      { split; [apply Forall_firstn; exact Hok|]. split; [apply Forall_firstn; exact Hst|].
        intros T. apply Forall_firstn. exact (Hh T). }
      destruct (brp_walk_cut o c d m' Hbc H0 Hl w (firstn j bs) st0 (ld hb) Hbs Hat) as (W1 & W2 & W3 & W4).
      { unfold st0, header_size. cbn [p_off]. rewrite blen_ld. reflexivity. }
      { unfold rsize_inv, st0. cbn [p_rsize]. exact I. }
      exists j, st0, (fst (brp_walk hok o w st0)), (fst (snd (brp_walk hok o w st0))), (snd (snd (brp_walk hok o w st0))).
      split; [exact Hjl|]. split.
      { assert (Hb' : blen (take (k - blen (ld hb)) (enc_sections bs)) = k - blen (ld hb)).
        { rewrite blen_take. rewrite blen_app in Hk. lia. }
        rewrite Ht, blen_app, blen_take in Hb'. lia. }
      split.
      { unfold brp_run. rewrite Hopen. destruct (brp_walk hok o w st0) as [s [e f]]. reflexivity. }
      rewrite firstn_length in W2. split; [lia|]. split.
      { rewrite W1. rewrite <- firstn_map. rewrite firstn_firstn. f_equal. lia. }
      split; [exact W3|exact W4].
  Qed.
End Walk.

(* ---- non-vacuity ----------------------------------------------------------------------------------- *)
(* a 2-byte length varint cut after its first byte, under ZeroLengthSectionAsEOF: an error, not EOF *)
Example ex_cut_inside_varint :
  next_block ex_hok (mkropts true 33554432 8388608 false) (take 1 (put_uv 200)) = Err EUnexpectedEof.
Proof. vm_compute. reflexivity. Qed.
(* overflowing and non-minimal length prefixes, same options *)
Example ex_overflow_prefix :
  next_block ex_hok (mkropts true 33554432 8388608 false)
    [xff; xff; xff; xff; xff; xff; xff; xff; xff; xff; x01] = Err EOther.
Proof. vm_compute. reflexivity. Qed.
Example ex_nonminimal_prefix :
  next_block ex_hok (mkropts true 33554432 8388608 false) [xc8; x81; x00; x01] = Err EOther.
Proof. vm_compute. reflexivity. Qed.
(* the clean ends *)
Example ex_clean_end_zeof :
  next_block ex_hok (mkropts true 33554432 8388608 false) [x00; x00] = Err EEof.
Proof. vm_compute. reflexivity. Qed.
Example ex_root_zero_section : next_block_root ex_hok [x00; x01] = Err EEof.
Proof. vm_compute. reflexivity. Qed.

Example ex_stream_cids : Forall (fun b => cid_stream_ok (fst b)) ex_blocks.
Proof.
  repeat constructor.
  - exists (mkcid 1 85 0 [x61; x62]). split; [right; vm_compute; repeat split; try reflexivity; discriminate|].
    split; [vm_compute; discriminate|reflexivity].
  - exists (mkcid 1 113 0 [x63]). split; [right; vm_compute; repeat split; try reflexivity; discriminate|].
    split; [vm_compute; discriminate|reflexivity].
Qed.

(* SkipNext, SkipNext over the example archive cut one byte before its end, seekable and plain source *)
Example ex_walk_cut_runs :
  forall seek, exists st0 s1 fin,
    brp_run ex_hok dec_header_canon default_ropts seek
      (take (blen (enc_payload [ex_cid1] ex_blocks) - 1) (enc_payload [ex_cid1] ex_blocks)) [false; false]
    = Ok (1, [ex_cid1], st0, ([s1], (Some EUnexpectedEof, fin))) /\ step_cid s1 = ex_cid1.
Proof. intros [|]; eexists; eexists; eexists; split; vm_compute; reflexivity. Qed.

(* ---- statements of props/C02.v --------------------------------------------------------------------- *)
Theorem next_eof_clean_both hok :
  (forall o s, next_block hok o s = Err EEof ->
     s = [] \/ (o_zeof o = true /\ exists rest n, read_uv s = VOk 0 rest n)) /\
  (forall s, next_block_root hok s = Err EEof -> s = [] \/ exists rest, ld_read_root s = Ok ([], rest)).
Proof. split; [apply next_block_eof_clean|apply next_block_root_eof_clean]. Qed.

Theorem calls_return_whole_sections hok o st :
  (forall b st', brp_next hok o st = Ok (b, st') ->
     exists l rest n, ld_read_size (o_zeof o) (o_maxs o) (vis st) = Ok (l, rest, n) /\ l <= blen rest) /\
  (forall m st',
     (p_lim st = None -> p_rsize st = None \/ p_rsize st = Some (blen (p_all st))) ->
     brp_skip o st = Ok (m, st') ->
     exists l rest n, ld_read_size (o_zeof o) (o_maxs o) (vis st) = Ok (l, rest, n) /\ l <= blen rest).
Proof.
  split; [intros b st'; apply brp_next_whole_section|intros m st'; apply brp_skip_whole_section].
Qed.
