(* C13, round 3b: calls on one Reader do not depend on the calls made before.  The only state is
   the roots cache of Roots(); it always holds what a fresh Roots() would return, and Inspect
   does not read it. *)
From GoCar Require Import Bytes Varint Cid Header Frame V2Header Scan Inspect.

Section Oracles.
  Variable hok : bytes -> bytes -> option bool.
  Variable hdrdec : bytes -> option (list bytes * N).

  (* the cache, when filled, is what Roots() on a fresh Reader returns *)
  Definition cache_ok (o : ropts) (file : bytes) (rd : rdr) (st : rstate) : Prop :=
    rs_rd st = rd /\
    match rs_cache st with
    | None => True
    | Some roots => fst (reader_roots_st hdrdec o file (fresh_reader rd)) = Ok roots
    end.

  Lemma rstep_fresh o file rd st op : cache_ok o file rd st ->
    fst (rstep hok hdrdec o file st op) = fst (rstep hok hdrdec o file (fresh_reader rd) op) /\
    cache_ok o file rd (snd (rstep hok hdrdec o file st op)).
  Proof.
    intros (Hrd & Hc). destruct st as [rd' cache]. cbn [rs_rd rs_cache] in *. subst rd'.
    unfold fresh_reader in *. destruct op; cbn [rstep rs_rd].
    - destruct (reader_roots_st hdrdec o file (mkrstate rd cache)) as [r1 s1] eqn:E1.
      destruct (reader_roots_st hdrdec o file (mkrstate rd None)) as [r2 s2] eqn:E2.
      cbn [fst snd]. unfold reader_roots_st in E1, E2, Hc. cbn [rs_cache rs_rd fresh_reader] in E1, E2, Hc.
      destruct (read_header hdrdec (o_maxh o) (data_window rd file)) as [[[[r v] rest] u]|e] eqn:E.
      + inversion E2; subst r2 s2. cbn [fst] in Hc.
        destruct cache as [roots|].
        * cbn [fst] in Hc. inversion E1; subst r1 s1. split; [congruence|]. split; [reflexivity|]. cbn [rs_cache fst]. unfold reader_roots_st. cbn [rs_cache rs_rd fresh_reader]. rewrite E. exact Hc.
        * inversion E1; subst r1 s1. split; [reflexivity|]. split; [reflexivity|]. cbn [rs_cache].
          destruct r; [exact I|]. unfold reader_roots_st. cbn [rs_cache rs_rd fresh_reader]. rewrite E. reflexivity.
      + inversion E2; subst r2 s2. cbn [fst] in Hc.
        destruct cache as [roots|]; [cbn [fst] in Hc; discriminate|].
        inversion E1; subst r1 s1. split; [reflexivity|]. split; [reflexivity|exact I].
    - cbn [fst snd]. split; [reflexivity|split; [reflexivity|exact Hc]].
    - cbn [fst snd]. split; [reflexivity|split; [reflexivity|exact Hc]].
    - cbn [fst snd]. split; [reflexivity|split; [reflexivity|exact Hc]].
  Qed.

  Lemma fresh_cache_ok o file rd : cache_ok o file rd (fresh_reader rd).
  Proof. split; [reflexivity|exact I]. Qed.

  (* every call of a history returns what the same call returns on a fresh Reader *)
  Theorem rrun_history_independent o file rd : forall ops st, cache_ok o file rd st ->
    fst (rrun hok hdrdec o file st ops)
    = map (fun op => fst (rstep hok hdrdec o file (fresh_reader rd) op)) ops /\
    cache_ok o file rd (snd (rrun hok hdrdec o file st ops)).
  Proof.
    induction ops as [|op ops IH]; intros st Hst; cbn [rrun map]; [split; [reflexivity|exact Hst]|].
    destruct (rstep_fresh o file rd st op Hst) as (H1 & H2).
    destruct (rstep hok hdrdec o file st op) as [out st'] eqn:E. cbn [fst snd] in *.
    destruct (IH st' H2) as (H3 & H4).
    destruct (rrun hok hdrdec o file st' ops) as [outs st''] eqn:E2. cbn [fst snd] in *.
    split; [rewrite H1, H3; reflexivity|exact H4].
  Qed.

  (* in particular Inspect after any history is [inspect] of the bytes and options *)
  Theorem inspect_after_history o file rd ops v :
    fst (rstep hok hdrdec o file (snd (rrun hok hdrdec o file (fresh_reader rd) ops)) (OInspect v))
    = RInspect (inspect hok hdrdec o rd file v) /\
    fst (rrun hok hdrdec o file (fresh_reader rd) ops)
    = map (fun op => fst (rstep hok hdrdec o file (fresh_reader rd) op)) ops.
  Proof.
    destruct (rrun_history_independent o file rd ops (fresh_reader rd) (fresh_cache_ok o file rd)) as (H1 & H2).
    split; [|exact H1].
    destruct (rstep_fresh o file rd _ (OInspect v) H2) as (H3 & _). rewrite H3. reflexivity.
  Qed.
End Oracles.
