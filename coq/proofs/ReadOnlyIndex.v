(* C07: what a lookup in an index built by Load (and written / read back) returns.
   Self-contained facts about Index.v's mwi_load / mh_load / *_getall / marshal / unmarshal, in the
   form ReadOnlyRefine needs (idx_correct): GetAll yields only offsets of loaded records, and the
   offset of every loaded record carrying the key's multihash. *)
From Coq Require Import Sorting.Sorted Permutation.
From GoCar Require Import Bytes Varint Cid Header Frame V2Header Scan Index Store ReadOnly.
From GoCarProofs Require Import BytesFacts VarintFacts CidFacts StoreInv ReadOnlyFacts ReadOnlyRefine.

(* ---- ordered association lists ------------------------------------------------------------------- *)
Lemma kv_get_put {A} k (v : A) m k' :
  kv_get k' (kv_put k v m) = if k' =? k then Some v else kv_get k' m.
Proof.
  induction m as [|[k0 v0] t IH]; cbn [kv_put kv_get].
  - destruct (k' =? k); reflexivity.
  - destruct (k <? k0) eqn:E1.
    + cbn [kv_get]. destruct (k' =? k) eqn:E; reflexivity.
    + destruct (k =? k0) eqn:E2.
      * cbn [kv_get]. destruct (k' =? k) eqn:E; [reflexivity|].
        replace (k' =? k0) with false by lia. reflexivity.
      * cbn [kv_get]. destruct (k' =? k0) eqn:E3.
        -- replace (k' =? k) with false by lia. reflexivity.
        -- exact IH.
Qed.

Definition keys_lt {A} (k : N) (m : list (N * A)) : Prop := Forall (fun e => fst e < k) m.
Definition kv_sorted {A} (m : list (N * A)) : Prop := StronglySorted (fun a b => fst a < fst b) m.

Lemma kv_put_end {A} k (v : A) m : keys_lt k m -> kv_put k v m = m ++ [(k, v)].
Proof.
  induction m as [|[k0 v0] t IH]; intros H; [reflexivity|].
  pose proof (Forall_inv H) as H0. pose proof (Forall_inv_tail H) as Ht. cbn [fst] in H0.
  cbn [kv_put app]. replace (k <? k0) with false by lia. replace (k =? k0) with false by lia.
  rewrite IH by exact Ht. reflexivity.
Qed.

Lemma kv_put_keys {A} k (v : A) m e : In e (kv_put k v m) -> fst e = k \/ In e m.
Proof.
  induction m as [|[k0 v0] t IH]; cbn [kv_put].
  - intros [<-|[]]. left. reflexivity.
  - destruct (k <? k0).
    + intros [<-|H]; [left; reflexivity|right; exact H].
    + destruct (k =? k0).
      * intros [<-|H]; [left; reflexivity|right; right; exact H].
      * intros [<-|H]; [right; left; reflexivity|]. destruct (IH H); [left|right; right]; assumption.
Qed.

Lemma kv_put_sorted {A} k (v : A) m : kv_sorted m -> kv_sorted (kv_put k v m).
Proof.
  unfold kv_sorted. induction 1 as [|[k0 v0] t Hs IH Hall]; cbn [kv_put].
  - constructor; constructor.
  - destruct (k <? k0) eqn:E1.
    + constructor; [constructor; assumption|]. constructor; [cbn; lia|].
      rewrite Forall_forall in *. intros e He. specialize (Hall e He). cbn [fst] in *. lia.
    + destruct (k =? k0) eqn:E2.
      * assert (k = k0) by lia. subst k0. constructor; assumption.
      * constructor; [exact IH|]. rewrite Forall_forall in *. intros e He.
        destruct (kv_put_keys _ _ _ _ He) as [Hk|Hin]; cbn [fst]; [lia|apply Hall; exact Hin].
Qed.

(* fold of kv_put over an ascending list of (key, value) appends *)
Lemma fold_put_sorted {A B} (F : B -> A) (G : list (N * B)) : forall m0,
  kv_sorted (m0 ++ map (fun g => (fst g, F (snd g))) G) ->
  fold_left (fun acc g => kv_put (fst g) (F (snd g)) acc) G m0 = m0 ++ map (fun g => (fst g, F (snd g))) G.
Proof.
  induction G as [|[k b] G IH]; intros m0 Hs; cbn [fold_left map fst snd]; [rewrite app_nil_r; reflexivity|].
  cbn [map fst snd] in Hs.
  assert (Hlt : keys_lt k m0).
  { unfold kv_sorted in Hs. clear IH. induction m0 as [|e m0 IHm]; [constructor|].
    cbn [app] in Hs. inversion Hs as [|? ? Hs' Hall]; subst. constructor.
    - rewrite Forall_forall in Hall. apply (Hall (k, F b)). apply in_or_app. right. left. reflexivity.
    - apply IHm. exact Hs'. }
  rewrite (kv_put_end k (F b) m0 Hlt). rewrite IH.
  - rewrite <- app_assoc. reflexivity.
  - rewrite <- app_assoc. exact Hs.
Qed.

Lemma kv_get_map {A B} (F : B -> A) (G : list (N * B)) k :
  kv_get k (map (fun g => (fst g, F (snd g))) G) = option_map F (kv_get k G).
Proof.
  induction G as [|[k0 b] G IH]; [reflexivity|]. cbn [map kv_get fst snd].
  destruct (k =? k0); [reflexivity|exact IH].
Qed.

Lemma kv_sorted_map {A B} (F : B -> A) (G : list (N * B)) :
  kv_sorted G -> kv_sorted (map (fun g => (fst g, F (snd g))) G).
Proof.
  unfold kv_sorted. induction 1 as [|g G Hs IH Hall]; cbn [map]; constructor; [exact IH|].
  rewrite Forall_forall in *. intros e He. apply in_map_iff in He. destruct He as (x & <- & Hx). cbn [fst].
  apply Hall. exact Hx.
Qed.

(* ---- group_by -------------------------------------------------------------------------------------- *)
Section GroupBy.
  Context {A : Type} (key : A -> N).
  Definition with_key (k : N) (xs : list A) : list A := filter (fun x => key x =? k) xs.

  Lemma kv_snoc_get k x (m : list (N * list A)) k' :
    kv_get k' (kv_snoc k x m) =
    if k' =? k then Some (match kv_get k m with Some l => l ++ [x] | None => [x] end) else kv_get k' m.
  Proof. unfold kv_snoc. destruct (kv_get k m); rewrite kv_get_put; reflexivity. Qed.

  Lemma kv_snoc_sorted k x (m : list (N * list A)) : kv_sorted m -> kv_sorted (kv_snoc k x m).
  Proof. intros H. unfold kv_snoc. destruct (kv_get k m); apply kv_put_sorted; exact H. Qed.

  Lemma group_fold_get xs : forall (m : list (N * list A)) k,
    kv_get k (fold_left (fun m x => kv_snoc (key x) x m) xs m) =
    match kv_get k m with
    | Some l => Some (l ++ with_key k xs)
    | None => match with_key k xs with [] => None | l => Some l end
    end.
  Proof.
    induction xs as [|x xs IH]; intros m k; cbn [fold_left with_key filter].
    - destruct (kv_get k m); [rewrite app_nil_r|]; reflexivity.
    - rewrite IH, kv_snoc_get. fold (with_key k xs). destruct (k =? key x) eqn:E.
      + assert (k = key x) by lia. subst k. replace (key x =? key x) with true by lia.
        destruct (kv_get (key x) m); [rewrite <- app_assoc|]; reflexivity.
      + replace (key x =? k) with false by lia. reflexivity.
  Qed.

  Lemma group_by_get xs k :
    kv_get k (group_by key xs) = match with_key k xs with [] => None | l => Some l end.
  Proof. unfold group_by. rewrite group_fold_get. reflexivity. Qed.

  Lemma group_fold_sorted xs : forall (m : list (N * list A)),
    kv_sorted m -> kv_sorted (fold_left (fun m x => kv_snoc (key x) x m) xs m).
  Proof.
    induction xs as [|x xs IH]; intros m H; cbn [fold_left]; [exact H|]. apply IH. apply kv_snoc_sorted. exact H.
  Qed.
  Lemma group_by_sorted xs : kv_sorted (group_by key xs).
  Proof. apply group_fold_sorted. constructor. Qed.

  (* every group is the sublist of its key, and is non-empty *)
  Lemma kv_sorted_get {B} (m : list (N * B)) e : kv_sorted m -> In e m -> kv_get (fst e) m = Some (snd e).
  Proof.
    unfold kv_sorted. induction 1 as [|[k0 v0] t Hs IH Hall]; intros Hin; [contradiction|].
    cbn [kv_get]. destruct Hin as [<-|Hin].
    - cbn [fst snd]. replace (k0 =? k0) with true by lia. reflexivity.
    - rewrite Forall_forall in Hall. specialize (Hall e Hin). cbn [fst] in Hall.
      replace (fst e =? k0) with false by lia. apply IH. exact Hin.
  Qed.

  Lemma group_by_in xs g : In g (group_by key xs) -> snd g = with_key (fst g) xs /\ snd g <> [].
  Proof.
    intros Hin. pose proof (kv_sorted_get _ g (group_by_sorted xs) Hin) as Hg.
    rewrite group_by_get in Hg. destruct (with_key (fst g) xs) eqn:E; [discriminate|].
    inversion Hg as [Hs]. split; [reflexivity|discriminate].
  Qed.
End GroupBy.

(* ---- compact buckets --------------------------------------------------------------------------------- *)
Definition rec0 : irec := mkrec [] 0 [] 0.
Definition enc_rec (r : irec) : bytes := r_digest r ++ le_enc 8 (r_off r).
Definition width_is (w : N) (L : list irec) : Prop := Forall (fun r => rec_width r = w) L.

Lemma compact_cons r L : compact (r :: L) = enc_rec r ++ compact L.
Proof. reflexivity. Qed.
Lemma blen_enc_rec r : blen (enc_rec r) = rec_width r.
Proof. unfold enc_rec, rec_width. rewrite blen_app, blen_le_enc8. reflexivity. Qed.

Lemma blen_compact w L : width_is w L -> blen (compact L) = N.of_nat (length L) * w.
Proof.
  induction 1 as [|r L Hr _ IH]; [reflexivity|]. rewrite compact_cons, blen_app, blen_enc_rec, IH, Hr.
  cbn [length]. lia.
Qed.

Lemma drop_compact w L : width_is w L -> forall k, (k <= length L)%nat ->
  drop (N.of_nat k * w) (compact L) = compact (skipn k L).
Proof.
  induction 1 as [|r L Hr Hall IH]; intros k Hk.
  - cbn in Hk. assert (k = 0)%nat by lia. subst. reflexivity.
  - destruct k as [|k]; [cbn [skipn]; rewrite N.mul_0_l; apply drop_0|].
    cbn [skipn]. rewrite compact_cons.
    replace (N.of_nat (S k) * w) with (blen (enc_rec r) + N.of_nat k * w) by (rewrite blen_enc_rec, Hr; lia).
    rewrite <- drop_drop, drop_app. apply IH. cbn in Hk. lia.
Qed.

Lemma skipn_nth {A} (d : A) L : forall k, (k < length L)%nat -> skipn k L = nth k L d :: skipn (S k) L.
Proof.
  induction L as [|x L IH]; intros k Hk; [cbn in Hk; lia|]. destruct k as [|k]; [reflexivity|].
  cbn [skipn nth]. apply IH. cbn in Hk. lia.
Qed.

Lemma swi_count_compact w L : 8 <= w -> width_is w L -> swi_count (w, compact L) = N.of_nat (length L).
Proof.
  intros Hw Hall. unfold swi_count. cbn [fst snd]. rewrite (blen_compact w L Hall). apply N.div_mul. lia.
Qed.

Lemma width_is_nth w L k : width_is w L -> (k < length L)%nat -> rec_width (nth k L rec0) = w.
Proof. intros H Hk. unfold width_is in H. rewrite Forall_forall in H. apply H. apply nth_In. exact Hk. Qed.

Lemma swi_digest_at_compact w L k : 8 <= w -> width_is w L -> (k < length L)%nat ->
  swi_digest_at (w, compact L) (N.of_nat k) = r_digest (nth k L rec0).
Proof.
  intros Hw Hall Hk. unfold swi_digest_at. cbn [fst snd].
  rewrite (drop_compact w L Hall k) by lia. rewrite (skipn_nth rec0 L k Hk), compact_cons.
  unfold enc_rec. rewrite <- app_assoc.
  pose proof (width_is_nth w L k Hall Hk) as Hwk. unfold rec_width in Hwk.
  replace (w - 8) with (blen (r_digest (nth k L rec0))) by lia. apply take_app.
Qed.

Lemma swi_off_at_compact w L k : 8 <= w -> width_is w L -> (k < length L)%nat ->
  r_off (nth k L rec0) < two64 ->
  swi_off_at (w, compact L) (N.of_nat k) = r_off (nth k L rec0).
Proof.
  intros Hw Hall Hk Ho. unfold swi_off_at. cbn [fst snd].
  rewrite <- drop_drop. rewrite (drop_compact w L Hall k) by lia. rewrite (skipn_nth rec0 L k Hk), compact_cons.
  unfold enc_rec. rewrite <- app_assoc.
  pose proof (width_is_nth w L k Hall Hk) as Hwk. unfold rec_width in Hwk.
  replace (w - 8) with (blen (r_digest (nth k L rec0))) by lia. rewrite drop_app.
  apply le8_roundtrip. exact Ho.
Qed.

(* ---- sort.Search ---------------------------------------------------------------------------------------- *)
Lemma search_f_spec (f : N -> bool) : forall fuel i j,
  i <= j -> j - i < 2 ^ N.of_nat fuel ->
  (forall x y, i <= x -> x <= y -> y < j -> f x = true -> f y = true) ->
  i <= search_f fuel f i j <= j /\ (forall x, i <= x -> x < search_f fuel f i j -> f x = false) /\
  (search_f fuel f i j < j -> f (search_f fuel f i j) = true).
Proof.
  induction fuel as [|k IH]; intros i j Hij Hf Hmono; cbn [search_f].
  - cbn in Hf. assert (i = j) by lia. subst. repeat split; try lia; intros; lia.
  - destruct (i <? j) eqn:E.
    + set (h := (i + j) / 2).
      assert (Hh : i <= h < j).
      { unfold h. split; [apply N.div_le_lower_bound; lia|apply N.div_lt_upper_bound; lia]. }
      assert (Hpow : 2 ^ N.of_nat (S k) = 2 * 2 ^ N.of_nat k) by (rewrite Nnat.Nat2N.inj_succ, N.pow_succ_r'; reflexivity).
      assert (Hh2 : 2 * h <= i + j /\ i + j < 2 * h + 2).
      { unfold h. pose proof (N.div_mod (i + j) 2 ltac:(lia)). pose proof (N.mod_lt (i + j) 2 ltac:(lia)). lia. }
      destruct (f h) eqn:Efh.
      * assert (M1 : forall x y, i <= x -> x <= y -> y < h -> f x = true -> f y = true)
          by (intros x y H1 H2 H3; apply Hmono; lia).
        destruct (IH i h ltac:(lia) ltac:(lia) M1) as (R1 & R2 & R3).
        repeat split; try lia; [exact R2|].
        intros Hr. destruct (N.eq_dec (search_f k f i h) h) as [->|Hne]; [exact Efh|apply R3; lia].
      * assert (M1 : forall x y, h + 1 <= x -> x <= y -> y < j -> f x = true -> f y = true)
          by (intros x y H1 H2 H3; apply Hmono; lia).
        destruct (IH (h + 1) j ltac:(lia) ltac:(lia) M1) as (R1 & R2 & R3).
        repeat split; try lia; [|exact R3].
        intros x H1 H2. destruct (x <=? h) eqn:Exh.
        -- destruct (f x) eqn:Efx; [|reflexivity]. assert (Hfh : f h = true) by (apply (Hmono x h); try lia; exact Efx). congruence.
        -- apply R2; lia.
    + repeat split; try lia; intros; lia.
Qed.

(* ---- singleWidthIndex.getAll over a sorted compact bucket ------------------------------------------------ *)
Lemma bytes_leb_antisym a b : bytes_leb a b = true -> bytes_leb b a = true -> a = b.
Proof.
  unfold bytes_leb. rewrite (bytes_cmp_antisym a b). destruct (bytes_cmp a b) eqn:E; cbn [CompOpp]; try discriminate.
  intros _ _. apply bytes_cmp_eq. exact E.
Qed.
Lemma bytes_leb_trans a b c : bytes_leb a b = true -> bytes_leb b c = true -> bytes_leb a c = true.
Proof.
  intros H1 H2. destruct (bytes_ltb a b) eqn:E.
  - apply bytes_lt_le. eapply bytes_lt_le_trans; eassumption.
  - apply bytes_nlt_le in E. pose proof (bytes_leb_antisym a b H1 E). subst. exact H2.
Qed.

Lemma scan_eq_sound b d : forall fuel idx off,
  In off (swi_scan_eq fuel b d idx) ->
  exists k, idx <= k /\ k < swi_count b /\ swi_digest_at b k = d /\ swi_off_at b k = off.
Proof.
  induction fuel as [|f IH]; intros idx off Hin; cbn [swi_scan_eq] in Hin; [contradiction|].
  destruct (idx <? swi_count b) eqn:E1; [|contradiction].
  destruct (bytes_eqb d (swi_digest_at b idx)) eqn:E2; [|contradiction].
  apply bytes_eqb_eq in E2. destruct Hin as [<-|Hin].
  - exists idx. repeat split; try lia. symmetry. exact E2.
  - destruct (IH (idx + 1) off Hin) as (k & H1 & H2 & H3 & H4). exists k. repeat split; try assumption. lia.
Qed.

Lemma scan_eq_complete b d : forall fuel idx k,
  idx <= k -> k < swi_count b -> (N.to_nat (k - idx) < fuel)%nat ->
  (forall m, idx <= m -> m <= k -> swi_digest_at b m = d) ->
  In (swi_off_at b k) (swi_scan_eq fuel b d idx).
Proof.
  induction fuel as [|f IH]; intros idx k H1 H2 Hf Hall; [lia|]. cbn [swi_scan_eq].
  replace (idx <? swi_count b) with true by lia.
  rewrite (Hall idx) by lia. rewrite bytes_eqb_refl.
  destruct (N.eq_dec idx k) as [->|Hne]; [left; reflexivity|].
  right. apply IH; try lia. intros m Hm1 Hm2. apply Hall; lia.
Qed.

Definition digests_sorted (L : list irec) : Prop :=
  forall i j, (i <= j)%nat -> (j < length L)%nat ->
    bytes_leb (r_digest (nth i L rec0)) (r_digest (nth j L rec0)) = true.

Lemma ii_sorted_digests L : ii_sorted L -> digests_sorted L.
Proof.
  unfold ii_sorted, digests_sorted. induction 1 as [|x L Hs IH Hall]; intros i j Hij Hj; [cbn in Hj; lia|].
  destruct i as [|i], j as [|j]; cbn [nth].
  - apply bytes_leb_refl.
  - rewrite Forall_forall in Hall. apply Hall. apply nth_In. cbn in Hj. lia.
  - lia.
  - apply IH; cbn in Hj; lia.
Qed.

Opaque search_f.
Lemma swi_getall_spec w L d off :
  8 <= w -> width_is w L -> digests_sorted L -> Forall (fun r => r_off r < two64) L ->
  N.of_nat (length L) < 2 ^ 69 ->
  (In off (swi_getall (w, compact L) d) <-> exists r, In r L /\ r_digest r = d /\ r_off r = off).
Proof.
  intros Hw Hall Hsorted Hoffs Hlen. unfold swi_getall. cbn [snd].
  pose proof (swi_count_compact w L Hw Hall) as Hcount. rewrite Hcount.
  set (n := N.of_nat (length L)) in *.
  set (b := (w, compact L)) in *.
  set (f := fun i => bytes_leb d (swi_digest_at b i)).
  assert (Hdig : forall k, (k < length L)%nat -> swi_digest_at b (N.of_nat k) = r_digest (nth k L rec0))
    by (intros k Hk; apply swi_digest_at_compact; assumption).
  assert (Hoff : forall k, (k < length L)%nat -> swi_off_at b (N.of_nat k) = r_off (nth k L rec0)).
  { intros k Hk. apply swi_off_at_compact; try assumption. rewrite Forall_forall in Hoffs. apply Hoffs. apply nth_In. exact Hk. }
  assert (Hmono : forall x y, 0 <= x -> x <= y -> y < n -> f x = true -> f y = true).
  { intros x y _ Hxy Hy Hfx. unfold f in *.
    replace x with (N.of_nat (N.to_nat x)) in Hfx by lia. replace y with (N.of_nat (N.to_nat y)) by lia.
    rewrite Hdig in * by (unfold n in *; lia).
    eapply bytes_leb_trans; [exact Hfx|]. apply Hsorted; unfold n in *; lia. }
  assert (H70 : n - 0 < 2 ^ N.of_nat 70).
  { change (N.of_nat 70) with 70. assert (2 ^ 69 < 2 ^ 70) by (apply N.pow_lt_mono_r; lia). lia. }
  destruct (search_f_spec f 70 0 n ltac:(lia) H70 Hmono) as (R1 & R2 & R3).
  unfold sort_search.
  set (idx := search_f 70 f 0 n) in *.
  split.
  - intros Hin. destruct (scan_eq_sound b d _ idx off Hin) as (k & H1 & H2 & H3 & H4).
    rewrite Hcount in H2. fold n in H2.
    exists (nth (N.to_nat k) L rec0). split; [apply nth_In; unfold n in *; lia|].
    replace k with (N.of_nat (N.to_nat k)) in H3, H4 by lia.
    rewrite Hdig in H3 by (unfold n in *; lia). rewrite Hoff in H4 by (unfold n in *; lia). split; assumption.
  - intros (r & Hr & Hd & Ho). destruct (In_nth L r rec0 Hr) as (k & Hk & Hnth).
    assert (Hfk : f (N.of_nat k) = true).
    { unfold f. rewrite Hdig by exact Hk. rewrite Hnth, Hd. apply bytes_leb_refl. }
    assert (Hidx : idx <= N.of_nat k).
    { destruct (idx <=? N.of_nat k) eqn:E; [lia|]. rewrite R2 in Hfk by lia. discriminate. }
    rewrite <- Ho, <- Hnth, <- (Hoff k Hk).
    apply scan_eq_complete.
    + exact Hidx.
    + rewrite Hcount. unfold n. lia.
    + assert (N.of_nat (length L) * w = blen (compact L)) by (symmetry; apply blen_compact; exact Hall).
      unfold blen in H. nia.
    + intros m Hm1 Hm2.
      assert (Hm : (N.to_nat m < length L)%nat) by lia.
      replace m with (N.of_nat (N.to_nat m)) by lia. rewrite Hdig by exact Hm.
      apply bytes_leb_antisym.
      * rewrite <- Hd, <- Hnth. apply Hsorted; lia.
      * assert (Hfi : f idx = true) by (apply R3; unfold n; lia).
        unfold f in Hfi. replace idx with (N.of_nat (N.to_nat idx)) in Hfi by lia.
        rewrite Hdig in Hfi by lia. eapply bytes_leb_trans; [exact Hfi|]. apply Hsorted; lia.
Qed.

(* ---- multiWidthIndex / MultihashIndexSorted built by Load from scratch ------------------------------------ *)
Definition recs_ok (rs : list irec) : Prop :=
  Forall (fun r => r_off r < two64) rs /\ N.of_nat (length rs) < 2 ^ 69.

Lemma sort_by_digest_ii rs : sort_by_digest rs = ii_load rs [].
Proof. reflexivity. Qed.

Lemma mwi_load_nil rs :
  mwi_load rs [] = map (fun g => (fst g, compact (sort_by_digest (snd g)))) (group_by rec_width rs).
Proof.
  unfold mwi_load. rewrite (fold_put_sorted (fun l => compact (sort_by_digest l))); [reflexivity|].
  cbn [app]. apply (kv_sorted_map (fun l => compact (sort_by_digest l))). apply group_by_sorted.
Qed.

Lemma with_key_in {A} (key : A -> N) k xs x : In x (with_key key k xs) <-> In x xs /\ key x = k.
Proof. unfold with_key. rewrite filter_In. split; intros [H1 H2]; split; try assumption; lia. Qed.

Lemma filter_length_le {A} (f : A -> bool) l : (length (filter f l) <= length l)%nat.
Proof. induction l as [|x l IH]; cbn [filter length]; [lia|]. destruct (f x); cbn [length]; lia. Qed.

Lemma mwi_getall_spec rs d off : recs_ok rs ->
  (In off (mwi_getall (mwi_load rs []) d) <-> exists r, In r rs /\ r_digest r = d /\ r_off r = off).
Proof.
  intros [Hoffs Hlen]. unfold mwi_getall. rewrite mwi_load_nil, (kv_get_map (fun l => compact (sort_by_digest l))), group_by_get.
  set (w := blen d + 8).
  destruct (with_key rec_width w rs) as [|r0 l0] eqn:El; cbn [option_map].
  - split; [contradiction|]. intros (r & Hr & Hd & _).
    assert (Hin : In r (with_key rec_width w rs)) by (apply with_key_in; split; [exact Hr|unfold rec_width, w; rewrite Hd; reflexivity]).
    rewrite El in Hin. contradiction.
  - rewrite <- El. set (l := with_key rec_width w rs) in *.
    set (L := sort_by_digest l).
    assert (Hperm : Permutation L l) by (unfold L; rewrite sort_by_digest_ii; apply (ii_load_perm l [])).
    assert (Hsub : forall r, In r L <-> In r rs /\ rec_width r = w).
    { intros r. rewrite <- with_key_in. fold l. split; apply Permutation_in; [exact Hperm|symmetry; exact Hperm]. }
    rewrite (swi_getall_spec w L d off).
    + split; intros (r & Hr & Hd & Ho); exists r.
      * apply Hsub in Hr. tauto.
      * split; [|tauto]. apply Hsub. split; [exact Hr|unfold rec_width, w; rewrite Hd; reflexivity].
    + unfold w. lia.
    + unfold width_is. rewrite Forall_forall. intros r Hr. apply Hsub in Hr. tauto.
    + apply ii_sorted_digests. unfold L. rewrite sort_by_digest_ii. apply ii_load_sorted. constructor.
    + rewrite Forall_forall in *. intros r Hr. apply Hsub in Hr. apply Hoffs. tauto.
    + rewrite (Permutation_length Hperm). unfold l, with_key.
      pose proof (filter_length_le (fun x => rec_width x =? w) rs). lia.
Qed.

Lemma mh_load_nil rs :
  mh_load rs [] = map (fun g => (fst g, mwi_load (snd g) [])) (group_by r_code rs).
Proof.
  unfold mh_load. rewrite (fold_put_sorted (fun l => mwi_load l [])); [reflexivity|].
  cbn [app]. apply (kv_sorted_map (fun l => mwi_load l [])). apply group_by_sorted.
Qed.

Lemma mh_getall_spec rs code d off : recs_ok rs ->
  (In off (mh_getall (mh_load rs []) code d) <->
   exists r, In r rs /\ r_code r = code /\ r_digest r = d /\ r_off r = off).
Proof.
  intros [Hoffs Hlen]. unfold mh_getall. rewrite mh_load_nil, (kv_get_map (fun l => mwi_load l [])), group_by_get.
  destruct (with_key r_code code rs) as [|r0 l0] eqn:El; cbn [option_map].
  - split; [contradiction|]. intros (r & Hr & Hc & _).
    assert (Hin : In r (with_key r_code code rs)) by (apply with_key_in; split; assumption).
    rewrite El in Hin. contradiction.
  - rewrite <- El. set (l := with_key r_code code rs) in *.
    rewrite (mwi_getall_spec l d off).
    + split; intros (r & Hr & H); exists r.
      * apply with_key_in in Hr. tauto.
      * split; [apply with_key_in|]; tauto.
    + split.
      * rewrite Forall_forall in *. intros r Hr. apply with_key_in in Hr. apply Hoffs. tauto.
      * unfold l, with_key. pose proof (filter_length_le (fun x => r_code x =? code) rs). lia.
Qed.

(* F1: a flat index freshly loaded from recs *)
Theorem flat_correct codec i0 recs :
  idx_new codec = Some i0 -> recs_ok recs -> idx_correct (RFlat (idx_load recs i0)) recs.
Proof.
  intros Hnew Hok. unfold idx_new in Hnew.
  destruct (codec =? codec_sorted); [|destruct (codec =? codec_mh_sorted); [|discriminate]];
    inversion Hnew; subst i0; cbn [idx_load]; split; cbn [ridx_getall idx_getall].
  - intros kp off Hin. apply (mwi_getall_spec recs _ off Hok) in Hin. destruct Hin as (r & Hr & _ & Ho). exists r. tauto.
  - intros kp r Hr _ Hd. apply (mwi_getall_spec recs _ _ Hok). exists r. tauto.
  - intros kp off Hin. apply (mh_getall_spec recs _ _ off Hok) in Hin. destruct Hin as (r & Hr & _ & _ & Ho). exists r. tauto.
  - intros kp r Hr Hc Hd. apply (mh_getall_spec recs _ _ _ Hok). exists r. tauto.
Qed.

(* F2: the insertion index storage.OpenReadable builds *)
Theorem ins_correct recs : idx_correct (RIns (ii_load recs [])) recs.
Proof.
  split; cbn [ridx_getall]; unfold ii_getall.
  - intros kp off Hin. rewrite ii_with_digest_load_nil in Hin. apply in_map_iff in Hin.
    destruct Hin as (r & Ho & Hr). apply filter_In in Hr. exists r. tauto.
  - intros kp r Hr _ Hd. rewrite ii_with_digest_load_nil. apply in_map. apply filter_In. split; [exact Hr|].
    unfold has_digest. rewrite Hd. apply bytes_eqb_refl.
Qed.

(* ---- Marshal / Unmarshal round trip ------------------------------------------------------------------------- *)
Lemma blen_le_enc4 n : blen (le_enc 4 n) = 4.
Proof. unfold blen. rewrite le_enc_length. reflexivity. Qed.
Lemma le4_roundtrip n rest : n < two32 -> le_dec (take 4 (le_enc 4 n ++ rest)) = n.
Proof.
  intros H. rewrite <- (blen_le_enc4 n) at 1. rewrite take_app. apply le_dec_enc.
  change (256 ^ N.of_nat 4) with two32. exact H.
Qed.

Definition bucket_ok (b : N * bytes) : Prop := 8 <= fst b <= max_width /\ blen (snd b) < two63.

Lemma swi_roundtrip b rest : bucket_ok b -> swi_unmarshal (swi_marshal b ++ rest) = Ok (b, rest).
Proof.
  intros [Hw Hl]. destruct b as [w data]. cbn [fst snd] in *. unfold swi_unmarshal, swi_marshal. cbn [fst snd].
  rewrite <- !app_assoc.
  replace (blen (le_enc 4 w ++ le_enc 8 (blen data) ++ data ++ rest) <? 4) with false
    by (rewrite !blen_app, blen_le_enc4; lia).
  rewrite le4_roundtrip by (unfold max_width, two32 in *; lia).
  assert (D4 : drop 4 (le_enc 4 w ++ le_enc 8 (blen data) ++ data ++ rest) = le_enc 8 (blen data) ++ data ++ rest)
    by (rewrite <- (blen_le_enc4 w) at 1; apply drop_app).
  rewrite D4.
  replace (blen (le_enc 8 (blen data) ++ data ++ rest) <? 8) with false by (rewrite !blen_app, blen_le_enc8; lia).
  rewrite le8_roundtrip by (unfold two63, two64 in *; lia).
  assert (D8 : drop 8 (le_enc 8 (blen data) ++ data ++ rest) = data ++ rest)
    by (rewrite <- (blen_le_enc8 (blen data)) at 1; apply drop_app).
  rewrite D8.
  replace (w <? 8) with false by lia. replace (max_width <? w) with false by lia.
  replace (two63 <=? blen data) with false by lia.
  replace ((0 <? blen data) && (blen (data ++ rest) =? 0)) with false by (rewrite blen_app; lia).
  replace (blen (data ++ rest) <? blen data) with false by (rewrite blen_app; lia).
  rewrite take_app, drop_app. reflexivity.
Qed.

Lemma swis_roundtrip : forall (bs : list (N * bytes)) m0 fuel rest,
  Forall bucket_ok bs -> kv_sorted (m0 ++ bs) -> (length bs < fuel)%nat ->
  swis_unmarshal fuel (N.of_nat (length bs)) (concat (map swi_marshal bs) ++ rest) m0 = Ok (m0 ++ bs, rest).
Proof.
  induction bs as [|b bs IH]; intros m0 fuel rest Hok Hs Hf.
  - destruct fuel; [cbn in Hf; lia|]. cbn. rewrite app_nil_r. reflexivity.
  - destruct fuel as [|f]; [cbn in Hf; lia|]. cbn [swis_unmarshal].
    replace (N.of_nat (length (b :: bs)) =? 0) with false by (cbn [length]; lia).
    cbn [map concat]. rewrite <- app_assoc.
    rewrite (swi_roundtrip b _ (Forall_inv Hok)).
    replace (N.of_nat (length (b :: bs)) - 1) with (N.of_nat (length bs)) by (cbn [length]; lia).
    assert (Hlt : keys_lt (fst b) m0).
    { unfold kv_sorted in Hs. clear -Hs. induction m0 as [|e m0 IHm]; [constructor|].
      cbn [app] in Hs. inversion Hs as [|? ? Hs' Hall]; subst. constructor.
      - rewrite Forall_forall in Hall. apply (Hall b). apply in_or_app. right. left. reflexivity.
      - apply IHm. exact Hs'. }
    rewrite (kv_put_end (fst b) (snd b) m0 Hlt). rewrite <- surjective_pairing.
    rewrite IH.
    + rewrite <- app_assoc. reflexivity.
    + exact (Forall_inv_tail Hok).
    + rewrite <- app_assoc. exact Hs.
    + cbn in Hf. lia.
Qed.

Definition mwi_ok (m : mwi) : Prop :=
  kv_sorted m /\ Forall bucket_ok m /\ N.of_nat (length m) < two31.

Lemma swi_marshal_len b : 12 <= blen (swi_marshal b).
Proof. unfold swi_marshal. rewrite !blen_app, blen_le_enc4, blen_le_enc8. lia. Qed.
Lemma concat_marshal_len (m : list (N * bytes)) : (length m <= length (concat (map swi_marshal m)))%nat.
Proof.
  induction m as [|b m IH]; cbn [map concat length]; [lia|]. rewrite app_length.
  pose proof (swi_marshal_len b) as H. unfold blen in H. lia.
Qed.

Lemma mwi_roundtrip m rest : mwi_ok m -> mwi_unmarshal (mwi_marshal m ++ rest) = Ok (m, rest).
Proof.
  intros (Hs & Hok & Hn). unfold mwi_unmarshal, mwi_marshal. rewrite <- app_assoc.
  replace (blen (le_enc 4 (N.of_nat (length m)) ++ concat (map swi_marshal m) ++ rest) <? 4) with false
    by (rewrite !blen_app, blen_le_enc4; lia).
  rewrite le4_roundtrip by (unfold two31, two32 in *; lia).
  replace (two31 <=? N.of_nat (length m)) with false by lia.
  assert (D4 : drop 4 (le_enc 4 (N.of_nat (length m)) ++ concat (map swi_marshal m) ++ rest) = concat (map swi_marshal m) ++ rest)
    by (rewrite <- (blen_le_enc4 (N.of_nat (length m))) at 1; apply drop_app).
  rewrite D4. apply (swis_roundtrip m []); [exact Hok|exact Hs|].
  rewrite !app_length. pose proof (concat_marshal_len m). lia.
Qed.

Definition mh_entry_ok (e : N * mwi) : Prop := fst e < two64 /\ mwi_ok (snd e).
Definition mh_entry_marshal (cm : N * mwi) : bytes := le_enc 8 (fst cm) ++ mwi_marshal (snd cm).

Lemma mwcis_roundtrip : forall (es : list (N * mwi)) m0 fuel rest,
  Forall mh_entry_ok es -> kv_sorted (m0 ++ es) -> (length es < fuel)%nat ->
  mwcis_unmarshal fuel (N.of_nat (length es)) (concat (map mh_entry_marshal es) ++ rest) m0 = Ok (m0 ++ es, rest).
Proof.
  induction es as [|e es IH]; intros m0 fuel rest Hok Hs Hf.
  - destruct fuel; [cbn in Hf; lia|]. cbn. rewrite app_nil_r. reflexivity.
  - destruct fuel as [|f]; [cbn in Hf; lia|]. cbn [mwcis_unmarshal].
    replace (N.of_nat (length (e :: es)) =? 0) with false by (cbn [length]; lia).
    cbn [map concat].
    replace (mh_entry_marshal e) with (le_enc 8 (fst e) ++ mwi_marshal (snd e)) by reflexivity.
    rewrite <- !app_assoc.
    destruct (Forall_inv Hok) as [Hc Hm].
    replace (blen (le_enc 8 (fst e) ++ mwi_marshal (snd e) ++ concat (map mh_entry_marshal es) ++ rest) <? 8)
      with false by (rewrite !blen_app, blen_le_enc8; lia).
    rewrite le8_roundtrip by exact Hc.
    assert (D8 : drop 8 (le_enc 8 (fst e) ++ mwi_marshal (snd e) ++ concat (map mh_entry_marshal es) ++ rest)
                 = mwi_marshal (snd e) ++ concat (map mh_entry_marshal es) ++ rest)
      by (rewrite <- (blen_le_enc8 (fst e)) at 1; apply drop_app).
    rewrite D8. rewrite (mwi_roundtrip (snd e) _ Hm).
    replace (N.of_nat (length (e :: es)) - 1) with (N.of_nat (length es)) by (cbn [length]; lia).
    assert (Hlt : keys_lt (fst e) m0).
    { unfold kv_sorted in Hs. clear -Hs. induction m0 as [|x m0 IHm]; [constructor|].
      cbn [app] in Hs. inversion Hs as [|? ? Hs' Hall]; subst. constructor.
      - rewrite Forall_forall in Hall. apply (Hall e). apply in_or_app. right. left. reflexivity.
      - apply IHm. exact Hs'. }
    rewrite (kv_put_end (fst e) (snd e) m0 Hlt). rewrite <- surjective_pairing.
    rewrite IH.
    + rewrite <- app_assoc. reflexivity.
    + exact (Forall_inv_tail Hok).
    + rewrite <- app_assoc. exact Hs.
    + cbn in Hf. lia.
Qed.

Definition mh_ok (m : mhidx) : Prop :=
  kv_sorted m /\ Forall mh_entry_ok m /\ N.of_nat (length m) < two31.

Lemma mh_entry_len e : 12 <= blen (mh_entry_marshal e).
Proof. unfold mh_entry_marshal, mwi_marshal. rewrite !blen_app, blen_le_enc8, blen_le_enc4. lia. Qed.
Lemma concat_mh_len (m : mhidx) : (length m <= length (concat (map mh_entry_marshal m)))%nat.
Proof.
  induction m as [|b m IH]; cbn [map concat length]; [lia|]. rewrite app_length.
  pose proof (mh_entry_len b) as H. unfold blen in H. lia.
Qed.

Lemma mh_unmarshal_count n tail : n < two31 ->
  mh_unmarshal (le_enc 4 n ++ tail) = mwcis_unmarshal (S (length (le_enc 4 n ++ tail))) n tail [].
Proof.
  intros Hn. unfold mh_unmarshal.
  replace (blen (le_enc 4 n ++ tail) <? 4) with false by (rewrite blen_app, blen_le_enc4; lia).
  rewrite le4_roundtrip by (unfold two31, two32 in *; lia).
  replace (two31 <=? n) with false by lia.
  assert (D4 : drop 4 (le_enc 4 n ++ tail) = tail) by (rewrite <- (blen_le_enc4 n) at 1; apply drop_app).
  rewrite D4. reflexivity.
Qed.

Lemma mh_marshal_entries (m : mhidx) :
  mh_marshal m = le_enc 4 (N.of_nat (length m)) ++ concat (map mh_entry_marshal m).
Proof. reflexivity. Qed.

Lemma mh_roundtrip m rest : mh_ok m -> mh_unmarshal (mh_marshal m ++ rest) = Ok (m, rest).
Proof.
  intros (Hs & Hok & Hn). rewrite mh_marshal_entries, <- app_assoc.
  rewrite mh_unmarshal_count by exact Hn.
  apply (mwcis_roundtrip m []); [exact Hok|exact Hs|].
  rewrite !app_length. pose proof (concat_mh_len m). lia.
Qed.

Definition index_ok (i : index) : Prop :=
  match i with IdxSorted m => mwi_ok m | IdxMh m => mh_ok m end.

Theorem idx_roundtrip i rest : index_ok i -> idx_read (idx_write i ++ rest) = Ok (i, rest).
Proof.
  intros H. unfold idx_read, idx_write. rewrite <- app_assoc.
  destruct i as [m|m]; cbn [idx_codec idx_marshal index_ok] in *.
  - rewrite read_uv_put_uv by (unfold codec_sorted, two63; lia).
    replace (codec_sorted =? codec_sorted) with true by lia. rewrite (mwi_roundtrip m rest H). reflexivity.
  - rewrite read_uv_put_uv by (unfold codec_mh_sorted, two63; lia).
    replace (codec_mh_sorted =? codec_sorted) with false by (unfold codec_mh_sorted, codec_sorted; lia).
    replace (codec_mh_sorted =? codec_mh_sorted) with true by lia. rewrite (mh_roundtrip m rest H). reflexivity.
Qed.

(* ---- a freshly loaded index is within the limits Unmarshal enforces ------------------------------------------ *)
Lemma kv_put_length {A} k (v : A) m : (length (kv_put k v m) <= S (length m))%nat.
Proof.
  induction m as [|[k0 v0] t IH]; cbn [kv_put length]; [lia|].
  destruct (k <? k0); [cbn [length]; lia|]. destruct (k =? k0); cbn [length]; lia.
Qed.
Lemma group_by_length {A} (key : A -> N) xs : (length (group_by key xs) <= length xs)%nat.
Proof.
  unfold group_by.
  assert (H : forall (m : list (N * list A)), (length (fold_left (fun m x => kv_snoc (key x) x m) xs m) <= length m + length xs)%nat).
  { induction xs as [|x xs IH]; intros m; cbn [fold_left length]; [lia|].
    specialize (IH (kv_snoc (key x) x m)). unfold kv_snoc in *.
    destruct (kv_get (key x) m) as [l|];
      [pose proof (kv_put_length (key x) (l ++ [x]) m)|pose proof (kv_put_length (key x) [x] m)]; lia. }
  specialize (H []). cbn [length] in H. lia.
Qed.

Lemma swi_in_marshal_len (m : list (N * bytes)) b : In b m -> blen (snd b) <= blen (concat (map swi_marshal m)).
Proof.
  induction m as [|b0 m IH]; intros Hin; [contradiction|]. cbn [map concat]. rewrite blen_app.
  destruct Hin as [->|Hin].
  - unfold swi_marshal. rewrite !blen_app. lia.
  - specialize (IH Hin). lia.
Qed.

Definition recs_mok (rs : list irec) : Prop :=
  Forall (fun r => rec_width r <= max_width /\ r_code r < two64 /\ r_off r < two64) rs /\
  N.of_nat (length rs) < two31.

Lemma mwi_load_ok rs : recs_mok rs -> blen (mwi_marshal (mwi_load rs [])) < two63 -> mwi_ok (mwi_load rs []).
Proof.
  intros [Hall Hn] Hsz. pose proof (mwi_load_nil rs) as E. repeat split.
  - rewrite E. apply (kv_sorted_map (fun l => compact (sort_by_digest l))). apply group_by_sorted.
  - rewrite Forall_forall. intros b Hb. split.
    + rewrite E in Hb. apply in_map_iff in Hb. destruct Hb as (g & <- & Hg). cbn [fst].
      destruct (group_by_in rec_width rs g Hg) as [Hs Hne].
      destruct (snd g) as [|r l] eqn:Eg; [congruence|].
      assert (Hr : In r (with_key rec_width (fst g) rs)) by (rewrite <- Hs; left; reflexivity).
      apply with_key_in in Hr. destruct Hr as [Hr Hw]. rewrite Forall_forall in Hall. specialize (Hall r Hr).
      unfold rec_width in *. lia.
    + pose proof (swi_in_marshal_len _ b Hb) as Hl. unfold mwi_marshal in Hsz. rewrite blen_app in Hsz. lia.
  - rewrite E, map_length. pose proof (group_by_length rec_width rs). lia.
Qed.

Lemma mh_in_marshal_len (m : mhidx) e : In e m -> blen (mwi_marshal (snd e)) <= blen (concat (map mh_entry_marshal m)).
Proof.
  induction m as [|e0 m IH]; intros Hin; [contradiction|]. cbn [map concat]. rewrite blen_app.
  destruct Hin as [->|Hin].
  - unfold mh_entry_marshal. rewrite !blen_app. lia.
  - specialize (IH Hin). lia.
Qed.

Lemma recs_mok_with_key (key : irec -> N) k rs : recs_mok rs -> recs_mok (with_key key k rs).
Proof.
  intros [Hall Hn]. split.
  - rewrite Forall_forall in *. intros r Hr. apply with_key_in in Hr. apply Hall. tauto.
  - unfold with_key. pose proof (filter_length_le (fun x => key x =? k) rs). lia.
Qed.

Lemma mh_load_ok rs : recs_mok rs -> blen (mh_marshal (mh_load rs [])) < two63 -> mh_ok (mh_load rs []).
Proof.
  intros Hok Hsz. pose proof (mh_load_nil rs) as E. repeat split.
  - rewrite E. apply (kv_sorted_map (fun l => mwi_load l [])). apply group_by_sorted.
  - rewrite Forall_forall. intros e He.
    pose proof (mh_in_marshal_len _ e He) as Hl. rewrite mh_marshal_entries, blen_app in Hsz.
    rewrite E in He. apply in_map_iff in He. destruct He as (g & <- & Hg). cbn [fst snd] in *.
    destruct (group_by_in r_code rs g Hg) as [Hs Hne]. split.
    + destruct (snd g) as [|r l] eqn:Eg; [congruence|].
      assert (Hr : In r (with_key r_code (fst g) rs)) by (rewrite <- Hs; left; reflexivity).
      apply with_key_in in Hr. destruct Hr as [Hr Hw]. destruct Hok as [Hall _]. rewrite Forall_forall in Hall.
      destruct (Hall r Hr) as (_ & Hcode & _). rewrite <- Hw. exact Hcode.
    + apply mwi_load_ok; [rewrite Hs; apply recs_mok_with_key; exact Hok|lia].
  - destruct Hok as [_ Hn]. rewrite E, map_length. pose proof (group_by_length r_code rs). lia.
Qed.

(* F3: what index.WriteTo wrote is what index.ReadFrom reads *)
Theorem flat_roundtrip codec i0 recs rest :
  idx_new codec = Some i0 -> recs_mok recs -> blen (idx_write (idx_load recs i0)) < two63 ->
  idx_read (idx_write (idx_load recs i0) ++ rest) = Ok (idx_load recs i0, rest).
Proof.
  intros Hnew Hok Hsz. apply idx_roundtrip. unfold idx_new in Hnew. unfold idx_write in Hsz. rewrite blen_app in Hsz.
  destruct (codec =? codec_sorted); [|destruct (codec =? codec_mh_sorted); [|discriminate]];
    inversion Hnew; subst i0; cbn [idx_load index_ok idx_marshal] in *.
  - apply mwi_load_ok; [exact Hok|lia].
  - apply mh_load_ok; [exact Hok|lia].
Qed.
