(* C06: the device log of every model operation replays the initial file into the current file,
   and operations only ever extend the log. *)
From GoCar Require Import Bytes Varint Cid Header Frame V2Header Index Scan Store Crash.
From GoCarProofs Require Import BytesFacts ResumeFacts CrashImage CrashResume.

(* dv' was obtained from dv by issuing further writes *)
Definition log_ext (dv dv' : dev) : Prop := exists L, writes_of dv' = writes_of dv ++ L.

Lemma log_ext_refl dv : log_ext dv dv.
Proof. exists []. rewrite app_nil_r. reflexivity. Qed.
Lemma log_ext_trans a b c : log_ext a b -> log_ext b c -> log_ext a c.
Proof. intros (L1 & H1) (L2 & H2). exists (L1 ++ L2). rewrite H2, H1, app_assoc. reflexivity. Qed.
Lemma log_ext_step dv w f fl : log_ext dv (mkdev f (w :: d_log dv) fl).
Proof. exists [w]. unfold writes_of. cbn [d_log rev]. reflexivity. Qed.

Lemma log_ext_write dv off d : log_ext dv (fst (fst (dev_write dv off d))).
Proof. unfold dev_write. destruct (d_faults dv) as [|[kk|] rest]; cbn [fst]; apply log_ext_step. Qed.
Lemma log_ext_chunks chunks : forall dv abs, log_ext dv (fst (fst (write_chunks dv abs chunks))).
Proof.
  induction chunks as [|c t IH]; intros dv abs; cbn [write_chunks]; [apply log_ext_refl|].
  pose proof (log_ext_write dv abs c) as H1.
  destruct (dev_write dv abs c) as [[dv' n] [|]]; cbn [fst] in *; [|exact H1].
  eapply log_ext_trans; [exact H1|apply IH].
Qed.
Lemma log_ext_truncate dv n : log_ext dv (dev_truncate dv n).
Proof. unfold dev_truncate. apply log_ext_step. Qed.

(* both facts together, for a state transformer *)
Definition dev_good (f0 : bytes) (s s' : wstate) : Prop :=
  (dev_ok f0 (ws_dev s) -> dev_ok f0 (ws_dev s')) /\ log_ext (ws_dev s) (ws_dev s').

Lemma dev_good_refl f0 s : dev_good f0 s s.
Proof. split; [tauto|apply log_ext_refl]. Qed.
Lemma dev_good_trans f0 a b c : dev_good f0 a b -> dev_good f0 b c -> dev_good f0 a c.
Proof. intros [A1 A2] [B1 B2]. split; [tauto|eapply log_ext_trans; eassumption]. Qed.
Lemma dev_good_same f0 s s' : ws_dev s' = ws_dev s -> dev_good f0 s s'.
Proof. intros H. unfold dev_good. rewrite H. split; [tauto|apply log_ext_refl]. Qed.

Lemma dev_good_put_one f0 s c d p : dev_good f0 s (fst (put_one s c d p)).
Proof.
  unfold put_one. destruct (should_put (ws_opts s) (ws_idx s) c p) as [[|]|e]; try apply dev_good_refl.
  pose proof (dev_ok_chunks (ld_chunks [c; d]) f0 (ws_dev s) (data_base (ws_opts s) + ws_pos s)) as Hok.
  pose proof (log_ext_chunks (ld_chunks [c; d]) (ws_dev s) (data_base (ws_opts s) + ws_pos s)) as Hext.
  destruct (write_chunks (ws_dev s) (data_base (ws_opts s) + ws_pos s) (ld_chunks [c; d])) as [[dv abs] ok].
  cbn [fst] in Hok, Hext.
  destruct ok; [split; [exact Hok|exact Hext]|].
  destruct (abs =? data_base (ws_opts s) + ws_pos s); [split; [exact Hok|exact Hext]|].
  (* the Truncate of a rewind: done (a log step) or failed (device untouched but for the script) *)
  assert (Htry : forall n, (dev_ok f0 (ws_dev s) -> dev_ok f0 (fst (dev_try_truncate dv n))) /\
                           log_ext (ws_dev s) (fst (dev_try_truncate dv n))).
  { intros n. unfold dev_try_truncate. destruct (d_faults dv) as [|[kk|] rest]; cbn [fst].
    - split; [intros H; apply dev_ok_truncate, Hok, H|eapply log_ext_trans; [exact Hext|apply log_ext_truncate]].
    - split; [intros H; exact (Hok H)|destruct Hext as (L & HL); exists L; exact HL].
    - split; [intros H; apply (dev_ok_step f0 dv (Trunc n) (Hok H))|eapply log_ext_trans; [exact Hext|apply log_ext_step]]. }
  destruct (ws_kind s) as [|[|]]; cbn [fst set_dev set_flags ws_dev].
  - specialize (Htry (data_base (ws_opts s) + ws_pos s)).
    destruct (dev_try_truncate dv (data_base (ws_opts s) + ws_pos s)) as [dv' [|]]; cbn [fst] in *; exact Htry.
  - specialize (Htry (data_base (ws_opts s) + ws_pos s)).
    destruct (dev_try_truncate dv (data_base (ws_opts s) + ws_pos s)) as [dv' [|]]; cbn [fst] in *; exact Htry.
  - split; [exact Hok|exact Hext].
Qed.

Lemma dev_good_fe_put f0 s b : dev_good f0 s (fst (fe_put s b)).
Proof.
  destruct b as [c d]. unfold fe_put. destruct (ws_kind s).
  - unfold bs_put_many. destruct (ws_closed s); [apply dev_good_refl|]. destruct (ws_finalized s); [apply dev_good_refl|].
    cbn [put_many_loop]. destruct (cid_parse c) as [p|]; [|apply dev_good_refl].
    pose proof (dev_good_put_one f0 s c d p) as H.
    destruct (put_one s c d p) as [s' [| | | | |]]; exact H.
  - unfold st_put. cbn [fst snd]. destruct (cid_parse c) as [p|]; [|apply dev_good_refl].
    destruct (ws_closed s); [apply dev_good_refl|]. destruct (ws_finalized s); [apply dev_good_refl|].
    apply dev_good_put_one.
Qed.

Lemma dev_good_run_puts f0 bs : forall s, dev_good f0 s (run_puts s bs).
Proof.
  induction bs as [|b r IH]; intros s; [apply dev_good_refl|].
  unfold run_puts. cbn [fold_left]. fold (run_puts (fst (fe_put s b)) r).
  eapply dev_good_trans; [apply dev_good_fe_put|apply IH].
Qed.

Lemma dev_good_store_finalize f0 s : dev_good f0 s (fst (store_finalize s)).
Proof.
  unfold store_finalize. destruct (ii_flatten (w_codec (ws_opts s)) (ws_idx s)) as [fi|]; [|apply dev_good_refl].
  set (h := set_fully_indexed (w_storeid (ws_opts s)) (with_data_size (ws_pos s) (hdr_of (ws_opts s)))).
  pose proof (dev_ok_chunks (idx_chunks fi) f0 (ws_dev s) (h_ioff h)) as Hok1.
  pose proof (log_ext_chunks (idx_chunks fi) (ws_dev s) (h_ioff h)) as Hext1.
  destruct (write_chunks (ws_dev s) (h_ioff h) (idx_chunks fi)) as [[dv1 a1] ok1]. cbn [fst] in Hok1, Hext1.
  destruct (negb ok1); [split; [exact Hok1|exact Hext1]|].
  pose proof (dev_ok_chunks (v2hdr_chunks h) f0 dv1 pragma_size) as Hok2.
  pose proof (log_ext_chunks (v2hdr_chunks h) dv1 pragma_size) as Hext2.
  destruct (write_chunks dv1 pragma_size (v2hdr_chunks h)) as [[dv2 a2] ok2]. cbn [fst] in Hok2, Hext2.
  cbn [fst set_dev ws_dev]. split; [tauto|eapply log_ext_trans; eassumption].
Qed.

Lemma dev_good_fe_finalize f0 s : dev_good f0 s (fst (fe_finalize s)).
Proof.
  unfold fe_finalize. destruct (ws_kind s).
  - unfold bs_finalize.
    assert (H1 : dev_good f0 s (fst (bs_finalize_ro s))).
    { unfold bs_finalize_ro. destruct (w_v1 (ws_opts s)); [apply dev_good_same; reflexivity|].
      destruct (ws_closed s); [apply dev_good_refl|]. destruct (ws_finalized s); [apply dev_good_refl|].
      eapply dev_good_trans; [|apply dev_good_store_finalize]. apply dev_good_same; reflexivity. }
    destruct (bs_finalize_ro s) as [s1 r1]. cbn [fst] in H1.
    assert (H2 : dev_good f0 s1 (fst (bs_close s1))).
    { unfold bs_close. destruct (negb (w_v1 (ws_opts s1)) && negb (ws_finalized s1)); [apply dev_good_refl|].
      destruct (ws_closed s1); [apply dev_good_refl|apply dev_good_same; reflexivity]. }
    destruct (bs_close s1) as [s2 r2]. cbn [fst] in *. eapply dev_good_trans; eassumption.
  - unfold st_finalize. destruct (ws_finalized s); [apply dev_good_same; reflexivity|].
    destruct (ws_closed s); [apply dev_good_refl|].
    destruct (w_v1 (ws_opts s)); [apply dev_good_same; reflexivity|].
    eapply dev_good_trans; [|apply dev_good_store_finalize]. apply dev_good_same; reflexivity.
Qed.

Lemma dev_good_end_seg f0 c s : dev_good f0 s (end_seg c s).
Proof.
  destruct c; unfold end_seg; [|apply dev_good_fe_finalize].
  unfold fe_discard. destruct (ws_kind s); [apply dev_good_same; reflexivity|apply dev_good_refl].
Qed.

(* a fresh open *)
Lemma open_new_dev_ok k o nilroots roots faults s :
  open_new k o nilroots roots faults = Ok s -> dev_ok [] (ws_dev s).
Proof.
  unfold open_new. destruct (match k with KStorage false => negb (w_v1 o) | _ => false end); [discriminate|].
  set (dv0 := mkdev [] [] faults).
  assert (H0 : dev_ok [] dv0) by apply dev_ok_init.
  destruct (w_v1 o).
  - pose proof (dev_ok_chunks (header_chunks nilroots roots) [] dv0 (data_base o) H0) as H2.
    cbn [negb]. destruct (write_chunks dv0 (data_base o) (header_chunks nilroots roots)) as [[dv2 abs] ok2]. cbn [fst] in H2.
    destruct (negb ok2); [discriminate|]. intros H. injection H as <-. exact H2.
  - pose proof (dev_ok_write [] dv0 0 pragma H0) as H1.
    destruct (dev_write dv0 0 pragma) as [[d n] ok]. cbn [fst] in H1.
    destruct (negb ok); [discriminate|].
    pose proof (dev_ok_chunks (header_chunks nilroots roots) [] d (data_base o) H1) as H2.
    destruct (write_chunks d (data_base o) (header_chunks nilroots roots)) as [[dv2 abs] ok2]. cbn [fst] in H2.
    destruct (negb ok2); [discriminate|]. intros H. injection H as <-. exact H2.
Qed.
