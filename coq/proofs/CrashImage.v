(* Crash images (C06): generic facts about [image] -- replay of a write log, append-only logs. *)
From GoCar Require Import Bytes Varint Cid Header Frame V2Header Index Scan Store Crash.
From GoCarProofs Require Import BytesFacts VarintFacts ResumeFacts.

Definition replay (f : bytes) (ws : list wr) : bytes := fold_left apply_wr ws f.

Lemma replay_app f a b : replay f (a ++ b) = replay (replay f a) b.
Proof. unfold replay. apply fold_left_app. Qed.

Lemma image_app ws1 : forall f ws2 k t,
  image f (ws1 ++ ws2) (length ws1 + k) t = image (replay f ws1) ws2 k t.
Proof.
  induction ws1 as [|w r IH]; intros f ws2 k t; [reflexivity|].
  cbn [app length Nat.add image]. rewrite IH. reflexivity.
Qed.

Lemma image_prefix ws1 : forall f ws2 k t, (k < length ws1)%nat ->
  image f (ws1 ++ ws2) k t = image f ws1 k t.
Proof.
  induction ws1 as [|w r IH]; intros f ws2 k t Hk; [cbn in Hk; lia|].
  cbn [app image]. destruct k as [|k']; [reflexivity|]. apply IH. cbn in Hk. lia.
Qed.

Lemma image_all ws : forall f k t, (length ws <= k)%nat -> image f ws k t = replay f ws.
Proof.
  induction ws as [|w r IH]; intros f k t Hk; [reflexivity|].
  cbn [image]. destruct k as [|k']; [cbn in Hk; lia|]. cbn [replay fold_left]. apply IH. cbn in Hk. lia.
Qed.

Lemma image_end_zero ws1 : forall f ws2, image f (ws1 ++ ws2) (length ws1) 0 = replay f ws1.
Proof.
  intros f ws2. replace (length ws1) with (length ws1 + 0)%nat by lia. rewrite image_app.
  destruct ws2 as [|w r]; [reflexivity|]. cbn [image]. destruct w; cbn [apply_torn]; [|reflexivity].
  rewrite take_0. reflexivity.
Qed.

(* ---- append-only logs --------------------------------------------------------------------------- *)
(* every write lands exactly at the current end of the file *)
Fixpoint appends (e : N) (ws : list wr) : Prop :=
  match ws with
  | [] => True
  | WrAt off d :: r => off = e /\ appends (e + blen d) r
  | Trunc _ :: _ => False
  end.
Fixpoint stream (ws : list wr) : bytes :=
  match ws with
  | [] => []
  | WrAt _ d :: r => d ++ stream r
  | Trunc _ :: r => stream r
  end.
(* number of bytes of the stream a crash at (k, t) has put into the file *)
Fixpoint img_len (ws : list wr) (k : nat) (t : N) : N :=
  match ws with
  | [] => 0
  | WrAt _ d :: r => match k with O => N.min t (blen d) | S k' => blen d + img_len r k' t end
  | Trunc _ :: r => match k with O => 0 | S k' => img_len r k' t end
  end.

Lemma take_min n a : take n a = take (N.min n (blen a)) a.
Proof.
  destruct (N.le_ge_cases n (blen a)).
  - rewrite N.min_l by assumption. reflexivity.
  - rewrite N.min_r by assumption. rewrite take_all. apply take_ge. assumption.
Qed.

Lemma image_appends ws : forall f k t, appends (blen f) ws ->
  image f ws k t = take (blen f + img_len ws k t) (f ++ stream ws).
Proof.
  induction ws as [|w r IH]; intros f k t Ha.
  - cbn [image img_len stream]. rewrite N.add_0_r, app_nil_r, take_all. reflexivity.
  - destruct w as [off d|n]; [|destruct Ha]. destruct Ha as [-> Ha].
    cbn [image img_len stream]. destruct k as [|k'].
    + cbn [apply_torn]. rewrite write_at_append. rewrite (take_min t d).
      set (m := N.min t (blen d)). assert (Hm : m <= blen d) by (unfold m; lia).
      rewrite take_app_ge by lia. replace (blen f + m - blen f) with m by lia.
      rewrite take_app_le by exact Hm. reflexivity.
    + cbn [apply_wr]. rewrite write_at_append. rewrite IH by (rewrite blen_app; exact Ha).
      rewrite blen_app, <- app_assoc. f_equal. lia.
Qed.

Lemma img_len_le ws : forall k t, img_len ws k t <= blen (stream ws).
Proof.
  induction ws as [|w r IH]; intros k t; cbn [img_len stream]; [rewrite blen_nil; lia|].
  destruct w as [off d|n]; destruct k as [|k']; try rewrite blen_app; try specialize (IH k' t); lia.
Qed.
