(* ApplyOptions: zero => default, a later option for the same field wins, options for distinct fields
   commute, repeating an option or the whole list changes nothing. *)
From GoCar Require Import Bytes Options.

Definition fold_opts (l : list opt) (r : options) : options := fold_left (fun r o => opt_set o r) l r.

Lemma apply_options_app l1 l2 : apply_options (l1 ++ l2) = options_finalize (fold_opts l2 (fold_opts l1 options_init)).
Proof. unfold apply_options, fold_opts. rewrite fold_left_app. reflexivity. Qed.

(* same field: the later one wins; distinct fields: order does not matter *)
Lemma opt_set_absorb a b r : opt_field a = opt_field b -> opt_set b (opt_set a r) = opt_set b r.
Proof. destruct r; destruct a, b; cbn; intros H; try discriminate; reflexivity. Qed.

Lemma opt_set_commute a b r : opt_field a <> opt_field b -> opt_set b (opt_set a r) = opt_set a (opt_set b r).
Proof. destruct r; destruct a, b; cbn; intros H; try congruence; reflexivity. Qed.

Theorem apply_options_later_wins l1 a b l2 : opt_field a = opt_field b ->
  apply_options (l1 ++ a :: b :: l2) = apply_options (l1 ++ b :: l2).
Proof.
  intros H. rewrite !apply_options_app. unfold fold_opts. cbn [fold_left]. rewrite (opt_set_absorb a b _ H). reflexivity.
Qed.

Theorem apply_options_distinct_fields_commute l1 a b l2 : opt_field a <> opt_field b ->
  apply_options (l1 ++ a :: b :: l2) = apply_options (l1 ++ b :: a :: l2).
Proof.
  intros H. rewrite !apply_options_app. unfold fold_opts. cbn [fold_left]. rewrite (opt_set_commute a b _ H). reflexivity.
Qed.

(* an option that appears later for the same field makes an earlier one irrelevant, wherever it is *)
Lemma fold_opts_overwritten a l : forall r,
  existsb (fun b => opt_field b =? opt_field a) l = true ->
  fold_opts l (opt_set a r) = fold_opts l r.
Proof.
  induction l as [|b l IH]; intros r H; [discriminate|]. cbn [existsb] in H.
  change (fold_opts (b :: l) (opt_set a r)) with (fold_opts l (opt_set b (opt_set a r))).
  change (fold_opts (b :: l) r) with (fold_opts l (opt_set b r)).
  destruct (opt_field b =? opt_field a) eqn:E.
  - rewrite (opt_set_absorb a b r) by lia. reflexivity.
  - rewrite (opt_set_commute a b r) by lia. apply IH. exact H.
Qed.

(* applying the whole list a second time changes nothing *)
Lemma fold_opts_cons a l r : fold_opts (a :: l) r = fold_opts l (opt_set a r).
Proof. reflexivity. Qed.

Lemma fold_opts_untouched a l : existsb (fun b => opt_field b =? opt_field a) l = false ->
  forall r, fold_opts l (opt_set a r) = opt_set a (fold_opts l r).
Proof.
  induction l as [|b l IHl]; intros E r; [reflexivity|].
  cbn [existsb] in E. apply orb_false_iff in E. destruct E as [E1 E2].
  rewrite !fold_opts_cons. rewrite (opt_set_commute a b r) by lia. apply IHl. exact E2.
Qed.

Lemma fold_opts_twice l : forall r, fold_opts l (fold_opts l r) = fold_opts l r.
Proof.
  induction l as [|a l IH]; intros r; [reflexivity|].
  rewrite !fold_opts_cons.
  destruct (existsb (fun b => opt_field b =? opt_field a) l) eqn:E.
  - rewrite (fold_opts_overwritten a l _ E). apply IH.
  - rewrite (fold_opts_untouched a l E (fold_opts l (opt_set a r))). rewrite IH.
    rewrite (fold_opts_untouched a l E r). apply opt_set_absorb. reflexivity.
Qed.

Theorem apply_options_idempotent l : apply_options (l ++ l) = apply_options l.
Proof. rewrite apply_options_app. rewrite fold_opts_twice. reflexivity. Qed.

Lemma options_finalize_idempotent r : options_finalize (options_finalize r) = options_finalize r.
Proof.
  destruct r as [dp ip ic ze mc si ad wc ml v1 tr mh ms]. cbn [options_finalize]. f_equal.
  - unfold resolve_codec. destruct (ic =? 0) eqn:E; [reflexivity|]. rewrite E. reflexivity.
  - unfold resolve_max_cid, opt_default_max_cid, opt_max_indexable_cid.
    destruct (mc =? 0) eqn:E0.
    + reflexivity.
    + destruct (33554424 <? mc) eqn:E1; [reflexivity|]. rewrite E0, E1. reflexivity.
Qed.

(* zero => default *)
Theorem apply_options_codec_never_zero l : op_index_codec (apply_options l) <> 0.
Proof.
  unfold apply_options. destruct (fold_left _ l options_init) as [dp ip ic ze mc si ad wc ml v1 tr mh ms]. cbn [options_finalize op_index_codec].
  unfold resolve_codec, opt_default_codec. destruct (ic =? 0) eqn:E; lia.
Qed.

Theorem apply_options_max_cid_range l :
  0 < op_max_index_cid (apply_options l) <= opt_max_indexable_cid.
Proof.
  unfold apply_options. destruct (fold_left _ l options_init) as [dp ip ic ze mc si ad wc ml v1 tr mh ms]. cbn [options_finalize op_max_index_cid].
  unfold resolve_max_cid, opt_default_max_cid, opt_max_indexable_cid.
  destruct (mc =? 0) eqn:E0; [cbn; lia|].
  destruct (33554424 <? mc) eqn:E1; lia.
Qed.

Theorem apply_options_explicit_zero l :
  op_index_codec (apply_options (l ++ [OUseIndexCodec 0])) = opt_default_codec /\
  op_max_index_cid (apply_options (l ++ [OMaxIndexCidSize 0])) = opt_default_max_cid /\
  op_max_header (apply_options (l ++ [OMaxAllowedHeaderSize 0])) = 0 /\
  op_max_section (apply_options (l ++ [OMaxAllowedSectionSize 0])) = 0.
Proof.
  rewrite !apply_options_app. unfold fold_opts. cbn [fold_left].
  destruct (fold_left _ l options_init). cbn. repeat split; reflexivity.
Qed.

Example apply_options_defaults :
  apply_options [] = mkoptions 0 0 1025 false 2048 false false false 9223372036854775807 false false 33554432 8388608.
Proof. reflexivity. Qed.

Theorem apply_options_zero_means_default l :
  op_index_codec (apply_options l) <> 0 /\
  0 < op_max_index_cid (apply_options l) <= opt_max_indexable_cid /\
  op_index_codec (apply_options (l ++ [OUseIndexCodec 0])) = opt_default_codec /\
  op_max_index_cid (apply_options (l ++ [OMaxIndexCidSize 0])) = opt_default_max_cid /\
  op_max_header (apply_options (l ++ [OMaxAllowedHeaderSize 0])) = 0 /\
  op_max_section (apply_options (l ++ [OMaxAllowedSectionSize 0])) = 0.
Proof.
  split; [apply apply_options_codec_never_zero|]. split; [apply apply_options_max_cid_range|]. apply apply_options_explicit_zero.
Qed.
