(* Concrete instances for C03: the two defects of the code as found (witnesses of the _refuted
   theorems, replayed on the real code: corpus/C03/*.case) and non-vacuity examples. *)
From GoCar Require Import Bytes Varint Cid Header Frame V2Header Scan Index IndexGen.
From GoCarProofs Require Import BytesFacts.

Definition exg_cid : bytes := [x01; x55; x12; x04; xaa; xbb; xcc; xdd].
Definition exg_cid2 : bytes := [x01; x71; x12; x04; x10; x20; x30; x40].
Definition exg_idcid : bytes := [x01; x55; x00; x02; x68; x69].   (* identity, digest "hi" *)
Definition exg_blocks : list block :=
  [ (exg_cid, [x01; x02]); (exg_idcid, [x68; x69]); (exg_cid2, []); (exg_cid, [x01; x02]) ].
Definition exg_payload : bytes := enc_payload [] exg_blocks.
Definition exg_opts : gopts := mkgopts false 33554432 false 2048.
Definition exg_rec (c : bytes) (d : bytes) (off : N) : irec := mkrec c 18 d off.

(* the same payload bare and inside a CARv2 with 3 bytes of data padding and an (empty) index *)
Definition exg_trailer : bytes := [x81; x08; x00; x00; x00; x00].
Definition exg_v2 : bytes := v2_container 0 0 0 [x00; xff; x00] exg_payload exg_trailer.

Example exg_seek_v1 :
  load_index_gen dec_header_canon as_found SrcSeek exg_opts exg_payload
  = Ok [ exg_rec exg_cid [xaa; xbb; xcc; xdd] 18; exg_rec exg_cid2 [x10; x20; x30; x40] 38;
         exg_rec exg_cid [xaa; xbb; xcc; xdd] 47 ].
Proof. vm_compute. reflexivity. Qed.

(* defect 1 (DESIGN section 6 #2), CARv1 through a plain io.Reader: every offset short by the header length *)
Example exg_plain_v1_as_found :
  load_index_gen dec_header_canon as_found SrcPlain exg_opts exg_payload
  = Ok [ exg_rec exg_cid [xaa; xbb; xcc; xdd] 0; exg_rec exg_cid2 [x10; x20; x30; x40] 20;
         exg_rec exg_cid [xaa; xbb; xcc; xdd] 29 ].
Proof. vm_compute. reflexivity. Qed.

(* ... and CARv2 through a plain io.Reader fails outright *)
Example exg_plain_v2_as_found :
  load_index_gen dec_header_canon as_found SrcSeek exg_opts exg_v2
  = Ok [ exg_rec exg_cid [xaa; xbb; xcc; xdd] 18; exg_rec exg_cid2 [x10; x20; x30; x40] 38;
         exg_rec exg_cid [xaa; xbb; xcc; xdd] 47 ]
  /\ load_index_gen dec_header_canon as_found SrcPlain exg_opts exg_v2 = Err EOther.
Proof. vm_compute. split; reflexivity. Qed.

Lemma source_dependent_as_found :
  exists o file recs recs',
    load_index_gen dec_header_canon as_found SrcSeek o file = Ok recs /\
    load_index_gen dec_header_canon as_found SrcPlain o file = Ok recs' /\
    map r_off recs = [18; 38; 47] /\ map r_off recs' = [0; 20; 29].
Proof.
  exists exg_opts, exg_payload. eexists. eexists.
  split; [apply exg_seek_v1|]. split; [apply exg_plain_v1_as_found|]. split; reflexivity.
Qed.

(* defect 2: a CARv2 whose payload has no sections, followed by the index the library itself
   writes for it: the loop tests the end of the payload only after a section, so the index bytes
   are read as a section *)
Definition exg_empty_payload : bytes := enc_payload [] [].
Definition exg_empty_v2 : bytes := v2_container 0 0 69 [] exg_empty_payload exg_trailer.

Lemma empty_payload_fails_as_found :
  load_index_gen dec_header_canon as_found SrcSeek exg_opts exg_empty_v2 = Err EOther /\
  load_index_gen dec_header_canon (mkfixes true false) SrcPlain exg_opts exg_empty_v2 = Err EOther.
Proof. vm_compute. split; reflexivity. Qed.

(* the repaired code on the same inputs *)
Example exg_repaired :
  load_index dec_header_canon SrcPlain exg_opts exg_payload = load_index dec_header_canon SrcSeek exg_opts exg_payload
  /\ load_index dec_header_canon SrcPlain exg_opts exg_v2 = load_index dec_header_canon SrcSeek exg_opts exg_v2
  /\ load_index dec_header_canon SrcSeek exg_opts exg_v2 = load_index dec_header_canon SrcSeek exg_opts exg_payload
  /\ load_index dec_header_canon SrcSeek exg_opts exg_empty_v2 = Ok []
  /\ load_index dec_header_canon SrcPlain exg_opts exg_empty_v2 = Ok []
  /\ load_index_reader_at dec_header_canon exg_opts exg_v2 = load_index dec_header_canon SrcSeek exg_opts exg_payload.
Proof. vm_compute. repeat split; reflexivity. Qed.

(* ---- the hypotheses of the C03 theorems are satisfiable (on the archive above) ------------------- *)
From Coq Require Import Permutation Sorting.Sorted.
From GoCarProofs Require Import VarintFacts CidFacts HeaderFacts ScanFacts IndexKv IndexSort IndexCompact
  IndexSearch IndexRoundtrip IndexLoad IndexCanon IndexGenFacts IndexGenLookup.

Example exg_blocks_ok : Forall gblock_ok exg_blocks.
Proof.
  assert (H1 : gblock_ok (exg_cid, [x01; x02])).
  { exists (mkcid 1 85 18 [xaa; xbb; xcc; xdd]). split; [right; cbv; repeat split; congruence|].
    split; [reflexivity|]. split; cbv; congruence. }
  repeat constructor; try exact H1.
  - exists (mkcid 1 85 0 [x68; x69]). split; [right; cbv; repeat split; congruence|].
    split; [reflexivity|]. split; cbv; congruence.
  - exists (mkcid 1 113 18 [x10; x20; x30; x40]). split; [right; cbv; repeat split; congruence|].
    split; [reflexivity|]. split; cbv; congruence.
Qed.

Example exg_cids_fit : Forall (cid_fits exg_opts) exg_blocks.
Proof. repeat constructor; intros _; cbv; congruence. Qed.

Example exg_hdr_fits : hdr_fits dec_header_canon exg_opts [] /\ pragma_good dec_header_canon exg_opts.
Proof.
  split.
  - apply hdr_fits_canon; [split; [constructor|cbv; reflexivity]|cbv; congruence|cbv; reflexivity].
  - apply pragma_good_canon. cbv. congruence.
Qed.

Example exg_sizes :
  blen (v2_container 0 0 0 [x00; xff; x00] (enc_payload [] exg_blocks) exg_trailer) < two63 /\
  recs_fit (section_recs exg_opts (hlen_of []) exg_blocks).
Proof. split; [vm_compute; reflexivity|unfold recs_fit; vm_compute; congruence]. Qed.

(* an instance of the CID-size limit and of zero padding *)
Example exg_cid_too_large :
  load_index dec_header_canon SrcPlain (mkgopts false 33554432 false 7) exg_payload = Err ECidTooLarge
  /\ load_index dec_header_canon SrcSeek (mkgopts false 33554432 true 7) exg_payload = Err ECidTooLarge
  /\ load_index dec_header_canon SrcSeek (mkgopts false 33554432 true 8) exg_payload
     = Ok (section_recs (mkgopts false 33554432 true 8) 18 exg_blocks).
Proof. vm_compute. repeat split; reflexivity. Qed.

Example exg_zero_padding :
  load_index dec_header_canon SrcPlain (mkgopts true 33554432 false 2048) (exg_payload ++ [x00; x00; x00])
  = Ok (section_recs exg_opts 18 exg_blocks)
  /\ load_index dec_header_canon SrcPlain exg_opts (exg_payload ++ [x00; x00; x00]) = Err EOther.
Proof. vm_compute. split; reflexivity. Qed.

(* lookups on the generated index: the duplicate section gives two offsets, the identity CID is not
   indexed by default and is with StoreIdentityCIDs *)
Example exg_lookups :
  spec_lookup exg_opts true 18 [xaa; xbb; xcc; xdd] 18 exg_blocks = [18; 47]
  /\ spec_lookup exg_opts true 0 [x68; x69] 18 exg_blocks = []
  /\ spec_lookup (mkgopts false 33554432 true 2048) true 0 [x68; x69] 18 exg_blocks = [29]
  /\ section_at exg_payload 47 = Some (exg_cid, [x01; x02])
  /\ section_at exg_payload 46 = None.
Proof. vm_compute. repeat split; reflexivity. Qed.

(* ---- ReadOrGenerateIndex on the example archive ------------------------------------------------------ *)
Definition exg_own_index : index := idx_load (section_recs exg_opts 18 exg_blocks) (IdxMh []).
Definition exg_v2_indexed : bytes :=
  v2_container 0 0 (51 + 3 + blen exg_payload + 2) [x00; xff; x00] exg_payload ([x00; x00] ++ idx_write exg_own_index ++ [x77]).

Example exg_rog :
  read_or_generate_index dec_header_canon codec_sorted exg_opts exg_v2_indexed = Ok exg_own_index        (* read; codec option ignored *)
  /\ read_or_generate_index dec_header_canon codec_mh_sorted exg_opts exg_v2 = Ok exg_own_index          (* IndexOffset 0: generated *)
  /\ read_or_generate_index dec_header_canon codec_mh_sorted exg_opts exg_payload = Ok exg_own_index     (* CARv1: generated *)
  /\ idx_getall exg_own_index 18 [xaa; xbb; xcc; xdd] = [18; 47].
Proof. vm_compute. repeat split; reflexivity. Qed.

(* an index section that lies is returned as it is: nothing is checked against the payload *)
Example exg_rog_trusts_the_index :
  read_or_generate_index dec_header_canon codec_mh_sorted exg_opts
    (v2_container 0 0 (51 + blen exg_payload) [] exg_payload (idx_write (IdxMh [])))
  = Ok (IdxMh []).
Proof. vm_compute. reflexivity. Qed.
