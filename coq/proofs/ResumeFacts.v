(* Basic facts for C12/C06: the backing file (write_at / truncate_to / write_chunks without
   faults), varint and CID stream parsing on arbitrary parsable byte strings. *)
From GoCar Require Import Bytes Varint Cid Header Frame V2Header Index Scan Store.
From GoCarProofs Require Import BytesFacts VarintFacts CidFacts.

(* ---- write_at -------------------------------------------------------------------------- *)
Lemma write_at_nil f off : write_at f off [] = f.
Proof. reflexivity. Qed.

Lemma write_at_append f d : write_at f (blen f) d = f ++ d.
Proof.
  destruct d as [|x d]; [rewrite app_nil_r; reflexivity|].
  unfold write_at. rewrite N.leb_refl, take_all, drop_ge by lia. rewrite app_nil_r. reflexivity.
Qed.

Lemma write_at_hole f off d : blen f <= off -> d <> [] ->
  write_at f off d = f ++ zerosN (off - blen f) ++ d.
Proof.
  intros H Hd. destruct d as [|x d]; [congruence|]. unfold write_at.
  destruct (off <=? blen f) eqn:E; [|reflexivity].
  assert (off = blen f) by lia. subst off.
  rewrite take_all, drop_ge by lia. rewrite N.sub_diag, app_nil_r. reflexivity.
Qed.

Lemma write_at_inside a b c d : blen b = blen d ->
  write_at (a ++ b ++ c) (blen a) d = a ++ d ++ c.
Proof.
  intros H. destruct d as [|x d].
  - destruct b; [reflexivity|]. rewrite blen_cons, blen_nil in H. lia.
  - unfold write_at. replace (blen a <=? blen (a ++ b ++ c)) with true by (rewrite blen_app; lia).
    rewrite take_app. rewrite drop_app_ge by lia.
    replace (blen a + blen (x :: d) - blen a) with (blen b) by lia.
    rewrite drop_app. reflexivity.
Qed.

Lemma blen_write_at_ge f off d : blen f <= blen (write_at f off d).
Proof.
  destruct d as [|x d]; [cbn; lia|]. unfold write_at.
  destruct (off <=? blen f) eqn:E; rewrite !blen_app; [|lia].
  rewrite blen_take, blen_drop. lia.
Qed.

Lemma write_at_ne f off d : d <> [] ->
  write_at f off d = if off <=? blen f then take off f ++ d ++ drop (off + blen d) f
                     else f ++ zerosN (off - blen f) ++ d.
Proof. destruct d; [congruence|reflexivity]. Qed.

(* two consecutive writes = one write of the concatenation *)
Lemma write_at_seq f off a b :
  write_at (write_at f off a) (off + blen a) b = write_at f off (a ++ b).
Proof.
  destruct a as [|x a]; [rewrite blen_nil, N.add_0_r; reflexivity|].
  destruct b as [|y b]; [rewrite app_nil_r; reflexivity|].
  remember (x :: a) as A eqn:EA. remember (y :: b) as B eqn:EB.
  assert (HA : A <> []) by (subst; discriminate). assert (HB : B <> []) by (subst; discriminate).
  assert (HAB : A ++ B <> []) by (subst; discriminate).
  clear EA EB.
  rewrite (write_at_ne f off A HA), (write_at_ne f off (A ++ B) HAB).
  destruct (off <=? blen f) eqn:E.
  - assert (Ht : blen (take off f) = off) by (rewrite blen_take; lia).
    rewrite (write_at_ne _ _ B HB).
    replace (off + blen A <=? blen (take off f ++ A ++ drop (off + blen A) f)) with true
      by (rewrite !blen_app, Ht; lia).
    rewrite (app_assoc (take off f) A).
    assert (Hl : blen (take off f ++ A) = off + blen A) by (rewrite blen_app; lia).
    rewrite <- Hl. rewrite take_app.
    rewrite drop_app_ge by lia.
    rewrite drop_drop. rewrite Hl, !blen_app.
    rewrite <- !app_assoc. do 3 f_equal. f_equal. lia.
  - assert (Hl : blen (f ++ zerosN (off - blen f) ++ A) = off + blen A).
    { rewrite !blen_app, blen_zerosN. lia. }
    rewrite <- Hl. rewrite write_at_append.
    rewrite <- !app_assoc. reflexivity.
Qed.

(* ---- truncate ---------------------------------------------------------------------------- *)
Lemma truncate_to_app a b : truncate_to (a ++ b) (blen a) = a.
Proof. unfold truncate_to. replace (blen a <=? blen (a ++ b)) with true by (rewrite blen_app; lia). apply take_app. Qed.
Lemma truncate_to_all a : truncate_to a (blen a) = a.
Proof. rewrite <- (app_nil_r a) at 1. apply truncate_to_app. Qed.

(* ---- write_chunks without faults ------------------------------------------------------------ *)
Fixpoint chunk_log (abs : N) (chunks : list bytes) : list wr :=
  match chunks with
  | [] => []
  | c :: t => WrAt abs c :: chunk_log (abs + blen c) t
  end.

Lemma dev_write_nofault dv off d : d_faults dv = [] ->
  dev_write dv off d = (mkdev (write_at (d_file dv) off d) (WrAt off d :: d_log dv) [], blen d, true).
Proof. intros H. unfold dev_write. rewrite H. reflexivity. Qed.

Lemma write_chunks_nofault chunks : forall dv abs, d_faults dv = [] ->
  write_chunks dv abs chunks =
    (mkdev (write_at (d_file dv) abs (concat chunks)) (rev (chunk_log abs chunks) ++ d_log dv) [],
     abs + blen (concat chunks), true).
Proof.
  induction chunks as [|c t IH]; intros dv abs Hf; cbn [write_chunks concat chunk_log rev app].
  - rewrite write_at_nil, blen_nil, N.add_0_r. destruct dv; cbn in *; subst; reflexivity.
  - rewrite dev_write_nofault by exact Hf.
    rewrite IH by reflexivity. cbn [d_file d_log].
    rewrite write_at_seq. rewrite blen_app. rewrite <- app_assoc. cbn [app].
    f_equal. f_equal. lia.
Qed.

(* ---- go-varint on arbitrary input ---------------------------------------------------------- *)
Lemma read_uv_f_app f : forall i x s v rest n y,
  read_uv_f f i x s = VOk v rest n -> read_uv_f f i x (s ++ y) = VOk v (rest ++ y) n.
Proof.
  induction f as [|f IH]; intros i x s v rest n y H; cbn [read_uv_f] in *; [discriminate|].
  destruct s as [|b s]; [destruct (i =? 0); discriminate|]. cbn [app].
  destruct (((i =? 8) && (128 <=? b2n b)) || (9 <=? i)); [discriminate|].
  destruct (b2n b <? 128).
  - destruct ((b2n b =? 0) && (0 <? i)); [discriminate|]. inversion H; subst. reflexivity.
  - apply IH. exact H.
Qed.
Lemma read_uv_app s v rest n y :
  read_uv s = VOk v rest n -> read_uv (s ++ y) = VOk v (rest ++ y) n.
Proof. apply read_uv_f_app. Qed.

Lemma read_uv_f_split f : forall i x s v rest n,
  read_uv_f f i x s = VOk v rest n -> exists pre, s = pre ++ rest /\ n = i + blen pre /\ pre <> [].
Proof.
  induction f as [|f IH]; intros i x s v rest n H; cbn [read_uv_f] in *; [discriminate|].
  destruct s as [|b s]; [destruct (i =? 0); discriminate|].
  destruct (((i =? 8) && (128 <=? b2n b)) || (9 <=? i)); [discriminate|].
  destruct (b2n b <? 128).
  - destruct ((b2n b =? 0) && (0 <? i)); [discriminate|]. inversion H; subst.
    exists [b]. repeat split; [discriminate].
  - destruct (IH _ _ _ _ _ _ H) as (pre & -> & -> & _). exists (b :: pre).
    repeat split; [rewrite blen_cons; lia|discriminate].
Qed.
Lemma read_uv_split s v rest n :
  read_uv s = VOk v rest n -> exists pre, s = pre ++ rest /\ n = blen pre /\ pre <> [].
Proof.
  intros H. destruct (read_uv_f_split _ _ _ _ _ _ _ H) as (pre & A & B & C).
  exists pre. repeat split; [exact A|lia|exact C].
Qed.

(* a proper prefix of the bytes a successful varint read consumed never reads successfully *)
Lemma read_uv_f_torn f : forall i x pre rest v n m,
  read_uv_f f i x (pre ++ rest) = VOk v rest n -> n = i + blen pre -> m < blen pre ->
  read_uv_f f i x (take m pre) = (if (i =? 0) && (m =? 0) then VEof else VUnexpectedEof).
Proof.
  induction f as [|f IH]; intros i x pre rest v n m H Hn Hm; cbn [read_uv_f] in *; [discriminate|].
  destruct pre as [|b pre]; [rewrite blen_nil in Hm; lia|].
  cbn [app] in H. cbn [take].
  destruct (m =? 0) eqn:Em.
  - destruct (i =? 0); reflexivity.
  - rewrite andb_false_r.
    destruct (((i =? 8) && (128 <=? b2n b)) || (9 <=? i)); [discriminate|].
    destruct (b2n b <? 128).
    + destruct ((b2n b =? 0) && (0 <? i)); [discriminate|]. inversion H; subst.
      rewrite blen_cons in *. 
      assert (blen pre = 0) by lia. lia.
    + rewrite (IH (i + 1) _ pre rest v n (N.pred m) H); [|rewrite blen_cons in Hn; lia|rewrite blen_cons in Hm; lia].
      replace (i + 1 =? 0) with false by lia. reflexivity.
Qed.

(* ---- go-cid: a byte string cid.Cast accepts is read back from a stream ------------------------ *)
Lemma cid_parse_inv c p : cid_parse c = Some p -> cid_from_bytes c = Some (blen c, p).
Proof.
  unfold cid_parse. destruct (cid_from_bytes c) as [[n q]|]; [|discriminate].
  destruct (n =? blen c) eqn:E; [|discriminate]. intros H. inversion H; subst.
  f_equal. f_equal. lia.
Qed.

Lemma is_v0_prefix_inv c : is_v0_prefix c = true ->
  exists t, c = x12 :: x20 :: t /\ t <> [].
Proof.
  destruct c as [|b0 [|b1 [|b2 t]]]; cbn [is_v0_prefix]; try discriminate.
  intros H. apply andb_true_iff in H. destruct H as [H0 H1].
  assert (b0 = x12). { rewrite <- (n2b_b2n b0). replace (b2n b0) with 18 by lia. reflexivity. }
  assert (b1 = x20). { rewrite <- (n2b_b2n b1). replace (b2n b1) with 32 by lia. reflexivity. }
  subst. exists (b2 :: t). split; [reflexivity|discriminate].
Qed.

Theorem cid_from_reader_parsed c p x :
  cid_parse c = Some p -> blen (c_digest p) <= max_digest_alloc ->
  cid_from_reader (c ++ x) = CfrOk (blen c) c p x.
Proof.
  intros Hp Hcap. apply cid_parse_inv in Hp. unfold cid_from_bytes in Hp.
  destruct (is_v0_prefix c) eqn:Ev0.
  - (* CIDv0 *)
    destruct (blen c <? 34) eqn:E34; [discriminate|]. inversion Hp as [[Hn Hpp]]. clear Hp.
    destruct (is_v0_prefix_inv c Ev0) as (t & -> & Ht).
    unfold cid_from_reader. cbn [app]. 
    change (read_uv (x12 :: x20 :: t ++ x)) with (VOk 18 (x20 :: t ++ x) 1).
    cbn [N.eqb Pos.eqb].
    rewrite !blen_cons in Hn.
    replace (blen (x20 :: t ++ x) <? 33) with false by (rewrite blen_cons, blen_app; lia).
    change (x12 :: x20 :: t ++ x) with ((x12 :: x20 :: t) ++ x).
    replace 34 with (blen (x12 :: x20 :: t)) by (rewrite !blen_cons; lia).
    rewrite take_app, drop_app. change (b2n x20 =? 32) with true. cbv iota.
    f_equal. f_equal.
    change (x12 :: x20 :: t) with ([x12; x20] ++ t). change 2 with (blen [x12; x20]).
    rewrite drop_app. rewrite take_ge by lia. reflexivity.
  - (* CIDv1 *)
    destruct (read_uv c) as [vers r1 n1| | | |] eqn:E1; try discriminate.
    destruct (negb (vers =? 1)) eqn:Ev; [discriminate|].
    assert (vers = 1) by (destruct (vers =? 1) eqn:E; [lia|discriminate]). subst vers.
    destruct (read_uv r1) as [codec r2 n2| | | |] eqn:E2; try discriminate.
    unfold mh_from_bytes in Hp.
    destruct (blen r2 <? 2); [discriminate|].
    destruct (read_uv r2) as [code r3 n3| | | |] eqn:E3; try discriminate.
    destruct (read_uv r3) as [len r4 n4| | | |] eqn:E4; try discriminate.
    destruct (max_int32 <? len) eqn:Em; [discriminate|].
    destruct (blen r4 <? len) eqn:El; [discriminate|].
    inversion Hp as [[Hn Hpp]]. clear Hp.
    destruct (read_uv_split _ _ _ _ E1) as (p1 & Hc1 & Hn1 & _).
    destruct (read_uv_split _ _ _ _ E2) as (p2 & Hc2 & Hn2 & _).
    destruct (read_uv_split _ _ _ _ E3) as (p3 & Hc3 & Hn3 & _).
    destruct (read_uv_split _ _ _ _ E4) as (p4 & Hc4 & Hn4 & _).
    assert (Hlen : blen r4 = len).
    { subst c r1 r2 r3. rewrite !blen_app in Hn. lia. }
    unfold cid_from_reader.
    rewrite (read_uv_app _ _ _ _ x E1). cbn [N.eqb Pos.eqb negb].
    rewrite (read_uv_app _ _ _ _ x E2).
    rewrite (read_uv_app _ _ _ _ x E3).
    rewrite (read_uv_app _ _ _ _ x E4).
    subst p. cbn [c_digest] in Hcap. rewrite take_ge in Hcap by lia.
    replace (max_digest_alloc <? len) with false by lia.
    replace (blen (r4 ++ x) <? len) with false by (rewrite blen_app; lia).
    assert (Htot : n1 + n2 + n3 + n4 + len = blen c).
    { subst c r1 r2 r3. rewrite !blen_app. lia. }
    rewrite Htot. rewrite take_app. rewrite <- Hlen. rewrite take_app, drop_app.
    rewrite take_ge by lia. f_equal. lia.
Qed.

Lemma cid_parse_len c p : cid_parse c = Some p -> 2 <= blen c.
Proof.
  intros Hp. apply cid_parse_inv in Hp. unfold cid_from_bytes in Hp.
  destruct (is_v0_prefix c) eqn:Ev0.
  - destruct (blen c <? 34) eqn:E; [discriminate|]. lia.
  - destruct (read_uv c) as [vers r1 n1| | | |] eqn:E1; try discriminate.
    destruct (negb (vers =? 1)); [discriminate|].
    destruct (read_uv r1) as [codec r2 n2| | | |] eqn:E2; try discriminate.
    destruct (read_uv_split _ _ _ _ E1) as (p1 & Hc1 & Hn1 & Hne1).
    destruct (read_uv_split _ _ _ _ E2) as (p2 & Hc2 & Hn2 & Hne2).
    subst c r1. rewrite !blen_app.
    destruct p1; [congruence|]. destruct p2; [congruence|]. rewrite !blen_cons. lia.
Qed.

Lemma blen_enc_section_eq c d : blen (enc_section c d) = section_size c d.
Proof. unfold enc_section, section_size, ld_size. rewrite !blen_app, blen_put_uv. lia. Qed.
Lemma blen_ld_eq payload : blen (ld payload) = ld_size (blen payload).
Proof. unfold ld, ld_size. rewrite blen_app, blen_put_uv. lia. Qed.

(* ---- framing -------------------------------------------------------------------------------- *)
Lemma ld_read_ld_gen maxb payload rest :
  blen payload < two63 -> blen payload <= maxb ->
  ld_read false maxb (ld payload ++ rest) = Ok (payload, rest).
Proof.
  intros H63 Hmax. unfold ld_read, ld_read_size, ld. rewrite <- app_assoc.
  rewrite read_uv_put_uv by exact H63. rewrite andb_false_r.
  replace (maxb <? blen payload) with false by lia.
  replace (blen (payload ++ rest) <? blen payload) with false by (rewrite blen_app; lia).
  rewrite take_app, drop_app. reflexivity.
Qed.

(* ---- headers ------------------------------------------------------------------------------- *)
Lemma pragma_is_ld : pragma = ld pragma_body.
Proof. reflexivity. Qed.

Section HdrOracle.
  Variable hdrdec : bytes -> option (list bytes * N).

  Lemma read_header_ld maxh hb roots v rest :
    hdrdec hb = Some (roots, v) -> blen hb <= maxh -> blen hb < two63 ->
    read_header hdrdec maxh (ld hb ++ rest) = Ok (roots, v, rest, ld_size (blen hb)).
  Proof.
    intros Hd Hmax H63. unfold read_header. rewrite ld_read_ld_gen.
    - rewrite Hd. reflexivity.
    - exact H63.
    - exact Hmax.
  Qed.
End HdrOracle.

Lemma take_app_len n a b : blen a = n -> take n (a ++ b) = a.
Proof. intros <-. apply take_app. Qed.
Lemma drop_app_len n a b : blen a = n -> drop n (a ++ b) = b.
Proof. intros <-. apply drop_app. Qed.
Lemma blen_le_enc w n : blen (le_enc w n) = N.of_nat w.
Proof. unfold blen. rewrite le_enc_length. reflexivity. Qed.

Definition v2_fields_ok (h : v2hdr) : Prop :=
  h_hi h < two64 /\ h_lo h < two64 /\ h_doff h < two64 /\ h_dsize h < two64 /\ h_ioff h < two64.

Lemma blen_enc_v2hdr h : blen (enc_v2hdr h) = 40.
Proof. unfold enc_v2hdr. rewrite !blen_app, !blen_le_enc. reflexivity. Qed.

Lemma read_v2hdr_enc h rest : v2_fields_ok h ->
  read_v2hdr (enc_v2hdr h ++ rest) =
    if (as_int64 (h_doff h) <? 51)%Z then Err EOther
    else if (as_int64 (h_dsize h) <=? 0)%Z then Err EOther
    else if (as_int64 (h_ioff h) <? 0)%Z then Err EOther
    else Ok (h, rest).
Proof.
  intros (H1 & H2 & H3 & H4 & H5). unfold read_v2hdr.
  assert (Hl : blen (enc_v2hdr h ++ rest) = 40 + blen rest) by (rewrite blen_app, blen_enc_v2hdr; reflexivity).
  replace (blen (enc_v2hdr h ++ rest) <? 16) with false by lia.
  replace (blen (enc_v2hdr h ++ rest) <? 40) with false by lia.
  replace (drop 40 (enc_v2hdr h ++ rest)) with rest by (symmetry; apply drop_app_len, blen_enc_v2hdr).
  unfold enc_v2hdr. rewrite <- !app_assoc.
  set (e1 := le_enc 8 (h_hi h)). set (e2 := le_enc 8 (h_lo h)). set (e3 := le_enc 8 (h_doff h)).
  set (e4 := le_enc 8 (h_dsize h)). set (e5 := le_enc 8 (h_ioff h)).
  assert (L1 : blen e1 = 8) by apply blen_le_enc. assert (L2 : blen e2 = 8) by apply blen_le_enc.
  assert (L3 : blen e3 = 8) by apply blen_le_enc. assert (L4 : blen e4 = 8) by apply blen_le_enc.
  assert (L5 : blen e5 = 8) by apply blen_le_enc.
  set (s := e1 ++ e2 ++ e3 ++ e4 ++ e5 ++ rest).
  assert (D8 : drop 8 s = e2 ++ e3 ++ e4 ++ e5 ++ rest) by (apply drop_app_len; exact L1).
  assert (D16 : drop 16 s = e3 ++ e4 ++ e5 ++ rest).
  { replace (drop 16 s) with (drop 8 (drop 8 s)) by (rewrite drop_drop; reflexivity).
    rewrite D8. apply drop_app_len; exact L2. }
  assert (D24 : drop 24 s = e4 ++ e5 ++ rest).
  { replace (drop 24 s) with (drop 8 (drop 16 s)) by (rewrite drop_drop; reflexivity).
    rewrite D16. apply drop_app_len; exact L3. }
  assert (D32 : drop 32 s = e5 ++ rest).
  { replace (drop 32 s) with (drop 8 (drop 24 s)) by (rewrite drop_drop; reflexivity).
    rewrite D24. apply drop_app_len; exact L4. }
  rewrite D8, D16, D24, D32.
  unfold s. rewrite !(take_app_len 8) by assumption.
  unfold e1, e2, e3, e4, e5.
  rewrite !le_dec_enc by (change (256 ^ N.of_nat 8) with two64; assumption).
  destruct h; reflexivity.
Qed.

Lemma cid_parse_digest_le c p : cid_parse c = Some p -> blen (c_digest p) <= blen c.
Proof.
  intros Hp. apply cid_parse_inv in Hp. unfold cid_from_bytes in Hp.
  destruct (is_v0_prefix c) eqn:Ev0.
  - destruct (blen c <? 34) eqn:E; [discriminate|]. inversion Hp; subst. cbn [c_digest].
    rewrite blen_take. lia.
  - destruct (read_uv c) as [vers r1 n1| | | |] eqn:E1; try discriminate.
    destruct (negb (vers =? 1)); [discriminate|].
    destruct (read_uv r1) as [codec r2 n2| | | |] eqn:E2; try discriminate.
    unfold mh_from_bytes in Hp.
    destruct (blen r2 <? 2); [discriminate|].
    destruct (read_uv r2) as [code r3 n3| | | |] eqn:E3; try discriminate.
    destruct (read_uv r3) as [len r4 n4| | | |] eqn:E4; try discriminate.
    destruct (max_int32 <? len); [discriminate|].
    destruct (blen r4 <? len) eqn:El; [discriminate|].
    inversion Hp as [[Hn Hpp]]. subst p. cbn [c_digest]. rewrite blen_take. lia.
Qed.

(* ---- Resume's section loop over a well-formed payload ----------------------------------------- *)
(* a stored block: its key is a byte string cid.Cast accepts, and the digest is within go-cid's
   stream-parser allocation cap (CidFromReader refuses digests above 32 MiB) *)
Definition stored_ok (b : bytes * bytes) : Prop :=
  exists p, cid_parse (fst b) = Some p /\ blen (c_digest p) <= max_digest_alloc.

Lemma enc_sections_cons b t : enc_sections (b :: t) = enc_section (fst b) (snd b) ++ enc_sections t.
Proof. reflexivity. Qed.
Lemma enc_sections_app a b : enc_sections (a ++ b) = enc_sections a ++ enc_sections b.
Proof. unfold enc_sections. rewrite map_app, concat_app. reflexivity. Qed.

Lemma ii_load_cons r rs ii : ii_load (r :: rs) ii = ii_load rs (ii_insert r ii).
Proof. reflexivity. Qed.
Lemma ii_load_app a b ii : ii_load (a ++ b) ii = ii_load b (ii_load a ii).
Proof. unfold ii_load. apply fold_left_app. Qed.

Lemma records_from_app a : forall pos b,
  records_from pos (a ++ b) = records_from pos a ++ records_from (pos + blen (enc_sections a)) b.
Proof.
  induction a as [|[c d] t IH]; intros pos b.
  - cbn [app records_from enc_sections map concat]. rewrite blen_nil, N.add_0_r. reflexivity.
  - cbn [app records_from]. rewrite enc_sections_cons, blen_app. cbn [fst snd].
    rewrite blen_enc_section_eq. rewrite IH.
    replace (pos + (section_size c d + blen (enc_sections t))) with (pos + section_size c d + blen (enc_sections t)) by lia.
    destruct (cid_parse c); reflexivity.
Qed.

Lemma resume_scan_sections zeof base : forall bs pre ii fuel,
  Forall stored_ok bs ->
  base + blen pre + blen (enc_sections bs) < two63 ->
  (length bs < fuel)%nat ->
  resume_scan fuel zeof base (pre ++ enc_sections bs) (blen pre) ii
  = Ok (ii_load (records_from (blen pre) bs) ii, blen pre + blen (enc_sections bs)).
Proof.
  induction bs as [|[c d] t IH]; intros pre ii fuel Hok Hfit Hfuel;
    (destruct fuel as [|f]; [cbn in Hfuel; lia|]); cbn [resume_scan].
  - cbn [enc_sections map concat]. rewrite app_nil_r, drop_all. cbn. rewrite N.add_0_r. reflexivity.
  - inversion Hok as [|? ? (p & Hp & Hcap) Hok']; subst. cbn [fst snd] in *.
    rewrite enc_sections_cons in *. cbn [fst snd] in *. rewrite blen_app in Hfit.
    rewrite drop_app. unfold enc_section at 1. rewrite <- !app_assoc.
    pose proof (cid_parse_len c p Hp) as Hc2.
    pose proof (blen_enc_section_eq c d) as Hsz. unfold section_size, ld_size in Hsz.
    pose proof (uv_size_pos (blen c + blen d)) as Huv.
    rewrite read_uv_put_uv by lia.
    replace (blen c + blen d =? 0) with false by lia.
    rewrite (cid_from_reader_parsed c p _ Hp Hcap).
    replace (two63 <=? base + blen pre + uv_size (blen c + blen d) + (blen c + blen d)) with false by lia.
    rewrite andb_false_r.
    rewrite (app_assoc pre (enc_section c d)).
    replace (blen pre + uv_size (blen c + blen d) + (blen c + blen d)) with (blen (pre ++ enc_section c d))
      by (rewrite blen_app; lia).
    rewrite IH; [|exact Hok'|rewrite blen_app; lia|cbn in Hfuel; lia].
    cbn [records_from]. rewrite Hp. rewrite ii_load_cons.
    rewrite !blen_app. rewrite Hsz. unfold section_size, ld_size.
    do 2 f_equal. lia.
Qed.

Lemma enc_sections_len bs : (length bs <= length (enc_sections bs))%nat.
Proof.
  induction bs as [|[c d] bs IH]; cbn [length]; [lia|].
  rewrite enc_sections_cons, app_length. cbn [fst snd].
  assert (1 <= length (enc_section c d))%nat.
  { unfold enc_section. rewrite app_length. pose proof (put_uv_nonempty (blen c + blen d)).
    destruct (put_uv (blen c + blen d)); [congruence|cbn; lia]. }
  lia.
Qed.
