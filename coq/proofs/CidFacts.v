(* L2: go-cid parsing round trip. *)
From GoCar Require Import Bytes Varint Cid.
From GoCarProofs Require Import BytesFacts VarintFacts.

(* the CIDs go-cid can produce and parse back *)
Definition cid_ok (p : cidp) : Prop :=
  (c_ver p = 0 /\ c_codec p = 112 /\ c_mhcode p = 18 /\ blen (c_digest p) = 32) \/
  (c_ver p = 1 /\ c_codec p < two63 /\ c_mhcode p < two63 /\ blen (c_digest p) <= max_int32).

Lemma mh_from_bytes_enc code dig rest :
  code < two63 -> blen dig <= max_int32 ->
  mh_from_bytes (mh_enc code dig ++ rest) = Some (blen (mh_enc code dig), code, dig).
Proof.
  intros Hc Hd. unfold mh_from_bytes, mh_enc.
  assert (Hl : 2 <= blen ((put_uv code ++ put_uv (blen dig) ++ dig) ++ rest)).
  { rewrite !blen_app, !blen_put_uv. pose proof (uv_size_pos code). pose proof (uv_size_pos (blen dig)). lia. }
  replace (blen ((put_uv code ++ put_uv (blen dig) ++ dig) ++ rest) <? 2) with false by lia.
  rewrite <- !app_assoc.
  rewrite read_uv_put_uv by exact Hc.
  rewrite read_uv_put_uv by (unfold max_int32, two63 in *; lia).
  replace (max_int32 <? blen dig) with false by lia.
  replace (blen (dig ++ rest) <? blen dig) with false by (rewrite blen_app; lia).
  rewrite take_app. rewrite !blen_app, !blen_put_uv. do 3 f_equal. lia.
Qed.

Lemma is_v0_prefix_not18 x t : b2n x <> 18 -> is_v0_prefix (x :: t) = false.
Proof.
  intros H. destruct t as [|y [|z t']]; cbn [is_v0_prefix]; try reflexivity.
  replace (b2n x =? 18) with false by lia. reflexivity.
Qed.

Lemma put_uv_1 : put_uv 1 = [x01].
Proof. reflexivity. Qed.
Lemma put_uv_18 : put_uv 18 = [x12].
Proof. reflexivity. Qed.
Lemma put_uv_32 : put_uv 32 = [x20].
Proof. reflexivity. Qed.

Theorem cid_from_bytes_enc p rest : cid_ok p ->
  cid_from_bytes (cid_enc p ++ rest) = Some (blen (cid_enc p), p).
Proof.
  intros [(Hv & Hc & Hm & Hd)|(Hv & Hc & Hm & Hd)]; destruct p as [ver codec code dig]; cbn in *; subst.
  - unfold cid_from_bytes, cid_enc, mh_enc. cbn [c_ver c_mhcode c_digest N.eqb].
    rewrite Hd, put_uv_18, put_uv_32.
    cbn [app].
    assert (Ht : 32 <= blen (dig ++ rest)) by (rewrite blen_app; lia).
    assert (Hv0 : is_v0_prefix (x12 :: x20 :: dig ++ rest) = true).
    { destruct (dig ++ rest) as [|z t'] eqn:E; [rewrite blen_nil in Ht; lia|]. reflexivity. }
    rewrite Hv0.
    replace (blen (x12 :: x20 :: dig ++ rest) <? 34) with false by (rewrite !blen_cons; lia).
    f_equal. f_equal.
    + rewrite !blen_cons. lia.
    + f_equal. change (x12 :: x20 :: dig ++ rest) with ([x12; x20] ++ (dig ++ rest)).
      change 2 with (blen [x12; x20]). rewrite drop_app.
      rewrite <- Hd. apply take_app.
  - unfold cid_from_bytes, cid_enc. cbn [c_ver c_codec c_mhcode c_digest N.eqb].
    rewrite put_uv_1. cbn [app].
    rewrite is_v0_prefix_not18 by (cbn; lia).
    change (x01 :: (put_uv codec ++ mh_enc code dig) ++ rest) with (put_uv 1 ++ ((put_uv codec ++ mh_enc code dig) ++ rest)).
    rewrite read_uv_put_uv by (unfold two63; lia). cbn [N.eqb Pos.eqb negb].
    rewrite <- app_assoc. rewrite read_uv_put_uv by exact Hc.
    rewrite mh_from_bytes_enc by assumption.
    f_equal. f_equal.
    rewrite blen_cons, blen_app, blen_put_uv, uv_size_small by lia. lia.
Qed.

Corollary cid_parse_enc p : cid_ok p -> cid_parse (cid_enc p) = Some p.
Proof.
  intros H. unfold cid_parse. rewrite <- (app_nil_r (cid_enc p)) at 1.
  rewrite cid_from_bytes_enc by exact H. rewrite N.eqb_refl. reflexivity.
Qed.

(* "c is the byte string of a well-formed CID" *)
Definition cid_bytes_ok (c : bytes) : Prop := exists p, cid_ok p /\ c = cid_enc p.

Lemma cid_from_bytes_ok c rest : cid_bytes_ok c ->
  exists p, cid_from_bytes (c ++ rest) = Some (blen c, p) /\ cid_parse c = Some p.
Proof.
  intros (p & Hp & ->). exists p. split; [apply cid_from_bytes_enc|apply cid_parse_enc]; exact Hp.
Qed.

Lemma cid_enc_nonempty p : cid_ok p -> 2 <= blen (cid_enc p).
Proof.
  intros [(Hv & _ & _ & Hd)|(Hv & _)]; unfold cid_enc, mh_enc; rewrite Hv; cbn [N.eqb];
    rewrite !blen_app, !blen_put_uv.
  - pose proof (uv_size_pos (c_mhcode p)). pose proof (uv_size_pos (blen (c_digest p))). lia.
  - pose proof (uv_size_pos 1). pose proof (uv_size_pos (c_codec p)). lia.
Qed.

(* stream parser agrees on well-formed CIDs whose digest is within go-cid's allocation cap *)
Theorem cid_from_reader_enc p rest : cid_ok p -> blen (c_digest p) <= max_digest_alloc ->
  cid_from_reader (cid_enc p ++ rest) = CfrOk (blen (cid_enc p)) (cid_enc p) p rest.
Proof.
  intros [(Hv & Hc & Hm & Hd)|(Hv & Hc & Hm & Hd)] Hcap; destruct p as [ver codec code dig]; cbn in *; subst.
  - unfold cid_from_reader, cid_enc, mh_enc. cbn [c_ver c_mhcode c_digest N.eqb].
    rewrite Hd, put_uv_18, put_uv_32.
    assert (Hlen : length dig = 32%nat) by (unfold blen in Hd; lia).
    change (([x12] ++ [x20] ++ dig) ++ rest) with (put_uv 18 ++ ([x20] ++ dig) ++ rest).
    rewrite read_uv_put_uv by (unfold two63; lia). cbn [N.eqb Pos.eqb].
    replace (blen (([x20] ++ dig) ++ rest) <? 33) with false by (rewrite !blen_app; unfold blen; cbn [length]; lia).
    assert (H34 : blen ([x12] ++ [x20] ++ dig) = 34) by (rewrite !blen_app; unfold blen; cbn [length]; lia).
    change (put_uv 18 ++ ([x20] ++ dig) ++ rest) with (([x12] ++ [x20] ++ dig) ++ rest).
    rewrite <- H34. rewrite take_app, drop_app.
    cbn [app]. change (b2n x20 =? 32) with true. cbv iota.
    f_equal. f_equal. change (x12 :: x20 :: dig) with ([x12; x20] ++ dig).
    change 2 with (blen [x12; x20]). apply drop_app.
  - unfold cid_from_reader, cid_enc, mh_enc. cbn [c_ver c_codec c_mhcode c_digest N.eqb].
    rewrite <- !app_assoc.
    rewrite read_uv_put_uv by (unfold two63; lia). cbn [N.eqb Pos.eqb negb].
    rewrite read_uv_put_uv by exact Hc.
    rewrite read_uv_put_uv by exact Hm.
    rewrite read_uv_put_uv by (unfold max_int32, two63 in *; lia).
    replace (max_digest_alloc <? blen dig) with false by lia.
    replace (blen (dig ++ rest) <? blen dig) with false by (rewrite blen_app; lia).
    rewrite take_app, drop_app.
    set (pre := put_uv 1 ++ put_uv codec ++ put_uv code ++ put_uv (blen dig) ++ dig).
    assert (Hpre : uv_size 1 + uv_size codec + uv_size code + uv_size (blen dig) + blen dig = blen pre).
    { unfold pre. rewrite !blen_app, !blen_put_uv. lia. }
    rewrite Hpre.
    replace (put_uv 1 ++ put_uv codec ++ put_uv code ++ put_uv (blen dig) ++ dig ++ rest) with (pre ++ rest)
      by (unfold pre; rewrite <- !app_assoc; reflexivity).
    rewrite take_app. reflexivity.
Qed.
