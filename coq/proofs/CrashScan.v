(* C06: what the parsers do on torn input -- a proper prefix of a framed header, of a length varint,
   of a CID; Resume's section loop over complete sections followed by a torn section head. *)
From GoCar Require Import Bytes Varint Cid Header Frame V2Header Index Scan Store Crash.
From GoCarProofs Require Import BytesFacts VarintFacts CidFacts ResumeFacts.

(* ---- varints ----------------------------------------------------------------------------------- *)
(* a successful read looks only at the bytes it consumed *)
Lemma read_uv_f_pre f : forall i x s v rest n,
  read_uv_f f i x s = VOk v rest n ->
  exists pre, s = pre ++ rest /\ n = i + blen pre /\ pre <> [] /\
              forall X, read_uv_f f i x (pre ++ X) = VOk v X n.
Proof.
  induction f as [|f IH]; intros i x s v rest n H; cbn [read_uv_f] in H; [discriminate|].
  destruct s as [|b s]; [destruct (i =? 0); discriminate|].
  destruct (((i =? 8) && (128 <=? b2n b)) || (9 <=? i)) eqn:E1; [discriminate|].
  destruct (b2n b <? 128) eqn:E2.
  - destruct ((b2n b =? 0) && (0 <? i)) eqn:E3; [discriminate|]. inversion H; subst.
    exists [b]. repeat split; [discriminate|]. intros X. cbn [app read_uv_f]. rewrite E1, E2, E3. reflexivity.
  - destruct (IH _ _ _ _ _ _ H) as (pre & -> & -> & _ & Hx). exists (b :: pre).
    repeat split; [rewrite blen_cons; lia|discriminate|].
    intros X. cbn [app read_uv_f]. rewrite E1, E2. apply Hx.
Qed.

Lemma read_uv_pre s v rest n : read_uv s = VOk v rest n ->
  exists pre, s = pre ++ rest /\ n = blen pre /\ pre <> [] /\
              (forall X, read_uv (pre ++ X) = VOk v X n) /\
              (forall m, m < blen pre -> read_uv (take m pre) = if m =? 0 then VEof else VUnexpectedEof).
Proof.
  intros H. destruct (read_uv_f_pre _ _ _ _ _ _ _ H) as (pre & Hs & Hn & Hne & Hx).
  exists pre. split; [exact Hs|]. split; [lia|]. split; [exact Hne|]. split; [exact Hx|].
  intros m Hm. unfold read_uv.
  rewrite (read_uv_f_torn 10 0 0 pre [] v n m); [reflexivity|apply Hx|exact Hn|exact Hm].
Qed.

(* reading from a prefix of the input *)
Lemma read_uv_take s v rest n m : read_uv s = VOk v rest n ->
  read_uv (take m s) = if m <? n then (if m =? 0 then VEof else VUnexpectedEof)
                       else VOk v (take (m - n) rest) n.
Proof.
  intros H. destruct (read_uv_pre _ _ _ _ H) as (pre & -> & -> & Hne & Hx & Ht).
  destruct (m <? blen pre) eqn:E.
  - rewrite take_app_le by lia. apply Ht. lia.
  - rewrite take_app_ge by lia. apply Hx.
Qed.

(* ---- framed payloads ------------------------------------------------------------------------------ *)
Lemma ld_read_torn maxb payload m : blen payload < two63 -> m < blen (ld payload) ->
  exists e, ld_read false maxb (take m (ld payload)) = Err e.
Proof.
  intros H63 Hm. unfold ld in *. rewrite blen_app, blen_put_uv in Hm.
  unfold ld_read, ld_read_size.
  rewrite (read_uv_take _ _ _ _ m (read_uv_put_uv (blen payload) payload H63)).
  destruct (m <? uv_size (blen payload)) eqn:E.
  - destruct (m =? 0); eexists; reflexivity.
  - rewrite andb_false_r. destruct (maxb <? blen payload); [eexists; reflexivity|].
    replace (blen (take (m - uv_size (blen payload)) payload) <? blen payload) with true
      by (rewrite blen_take; lia).
    eexists; reflexivity.
Qed.

Section Hdr.
  Variable hdrdec : bytes -> option (list bytes * N).
  Lemma read_header_torn maxh hb m : blen hb < two63 -> m < blen (ld hb) ->
    exists e, read_header hdrdec maxh (take m (ld hb)) = Err e.
  Proof.
    intros H63 Hm. destruct (ld_read_torn maxh hb m H63 Hm) as (e & He).
    unfold read_header. rewrite He. destruct e; eexists; reflexivity.
  Qed.
End Hdr.

(* ---- a proper, non-empty prefix of a CID never parses from a stream -------------------------------- *)
Lemma cid_from_reader_torn c p j : cid_parse c = Some p -> 0 < j -> j < blen c ->
  exists n, cid_from_reader (take j c) = CfrErr n.
Proof.
  intros Hp Hj0 Hj. apply cid_parse_inv in Hp. unfold cid_from_bytes in Hp.
  destruct (is_v0_prefix c) eqn:Ev0.
  - (* CIDv0: 34 bytes *)
    destruct (blen c <? 34) eqn:E34; [discriminate|]. inversion Hp as [[Hn Hpp]]. clear Hp.
    destruct (is_v0_prefix_inv c Ev0) as (t0 & -> & Ht).
    unfold cid_from_reader.
    assert (E1 : read_uv (x12 :: x20 :: t0) = VOk 18 (x20 :: t0) 1) by reflexivity.
    rewrite (read_uv_take _ _ _ _ j E1).
    replace (j <? 1) with false by lia. cbn [N.eqb Pos.eqb].
    replace (blen (take (j - 1) (x20 :: t0)) <? 33) with true by (rewrite blen_take; lia).
    eexists; reflexivity.
  - destruct (read_uv c) as [vers r1 n1| | | |] eqn:E1; try discriminate.
    destruct (negb (vers =? 1)) eqn:Ev; [discriminate|].
    assert (vers = 1) by (destruct (vers =? 1) eqn:E; [lia|discriminate]). subst vers.
    destruct (read_uv r1) as [codec r2 n2| | | |] eqn:E2; try discriminate.
    unfold mh_from_bytes in Hp.
    destruct (blen r2 <? 2); [discriminate|].
    destruct (read_uv r2) as [code r3 n3| | | |] eqn:E3; try discriminate.
    destruct (read_uv r3) as [len r4 n4| | | |] eqn:E4; try discriminate.
    destruct (max_int32 <? len) eqn:Em; [discriminate|].
    destruct (blen r4 <? len) eqn:El; [discriminate|].
    inversion Hp as [[Hn Hpp]]. clear Hp.
    destruct (read_uv_split _ _ _ _ E1) as (p1 & Hc1 & Hn1 & _).
    destruct (read_uv_split _ _ _ _ E2) as (p2 & Hc2 & Hn2 & _).
    destruct (read_uv_split _ _ _ _ E3) as (p3 & Hc3 & Hn3 & _).
    destruct (read_uv_split _ _ _ _ E4) as (p4 & Hc4 & Hn4 & _).
    assert (Hlen : blen r4 = len) by (subst c r1 r2 r3; rewrite !blen_app in Hn; lia).
    assert (Hc : blen c = n1 + n2 + n3 + n4 + len) by (subst c r1 r2 r3; rewrite !blen_app; lia).
    unfold cid_from_reader.
    rewrite (read_uv_take _ _ _ _ j E1).
    destruct (j <? n1) eqn:J1; [replace (j =? 0) with false by lia; eexists; reflexivity|].
    cbn [N.eqb Pos.eqb negb].
    rewrite (read_uv_take _ _ _ _ (j - n1) E2).
    destruct (j - n1 <? n2) eqn:J2; [destruct (j - n1 =? 0); eexists; reflexivity|].
    rewrite (read_uv_take _ _ _ _ (j - n1 - n2) E3).
    destruct (j - n1 - n2 <? n3) eqn:J3; [destruct (j - n1 - n2 =? 0); eexists; reflexivity|].
    rewrite (read_uv_take _ _ _ _ (j - n1 - n2 - n3) E4).
    destruct (j - n1 - n2 - n3 <? n4) eqn:J4; [destruct (j - n1 - n2 - n3 =? 0); eexists; reflexivity|].
    destruct (max_digest_alloc <? len); [eexists; reflexivity|].
    replace (blen (take (j - n1 - n2 - n3 - n4) r4) <? len) with true by (rewrite blen_take; lia).
    eexists; reflexivity.
Qed.

(* ---- Resume's section loop: complete sections, then whatever follows --------------------------- *)
Lemma resume_scan_sections_tail zeof base tail : forall bs pre ii fuel,
  Forall stored_ok bs ->
  base + blen pre + blen (enc_sections bs) < two63 ->
  resume_scan (length bs + fuel) zeof base (pre ++ enc_sections bs ++ tail) (blen pre) ii
  = resume_scan fuel zeof base (pre ++ enc_sections bs ++ tail) (blen pre + blen (enc_sections bs))
                (ii_load (records_from (blen pre) bs) ii).
Proof.
  induction bs as [|[c d] t IH]; intros pre ii fuel Hok Hfit.
  - cbn [length Nat.add enc_sections map concat records_from ii_load fold_left]. rewrite blen_nil, N.add_0_r. reflexivity.
  - cbn [length Nat.add resume_scan].
    inversion Hok as [|? ? (p & Hp & Hcap) Hok']; subst. cbn [fst snd] in *.
    rewrite enc_sections_cons in *. cbn [fst snd] in *. rewrite blen_app in Hfit.
    rewrite drop_app. unfold enc_section at 1. rewrite <- !app_assoc.
    pose proof (cid_parse_len c p Hp) as Hc2.
    pose proof (blen_enc_section_eq c d) as Hsz. unfold section_size, ld_size in Hsz.
    pose proof (uv_size_pos (blen c + blen d)) as Huv.
    rewrite read_uv_put_uv by lia.
    replace (blen c + blen d =? 0) with false by lia.
    rewrite (cid_from_reader_parsed c p _ Hp Hcap).
    replace (two63 <=? base + blen pre + uv_size (blen c + blen d) + (blen c + blen d)) with false by lia.
    rewrite andb_false_r.
    rewrite (app_assoc pre (enc_section c d)).
    replace (blen pre + uv_size (blen c + blen d) + (blen c + blen d)) with (blen (pre ++ enc_section c d))
      by (rewrite blen_app; lia).
    rewrite IH; [|exact Hok'|rewrite blen_app; lia].
    cbn [records_from]. rewrite Hp. rewrite ii_load_cons.
    rewrite !blen_app. rewrite Hsz. unfold section_size, ld_size.
    f_equal. lia.
Qed.

(* a section of which only i bytes (less than its varint and CID) reached the file *)
Lemma resume_scan_torn_head zeof base fuel view pos ii c d p i :
  cid_parse c = Some p -> blen c + blen d < two63 ->
  0 < i -> i < uv_size (blen c + blen d) + blen c ->
  drop pos view = take i (enc_section c d) ->
  exists e, resume_scan (S fuel) zeof base view pos ii = Err e.
Proof.
  intros Hp H63 Hi0 Hi Hd. cbn [resume_scan]. rewrite Hd. unfold enc_section.
  pose proof (cid_parse_len c p Hp) as Hc2.
  rewrite (read_uv_take _ _ _ _ i (read_uv_put_uv (blen c + blen d) (c ++ d) H63)).
  destruct (i <? uv_size (blen c + blen d)) eqn:E.
  - replace (i =? 0) with false by lia. eexists; reflexivity.
  - replace (blen c + blen d =? 0) with false by lia.
    set (j := i - uv_size (blen c + blen d)).
    rewrite take_app_le by (unfold j; lia).
    destruct (j =? 0) eqn:Ej.
    + replace j with 0 by lia. rewrite take_0. cbn. eexists; reflexivity.
    + destruct (cid_from_reader_torn c p j Hp) as (n & Hn); [lia|unfold j; lia|].
      rewrite Hn. eexists; reflexivity.
Qed.
