(* C14, extension round: a walk over any PREFIX of a valid CARv1 returns exactly the first steps
   (blocks, metadata, positions) of the walk over the whole archive -- as many as there are whole
   sections in the prefix -- and then, if the choices go on, a clean io.EOF only when the cut is on
   a section boundary and a loud error otherwise.  Never a short block, never a wrong offset. *)
From GoCar Require Import Bytes Varint Cid Header Frame V2Header Scan BlockReaderPos.
From GoCarProofs Require Import BytesFacts VarintFacts CidFacts HeaderFacts ScanFacts
  BlockReaderPosFacts BlockReaderPosValid BlockReaderPosC14 ScanTrunc ScanTruncWalk.

(* ---- the expected walk of a prefix of the blocks / of the choices --------------------------- *)
Lemma exp_walk_firstn2 sp base : forall w j bs off hw,
  fst (exp_walk sp base (firstn j w) (firstn j bs) off hw) = firstn j (fst (exp_walk sp base w bs off hw)).
Proof.
  induction w as [|ch w IH]; intros j bs off hw.
  - rewrite firstn_nil. cbn. rewrite firstn_nil. reflexivity.
  - destruct j as [|j]; [reflexivity|]. destruct bs as [|[c d] bs]; [reflexivity|].
    cbn [firstn exp_walk fst]. rewrite IH. reflexivity.
Qed.

Lemma exp_walk_short sp base : forall w bs off hw, (length w <= length bs)%nat ->
  snd (exp_walk sp base w bs off hw) = None.
Proof.
  intros. rewrite exp_walk_end. destruct (length bs <? length w)%nat eqn:E; [apply Nat.ltb_lt in E; lia|reflexivity].
Qed.

(* every prefix of the sections is whole sections followed by nothing or by a cut section *)
Lemma sections_prefix : forall bs m, m <= blen (enc_sections bs) ->
  exists j m' cut, (j <= length bs)%nat /\
    take m (enc_sections bs) = enc_sections (firstn j bs) ++ cut /\
    m = blen (enc_sections (firstn j bs)) + m' /\
    ((m' = 0 /\ cut = []) \/
     (exists c d, nth_error bs j = Some (c, d) /\ 0 < m' /\ m' < blen (enc_section c d) /\
                  cut = take m' (enc_section c d))).
Proof.
  induction bs as [|[c d] bs IH]; intros m Hm.
  - exists 0%nat, 0, []. change (enc_sections []) with (@nil byte) in *. rewrite blen_nil in Hm. assert (m = 0) by lia. subst.
    split; [lia|]. split; [reflexivity|]. split; [reflexivity|left; auto].
  - rewrite enc_sections_cons in *. cbn [fst snd] in *.
    destruct (N.eq_dec m 0) as [->|Hm0].
    + exists 0%nat, 0, []. split; [cbn; lia|]. split; [rewrite take_0; reflexivity|]. split; [cbn [firstn]; change (enc_sections []) with (@nil byte); rewrite blen_nil; lia|left; auto].
    + destruct (N.ltb_spec m (blen (enc_section c d))) as [Hlt|Hge].
      * exists 0%nat, m, (take m (enc_section c d)). split; [cbn; lia|].
        split; [rewrite take_app_le by lia; reflexivity|]. split; [cbn [firstn]; change (enc_sections []) with (@nil byte); rewrite blen_nil; lia|].
        right. exists c, d. repeat split; try reflexivity; lia.
      * destruct (IH (m - blen (enc_section c d))) as (j & m' & cut & Hj & Ht & Hmm & Hc).
        { rewrite blen_app in Hm. lia. }
        exists (S j), m', cut. split; [cbn; lia|].
        split; [rewrite take_app_ge by lia; rewrite Ht; cbn [firstn]; rewrite enc_sections_cons; cbn [fst snd]; rewrite <- app_assoc; reflexivity|].
        split; [cbn [firstn]; rewrite enc_sections_cons; cbn [fst snd]; rewrite blen_app; lia|].
        destruct Hc as [Hc|(c' & d' & Hn & H1 & H2 & H3)]; [left; exact Hc|].
        right. exists c', d'. repeat split; assumption.
Qed.

Section Oracles.
  Variable hok : bytes -> bytes -> option bool.
  Variable hdrdec : bytes -> option (list bytes * N).

  (* the walk over whole sections followed by anything, while the choices last *)
  Lemma walk_within_sections o : forall w bs st pre rem tr,
    blocks_ok hok o bs -> (length w <= length bs)%nat ->
    at_bytes st pre (enc_sections bs ++ rem) tr -> p_off st = blen pre -> rsize_inv st ->
    fst (brp_walk hok o w st) = fst (exp_walk (seekpath st) (p_v1off st) w bs (blen pre) (p_hw st)) /\
    fst (snd (brp_walk hok o w st)) = None.
  Proof.
    induction w as [|ch w IH]; intros bs st pre rem tr Hbs Hlen Hat Hoff Hrs; [split; reflexivity|].
    destruct bs as [|[c d] bs]; [cbn in Hlen; lia|].
    destruct Hbs as (Hok & Hst & Hh).
    inversion Hok as [|? ? Hb Hok']; subst. inversion Hst as [|? ? Hs Hst']; subst. cbn [fst] in Hs.
    assert (Hbs' : blocks_ok hok o bs).
    { split; [exact Hok'|split; [exact Hst'|]]. intros Ht. specialize (Hh Ht). inversion Hh; assumption. }
    rewrite enc_sections_cons in Hat; cbn [fst snd] in Hat; rewrite <- app_assoc in Hat.
    assert (Hss : uv_size (blen c + blen d) + (blen c + blen d) = section_size c d)
      by (unfold section_size, ld_size; lia).
    cbn [length] in Hlen.
    destruct ch; cbn [brp_walk exp_walk orb].
    - destruct (brp_next_at hok o st pre c d _ tr Hat Hoff Hb) as (st' & Hn & Hat' & Hoff' & Hhw & (Hk1 & Hk2 & Hk3) & Hrs').
      { intros Ht. specialize (Hh Ht). inversion Hh; assumption. }
      rewrite Hn. cbn [fst snd].
      destruct (IH bs st' (pre ++ enc_section c d) rem tr Hbs' ltac:(lia) Hat' Hoff' (Hrs' Hrs)) as (I1 & I2).
      assert (Hsp : seekpath st' = seekpath st) by (unfold seekpath; rewrite Hk1, Hk3; reflexivity).
      rewrite Hsp, Hk2, Hhw in I1. rewrite blen_app, blen_enc_section in I1.
      destruct Hat' as (_ & Hpos' & _). rewrite Hpos', blen_app, blen_enc_section, Hhw, Hss, I1.
      split; [reflexivity|exact I2].
    - destruct (brp_skip_at hok o st pre c d _ tr Hat Hoff Hb Hs Hrs) as (st' & Hn & Hat' & Hoff' & Hhw & (Hk1 & Hk2 & Hk3) & Hrs').
      rewrite Hn. cbn [fst snd].
      destruct (IH bs st' (pre ++ enc_section c d) rem tr Hbs' ltac:(lia) Hat' Hoff' Hrs') as (I1 & I2).
      assert (Hsp : seekpath st' = seekpath st) by (unfold seekpath; rewrite Hk1, Hk3; reflexivity).
      rewrite Hsp, Hk2 in I1. rewrite blen_app, blen_enc_section in I1.
      destruct Hat' as (_ & Hpos' & _). rewrite Hpos', blen_app, blen_enc_section, Hss.
      assert (Hhw2 : p_hw st' = (if negb (seekpath st) then N.max (p_hw st) (blen pre + section_size c d)
                                 else N.max (p_hw st) (blen pre + uv_size (blen c + blen d) + blen c))).
      { rewrite Hhw. destruct (seekpath st); reflexivity. }
      rewrite <- Hhw2, I1. split; [reflexivity|exact I2].
  Qed.

  (* ... and when the choices outlast the whole sections: the first |bs| steps, then the walk from
     the state in front of what follows *)
  Lemma walk_past_sections o : forall bs w1 w2 st pre rem tr,
    blocks_ok hok o bs -> length w1 = length bs ->
    at_bytes st pre (enc_sections bs ++ rem) tr -> p_off st = blen pre -> rsize_inv st ->
    exists st', at_bytes st' (pre ++ enc_sections bs) rem tr /\ rsize_inv st' /\
      fst (brp_walk hok o (w1 ++ w2) st)
      = fst (exp_walk (seekpath st) (p_v1off st) w1 bs (blen pre) (p_hw st)) ++ fst (brp_walk hok o w2 st') /\
      fst (snd (brp_walk hok o (w1 ++ w2) st)) = fst (snd (brp_walk hok o w2 st')).
  Proof.
    induction bs as [|[c d] bs IH]; intros w1 w2 st pre rem tr Hbs Hlen Hat Hoff Hrs.
    - destruct w1; [|discriminate]. exists st. change (enc_sections []) with (@nil byte) in *.
      rewrite app_nil_r. cbn [app] in *. split; [exact Hat|]. split; [exact Hrs|]. split; reflexivity.
    - destruct w1 as [|ch w1]; [discriminate|]. cbn [length] in Hlen.
      destruct Hbs as (Hok & Hst & Hh).
      inversion Hok as [|? ? Hb Hok']; subst. inversion Hst as [|? ? Hs Hst']; subst. cbn [fst] in Hs.
      assert (Hbs' : blocks_ok hok o bs).
      { split; [exact Hok'|split; [exact Hst'|]]. intros Ht. specialize (Hh Ht). inversion Hh; assumption. }
      rewrite enc_sections_cons in Hat; cbn [fst snd] in Hat; rewrite <- app_assoc in Hat.
      assert (Hss : uv_size (blen c + blen d) + (blen c + blen d) = section_size c d)
        by (unfold section_size, ld_size; lia).
      assert (Happ : pre ++ enc_sections ((c, d) :: bs) = (pre ++ enc_section c d) ++ enc_sections bs)
        by (rewrite enc_sections_cons; cbn [fst snd]; rewrite <- app_assoc; reflexivity).
      destruct ch; cbn [app brp_walk exp_walk orb].
      + destruct (brp_next_at hok o st pre c d _ tr Hat Hoff Hb) as (st1 & Hn & Hat' & Hoff' & Hhw & (Hk1 & Hk2 & Hk3) & Hrs').
        { intros Ht. specialize (Hh Ht). inversion Hh; assumption. }
        rewrite Hn. cbn [fst snd].
        destruct (IH w1 w2 st1 (pre ++ enc_section c d) rem tr Hbs' ltac:(lia) Hat' Hoff' (Hrs' Hrs)) as (st' & A1 & A2 & A3 & A4).
        rewrite <- Happ in A1. exists st'. split; [exact A1|]. split; [exact A2|].
        assert (Hsp : seekpath st1 = seekpath st) by (unfold seekpath; rewrite Hk1, Hk3; reflexivity).
        rewrite Hsp, Hk2, Hhw in A3. rewrite blen_app, blen_enc_section in A3.
        destruct Hat' as (_ & Hpos' & _). rewrite Hpos', blen_app, blen_enc_section, Hhw, Hss, A3.
        split; [reflexivity|exact A4].
      + destruct (brp_skip_at hok o st pre c d _ tr Hat Hoff Hb Hs Hrs) as (st1 & Hn & Hat' & Hoff' & Hhw & (Hk1 & Hk2 & Hk3) & Hrs').
        rewrite Hn. cbn [fst snd].
        destruct (IH w1 w2 st1 (pre ++ enc_section c d) rem tr Hbs' ltac:(lia) Hat' Hoff' Hrs') as (st' & A1 & A2 & A3 & A4).
        rewrite <- Happ in A1. exists st'. split; [exact A1|]. split; [exact A2|].
        assert (Hsp : seekpath st1 = seekpath st) by (unfold seekpath; rewrite Hk1, Hk3; reflexivity).
        rewrite Hsp, Hk2 in A3. rewrite blen_app, blen_enc_section in A3.
        destruct Hat' as (_ & Hpos' & _). rewrite Hpos', blen_app, blen_enc_section, Hss.
        assert (Hhw2 : p_hw st1 = (if negb (seekpath st) then N.max (p_hw st) (blen pre + section_size c d)
                                   else N.max (p_hw st) (blen pre + uv_size (blen c + blen d) + blen c))).
        { rewrite Hhw. destruct (seekpath st); reflexivity. }
        rewrite <- Hhw2, A3. split; [reflexivity|exact A4].
  Qed.

  Lemma blocks_ok_firstn o bs j : blocks_ok hok o bs -> blocks_ok hok o (firstn j bs).
  Proof.
    intros (H1 & H2 & H3). split; [apply Forall_firstn; exact H1|]. split; [apply Forall_firstn; exact H2|].
    intros Ht. apply Forall_firstn. exact (H3 Ht).
  Qed.

  (* ---- the theorem ------------------------------------------------------------------------- *)
  Theorem c14_prefix_walk_v1 o seek roots bs w k :
    hdrdec (enc_header (Some roots) 1) = Some (roots, 1) ->
    blen (enc_header (Some roots) 1) <= o_maxh o -> blen (enc_header (Some roots) 1) < two63 ->
    Forall (block_ok (o_maxs o)) bs -> Forall (fun b => cid_stream_ok (fst b)) bs ->
    (o_trusted o = false -> Forall (hash_good hok) bs) ->
    blen (ld (enc_header (Some roots) 1)) <= k -> k <= blen (enc_payload roots bs) ->
    exists j m st_full full e_full fin_full st0 e fin,
      (* the walk over the whole archive *)
      brp_run hok hdrdec o seek (enc_payload roots bs) w = Ok (1, roots, st_full, (full, (e_full, fin_full))) /\
      (* where the cut falls: after j whole sections, m bytes into the next one *)
      (j <= length bs)%nat /\
      k = blen (ld (enc_header (Some roots) 1) ++ enc_sections (firstn j bs)) + m /\
      (m = 0 \/ exists c d, nth_error bs j = Some (c, d) /\ 0 < m /\ m < blen (enc_section c d)) /\
      (* the walk over the prefix: the same first steps, then the end *)
      brp_run hok hdrdec o seek (take k (enc_payload roots bs)) w
      = Ok (1, roots, st0, (firstn j full, (e, fin))) /\
      ((length w <= j)%nat -> e = None) /\
      ((j < length w)%nat -> m = 0 -> e = Some EEof) /\
      ((j < length w)%nat -> 0 < m -> exists e', e = Some e' /\ e' <> EEof).
  Proof.
    intros H1 H2 H3 H4 H5 H6 Hk1 Hk2.
    pose proof (walk_ok_intro hok hdrdec o roots bs H1 H2 H3 H4 H5 H6) as Hok.
    destruct (brp_run_v1 hok hdrdec o seek roots bs w Hok) as (st_full & fin_full & Hfull & _).
    cbn zeta in Hfull. set (h := sec_start roots bs 0) in *.
    set (full := fst (exp_walk seek 0 w bs h h)) in *.
    set (hb := enc_header (Some roots) 1) in *.
    assert (Hh : h = blen (ld hb)) by (unfold h; apply sec_start_0).
    unfold enc_payload in Hk2 |- *. fold hb in Hk2 |- *. rewrite blen_app in Hk2.
    destruct (sections_prefix bs (k - blen (ld hb)) ltac:(lia)) as (j & m & cut & Hj & Ht & Hm & Hcut).
    exists j, m, st_full, full, (snd (exp_walk seek 0 w bs h h)), fin_full.
    rewrite take_app_ge by lia. rewrite Ht.
    set (x := enc_sections (firstn j bs) ++ cut).
    set (st0 := mkbrp (ld hb ++ x) seek (ld_size (blen hb)) (ld_size (blen hb)) None (header_size roots 1) 0 None).
    assert (Hopen : brp_open hdrdec o seek (ld hb ++ x) = Ok (1, roots, st0)).
    { unfold brp_open. unfold hb. rewrite (read_header_payload hdrdec (o_maxh o) roots x H1 H2 H3). reflexivity. }
    assert (Hat : at_bytes st0 (ld hb) x []).
    { unfold at_bytes, st0. cbn [p_all p_pos p_lim]. rewrite app_nil_r, blen_ld. repeat split. }
    assert (Hoff : p_off st0 = blen (ld hb)) by (unfold st0, header_size; cbn [p_off]; rewrite blen_ld; reflexivity).
    assert (Hbsj : blocks_ok hok o (firstn j bs)) by (apply blocks_ok_firstn; apply (walk_ok_blocks hok hdrdec o roots bs Hok)).
    assert (Hsp : seekpath st0 = seek) by (unfold seekpath, st0; cbn; apply andb_true_r).
    assert (Hhw0 : p_hw st0 = h) by (unfold st0; cbn [p_hw]; rewrite Hh, blen_ld; reflexivity).
    assert (Hlenj : length (firstn j bs) = j) by (apply firstn_length_le; exact Hj).
    unfold brp_run. rewrite Hopen.
    assert (Hkeq : k = blen (ld hb ++ enc_sections (firstn j bs)) + m) by (rewrite blen_app; lia).
    assert (Hmcase : m = 0 \/ exists c d, nth_error bs j = Some (c, d) /\ 0 < m /\ m < blen (enc_section c d)).
    { destruct Hcut as [(Hm0 & _)|(c & d & Hn & Ha & Hb & _)]; [left; exact Hm0|right; exists c, d; auto]. }
    destruct (Nat.le_gt_cases (length w) j) as [Hwj|Hwj].
    - (* the choices run out within the whole sections *)
      destruct (walk_within_sections o w (firstn j bs) st0 (ld hb) cut [] Hbsj ltac:(lia) Hat Hoff I) as (W1 & W2).
      rewrite Hsp, Hhw0, <- Hh in W1. change (p_v1off st0) with 0 in W1.
      exists st0, None, (snd (snd (brp_walk hok o w st0))).
      split; [exact Hfull|]. split; [exact Hj|]. split; [exact Hkeq|]. split; [exact Hmcase|].
      split; [|split; [reflexivity|split; intros; lia]].
      f_equal. f_equal.
      destruct (brp_walk hok o w st0) as [steps [e fin]]. cbn [fst snd] in *. subst e. f_equal.
      rewrite W1. unfold full. rewrite <- exp_walk_firstn2. rewrite (firstn_all2 (n := j) w) by lia. reflexivity.
    - (* the choices reach the cut *)
      assert (Hl1 : length (firstn j w) = length (firstn j bs)) by (rewrite Hlenj; apply firstn_length_le; lia).
      destruct (walk_past_sections o (firstn j bs) (firstn j w) (skipn j w) st0 (ld hb) cut [] Hbsj Hl1 Hat Hoff I)
        as (st' & A1 & A2 & A3 & A4).
      rewrite Hsp, Hhw0, <- Hh in A3. change (p_v1off st0) with 0 in A3.
      rewrite exp_walk_firstn2 in A3. fold full in A3. rewrite firstn_skipn in A3, A4.
      destruct (skipn j w) as [|ch w2] eqn:Esk.
      { exfalso. assert (length (skipn j w) = 0%nat) by (rewrite Esk; reflexivity). rewrite skipn_length in H. lia. }
      pose proof (vis_at _ _ _ _ A1) as Hvis.
      assert (Hend : fst (brp_walk hok o (ch :: w2) st') = [] /\
                     ((m = 0 -> fst (snd (brp_walk hok o (ch :: w2) st')) = Some EEof) /\
                      (0 < m -> exists e', fst (snd (brp_walk hok o (ch :: w2) st')) = Some e' /\ e' <> EEof))).
      { destruct Hcut as [(Hm0 & ->)|(c & d & Hn & Ha & Hb & ->)].
        - assert (E1 : brp_next hok o st' = Err EEof) by (eapply brp_next_end; exact A1).
          assert (E2 : brp_skip o st' = Err EEof) by (eapply brp_skip_end; exact A1).
          destruct ch; cbn [brp_walk]; [rewrite E1|rewrite E2]; cbn [fst snd];
            (split; [reflexivity|split; [reflexivity|intros; lia]]).
        - assert (Hbc : block_ok (o_maxs o) (c, d)) by (eapply Forall_nth; eassumption).
          destruct (cut_section_calls_fail hok hdrdec o st' c d m Hbc Ha Hb Hvis (rsize_inv_ok st' A2))
            as ((e1 & Hne1 & He1) & (e2 & Hne2 & He2)).
          destruct ch; cbn [brp_walk]; [rewrite He1|rewrite He2]; cbn [fst snd];
            (split; [reflexivity|split; [intros; lia|intros _; eexists; split; [reflexivity|assumption]]]). }
      destruct Hend as (Hs0 & Hm0 & Hm1).
      rewrite Hs0, app_nil_r in A3.
      exists st0, (fst (snd (brp_walk hok o w st0))), (snd (snd (brp_walk hok o w st0))).
      split; [exact Hfull|]. split; [exact Hj|]. split; [exact Hkeq|]. split; [exact Hmcase|].
      split; [|split; [intros; lia|split]].
      + f_equal. f_equal. destruct (brp_walk hok o w st0) as [steps [e fin]].
        cbn [fst snd] in *. rewrite A3. reflexivity.
      + intros _ Hz. rewrite A4. apply Hm0. exact Hz.
      + intros _ Hp. rewrite A4. destruct (Hm1 Hp) as (e' & He' & Hne). exists e'. split; assumption.
  Qed.
End Oracles.

(* ---- CARv2: a prefix that still holds the whole payload walks exactly like the whole file ------- *)
Section V2.
  Variable hok : bytes -> bytes -> option bool.
  Variable hdrdec : bytes -> option (list bytes * N).

  Lemma v2_file_take hi lo ioff pad payload trailer k :
    51 + blen pad + blen payload <= k ->
    take k (v2_file hi lo ioff pad payload trailer)
    = v2_file hi lo ioff pad payload (take (k - (51 + blen pad + blen payload)) trailer).
  Proof.
    intros Hk. unfold v2_file.
    set (h := enc_v2hdr (mkv2 hi lo (51 + blen pad) (blen payload) ioff)).
    assert (Hh : blen h = 40) by apply blen_enc_v2hdr.
    replace (pragma ++ h ++ pad ++ payload ++ trailer) with ((pragma ++ h ++ pad ++ payload) ++ trailer)
      by (rewrite <- !app_assoc; reflexivity).
    assert (Hl : blen (pragma ++ h ++ pad ++ payload) = 51 + blen pad + blen payload)
      by (rewrite !blen_app, Hh, blen_pragma; lia).
    rewrite take_app_ge by lia. rewrite Hl, <- !app_assoc. reflexivity.
  Qed.

  Theorem c14_prefix_walk_v2_after_payload o seek roots bs w hi lo ioff pad trailer k :
    hdrdec (enc_header (Some roots) 1) = Some (roots, 1) ->
    blen (enc_header (Some roots) 1) <= o_maxh o -> blen (enc_header (Some roots) 1) < two63 ->
    Forall (block_ok (o_maxs o)) bs -> Forall (fun b => cid_stream_ok (fst b)) bs ->
    (o_trusted o = false -> Forall (hash_good hok) bs) ->
    hdrdec pragma_body = Some ([], 2) -> 10 <= o_maxh o ->
    hi < two64 -> lo < two64 -> ioff < two63 ->
    51 + blen pad < two63 -> blen (enc_payload roots bs) < two63 ->
    51 + blen pad + blen (enc_payload roots bs) <= k ->
    exists st0 st0' steps e fin fin',
      brp_run hok hdrdec o seek (v2_file hi lo ioff pad (enc_payload roots bs) trailer) w
      = Ok (2, roots, st0, (steps, (e, fin))) /\
      brp_run hok hdrdec o seek (take k (v2_file hi lo ioff pad (enc_payload roots bs) trailer)) w
      = Ok (2, roots, st0', (steps, (e, fin'))).
  Proof.
    intros H1 H2 H3 H4 H5 H6 P1 P2 P3 P4 P5 P6 P7 Hk.
    pose proof (walk_ok_intro hok hdrdec o roots bs H1 H2 H3 H4 H5 H6) as Hok.
    assert (Hpar : v2_params_ok hdrdec o hi lo ioff pad (enc_payload roots bs)) by (repeat split; assumption).
    rewrite v2_file_take by exact Hk.
    destruct (brp_run_v2 hok hdrdec o seek roots bs w hi lo ioff pad trailer Hok Hpar) as (st0 & fin & Hr & _).
    destruct (brp_run_v2 hok hdrdec o seek roots bs w hi lo ioff pad
                (take (k - (51 + blen pad + blen (enc_payload roots bs))) trailer) Hok Hpar) as (st0' & fin' & Hr' & _).
    cbn zeta in *. eexists st0, st0', _, _, fin, fin'. split; [exact Hr|exact Hr'].
  Qed.
End V2.

(* ---- CARv2 cut strictly inside the payload -------------------------------------------------------
   The LimitedReader still promises DataSize bytes but the source runs dry earlier: [at_bytes] allows
   "count >= bytes present" when nothing follows. *)
Section V2Inside.
  Variable hok : bytes -> bytes -> option bool.
  Variable hdrdec : bytes -> option (list bytes * N).

  (* the walk over j whole sections followed by nothing or by a cut section, from any state *)
  Lemma prefix_walk_core o w bs j m cut st pre :
    blocks_ok hok o bs -> (j <= length bs)%nat ->
    ((m = 0 /\ cut = []) \/
     (exists c d, nth_error bs j = Some (c, d) /\ 0 < m /\ m < blen (enc_section c d) /\
                  cut = take m (enc_section c d))) ->
    at_bytes st pre (enc_sections (firstn j bs) ++ cut) [] -> p_off st = blen pre -> rsize_inv st ->
    let full := fst (exp_walk (seekpath st) (p_v1off st) w bs (blen pre) (p_hw st)) in
    fst (brp_walk hok o w st) = firstn j full /\
    ((length w <= j)%nat -> fst (snd (brp_walk hok o w st)) = None) /\
    ((j < length w)%nat -> m = 0 -> fst (snd (brp_walk hok o w st)) = Some EEof) /\
    ((j < length w)%nat -> 0 < m -> exists e', fst (snd (brp_walk hok o w st)) = Some e' /\ e' <> EEof).
  Proof.
    intros Hbs Hj Hcut Hat Hoff Hrs. cbn zeta.
    assert (Hbsj : blocks_ok hok o (firstn j bs)) by (apply blocks_ok_firstn; exact Hbs).
    assert (Hlenj : length (firstn j bs) = j) by (apply firstn_length_le; exact Hj).
    destruct (Nat.le_gt_cases (length w) j) as [Hwj|Hwj].
    - destruct (walk_within_sections hok hdrdec o w (firstn j bs) st pre cut [] Hbsj ltac:(lia) Hat Hoff Hrs) as (W1 & W2).
      split; [|split; [intros _; exact W2|split; intros; lia]].
      rewrite W1. rewrite <- exp_walk_firstn2. rewrite (firstn_all2 (n := j) w) by lia. reflexivity.
    - assert (Hl1 : length (firstn j w) = length (firstn j bs)) by (rewrite Hlenj; apply firstn_length_le; lia).
      destruct (walk_past_sections hok hdrdec o (firstn j bs) (firstn j w) (skipn j w) st pre cut [] Hbsj Hl1 Hat Hoff Hrs)
        as (st' & A1 & A2 & A3 & A4).
      rewrite exp_walk_firstn2 in A3. rewrite firstn_skipn in A3, A4.
      destruct (skipn j w) as [|ch w2] eqn:Esk.
      { exfalso. assert (length (skipn j w) = 0%nat) by (rewrite Esk; reflexivity). rewrite skipn_length in H. lia. }
      pose proof (vis_at _ _ _ _ A1) as Hvis.
      assert (Hend : fst (brp_walk hok o (ch :: w2) st') = [] /\
                     ((m = 0 -> fst (snd (brp_walk hok o (ch :: w2) st')) = Some EEof) /\
                      (0 < m -> exists e', fst (snd (brp_walk hok o (ch :: w2) st')) = Some e' /\ e' <> EEof))).
      { destruct Hcut as [(Hm0 & ->)|(c & d & Hn & Ha & Hb & ->)].
        - assert (E1 : brp_next hok o st' = Err EEof) by (eapply brp_next_end; exact A1).
          assert (E2 : brp_skip o st' = Err EEof) by (eapply brp_skip_end; exact A1).
          destruct ch; cbn [brp_walk]; [rewrite E1|rewrite E2]; cbn [fst snd];
            (split; [reflexivity|split; [reflexivity|intros; lia]]).
        - destruct Hbs as (Hok & _). assert (Hbc : block_ok (o_maxs o) (c, d)) by (eapply Forall_nth; eassumption).
          destruct (cut_section_calls_fail hok hdrdec o st' c d m Hbc Ha Hb Hvis (rsize_inv_ok st' A2))
            as ((e1 & Hne1 & He1) & (e2 & Hne2 & He2)).
          destruct ch; cbn [brp_walk]; [rewrite He1|rewrite He2]; cbn [fst snd];
            (split; [reflexivity|split; [intros; lia|intros _; eexists; split; [reflexivity|assumption]]]). }
      destruct Hend as (Hs0 & Hm0 & Hm1). rewrite Hs0, app_nil_r in A3.
      split; [exact A3|]. split; [intros; lia|]. split.
      + intros _ Hz. rewrite A4. apply Hm0. exact Hz.
      + intros _ Hp. rewrite A4. apply Hm1. exact Hp.
  Qed.

  (* NewBlockReader on a CARv2 container whose data window holds [ld header ++ x], possibly fewer
     bytes than DataSize promises when nothing follows *)
  Lemma brp_open_v2_gen o seek roots hi lo ioff pad D x tr :
    hdrdec (enc_header (Some roots) 1) = Some (roots, 1) ->
    blen (enc_header (Some roots) 1) <= o_maxh o -> blen (enc_header (Some roots) 1) < two63 ->
    hdrdec pragma_body = Some ([], 2) -> 10 <= o_maxh o ->
    hi < two64 -> lo < two64 -> ioff < two63 -> 51 + blen pad < two63 -> 0 < D -> D < two63 ->
    (D = blen (ld (enc_header (Some roots) 1) ++ x) \/ (blen (ld (enc_header (Some roots) 1) ++ x) <= D /\ tr = [])) ->
    let pfx := pragma ++ enc_v2hdr (mkv2 hi lo (51 + blen pad) D ioff) ++ pad in
    exists st0,
      brp_open hdrdec o seek (pfx ++ (ld (enc_header (Some roots) 1) ++ x) ++ tr) = Ok (2, roots, st0) /\
      at_bytes st0 (pfx ++ ld (enc_header (Some roots) 1)) x tr /\
      p_off st0 = blen (pfx ++ ld (enc_header (Some roots) 1)) /\ rsize_inv st0 /\
      seekpath st0 = false /\ p_v1off st0 = 51 + blen pad /\
      p_hw st0 = blen (pfx ++ ld (enc_header (Some roots) 1)).
  Proof.
    intros H1 H2 H3 P1 P2 P3 P4 P5 P6 D0 D63 HD. cbn zeta.
    set (hb := enc_header (Some roots) 1) in *.
    set (hd := mkv2 hi lo (51 + blen pad) D ioff).
    set (pfx := pragma ++ enc_v2hdr hd ++ pad).
    assert (Hflat : pfx ++ (ld hb ++ x) ++ tr = ld pragma_body ++ enc_v2hdr hd ++ pad ++ (ld hb ++ x) ++ tr)
      by (unfold pfx; rewrite <- !app_assoc; reflexivity).
    rewrite Hflat.
    set (file := ld pragma_body ++ enc_v2hdr hd ++ pad ++ (ld hb ++ x) ++ tr).
    assert (HP : blen pfx = 51 + blen pad) by (unfold pfx; rewrite !blen_app, blen_enc_v2hdr, blen_pragma; lia).
    unfold brp_open. unfold read_header at 1. unfold file at 1.
    rewrite ld_read_ld; [|cbn; unfold two63; lia|exact P2|discriminate].
    rewrite P1. cbn [N.eqb Pos.eqb].
    rewrite read_v2hdr_enc; cbn [h_hi h_lo h_doff h_dsize h_ioff hd]; try assumption; try lia.
    replace (51 + blen pad - 51) with (blen pad) by lia.
    replace (blen (pad ++ (ld hb ++ x) ++ tr) <? blen pad) with false by (rewrite blen_app; lia).
    rewrite andb_false_r. change (ld_size (blen pragma_body)) with 11.
    set (st00 := mkbrp file seek (11 + 40 + blen pad) (if seek then 11 + 40 else 11 + 40 + blen pad)
                       (Some D) (51 + blen pad) (51 + blen pad) (Some (wrap64 (51 + blen pad + D)))).
    assert (Hat0 : at_bytes st00 pfx (ld hb ++ x) tr).
    { unfold at_bytes, st00. cbn [p_all p_pos p_lim]. split; [unfold file; symmetry; exact Hflat|]. split; [rewrite HP; lia|exact HD]. }
    rewrite (vis_at _ _ _ _ Hat0).
    unfold hb. rewrite (read_header_payload hdrdec (o_maxh o) roots x H1 H2 H3). fold hb. cbn [N.eqb Pos.eqb].
    set (hl := ld_size (blen hb)).
    assert (Hhl : hl = blen (ld hb)) by (unfold hl; rewrite blen_ld; reflexivity).
    assert (Hhl1 : 1 <= hl) by (unfold hl, ld_size; pose proof (uv_size_pos (blen hb)); lia).
    set (st0 := set_off (51 + blen pad + header_size roots 1) (adv hl st00)).
    exists st0. split; [reflexivity|].
    assert (Hlen : blen (pfx ++ ld hb) = 51 + blen pad + hl) by (rewrite blen_app, HP, <- Hhl; reflexivity).
    split; [unfold st0; apply at_set_off; rewrite Hhl; apply at_adv; exact Hat0|].
    split; [unfold st0; cbn [set_off p_off]; rewrite Hlen; reflexivity|].
    split; [unfold rsize_inv, st0, st00; cbn; discriminate|].
    split; [unfold seekpath, st0, st00; cbn; apply andb_false_r|].
    split; [reflexivity|].
    unfold st0, st00. cbn [set_off adv p_hw p_pos]. replace (hl =? 0) with false by lia.
    rewrite Hlen. destruct seek; lia.
  Qed.

  Theorem c14_prefix_walk_v2 o seek roots bs w hi lo ioff pad trailer k :
    hdrdec (enc_header (Some roots) 1) = Some (roots, 1) ->
    blen (enc_header (Some roots) 1) <= o_maxh o -> blen (enc_header (Some roots) 1) < two63 ->
    Forall (block_ok (o_maxs o)) bs -> Forall (fun b => cid_stream_ok (fst b)) bs ->
    (o_trusted o = false -> Forall (hash_good hok) bs) ->
    hdrdec pragma_body = Some ([], 2) -> 10 <= o_maxh o ->
    hi < two64 -> lo < two64 -> ioff < two63 ->
    51 + blen pad < two63 -> blen (enc_payload roots bs) < two63 ->
    let file := v2_file hi lo ioff pad (enc_payload roots bs) trailer in
    let base := 51 + blen pad in
    base + blen (ld (enc_header (Some roots) 1)) <= k -> k <= base + blen (enc_payload roots bs) ->
    exists j m st_full full e_full fin_full st0 e fin,
      brp_run hok hdrdec o seek file w = Ok (2, roots, st_full, (full, (e_full, fin_full))) /\
      (j <= length bs)%nat /\
      k = base + blen (ld (enc_header (Some roots) 1) ++ enc_sections (firstn j bs)) + m /\
      (m = 0 \/ exists c d, nth_error bs j = Some (c, d) /\ 0 < m /\ m < blen (enc_section c d)) /\
      brp_run hok hdrdec o seek (take k file) w = Ok (2, roots, st0, (firstn j full, (e, fin))) /\
      ((length w <= j)%nat -> e = None) /\
      ((j < length w)%nat -> m = 0 -> e = Some EEof) /\
      ((j < length w)%nat -> 0 < m -> exists e', e = Some e' /\ e' <> EEof).
  Proof.
    intros H1 H2 H3 H4 H5 H6 P1 P2 P3 P4 P5 P6 P7. cbn zeta. intros Hk1 Hk2.
    pose proof (walk_ok_intro hok hdrdec o roots bs H1 H2 H3 H4 H5 H6) as Hok.
    assert (Hpar : v2_params_ok hdrdec o hi lo ioff pad (enc_payload roots bs)) by (repeat split; assumption).
    destruct (brp_run_v2 hok hdrdec o seek roots bs w hi lo ioff pad trailer Hok Hpar) as (st_full & fin_full & Hfull & _).
    cbn zeta in Hfull.
    set (hb := enc_header (Some roots) 1) in *. set (base := 51 + blen pad) in *.
    set (h := base + sec_start roots bs 0) in *.
    set (full := fst (exp_walk false base w bs h h)) in *.
    assert (Hs0 : sec_start roots bs 0 = blen (ld hb)) by apply sec_start_0.
    set (D := blen (enc_payload roots bs)) in *.
    set (pfx := pragma ++ enc_v2hdr (mkv2 hi lo base D ioff) ++ pad).
    assert (HP : blen pfx = base) by (unfold pfx, base; rewrite !blen_app, blen_enc_v2hdr, blen_pragma; lia).
    assert (Hpl : D = blen (ld hb) + blen (enc_sections bs)) by (unfold D, enc_payload; apply blen_app).
    destruct (sections_prefix bs (k - base - blen (ld hb)) ltac:(lia)) as (j & m & cut & Hj & Ht & Hm & Hcut).
    (* the prefix, as a container whose window is short *)
    assert (Htake : take k (v2_file hi lo ioff pad (enc_payload roots bs) trailer)
                    = pfx ++ (ld hb ++ (enc_sections (firstn j bs) ++ cut)) ++ []).
    { unfold v2_file. fold base D. unfold enc_payload. fold hb.
      replace (pragma ++ enc_v2hdr (mkv2 hi lo base D ioff) ++ pad ++ (ld hb ++ enc_sections bs) ++ trailer)
        with ((pfx ++ ld hb) ++ enc_sections bs ++ trailer) by (unfold pfx; rewrite <- !app_assoc; reflexivity).
      rewrite take_app_ge by (rewrite blen_app, HP; lia).
      rewrite take_app_le by (rewrite blen_app, HP; lia).
      replace (k - blen (pfx ++ ld hb)) with (k - base - blen (ld hb)) by (rewrite blen_app, HP; lia).
      rewrite Ht, app_nil_r, <- !app_assoc. reflexivity. }
    rewrite Htake.
    assert (Hxlen : blen (ld hb ++ enc_sections (firstn j bs) ++ cut) <= D).
    { rewrite <- Ht. rewrite !blen_app, blen_take. lia. }
    destruct (brp_open_v2_gen o seek roots hi lo ioff pad D (enc_sections (firstn j bs) ++ cut) []
                H1 H2 H3 P1 P2 P3 P4 P5 P6 (blen_enc_payload_pos roots bs) P7 (or_intror (conj Hxlen eq_refl)))
      as (st0 & Hopen & Hat & Hoff & Hrs & Hsp & Hv1 & Hhw).
    cbn zeta in Hopen. fold hb base pfx in Hopen, Hat, Hoff, Hhw.
    assert (Hlen0 : blen (pfx ++ ld hb) = h) by (unfold h; rewrite blen_app, HP, Hs0; reflexivity).
    destruct (prefix_walk_core o w bs j m cut st0 (pfx ++ ld hb) (walk_ok_blocks hok hdrdec o roots bs Hok) Hj Hcut Hat Hoff Hrs)
      as (C1 & C2 & C3 & C4).
    cbn zeta in C1. rewrite Hsp, Hv1, Hhw, Hlen0 in C1. fold base full in C1.
    exists j, m, st_full, full, (snd (exp_walk false base w bs h h)), fin_full,
           st0, (fst (snd (brp_walk hok o w st0))), (snd (snd (brp_walk hok o w st0))).
    split; [exact Hfull|]. split; [exact Hj|].
    split; [rewrite blen_app; lia|].
    split; [destruct Hcut as [(Hm0 & _)|(c & d & Hn & Ha & Hb & _)]; [left; exact Hm0|right; exists c, d; auto]|].
    split; [|split; [exact C2|split; [exact C3|]]].
    - unfold brp_run. rewrite Hopen. f_equal. f_equal.
      destruct (brp_walk hok o w st0) as [steps [e fin]]. cbn [fst snd] in *. rewrite C1. reflexivity.
    - intros A B. destruct (C4 A B) as (e' & He & Hne). exists e'. split; assumption.
  Qed.
End V2Inside.
