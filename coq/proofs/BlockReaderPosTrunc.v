(* C14, extension round: a walk over any PREFIX of a valid CARv1 returns exactly the first steps
   (blocks, metadata, positions) of the walk over the whole archive -- as many as there are whole
   sections in the prefix -- and then, if the choices go on, a clean io.EOF only when the cut is on
   a section boundary and a loud error otherwise.  Never a short block, never a wrong offset. *)
From GoCar Require Import Bytes Varint Cid Header Frame V2Header Scan BlockReaderPos.
From GoCarProofs Require Import BytesFacts VarintFacts CidFacts HeaderFacts ScanFacts
  BlockReaderPosFacts BlockReaderPosValid BlockReaderPosC14 ScanTrunc ScanTruncWalk.

(* ---- the expected walk of a prefix of the blocks / of the choices --------------------------- *)
Lemma exp_walk_firstn2 sp base : forall w j bs off hw,
  fst (exp_walk sp base (firstn j w) (firstn j bs) off hw) = firstn j (fst (exp_walk sp base w bs off hw)).
Proof.
  induction w as [|ch w IH]; intros j bs off hw.
  - rewrite firstn_nil. cbn. rewrite firstn_nil. reflexivity.
  - destruct j as [|j]; [reflexivity|]. destruct bs as [|[c d] bs]; [reflexivity|].
    cbn [firstn exp_walk fst]. rewrite IH. reflexivity.
Qed.

Lemma exp_walk_short sp base : forall w bs off hw, (length w <= length bs)%nat ->
  snd (exp_walk sp base w bs off hw) = None.
Proof.
  intros. rewrite exp_walk_end. destruct (length bs <? length w)%nat eqn:E; [apply Nat.ltb_lt in E; lia|reflexivity].
Qed.

(* every prefix of the sections is whole sections followed by nothing or by a cut section *)
Lemma sections_prefix : forall bs m, m <= blen (enc_sections bs) ->
  exists j m' cut, (j <= length bs)%nat /\
    take m (enc_sections bs) = enc_sections (firstn j bs) ++ cut /\
    m = blen (enc_sections (firstn j bs)) + m' /\
    ((m' = 0 /\ cut = []) \/
     (exists c d, nth_error bs j = Some (c, d) /\ 0 < m' /\ m' < blen (enc_section c d) /\
                  cut = take m' (enc_section c d))).
Proof.
  induction bs as [|[c d] bs IH]; intros m Hm.
  - exists 0%nat, 0, []. change (enc_sections []) with (@nil byte) in *. rewrite blen_nil in Hm. assert (m = 0) by lia. subst.
    split; [lia|]. split; [reflexivity|]. split; [reflexivity|left; auto].
  - rewrite enc_sections_cons in *. cbn [fst snd] in *.
    destruct (N.eq_dec m 0) as [->|Hm0].
    + exists 0%nat, 0, []. split; [cbn; lia|]. split; [rewrite take_0; reflexivity|]. split; [cbn [firstn]; change (enc_sections []) with (@nil byte); rewrite blen_nil; lia|left; auto].
    + destruct (N.ltb_spec m (blen (enc_section c d))) as [Hlt|Hge].
      * exists 0%nat, m, (take m (enc_section c d)). split; [cbn; lia|].
        split; [rewrite take_app_le by lia; reflexivity|]. split; [cbn [firstn]; change (enc_sections []) with (@nil byte); rewrite blen_nil; lia|].
        right. exists c, d. repeat split; try reflexivity; lia.
      * destruct (IH (m - blen (enc_section c d))) as (j & m' & cut & Hj & Ht & Hmm & Hc).
        { rewrite blen_app in Hm. lia. }
        exists (S j), m', cut. split; [cbn; lia|].
        split; [rewrite take_app_ge by lia; rewrite Ht; cbn [firstn]; rewrite enc_sections_cons; cbn [fst snd]; rewrite <- app_assoc; reflexivity|].
        split; [cbn [firstn]; rewrite enc_sections_cons; cbn [fst snd]; rewrite blen_app; lia|].
        destruct Hc as [Hc|(c' & d' & Hn & H1 & H2 & H3)]; [left; exact Hc|].
        right. exists c', d'. repeat split; assumption.
Qed.

Section Oracles.
  Variable hok : bytes -> bytes -> option bool.
  Variable hdrdec : bytes -> option (list bytes * N).

  (* the walk over whole sections followed by anything, while the choices last *)
  Lemma walk_within_sections o : forall w bs st pre rem tr,
    blocks_ok hok o bs -> (length w <= length bs)%nat ->
    at_bytes st pre (enc_sections bs ++ rem) tr -> p_off st = blen pre -> rsize_inv st ->
    fst (brp_walk hok o w st) = fst (exp_walk (seekpath st) (p_v1off st) w bs (blen pre) (p_hw st)) /\
    fst (snd (brp_walk hok o w st)) = None.
  Proof.
    induction w as [|ch w IH]; intros bs st pre rem tr Hbs Hlen Hat Hoff Hrs; [split; reflexivity|].
    destruct bs as [|[c d] bs]; [cbn in Hlen; lia|].
    destruct Hbs as (Hok & Hst & Hh).
    inversion Hok as [|? ? Hb Hok']; subst. inversion Hst as [|? ? Hs Hst']; subst. cbn [fst] in Hs.
    assert (Hbs' : blocks_ok hok o bs).
    { split; [exact Hok'|split; [exact Hst'|]]. intros Ht. specialize (Hh Ht). inversion Hh; assumption. }
    rewrite enc_sections_cons in Hat; cbn [fst snd] in Hat; rewrite <- app_assoc in Hat.
    assert (Hss : uv_size (blen c + blen d) + (blen c + blen d) = section_size c d)
      by (unfold section_size, ld_size; lia).
    cbn [length] in Hlen.
    destruct ch; cbn [brp_walk exp_walk orb].
    - destruct (brp_next_at hok o st pre c d _ tr Hat Hoff Hb) as (st' & Hn & Hat' & Hoff' & Hhw & (Hk1 & Hk2 & Hk3) & Hrs').
      { intros Ht. specialize (Hh Ht). inversion Hh; assumption. }
      rewrite Hn. cbn [fst snd].
      destruct (IH bs st' (pre ++ enc_section c d) rem tr Hbs' ltac:(lia) Hat' Hoff' (Hrs' Hrs)) as (I1 & I2).
      assert (Hsp : seekpath st' = seekpath st) by (unfold seekpath; rewrite Hk1, Hk3; reflexivity).
      rewrite Hsp, Hk2, Hhw in I1. rewrite blen_app, blen_enc_section in I1.
      destruct Hat' as (_ & Hpos' & _). rewrite Hpos', blen_app, blen_enc_section, Hhw, Hss, I1.
      split; [reflexivity|exact I2].
    - destruct (brp_skip_at hok o st pre c d _ tr Hat Hoff Hb Hs Hrs) as (st' & Hn & Hat' & Hoff' & Hhw & (Hk1 & Hk2 & Hk3) & Hrs').
      rewrite Hn. cbn [fst snd].
      destruct (IH bs st' (pre ++ enc_section c d) rem tr Hbs' ltac:(lia) Hat' Hoff' Hrs') as (I1 & I2).
      assert (Hsp : seekpath st' = seekpath st) by (unfold seekpath; rewrite Hk1, Hk3; reflexivity).
      rewrite Hsp, Hk2 in I1. rewrite blen_app, blen_enc_section in I1.
      destruct Hat' as (_ & Hpos' & _). rewrite Hpos', blen_app, blen_enc_section, Hss.
      assert (Hhw2 : p_hw st' = (if negb (seekpath st) then N.max (p_hw st) (blen pre + section_size c d)
                                 else N.max (p_hw st) (blen pre + uv_size (blen c + blen d) + blen c))).
      { rewrite Hhw. destruct (seekpath st); reflexivity. }
      rewrite <- Hhw2, I1. split; [reflexivity|exact I2].
  Qed.

  (* ... and when the choices outlast the whole sections: the first |bs| steps, then the walk from
     the state in front of what follows *)
  Lemma walk_past_sections o : forall bs w1 w2 st pre rem tr,
    blocks_ok hok o bs -> length w1 = length bs ->
    at_bytes st pre (enc_sections bs ++ rem) tr -> p_off st = blen pre -> rsize_inv st ->
    exists st', at_bytes st' (pre ++ enc_sections bs) rem tr /\ rsize_inv st' /\
      fst (brp_walk hok o (w1 ++ w2) st)
      = fst (exp_walk (seekpath st) (p_v1off st) w1 bs (blen pre) (p_hw st)) ++ fst (brp_walk hok o w2 st') /\
      fst (snd (brp_walk hok o (w1 ++ w2) st)) = fst (snd (brp_walk hok o w2 st')).
  Proof.
    induction bs as [|[c d] bs IH]; intros w1 w2 st pre rem tr Hbs Hlen Hat Hoff Hrs.
    - destruct w1; [|discriminate]. exists st. change (enc_sections []) with (@nil byte) in *.
      rewrite app_nil_r. cbn [app] in *. split; [exact Hat|]. split; [exact Hrs|]. split; reflexivity.
    - destruct w1 as [|ch w1]; [discriminate|]. cbn [length] in Hlen.
      destruct Hbs as (Hok & Hst & Hh).
      inversion Hok as [|? ? Hb Hok']; subst. inversion Hst as [|? ? Hs Hst']; subst. cbn [fst] in Hs.
      assert (Hbs' : blocks_ok hok o bs).
      { split; [exact Hok'|split; [exact Hst'|]]. intros Ht. specialize (Hh Ht). inversion Hh; assumption. }
      rewrite enc_sections_cons in Hat; cbn [fst snd] in Hat; rewrite <- app_assoc in Hat.
      assert (Hss : uv_size (blen c + blen d) + (blen c + blen d) = section_size c d)
        by (unfold section_size, ld_size; lia).
      assert (Happ : pre ++ enc_sections ((c, d) :: bs) = (pre ++ enc_section c d) ++ enc_sections bs)
        by (rewrite enc_sections_cons; cbn [fst snd]; rewrite <- app_assoc; reflexivity).
      destruct ch; cbn [app brp_walk exp_walk orb].
      + destruct (brp_next_at hok o st pre c d _ tr Hat Hoff Hb) as (st1 & Hn & Hat' & Hoff' & Hhw & (Hk1 & Hk2 & Hk3) & Hrs').
        { intros Ht. specialize (Hh Ht). inversion Hh; assumption. }
        rewrite Hn. cbn [fst snd].
        destruct (IH w1 w2 st1 (pre ++ enc_section c d) rem tr Hbs' ltac:(lia) Hat' Hoff' (Hrs' Hrs)) as (st' & A1 & A2 & A3 & A4).
        rewrite <- Happ in A1. exists st'. split; [exact A1|]. split; [exact A2|].
        assert (Hsp : seekpath st1 = seekpath st) by (unfold seekpath; rewrite Hk1, Hk3; reflexivity).
        rewrite Hsp, Hk2, Hhw in A3. rewrite blen_app, blen_enc_section in A3.
        destruct Hat' as (_ & Hpos' & _). rewrite Hpos', blen_app, blen_enc_section, Hhw, Hss, A3.
        split; [reflexivity|exact A4].
      + destruct (brp_skip_at hok o st pre c d _ tr Hat Hoff Hb Hs Hrs) as (st1 & Hn & Hat' & Hoff' & Hhw & (Hk1 & Hk2 & Hk3) & Hrs').
        rewrite Hn. cbn [fst snd].
        destruct (IH w1 w2 st1 (pre ++ enc_section c d) rem tr Hbs' ltac:(lia) Hat' Hoff' Hrs') as (st' & A1 & A2 & A3 & A4).
        rewrite <- Happ in A1. exists st'. split; [exact A1|]. split; [exact A2|].
        assert (Hsp : seekpath st1 = seekpath st) by (unfold seekpath; rewrite Hk1, Hk3; reflexivity).
        rewrite Hsp, Hk2 in A3. rewrite blen_app, blen_enc_section in A3.
        destruct Hat' as (_ & Hpos' & _). rewrite Hpos', blen_app, blen_enc_section, Hss.
        assert (Hhw2 : p_hw st1 = (if negb (seekpath st) then N.max (p_hw st) (blen pre + section_size c d)
                                   else N.max (p_hw st) (blen pre + uv_size (blen c + blen d) + blen c))).
        { rewrite Hhw. destruct (seekpath st); reflexivity. }
        rewrite <- Hhw2, A3. split; [reflexivity|exact A4].
  Qed.

  Lemma blocks_ok_firstn o bs j : blocks_ok hok o bs -> blocks_ok hok o (firstn j bs).
  Proof.
    intros (H1 & H2 & H3). split; [apply Forall_firstn; exact H1|]. split; [apply Forall_firstn; exact H2|].
    intros Ht. apply Forall_firstn. exact (H3 Ht).
  Qed.

  (* ---- the theorem ------------------------------------------------------------------------- *)
  Theorem c14_prefix_walk_v1 o seek roots bs w k :
    hdrdec (enc_header (Some roots) 1) = Some (roots, 1) ->
    blen (enc_header (Some roots) 1) <= o_maxh o -> blen (enc_header (Some roots) 1) < two63 ->
    Forall (block_ok (o_maxs o)) bs -> Forall (fun b => cid_stream_ok (fst b)) bs ->
    (o_trusted o = false -> Forall (hash_good hok) bs) ->
    blen (ld (enc_header (Some roots) 1)) <= k -> k <= blen (enc_payload roots bs) ->
    exists j m st_full full e_full fin_full st0 e fin,
      (* the walk over the whole archive *)
      brp_run hok hdrdec o seek (enc_payload roots bs) w = Ok (1, roots, st_full, (full, (e_full, fin_full))) /\
      (* where the cut falls: after j whole sections, m bytes into the next one *)
      (j <= length bs)%nat /\
      k = blen (ld (enc_header (Some roots) 1) ++ enc_sections (firstn j bs)) + m /\
      (m = 0 \/ exists c d, nth_error bs j = Some (c, d) /\ 0 < m /\ m < blen (enc_section c d)) /\
      (* the walk over the prefix: the same first steps, then the end *)
      brp_run hok hdrdec o seek (take k (enc_payload roots bs)) w
      = Ok (1, roots, st0, (firstn j full, (e, fin))) /\
      ((length w <= j)%nat -> e = None) /\
      ((j < length w)%nat -> m = 0 -> e = Some EEof) /\
      ((j < length w)%nat -> 0 < m -> exists e', e = Some e' /\ e' <> EEof).
  Proof.
    intros H1 H2 H3 H4 H5 H6 Hk1 Hk2.
    pose proof (walk_ok_intro hok hdrdec o roots bs H1 H2 H3 H4 H5 H6) as Hok.
    destruct (brp_run_v1 hok hdrdec o seek roots bs w Hok) as (st_full & fin_full & Hfull & _).
    cbn zeta in Hfull. set (h := sec_start roots bs 0) in *.
    set (full := fst (exp_walk seek 0 w bs h h)) in *.
    set (hb := enc_header (Some roots) 1) in *.
    assert (Hh : h = blen (ld hb)) by (unfold h; apply sec_start_0).
    unfold enc_payload in Hk2 |- *. fold hb in Hk2 |- *. rewrite blen_app in Hk2.
    destruct (sections_prefix bs (k - blen (ld hb)) ltac:(lia)) as (j & m & cut & Hj & Ht & Hm & Hcut).
    exists j, m, st_full, full, (snd (exp_walk seek 0 w bs h h)), fin_full.
    rewrite take_app_ge by lia. rewrite Ht.
    set (x := enc_sections (firstn j bs) ++ cut).
    set (st0 := mkbrp (ld hb ++ x) seek (ld_size (blen hb)) (ld_size (blen hb)) None (header_size roots 1) 0 None).
    assert (Hopen : brp_open hdrdec o seek (ld hb ++ x) = Ok (1, roots, st0)).
    { unfold brp_open. unfold hb. rewrite (read_header_payload hdrdec (o_maxh o) roots x H1 H2 H3). reflexivity. }
    assert (Hat : at_bytes st0 (ld hb) x []).
    { unfold at_bytes, st0. cbn [p_all p_pos p_lim]. rewrite app_nil_r, blen_ld. repeat split. }
    assert (Hoff : p_off st0 = blen (ld hb)) by (unfold st0, header_size; cbn [p_off]; rewrite blen_ld; reflexivity).
    assert (Hbsj : blocks_ok hok o (firstn j bs)) by (apply blocks_ok_firstn; apply (walk_ok_blocks hok hdrdec o roots bs Hok)).
    assert (Hsp : seekpath st0 = seek) by (unfold seekpath, st0; cbn; apply andb_true_r).
    assert (Hhw0 : p_hw st0 = h) by (unfold st0; cbn [p_hw]; rewrite Hh, blen_ld; reflexivity).
    assert (Hlenj : length (firstn j bs) = j) by (apply firstn_length_le; exact Hj).
    unfold brp_run. rewrite Hopen.
    assert (Hkeq : k = blen (ld hb ++ enc_sections (firstn j bs)) + m) by (rewrite blen_app; lia).
    assert (Hmcase : m = 0 \/ exists c d, nth_error bs j = Some (c, d) /\ 0 < m /\ m < blen (enc_section c d)).
    { destruct Hcut as [(Hm0 & _)|(c & d & Hn & Ha & Hb & _)]; [left; exact Hm0|right; exists c, d; auto]. }
    destruct (Nat.le_gt_cases (length w) j) as [Hwj|Hwj].
    - (* the choices run out within the whole sections *)
      destruct (walk_within_sections o w (firstn j bs) st0 (ld hb) cut [] Hbsj ltac:(lia) Hat Hoff I) as (W1 & W2).
      rewrite Hsp, Hhw0, <- Hh in W1. change (p_v1off st0) with 0 in W1.
      exists st0, None, (snd (snd (brp_walk hok o w st0))).
      split; [exact Hfull|]. split; [exact Hj|]. split; [exact Hkeq|]. split; [exact Hmcase|].
      split; [|split; [reflexivity|split; intros; lia]].
      f_equal. f_equal.
      destruct (brp_walk hok o w st0) as [steps [e fin]]. cbn [fst snd] in *. subst e. f_equal.
      rewrite W1. unfold full. rewrite <- exp_walk_firstn2. rewrite (firstn_all2 (n := j) w) by lia. reflexivity.
    - (* the choices reach the cut *)
      assert (Hl1 : length (firstn j w) = length (firstn j bs)) by (rewrite Hlenj; apply firstn_length_le; lia).
      destruct (walk_past_sections o (firstn j bs) (firstn j w) (skipn j w) st0 (ld hb) cut [] Hbsj Hl1 Hat Hoff I)
        as (st' & A1 & A2 & A3 & A4).
      rewrite Hsp, Hhw0, <- Hh in A3. change (p_v1off st0) with 0 in A3.
      rewrite exp_walk_firstn2 in A3. fold full in A3. rewrite firstn_skipn in A3, A4.
      destruct (skipn j w) as [|ch w2] eqn:Esk.
      { exfalso. assert (length (skipn j w) = 0%nat) by (rewrite Esk; reflexivity). rewrite skipn_length in H. lia. }
      pose proof (vis_at _ _ _ _ A1) as Hvis.
      assert (Hend : fst (brp_walk hok o (ch :: w2) st') = [] /\
                     ((m = 0 -> fst (snd (brp_walk hok o (ch :: w2) st')) = Some EEof) /\
                      (0 < m -> exists e', fst (snd (brp_walk hok o (ch :: w2) st')) = Some e' /\ e' <> EEof))).
      { destruct Hcut as [(Hm0 & ->)|(c & d & Hn & Ha & Hb & ->)].
        - assert (E1 : brp_next hok o st' = Err EEof) by (eapply brp_next_end; exact A1).
          assert (E2 : brp_skip o st' = Err EEof) by (eapply brp_skip_end; exact A1).
          destruct ch; cbn [brp_walk]; [rewrite E1|rewrite E2]; cbn [fst snd];
            (split; [reflexivity|split; [reflexivity|intros; lia]]).
        - assert (Hbc : block_ok (o_maxs o) (c, d)) by (eapply Forall_nth; eassumption).
          destruct (cut_section_calls_fail hok hdrdec o st' c d m Hbc Ha Hb Hvis (rsize_inv_ok st' A2))
            as ((e1 & Hne1 & He1) & (e2 & Hne2 & He2)).
          destruct ch; cbn [brp_walk]; [rewrite He1|rewrite He2]; cbn [fst snd];
            (split; [reflexivity|split; [intros; lia|intros _; eexists; split; [reflexivity|assumption]]]). }
      destruct Hend as (Hs0 & Hm0 & Hm1).
      rewrite Hs0, app_nil_r in A3.
      exists st0, (fst (snd (brp_walk hok o w st0))), (snd (snd (brp_walk hok o w st0))).
      split; [exact Hfull|]. split; [exact Hj|]. split; [exact Hkeq|]. split; [exact Hmcase|].
      split; [|split; [intros; lia|split]].
      + f_equal. f_equal. destruct (brp_walk hok o w st0) as [steps [e fin]].
        cbn [fst snd] in *. rewrite A3. reflexivity.
      + intros _ Hz. rewrite A4. apply Hm0. exact Hz.
      + intros _ Hp. rewrite A4. destruct (Hm1 Hp) as (e' & He' & Hne). exists e'. split; assumption.
  Qed.
End Oracles.

(* ---- CARv2: a prefix that still holds the whole payload walks exactly like the whole file ------- *)
Section V2.
  Variable hok : bytes -> bytes -> option bool.
  Variable hdrdec : bytes -> option (list bytes * N).

  Lemma v2_file_take hi lo ioff pad payload trailer k :
    51 + blen pad + blen payload <= k ->
    take k (v2_file hi lo ioff pad payload trailer)
    = v2_file hi lo ioff pad payload (take (k - (51 + blen pad + blen payload)) trailer).
  Proof.
    intros Hk. unfold v2_file.
    set (h := enc_v2hdr (mkv2 hi lo (51 + blen pad) (blen payload) ioff)).
    assert (Hh : blen h = 40) by apply blen_enc_v2hdr.
    replace (pragma ++ h ++ pad ++ payload ++ trailer) with ((pragma ++ h ++ pad ++ payload) ++ trailer)
      by (rewrite <- !app_assoc; reflexivity).
    assert (Hl : blen (pragma ++ h ++ pad ++ payload) = 51 + blen pad + blen payload)
      by (rewrite !blen_app, Hh, blen_pragma; lia).
    rewrite take_app_ge by lia. rewrite Hl, <- !app_assoc. reflexivity.
  Qed.

  Theorem c14_prefix_walk_v2_after_payload o seek roots bs w hi lo ioff pad trailer k :
    hdrdec (enc_header (Some roots) 1) = Some (roots, 1) ->
    blen (enc_header (Some roots) 1) <= o_maxh o -> blen (enc_header (Some roots) 1) < two63 ->
    Forall (block_ok (o_maxs o)) bs -> Forall (fun b => cid_stream_ok (fst b)) bs ->
    (o_trusted o = false -> Forall (hash_good hok) bs) ->
    hdrdec pragma_body = Some ([], 2) -> 10 <= o_maxh o ->
    hi < two64 -> lo < two64 -> ioff < two63 ->
    51 + blen pad < two63 -> blen (enc_payload roots bs) < two63 ->
    51 + blen pad + blen (enc_payload roots bs) <= k ->
    exists st0 st0' steps e fin fin',
      brp_run hok hdrdec o seek (v2_file hi lo ioff pad (enc_payload roots bs) trailer) w
      = Ok (2, roots, st0, (steps, (e, fin))) /\
      brp_run hok hdrdec o seek (take k (v2_file hi lo ioff pad (enc_payload roots bs) trailer)) w
      = Ok (2, roots, st0', (steps, (e, fin'))).
  Proof.
    intros H1 H2 H3 H4 H5 H6 P1 P2 P3 P4 P5 P6 P7 Hk.
    pose proof (walk_ok_intro hok hdrdec o roots bs H1 H2 H3 H4 H5 H6) as Hok.
    assert (Hpar : v2_params_ok hdrdec o hi lo ioff pad (enc_payload roots bs)) by (repeat split; assumption).
    rewrite v2_file_take by exact Hk.
    destruct (brp_run_v2 hok hdrdec o seek roots bs w hi lo ioff pad trailer Hok Hpar) as (st0 & fin & Hr & _).
    destruct (brp_run_v2 hok hdrdec o seek roots bs w hi lo ioff pad
                (take (k - (51 + blen pad + blen (enc_payload roots bs))) trailer) Hok Hpar) as (st0' & fin' & Hr' & _).
    cbn zeta in *. eexists st0, st0', _, _, fin, fin'. split; [exact Hr|exact Hr'].
  Qed.
End V2.
