(* C16, part 5: after any history under any fault script every read operation answers as the reference
   map (StoreSpec.v, C04) holding exactly the acknowledged blocks.  Reuses C04's read-side lemmas
   (StoreSpecFacts.v): all they need is that the payload of those blocks sits at the data offset
   and the index is theirs -- [Readable], which the session invariant carries through failed
   writes, failed truncations and failed Finalize calls. *)
From GoCar Require Import Bytes Varint Cid Header Frame V2Header Index Store StoreSpec Fault.
From GoCarProofs Require Import BytesFacts VarintFacts CidFacts HeaderFacts ScanFacts StoreInv StoreSpecFacts
                                FaultDev FaultWf FaultInv FaultMain.

(* ---- every acknowledged block was handed to a Put and its CID parses --------------------------------- *)
Section AckedForall.
  Variable P : blk -> Prop.
  Variables (o : wopts) (start : N).

  Lemma spec_put_forall st c d : Forall P st -> (cid_parse c <> None -> P (c, d)) -> Forall P (spec_put o start st c d).
  Proof.
    intros Hst Hp. unfold spec_put. destruct (cid_parse c) as [p|] eqn:E; [|exact Hst].
    destruct (should_put o (idx_of start st) c p) as [[|]|]; try exact Hst.
    apply Forall_app. split; [exact Hst|]. constructor; [apply Hp; discriminate|constructor].
  Qed.
  Lemma spec_put_all_forall bs : forall st, Forall P st ->
    Forall (fun b => cid_parse (fst b) <> None -> P b) bs -> Forall P (spec_put_all o start st bs).
  Proof.
    unfold spec_put_all. induction bs as [|[c d] t IH]; intros st Hst Hbs; [exact Hst|]. cbn [fold_left fst snd].
    inversion Hbs as [|? ? Hb Ht]; subst. apply IH; [|exact Ht]. apply spec_put_forall; assumption.
  Qed.
  Lemma spec_put_upto_forall bs : forall st n, Forall P st ->
    Forall (fun b => cid_parse (fst b) <> None -> P b) bs -> Forall P (spec_put_upto o start st bs n).
  Proof.
    induction bs as [|[c d] t IH]; intros st n Hst Hbs; cbn [spec_put_upto]; [exact Hst|].
    destruct (n =? 0); [exact Hst|]. inversion Hbs as [|? ? Hb Ht]; subst.
    apply IH; [|exact Ht]. apply spec_put_forall; assumption.
  Qed.
  Lemma acked_from_forall ops : forall st obs, Forall P st ->
    Forall (fun op => Forall (fun b => cid_parse (fst b) <> None -> P b) (op_blocks op)) ops ->
    Forall P (acked_from o start st ops obs).
  Proof.
    induction ops as [|op t IH]; intros st obs Hst Hops; [destruct obs; exact Hst|].
    destruct obs as [|ob obs]; [exact Hst|]. cbn [acked_from]. inversion Hops as [|? ? Hop Ht]; subst.
    apply IH; [|exact Ht]. unfold ack_step. destruct op; cbn [op_blocks] in Hop; try exact Hst.
    - inversion Hop; subst. destruct (is_nil (fst ob)); [apply spec_put_forall; assumption|exact Hst].
    - destruct (is_nil (fst ob)); [apply spec_put_all_forall|apply spec_put_upto_forall]; assumption.
  Qed.
End AckedForall.

(* what a history may put (C04's side condition): CIDs that do not parse are rejected by the stores; the
   others are CIDs go-cid produces and the section fits the reader's MaxAllowedSectionSize *)
Definition puts_ok (o : wopts) (ops : list fop) : Prop :=
  Forall (fun op => Forall (fun b => cid_parse (fst b) <> None -> blk_ok (w_maxs o) b) (op_blocks op)) ops.

(* ---- a readable state answers like the map --------------------------------------------------------------- *)
Section Reads.
  Variables (kn : N) (o : wopts) (nilroots : bool) (roots : list bytes).
  Let hb := enc_header (roots_opt nilroots roots) 1.

  Lemma readable_inv s st : Readable o nilroots roots s st -> ws_opts s = o ->
    Inv (set_dev s (ws_dev s) (blen (ld hb ++ sections st))) hb st.
  Proof.
    intros ((pre & post & Hf & Hpre) & Hi & _) Ho. constructor.
    - exists pre, post. cbn [set_dev ws_opts]. rewrite Ho. split; [|exact Hpre].
      change (ws_file (set_dev s (ws_dev s) (blen (ld hb ++ sections st)))) with (ws_file s).
      rewrite Hf. unfold payload. fold hb. rewrite <- app_assoc. reflexivity.
    - reflexivity.
    - cbn [set_dev ws_idx]. rewrite Hi. unfold idx_of, hdr_len. fold hb. rewrite blen_ld. reflexivity.
  Qed.

  Lemma readable_queries s st :
    Readable o nilroots roots s st -> ws_opts s = o -> Forall (blk_ok (w_maxs o)) st ->
    let m := mkm st (ws_closed s) (ws_finalized s) in
    (forall c, bs_has s c = m_has o m c) /\ (forall c, bs_get s c = m_get o m c) /\
    (forall c, st_get s true c = m_get o m c) /\
    (forall c, bs_getsize s c = m_getsize o m c) /\ bs_allkeys s = m_keys o m.
  Proof.
    intros Hr Ho Hok m.
    set (s1 := set_dev s (ws_dev s) (blen (ld hb ++ sections st))).
    pose proof (readable_inv s st Hr Ho) as HI. fold s1 in HI.
    assert (Ho1 : ws_opts s1 = o) by exact Ho.
    assert (Hpar : Forall parses st) by (eapply Forall_impl; [|exact Hok]; intros b; apply blk_ok_parses).
    split; [|split; [|split; [|split]]].
    - intros c. change (bs_has s c) with (bs_has s1 c). unfold bs_has, m_has.
      destruct (cid_parse c) as [p|] eqn:Hp; [|reflexivity]. rewrite Ho1.
      change (ws_closed s1) with (m_closed m). destruct (m_closed m); [reflexivity|].
      rewrite (store_has_spec o s1 hb st c p HI Hpar Hp).
      destruct (negb (w_storeid o) && is_identity p); reflexivity.
    - intros c. change (bs_get s c) with (bs_get s1 c). unfold bs_get, m_get.
      destruct (cid_parse c) as [p|] eqn:Hp; [|reflexivity]. rewrite Ho1.
      destruct (negb (w_storeid o) && is_identity p); [reflexivity|].
      change (ws_closed s1) with (m_closed m). destruct (m_closed m); [reflexivity|].
      rewrite (ws_find_rb o s1 hb st c p HI Ho1 Hok Hp). cbn [m_blocks m].
      destruct (m_lookup o st c); reflexivity.
    - intros c. change (st_get s true c) with (st_get s1 true c). unfold st_get, m_get. cbn [negb].
      destruct (cid_parse c) as [p|] eqn:Hp; [|reflexivity]. rewrite Ho1.
      destruct (negb (w_storeid o) && is_identity p); [reflexivity|].
      change (ws_closed s1) with (m_closed m). destruct (m_closed m); [reflexivity|].
      pose proof (ws_find_sz o s1 hb st c p HI Ho1 Hok Hp) as Hfs. cbn [m_blocks m].
      destruct (m_lookup o st c) as [b|].
      + destruct Hfs as (off & Hfs & Htake). rewrite Hfs.
        replace (Z.of_N (blen (snd b)) <? 0)%Z with false by lia. rewrite N2Z.id, Htake. reflexivity.
      + rewrite Hfs. reflexivity.
    - intros c. change (bs_getsize s c) with (bs_getsize s1 c). unfold bs_getsize, m_getsize.
      destruct (cid_parse c) as [p|] eqn:Hp; [|reflexivity].
      destruct (is_identity p); [reflexivity|].
      change (ws_closed s1) with (m_closed m). destruct (m_closed m); [reflexivity|].
      pose proof (ws_find_sz o s1 hb st c p HI Ho1 Hok Hp) as Hfs. cbn [m_blocks m].
      destruct (m_lookup o st c) as [b|].
      + destruct Hfs as (off & Hfs & _). rewrite Hfs. reflexivity.
      + rewrite Hfs. reflexivity.
    - unfold bs_allkeys, m_keys. rewrite Ho. change (ws_closed s) with (m_closed m). destruct (m_closed m); [reflexivity|].
      f_equal. destruct Hr as (_ & Hi & _). rewrite Hi. cbn [m_blocks m]. unfold idx_of.
      change (ii_load (records_from (hdr_len nilroots roots) st) []) with (sort_by_digest (records_from (hdr_len nilroots roots) st)).
      apply (listed_keys_offset_free (w_whole o) (hdr_len nilroots roots) 0 st).
  Qed.
End Reads.

(* ---- the theorem over histories ------------------------------------------------------------------------- *)
Theorem reads_refine_map hdrdec kn o nilroots roots faults ops s0 sn tr :
  hdr_ok nilroots roots ->
  forallb (op_okb kn) ops = true -> ops_small ops -> puts_ok o ops ->
  fopen kn o nilroots roots faults = Ok s0 ->
  frun hdrdec kn s0 ops = (sn, tr) ->
  51 + w_dpad o + w_ipad o
     + blen (fpayload nilroots roots (acked o nilroots roots ops (map obs_of tr))) < two63 ->
  forall q r,
    spec_query kn o (mkm (acked o nilroots roots ops (map obs_of tr)) (ws_closed sn) (ws_finalized sn)) q = Some r ->
    fstep hdrdec kn sn q = (sn, r).
Proof.
  intros Hh Hok Hsm Hput Hopen Hrun Hb q r Hq.
  pose proof (fits_of_bound _ _ Hb) as Hfit.
  pose proof (session_inv hdrdec kn o nilroots roots faults ops s0 sn tr Hfit Hh Hok Hsm Hopen Hrun) as HI.
  set (st := acked o nilroots roots ops (map obs_of tr)) in *.
  pose proof (fi_read _ _ _ _ _ _ HI Hb) as Hr.
  assert (Hokst : Forall (blk_ok (w_maxs o)) st).
  { unfold st, acked. apply acked_from_forall; [constructor|exact Hput]. }
  destruct (readable_queries o nilroots roots sn st Hr (fi_opts _ _ _ _ _ _ HI) Hokst) as (Hhas & Hget & Hsget & Hsz & Hkeys).
  destruct q; cbn [spec_query] in Hq; try discriminate; inversion Hq; subst r; clear Hq; unfold fstep.
  - (* Has: the storage front-ends answer with the same function *)
    f_equal. destruct (kn =? 0); [apply Hhas|]. change (st_has sn c) with (bs_has sn c). apply Hhas.
  - (* Get *)
    f_equal. destruct (kn =? 0) eqn:E0; cbn [orb]; [apply Hget|].
    destruct (kn =? 1) eqn:E1; [apply Hsget|]. reflexivity.
  - f_equal. apply Hsz.
  - f_equal. apply Hkeys.
Qed.

(* ---- the theorem applied to a faulted session ------------------------------------------------------------- *)
Lemma ex_blk_ok (b : byte) : blk_ok default_maxs ([x01; x55; x00; x01; b], [b]).
Proof.
  split; [|split; [vm_compute; discriminate|vm_compute; reflexivity]]. exists (mkcid 1 85 0 [b]). split; [|split].
  - right. repeat split; vm_compute; try reflexivity; discriminate.
  - reflexivity.
  - vm_compute. discriminate.
Qed.

Lemma ex_puts_ok : puts_ok (ex_opts false) [FPut ex_c1 [x61]; FPut ex_c2 [x62]].
Proof.
  constructor; [|constructor; [|constructor]]; (constructor; [intros _|constructor]).
  - apply (ex_blk_ok x61).
  - apply (ex_blk_ok x62).
Qed.

(* storage on a file, CARv2: the first Put's CID write fails (nothing written of it), the second Put
   succeeds: Has / Get answer as the map holding exactly the second block *)
Example reads_applies : forall s0 sn tr,
  fopen 1 (ex_opts false) false [] ex_faults = Ok s0 ->
  frun dec_header_canon 1 s0 [FPut ex_c1 [x61]; FPut ex_c2 [x62]] = (sn, tr) ->
  fstep dec_header_canon 1 sn (FGet ex_c2) = (sn, OBytes [x62]) /\
  fstep dec_header_canon 1 sn (FGet ex_c1) = (sn, OErr ENotFound) /\
  fstep dec_header_canon 1 sn (FHas ex_c1) = (sn, OBool false).
Proof.
  intros s0 sn tr Hopen Hrun.
  assert (Hack : acked (ex_opts false) false [] [FPut ex_c1 [x61]; FPut ex_c2 [x62]] (map obs_of tr) = [(ex_c2, [x62])]
                 /\ ws_closed sn = false).
  { pose proof Hopen as Ho. vm_compute in Ho. inversion Ho; subst s0. clear Ho Hopen.
    vm_compute in Hrun. inversion Hrun; subst. vm_compute. split; reflexivity. }
  destruct Hack as [Hack Hcl].
  assert (Hsm : ops_small [FPut ex_c1 [x61]; FPut ex_c2 [x62]])
    by (repeat constructor; unfold blk_small; vm_compute; reflexivity).
  pose proof (reads_refine_map dec_header_canon 1 (ex_opts false) false [] ex_faults
                [FPut ex_c1 [x61]; FPut ex_c2 [x62]] s0 sn tr ex_hdr_ok eq_refl Hsm ex_puts_ok Hopen Hrun) as Hthm.
  rewrite Hack, Hcl in Hthm.
  assert (Hb : 51 + w_dpad (ex_opts false) + w_ipad (ex_opts false) + blen (fpayload false [] [(ex_c2, [x62])]) < two63)
    by (vm_compute; reflexivity).
  specialize (Hthm Hb).
  split; [|split]; apply Hthm; vm_compute; reflexivity.
Qed.
