(* C01: every writer's output, read by every reader, is the roots and the stored blocks; the CARv1 payload
   is the same whichever writer produced it. *)
From Coq Require Import Sorting.Sorted Permutation.
From GoCar Require Import Bytes Varint Cid Header Frame V2Header Scan Index Store ReadOnly RootLoad
  Wf Deferred Traversal.
From GoCarProofs Require Import BytesFacts VarintFacts CidFacts HeaderFacts ScanFacts StoreInv
  FinalCid FinalStore FinalWf FinalMain DeferredFacts TraversalRoot
  ReadOnlyFacts ReadOnlyRefine ReadOnlyIndex ReadOnlyRoundTrip ReadOnlyOpen ReadOnlyMain ReadOnlyReaders
  RoundTripBridge RoundTripWriters.

(* ---- root car.LoadCar --------------------------------------------------------------------------------- *)
Lemma fast_batches_concat bs : forall buf n l rest,
  fast_batches buf n bs = (l, rest) -> concat l ++ rest = rev buf ++ bs.
Proof.
  induction bs as [|b t IH]; intros buf n l rest H; cbn [fast_batches] in H.
  - inversion H; subst. cbn. rewrite app_nil_r. reflexivity.
  - destruct (Nat.leb 1000 n).
    + destruct (fast_batches [] 0 t) as [l' rest'] eqn:E. inversion H; subst.
      cbn [concat rev]. rewrite <- !app_assoc. rewrite (IH [] 0%nat l' rest E). reflexivity.
    + rewrite (IH (b :: buf) (S n) l rest H). cbn [rev]. rewrite <- app_assoc. reflexivity.
Qed.

Theorem load_car_reads_back fast hok hdrdec ro bs :
  hdrdec (enc_header ro 1) = Some (hdr_roots ro, 1) -> blen (enc_header ro 1) <= root_max_section ->
  hdr_roots ro <> [] -> Forall root_block_ok bs -> Forall (hash_good hok) bs ->
  exists puts, load_car hok hdrdec fast (ld (enc_header ro 1) ++ enc_sections bs) = (Ok (hdr_roots ro), puts) /\
               concat puts = bs.
Proof.
  intros Hg Hm Hne Hok Hh. unfold load_car. rewrite (root_read_all_v1 hok hdrdec ro bs Hg Hm Hne Hok Hh).
  cbn [s_end s_blocks err_eqb]. destruct fast.
  - destruct (fast_batches [] 0 bs) as [full rest] eqn:E. eexists. split; [reflexivity|].
    pose proof (fast_batches_concat bs [] 0%nat full rest E) as Hc. cbn [rev app] in Hc.
    rewrite concat_app. destruct rest; cbn [concat]; rewrite ?app_nil_r in *; exact Hc.
  - eexists. split; [reflexivity|]. induction bs as [|b t IH]; [reflexivity|]. cbn [map concat app].
    f_equal. apply IH; [exact (Forall_inv_tail Hok)|exact (Forall_inv_tail Hh)].
Qed.

(* ---- "writer W produced file f from roots ro, storing blocks bs, in container ct" ------------------------- *)
Inductive wrote : bytes -> option (list bytes) -> list block -> container -> Prop :=
| WSession k o nilroots roots h s outs :      (* blockstore.ReadWrite / storage.StorageCar on a file or stream *)
    session_fits k o (roots_opt nilroots roots) h ->
    session k o nilroots roots h = Ok (s, outs, ONil) ->
    wrote (ws_file s) (roots_opt nilroots roots) (spec_stored k o (roots_opt nilroots roots) h) (writer_ct o)
| WDeferred c ops s :                         (* deferred writer (path or stream), closed after >= 1 Put *)
    dc_faults c = [] ->                       (* healthy output target *)
    dc_kids c = [] ->                         (* ordinary OnPut callbacks *)
    d_inner (d_run c d_init ops) = Some s -> existsb is_close ops = true ->
    session_fits (dc_kind c) (eff_opts c) (roots_opt (dc_nilroots c) (dc_roots c)) [d_puts ops] ->
    wrote (d_bytes c (d_run c d_init ops)) (roots_opt (dc_nilroots c) (dc_roots c))
          (spec_stored (dc_kind c) (eff_opts c) (roots_opt (dc_nilroots c) (dc_roots c)) [d_puts ops])
          (writer_ct (eff_opts c))
| WRoot ro vs :                               (* root car.WriteCar / WriteCarWithWalker, walk succeeded *)
    wrote (fst (write_car ro vs true)) ro (first_occ vs) CV1.

Lemma wrote_car_file f ro bs ct : wrote f ro bs ct -> car_file ct ro bs 0 = Some f.
Proof.
  intros [k o nilroots roots h s outs Hfit Hs|c ops s Hnf Hnk Hin Hcl Hfit|ro' vs].
  - destruct (session_car_file k o nilroots roots h Hfit) as (s' & outs' & Hs' & Hf).
    rewrite Hs in Hs'. inversion Hs'; subst. exact Hf.
  - apply (deferred_car_file c ops s Hnf Hnk Hin Hcl Hfit).
  - apply write_car_car_file.
Qed.

(* the containers writers produce respect the CARv2 header limits *)
Lemma wrote_ct f ro bs ct : wrote f ro bs ct ->
  match ct with CV1 => True | CV2 chi clo _ _ _ => chi < two64 /\ clo < two64 end.
Proof.
  assert (G : forall o, match writer_ct o with CV1 => True | CV2 chi clo _ _ _ => chi < two64 /\ clo < two64 end).
  { intros o. unfold writer_ct. destruct (w_v1 o); [exact I|]. destruct (w_storeid o); unfold two64; lia. }
  intros [k o nilroots roots h s outs Hfit Hs|c ops s Hnf Hnk Hin Hcl Hfit|ro' vs]; try apply G. exact I.
Qed.

(* ---- writer x reader ---------------------------------------------------------------------------------------- *)
(* v2 BlockReader *)
Theorem rt_block_reader hok o f ro bs ct :
  wrote f ro bs ct -> archive_ok_o hok dec_header_canon o ro bs -> 10 <= o_maxh o -> blen f < two63 ->
  br_read_all hok dec_header_canon o f = Ok (ct_version ct, hdr_roots ro, mkscan bs EEof).
Proof.
  intros Hw Ha Hm Hl. apply (block_reader_reads_back hok o ct ro bs 0 f Ha (or_introl eq_refl) (wrote_car_file _ _ _ _ Hw)); [|exact Hl].
  pose proof (wrote_ct _ _ _ _ Hw) as Hc. destruct ct as [|chi clo dp ip emb]; [exact I|]. cbn. tauto.
Qed.

(* the CARv1 payload every writer emits for (ro, bs) *)
Definition payload_of (ro : option (list bytes)) (bs : list block) : bytes := ld (enc_header ro 1) ++ enc_sections bs.

(* v2 Reader: DataReader shows exactly that payload *)
Theorem rt_data_reader maxh f ro bs ct :
  wrote f ro bs ct -> roots_ok (hdr_roots ro) -> blen (enc_header ro 1) <= maxh -> 10 <= maxh -> blen f < two63 ->
  exists r, new_reader dec_header_canon maxh f = Ok r /\ data_window r = payload_of ro bs /\
            reader_roots dec_header_canon maxh r = Ok (hdr_roots ro).
Proof.
  intros Hw Hr Hm H10 Hl. pose proof (wrote_car_file _ _ _ _ Hw) as Hf. pose proof (wrote_ct _ _ _ _ Hw) as Hc.
  pose proof (canon_hdr_ro ro Hr) as Hh.
  assert (H63 : blen (enc_header ro 1) < two63).
  { pose proof (car_file_payload_le ct ro bs 0 f Hf) as Hle. rewrite payload_np_split, !blen_app, blen_ld in Hle.
    unfold ld_size in Hle. lia. }
  assert (Hrd : read_header dec_header_canon maxh (payload_np ro bs 0)
                = Ok (hdr_roots ro, 1, enc_sections bs ++ zerosN 0, ld_size (blen (enc_header ro 1)))).
  { rewrite payload_np_split. apply read_header_ld; assumption. }
  destruct ct as [|chi clo dp ip emb].
  - cbn [car_file] in Hf. inversion Hf; subst f. unfold new_reader. rewrite Hrd. cbn [N.eqb Pos.eqb].
    eexists. split; [reflexivity|]. split; [unfold data_window; cbn [rd_ver rd_file N.eqb Pos.eqb]; apply payload_np_0|].
    unfold reader_roots, data_window. cbn [rd_ver rd_file N.eqb Pos.eqb]. rewrite Hrd. reflexivity.
  - destruct (car_file_v2 ro bs 0 chi clo dp ip emb f Hf) as (ib & Hfile & _). destruct Hc as [Hchi Hclo].
    rewrite Hfile in Hl.
    destruct (v2_open_parts dec_header_canon chi clo dp ip (payload_np ro bs 0) ib maxh canon_pragma Hchi Hclo
                (payload_pos ro bs 0) Hl H10) as (h & Hr1 & Hw1 & _).
    rewrite <- Hfile in Hr1, Hw1. exists (mkrd 2 h f). split; [exact Hr1|]. split; [rewrite Hw1; apply payload_np_0|].
    unfold reader_roots. rewrite Hw1, Hrd. reflexivity.
Qed.

(* root-module reader and loader over that payload (for a CARv2 file: over its DataReader) *)
Theorem rt_root_reader hok ro bs :
  roots_ok (hdr_roots ro) -> blen (enc_header ro 1) <= root_max_section -> hdr_roots ro <> [] ->
  Forall root_block_ok bs -> Forall (hash_good hok) bs ->
  root_read_all hok dec_header_canon (payload_of ro bs) = Ok (hdr_roots ro, mkscan bs EEof).
Proof. intros Hr. apply root_read_all_v1. apply canon_hdr_ro. exact Hr. Qed.

Theorem rt_load_car fast hok ro bs :
  roots_ok (hdr_roots ro) -> blen (enc_header ro 1) <= root_max_section -> hdr_roots ro <> [] ->
  Forall root_block_ok bs -> Forall (hash_good hok) bs ->
  exists puts, load_car hok dec_header_canon fast (payload_of ro bs) = (Ok (hdr_roots ro), puts) /\ concat puts = bs.
Proof. intros Hr. apply load_car_reads_back. apply canon_hdr_ro. exact Hr. Qed.

(* limits of the random-access readers, on the stored blocks *)
Definition ra_limits (q : qopts) (ro : option (list bytes)) (bs : list block) (ct : container) : Prop :=
  roots_ok (hdr_roots ro) /\ limits_ok q ro bs 0 /\
  (q_codec q = codec_sorted \/ q_codec q = codec_mh_sorted) /\ 10 <= q_maxh q /\
  (ct <> CV1 -> N.of_nat (length bs) < two31) /\
  (q_storeid q = true -> index_wid q ct None = true) /\ consistent bs /\ id_consistent bs.

Lemma ra_container q ro bs ct f : wrote f ro bs ct -> ra_limits q ro bs ct ->
  match ct with
  | CV1 => True
  | CV2 chi clo _ _ emb => chi < two64 /\ clo < two64 /\ 10 <= q_maxh q /\
                           (emb <> None -> N.of_nat (length bs) < two31)
  end.
Proof.
  intros Hw (_ & _ & _ & H10 & Hn & _). pose proof (wrote_ct _ _ _ _ Hw) as Hc.
  destruct ct as [|chi clo dp ip emb]; [exact I|]. destruct Hc. repeat split; try assumption.
  intros _. apply Hn. discriminate.
Qed.

(* read-only blockstore: Roots, AllKeysChan, Get of every listed key *)
Theorem rt_readonly q f ro bs ct :
  wrote f ro bs ct -> ra_limits q ro bs ct -> blen f < two63 ->
  exists s, ro_open dec_header_canon q f None = Ok s /\
    ro_roots dec_header_canon s = OKeys (hdr_roots ro) /\
    ro_keys dec_header_canon s = KKeys (ref_keys (q_whole q) bs) None /\
    forall c d p, In (c, d) bs -> cid_parse c = Some p -> ro_get s (key_of (q_whole q) c p) = OBytes d.
Proof.
  intros Hw Hra Hl. pose proof (ra_container q ro bs ct f Hw Hra) as Hc.
  destruct Hra as (Hr & Hlim & Hcd & _ & _ & Hid & Hcons & Hidc).
  apply (ro_blockstore_reads_back q ct ro bs 0 f (wrote_car_file _ _ _ _ Hw)); assumption.
Qed.

(* readable storage: Roots, Get / GetStream of every CID *)
Theorem rt_storage q f ro bs ct :
  wrote f ro bs ct -> ra_limits q ro bs ct -> blen f < two63 ->
  exists s, sto_open dec_header_canon q f = Ok s /\
    sto_roots s = OKeys (hdr_roots ro) /\
    forall c d p, In (c, d) bs -> cid_parse c = Some p -> sto_get s (key_of (q_whole q) c p) = OBytes d.
Proof.
  intros Hw Hra Hl. pose proof (ra_container q ro bs ct f Hw Hra) as Hc.
  destruct Hra as (Hr & Hlim & Hcd & _ & _ & Hid & Hcons & Hidc).
  apply (readable_storage_reads_back q ct ro bs 0 f (wrote_car_file _ _ _ _ Hw)); assumption.
Qed.

(* the same with the content conditions in decidable form (what the harness evaluates per case) *)
Definition ra_limits_dec (q : qopts) (ro : option (list bytes)) (bs : list block) (ct : container) : Prop :=
  roots_ok (hdr_roots ro) /\ limits_ok q ro bs 0 /\
  (q_codec q = codec_sorted \/ q_codec q = codec_mh_sorted) /\ 10 <= q_maxh q /\
  (ct <> CV1 -> N.of_nat (length bs) < two31) /\
  (q_storeid q = true -> index_wid q ct None = true) /\ consistentb bs && id_consistentb bs = true.

Lemma ra_limits_of_dec q ro bs ct : ra_limits_dec q ro bs ct -> ra_limits q ro bs ct.
Proof.
  intros (H1 & H2 & H3 & H4 & H5 & H6 & H7). apply andb_true_iff in H7. destruct H7 as [Hc Hi].
  split; [exact H1|]. split; [exact H2|]. split; [exact H3|]. split; [exact H4|]. split; [exact H5|]. split; [exact H6|].
  split; [apply consistentb_sound; exact Hc|apply id_consistentb_sound; exact Hi].
Qed.

Theorem rt_readonly_dec q f ro bs ct :
  wrote f ro bs ct -> ra_limits_dec q ro bs ct -> blen f < two63 ->
  exists s, ro_open dec_header_canon q f None = Ok s /\
    ro_roots dec_header_canon s = OKeys (hdr_roots ro) /\
    ro_keys dec_header_canon s = KKeys (ref_keys (q_whole q) bs) None /\
    forall c d p, In (c, d) bs -> cid_parse c = Some p -> ro_get s (key_of (q_whole q) c p) = OBytes d.
Proof. intros Hw Hd. apply (rt_readonly q f ro bs ct Hw (ra_limits_of_dec q ro bs ct Hd)). Qed.

Theorem rt_storage_dec q f ro bs ct :
  wrote f ro bs ct -> ra_limits_dec q ro bs ct -> blen f < two63 ->
  exists s, sto_open dec_header_canon q f = Ok s /\
    sto_roots s = OKeys (hdr_roots ro) /\
    forall c d p, In (c, d) bs -> cid_parse c = Some p -> sto_get s (key_of (q_whole q) c p) = OBytes d.
Proof. intros Hw Hd. apply (rt_storage q f ro bs ct Hw (ra_limits_of_dec q ro bs ct Hd)). Qed.

(* ---- all writers emit the same payload for the same logical content ---------------------------------------- *)
Theorem payload_identical maxh f1 f2 ro bs ct1 ct2 :
  wrote f1 ro bs ct1 -> wrote f2 ro bs ct2 ->
  roots_ok (hdr_roots ro) -> blen (enc_header ro 1) <= maxh -> 10 <= maxh -> blen f1 < two63 -> blen f2 < two63 ->
  exists r1 r2, new_reader dec_header_canon maxh f1 = Ok r1 /\ new_reader dec_header_canon maxh f2 = Ok r2 /\
                data_window r1 = payload_of ro bs /\ data_window r2 = payload_of ro bs.
Proof.
  intros H1 H2 Hr Hm H10 L1 L2.
  destruct (rt_data_reader maxh f1 ro bs ct1 H1 Hr Hm H10 L1) as (r1 & A1 & B1 & _).
  destruct (rt_data_reader maxh f2 ro bs ct2 H2 Hr Hm H10 L2) as (r2 & A2 & B2 & _).
  exists r1, r2. tauto.
Qed.

(* ---- the readers that reject an empty root list ---------------------------------------------------------------- *)
Lemma root_rejects_empty hok hdrdec file roots v rest :
  read_header_root hdrdec file = Ok (roots, v, rest) -> roots = [] ->
  root_read_all hok hdrdec file = Err EOther.
Proof.
  intros H ->. unfold root_read_all. rewrite H. destruct (negb (v =? 1)); reflexivity.
Qed.

Lemma carv1_rejects_empty hok hdrdec o file roots v rest used :
  read_header hdrdec (o_maxh o) file = Ok (roots, v, rest, used) -> roots = [] ->
  carv1_read_all hok hdrdec o file = Err EOther.
Proof.
  intros H ->. unfold carv1_read_all. rewrite H. destruct (negb (v =? 1)); reflexivity.
Qed.

(* internal carv1 reader (v2/internal/carv1: NewCarReader + Next) over the payload *)
Theorem rt_carv1_reader hok o ro bs :
  archive_ok_o hok dec_header_canon o ro bs -> hdr_roots ro <> [] -> Forall (hash_good hok) bs ->
  carv1_read_all hok dec_header_canon o (payload_of ro bs) = Ok (hdr_roots ro, mkscan bs EEof).
Proof.
  intros (Hg & Hm & H63 & Hok & Hh) Hne Hhg. destruct ro as [roots|]; [|cbn in Hne; congruence].
  cbn [hdr_roots] in *. apply carv1_read_all_v1; [|exact Hne|exact Hhg].
  repeat split; assumption.
Qed.
