(* Containment for the whole `car extract` command (several roots), C17. *)
From GoCar Require Import Bytes ExtractFs.
From GoCarProofs Require Import BytesFacts ExtractFsFacts ExtractFsEval ExtractFsOps ExtractFsSafe.

Local Open Scope nat_scope.

(* ---- path resolution is stable under the changes extraction makes ---- *)
Lemma kwalk_ext_step fs fs' follow links :
  ext fs fs' ->
  (forall l, links = S l -> forall comps cur p n,
      kwalk l fs follow cur comps = KOk p (Some n) ->
      exists n', kwalk l fs' follow cur comps = KOk p (Some n') /\ same_kind n n') ->
  forall comps cur p n,
    kwalk links fs follow cur comps = KOk p (Some n) ->
    exists n', kwalk links fs' follow cur comps = KOk p (Some n') /\ same_kind n n'.
Proof.
  intros He IHl comps; induction comps as [|c rest IH]; intros cur p n H.
  { rewrite kwalk_nil in *. inversion H; subst. destruct (He _ _ H2) as [n' [Hl K]].
    exists n'. rewrite Hl. auto. }
  rewrite kwalk_cons in *.
  destruct (is_empty c || is_dot c)%bool; [apply IH; exact H|].
  destruct (is_dotdot c); [apply IH; exact H|].
  destruct (name_too_long c); [discriminate|]. cbn zeta in *.
  destruct (look fs (cur ++ [c])) as [n0|] eqn:L.
  2:{ destruct (forallb is_empty rest); discriminate. }
  destruct (He _ _ L) as [n0' [L' K0]]. rewrite L'.
  destruct n0 as [|d0|t0], n0' as [|d0'|t0']; cbn in K0; try contradiction.
  - apply IH; exact H.
  - destruct rest; [|discriminate]. inversion H; subst. exists (NFile d0'). split; [reflexivity|exact I].
  - subst t0'. destruct (match rest with [] => negb follow | _ => false end).
    + inversion H; subst. exists (NLink t0). split; reflexivity.
    + destruct links as [|l]; [discriminate|]. destruct t0; [discriminate|].
      eapply (IHl l eq_refl). exact H.
Qed.

Lemma kwalk_ext fs fs' follow : ext fs fs' -> forall links comps cur p n,
  kwalk links fs follow cur comps = KOk p (Some n) ->
  exists n', kwalk links fs' follow cur comps = KOk p (Some n') /\ same_kind n n'.
Proof.
  intros He links; induction links as [|l IHl]; apply kwalk_ext_step; try exact He.
  - intros l0 E; discriminate.
  - intros l0 E; inversion E; subst. exact IHl.
Qed.

Lemma k_lstat_ext fs fs' start comps p n :
  ext fs fs' -> k_lstat fs start comps = KOk p (Some n) ->
  exists n', k_lstat fs' start comps = KOk p (Some n') /\ same_kind n n'.
Proof.
  intros He H. unfold k_lstat, k_resolve in *. destruct (existsb has_nul comps); [discriminate|].
  eapply kwalk_ext; eassumption.
Qed.

Lemma eval_go_ext_step fs fs' cwd links :
  ext fs fs' ->
  (forall l, links = S l -> forall rem dest d,
      eval_go l fs cwd dest rem = Some d -> eval_go l fs' cwd dest rem = Some d) ->
  forall rem dest d,
    eval_go links fs cwd dest rem = Some d -> eval_go links fs' cwd dest rem = Some d.
Proof.
  intros He IHl rem; induction rem as [|c rest IH]; intros dest d H.
  { rewrite eval_go_nil in *. exact H. }
  rewrite eval_go_cons in *.
  destruct (is_empty c || is_dot c)%bool; [apply IH; exact H|].
  destruct (is_dotdot c); [apply IH; exact H|]. cbn zeta in *.
  destruct (k_lstat fs _ _) as [p [n|]|e] eqn:L; try discriminate.
  destruct (k_lstat_ext _ _ _ _ _ _ He L) as [n' [L' K]]. rewrite L'.
  destruct n as [|d0|t0], n' as [|d0'|t0']; cbn in K; try contradiction.
  - apply IH; exact H.
  - destruct rest; [|discriminate]. rewrite eval_go_nil in *. exact H.
  - subst t0'. destruct links as [|l]; [discriminate|]. eapply (IHl l eq_refl). exact H.
Qed.

Lemma eval_go_ext fs fs' cwd : ext fs fs' -> forall links rem dest d,
  eval_go links fs cwd dest rem = Some d -> eval_go links fs' cwd dest rem = Some d.
Proof.
  intros He links; induction links as [|l IHl]; apply eval_go_ext_step; try exact He.
  - intros l0 E; discriminate.
  - intros l0 E; inversion E; subst. exact IHl.
Qed.

Lemma eval_symlinks_str_ext fs fs' cwd s root :
  ext fs fs' -> eval_symlinks_str fs cwd s = Some root -> eval_symlinks_str fs' cwd s = Some root.
Proof. intros He H. unfold eval_symlinks_str, eval_symlinks in *. eapply eval_go_ext; eassumption. Qed.

(* ---- one root ---- *)
Lemma split_unknown : split_slash unknown_name = [unknown_name].
Proof. reflexivity. Qed.

Lemma resolve_root_eq fs cwd root dirp :
  resolve_path fs cwd root np_root = Some dirp -> dirp = n_apply root [].
Proof.
  intro RP. unfold resolve_path in RP. destruct (eval_symlinks _ _ _ _); [|discriminate].
  destruct (npath_eqb _ _); [|discriminate]. inversion RP; reflexivity.
Qed.

Lemma root_mkdir_contained fs cwd root dirp fs1 ok1 :
  cwd_ok fs cwd -> names_normal root ->
  resolve_path fs cwd root np_root = Some dirp ->
  mkdir_all fs cwd dirp = (fs1, ok1) ->
  contained (phys_of cwd root) fs fs1.
Proof.
  intros Hc Hn RP M.
  apply resolve_path_ok in RP; [|exact Hn|constructor]. destruct RP as [Hdn [Hdg Hdu]].
  eapply step_contained; [exact Hdu|]. eapply mkdir_all_step; eassumption.
Qed.

Lemma unknown_file_contained fs1 cwd root d complete fs2 ok :
  good fs1 cwd root ->
  extract_file true fs1 cwd (join root unknown_name) d complete = (fs2, ok) ->
  contained (phys_of cwd root) fs1 fs2.
Proof.
  intros Hg F.
  assert (Hn : names_normal root) by (eapply good_names_normal; exact Hg).
  assert (Hu : normalb unknown_name = true) by reflexivity.
  assert (Ej : join root unknown_name = mknp (n_abs root) (n_ups root) (n_names root ++ [unknown_name])).
  { unfold join. rewrite split_unknown. apply n_apply_normal. constructor; [exact Hu|constructor]. }
  eapply step_contained; [|eapply extract_file_step; [| |exact F]].
  - rewrite Ej, !phys_of_nbase. cbn [n_names].
    change (nbase cwd (mknp (n_abs root) (n_ups root) (n_names root ++ [unknown_name]))) with (nbase cwd root).
    exists [unknown_name]. rewrite app_assoc. reflexivity.
  - rewrite Ej. unfold names_normal. cbn [n_names]. apply Forall_app. split; [exact Hn|].
    constructor; [exact Hu|constructor].
  - rewrite Ej. rewrite (ndir_snoc _ (n_names root) unknown_name) by reflexivity.
    cbn [n_abs n_ups]. replace (mknp (n_abs root) (n_ups root) (n_names root)) with root
      by (destruct root; reflexivity).
    exact Hg.
Qed.

Lemma extract_root_contained fs cwd outdir mp r root fs' res :
  cwd_ok fs cwd ->
  eval_symlinks_str fs cwd outdir = Some root ->
  extract_root true fs cwd outdir mp r = (fs', res) ->
  contained (phys_of cwd root) fs fs'.
Proof.
  intros Hc He H.
  assert (Hg : good fs cwd root) by (eapply eval_symlinks_good; exact He).
  assert (Hn : names_normal root) by (eapply good_names_normal; exact Hg).
  assert (Hnr : names_normal np_root) by constructor.
  unfold extract_root in H. destruct r as [|t]; [inversion H; apply contained_refl|].
  rewrite He in H.
  destruct t as [d|d|tg|es| |]; try (inversion H; apply contained_refl).
  - (* a file root: <dir>/unknown *)
    destruct (resolve_path fs cwd root np_root) as [dirp|] eqn:RP; [|inversion H; apply contained_refl].
    destruct (mkdir_all fs cwd dirp) as [fs1 ok1] eqn:M.
    assert (C1 : contained (phys_of cwd root) fs fs1) by (eapply root_mkdir_contained; eassumption).
    destruct ok1; [|inversion H; subst; exact C1].
    destruct (extract_file true fs1 cwd _ d true) as [fs2 ok] eqn:F. inversion H; subst.
    eapply contained_trans; [exact C1|]. eapply unknown_file_contained; [|exact F].
    eapply good_ext; [apply C1|exact Hg].
  - destruct (resolve_path fs cwd root np_root) as [dirp|] eqn:RP; [|inversion H; apply contained_refl].
    destruct (mkdir_all fs cwd dirp) as [fs1 ok1] eqn:M.
    assert (C1 : contained (phys_of cwd root) fs fs1) by (eapply root_mkdir_contained; eassumption).
    destruct ok1; [|inversion H; subst; exact C1].
    destruct (extract_file true fs1 cwd _ d false) as [fs2 ok] eqn:F. inversion H; subst.
    eapply contained_trans; [exact C1|]. eapply unknown_file_contained; [|exact F].
    eapply good_ext; [apply C1|exact Hg].
  - eapply extract_dir_contained; [exact Hn|exact Hc|exact Hnr|exact H].
  - eapply extract_dir_contained; [exact Hn|exact Hc|exact Hnr|exact H].
Qed.

Lemma extract_root_no_dir fs cwd outdir mp r fs' res :
  eval_symlinks_str fs cwd outdir = None ->
  extract_root true fs cwd outdir mp r = (fs', res) -> fs' = fs.
Proof.
  intros He H. unfold extract_root in H. destruct r as [|t]; [inversion H; reflexivity|].
  rewrite He in H. destruct t; inversion H; reflexivity.
Qed.

(* ---- all roots ---- *)
Lemma extract_roots_contained cwd outdir mp root : forall rs fs cnt fs' res,
  cwd_ok fs cwd ->
  eval_symlinks_str fs cwd outdir = Some root ->
  extract_roots true fs cwd outdir mp rs cnt = (fs', res) ->
  contained (phys_of cwd root) fs fs'.
Proof.
  induction rs as [|r rest IH]; intros fs cnt fs' res Hc He H; cbn [extract_roots] in H.
  - inversion H; apply contained_refl.
  - destruct (extract_root true fs cwd outdir mp r) as [fs1 r1] eqn:R1.
    assert (C : contained (phys_of cwd root) fs fs1) by (eapply extract_root_contained; eassumption).
    destruct r1 as [c|]; [|inversion H; subst; exact C].
    eapply contained_trans; [exact C|]. eapply IH; [| |exact H].
    + eapply cwd_ok_ext; [apply C|exact Hc].
    + eapply eval_symlinks_str_ext; [apply C|exact He].
Qed.

Lemma extract_roots_no_dir cwd outdir mp : forall rs fs cnt fs' res,
  eval_symlinks_str fs cwd outdir = None ->
  extract_roots true fs cwd outdir mp rs cnt = (fs', res) -> fs' = fs.
Proof.
  induction rs as [|r rest IH]; intros fs cnt fs' res He H; cbn [extract_roots] in H.
  - inversion H; reflexivity.
  - destruct (extract_root true fs cwd outdir mp r) as [fs1 r1] eqn:R1.
    apply extract_root_no_dir in R1; [|exact He]. subst fs1.
    destruct r1; [eapply IH; eassumption|inversion H; reflexivity].
Qed.

(* ---- the command ---- *)
Theorem extract_cmd_contained fs cwd outdir pathflag roots root fs' res :
  cwd_ok fs cwd ->
  eval_symlinks_str fs cwd outdir = Some root ->
  extract_cmd true fs cwd outdir pathflag roots = (fs', res) ->
  forall p, ~ under (phys_of cwd root) p -> look fs' p = look fs p.
Proof.
  intros Hc He H. unfold extract_cmd in H. destruct (path_segments pathflag) as [mp|].
  - apply (extract_roots_contained _ _ _ _ _ _ _ _ _ Hc He H).
  - inversion H; subst. intros; reflexivity.
Qed.

Theorem extract_cmd_preserves fs cwd outdir pathflag roots root fs' res :
  cwd_ok fs cwd ->
  eval_symlinks_str fs cwd outdir = Some root ->
  extract_cmd true fs cwd outdir pathflag roots = (fs', res) ->
  forall p n, look fs p = Some n -> exists n', look fs' p = Some n' /\ same_kind n n'.
Proof.
  intros Hc He H. unfold extract_cmd in H. destruct (path_segments pathflag) as [mp|].
  - apply (extract_roots_contained _ _ _ _ _ _ _ _ _ Hc He H).
  - inversion H; subst. intros p n Hl. exists n. split; [exact Hl|apply same_kind_refl].
Qed.

Theorem extract_cmd_no_dir fs cwd outdir pathflag roots fs' res :
  eval_symlinks_str fs cwd outdir = None ->
  extract_cmd true fs cwd outdir pathflag roots = (fs', res) -> fs' = fs.
Proof.
  intros He H. unfold extract_cmd in H. destruct (path_segments pathflag) as [mp|].
  - eapply extract_roots_no_dir; eassumption.
  - inversion H; reflexivity.
Qed.
