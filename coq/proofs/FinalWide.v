(* C05: MaxIndexCidSize after ApplyOptions never lets a CID into the store whose digest an index record
   cannot carry; the length-only view of ShouldPut used by the "finalwide" check kind. *)
From GoCar Require Import Bytes Varint Cid Header Frame V2Header Scan Index Store Wf.
From GoCarProofs Require Import BytesFacts VarintFacts CidFacts FinalCid FinalWf.

Lemma apply_wopts_maxcid o : w_maxcid (apply_wopts o) + 8 <= max_width.
Proof. unfold apply_wopts, max_index_cid, max_width. cbn [w_maxcid]. lia. Qed.

Lemma apply_wopts_wf o : wf_opts (apply_wopts o).
Proof. apply apply_wopts_maxcid. Qed.

Lemma apply_wopts_fields o :
  w_dpad (apply_wopts o) = w_dpad o /\ w_ipad (apply_wopts o) = w_ipad o /\
  w_storeid (apply_wopts o) = w_storeid o /\ w_v1 (apply_wopts o) = w_v1 o.
Proof. repeat split. Qed.

(* options already in range are left alone *)
Lemma apply_wopts_id o : w_codec o <> 0 -> w_maxcid o <> 0 -> w_maxcid o + 8 <= max_width -> apply_wopts o = o.
Proof.
  destruct o as [dp ip cd ze mc si du wh v1 mh ms]. unfold apply_wopts, max_index_cid.
  cbn [w_dpad w_ipad w_codec w_zeof w_maxcid w_storeid w_dups w_whole w_v1 w_maxh w_maxs]. intros Hc Hm Hb.
  replace (cd =? 0) with false by lia. replace (mc =? 0) with false by lia.
  rewrite N.min_l by lia. reflexivity.
Qed.

Lemma should_put_first_eq o c p : should_put o [] c p = should_put_first o (blen c) (is_identity p).
Proof.
  unfold should_put, should_put_first. destruct (negb (w_storeid o) && is_identity p); [reflexivity|].
  destruct (w_maxcid o <? blen c); [reflexivity|]. destruct (negb (w_dups o)); [|reflexivity].
  destruct (w_whole o); reflexivity.
Qed.

Lemma cid_v1_len_eq codec code dig : blen (cid_enc (mkcid 1 codec code dig)) = cid_v1_len codec code (blen dig).
Proof. unfold cid_enc, mh_enc, cid_v1_len. cbn [c_ver c_codec c_mhcode c_digest N.eqb]. rewrite !blen_app, !blen_put_uv. lia. Qed.

(* whatever the caller asked for: a CID whose digest does not fit an index record is never stored *)
Theorem wide_cid_never_stored o ii c p :
  cid_parse c = Some p -> max_width < blen (c_digest p) + 8 -> should_put (apply_wopts o) ii c p <> Ok true.
Proof.
  intros Hp Hw Hs. destruct (should_put_true _ _ _ _ Hs) as [_ Hlen].
  destruct (cid_parse_bytes_ok c p Hp) as [_ Hc]. pose proof (cid_digest_le p) as Hd. rewrite <- Hc in Hd.
  pose proof (apply_wopts_maxcid o). lia.
Qed.
