(* C18: extracting a valid tree into an empty directory reproduces it. *)
From GoCar Require Import Bytes ExtractFs.
From GoCarProofs Require Import BytesFacts ExtractFsFacts ExtractFsEval ExtractFsOps ExtractFsSafe
     ExtractFsCmd ExtractFsLive.

Local Open Scope nat_scope.

(* ---- small facts ---- *)
Lemma underb_spec r p : underb r p = true <-> under r p.
Proof.
  revert p; induction r as [|x r IH]; intro p; cbn.
  - split; [intros _; exists p; reflexivity|reflexivity].
  - destruct p as [|y p]; [split; [discriminate|intros [s E]; discriminate]|].
    rewrite andb_true_iff, bytes_eqb_eq, IH. split.
    + intros [-> [s ->]]. exists s. reflexivity.
    + intros [s E]. inversion E; subst. split; [reflexivity|exists s; reflexivity].
Qed.

Lemma under_dec r p : {under r p} + {~ under r p}.
Proof.
  destruct (underb r p) eqn:E; [left; apply underb_spec; exact E|right].
  intro H. apply underb_spec in H. congruence.
Qed.

Lemma under_refl r : under r r.
Proof. exists []. rewrite app_nil_r. reflexivity. Qed.

Lemma under_app r s : under r (r ++ s).
Proof. exists s. reflexivity. Qed.

Lemma under_snoc_inv P c c' s : under (P ++ [c]) (P ++ c' :: s) -> c' = c.
Proof.
  intros [t E]. rewrite <- app_assoc in E. apply app_inv_head in E. cbn in E. inversion E. reflexivity.
Qed.

Lemma not_under_longer P c : ~ under (P ++ [c]) P.
Proof.
  intros [t E]. rewrite <- app_assoc in E. rewrite <- (app_nil_r P) in E at 1.
  apply app_inv_head in E. discriminate.
Qed.

Lemma under_trans a b c : under a b -> under b c -> under a c.
Proof. intros [s ->] [t ->]. exists (s ++ t). rewrite app_assoc. reflexivity. Qed.

Lemma dirchain_app fs cur a b :
  dirchain fs cur a -> dirchain fs (cur ++ a) b -> dirchain fs cur (a ++ b).
Proof.
  intro H; induction H as [cur|cur c rest Hok Hl Hd IH]; intro Hb.
  - rewrite app_nil_r in Hb. exact Hb.
  - cbn [app]. constructor; [assumption|assumption|]. apply IH.
    replace ((cur ++ [c]) ++ rest) with (cur ++ c :: rest) by (rewrite <- app_assoc; reflexivity).
    exact Hb.
Qed.

Lemma dirchain_app_r fs cur a b : dirchain fs cur (a ++ b) -> dirchain fs (cur ++ a) b.
Proof.
  revert cur; induction a as [|x a IH]; intros cur H.
  - rewrite app_nil_r. exact H.
  - cbn [app] in H. inversion H; subst. specialize (IH _ H5). rewrite <- app_assoc in IH. exact IH.
Qed.

(* valid names *)
Lemma split_no_slash c : no_slash c = true -> split_slash c = [c].
Proof.
  unfold no_slash. intro H. apply negb_true_iff in H.
  induction c as [|b c IH]; [reflexivity|]. cbn in H. apply orb_false_iff in H as [Hb Hc].
  cbn [split_slash]. rewrite Hb. rewrite (IH Hc). reflexivity.
Qed.

Lemma valid_name_ok c : valid_name c = true -> name_ok c /\ split_slash c = [c].
Proof.
  unfold valid_name. intro H. repeat (apply andb_true_iff in H as [H ?]).
  split; [|apply split_no_slash; assumption].
  repeat split; [assumption|apply negb_true_iff; assumption|apply negb_true_iff; assumption].
Qed.

Lemma valid_target_ok t : valid_target t = true -> target_ok t.
Proof.
  unfold valid_target, target_ok. intro H. repeat (apply andb_true_iff in H as [H ?]).
  repeat split; apply negb_true_iff; assumption.
Qed.

Lemma join_valid rel c :
  valid_name c = true -> join (mknp true 0 rel) c = mknp true 0 (rel ++ [c]).
Proof.
  intro H. apply valid_name_ok in H as [[Hn _] Hs]. unfold join. rewrite Hs.
  rewrite n_apply_normal by (constructor; [exact Hn|constructor]). reflexivity.
Qed.

Lemma assoc_u_app_notin c done nm u :
  assoc_u c (done ++ [(nm, u)]) =
  match assoc_u c done with Some x => Some x | None => if bytes_eqb nm c then Some u else None end.
Proof.
  induction done as [|[n0 t0] r IH]; cbn.
  - reflexivity.
  - destruct (bytes_eqb n0 c); [reflexivity|exact IH].
Qed.

Lemma name_in_assoc c done : name_in c (map fst done) = false -> assoc_u c done = None.
Proof.
  induction done as [|[n0 t0] r IH]; cbn; [reflexivity|]. intro H. apply orb_false_iff in H as [H1 H2].
  rewrite H1. apply IH. exact H2.
Qed.

(* EvalSymlinks keeps absolute results free of leading ".." *)
Definition np_wf (p : npath) : Prop := n_abs p = true -> n_ups p = 0.

Lemma n_push_wf p c : np_wf p -> np_wf (n_push p c).
Proof.
  unfold np_wf, n_push. intro H.
  destruct (is_empty c || is_dot c)%bool; [exact H|].
  destruct (is_dotdot c); [|exact H].
  destruct (n_names p); [|exact H].
  destruct (n_abs p) eqn:E; [rewrite E; exact H|cbn; discriminate].
Qed.

Lemma eval_go_wf_step links fs cwd :
  (forall l, links = S l -> forall rem dest d, np_wf dest -> eval_go l fs cwd dest rem = Some d -> np_wf d) ->
  forall rem dest d, np_wf dest -> eval_go links fs cwd dest rem = Some d -> np_wf d.
Proof.
  intros IHl rem; induction rem as [|c rest IH]; intros dest d Hw H.
  { rewrite eval_go_nil in H. inversion H; subst; exact Hw. }
  rewrite eval_go_cons in H.
  destruct (is_empty c || is_dot c)%bool; [eapply IH; eassumption|].
  destruct (is_dotdot c); [eapply IH; [apply n_push_wf; exact Hw|exact H]|]. cbn zeta in H.
  destruct (k_lstat _ _ _) as [p [[|dd|t]|]|e]; try discriminate.
  - eapply IH; [|exact H]. exact Hw.
  - destruct rest; [|discriminate]. rewrite eval_go_nil in H. inversion H; subst. exact Hw.
  - destruct links as [|l]; [discriminate|]. eapply (IHl l eq_refl); [|exact H].
    destruct (is_abs t); [intro; reflexivity|exact Hw].
Qed.

Lemma eval_go_wf : forall links fs cwd rem dest d,
  np_wf dest -> eval_go links fs cwd dest rem = Some d -> np_wf d.
Proof.
  induction links as [|l IHl]; intros fs cwd; apply eval_go_wf_step.
  - intros l0 E; discriminate.
  - intros l0 E; inversion E; subst. apply IHl.
Qed.

Lemma eval_symlinks_str_wf fs cwd s root : eval_symlinks_str fs cwd s = Some root -> np_wf root.
Proof.
  unfold eval_symlinks_str, eval_symlinks. intro H. eapply eval_go_wf; [|exact H].
  destruct (is_abs s); intro; [reflexivity|discriminate].
Qed.

(* ---- sums and validity of entry lists, as stand-alone functions ---- *)
Fixpoint sumleaves (es : list (name * utree)) : N :=
  match es with [] => 0%N | (_, t) :: r => (uleaves t + sumleaves r)%N end.
Lemma uleaves_dir es : uleaves (UDir es) = sumleaves es.
Proof. cbn [uleaves]. induction es as [|[n t] r IH]; [reflexivity|]. cbn [sumleaves]. rewrite <- IH. reflexivity. Qed.

Fixpoint allvalid (es : list (name * utree)) : bool :=
  match es with [] => true | (nm, t) :: r => valid_name nm && valid_utree t && allvalid r end.
Lemma valid_utree_dir es : valid_utree (UDir es) = names_distinct (map fst es) && allvalid es.
Proof.
  reflexivity.
Qed.

Lemma name_in_In c l : name_in c l = true <-> In c l.
Proof.
  induction l as [|x r IH]; cbn; [split; [discriminate|contradiction]|].
  rewrite orb_true_iff, bytes_eqb_eq, IH. tauto.
Qed.

Lemma names_distinct_NoDup l : names_distinct l = true -> NoDup l.
Proof.
  induction l as [|x r IH]; cbn; intro H; [constructor|].
  apply andb_true_iff in H as [H1 H2]. constructor; [|apply IH; exact H2].
  intro Hin. apply name_in_In in Hin. rewrite Hin in H1. discriminate.
Qed.

Lemma assoc_u_notin c done : ~ In c (map fst done) -> assoc_u c done = None.
Proof.
  intro H. apply name_in_assoc. destruct (name_in c (map fst done)) eqn:E; [|reflexivity].
  apply name_in_In in E. contradiction.
Qed.

Lemma assoc_u_in_some c done : In c (map fst done) -> exists u, assoc_u c done = Some u.
Proof.
  induction done as [|[n0 t0] r IH]; cbn; [contradiction|]. intros [->|H].
  - rewrite bytes_eqb_refl. eauto.
  - destruct (bytes_eqb n0 c); [eauto|apply IH; exact H].
Qed.

Lemma np_wf_ndir p : np_wf p -> np_wf (ndir p).
Proof.
  unfold np_wf, ndir. intro H. destruct (n_names p); [|exact H].
  destruct (n_abs p) eqn:E; [rewrite E; exact H|cbn; discriminate].
Qed.

Lemma alldirs_ndir fs cwd p : alldirs fs cwd p -> alldirs fs cwd (ndir p).
Proof.
  unfold alldirs, ndir. intro H. destruct (n_names p) eqn:En.
  - destruct (n_abs p); cbn; [rewrite En|]; constructor.
  - cbn [n_names]. unfold nbase in *. cbn [n_abs n_ups]. rewrite <- En. apply dirchain_removelast.
    rewrite En. exact H.
Qed.

Section RoundTrip.
  Variable cwd : phys.
  Variable root : npath.
  Hypothesis Hwf : np_wf root.
  Let R := phys_of cwd root.

  Definition joined (rel : list name) : npath :=
    mknp (n_abs root) (n_ups root) (n_names root ++ rel).

  Lemma phys_joined rel : phys_of cwd (joined rel) = R ++ rel.
  Proof. unfold R. rewrite !phys_of_nbase. unfold joined, nbase. cbn [n_abs n_ups n_names]. rewrite app_assoc. reflexivity. Qed.

  Lemma nbase_joined rel : nbase cwd (joined rel) = nbase cwd root.
  Proof. reflexivity. Qed.

  Lemma apply_joined rel :
    Forall (fun c => normalb c = true) rel -> n_apply root rel = joined rel.
  Proof. intro H. apply n_apply_normal. exact H. Qed.

  Lemma alldirs_joined_split fs rel :
    alldirs fs cwd (joined rel) -> alldirs fs cwd root /\ dirchain fs R rel.
  Proof.
    unfold alldirs. cbn [n_names joined]. rewrite nbase_joined. intro H. split.
    - eapply dirchain_app_l. exact H.
    - unfold R. rewrite phys_of_nbase. apply dirchain_app_r. exact H.
  Qed.

  Lemma alldirs_joined_build fs rel :
    alldirs fs cwd root -> dirchain fs R rel -> alldirs fs cwd (joined rel).
  Proof.
    unfold alldirs. cbn [n_names joined]. rewrite nbase_joined. intros Ha Hd.
    apply dirchain_app; [exact Ha|]. unfold R in Hd. rewrite phys_of_nbase in Hd. exact Hd.
  Qed.

  (* resolvePath succeeds on a path whose parent directories are real *)
  Lemma joined_nil : joined [] = root.
  Proof. unfold joined. rewrite app_nil_r. destruct root; reflexivity. Qed.

  Lemma resolve_ok_root fs :
    alldirs fs cwd root -> resolve_path fs cwd root (mknp true 0 []) = Some (joined []).
  Proof.
    intro Ha. rewrite <- (apply_joined []) by constructor.
    change [] with (n_names (mknp true 0 [])) at 2.
    apply resolve_path_alldirs; cbn [n_names]; rewrite (apply_joined []) by constructor; rewrite joined_nil.
    - apply np_wf_ndir. exact Hwf.
    - apply alldirs_ndir. exact Ha.
  Qed.

  Lemma resolve_ok_snoc fs rel leaf :
    alldirs fs cwd (joined rel) -> normalb leaf = true ->
    resolve_path fs cwd root (mknp true 0 (rel ++ [leaf])) = Some (joined (rel ++ [leaf])).
  Proof.
    intros Ha Hl.
    assert (Hn : Forall (fun c => normalb c = true) (rel ++ [leaf])).
    { apply Forall_app. split; [|constructor; [exact Hl|constructor]].
      destruct (alldirs_joined_split _ _ Ha) as [_ Hd]. apply dirchain_names_ok in Hd.
      eapply Forall_impl; [|exact Hd]. intros a [Hx _]. exact Hx. }
    rewrite <- (apply_joined _ Hn).
    change (rel ++ [leaf]) with (n_names (mknp true 0 (rel ++ [leaf]))) at 2.
    assert (E : ndir (joined (rel ++ [leaf])) = joined rel).
    { rewrite (ndir_snoc _ (n_names root ++ rel) leaf); [reflexivity|].
      unfold joined. cbn [n_names]. rewrite app_assoc. reflexivity. }
    apply resolve_path_alldirs; cbn [n_names]; rewrite (apply_joined _ Hn), E.
    - exact Hwf.
    - exact Ha.
  Qed.

  (* ---- what one entry leaves behind ---- *)
  Definition elem_post (fs : fsmap) (P' : phys) (u' : utree) (fs' : fsmap) : Prop :=
    (forall s, look fs' (P' ++ s) = ulook s u') /\
    (forall q, ~ under P' q -> look fs' q = look fs q).

  Lemma set_leaf_post fs P' n u' :
    P' <> [] -> (forall s, look fs (P' ++ s) = None) ->
    ulook [] u' = Some n -> (forall c s, ulook (c :: s) u' = None) ->
    elem_post fs P' u' (fs_set fs P' n).
  Proof.
    intros Hne Hfree H0 Hs. split.
    - intros [|c s].
      + rewrite app_nil_r. rewrite look_set_same by exact Hne. symmetry. exact H0.
      + rewrite look_set_other.
        * rewrite Hfree. symmetry. apply Hs.
        * intro E. rewrite <- (app_nil_r P') in E at 2. apply app_inv_head in E. discriminate.
    - intros q Hq. apply look_set_other. intro; subst. apply Hq. apply under_refl.
  Qed.

  Definition builds (u : utree) : Prop :=
    valid_utree u = true -> is_udir u = true ->
    forall fs fs1 rel,
      resolve_path fs cwd root (mknp true 0 rel) = Some (joined rel) ->
      mkdir_all fs cwd (joined rel) = (fs1, true) ->
      cwd_ok fs1 cwd -> alldirs fs1 cwd (joined rel) ->
      (forall c s, look fs1 (R ++ rel ++ c :: s) = None) ->
      exists fs',
        extract_dir true cwd root u fs (mknp true 0 rel) [] = (fs', XOk (uleaves u)) /\
        (forall c s, look fs' (R ++ rel ++ c :: s) = ulook (c :: s) u) /\
        (forall q, (~ under (R ++ rel) q \/ q = R ++ rel) -> look fs' q = look fs1 q).

  (* one entry *)
  Lemma element_builds fs rel nm u' :
    (is_udir u' = true -> builds u') ->
    valid_name nm = true -> valid_utree u' = true ->
    cwd_ok fs cwd -> alldirs fs cwd (joined rel) ->
    (forall s, look fs (R ++ rel ++ [nm] ++ s) = None) ->
    exists fs',
      extract_element true cwd root fs (mknp true 0 rel) nm u'
        (fun f p => extract_dir true cwd root u' f p []) = (fs', XOk (uleaves u')) /\
      elem_post fs (R ++ rel ++ [nm]) u' fs'.
  Proof.
    intros IH Hvn Hvu Hc Ha Hfree.
    destruct (valid_name_ok _ Hvn) as [Hok Hsplit]. assert (Hnorm := Hok). destruct Hnorm as [Hnorm _].
    unfold extract_element. rewrite (join_valid rel nm Hvn).
    rewrite (resolve_ok_snoc fs rel nm Ha Hnorm).
    assert (Hj : n_names (joined (rel ++ [nm])) = (n_names root ++ rel) ++ [nm]).
    { unfold joined. cbn [n_names]. rewrite app_assoc. reflexivity. }
    assert (Hdj : dirchain fs (nbase cwd (joined (rel ++ [nm]))) (n_names root ++ rel)).
    { rewrite nbase_joined. exact Ha. }
    assert (Hph : phys_of cwd (joined (rel ++ [nm])) = R ++ rel ++ [nm]).
    { rewrite phys_joined. reflexivity. }
    assert (Hfree0 : look fs (phys_of cwd (joined (rel ++ [nm]))) = None).
    { rewrite Hph. specialize (Hfree []). rewrite app_nil_r in Hfree. exact Hfree. }
    assert (Hne : R ++ rel ++ [nm] <> []).
    { intro E. apply app_eq_nil in E as [_ E]. apply app_eq_nil in E as [_ E]. discriminate. }
    assert (Hfree' : forall s, look fs ((R ++ rel ++ [nm]) ++ s) = None).
    { intro s. rewrite <- !app_assoc. apply Hfree. }
    destruct u' as [d|d|tg|es| |]; try discriminate Hvu.
    - (* file *)
      cbn [is_udir extract_leaf].
      rewrite (extract_file_creates fs cwd _ _ nm d Hj Hdj Hok Hfree0).
      eexists. split; [reflexivity|]. rewrite Hph.
      apply set_leaf_post; [exact Hne|exact Hfree'|reflexivity|reflexivity].
    - (* symlink *)
      cbn [is_udir extract_leaf]. cbn [valid_utree] in Hvu. apply valid_target_ok in Hvu.
      rewrite (k_symlink_creates fs cwd _ _ nm tg Hvu Hj Hdj Hok Hfree0).
      eexists. split; [reflexivity|]. rewrite Hph.
      apply set_leaf_post; [exact Hne|exact Hfree'|reflexivity|reflexivity].
    - (* directory: MkdirAll creates it, then its entries *)
      cbn [is_udir].
      pose proof (mkdir_all_creates fs cwd _ _ nm Hc Hj Hdj Hok Hfree0) as Hmk. rewrite Hph in Hmk.
      set (fs1 := fs_set fs (R ++ rel ++ [nm]) NDir) in *.
      assert (Hext : ext fs fs1) by (apply ext_set_free; rewrite <- Hph; exact Hfree0).
      assert (Hc1 : cwd_ok fs1 cwd) by (eapply cwd_ok_ext; eassumption).
      assert (Ha1 : alldirs fs1 cwd (joined (rel ++ [nm]))).
      { unfold alldirs. rewrite Hj, nbase_joined. apply dirchain_snoc.
        - eapply dirchain_ext; [exact Hext|exact Ha].
        - exact Hok.
        - replace (nbase cwd root ++ (n_names root ++ rel) ++ [nm]) with (R ++ rel ++ [nm])
            by (unfold R; rewrite phys_of_nbase, <- !app_assoc; reflexivity).
          unfold fs1. apply look_set_same. exact Hne. }
      assert (Hfree1 : forall c s, look fs1 (R ++ (rel ++ [nm]) ++ c :: s) = None).
      { intros c s. unfold fs1. rewrite look_set_other.
        - rewrite <- app_assoc. apply Hfree.
        - rewrite <- !app_assoc. intro E. apply app_inv_head in E. apply app_inv_head in E.
          cbn in E. inversion E. }
      destruct (IH eq_refl Hvu eq_refl fs fs1 (rel ++ [nm])
                   (resolve_ok_snoc fs rel nm Ha Hnorm) Hmk Hc1 Ha1 Hfree1) as [fs' [Hx [HA HB]]].
      exists fs'. split; [exact Hx|]. split.
      + intros [|c s].
        * rewrite app_nil_r. rewrite HB by (right; reflexivity).
          unfold fs1. rewrite look_set_same by exact Hne. reflexivity.
        * replace ((R ++ rel ++ [nm]) ++ c :: s) with (R ++ (rel ++ [nm]) ++ c :: s)
            by (apply app_assoc).
          apply HA.
      + intros q Hq. rewrite HB by (left; exact Hq).
        unfold fs1. apply look_set_other. intro; subst. apply Hq. apply under_refl.
  Qed.

  Lemma elem_post_ext fs P' u' fs' :
    (forall s, look fs (P' ++ s) = None) -> elem_post fs P' u' fs' -> ext fs fs'.
  Proof.
    intros Hfree [_ HB] q n Hl. exists n. split; [|apply same_kind_refl].
    destruct (under_dec P' q) as [[s ->]|Hn]; [rewrite Hfree in Hl; discriminate|].
    rewrite HB by exact Hn. exact Hl.
  Qed.

  Definition entry_fn (rel : list name) :=
    fun (fs : fsmap) (nm : name) (t' : utree) =>
      extract_element true cwd root fs (mknp true 0 rel) nm t'
        (fun f p => extract_dir true cwd root t' f p []).

  Definition listing_at (fs : fsmap) (rel : list name) (done : list (name * utree)) : Prop :=
    forall c s, look fs (R ++ rel ++ c :: s) =
                match assoc_u c done with Some u' => ulook s u' | None => None end.

  Lemma loop_builds rel : forall rest done fsi cnt,
    Forall (fun e => is_udir (snd e) = true -> builds (snd e)) rest ->
    allvalid rest = true -> NoDup (map fst done ++ map fst rest) ->
    cwd_ok fsi cwd -> alldirs fsi cwd (joined rel) ->
    listing_at fsi rel done ->
    exists fs',
      loop_spec (entry_fn rel) rest fsi cnt = (fs', XOk (cnt + sumleaves rest)%N) /\
      listing_at fs' rel (done ++ rest) /\
      (forall q, (~ under (R ++ rel) q \/ q = R ++ rel) -> look fs' q = look fsi q).
  Proof.
    induction rest as [|[nm u'] rest IHrest]; intros done fsi cnt HIH Hv Hnd Hc Ha Hinv.
    - exists fsi. cbn [loop_spec sumleaves]. rewrite N.add_0_r, app_nil_r. auto.
    - cbn [allvalid] in Hv. apply andb_true_iff in Hv as [Hv Hvr]. apply andb_true_iff in Hv as [Hvn Hvu].
      inversion HIH as [|e l IHu IHl]; subst.
      cbn [map fst] in Hnd.
      assert (Hnotin : ~ In nm (map fst done)).
      { intro Hin. apply NoDup_remove_2 in Hnd. apply Hnd. apply in_or_app. left. exact Hin. }
      assert (Hnd' : NoDup (map fst (done ++ [(nm, u')]) ++ map fst rest)).
      { rewrite map_app. cbn [map fst]. rewrite <- app_assoc. exact Hnd. }
      assert (Hfree : forall s, look fsi (R ++ rel ++ [nm] ++ s) = None).
      { intro s. cbn [app]. rewrite Hinv. rewrite assoc_u_notin by exact Hnotin. reflexivity. }
      destruct (element_builds fsi rel nm u' IHu Hvn Hvu Hc Ha Hfree) as [fs1 [Hx Hpost]].
      assert (Hfree' : forall s, look fsi ((R ++ rel ++ [nm]) ++ s) = None).
      { intro s. rewrite <- !app_assoc. apply Hfree. }
      assert (Hext : ext fsi fs1) by (eapply elem_post_ext; eassumption).
      destruct Hpost as [HA HB].
      assert (Hinv1 : listing_at fs1 rel (done ++ [(nm, u')])).
      { intros c s. rewrite assoc_u_app_notin. destruct (bytes_eqb nm c) eqn:Ec.
        - apply bytes_eqb_eq in Ec. subst c. rewrite assoc_u_notin by exact Hnotin.
          replace (R ++ rel ++ nm :: s) with ((R ++ rel ++ [nm]) ++ s) by (rewrite <- !app_assoc; reflexivity).
          apply HA.
        - rewrite HB.
          + rewrite Hinv. destruct (assoc_u c done); reflexivity.
          + intro Hu. replace (R ++ rel ++ [nm]) with ((R ++ rel) ++ [nm]) in Hu by (rewrite <- app_assoc; reflexivity).
            replace (R ++ rel ++ c :: s) with ((R ++ rel) ++ c :: s) in Hu by (rewrite <- app_assoc; reflexivity).
            apply under_snoc_inv in Hu. subst c. rewrite bytes_eqb_refl in Ec. discriminate. }
      destruct (IHrest (done ++ [(nm, u')]) fs1 (cnt + uleaves u')%N IHl Hvr Hnd'
                  (cwd_ok_ext _ _ _ Hext Hc)) as [fs' [Hl [Hinv' HB']]].
      { unfold alldirs in *. eapply dirchain_ext; eassumption. }
      { exact Hinv1. }
      exists fs'. split; [|split].
      + cbn [loop_spec]. unfold entry_fn at 1. rewrite Hx. fold (entry_fn rel). rewrite Hl.
        cbn [sumleaves]. rewrite N.add_assoc. reflexivity.
      + rewrite <- app_assoc in Hinv'. exact Hinv'.
      + intros q Hq. rewrite HB' by exact Hq. apply HB.
        destruct Hq as [Hq| ->].
        * intro Hu. apply Hq. eapply under_trans; [|exact Hu].
          exists [nm]. rewrite <- app_assoc. reflexivity.
        * replace (R ++ rel ++ [nm]) with ((R ++ rel) ++ [nm]) by (rewrite <- app_assoc; reflexivity).
          apply not_under_longer.
  Qed.

  Lemma builds_all : forall u, builds u.
  Proof.
    induction u as [d|d|tg|es IH| |] using utree_ind2; unfold builds; intros Hv Hd; try discriminate Hd.
    intros fs fs1 rel Hres Hmk Hc1 Ha1 Hfree.
    rewrite valid_utree_dir in Hv. apply andb_true_iff in Hv as [Hnd Hav].
    apply names_distinct_NoDup in Hnd.
    assert (HIH : Forall (fun e => is_udir (snd e) = true -> builds (snd e)) es).
    { eapply Forall_impl; [|exact IH]. intros e He _. exact He. }
    assert (Hinv0 : listing_at fs1 rel []).
    { intros c s. cbn [assoc_u]. apply Hfree. }
    destruct (loop_builds rel es [] fs1 0%N HIH Hav Hnd Hc1 Ha1 Hinv0) as [fs' [Hl [Hinv HB]]].
    exists fs'. split; [|split].
    - rewrite extract_dir_eq, Hres, Hmk. fold (entry_fn rel). rewrite Hl.
      rewrite N.add_0_l, uleaves_dir. reflexivity.
    - intros c s. rewrite Hinv. cbn [app ulook]. reflexivity.
    - exact HB.
  Qed.
End RoundTrip.

Lemma path_segments_empty : path_segments [] = Some [].
Proof. reflexivity. Qed.

(* C18: extraction of a valid tree into an empty directory *)
Theorem extract_reproduces_tree fs cwd outdir root u :
  cwd_ok fs cwd ->
  eval_symlinks_str fs cwd outdir = Some root ->
  look fs (phys_of cwd root) = Some NDir ->
  (forall c s, look fs (phys_of cwd root ++ c :: s) = None) ->
  valid_utree u = true -> is_udir u = true ->
  exists fs',
    extract_cmd true fs cwd outdir [] [RNode u] = (fs', XOk (uleaves u)) /\
    (forall s, look fs' (phys_of cwd root ++ s) = ulook s u) /\
    (forall p, ~ under (phys_of cwd root) p -> look fs' p = look fs p).
Proof.
  intros Hc He Hdir Hempty Hv Hd.
  assert (Hwf : np_wf root) by (eapply eval_symlinks_str_wf; exact He).
  assert (Hg : good fs cwd root) by (eapply eval_symlinks_good; exact He).
  assert (Ha : alldirs fs cwd root).
  { destruct (good_cases _ _ _ Hg) as [Ha|[init [last [d0 [E [_ [_ Hl]]]]]]]; [exact Ha|].
    rewrite phys_of_nbase, E in Hdir. rewrite Hdir in Hl. discriminate. }
  destruct u as [d|d|tg|es| |]; try discriminate Hd.
  pose proof (joined_nil cwd root Hwf) as Hjn.
  assert (Haj : alldirs fs cwd (joined root [])) by (rewrite Hjn; exact Ha).
  assert (Hmk : mkdir_all fs cwd (joined root []) = (fs, true)).
  { apply mkdir_all_existing; [exact Haj|]. rewrite Hjn. exact Hdir. }
  assert (Hfree : forall c s, look fs (phys_of cwd root ++ [] ++ c :: s) = None).
  { intros c s. cbn [app]. apply Hempty. }
  destruct (builds_all cwd root Hwf (UDir es) Hv eq_refl fs fs []
              (resolve_ok_root cwd root Hwf fs Ha) Hmk Hc Haj Hfree) as [fs' [Hx [HA HB]]].
  exists fs'. split; [|split].
  - unfold extract_cmd. rewrite path_segments_empty. cbn [extract_roots]. unfold extract_root.
    rewrite He. change np_root with (mknp true 0 []). rewrite Hx. rewrite N.add_0_l. reflexivity.
  - intros [|c s].
    + rewrite app_nil_r. rewrite HB by (right; rewrite app_nil_r; reflexivity). exact Hdir.
    + apply (HA c s).
  - intros p Hp. apply HB. left. rewrite app_nil_r. exact Hp.
Qed.

(* ---- in terms of a tree on disk and an arbitrary packer ---- *)
Fixpoint uents (es : list (name * ftree)) : list (name * utree) :=
  match es with [] => [] | (nm, t') :: r => (nm, u_of_t t') :: uents r end.
Lemma u_of_t_dir es : u_of_t (TDir es) = UDir (uents es).
Proof. reflexivity. Qed.

Lemma assoc_uents c es : assoc_u c (uents es) = option_map u_of_t (assoc_t c es).
Proof.
  induction es as [|[n t] r IH]; [reflexivity|]. cbn [uents assoc_u assoc_t].
  destruct (bytes_eqb n c); [reflexivity|exact IH].
Qed.

(* the reference packing denotes the tree *)
Lemma ulook_u_of_t : forall s t, ulook s (u_of_t t) = tlook s t.
Proof.
  induction s as [|c s IH]; intro t.
  - destruct t; reflexivity.
  - destruct t as [d|x|es]; try reflexivity.
    rewrite u_of_t_dir. cbn [ulook tlook]. rewrite assoc_uents.
    destruct (assoc_t c es); [apply IH|reflexivity].
Qed.

Theorem create_extract_roundtrip (pack : ftree -> utree) :
  (forall t, valid_ftree t = true ->
             valid_utree (pack t) = true /\ (forall s, ulook s (pack t) = tlook s t)) ->
  forall fs cwd outdir root t,
    (forall k, look fs (Nat.iter k (@removelast name) cwd) = Some NDir) ->
    eval_symlinks_str fs cwd outdir = Some root ->
    look fs (phys_of cwd root) = Some NDir ->
    (forall c s, look fs (phys_of cwd root ++ c :: s) = None) ->
    valid_ftree t = true -> is_tdir t = true ->
    exists fs' n,
      extract_cmd true fs cwd outdir [] [RNode (pack t)] = (fs', XOk n) /\
      (forall s, look fs' (phys_of cwd root ++ s) = tlook s t) /\
      (forall p, ~ under (phys_of cwd root) p -> look fs' p = look fs p).
Proof.
  intros Hpack fs cwd outdir root t Hc He Hdir Hempty Hv Hd.
  destruct (Hpack t Hv) as [Hvu Hl].
  assert (Hud : is_udir (pack t) = true).
  { specialize (Hl []). destruct t; try discriminate Hd. cbn [tlook] in Hl.
    destruct (pack (TDir es)); cbn in Hl; try discriminate. reflexivity. }
  destruct (extract_reproduces_tree fs cwd outdir root (pack t) Hc He Hdir Hempty Hvu Hud)
    as [fs' [Hx [HA HB]]].
  exists fs', (uleaves (pack t)). split; [exact Hx|]. split; [|exact HB].
  intro s. rewrite HA. apply Hl.
Qed.

(* non-vacuity: the reference packer satisfies the oracle hypothesis *)
Lemma reference_packer_ok :
  forall t, valid_ftree t = true ->
            valid_utree (u_of_t t) = true /\ (forall s, ulook s (u_of_t t) = tlook s t).
Proof. intros t Hv. split; [exact Hv|]. intro s. apply ulook_u_of_t. Qed.

(* a lone big file packed with --no-wrap is a dag-pb file root: it is extracted as "unknown" *)
Theorem extract_lone_file fs cwd outdir root d :
  (forall k, look fs (Nat.iter k (@removelast name) cwd) = Some NDir) ->
  eval_symlinks_str fs cwd outdir = Some root ->
  look fs (phys_of cwd root) = Some NDir ->
  look fs (phys_of cwd root ++ [unknown_name]) = None ->
  extract_cmd true fs cwd outdir [] [RNode (UFile d)] =
    (fs_set fs (phys_of cwd root ++ [unknown_name]) (NFile d), XOk 1).
Proof.
  intros Hc He Hdir Hfree.
  assert (Hwf : np_wf root) by (eapply eval_symlinks_str_wf; exact He).
  assert (Hg : good fs cwd root) by (eapply eval_symlinks_good; exact He).
  assert (Ha : alldirs fs cwd root).
  { destruct (good_cases _ _ _ Hg) as [Ha|[init [last [d0 [E [_ [_ Hl]]]]]]]; [exact Ha|].
    rewrite phys_of_nbase, E in Hdir. rewrite Hdir in Hl. discriminate. }
  pose proof (joined_nil cwd root Hwf) as Hjn.
  unfold extract_cmd. rewrite path_segments_empty. cbn [extract_roots]. unfold extract_root.
  rewrite He. change np_root with (mknp true 0 []).
  rewrite (resolve_ok_root cwd root Hwf fs Ha). rewrite Hjn.
  rewrite (mkdir_all_existing fs cwd root Ha Hdir).
  assert (Hu : valid_name unknown_name = true) by reflexivity.
  destruct (valid_name_ok _ Hu) as [Hok Hsp].
  assert (Ej : join root unknown_name = joined root [unknown_name]).
  { unfold join. rewrite Hsp. apply n_apply_normal. constructor; [apply Hok|constructor]. }
  rewrite Ej.
  rewrite (extract_file_creates fs cwd (joined root [unknown_name]) (n_names root) unknown_name d).
  - rewrite (phys_joined cwd root). reflexivity.
  - reflexivity.
  - exact Ha.
  - exact Hok.
  - rewrite (phys_joined cwd root). exact Hfree.
Qed.

(* standard input *)
Lemma stdin_fixed_opens k v : stdin_open_ok true k v = true.
Proof. unfold stdin_open_ok, stdin_reader. destruct (v =? 2)%N; reflexivity. Qed.

Lemma stdin_unfixed_refuted : exists k v, stdin_open_ok false k v = false.
Proof. exists RPipe, 2%N. reflexivity. Qed.

(* ---- a concrete instance (also replayed against the real tool: corpus/C18) ---- *)
Definition rt_o : name := [x6f].
Definition rt_a : name := [x61].
Definition rt_d : name := [x64].
Definition rt_l : name := [x6c].
Definition rt_tree : ftree :=
  TDir [(rt_a, TFile [x68; x69]); (rt_d, TDir [(rt_l, TLink [x2e; x2e; x2f; x61]); (rt_a, TFile [])])].
Definition rt_fs : fsmap := [([rt_o], NDir)].

Example rt_hypotheses :
  valid_ftree rt_tree = true /\ is_tdir rt_tree = true /\
  eval_symlinks_str rt_fs [] [x2f; x6f] = Some (mknp true 0 [rt_o]) /\
  look rt_fs [rt_o] = Some NDir.
Proof. vm_compute. repeat split; reflexivity. Qed.

Example rt_result :
  snd (extract_cmd true rt_fs [] [x2f; x6f] [] [RNode (u_of_t rt_tree)]) = XOk 3 /\
  look (fst (extract_cmd true rt_fs [] [x2f; x6f] [] [RNode (u_of_t rt_tree)])) [rt_o; rt_d; rt_l]
    = Some (NLink [x2e; x2e; x2f; x61]).
Proof. vm_compute. split; reflexivity. Qed.

(* --no-wrap of a lone file of one chunk gives a raw root, of a lone symlink a symlink-typed root:
   a root has no name, `car extract` reports zero files and touches nothing *)
Theorem extract_raw_root fs cwd outdir :
  extract_cmd true fs cwd outdir [] [RRaw] = (fs, XOk 0).
Proof. reflexivity. Qed.

Theorem extract_symlink_root fs cwd outdir root tg :
  (forall k, look fs (Nat.iter k (@removelast name) cwd) = Some NDir) ->
  eval_symlinks_str fs cwd outdir = Some root ->
  look fs (phys_of cwd root) = Some NDir ->
  extract_cmd true fs cwd outdir [] [RNode (ULink tg)] = (fs, XOk 0).
Proof.
  intros Hc He Hdir.
  assert (Hwf : np_wf root) by (eapply eval_symlinks_str_wf; exact He).
  assert (Hg : good fs cwd root) by (eapply eval_symlinks_good; exact He).
  assert (Ha : alldirs fs cwd root).
  { destruct (good_cases _ _ _ Hg) as [Ha|[init [last [d0 [E [_ [_ Hl]]]]]]]; [exact Ha|].
    rewrite phys_of_nbase, E in Hdir. rewrite Hdir in Hl. discriminate. }
  pose proof (joined_nil cwd root Hwf) as Hjn.
  unfold extract_cmd. rewrite path_segments_empty. cbn [extract_roots]. unfold extract_root.
  rewrite He. change np_root with (mknp true 0 []). rewrite extract_dir_eq.
  rewrite (resolve_ok_root cwd root Hwf fs Ha). rewrite Hjn.
  rewrite (mkdir_all_existing fs cwd root Ha Hdir). reflexivity.
Qed.

(* ---- modification times: what could change them outside ---- *)
(* The mtime of a regular file changes when the file is written, that of a directory when an entry is
   added to or removed from it.  No operation of the model writes an outside path (containment), and
   the set of entries of every directory outside the output directory is the same afterwards: *)
Lemma root_exists fs cwd outdir root :
  (forall k, look fs (Nat.iter k (@removelast name) cwd) = Some NDir) ->
  eval_symlinks_str fs cwd outdir = Some root -> look fs (phys_of cwd root) <> None.
Proof.
  intros Hc He. apply eval_symlinks_good in He.
  destruct He as [E|[init [last [n [E [_ [_ [Hl _]]]]]]]]; [|rewrite Hl; discriminate].
  rewrite phys_of_nbase, E, app_nil_r. unfold nbase. destruct (n_abs root); [discriminate|].
  rewrite Hc. discriminate.
Qed.

Theorem outside_directory_entries_unchanged fs cwd outdir pathflag roots root fs' res :
  (forall k, look fs (Nat.iter k (@removelast name) cwd) = Some NDir) ->
  eval_symlinks_str fs cwd outdir = Some root ->
  extract_cmd true fs cwd outdir pathflag roots = (fs', res) ->
  forall q c, ~ under (phys_of cwd root) q ->
    (look fs' (q ++ [c]) = None <-> look fs (q ++ [c]) = None).
Proof.
  intros Hc He H q c Hq.
  destruct (under_dec (phys_of cwd root) (q ++ [c])) as [[s E]|Hn].
  - (* q ++ [c] is the output directory itself: it was there and still is *)
    assert (s = []).
    { destruct (list_snoc_cases s) as [->|[s' [x ->]]]; [reflexivity|].
      rewrite app_assoc in E. apply app_inj_tail in E as [E _]. exfalso. apply Hq. exists s'. exact E. }
    subst s. rewrite app_nil_r in E. rewrite E.
    pose proof (root_exists _ _ _ _ Hc He) as Hex.
    destruct (look fs (phys_of cwd root)) as [n|] eqn:L; [|contradiction].
    destruct (extract_cmd_preserves _ _ _ _ _ _ _ _ Hc He H _ _ L) as [n' [L' _]].
    rewrite L'. split; discriminate.
  - rewrite (extract_cmd_contained _ _ _ _ _ _ _ _ Hc He H _ Hn). tauto.
Qed.
