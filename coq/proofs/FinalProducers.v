(* C05 beyond store.Finalize: the other producers of a finished CARv2 in the library satisfy the same
   well-formedness ([wf_finished]), by instantiating FinalWf.wf_finished_container / the IndexGen section with the
   closed forms their own properties proved (Transform: C10, Deferred: C20); the executable LdWrite guard;
   the exact shape of the "no roots" verifier finding. *)
From Coq Require Import Sorting.Sorted Sorting.Permutation.
From GoCar Require Import Bytes Varint Cid Header Frame V2Header Scan Index Store Wf Transform Deferred.
From GoCarProofs Require Import BytesFacts VarintFacts CidFacts HeaderFacts ScanFacts
     FinalBytes FinalOrder FinalIndex FinalStore FinalCid FinalWf FinalWide FinalAccept FinalMain.
From GoCar Require Traversal.
From GoCarProofs Require IndexSort IndexLoad IndexRoundtrip TransformWrap DeferredFacts TraversalV2.

(* ---- the LdWrite guard ----------------------------------------------------------------------------------- *)
Lemma history_ok_frameable h : history_ok h = true ->
  Forall (Forall (fun b : block => blen (fst b) + blen (snd b) < 2 ^ 56)) h.
Proof.
  unfold history_ok. intros H. rewrite forallb_forall in H. apply Forall_forall. intros b Hb.
  specialize (H b Hb). rewrite forallb_forall in H. apply Forall_forall. intros x Hx.
  specialize (H x Hx). unfold ld_write_ok in H. lia.
Qed.

(* every block a Go program can hold meets it by a wide margin: keys within the index's 32 MiB record cap,
   data within 1 PiB *)
Lemma ld_write_ok_realistic b : blen (fst b) <= 2 ^ 25 -> blen (snd b) <= 2 ^ 50 -> ld_write_ok b = true.
Proof.
  unfold ld_write_ok. change (2 ^ 25) with 33554432. change (2 ^ 50) with 1125899906842624.
  change (2 ^ 56) with 72057594037927936. intros. lia.
Qed.

(* ---- sessions under the guard (the statements of props/C05.v) ---------------------------------------------- *)
Theorem c05_layout_guarded :
  forall (k : skind) (o : wopts) (nilroots : bool) (roots : list bytes) (h : list batch) (fi : index),
  let ro := roots_opt nilroots roots in
  let stored := spec_stored k o ro h in
  let payload := ld (enc_header ro 1) ++ enc_sections stored in
  51 + w_dpad o + w_ipad o < two64 ->
  (k = KStorage false -> w_v1 o = true) ->
  history_ok h = true ->
  51 + w_dpad o + blen payload + w_ipad o < two64 ->
  (w_v1 o = false ->
   ii_flatten (w_codec o) (ii_load (records_from (ld_size (blen (enc_header ro 1))) stored) []) = Some fi) ->
  exists s outs,
    session k o nilroots roots h = Ok (s, outs, ONil) /\
    ws_file s =
      if w_v1 o then payload
      else pragma ++
           enc_v2hdr (mkv2 (if w_storeid o then 128 else 0) 0 (51 + w_dpad o) (blen payload)
                           (51 + w_dpad o + blen payload + w_ipad o)) ++
           zerosN (w_dpad o) ++ payload ++ zerosN (w_ipad o) ++ idx_write fi.
Proof.
  intros k o nilroots roots h fi ro stored payload Ho Hk Hh. apply c05_layout; try assumption.
  apply history_ok_frameable. exact Hh.
Qed.

Theorem c05_wf_guarded :
  forall (k : skind) (o0 : wopts) (nilroots : bool) (roots : list bytes) (h : list batch) s outs,
  let o := apply_wopts o0 in
  let ro := roots_opt nilroots roots in
  let stored := spec_stored k o ro h in
  session k o nilroots roots h = Ok (s, outs, ONil) ->
  51 + w_dpad o + w_ipad o < two64 -> w_ipad o < two63 ->
  roots_ok roots ->
  history_ok h = true ->
  blen (ws_file s) < two63 ->
  (w_v1 o = false -> w_codec o = codec_mh_sorted ->
   N.of_nat (length (group_by r_code (ii_load (records_from (ld_size (blen (enc_header ro 1))) stored) []))) < two31) ->
  wf_parse o (ws_file s) = Some (roots, stored) /\ wf_car o (ws_file s) = true.
Proof.
  intros k o0 nilroots roots h s outs o ro stored Hs Ho Hip Hr Hh.
  apply (c05_wf_applied k o0 nilroots roots h s outs Hs Ho Hip Hr (history_ok_frameable h Hh)).
Qed.

Theorem c05_inspect_accepts_guarded :
  forall (hok : bytes -> bytes -> option bool) (hdrdec : bytes -> option (list bytes * N))
         (k : skind) (o0 : wopts) (nilroots : bool) (roots : list bytes) (h : list batch) s outs
         (r : ropts) (validate : bool),
  let o := apply_wopts o0 in
  let ro := roots_opt nilroots roots in
  session k o nilroots roots h = Ok (s, outs, ONil) ->
  51 + w_dpad o + w_ipad o < two64 -> w_ipad o < two63 ->
  history_ok h = true ->
  blen (ws_file s) < two63 ->
  hdrdec pragma_body = Some ([], 2) -> hdrdec (enc_header ro 1) = Some (roots, 1) ->
  blen (enc_header ro 1) <= o_maxh r ->
  Forall (Forall (fun b : block => blen (fst b) + blen (snd b) <= o_maxs r)) h ->
  (validate = true -> Forall (Forall (hash_good hok)) h) ->
  inspect_check hok hdrdec r validate (ws_file s) = Ok tt.
Proof.
  intros hok hdrdec k o0 nilroots roots h s outs r validate o ro Hs Ho Hip Hh.
  apply (c05_inspect_accepts_applied hok hdrdec k o0 nilroots roots h s outs r validate Hs Ho Hip
           (history_ok_frameable h Hh)).
Qed.

Theorem c05_verify_accepts_partial_guarded :
  forall (hok : bytes -> bytes -> option bool) (hdrdec : bytes -> option (list bytes * N))
         (k : skind) (o0 : wopts) (nilroots : bool) (roots : list bytes) (h : list batch) s outs,
  let o := apply_wopts o0 in
  let ro := roots_opt nilroots roots in
  let stored := spec_stored k o ro h in
  session k o nilroots roots h = Ok (s, outs, ONil) ->
  51 + w_dpad o + w_ipad o < two64 -> w_ipad o < two63 ->
  history_ok h = true ->
  blen (ws_file s) < two63 ->
  (w_v1 o = false -> w_codec o = codec_mh_sorted ->
   N.of_nat (length (group_by r_code (ii_load (records_from (ld_size (blen (enc_header ro 1))) stored) []))) < two31) ->
  hdrdec pragma_body = Some ([], 2) -> hdrdec (enc_header ro 1) = Some (roots, 1) ->
  blen (enc_header ro 1) <= o_maxh default_ropts ->
  Forall (Forall (fun b : block => blen (fst b) + blen (snd b) <= o_maxs default_ropts)) h ->
  Forall (Forall (hash_good hok)) h ->
  incl roots (map fst stored) ->
  roots <> [] ->
  verify_check hok hdrdec (ws_file s) = Ok tt.
Proof.
  intros hok hdrdec k o0 nilroots roots h s outs o ro stored Hs Ho Hip Hh.
  apply (c05_verify_accepts_partial_applied hok hdrdec k o0 nilroots roots h s outs Hs Ho Hip
           (history_ok_frameable h Hh)).
Qed.

(* ---- the "no roots" finding, exactly ------------------------------------------------------------------------
   For EVERY finalized archive without roots (any front-end, options, history): the file is well-formed with
   exactly the stored blocks, Inspect accepts it, and VerifyCar's only objection is the root test it makes right
   after reading the header -- nothing else is hidden behind it. *)
Lemma verify_check_no_roots hok hdrdec wo ro bs fi :
  hdrdec_good hdrdec ro -> blen (enc_header ro 1) <= o_maxh default_ropts -> blen (enc_header ro 1) < two63 ->
  file_fits wo ro bs fi -> roots_of ro = [] ->
  verify_check hok hdrdec (layout wo ro bs fi) = Err EOther.
Proof.
  intros (Hpr & Hd) Hmax H63 Hfit Hno. unfold verify_check. destruct (w_v1 wo) eqn:Hv.
  - unfold layout. rewrite Hv. unfold payload_opt.
    rewrite (read_header_ld hdrdec _ _ _ _ _ Hd Hmax H63). cbn [N.eqb Pos.eqb orb negb].
    rewrite (read_header_ld hdrdec _ _ _ _ _ Hd Hmax H63). rewrite Hno. reflexivity.
  - rewrite (layout_v2_eq wo ro bs fi Hv) at 1. rewrite pragma_ld.
    rewrite (read_header_ld hdrdec _ pragma_body [] 2 _ Hpr);
      [|pose proof (blen_enc_header_ge ro); change (blen pragma_body) with 10; cbn [o_maxh default_ropts] in *; lia
       |change (blen pragma_body) with 10; unfold two63; lia].
    change (2 =? 1) with false. change (2 =? 2) with true. cbn [orb negb].
    rewrite (layout_v2_drop11 wo ro bs fi Hv). rewrite (final_hdr_reads hok hdrdec wo ro bs fi _ Hv Hfit).
    cbn [final_hdr h_dsize h_doff]. rewrite (layout_v2_payload wo ro bs fi Hv).
    unfold payload_opt. rewrite (read_header_ld hdrdec _ _ _ _ _ Hd Hmax H63). rewrite Hno. reflexivity.
Qed.

Theorem c05_no_roots_exact :
  forall (hok : bytes -> bytes -> option bool) (hdrdec : bytes -> option (list bytes * N))
         (k : skind) (o0 : wopts) (nilroots : bool) (h : list batch) s outs,
  let o := apply_wopts o0 in
  let ro := roots_opt nilroots [] in
  let stored := spec_stored k o ro h in
  session k o nilroots [] h = Ok (s, outs, ONil) ->
  51 + w_dpad o + w_ipad o < two64 -> w_ipad o < two63 ->
  history_ok h = true ->
  blen (ws_file s) < two63 ->
  (w_v1 o = false -> w_codec o = codec_mh_sorted ->
   N.of_nat (length (group_by r_code (ii_load (records_from (ld_size (blen (enc_header ro 1))) stored) []))) < two31) ->
  hdrdec pragma_body = Some ([], 2) -> hdrdec (enc_header ro 1) = Some ([], 1) ->
  Forall (Forall (fun b : block => blen (fst b) + blen (snd b) <= o_maxs default_ropts)) h ->
  Forall (Forall (hash_good hok)) h ->
  wf_parse o (ws_file s) = Some ([], stored) /\
  inspect_check hok hdrdec default_ropts true (ws_file s) = Ok tt /\
  verify_check hok hdrdec (ws_file s) = Err EOther.
Proof.
  intros hok hdrdec k o0 nilroots h s outs o ro stored Hs Ho Hip Hh Hlen Hcodes Hpr Hd Hsz Hhash.
  assert (Hr : roots_ok []) by (split; [constructor|unfold two64; cbn; lia]).
  assert (Hhdr : blen (enc_header ro 1) <= o_maxh default_ropts).
  { unfold ro, roots_opt. destruct nilroots; vm_compute; discriminate. }
  split; [|split].
  - apply (c05_wf_guarded k o0 nilroots [] h s outs Hs Ho Hip Hr Hh Hlen Hcodes).
  - apply (c05_inspect_accepts_guarded hok hdrdec k o0 nilroots [] h s outs default_ropts true Hs Ho Hip Hh Hlen Hpr Hd Hhdr Hsz).
    intros _. exact Hhash.
  - destruct (session_ok_inv k o nilroots [] h s outs Hs Ho Hip Hlen) as (fi & Hl & Hfi). fold ro in Hl, Hfi.
    rewrite Hl. apply verify_check_no_roots.
    + split; [exact Hpr|]. unfold ro. rewrite roots_of_opt. exact Hd.
    + exact Hhdr.
    + unfold ro, roots_opt. destruct nilroots; vm_compute; reflexivity.
    + unfold file_fits. rewrite <- Hl. exact Hlen.
    + unfold ro. apply roots_of_opt.
Qed.

(* ---- the deferred writer (storage/deferred): its output IS a storage session's ------------------------------ *)
Lemma st_puts_direct b : forall s acc, fst (st_puts s b acc) = direct_puts s b.
Proof.
  induction b as [|[c d] t IH]; intros s acc; cbn [st_puts]; [reflexivity|].
  unfold direct_puts. cbn [fold_left fst snd]. destruct (st_put s c d) as [s' o] eqn:E. cbn [fst].
  rewrite IH. reflexivity.
Qed.

Lemma put_one_kind s c d p : ws_kind (fst (put_one s c d p)) = ws_kind s.
Proof.
  unfold put_one.
  repeat match goal with
         | |- context [match ?x with _ => _ end] => destruct x eqn:?
         | |- context [if ?x then _ else _] => destruct x eqn:?
         end; cbn; congruence.
Qed.

Lemma st_puts_kind b : forall s acc, ws_kind (fst (st_puts s b acc)) = ws_kind s.
Proof.
  induction b as [|[c0 d0] t IH]; intros s acc; cbn [st_puts]; [reflexivity|].
  destruct (st_put s c0 d0) as [s'' o'] eqn:E. rewrite IH.
  unfold st_put in E. destruct (cid_parse c0) as [p|]; [|inversion E; reflexivity].
  destruct (ws_closed s); [inversion E; reflexivity|]. destruct (ws_finalized s); [inversion E; reflexivity|].
  pose proof (put_one_kind s c0 d0 p) as K. rewrite E in K. exact K.
Qed.

Theorem deferred_is_session c ops s :
  dc_faults c = [] -> dc_kids c = [] -> d_inner (d_run c d_init ops) = Some s -> existsb is_close ops = true ->
  exists s2 outs fo,
    session (dc_kind c) (eff_opts c) (dc_nilroots c) (dc_roots c) [d_puts ops] = Ok (s2, outs, fo) /\
    d_bytes c (d_run c d_init ops) = ws_file s2.
Proof.
  intros Hf Hnk Hin Hcl. destruct (DeferredFacts.output_is_direct c ops s Hnk Hin) as (s0 & Hopen & Hb).
  unfold direct_open in Hopen. rewrite Hf in Hopen.
  assert (Hk : ws_kind s0 = dc_kind c).
  { unfold open_new in Hopen. destruct (match dc_kind c with KStorage false => _ | _ => _ end); [discriminate|].
    destruct (if w_v1 (eff_opts c) then _ else _) as [dv1 ok1]. destruct (negb ok1); [discriminate|].
    destruct (write_chunks _ _ _) as [[dv2 abs] ok2]. destruct (negb ok2); [discriminate|].
    inversion Hopen. reflexivity. }
  unfold session. rewrite Hopen. cbn [put_batches]. unfold put_batch. rewrite Hk. unfold dc_kind at 1.
  destruct (st_puts s0 (d_puts ops) []) as [s1 o1] eqn:E1. cbn [put_batches].
  assert (Hk1 : ws_kind s1 = dc_kind c).
  { pose proof (st_puts_kind (d_puts ops) s0 []) as G. rewrite E1 in G. cbn [fst] in G. rewrite G. exact Hk. }
  unfold finalize. rewrite Hk1. unfold dc_kind at 1.
  destruct (st_finalize s1) as [s2 fo] eqn:E2. exists s2, [o1], fo. split; [reflexivity|].
  rewrite Hb, Hcl. unfold direct_run. rewrite <- (st_puts_direct (d_puts ops) s0 []), E1. cbn [fst]. rewrite E2. reflexivity.
Qed.

(* hence everything proved about sessions holds of the bytes the deferred writer leaves: whenever the Finalize
   inside Close succeeded (C05_layout says when), the file at the path / in the stream is well-formed and carries
   the roots and the de-duplicated puts *)
Theorem deferred_output_wf c ops s :
  let o := eff_opts c in
  let ro := roots_opt (dc_nilroots c) (dc_roots c) in
  let stored := spec_stored (dc_kind c) o ro [d_puts ops] in
  let file := d_bytes c (d_run c d_init ops) in
  dc_faults c = [] -> dc_kids c = [] -> d_inner (d_run c d_init ops) = Some s -> existsb is_close ops = true ->
  exists s2 outs fo,
    session (dc_kind c) o (dc_nilroots c) (dc_roots c) [d_puts ops] = Ok (s2, outs, fo) /\ file = ws_file s2 /\
    (fo = ONil ->
     51 + w_dpad o + w_ipad o < two64 -> w_ipad o < two63 -> w_maxcid o + 8 <= max_width ->
     roots_ok (dc_roots c) -> history_ok [d_puts ops] = true -> blen file < two63 ->
     (w_v1 o = false -> w_codec o = codec_mh_sorted ->
      N.of_nat (length (group_by r_code (ii_load (records_from (ld_size (blen (enc_header ro 1))) stored) []))) < two31) ->
     wf_parse o file = Some (dc_roots c, stored)).
Proof.
  intros o ro stored file Hf Hnk Hin Hcl.
  destruct (deferred_is_session c ops s Hf Hnk Hin Hcl) as (s2 & outs & fo & Hs & Hb).
  exists s2, outs, fo. split; [exact Hs|]. split; [exact Hb|].
  intros -> Ho Hip Hmc Hr Hh Hlen Hcodes. unfold file in *. rewrite Hb in *.
  destruct (c05_wf (dc_kind c) o (dc_nilroots c) (dc_roots c) [d_puts ops] s2 outs Hs Ho Hip Hmc Hr
              (history_ok_frameable _ Hh) Hlen Hcodes) as [Hwf _].
  exact Hwf.
Qed.

(* ---- WrapV1 / WrapV1File (v2/writer.go): CARv1 in, CARv2 with a generated index out ---------------------------
   The index holds the non-identity sections (all with StoreIdentityCIDs); WrapV1 never sets the fully-indexed
   bit, so the flag clause is the one-directional [flag_ok false]. *)
Definition wopts_of_x (xo : xopts) : wopts :=
  mkwopts 0 0 (x_codec xo) (x_zeof xo) (x_maxcid xo) (x_storeid xo) false false false (x_maxh xo) default_maxs.

Lemma lblock_put_ok xo b : TransformWrap.lblock_ok xo b -> blen (fst b) + blen (snd b) < two56 -> put_ok b.
Proof. intros (p & Hp & Hc & _) H. split; [exists p; auto|exact H]. Qed.

Lemma spec_records_secs storeid bs : Forall put_ok bs -> forall pos,
  spec_records storeid pos bs = map rec_of_sec (filter (indexable storeid) (secs_of pos bs)).
Proof.
  induction 1 as [|[c d] t [Hc _] _ IH]; intros pos; [reflexivity|]. cbn [fst] in Hc.
  destruct Hc as (p & Hp & Hce).
  etransitivity; [exact (TransformWrap.spec_records_cons storeid pos c d t p Hp Hce)|].
  assert (Hpar : cid_parse c = Some p) by (rewrite Hce; apply cid_parse_enc; exact Hp).
  cbn [secs_of]. rewrite Hpar. cbn [filter]. unfold indexable at 1. cbn [s_p].
  rewrite IH. destruct (storeid || negb (is_identity p)); reflexivity.
Qed.

Lemma spec_records_ok xo bs : Forall (TransformWrap.lblock_ok xo) bs -> forall pos,
  pos + blen (enc_sections bs) < two64 -> Forall IndexLoad.rec_ok (spec_records (x_storeid xo) pos bs).
Proof.
  induction 1 as [|[c d] t (p & Hp & Hce & Hw & _) _ IH]; intros pos Hb; [constructor|]. cbn [fst snd] in *.
  assert (E : spec_records (x_storeid xo) pos ((c, d) :: t) = _) by exact (TransformWrap.spec_records_cons _ pos c d t p Hp Hce).
  assert (Hb' : pos + (section_size c d + blen (enc_sections t)) < two64).
  { pose proof (TransformWrap.blen_enc_sections_cons c d t) as E2. unfold block in *. rewrite <- E2. exact Hb. }
  unfold block in *. rewrite E.
  apply Forall_app. split.
  - destruct (x_storeid xo || negb (is_identity p)); [|constructor]. constructor; [|constructor].
    unfold IndexLoad.rec_ok, rec_width. cbn [r_off r_code r_digest]. split; [lia|]. split; [|exact Hw].
    destruct Hp as [(_ & _ & Hm & _)|(_ & _ & Hm & _)]; [rewrite Hm; unfold two64; lia|unfold two63, two64 in *; lia].
  - apply IH. lia.
Qed.

Theorem wrap_output_wf hdrdec xo roots bs i0 w :
  TransformWrap.wrap_ok hdrdec xo roots bs -> idx_new (x_codec xo) = Some i0 -> roots_ok roots ->
  Forall (fun b : block => blen (fst b) + blen (snd b) < two56) bs ->
  wrap_bytes hdrdec xo (enc_payload roots bs) = Ok w -> blen w < two63 ->
  (x_codec xo = codec_mh_sorted ->
   N.of_nat (n_codes (spec_records (x_storeid xo) (hdr_len (Some roots)) bs)) < two31) ->
  wf_finished false (wopts_of_x xo) w = Some (roots, bs).
Proof.
  intros Hok Hnew Hr Hsz Hw Hlen Hcodes. pose proof Hok as (Hg & Hmaxh & Hlb & Hseek & H63).
  unfold wrap_bytes in Hw. rewrite (TransformWrap.wrap_layout_payload hdrdec sort_by_digest xo roots bs i0 Hok Hnew) in Hw.
  assert (Hw' : w = pragma ++ enc_v2hdr (new_header (blen (enc_payload roots bs))) ++ enc_payload roots bs ++
                    idx_write (idx_load_with sort_by_digest
                                 (spec_records (x_storeid xo) (blen (ld (enc_header (Some roots) 1))) bs) i0)) by congruence.
  clear Hw. rewrite Hw' in *. clear Hw'.
  set (recs := spec_records (x_storeid xo) (blen (ld (enc_header (Some roots) 1))) bs) in *.
  set (fi := idx_load_with sort_by_digest recs i0) in *.
  assert (Hput : Forall put_ok bs).
  { rewrite Forall_forall in *. intros b Hb. apply (lblock_put_ok xo); [apply Hlb|apply Hsz]; exact Hb. }
  assert (HP : enc_payload roots bs = payload_opt (Some roots) bs) by reflexivity.
  assert (Hhl : blen (ld (enc_header (Some roots) 1)) = hdr_len (Some roots)) by apply blen_ld.
  rewrite HP in *. set (P := payload_opt (Some roots) bs) in *.
  assert (HL : blen (pragma ++ enc_v2hdr (new_header (blen P)) ++ P ++ idx_write fi) = 51 + blen P + blen (idx_write fi)).
  { rewrite !blen_app, blen_pragma, blen_enc_v2hdr. lia. }
  rewrite HL in Hlen.
  assert (Hh : new_header (blen P) = mkv2 0 0 (51 + 0) (blen P) (51 + 0 + blen P + 0)).
  { unfold new_header. rewrite wrap64_small by (unfold two63, two64 in *; lia). f_equal; lia. }
  rewrite Hh.
  change (pragma ++ enc_v2hdr (mkv2 0 0 (51 + 0) (blen P) (51 + 0 + blen P + 0)) ++ P ++ idx_write fi)
    with (pragma ++ enc_v2hdr (mkv2 0 0 (51 + w_dpad (wopts_of_x xo)) (blen P) (51 + w_dpad (wopts_of_x xo) + blen P + w_ipad (wopts_of_x xo))) ++
          zerosN (w_dpad (wopts_of_x xo)) ++ P ++ zerosN (w_ipad (wopts_of_x xo)) ++ idx_write fi).
  assert (Hro : ro_ok (Some roots)).
  { split; [exact Hr|]. unfold P, payload_opt in H63. rewrite blen_app, blen_ld in H63. unfold ld_size in H63. lia. }
  assert (Hrecs : Forall IndexLoad.rec_ok recs).
  { unfold recs. rewrite Hhl. apply spec_records_ok; [exact Hlb|].
    unfold P in Hlen. rewrite blen_payload_opt in Hlen. unfold two63, two64 in *. lia. }
  assert (Hperm : Permutation recs (map rec_of_sec (filter (indexable (x_storeid xo)) (secs_of (hdr_len (Some roots)) bs)))).
  { unfold recs. rewrite Hhl. rewrite (spec_records_secs (x_storeid xo) bs Hput). apply Permutation_refl. }
  assert (Hsm : blen (idx_write fi) < two63) by lia.
  assert (Hcd : x_codec xo = codec_mh_sorted -> N.of_nat (n_codes recs) < two31).
  { intros E. unfold recs. rewrite Hhl. exact (Hcodes E). }
  destruct (g_index_good (x_codec xo) recs i0 fi Hrecs Hnew eq_refl Hsm Hcd) as [Hgood Hcodec].
  apply wf_finished_container; try assumption; try reflexivity.
  - cbn [w_dpad w_ipad wopts_of_x]. rewrite !blen_app, blen_pragma, blen_enc_v2hdr. change (blen (zerosN 0)) with 0. unfold P in *. lia.
  - exact (g_index_exact (x_storeid xo) (x_codec xo) _ recs i0 fi Hperm Hrecs Hnew eq_refl Hsm Hcd).
Qed.

(* ---- the traversal writers (v2/selective.go: TraverseToFile, and NewSelectiveWriter.WriteTo which writes the same
   bytes; model Traversal.v, closed form TraversalV2.traverse_to_file_spec, C15) ----------------------------------
   The index holds every section written (identity CIDs included), arranged from a Go map whose iteration order
   is [order] -- any permutation; the fully-indexed bit is not set. *)
Definition wopts_of_t (o : Traversal.topts) : wopts :=
  mkwopts (Traversal.o_dpad o) (Traversal.o_ipad o) (Traversal.o_codec o) false 2048 true false false false
          default_maxh default_maxs.

Lemma recs_to_irecs_map l rs : Traversal.recs_to_irecs l = Some rs ->
  map (fun r => rec_of_cid (fst r) (snd r)) l = map Some rs.
Proof.
  revert rs. induction l as [|r t IH]; intros rs H; cbn [Traversal.recs_to_irecs] in H.
  - inversion H. reflexivity.
  - destruct (rec_of_cid (fst r) (snd r)) as [x|] eqn:E; [|discriminate].
    destruct (Traversal.recs_to_irecs t) as [xs|]; [|discriminate]. inversion H. cbn [map]. rewrite E, (IH xs eq_refl). reflexivity.
Qed.

Lemma place_recs_secs bs : Forall put_ok bs -> forall pos,
  map (fun r => rec_of_cid (fst r) (snd r)) (map TraversalV2.rec_of_place (Traversal.place pos bs))
  = map Some (map rec_of_sec (secs_of pos bs)).
Proof.
  induction 1 as [|[c d] t [Hc _] _ IH]; intros pos; [reflexivity|]. cbn [fst] in Hc.
  destruct (cid_from_bytes_ok c [] Hc) as (p & _ & Hp).
  cbn [Traversal.place map secs_of fst snd TraversalV2.rec_of_place]. rewrite Hp. cbn [map].
  unfold rec_of_cid at 1. rewrite Hp. rewrite IH. reflexivity.
Qed.

Lemma map_some_inj {A} (a b : list A) : map Some a = map Some b -> a = b.
Proof.
  revert b. induction a as [|x a IH]; intros [|y b] H; cbn in H; try discriminate; [reflexivity|].
  inversion H. f_equal. apply IH. assumption.
Qed.

(* the number of distinct hash codes does not depend on the arrangement of the records *)
Lemma n_codes_perm a b : Permutation a b -> n_codes a = n_codes b.
Proof.
  intros Hp. unfold n_codes.
  assert (G : forall rs, length (group_by r_code rs) = length (nodup N.eq_dec (map r_code rs))).
  { intros rs. destruct (group_by_ok r_code rs) as [Hs Hg].
    assert (Hk : forall k, In k (map fst (group_by r_code rs)) <-> In k (map r_code rs)).
    { intros k. split.
      - intros Hin. apply in_map_iff in Hin. destruct Hin as ([k' g] & <- & Hin). destruct (Hg _ _ Hin) as [Hne Hall].
        destruct g as [|x g']; [congruence|]. inversion Hall as [|? ? Hx _]; subst. cbn [fst].
        apply in_map. apply (group_sub r_code rs _ _ Hin). left. reflexivity.
      - intros Hin. apply in_map_iff in Hin. destruct Hin as (x & <- & Hx).
        destruct (group_by_find r_code rs x Hx) as (g & Hget & _). apply (kv_get_in _ Hs) in Hget.
        apply (in_map fst) in Hget. exact Hget. }
    assert (Hnd : NoDup (map fst (group_by r_code rs))).
    { unfold keys_asc in Hs. clear -Hs. induction Hs as [|k t Ht IH Hall]; constructor; [|exact IH].
      intros Hin. rewrite Forall_forall in Hall. specialize (Hall k Hin). lia. }
    rewrite <- (map_length fst). apply Permutation_length. apply NoDup_Permutation; [exact Hnd|apply NoDup_nodup|].
    intros k. rewrite nodup_In. apply Hk. }
  rewrite !G. apply Permutation_length. apply NoDup_Permutation; try apply NoDup_nodup.
  intros k. rewrite !nodup_In. split; intros H; [apply (Permutation_in _ (Permutation_map r_code Hp))|apply (Permutation_in _ (Permutation_map r_code (Permutation_sym Hp)))]; exact H.
Qed.

Theorem traverse_output_wf (order : list (bytes * N) -> list (bytes * N)) root o ls out :
  (forall l, Permutation (order l) l) ->
  let o' := Traversal.apply_opts o in
  let bs := Traversal.first_occ (Traversal.blocks_of ls) in
  Forall TraversalV2.load_ok ls ->
  TraversalV2.no_wrap o' (blen (enc_payload [root] bs)) = true ->
  Traversal.traverse_to_file order root o (Traversal.mktrace ls true) = (out, None) ->
  idx_new (Traversal.o_codec o') <> None ->
  roots_ok [root] -> Forall put_ok bs -> Forall (fun b : block => blen (fst b) + 8 <= max_width) bs ->
  blen out < two63 ->
  (Traversal.o_codec o' = codec_mh_sorted ->
   N.of_nat (n_codes (map rec_of_sec (secs_of (hdr_len (Some [root])) bs))) < two31) ->
  wf_finished false (wopts_of_t o') out = Some ([root], bs).
Proof.
  intros Hord o' bs Hok Hnw Hout Hnew Hr Hput Hwide Hlen Hcodes.
  rewrite (TraversalV2.traverse_to_file_spec order root o ls Hok Hnw) in Hout. fold o' bs in Hout.
  unfold TraversalV2.index_tail in Hout.
  destruct (idx_new (Traversal.o_codec o')) as [i0|] eqn:En; [|congruence].
  assert (Hnone : (Traversal.o_codec o' =? Traversal.codec_none) = false).
  { unfold idx_new in En. destruct (Traversal.o_codec o' =? codec_sorted) eqn:E1.
    - unfold Traversal.codec_none, codec_sorted in *. lia.
    - destruct (Traversal.o_codec o' =? codec_mh_sorted) eqn:E2; [|discriminate].
      unfold Traversal.codec_none, codec_mh_sorted in *. lia. }
  rewrite Hnone in Hout. unfold Traversal.writer_index in Hout. rewrite En in Hout.
  destruct (Traversal.recs_to_irecs (order (TraversalV2.v1_recs root ls))) as [rs|] eqn:Ers; cbn [fst snd] in Hout; [|discriminate].
  assert (Hout' : out = (pragma ++ enc_v2hdr (TraversalV2.v2_header o' (blen (enc_payload [root] bs))) ++ zerosN (Traversal.o_dpad o')) ++
                        enc_payload [root] bs ++ zerosN (Traversal.o_ipad o') ++ idx_write (idx_load rs i0)) by congruence.
  clear Hout. rewrite Hout' in *. clear Hout'.
  set (P := payload_opt (Some [root]) bs). change (enc_payload [root] bs) with P in *.
  set (secs := secs_of (hdr_len (Some [root])) bs).
  (* the records: a permutation of one per section *)
  assert (Hperm0 : Permutation rs (map rec_of_sec secs)).
  { pose proof (recs_to_irecs_map _ _ Ers) as E1.
    pose proof (Permutation_map (fun r => rec_of_cid (fst r) (snd r)) (Hord (TraversalV2.v1_recs root ls))) as Hp.
    rewrite E1 in Hp. unfold TraversalV2.v1_recs in Hp. fold bs in Hp.
    change (Traversal.head_size root) with (hdr_len (Some [root])) in Hp.
    rewrite (place_recs_secs bs Hput) in Hp. fold secs in Hp.
    apply Permutation_sym in Hp. destruct (Permutation_map_inv _ _ Hp) as (l3 & E3 & Hp3).
    apply map_some_inj in E3. subst l3. exact Hp3. }
  assert (Hall : filter (indexable true) secs = secs) by (apply filter_all; apply Forall_forall; intros; reflexivity).
  assert (HL : blen ((pragma ++ enc_v2hdr (TraversalV2.v2_header o' (blen P)) ++ zerosN (Traversal.o_dpad o')) ++
                     P ++ zerosN (Traversal.o_ipad o') ++ idx_write (idx_load rs i0))
               = 51 + Traversal.o_dpad o' + blen P + Traversal.o_ipad o' + blen (idx_write (idx_load rs i0))).
  { rewrite !blen_app, blen_pragma, blen_enc_v2hdr, !blen_zerosN. lia. }
  rewrite HL in Hlen.
  assert (Hsecs : Forall (fun s => s_off s < hdr_len (Some [root]) + blen (enc_sections bs)) secs /\
                  Forall (fun s => cid_parse (s_cid s) = Some (s_p s)) secs).
  { split; [|apply secs_of_parse]. unfold secs. generalize (hdr_len (Some [root])). clear -Hput.
    induction Hput as [|[c d] t [Hc _] _ IH]; intros pos; [constructor|]. cbn [fst] in Hc.
    destruct (cid_from_bytes_ok c [] Hc) as (p & _ & Hp). cbn [secs_of]. rewrite Hp.
    assert (E : blen (enc_sections (((c, d) : block) :: t)) = section_size c d + blen (enc_sections t)).
    { unfold enc_sections. cbn [map concat fst snd]. rewrite blen_app, blen_enc_section. reflexivity. }
    rewrite E. assert (1 <= section_size c d) by (unfold section_size, ld_size; pose proof (uv_size_pos (blen c + blen d)); lia).
    constructor; [cbn [s_off]; lia|]. eapply Forall_impl; [|apply (IH (pos + section_size c d))]. cbn beta. intros s Hs. lia. }
  destruct Hsecs as [Hoffs Hpars].
  assert (Hrecs : Forall IndexLoad.rec_ok rs).
  { rewrite Forall_forall. intros r Hr0. apply (Permutation_in _ Hperm0) in Hr0. apply in_map_iff in Hr0.
    destruct Hr0 as (s & <- & Hs). rewrite Forall_forall in Hoffs, Hpars.
    specialize (Hoffs s Hs). specialize (Hpars s Hs).
    destruct (cid_parse_bytes_ok _ _ Hpars) as [Hcok Hce].
    unfold IndexLoad.rec_ok, rec_width, rec_of_sec. cbn [r_off r_code r_digest].
    unfold P in Hlen. rewrite blen_payload_opt in Hlen. split; [unfold two63, two64 in *; lia|]. split.
    - destruct Hcok as [(_ & _ & Hm & _)|(_ & _ & Hm & _)]; [rewrite Hm; unfold two64; lia|unfold two63, two64 in *; lia].
    - pose proof (cid_digest_le (s_p s)) as Hd. rewrite <- Hce in Hd.
      assert (Hin : In (s_cid s) (map fst bs)).
      { rewrite <- (secs_of_blocks bs Hput (hdr_len (Some [root]))). rewrite map_map. apply in_map_iff. exists s. auto. }
      rewrite Forall_forall in Hwide. apply in_map_iff in Hin. destruct Hin as (b & Hb1 & Hb2).
      specialize (Hwide b Hb2). rewrite Hb1 in Hwide. lia. }
  assert (Hperm : Permutation rs (map rec_of_sec (filter (indexable true) secs))) by (rewrite Hall; exact Hperm0).
  assert (Hsm : blen (idx_write (idx_load rs i0)) < two63) by lia.
  assert (Hcd : Traversal.o_codec o' = codec_mh_sorted -> N.of_nat (n_codes rs) < two31).
  { intros E. specialize (Hcodes E). fold secs in Hcodes.
    rewrite (n_codes_perm _ _ Hperm0). exact Hcodes. }
  destruct (g_index_good (Traversal.o_codec o') rs i0 _ Hrecs En eq_refl Hsm Hcd) as [Hgood Hcodec].
  assert (Hro : ro_ok (Some [root])).
  { split; [exact Hr|]. unfold P, payload_opt in Hlen. rewrite blen_app, blen_ld in Hlen. unfold ld_size in Hlen. lia. }
  assert (Hh : TraversalV2.v2_header o' (blen P)
               = mkv2 0 0 (51 + Traversal.o_dpad o') (blen P) (51 + Traversal.o_dpad o' + blen P + Traversal.o_ipad o')).
  { unfold TraversalV2.v2_header. rewrite Hnone. reflexivity. }
  rewrite Hh. rewrite <- !app_assoc.
  apply (wf_finished_container false (wopts_of_t o') (Some [root]) bs 0 (idx_load rs i0)); try assumption; try reflexivity.
  - cbn [w_dpad w_ipad wopts_of_t]. fold P. rewrite !blen_app, blen_pragma, blen_enc_v2hdr, !blen_zerosN. lia.
  - exact (g_index_exact true (Traversal.o_codec o') secs rs i0 _ Hperm Hrecs En eq_refl Hsm Hcd).
Qed.
