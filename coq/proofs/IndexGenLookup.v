(* C03: lookups on an index generated from a constructed archive return exactly the offsets of the
   indexed sections carrying the key, every such offset decodes to a section with that key, and the
   answer does not depend on the kind of source. *)
From Coq Require Import Permutation Sorting.Sorted.
From GoCar Require Import Bytes Varint Cid Header Frame V2Header Scan Index IndexGen.
From GoCarProofs Require Import BytesFacts VarintFacts CidFacts HeaderFacts ScanFacts
  IndexKv IndexSort IndexCompact IndexSearch IndexRoundtrip IndexLoad IndexCanon IndexGenFacts.

(* ---- records of the sections vs the layer-B lookup specification -------------------------------- *)
Lemma spec_digest_sections o code d (l : list (N * block)) :
  spec_offsets_digest (flat_map (rec_of_section o) l) d
  = map fst (filter (fun ob => section_indexed o (fst (snd ob)) && key_match false code d (fst (snd ob))) l).
Proof.
  unfold spec_offsets_digest. induction l as [|[off [c dd]] l IH]; [reflexivity|].
  cbn [flat_map]. rewrite filter_app, map_app, IH. cbn [filter fst snd].
  unfold rec_of_section, section_indexed, key_match. cbn [fst snd].
  destruct (cid_parse c) as [p|]; [|reflexivity].
  destruct (indexed o p); [|reflexivity]. cbn [filter r_digest negb orb andb].
  rewrite andb_true_r. destruct (bytes_eqb (c_digest p) d); reflexivity.
Qed.

Lemma spec_mh_sections o code d (l : list (N * block)) :
  spec_offsets_mh (flat_map (rec_of_section o) l) code d
  = map fst (filter (fun ob => section_indexed o (fst (snd ob)) && key_match true code d (fst (snd ob))) l).
Proof.
  unfold spec_offsets_mh. induction l as [|[off [c dd]] l IH]; [reflexivity|].
  cbn [flat_map]. rewrite filter_app, map_app, IH. cbn [filter fst snd].
  unfold rec_of_section, section_indexed, key_match. cbn [fst snd].
  destruct (cid_parse c) as [p|]; [|reflexivity].
  destruct (indexed o p); [|reflexivity]. cbn [filter r_digest r_code negb orb andb].
  rewrite (andb_comm (c_mhcode p =? code)). destruct (bytes_eqb (c_digest p) d && (c_mhcode p =? code)); reflexivity.
Qed.

(* ---- where the sections are ------------------------------------------------------------------------ *)
Lemma sections_at_split bs : forall pre h off c d,
  blen pre = h -> In (off, (c, d)) (sections_at h bs) ->
  exists pre' rest, pre ++ enc_sections bs = pre' ++ enc_section c d ++ rest /\ blen pre' = off.
Proof.
  induction bs as [|[c0 d0] t IH]; intros pre h off c d Hpre Hin; [destruct Hin|].
  cbn [sections_at fst snd] in Hin. destruct Hin as [Hin|Hin].
  - inversion Hin; subst. exists pre, (enc_sections t). split; [rewrite enc_sections_cons; reflexivity|reflexivity].
  - destruct (IH (pre ++ enc_section c0 d0) (h + section_size c0 d0) off c d) as (pre' & rest & E & Hl).
    + rewrite blen_app, blen_enc_section, Hpre. reflexivity.
    + exact Hin.
    + exists pre', rest. split; [|exact Hl]. rewrite enc_sections_cons. cbn [fst snd].
      rewrite <- E, <- app_assoc. reflexivity.
Qed.

Lemma sections_at_bound bs : forall h off b,
  In (off, b) (sections_at h bs) -> h <= off /\ off + section_size (fst b) (snd b) <= h + blen (enc_sections bs).
Proof.
  induction bs as [|b0 t IH]; intros h off b Hin; [destruct Hin|].
  cbn [sections_at] in Hin. rewrite blen_enc_sections_cons. destruct Hin as [Hin|Hin].
  - inversion Hin; subst. lia.
  - specialize (IH _ _ _ Hin). lia.
Qed.

Lemma sections_at_in bs : forall h off b, In (off, b) (sections_at h bs) -> In b bs.
Proof.
  induction bs as [|b0 t IH]; intros h off b Hin; [destruct Hin|].
  cbn [sections_at] in Hin. destruct Hin as [Hin|Hin]; [inversion Hin; left; reflexivity|right; eapply IH; exact Hin].
Qed.

Lemma gblock_block_ok b : gblock_ok b -> block_ok two63 b.
Proof.
  intros (p & Hp & E & _ & Hlen). unfold block_ok. split; [exists p; split; assumption|]. split; lia.
Qed.

(* every section of a constructed payload decodes, at its offset, to its own CID and data *)
Theorem section_at_sections roots bs off c d :
  Forall gblock_ok bs -> In (off, (c, d)) (sections_at (hlen_of roots) bs) ->
  section_at (enc_payload roots bs) off = Some (c, d).
Proof.
  intros Hok Hin. unfold enc_payload.
  destruct (sections_at_split bs (ld (enc_header (Some roots) 1)) (hlen_of roots) off c d) as (pre' & rest & E & Hl).
  - unfold hlen_of. apply blen_ld.
  - exact Hin.
  - rewrite E. unfold section_at. rewrite <- Hl, drop_app.
    assert (Hb : block_ok two63 (c, d)).
    { apply gblock_block_ok. rewrite Forall_forall in Hok. apply Hok. eapply sections_at_in. exact Hin. }
    destruct (read_node_section false two63 c d rest Hb) as (p & _ & Hr). rewrite Hr. reflexivity.
Qed.

(* ---- the records are loadable ------------------------------------------------------------------------ *)
Lemma section_recs_ok o roots bs :
  Forall gblock_ok bs -> blen (enc_payload roots bs) < two63 ->
  Forall rec_ok (section_recs o (hlen_of roots) bs).
Proof.
  intros Hok Hall. unfold section_recs. apply Forall_forall. intros r Hr.
  apply in_flat_map in Hr. destruct Hr as ([off [c d]] & Hin & Hr).
  pose proof (sections_at_in _ _ _ _ Hin) as Hb. rewrite Forall_forall in Hok.
  destruct (Hok _ Hb) as (p & Hp & Ec & Hcap & Hlen). cbn [fst snd] in *.
  unfold rec_of_section in Hr. cbn [fst snd] in Hr.
  rewrite Ec, (cid_parse_enc p Hp) in Hr. destruct (indexed o p); [|destruct Hr].
  destruct Hr as [<-|[]]. unfold rec_ok, rec_width. cbn [r_off r_code r_digest].
  pose proof (sections_at_bound _ _ _ _ Hin) as [_ Hb2]. rewrite blen_payload_split in Hall.
  pose proof (section_size_pos c d). cbn [fst snd] in Hb2.
  split; [unfold two63, two64 in *; lia|]. split; [|exact Hcap].
  destruct Hp as [(_ & _ & Hm & _)|(_ & _ & Hm & _)]; unfold two63, two64 in *; lia.
Qed.

(* ---- lookups --------------------------------------------------------------------------------------------- *)
Section Lookup.
  Variable srt : list irec -> list irec.
  Hypothesis srt_ok : sort_contract srt.

  (* on-disk codecs: GetAll = offsets of the indexed sections carrying the key (as a multiset) *)
  Theorem gen_getall_exact o roots bs codec i0 code d :
    Forall gblock_ok bs -> blen (enc_payload roots bs) < two63 ->
    recs_fit (section_recs o (hlen_of roots) bs) -> idx_new codec = Some i0 ->
    Permutation (idx_getall (idx_load_with srt (section_recs o (hlen_of roots) bs) i0) code d)
                (spec_lookup o (negb (codec =? codec_sorted)) code d (hlen_of roots) bs).
  Proof.
    intros Hok Hall Hfit Hnew.
    pose proof (idx_getall_load srt srt_ok codec i0 _ code d Hnew (section_recs_ok o roots bs Hok Hall) Hfit) as H.
    unfold spec_lookup, section_recs in *. destruct (codec =? codec_sorted); cbn [negb].
    - rewrite (spec_digest_sections o code) in H. exact H.
    - rewrite spec_mh_sections in H. exact H.
  Qed.

  (* every reported offset is the start of a section whose CID is indexed and carries the key *)
  Theorem gen_getall_sound o roots bs codec i0 code d off :
    Forall gblock_ok bs -> blen (enc_payload roots bs) < two63 ->
    recs_fit (section_recs o (hlen_of roots) bs) -> idx_new codec = Some i0 ->
    In off (idx_getall (idx_load_with srt (section_recs o (hlen_of roots) bs) i0) code d) ->
    exists c dd, section_at (enc_payload roots bs) off = Some (c, dd) /\
                 section_indexed o c = true /\ key_match (negb (codec =? codec_sorted)) code d c = true.
  Proof.
    intros Hok Hall Hfit Hnew Hin.
    apply (Permutation_in _ (gen_getall_exact o roots bs codec i0 code d Hok Hall Hfit Hnew)) in Hin.
    unfold spec_lookup in Hin. apply in_map_iff in Hin. destruct Hin as ([off' [c dd]] & E & Hin).
    cbn [fst] in E. subst off'. apply filter_In in Hin. destruct Hin as [Hin Hk]. cbn [fst snd] in Hk.
    apply andb_true_iff in Hk. destruct Hk as [Hk1 Hk2].
    exists c, dd. split; [apply section_at_sections; assumption|]. split; assumption.
  Qed.

  (* not found exactly when no indexed section carries the key *)
  Corollary gen_getall_notfound o roots bs codec i0 code d :
    Forall gblock_ok bs -> blen (enc_payload roots bs) < two63 ->
    recs_fit (section_recs o (hlen_of roots) bs) -> idx_new codec = Some i0 ->
    (idx_getall (idx_load_with srt (section_recs o (hlen_of roots) bs) i0) code d = []
     <-> spec_lookup o (negb (codec =? codec_sorted)) code d (hlen_of roots) bs = []).
  Proof.
    intros Hok Hall Hfit Hnew.
    pose proof (gen_getall_exact o roots bs codec i0 code d Hok Hall Hfit Hnew) as H. split; intros E.
    - rewrite E in H. apply Permutation_nil in H. exact H.
    - rewrite E in H. symmetry in H. apply Permutation_nil in H. exact H.
  Qed.
End Lookup.

(* the insertion index handed to LoadIndex: digest-only lookup, in payload order *)
Theorem gen_insertion_getall o roots bs code d :
  ii_getall d (ii_load (section_recs o (hlen_of roots) bs) [])
  = spec_lookup o false code d (hlen_of roots) bs.
Proof. rewrite ii_getall_load. unfold section_recs, spec_lookup. apply spec_digest_sections. Qed.

(* ---- source independence --------------------------------------------------------------------------------- *)
Section Sources.
  Variable hdrdec : bytes -> option (list bytes * N).

  Theorem source_independent_v1 k k' o roots bs :
    hdr_fits hdrdec o roots -> Forall gblock_ok bs -> Forall (cid_fits o) bs ->
    blen (enc_payload roots bs) < two63 ->
    load_index hdrdec k o (enc_payload roots bs) = load_index hdrdec k' o (enc_payload roots bs)
    /\ load_index_reader_at hdrdec o (enc_payload roots bs) = load_index hdrdec k o (enc_payload roots bs).
  Proof.
    intros Hh Hok Hfit Hall. rewrite !(load_index_v1 hdrdec _ o roots bs Hh Hok Hfit Hall).
    rewrite (load_index_reader_at_v1 hdrdec o roots bs Hh Hok Hfit Hall). split; reflexivity.
  Qed.

  Theorem source_independent_v2 k k' o hi lo ioff pad roots bs trailer :
    pragma_good hdrdec o -> hdr_fits hdrdec o roots -> Forall gblock_ok bs -> Forall (cid_fits o) bs ->
    hi < two64 -> lo < two64 -> ioff < two63 ->
    blen (v2_container hi lo ioff pad (enc_payload roots bs) trailer) < two63 ->
    load_index hdrdec k o (v2_container hi lo ioff pad (enc_payload roots bs) trailer)
    = load_index hdrdec k' o (v2_container hi lo ioff pad (enc_payload roots bs) trailer)
    /\ load_index_reader_at hdrdec o (v2_container hi lo ioff pad (enc_payload roots bs) trailer)
       = load_index hdrdec k o (v2_container hi lo ioff pad (enc_payload roots bs) trailer)
    /\ load_index hdrdec k o (v2_container hi lo ioff pad (enc_payload roots bs) trailer)
       = load_index hdrdec k' o (enc_payload roots bs).
  Proof.
    intros Hp Hh Hok Hfit Hhi Hlo Hio Hall.
    rewrite !(load_index_v2 hdrdec _ o hi lo ioff pad roots bs trailer Hp Hh Hok Hfit Hhi Hlo Hio Hall).
    rewrite (load_index_reader_at_v2 hdrdec o hi lo ioff pad roots bs trailer Hp Hh Hok Hfit Hhi Hlo Hio Hall).
    rewrite (load_index_v1 hdrdec k' o roots bs Hh Hok Hfit).
    - repeat split; reflexivity.
    - unfold v2_container in Hall. rewrite !blen_app in Hall. lia.
  Qed.
End Sources.

(* the canonical header decoder meets the oracle hypotheses *)
Lemma hdr_fits_canon o roots : roots_ok roots ->
  blen (enc_header (Some roots) 1) <= g_maxh o -> blen (enc_header (Some roots) 1) < two63 ->
  hdr_fits dec_header_canon o roots.
Proof. intros Hr H1 H2. split; [apply hdr_good_canon; exact Hr|]. split; assumption. Qed.
Lemma pragma_good_canon o : 10 <= g_maxh o -> pragma_good dec_header_canon o.
Proof. intros H. split; [exists []; apply dec_header_pragma|exact H]. Qed.

(* C11 (6) with the regenerated side spelled out: the session's insertion index holds the records of
   the sections it wrote (in write order); regenerating = LoadIndex over the finished payload *)
Theorem flatten_vs_regenerated_payload (srt srt' : list irec -> list irec) hdrdec k o roots bs codec i0 :
  sort_contract srt -> sort_contract srt' ->
  hdr_fits hdrdec o roots -> Forall gblock_ok bs -> Forall (cid_fits o) bs ->
  blen (enc_payload roots bs) < two63 -> idx_new codec = Some i0 ->
  exists fi recs,
    ii_flatten_with srt codec (ii_load (section_recs o (hlen_of roots) bs) []) = Some fi /\
    load_index hdrdec k o (enc_payload roots bs) = Ok recs /\
    idx_canon fi = idx_canon (idx_load_with srt' recs i0) /\
    (NoDup (map (rec_key codec) recs) -> fi = idx_load_with srt' recs i0).
Proof.
  intros H1 H2 Hh Hok Hfit Hall Hnew.
  destruct (flatten_canon_regen srt srt' H1 H2 codec i0 (section_recs o (hlen_of roots) bs) Hnew
              (section_recs_ok o roots bs Hok Hall)) as (fi & Ef & Ec).
  exists fi, (section_recs o (hlen_of roots) bs). split; [exact Ef|].
  split; [apply load_index_v1; assumption|]. split; [exact Ec|].
  intros Hn. pose proof (flatten_eq_regen_noties srt srt' H1 H2 codec i0 _ Hnew Hn) as E.
  rewrite Ef in E. inversion E. reflexivity.
Qed.
