(* C12: the refutation of the padding clause on a non-finalized file, replayed on the real code as
   corpus/C12/kf-unfinalized-padding-adversarial-data.case, and the non-vacuity examples of the
   C12 theorems. *)
From Coq Require Import Permutation.
From GoCar Require Import Bytes Varint Cid Header Frame V2Header Index Scan Store Crash.
From GoCarProofs Require Import BytesFacts VarintFacts CidFacts HeaderFacts ResumeFacts ResumeInv ResumeReject ResumeRoots ResumeTheorems.

Definition wit_root : bytes := [x01; x55; x12; x20; xb5; xd8; xa8; x1b; x3e; xea; x4f; x67; x49; xa3; xc4; x30; xfe; xb7; xc8; x7b; xcd; xc2; x86; x4f; xa6; x2d; x9f; x61; xe3; x5d; xcb; x1f; x86; x43; x72; xd9].
Definition wit_cid : bytes := [x01; x55; x12; x20; xc2; xd2; xfd; x06; x9c; x16; x87; x43; x45; x7c; x0f; x74; xcc; x41; x17; x5e; x3d; xac; x1d; x2f; xd2; x0c; x4d; xf1; xe2; xe0; xf9; x1a; x5e; x32; x80; x17].
(* the block's data: a framed CARv1 header naming the session's root *)
Definition wit_data : bytes := ld (enc_header (Some [wit_root]) 1).
Definition wit_opts : wopts := mkwopts 0 0 codec_mh_sorted false 2048 false false false false default_maxh default_maxs.

Example wit_data_bytes : wit_data = [x3a; xa2; x65; x72; x6f; x6f; x74; x73; x81; xd8; x2a; x58; x25; x00; x01; x55; x12; x20; xb5; xd8; xa8; x1b; x3e; xea; x4f; x67; x49; xa3; xc4; x30; xfe; xb7; xc8; x7b; xcd; xc2; x86; x4f; xa6; x2d; x9f; x61; xe3; x5d; xcb; x1f; x86; x43; x72; xd9; x67; x76; x65; x72; x73; x69; x6f; x6e; x01].
Proof. vm_compute. reflexivity. Qed.

Lemma wit_params : params_ok dec_header_canon wit_opts false [wit_root].
Proof.
  constructor.
  - vm_compute. reflexivity.
  - exists []. reflexivity.
  - apply N.leb_le. vm_compute. reflexivity.
  - apply N.leb_le. vm_compute. reflexivity.
Qed.

(* C12_reject_untouched is false for the padding clause on a non-finalized file: a session writes
   with data padding 0 and is discarded; OpenReadWrite with UseDataPadding(96) is ACCEPTED, because
   the bytes at offset 51+96 (inside the block's data) are a CARv1 header with the right root. *)
Theorem reject_padding_refuted :
  exists k o nilroots roots puts p' s0 s2,
    w_v1 o = false /\ p' <> w_dpad o /\ 51 + p' < two64 /\
    dec_header_canon (enc_header (roots_opt nilroots roots) 1) = Some (roots, 1) /\
    (exists r, dec_header_canon pragma_body = Some (r, 2)) /\
    blen (enc_header (roots_opt nilroots roots) 1) <= w_maxh o /\
    w_maxcid o <= max_digest_alloc /\
    open_new k o nilroots roots [] = Ok s0 /\
    reopen dec_header_canon k (with_dpad o p') nilroots roots
           (ws_file (end_seg CDiscard (run_puts s0 puts))) = inl s2.
Proof.
  exists KBlockstore, wit_opts, false, [wit_root], [(wit_cid, wit_data)], 96.
  eexists. eexists.
  split; [reflexivity|]. split; [discriminate|]. split; [reflexivity|].
  destruct wit_params as [H1 H2 H3 H5].
  split; [exact H1|]. split; [exact H2|]. split; [exact H3|]. split; [exact H5|].
  split; [vm_compute; reflexivity|vm_compute; reflexivity].
Qed.

(* ... and the guard of the partial theorem is exactly what fails there *)
Example wit_guard_false :
  exists s0, open_new KBlockstore wit_opts false [wit_root] [] = Ok s0 /\
    let file := ws_file (end_seg CDiscard (run_puts s0 [(wit_cid, wit_data)])) in
    finalized_file file || negb (header_at dec_header_canon (with_dpad wit_opts 96) [wit_root] file) = false.
Proof. eexists. split; [vm_compute; reflexivity|vm_compute; reflexivity]. Qed.

(* ---- non-vacuity: the hypotheses of the C12 theorems hold on a concrete interrupted session ---- *)
Definition ex_blk2 : bytes * bytes := (wit_root, [x76; x65; x72; x69; x66]).
Definition ex_segs : list (list (bytes * bytes) * cut) :=
  [([(wit_cid, wit_data)], CDiscard); ([ex_blk2; (wit_cid, wit_data)], CFinalize); ([], CDiscard)].
Definition ex_last : list (bytes * bytes) := [ex_blk2].

Example transparent_example :
  exists s0 sN,
    params_ok dec_header_canon wit_opts false [wit_root] /\
    open_new KBlockstore wit_opts false [wit_root] [] = Ok s0 /\
    run_segs dec_header_canon false s0 ex_segs = Some sN /\
    ws_file (fst (fe_finalize (run_puts sN ex_last))) =
      ws_file (fst (fe_finalize (run_puts s0 (concat (map fst ex_segs) ++ ex_last)))) /\
    (* two distinct blocks were stored and the file is a finalized CARv2 *)
    length (ws_idx sN) = 2%nat /\
    finalized_file (ws_file (fst (fe_finalize (run_puts sN ex_last)))) = true.
Proof.
  eexists. eexists. split; [exact wit_params|].
  split; [vm_compute; reflexivity|]. split; [vm_compute; reflexivity|].
  split; [vm_compute; reflexivity|]. split; [vm_compute; reflexivity|vm_compute; reflexivity].
Qed.

Example transparent_example_budget :
  51 + w_dpad wit_opts + w_ipad wit_opts + ld_size (blen (enc_header (roots_opt false [wit_root]) 1))
  + blen (enc_sections (concat (map fst ex_segs) ++ ex_last)) < two63.
Proof. apply N.ltb_lt. vm_compute. reflexivity. Qed.

(* a mismatching root list, the other version and another padding on the finalized file are refused *)
Example reject_example :
  exists s0, open_new KBlockstore wit_opts false [wit_root] [] = Ok s0 /\
    let file := ws_file (end_seg CFinalize (run_puts s0 [(wit_cid, wit_data)])) in
    ~ Permutation [wit_root] [wit_cid] /\
    reopen dec_header_canon KBlockstore wit_opts false [wit_cid] file = inr (EOther, mkdev file [] []) /\
    reopen dec_header_canon KBlockstore (with_v1 wit_opts true) false [wit_root] file = inr (EOther, mkdev file [] []) /\
    finalized_file file = true /\
    reopen dec_header_canon KBlockstore (with_dpad wit_opts 96) false [wit_root] file = inr (EOther, mkdev file [] []).
Proof.
  eexists. split; [vm_compute; reflexivity|]. cbv zeta.
  split.
  - intros HP. apply Permutation_length_1 in HP. discriminate.
  - repeat split; vm_compute; reflexivity.
Qed.

(* roots are whole CIDs: a root list that differs from the file's only in the CODEC of one root
   (same multihash) is not a permutation of it and is refused untouched -- the hypothesis of
   C12_reject_roots on a two-root file, and the model's verdict *)
Definition wit_cid_dagpb : bytes := match wit_cid with v :: _ :: t => v :: x70 :: t | l => l end.
(* both parse, to the same multihash *)
Definition c_mhcode_digest_same : Prop :=
  match cid_parse wit_cid, cid_parse wit_cid_dagpb with
  | Some p, Some q => c_mhcode p = c_mhcode q /\ c_digest p = c_digest q /\ c_codec p <> c_codec q
  | _, _ => False
  end.
Example reject_example_same_multihash_other_codec :
  exists s0, open_new KBlockstore wit_opts false [wit_root; wit_cid] [] = Ok s0 /\
    let file := ws_file (end_seg CDiscard (run_puts s0 [(wit_cid, wit_data)])) in
    c_mhcode_digest_same /\
    ~ Permutation [wit_root; wit_cid] [wit_root; wit_cid_dagpb] /\
    reopen dec_header_canon KBlockstore wit_opts false [wit_root; wit_cid_dagpb] file = inr (EOther, mkdev file [] []) /\
    (* ... while a permutation of the file's roots is accepted *)
    exists s2, reopen dec_header_canon KBlockstore wit_opts false [wit_cid; wit_root] file = inl s2.
Proof.
  eexists. split; [vm_compute; reflexivity|]. cbv zeta.
  split; [vm_compute; repeat split; discriminate|].
  split.
  - intros HP. apply Permutation_sym in HP. apply (Permutation_in wit_cid_dagpb) in HP; [|right; left; reflexivity].
    destruct HP as [H|[H|[]]]; vm_compute in H; discriminate.
  - split; [vm_compute; reflexivity|]. eexists. vm_compute. reflexivity.
Qed.
