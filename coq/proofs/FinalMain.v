(* C05: the theorems about whole sessions (open, puts, Finalize), assembled from FinalStore (layout),
   FinalWf (well-formedness) and FinalAccept (the library's own checkers). *)
From Coq Require Import Sorting.Sorted Sorting.Permutation.
From GoCar Require Import Bytes Varint Cid Header Frame V2Header Scan Index Store Wf.
From GoCarProofs Require Import BytesFacts VarintFacts CidFacts HeaderFacts ScanFacts
     FinalBytes FinalOrder FinalIndex FinalStore FinalWf FinalAccept FinalWide.

Lemma roots_of_opt nilroots roots : roots_of (roots_opt nilroots roots) = roots.
Proof. unfold roots_opt. destruct roots; [destruct nilroots|]; reflexivity. Qed.

Lemma forall_concat {A} (Q : A -> Prop) (h : list (list A)) : Forall (Forall Q) h -> forall x, In x (concat h) -> Q x.
Proof.
  intros H x Hx. apply in_concat in Hx. destruct Hx as (b & Hb & Hxb).
  rewrite Forall_forall in H. specialize (H b Hb). rewrite Forall_forall in H. exact (H x Hxb).
Qed.

Lemma spec_stored_sub (Q : block -> Prop) k o ro h : Forall (Forall Q) h -> Forall Q (spec_stored k o ro h).
Proof. intros H. apply spec_stored_inv. intros x _ _ Hx _ _. exact (forall_concat Q h H x Hx). Qed.

(* ---- C05_layout ----------------------------------------------------------------------------------------- *)
Theorem c05_layout :
  forall (k : skind) (o : wopts) (nilroots : bool) (roots : list bytes) (h : list batch) (fi : index),
  let ro := roots_opt nilroots roots in
  let stored := spec_stored k o ro h in
  let payload := ld (enc_header ro 1) ++ enc_sections stored in
  51 + w_dpad o + w_ipad o < two64 ->
  (k = KStorage false -> w_v1 o = true) ->
  Forall (Forall (fun b : block => blen (fst b) + blen (snd b) < 2 ^ 56)) h ->
  51 + w_dpad o + blen payload + w_ipad o < two64 ->
  (w_v1 o = false ->
   ii_flatten (w_codec o) (ii_load (records_from (ld_size (blen (enc_header ro 1))) stored) []) = Some fi) ->
  exists s outs,
    session k o nilroots roots h = Ok (s, outs, ONil) /\
    ws_file s =
      if w_v1 o then payload
      else pragma ++
           enc_v2hdr (mkv2 (if w_storeid o then 128 else 0) 0 (51 + w_dpad o) (blen payload)
                           (51 + w_dpad o + blen payload + w_ipad o)) ++
           zerosN (w_dpad o) ++ payload ++ zerosN (w_ipad o) ++ idx_write fi.
Proof.
  intros k o nilroots roots h fi ro stored payload Ho Hk Hfr Hfit Hfi.
  destruct (session_layout k o nilroots roots h fi Ho Hk Hfr Hfit Hfi) as (s & outs & Hs & Hl).
  exists s, outs. split; [exact Hs|]. rewrite Hl. unfold layout. fold ro stored. destruct (w_v1 o); reflexivity.
Qed.

(* an unknown index codec: Finalize reports an error and leaves the CARv2 header zeroed *)
Theorem c05_unknown_codec :
  forall (k : skind) (o : wopts) (nilroots : bool) (roots : list bytes) (h : list batch),
  let ro := roots_opt nilroots roots in
  let stored := spec_stored k o ro h in
  51 + w_dpad o + w_ipad o < two64 ->
  (k = KStorage false -> w_v1 o = true) -> w_v1 o = false ->
  idx_new (w_codec o) = None ->
  exists s outs,
    session k o nilroots roots h = Ok (s, outs, OErr EOther) /\
    ws_file s = pragma ++ zerosN (40 + w_dpad o) ++ ld (enc_header ro 1) ++ enc_sections stored.
Proof.
  intros k o nilroots roots h ro stored Ho Hk Hv Hc.
  assert (Hfi : final_index o ro stored = None) by (unfold final_index, ii_flatten; rewrite Hc; reflexivity).
  destruct (session_bad_codec k o nilroots roots h Ho Hk Hv Hfi) as (s & outs & Hs & Hl).
  exists s, outs. split; [exact Hs|]. rewrite Hl. unfold prefix, payload_opt. rewrite Hv, <- app_assoc. reflexivity.
Qed.

(* ---- a successful session, analysed ------------------------------------------------------------------------ *)
Lemma session_ok_inv k o nilroots roots h s outs :
  session k o nilroots roots h = Ok (s, outs, ONil) -> 51 + w_dpad o + w_ipad o < two64 -> w_ipad o < two63 ->
  blen (ws_file s) < two63 ->
  let ro := roots_opt nilroots roots in
  let stored := spec_stored k o ro h in
  exists fi, ws_file s = layout o ro stored fi /\ (w_v1 o = false -> final_index o ro stored = Some fi).
Proof.
  intros Hs Ho Hip Hlen ro stored.
  assert (Hk : k = KStorage false -> w_v1 o = true).
  { intros ->. destruct (w_v1 o) eqn:Hv; [reflexivity|].
    rewrite (session_stream_v2_refused o nilroots roots h Hv) in Hs. discriminate. }
  pose proof Hs as Hs0. unfold session in Hs.
  destruct (open_new_inv k o nilroots roots Ho Hk) as (s0 & Hopen & I0). rewrite Hopen in Hs.
  destruct (put_batches_spec k o roots ro h s0 [] [] Ho I0) as (s1 & outs1 & Hp & I1). rewrite Hp in Hs.
  fold (spec_stored k o ro h) in I1. fold stored in I1.
  destruct (w_v1 o) eqn:Hv.
  - (* CARv1: no index involved; any index value will do.  The file is the payload whatever the paddings are *)
    exists (IdxSorted []). split; [|discriminate].
    pose proof I1 as [Hfile Hidx Hpos Hf Hopts Hkind Hroots Hcl Hfin].
    assert (Hfile2 : ws_file s = ws_file s1).
    { unfold finalize in Hs. rewrite Hkind in Hs. destruct k as [|wa].
      - unfold bs_finalize, bs_finalize_ro in Hs. rewrite Hopts, Hv in Hs.
        unfold bs_close in Hs. cbn [set_flags ws_opts ws_finalized ws_closed] in Hs.
        rewrite Hopts, Hv, Hcl in Hs. cbn [negb andb] in Hs. inversion Hs. reflexivity.
      - unfold st_finalize in Hs. rewrite Hfin, Hcl, Hopts, Hv in Hs. inversion Hs. reflexivity. }
    rewrite Hfile2, Hfile. unfold prefix, layout. rewrite Hv. reflexivity.
  - destruct (final_index o ro stored) as [fi|] eqn:Hfi.
    + exists fi. split; [|intros _; reflexivity].
      (* the file length bounds the arithmetic *)
      assert (Hgrow : blen (ws_file s1) <= blen (ws_file s)).
      { pose proof I1 as [Hfile Hidx Hpos Hf Hopts Hkind Hroots Hcl Hfin].
        (* Finalize only writes at or beyond offsets inside the file or appends: the length never shrinks *)
        assert (G : forall cl fin s', store_finalize (set_flags s1 cl fin) = (s', ONil) -> blen (ws_file s1) <= blen (ws_file s')).
        { intros cl fin s' Hsf. unfold store_finalize in Hsf. cbn [set_flags ws_opts ws_idx ws_dev ws_pos] in Hsf.
          destruct (ii_flatten (w_codec (ws_opts s1)) (ws_idx s1)) as [fi'|]; [|discriminate].
          set (hh := set_fully_indexed _ _) in Hsf.
          destruct (write_chunks_nofault (idx_chunks fi') (ws_dev s1) (h_ioff hh) Hf) as (dv1 & Hw1 & Hf1 & Hfile1).
          rewrite Hw1 in Hsf. cbn [negb] in Hsf.
          destruct (write_chunks_nofault (v2hdr_chunks hh) dv1 pragma_size Hf1) as (dv2 & Hw2 & Hf2 & Hfile2).
          rewrite Hw2 in Hsf. inversion Hsf. unfold ws_file. cbn [set_dev ws_dev].
          rewrite Hfile2, Hfile1. rewrite concat_idx_chunks, concat_v2hdr_chunks.
          assert (Hne : enc_v2hdr hh <> []).
          { intros E. pose proof (blen_enc_v2hdr hh) as B. rewrite E in B. cbn in B. lia. }
          rewrite (blen_write_at _ _ _ Hne), (blen_write_at _ _ _ (idx_write_nonempty fi')). lia. }
        unfold finalize in Hs. rewrite Hkind in Hs. destruct k as [|wa].
        - unfold bs_finalize, bs_finalize_ro in Hs. rewrite Hopts, Hv, Hcl, Hfin in Hs.
          destruct (store_finalize (set_flags s1 false true)) as [s' r1] eqn:Hsf.
          destruct (bs_close s') as [s'' r2] eqn:Hbc. inversion Hs; subst.
          destruct r1; try discriminate.
          assert (ws_file s = ws_file s').
          { unfold bs_close in Hbc. destruct (negb _ && negb _); [inversion Hbc; reflexivity|].
            destruct (ws_closed s'); inversion Hbc; reflexivity. }
          rewrite H. apply (G false true). exact Hsf.
        - unfold st_finalize in Hs. rewrite Hfin, Hcl, Hopts, Hv in Hs.
          destruct (store_finalize (set_flags s1 true false)) as [s' r1] eqn:Hsf.
          inversion Hs; subst. apply (G true false). exact Hsf. }
      pose proof (inv_file _ _ _ _ _ _ I1) as Hfile1.
      assert (Hfit : 51 + w_dpad o + blen (payload_opt ro stored) + w_ipad o < two64).
      { rewrite Hfile1 in Hgrow. unfold prefix in Hgrow. rewrite Hv in Hgrow.
        rewrite !blen_app, blen_zerosN, blen_pragma in Hgrow. unfold two63, two64 in *.
        (* the index padding is bounded through opts_fit, the rest through the file *)
        lia. }
      destruct (finalize_layout k o roots ro s1 stored fi Ho I1 Hfit (fun _ => Hfi)) as (s2 & Hfin2 & Hl).
      rewrite Hfin2 in Hs. inversion Hs; subst. exact Hl.
    + exfalso. assert (Hk2 : k = KStorage false -> w_v1 o = true) by (intros E; rewrite Hv; exact (Hk E)).
      destruct (session_bad_codec k o nilroots roots h Ho Hk2 Hv Hfi) as (s' & outs' & Hs' & _).
      rewrite Hs' in Hs0. discriminate.
Qed.

Definition codes_fit (o : wopts) (ro : option (list bytes)) (stored : list block) : Prop :=
  w_v1 o = false -> w_codec o = codec_mh_sorted ->
  N.of_nat (length (group_by r_code (ii_load (records_from (ld_size (blen (enc_header ro 1))) stored) []))) < two31.

Lemma blen_header_le_layout o ro bs fi : blen (enc_header ro 1) <= blen (layout o ro bs fi).
Proof.
  unfold layout. destruct (w_v1 o); rewrite ?blen_app; unfold payload_opt, ld; rewrite ?blen_app; lia.
Qed.

(* ---- C05_wf -------------------------------------------------------------------------------------------------- *)
Theorem c05_wf :
  forall (k : skind) (o : wopts) (nilroots : bool) (roots : list bytes) (h : list batch) s outs,
  let ro := roots_opt nilroots roots in
  let stored := spec_stored k o ro h in
  session k o nilroots roots h = Ok (s, outs, ONil) ->
  51 + w_dpad o + w_ipad o < two64 -> w_ipad o < two63 ->
  w_maxcid o + 8 <= max_width ->
  roots_ok roots ->
  Forall (Forall (fun b : block => blen (fst b) + blen (snd b) < 2 ^ 56)) h ->
  blen (ws_file s) < two63 ->
  (w_v1 o = false -> w_codec o = codec_mh_sorted ->
   N.of_nat (length (group_by r_code (ii_load (records_from (ld_size (blen (enc_header ro 1))) stored) []))) < two31) ->
  wf_parse o (ws_file s) = Some (roots, stored) /\ wf_car o (ws_file s) = true.
Proof.
  intros k o nilroots roots h s outs ro stored Hs Ho Hip Hmc Hr Hput Hlen Hcodes.
  destruct (session_ok_inv k o nilroots roots h s outs Hs Ho Hip Hlen) as (fi & Hl & Hfi). fold ro stored in Hl, Hfi.
  assert (Hwf : wf_parse o (ws_file s) = Some (roots, stored)).
  { rewrite Hl. replace (Some (roots, stored)) with (Some (roots_of ro, stored)) by (unfold ro; rewrite roots_of_opt; reflexivity).
    apply wf_parse_layout.
    - exact Hmc.
    - split; [unfold ro; rewrite roots_of_opt; exact Hr|].
      pose proof (blen_header_le_layout o ro stored fi). rewrite <- Hl in H. lia.
    - apply spec_stored_ok. exact Hput.
    - rewrite <- Hl. exact Hlen.
    - intros Hv. split; [exact (Hfi Hv)|]. intros Hc. exact (Hcodes Hv Hc). }
  split; [exact Hwf|]. unfold wf_car. rewrite Hwf. reflexivity.
Qed.

(* ---- C05_inspect_accepts ------------------------------------------------------------------------------------------ *)
Lemma stored_rd_ok k o ro h maxs :
  Forall (Forall (fun b : block => blen (fst b) + blen (snd b) < 2 ^ 56)) h ->
  Forall (Forall (fun b : block => blen (fst b) + blen (snd b) <= maxs)) h ->
  Forall (rd_ok o maxs) (spec_stored k o ro h).
Proof.
  intros Hput Hsz. pose proof (spec_stored_ok k o ro h Hput) as H1.
  pose proof (spec_stored_sub _ k o ro h Hsz) as H2.
  rewrite Forall_forall in *. intros b Hb. split; [exact (H1 b Hb)|exact (H2 b Hb)].
Qed.

Theorem c05_inspect_accepts :
  forall (hok : bytes -> bytes -> option bool) (hdrdec : bytes -> option (list bytes * N))
         (k : skind) (o : wopts) (nilroots : bool) (roots : list bytes) (h : list batch) s outs
         (r : ropts) (validate : bool),
  let ro := roots_opt nilroots roots in
  session k o nilroots roots h = Ok (s, outs, ONil) ->
  51 + w_dpad o + w_ipad o < two64 -> w_ipad o < two63 ->
  w_maxcid o + 8 <= max_width ->
  Forall (Forall (fun b : block => blen (fst b) + blen (snd b) < 2 ^ 56)) h ->
  blen (ws_file s) < two63 ->
  hdrdec pragma_body = Some ([], 2) -> hdrdec (enc_header ro 1) = Some (roots, 1) ->
  blen (enc_header ro 1) <= o_maxh r ->
  Forall (Forall (fun b : block => blen (fst b) + blen (snd b) <= o_maxs r)) h ->
  (validate = true -> Forall (Forall (hash_good hok)) h) ->
  inspect_check hok hdrdec r validate (ws_file s) = Ok tt.
Proof.
  intros hok hdrdec k o nilroots roots h s outs r validate ro Hs Ho Hip Hmc Hput Hlen Hpr Hd Hmaxh Hsz Hh.
  destruct (session_ok_inv k o nilroots roots h s outs Hs Ho Hip Hlen) as (fi & Hl & Hfi). fold ro in Hl, Hfi.
  rewrite Hl. apply inspect_check_layout.
  - exact Hmc.
  - split; [split; [exact Hpr|unfold ro; rewrite roots_of_opt; exact Hd]|]. split; [exact Hmaxh|]. split.
    + pose proof (blen_header_le_layout o ro (spec_stored k o ro h) fi). rewrite <- Hl in H. lia.
    + split; [apply stored_rd_ok; assumption|]. intros Hv. apply spec_stored_sub. exact (Hh Hv).
  - unfold file_fits. rewrite <- Hl. exact Hlen.
Qed.

(* ---- C05_verify_accepts (partial: the verifier refuses every archive without roots) -------------------------------- *)
Theorem c05_verify_accepts_partial :
  forall (hok : bytes -> bytes -> option bool) (hdrdec : bytes -> option (list bytes * N))
         (k : skind) (o : wopts) (nilroots : bool) (roots : list bytes) (h : list batch) s outs,
  let ro := roots_opt nilroots roots in
  let stored := spec_stored k o ro h in
  session k o nilroots roots h = Ok (s, outs, ONil) ->
  51 + w_dpad o + w_ipad o < two64 -> w_ipad o < two63 ->
  w_maxcid o + 8 <= max_width ->
  Forall (Forall (fun b : block => blen (fst b) + blen (snd b) < 2 ^ 56)) h ->
  blen (ws_file s) < two63 ->
  (w_v1 o = false -> w_codec o = codec_mh_sorted ->
   N.of_nat (length (group_by r_code (ii_load (records_from (ld_size (blen (enc_header ro 1))) stored) []))) < two31) ->
  hdrdec pragma_body = Some ([], 2) -> hdrdec (enc_header ro 1) = Some (roots, 1) ->
  blen (enc_header ro 1) <= o_maxh default_ropts ->
  Forall (Forall (fun b : block => blen (fst b) + blen (snd b) <= o_maxs default_ropts)) h ->
  Forall (Forall (hash_good hok)) h ->
  incl roots (map fst stored) ->
  roots <> [] ->
  verify_check hok hdrdec (ws_file s) = Ok tt.
Proof.
  intros hok hdrdec k o nilroots roots h s outs ro stored Hs Ho Hip Hmc Hput Hlen Hcodes Hpr Hd Hmaxh Hsz Hh Hincl Hne.
  destruct (session_ok_inv k o nilroots roots h s outs Hs Ho Hip Hlen) as (fi & Hl & Hfi). fold ro stored in Hl, Hfi.
  rewrite Hl. apply verify_check_layout.
  - exact Hmc.
  - split; [split; [exact Hpr|unfold ro; rewrite roots_of_opt; exact Hd]|]. split; [exact Hmaxh|]. split.
    + pose proof (blen_header_le_layout o ro stored fi). rewrite <- Hl in H. lia.
    + split; [apply stored_rd_ok; assumption|]. intros _. apply spec_stored_sub. exact Hh.
  - unfold file_fits. rewrite <- Hl. exact Hlen.
  - intros Hv. split; [exact (Hfi Hv)|]. intros Hc. exact (Hcodes Hv Hc).
  - unfold ro. rewrite roots_of_opt. exact Hne.
  - unfold ro. rewrite roots_of_opt. exact Hincl.
Qed.

(* ---- the same for the options the library actually works with (ApplyOptions): no condition on
   MaxIndexCidSize is left ------------------------------------------------------------------------------------- *)
Theorem c05_wf_applied :
  forall (k : skind) (o0 : wopts) (nilroots : bool) (roots : list bytes) (h : list batch) s outs,
  let o := apply_wopts o0 in
  let ro := roots_opt nilroots roots in
  let stored := spec_stored k o ro h in
  session k o nilroots roots h = Ok (s, outs, ONil) ->
  51 + w_dpad o + w_ipad o < two64 -> w_ipad o < two63 ->
  roots_ok roots ->
  Forall (Forall (fun b : block => blen (fst b) + blen (snd b) < 2 ^ 56)) h ->
  blen (ws_file s) < two63 ->
  (w_v1 o = false -> w_codec o = codec_mh_sorted ->
   N.of_nat (length (group_by r_code (ii_load (records_from (ld_size (blen (enc_header ro 1))) stored) []))) < two31) ->
  wf_parse o (ws_file s) = Some (roots, stored) /\ wf_car o (ws_file s) = true.
Proof.
  intros k o0 nilroots roots h s outs o ro stored Hs Ho Hip Hr Hput Hlen Hcodes.
  apply (c05_wf k o nilroots roots h s outs Hs Ho Hip (apply_wopts_maxcid o0) Hr Hput Hlen Hcodes).
Qed.

Theorem c05_inspect_accepts_applied :
  forall (hok : bytes -> bytes -> option bool) (hdrdec : bytes -> option (list bytes * N))
         (k : skind) (o0 : wopts) (nilroots : bool) (roots : list bytes) (h : list batch) s outs
         (r : ropts) (validate : bool),
  let o := apply_wopts o0 in
  let ro := roots_opt nilroots roots in
  session k o nilroots roots h = Ok (s, outs, ONil) ->
  51 + w_dpad o + w_ipad o < two64 -> w_ipad o < two63 ->
  Forall (Forall (fun b : block => blen (fst b) + blen (snd b) < 2 ^ 56)) h ->
  blen (ws_file s) < two63 ->
  hdrdec pragma_body = Some ([], 2) -> hdrdec (enc_header ro 1) = Some (roots, 1) ->
  blen (enc_header ro 1) <= o_maxh r ->
  Forall (Forall (fun b : block => blen (fst b) + blen (snd b) <= o_maxs r)) h ->
  (validate = true -> Forall (Forall (hash_good hok)) h) ->
  inspect_check hok hdrdec r validate (ws_file s) = Ok tt.
Proof.
  intros hok hdrdec k o0 nilroots roots h s outs r validate o ro Hs Ho Hip.
  apply (c05_inspect_accepts hok hdrdec k o nilroots roots h s outs r validate Hs Ho Hip (apply_wopts_maxcid o0)).
Qed.

Theorem c05_verify_accepts_partial_applied :
  forall (hok : bytes -> bytes -> option bool) (hdrdec : bytes -> option (list bytes * N))
         (k : skind) (o0 : wopts) (nilroots : bool) (roots : list bytes) (h : list batch) s outs,
  let o := apply_wopts o0 in
  let ro := roots_opt nilroots roots in
  let stored := spec_stored k o ro h in
  session k o nilroots roots h = Ok (s, outs, ONil) ->
  51 + w_dpad o + w_ipad o < two64 -> w_ipad o < two63 ->
  Forall (Forall (fun b : block => blen (fst b) + blen (snd b) < 2 ^ 56)) h ->
  blen (ws_file s) < two63 ->
  (w_v1 o = false -> w_codec o = codec_mh_sorted ->
   N.of_nat (length (group_by r_code (ii_load (records_from (ld_size (blen (enc_header ro 1))) stored) []))) < two31) ->
  hdrdec pragma_body = Some ([], 2) -> hdrdec (enc_header ro 1) = Some (roots, 1) ->
  blen (enc_header ro 1) <= o_maxh default_ropts ->
  Forall (Forall (fun b : block => blen (fst b) + blen (snd b) <= o_maxs default_ropts)) h ->
  Forall (Forall (hash_good hok)) h ->
  incl roots (map fst stored) ->
  roots <> [] ->
  verify_check hok hdrdec (ws_file s) = Ok tt.
Proof.
  intros hok hdrdec k o0 nilroots roots h s outs o ro stored Hs Ho Hip.
  apply (c05_verify_accepts_partial hok hdrdec k o nilroots roots h s outs Hs Ho Hip (apply_wopts_maxcid o0)).
Qed.
