(* Reader side of C01, part 2: Reader.DataReader's window, and the two random-access readers
   (read-only blockstore: key listing + Get of every key; readable storage: Get of every CID)
   return exactly the ro and the (CID, bytes) sequence of a constructed archive. *)
From GoCar Require Import Bytes Varint Cid Header Frame V2Header Scan Index Store ReadOnly.
From GoCarProofs Require Import BytesFacts VarintFacts CidFacts HeaderFacts ScanFacts StoreInv
  ReadOnlyFacts ReadOnlyRefine ReadOnlyIndex ReadOnlyRoundTrip ReadOnlyOpen ReadOnlyMain.

(* identity sections carry their digest (what hash verification means for identity CIDs) *)
Definition id_consistent (bs : list block) : Prop :=
  forall b p, In b bs -> cid_parse (fst b) = Some p -> is_identity p = true -> snd b = c_digest p.

Lemma consistentb_sound bs : consistentb bs = true -> consistent bs.
Proof.
  unfold consistentb, consistent. intros H b1 b2 p1 p2 H1 H2 E1 E2 Hc Hd.
  rewrite forallb_forall in H. specialize (H b1 H1). rewrite forallb_forall in H. specialize (H b2 H2).
  rewrite E1, E2, Hc, Hd, N.eqb_refl, bytes_eqb_refl in H. cbn in H. apply bytes_eqb_eq. exact H.
Qed.
Lemma id_consistentb_sound bs : id_consistentb bs = true -> id_consistent bs.
Proof.
  unfold id_consistentb, id_consistent. intros H b p Hb Ep Hi.
  rewrite forallb_forall in H. specialize (H b Hb). rewrite Ep, Hi in H. cbn in H. apply bytes_eqb_eq. exact H.
Qed.

Lemma raw_cid_parse p : cid_ok p -> cid_parse (raw_cid p) = Some (mkcid 1 85 (c_mhcode p) (c_digest p)).
Proof.
  intros Hp. unfold raw_cid. apply cid_parse_enc. right. cbn [c_ver c_codec c_mhcode c_digest].
  destruct Hp as [(_ & _ & Hm & Hd)|(_ & _ & Hm & Hd)].
  - rewrite Hm. split; [reflexivity|]. split; [unfold two63; lia|]. split; [unfold two63; lia|]. rewrite Hd. unfold max_int32. lia.
  - split; [reflexivity|]. split; [unfold two63; lia|]. split; assumption.
Qed.

Section Readers2.
  Variable hdrdec : bytes -> option (list bytes * N).

  (* v2 Reader: NewReader + DataReader + Roots *)
  Theorem data_reader_window o ct ro bs npad file :
    file_ok hdrdec o ct ro bs npad file ->
    exists r, new_reader hdrdec (q_maxh o) file = Ok r /\
              data_window r = payload_np ro bs npad /\
              reader_roots hdrdec (q_maxh o) r = Ok (hdr_roots ro).
  Proof.
    intros Hfo. pose proof (fo_arch _ _ _ _ _ _ _ Hfo) as Ha.
    destruct ct as [|chi clo dpad ipad emb].
    - pose proof (fo_file _ _ _ _ _ _ _ Hfo) as Hf. cbn [car_file] in Hf. inversion Hf; subst file.
      unfold new_reader. rewrite (payload_read_header hdrdec o ro bs npad Ha). cbn [N.eqb Pos.eqb].
      eexists. split; [reflexivity|]. split; [reflexivity|].
      unfold reader_roots, data_window. cbn [rd_ver rd_file N.eqb Pos.eqb].
      rewrite (payload_read_header hdrdec o ro bs npad Ha). reflexivity.
    - destruct (embedded_or_flat hdrdec o ro bs npad chi clo dpad ipad emb file Hfo) as (h & i & Hr & Hw & _).
      exists (mkrd 2 h file). split; [exact Hr|]. split; [exact Hw|].
      unfold reader_roots. rewrite Hw, (payload_read_header hdrdec o ro bs npad Ha). reflexivity.
  Qed.

  (* the key under which a section is listed and fetched *)
  Definition key_kp (whole : bool) (c : bytes) (p : cidp) : bytes * cidp :=
    if whole then (c, p) else (raw_cid p, mkcid 1 85 (c_mhcode p) (c_digest p)).

  Lemma own_key_carries o ro bs npad whole c d :
    arch_ok hdrdec o ro bs npad -> In (c, d) bs ->
    exists p, cid_parse c = Some p /\ cid_parse (fst (key_kp whole c p)) = Some (snd (key_kp whole c p)) /\
              fst (key_kp whole c p) = key_of whole c p /\
              carries whole (fst (key_kp whole c p)) (snd (key_kp whole c p)) (c, d) = true /\
              is_identity (snd (key_kp whole c p)) = is_identity p /\
              c_digest (snd (key_kp whole c p)) = c_digest p.
  Proof.
    intros Ha Hin. pose proof (ao_blocks _ _ _ _ _ Ha) as Hall. rewrite Forall_forall in Hall.
    destruct (Hall _ Hin) as (p & Hp & Hc & _). cbn [fst snd] in Hc.
    assert (Hcp : cid_parse c = Some p) by (rewrite Hc; apply cid_parse_enc; exact Hp).
    exists p. split; [exact Hcp|]. unfold key_kp, key_of, carries. cbn [fst]. rewrite Hcp.
    destruct whole; cbn [fst snd].
    - repeat split; try assumption; try reflexivity. unfold key_matches. apply bytes_eqb_refl.
    - split; [apply raw_cid_parse; exact Hp|]. repeat split; try reflexivity.
      unfold key_matches. cbn [c_mhcode c_digest]. rewrite N.eqb_refl, bytes_eqb_refl. reflexivity.
  Qed.

  (* get_spec pins the bytes down on consistent archives *)
  Lemma get_spec_own o ro bs npad c d r :
    arch_ok hdrdec o ro bs npad -> In (c, d) bs -> consistent bs -> id_consistent bs ->
    forall p, cid_parse c = Some p ->
    get_spec o (fst (key_kp (q_whole o) c p)) (snd (key_kp (q_whole o) c p)) bs r -> r = OBytes d.
  Proof.
    intros Ha Hin Hcons Hid p Hcp Hspec.
    destruct (own_key_carries o ro bs npad (q_whole o) c d Ha Hin) as (p' & Hcp' & Hkp & _ & Hcar & Hident & Hdig).
    rewrite Hcp in Hcp'. inversion Hcp'; subst p'.
    unfold get_spec, shortcut in Hspec. rewrite Hident in Hspec.
    destruct (negb (q_storeid o) && is_identity p) eqn:Es.
    - rewrite Hspec, Hdig. f_equal. symmetry. apply (Hid (c, d) p Hin Hcp).
      apply andb_true_iff in Es. tauto.
    - destruct Hspec as [Ht _].
      destruct (Ht (existsb_carries_true o _ _ bs (c, d) Hin Hcar)) as (c' & d' & Hin' & Hcar' & ->).
      f_equal. unfold carries in Hcar, Hcar'. cbn [fst] in *. rewrite Hcp in Hcar.
      destruct (cid_parse c') as [p'|] eqn:Ep'; [|discriminate].
      destruct (key_matches_mh _ _ _ _ _ Hkp Hcp Hcar) as [A1 B1].
      destruct (key_matches_mh _ _ _ _ _ Hkp Ep' Hcar') as [A2 B2].
      apply (Hcons (c', d') (c, d) p' p Hin' Hin Ep' Hcp); congruence.
  Qed.

  (* read-only blockstore: Roots, the key listing, and Get of every listed key *)
  Theorem ro_reads_back o ct ro bs npad file sup si :
    file_ok hdrdec o ct ro bs npad file -> supplied_ok hdrdec sup si ro bs npad ->
    (q_storeid o = true -> index_wid o ct sup = true) -> consistent bs -> id_consistent bs ->
    exists s, ro_open hdrdec o file si = Ok s /\
      ro_roots hdrdec s = OKeys (hdr_roots ro) /\
      ro_keys hdrdec s = KKeys (ref_keys (q_whole o) bs) None /\
      forall c d p, In (c, d) bs -> cid_parse c = Some p -> ro_get s (key_of (q_whole o) c p) = OBytes d.
  Proof.
    intros Hfo Hsup Hwid Hcons Hid.
    destruct (ro_refines_scan hdrdec o ct ro bs npad file sup si Hfo Hsup) as (s & Hs & _ & Hk & Hr & Hq).
    pose proof (fo_arch _ _ _ _ _ _ _ Hfo) as Ha.
    exists s. repeat split; try assumption.
    intros c d p Hin Hcp.
    destruct (own_key_carries o ro bs npad (q_whole o) c d Ha Hin) as (p' & Hcp' & Hkp & Hkey & _).
    rewrite Hcp in Hcp'. inversion Hcp'; subst p'. rewrite <- Hkey.
    destruct (Hq _ _ Hkp) as [_ Hg].
    assert (Hguard : id_guard o (index_wid o ct sup) (snd (key_kp (q_whole o) c p)) = true).
    { unfold id_guard. destruct (q_storeid o) eqn:Est; [rewrite (Hwid eq_refl); apply orb_true_r|reflexivity]. }
    destruct (Hg Hguard) as [_ Hget].
    apply (get_spec_own o ro bs npad c d _ Ha Hin Hcons Hid p Hcp Hget).
  Qed.

  (* readable storage: Roots and Get of every section's CID *)
  Theorem sto_reads_back o ct ro bs npad file :
    file_ok hdrdec o ct ro bs npad file ->
    (q_storeid o = true -> index_wid o ct None = true) -> consistent bs -> id_consistent bs ->
    exists s, sto_open hdrdec o file = Ok s /\
      sto_roots s = OKeys (hdr_roots ro) /\
      forall c d p, In (c, d) bs -> cid_parse c = Some p -> sto_get s (key_of (q_whole o) c p) = OBytes d.
  Proof.
    intros Hfo Hwid Hcons Hid.
    destruct (sto_refines_scan hdrdec o ct ro bs npad file Hfo) as (s & Hs & _ & Hr & Hq).
    pose proof (fo_arch _ _ _ _ _ _ _ Hfo) as Ha.
    exists s. repeat split; try assumption.
    intros c d p Hin Hcp.
    destruct (own_key_carries o ro bs npad (q_whole o) c d Ha Hin) as (p' & Hcp' & Hkp & Hkey & _).
    rewrite Hcp in Hcp'. inversion Hcp'; subst p'. rewrite <- Hkey.
    assert (Hguard : id_guard o (index_wid o ct None) (snd (key_kp (q_whole o) c p)) = true).
    { unfold id_guard. destruct (q_storeid o) eqn:Est; [rewrite (Hwid eq_refl); apply orb_true_r|reflexivity]. }
    destruct (Hq _ _ Hkp Hguard) as [_ Hget].
    apply (get_spec_own o ro bs npad c d _ Ha Hin Hcons Hid p Hcp Hget).
  Qed.
End Readers2.

(* ---- statements for props/C01_readers.v (header decoder = the model's own) ------------------------- *)
Definition v2_limits (ct : container) (maxh : N) : Prop :=
  match ct with
  | CV1 => True
  | CV2 chi clo _ _ _ => chi < two64 /\ clo < two64 /\ 10 <= maxh
  end.

(* v2 BlockReader (hash-verifying unless trusted) over any container *)
Theorem block_reader_reads_back hok o ct ro bs npad file :
  archive_ok_o hok dec_header_canon o ro bs -> (npad = 0 \/ o_zeof o = true) ->
  car_file ct ro bs npad = Some file -> v2_limits ct (o_maxh o) -> blen file < two63 ->
  br_read_all hok dec_header_canon o file = Ok (ct_version ct, hdr_roots ro, mkscan bs EEof).
Proof.
  intros Ha Hz Hf Hv Hl. destruct ct as [|chi clo dpad ipad emb].
  - cbn [car_file] in Hf. inversion Hf; subst file. apply br_read_all_v1_np; assumption.
  - destruct (car_file_v2 ro bs npad chi clo dpad ipad emb file Hf) as (ib & -> & _).
    destruct Hv as (Hchi & Hclo & Hmh). apply br_read_all_v2; try assumption. reflexivity.
Qed.

Theorem root_reader_reads_back hok ro bs :
  roots_ok (hdr_roots ro) -> blen (enc_header ro 1) <= root_max_section -> hdr_roots ro <> [] ->
  Forall root_block_ok bs -> Forall (hash_good hok) bs ->
  root_read_all hok dec_header_canon (ld (enc_header ro 1) ++ enc_sections bs) = Ok (hdr_roots ro, mkscan bs EEof).
Proof. intros Hr. apply root_read_all_v1. apply canon_hdr_ro. exact Hr. Qed.

Theorem data_reader_reads_back o ct ro bs npad file :
  car_file ct ro bs npad = Some file -> roots_ok (hdr_roots ro) -> limits_ok o ro bs npad ->
  blen file < two63 -> (q_codec o = codec_sorted \/ q_codec o = codec_mh_sorted) ->
  match ct with
  | CV1 => True
  | CV2 chi clo _ _ emb => chi < two64 /\ clo < two64 /\ 10 <= q_maxh o /\
                           (emb <> None -> N.of_nat (length bs) < two31)
  end ->
  exists r, new_reader dec_header_canon (q_maxh o) file = Ok r /\
            data_window r = payload_np ro bs npad /\
            reader_roots dec_header_canon (q_maxh o) r = Ok (hdr_roots ro).
Proof.
  intros Hf Hr Hl H63 Hc Hv. apply (data_reader_window dec_header_canon o ct ro bs npad file).
  apply mk_file_ok; assumption.
Qed.

Theorem ro_blockstore_reads_back o ct ro bs npad file :
  car_file ct ro bs npad = Some file -> roots_ok (hdr_roots ro) -> limits_ok o ro bs npad ->
  blen file < two63 -> (q_codec o = codec_sorted \/ q_codec o = codec_mh_sorted) ->
  match ct with
  | CV1 => True
  | CV2 chi clo _ _ emb => chi < two64 /\ clo < two64 /\ 10 <= q_maxh o /\
                           (emb <> None -> N.of_nat (length bs) < two31)
  end ->
  (q_storeid o = true -> index_wid o ct None = true) -> consistent bs -> id_consistent bs ->
  exists s, ro_open dec_header_canon o file None = Ok s /\
    ro_roots dec_header_canon s = OKeys (hdr_roots ro) /\
    ro_keys dec_header_canon s = KKeys (ref_keys (q_whole o) bs) None /\
    forall c d p, In (c, d) bs -> cid_parse c = Some p -> ro_get s (key_of (q_whole o) c p) = OBytes d.
Proof.
  intros Hf Hr Hl H63 Hc Hv Hw Hcons Hid.
  apply (ro_reads_back dec_header_canon o ct ro bs npad file None None); try assumption.
  - apply mk_file_ok; assumption.
  - reflexivity.
Qed.

Theorem readable_storage_reads_back o ct ro bs npad file :
  car_file ct ro bs npad = Some file -> roots_ok (hdr_roots ro) -> limits_ok o ro bs npad ->
  blen file < two63 -> (q_codec o = codec_sorted \/ q_codec o = codec_mh_sorted) ->
  match ct with
  | CV1 => True
  | CV2 chi clo _ _ emb => chi < two64 /\ clo < two64 /\ 10 <= q_maxh o /\
                           (emb <> None -> N.of_nat (length bs) < two31)
  end ->
  (q_storeid o = true -> index_wid o ct None = true) -> consistent bs -> id_consistent bs ->
  exists s, sto_open dec_header_canon o file = Ok s /\
    sto_roots s = OKeys (hdr_roots ro) /\
    forall c d p, In (c, d) bs -> cid_parse c = Some p -> sto_get s (key_of (q_whole o) c p) = OBytes d.
Proof.
  intros Hf Hr Hl H63 Hc Hv Hw Hcons Hid.
  apply (sto_reads_back dec_header_canon o ct ro bs npad file); try assumption.
  apply mk_file_ok; assumption.
Qed.

(* ---- the hypotheses are satisfiable: the example archive of ReadOnlyMain --------------------------- *)
Definition all_hash_ok : bytes -> bytes -> option bool := fun _ _ => Some true.

Example ex_id_consistent : id_consistent ex_bs.
Proof.
  unfold id_consistent, ex_bs. intros b p Hin.
  repeat (destruct Hin as [<-|Hin]; [|]); try contradiction;
    vm_compute; intros E; inversion E; subst; intros H; try discriminate; reflexivity.
Qed.

Example ex_limits_ok : limits_ok (ex_opts true) (Some ex_roots) ex_bs 0.
Proof. pose proof (ex_arch_ok true) as [_ H2 _ H4 H5]. repeat split; assumption. Qed.

Example ex_archive_ok : archive_ok_o all_hash_ok dec_header_canon default_ropts (Some ex_roots) ex_bs.
Proof.
  pose proof (ex_arch_ok true) as [H1 H2 H3 H4 H5]. repeat split; try assumption.
  - cbn [default_ropts o_maxs]. rewrite Forall_forall in *. intros b Hb.
    apply (rblock_block_ok _ 2048). apply H4. exact Hb.
  - intros _. unfold ex_bs. repeat constructor; intros p Hp; unfold hash_matches;
      destruct (is_identity p) eqn:Ei; try reflexivity;
      vm_compute in Hp; inversion Hp; subst; vm_compute in Ei; try discriminate; reflexivity.
Qed.

Example ex_root_blocks : Forall root_block_ok [(ex_cid 85 x01, [x0a; x0b]); (ex_cid 113 x02, [])].
Proof.
  repeat constructor.
  - exists (mkcid 1 85 18 (x01 :: zeros 31)). repeat split; try reflexivity; try (apply ex_cid_ok; numgoal); numgoal.
  - exists (mkcid 1 113 18 (x02 :: zeros 31)). repeat split; try reflexivity; try (apply ex_cid_ok; numgoal); numgoal.
Qed.
