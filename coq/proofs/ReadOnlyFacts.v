(* C07 groundwork: what the index generator (LoadIndex), FindCid and the AllKeysChan walk do on a
   constructed payload, and what the CARv2 container arithmetic shows of it. *)
From GoCar Require Import Bytes Varint Cid Header Frame V2Header Scan Index Store ReadOnly.
From GoCarProofs Require Import BytesFacts VarintFacts CidFacts HeaderFacts ScanFacts.

(* a section every read-only path accepts under limits maxs / maxcid: a well-formed CID whose digest
   fits an index bucket (and go-cid's 32 MiB digest cap), within the section and index-CID limits *)
Definition rblock_ok (maxs maxcid : N) (b : block) : Prop :=
  exists p, cid_ok p /\ fst b = cid_enc p /\ blen (c_digest p) + 8 <= max_width /\
            blen (fst b) <= maxcid /\
            blen (fst b) + blen (snd b) <= maxs /\ blen (fst b) + blen (snd b) < two63.

Lemma rblock_block_ok maxs maxcid b : rblock_ok maxs maxcid b -> block_ok maxs b.
Proof.
  intros (p & Hp & Hc & _ & _ & Hm & H63). repeat split; try assumption. exists p. split; assumption.
Qed.

Lemma enc_sections_cons b bs : enc_sections (b :: bs) = enc_section (fst b) (snd b) ++ enc_sections bs.
Proof. reflexivity. Qed.
Lemma enc_sections_app a b : enc_sections (a ++ b) = enc_sections a ++ enc_sections b.
Proof. unfold enc_sections. rewrite map_app, concat_app. reflexivity. Qed.

(* what a stream positioned at a section shows to ReadUvarint + CidFromReader *)
Lemma stream_section c d p rest :
  cid_ok p -> c = cid_enc p -> blen (c_digest p) <= max_digest_alloc -> blen c + blen d < two63 ->
  read_uv (enc_section c d ++ rest) = VOk (blen c + blen d) (c ++ d ++ rest) (uv_size (blen c + blen d)) /\
  cid_from_reader (c ++ d ++ rest) = CfrOk (blen c) c p (d ++ rest).
Proof.
  intros Hp -> Hcap H63. split.
  - unfold enc_section. rewrite <- !app_assoc. apply read_uv_put_uv. exact H63.
  - apply cid_from_reader_enc; assumption.
Qed.

Lemma read_uv_zeros k t : read_uv (x00 :: t) = VOk 0 t 1 /\ read_uv (zeros (S k) ++ t) = VOk 0 (zeros k ++ t) 1.
Proof. split; reflexivity. Qed.

Lemma zerosN_cases n : n = 0 /\ zerosN n = [] \/ exists k, zerosN n = zeros (S k).
Proof.
  unfold zerosN. destruct (N.to_nat n) as [|k] eqn:E.
  - left. split; [lia|reflexivity].
  - right. exists k. reflexivity.
Qed.

(* the sections of a payload with their offsets *)
Fixpoint locate (pos : N) (bs : list block) : list (N * block) :=
  match bs with
  | [] => []
  | b :: t => (pos, b) :: locate (pos + section_size (fst b) (snd b)) t
  end.

(* "view shows section (c,d) at offset off" *)
Definition sec_at (view : bytes) (off : N) (b : block) : Prop :=
  exists pre rest, view = pre ++ enc_section (fst b) (snd b) ++ rest /\ blen pre = off.

Lemma locate_sec_at bs : forall pre tail view,
  view = pre ++ enc_sections bs ++ tail ->
  forall off b, In (off, b) (locate (blen pre) bs) -> sec_at view off b /\ In b bs.
Proof.
  induction bs as [|b0 bs IH]; intros pre tail view Hv off b Hin; cbn [locate] in Hin; [contradiction|].
  destruct Hin as [Heq|Hin].
  - inversion Heq; subst off b. split; [|left; reflexivity].
    exists pre, (enc_sections bs ++ tail). split; [|reflexivity].
    rewrite Hv, enc_sections_cons, <- !app_assoc. reflexivity.
  - rewrite <- blen_enc_section, <- blen_app in Hin.
    destruct (IH (pre ++ enc_section (fst b0) (snd b0)) tail view) with (off := off) (b := b) as [H1 H2].
    + rewrite Hv, enc_sections_cons, <- !app_assoc. reflexivity.
    + exact Hin.
    + split; [exact H1|right; exact H2].
Qed.

Lemma locate_complete bs : forall pos b, In b bs -> exists off, In (off, b) (locate pos bs).
Proof.
  induction bs as [|b0 bs IH]; intros pos b Hin; [contradiction|]. cbn [locate].
  destruct Hin as [->|Hin].
  - exists pos. left. reflexivity.
  - destruct (IH (pos + section_size (fst b0) (snd b0)) b Hin) as (off & H). exists off. right. exact H.
Qed.

(* records = the located sections that are kept, as index records *)
Lemma sect_records_in withid bs : forall pos r,
  In r (sect_records withid pos bs) <->
  exists b p, In (r_off r, b) (locate pos bs) /\ cid_parse (fst b) = Some p /\
              (withid || negb (is_identity p)) = true /\
              r = mkrec (fst b) (c_mhcode p) (c_digest p) (r_off r).
Proof.
  induction bs as [|[c d] bs IH]; intros pos r; cbn [sect_records locate fst snd].
  - split; [contradiction|]. intros (b & p & [] & _).
  - destruct (cid_parse c) as [p|] eqn:Ep.
    + destruct (withid || negb (is_identity p)) eqn:Ek.
      * cbn [In]. rewrite IH. split.
        -- intros [<-|(b & q & Hin & Hq & Hk & Hr)].
           ++ exists (c, d), p. cbn [r_off fst snd]. repeat split; try assumption. left. reflexivity.
           ++ exists b, q. repeat split; try assumption. right. exact Hin.
        -- intros (b & q & [Heq|Hin] & Hq & Hk & Hr).
           ++ inversion Heq; subst b. cbn [fst] in Hq. rewrite Ep in Hq. inversion Hq; subst q.
              left; rewrite Hr; cbn [fst]; f_equal; congruence.
           ++ right. exists b, q. repeat split; assumption.
      * rewrite IH. split.
        -- intros (b & q & Hin & Hq & Hk & Hr). exists b, q. repeat split; try assumption. right. exact Hin.
        -- intros (b & q & [Heq|Hin] & Hq & Hk & Hr).
           ++ inversion Heq; subst b. cbn [fst] in Hq. rewrite Ep in Hq. inversion Hq; subst q. congruence.
           ++ exists b, q. repeat split; assumption.
    + rewrite IH. split.
      * intros (b & q & Hin & Hq & Hk & Hr). exists b, q. repeat split; try assumption. right. exact Hin.
      * intros (b & q & [Heq|Hin] & Hq & Hk & Hr).
        -- inversion Heq; subst b. cbn [fst] in Hq. congruence.
        -- exists b, q. repeat split; assumption.
Qed.

(* ---- LoadIndex's section loop on a constructed payload ------------------------------------- *)
Lemma li_scan_sections o base src npad : forall bs pre acc fuel,
  Forall (rblock_ok (q_maxs o) (q_maxcid o)) bs ->
  src = pre ++ enc_sections bs ++ zerosN npad ->
  (npad = 0 \/ q_zeof o = true) ->
  base + blen src < two63 ->
  (length bs < fuel)%nat ->
  li_scan fuel o base src 0 0 (blen pre) acc
  = Ok (rev acc ++ sect_records (q_storeid o) (blen pre) bs).
Proof.
  induction bs as [|[c d] bs IH]; intros pre acc fuel Hok Hsrc Hz Hb Hf.
  - destruct fuel as [|f]; [cbn in Hf; lia|]. cbn [li_scan sect_records].
    rewrite Hsrc. cbn [enc_sections map concat app]. rewrite drop_app.
    destruct (zerosN_cases npad) as [[-> ->]|[k Hk]].
    + cbn. rewrite app_nil_r. reflexivity.
    + rewrite Hk. destruct (read_uv_zeros k []) as [_ H0]. rewrite app_nil_r in H0. rewrite H0.
      cbn [N.eqb]. destruct Hz as [Hz|Hz].
      * exfalso. subst npad. cbn in Hk. discriminate.
      * rewrite Hz, app_nil_r. reflexivity.
  - destruct fuel as [|f]; [cbn in Hf; lia|]. cbn [li_scan].
    pose proof (Forall_inv Hok) as Hb0. pose proof (Forall_inv_tail Hok) as Hok'.
    destruct Hb0 as (p & Hp & Hc & Hw & Hmc & Hms & H63). cbn [fst snd] in *.
    assert (Hcap : blen (c_digest p) <= max_digest_alloc) by (unfold max_width, max_digest_alloc in *; lia).
    assert (Hsrc' : src = (pre ++ enc_section c d) ++ enc_sections bs ++ zerosN npad).
    { rewrite Hsrc, enc_sections_cons. cbn [fst snd]. rewrite <- !app_assoc. reflexivity. }
    assert (Hd : drop (blen pre) src = enc_section c d ++ enc_sections bs ++ zerosN npad).
    { rewrite Hsrc', <- app_assoc. apply drop_app. }
    rewrite Hd.
    destruct (stream_section c d p (enc_sections bs ++ zerosN npad) Hp Hc Hcap H63) as [Hr Hcr].
    rewrite Hr.
    assert (Hne : blen c + blen d <> 0).
    { pose proof (cid_enc_nonempty p Hp) as H2. rewrite <- Hc in H2. lia. }
    replace (blen c + blen d =? 0) with false by lia.
    rewrite Hcr.
    replace (q_maxcid o <? blen c) with false by lia. rewrite andb_false_r.
    set (L := blen c + blen d) in *.
    assert (Hnpos : blen pre + uv_size L + L = blen (pre ++ enc_section c d)).
    { rewrite blen_app, blen_enc_section. unfold section_size, ld_size. fold L. lia. }
    rewrite Hnpos.
    assert (Hle : blen (pre ++ enc_section c d) <= blen src).
    { rewrite Hsrc', !blen_app. lia. }
    replace (two63 <=? base + blen (pre ++ enc_section c d)) with false by lia.
    cbn [N.eqb negb andb].
    cbn [sect_records].
    assert (Hcp : cid_parse c = Some p) by (rewrite Hc; apply cid_parse_enc; exact Hp).
    rewrite Hcp.
    rewrite N.sub_0_r.
    rewrite <- blen_enc_section, <- blen_app.
    destruct (q_storeid o || negb (is_identity p)) eqn:Ek.
    + rewrite (IH (pre ++ enc_section c d) _ f); try assumption.
      * cbn [rev]. rewrite <- app_assoc. reflexivity.
      * cbn in Hf. lia.
    + rewrite (IH (pre ++ enc_section c d) _ f); try assumption.
      * reflexivity.
      * cbn in Hf. lia.
Qed.

(* ---- the AllKeysChan walk on a constructed payload --------------------------------------------- *)
Lemma keys_scan_sections s npad : forall bs pre acc fuel,
  Forall (rblock_ok (q_maxs (s_opts s)) (q_maxcid (s_opts s))) bs ->
  s_view s = pre ++ enc_sections bs ++ zerosN npad ->
  (npad = 0 \/ q_zeof (s_opts s) = true) ->
  blen (s_view s) < two63 ->
  (length bs < fuel)%nat ->
  keys_scan fuel s (blen pre) acc = (rev acc ++ ref_keys (q_whole (s_opts s)) bs, None).
Proof.
  induction bs as [|[c d] bs IH]; intros pre acc fuel Hok Hsrc Hz Hb Hf.
  - destruct fuel as [|f]; [cbn in Hf; lia|]. cbn [keys_scan ref_keys map].
    rewrite Hsrc. cbn [enc_sections map concat app]. rewrite drop_app.
    destruct (zerosN_cases npad) as [[-> ->]|[k Hk]].
    + cbn. rewrite app_nil_r. reflexivity.
    + rewrite Hk. destruct (read_uv_zeros k []) as [_ H0]. rewrite app_nil_r in H0. rewrite H0.
      cbn [N.eqb]. destruct Hz as [Hz|Hz].
      * exfalso. subst npad. cbn in Hk. discriminate.
      * rewrite Hz, app_nil_r. reflexivity.
  - destruct fuel as [|f]; [cbn in Hf; lia|]. cbn [keys_scan].
    pose proof (Forall_inv Hok) as Hb0. pose proof (Forall_inv_tail Hok) as Hok'.
    destruct Hb0 as (p & Hp & Hc & Hw & Hmc & Hms & H63). cbn [fst snd] in *.
    assert (Hcap : blen (c_digest p) <= max_digest_alloc) by (unfold max_width, max_digest_alloc in *; lia).
    assert (Hsrc' : s_view s = (pre ++ enc_section c d) ++ enc_sections bs ++ zerosN npad).
    { rewrite Hsrc, enc_sections_cons. cbn [fst snd]. rewrite <- !app_assoc. reflexivity. }
    assert (Hd : drop (blen pre) (s_view s) = enc_section c d ++ enc_sections bs ++ zerosN npad).
    { rewrite Hsrc', <- app_assoc. apply drop_app. }
    rewrite Hd.
    destruct (stream_section c d p (enc_sections bs ++ zerosN npad) Hp Hc Hcap H63) as [Hr Hcr].
    rewrite Hr.
    assert (Hne : blen c + blen d <> 0).
    { pose proof (cid_enc_nonempty p Hp) as H2. rewrite <- Hc in H2. lia. }
    replace (blen c + blen d =? 0) with false by lia.
    rewrite Hcr.
    set (L := blen c + blen d) in *.
    assert (Hnpos : blen pre + uv_size L + L = blen (pre ++ enc_section c d)).
    { rewrite blen_app, blen_enc_section. unfold section_size, ld_size. fold L. lia. }
    rewrite Hnpos.
    assert (Hle : blen (pre ++ enc_section c d) <= blen (s_view s)).
    { rewrite Hsrc', !blen_app. lia. }
    replace (two63 <=? blen (pre ++ enc_section c d)) with false by lia.
    assert (Hcp : cid_parse c = Some p) by (rewrite Hc; apply cid_parse_enc; exact Hp).
    rewrite (IH (pre ++ enc_section c d) _ f); try assumption; [|cbn in Hf; lia].
    cbn [ref_keys map fst rev]. rewrite Hcp, <- app_assoc. reflexivity.
Qed.

(* ---- FindCid over candidates that are genuine section offsets -------------------------------- *)
Definition cand_ok (view : bytes) (maxs : N) (x : N * block) : Prop :=
  sec_at view (fst x) (snd x) /\ exists maxcid, rblock_ok maxs maxcid (snd x).

Definition found_of (rb : bool) (x : N * block) : bytes * N * Z :=
  let c := fst (snd x) in let d := snd (snd x) in
  (if rb then d else [], if rb then 0 else fst x + uv_size (blen c + blen d) + blen c, Z.of_N (blen d)).

Lemma find_cid_cands view key kp whole zeof maxs rb : forall cands,
  Forall (cand_ok view maxs) cands ->
  find_cid view (map fst cands) key kp whole zeof maxs rb =
  match find (fun x => carries whole key kp (snd x)) cands with
  | Some x => Ok (found_of rb x)
  | None => Err ENotFound
  end.
Proof.
  induction cands as [|[off [c d]] cands IH]; intros Hok; [reflexivity|].
  pose proof (Forall_inv Hok) as H0. pose proof (Forall_inv_tail Hok) as Hok'.
  destruct H0 as [(pre & rest & Hv & Hoff) (maxcid & Hb)]. cbn [fst snd] in *.
  cbn [map fst find_cid find snd].
  assert (Hd : drop off view = enc_section c d ++ rest).
  { rewrite Hv, <- Hoff. apply drop_app. }
  rewrite Hd.
  pose proof (rblock_block_ok _ _ _ Hb) as Hbo.
  destruct Hb as (p & Hp & Hc & Hw & Hmc & Hms & H63). cbn [fst snd] in *.
  assert (Hcp : cid_parse c = Some p) by (rewrite Hc; apply cid_parse_enc; exact Hp).
  unfold carries at 1. cbn [fst]. rewrite Hcp.
  destruct rb.
  - destruct (read_node_section zeof maxs c d rest Hbo) as (p' & Hp' & Hr).
    rewrite Hr. rewrite Hcp in Hp'. inversion Hp'; subst p'.
    destruct (key_matches whole key kp c p) eqn:Ek.
    + reflexivity.
    + apply IH. exact Hok'.
  - assert (Hcap : blen (c_digest p) <= max_digest_alloc) by (unfold max_width, max_digest_alloc in *; lia).
    destruct (stream_section c d p rest Hp Hc Hcap H63) as [Hr Hcr].
    unfold raw_uv. rewrite Hr. replace (maxs <? blen c + blen d) with false by lia. rewrite Hcr.
    destruct (key_matches whole key kp c p) eqn:Ek.
    + unfold found_of. cbn [fst snd]. f_equal. f_equal. lia.
    + apply IH. exact Hok'.
Qed.

(* the bytes GetStream's SectionReader shows for a found section *)
Lemma sec_at_data view off c d :
  sec_at view off (c, d) -> blen c + blen d < two63 ->
  take (blen d) (drop (off + uv_size (blen c + blen d) + blen c) view) = d.
Proof.
  intros (pre & rest & Hv & Hoff) H63. cbn [fst snd] in Hv.
  replace (off + uv_size (blen c + blen d) + blen c) with (blen (pre ++ put_uv (blen c + blen d) ++ c))
    by (rewrite !blen_app, blen_put_uv; lia).
  rewrite Hv. unfold enc_section.
  replace (pre ++ (put_uv (blen c + blen d) ++ c ++ d) ++ rest)
    with ((pre ++ put_uv (blen c + blen d) ++ c) ++ d ++ rest) by (rewrite <- !app_assoc; reflexivity).
  rewrite drop_app. apply take_app.
Qed.

(* ---- the CARv2 container ------------------------------------------------------------------------ *)
Lemma blen_le_enc8 n : blen (le_enc 8 n) = 8.
Proof. unfold blen. rewrite le_enc_length. reflexivity. Qed.
Lemma le8_roundtrip n rest : n < two64 -> le_dec (take 8 (le_enc 8 n ++ rest)) = n.
Proof.
  intros H. rewrite <- (blen_le_enc8 n) at 1. rewrite take_app. apply le_dec_enc.
  change (256 ^ N.of_nat 8) with two64. exact H.
Qed.
Lemma blen_enc_v2hdr h : blen (enc_v2hdr h) = 40.
Proof. unfold enc_v2hdr. rewrite !blen_app, !blen_le_enc8. reflexivity. Qed.

Lemma read_v2hdr_enc h rest :
  h_hi h < two64 -> h_lo h < two64 -> 51 <= h_doff h < two63 -> 0 < h_dsize h < two63 -> h_ioff h < two63 ->
  read_v2hdr (enc_v2hdr h ++ rest) = Ok (h, rest).
Proof.
  intros Hhi Hlo Hd Hs Hi. unfold read_v2hdr.
  assert (Hl : blen (enc_v2hdr h ++ rest) = 40 + blen rest) by (rewrite blen_app, blen_enc_v2hdr; reflexivity).
  replace (blen (enc_v2hdr h ++ rest) <? 16) with false by lia.
  replace (blen (enc_v2hdr h ++ rest) <? 40) with false by lia.
  assert (E40 : drop 40 (enc_v2hdr h ++ rest) = rest) by (rewrite <- (blen_enc_v2hdr h); apply drop_app).
  rewrite E40.
  unfold enc_v2hdr. rewrite <- !app_assoc.
  set (t4 := le_enc 8 (h_ioff h) ++ rest).
  set (t3 := le_enc 8 (h_dsize h) ++ t4).
  set (t2 := le_enc 8 (h_doff h) ++ t3).
  set (t1 := le_enc 8 (h_lo h) ++ t2).
  assert (D8 : drop 8 (le_enc 8 (h_hi h) ++ t1) = t1) by (rewrite <- (blen_le_enc8 (h_hi h)) at 1; apply drop_app).
  assert (D16 : drop 16 (le_enc 8 (h_hi h) ++ t1) = t2).
  { replace 16 with (8 + 8) by lia. rewrite <- drop_drop, D8. unfold t1.
    rewrite <- (blen_le_enc8 (h_lo h)) at 1. apply drop_app. }
  assert (D24 : drop 24 (le_enc 8 (h_hi h) ++ t1) = t3).
  { replace 24 with (16 + 8) by lia. rewrite <- drop_drop, D16. unfold t2.
    rewrite <- (blen_le_enc8 (h_doff h)) at 1. apply drop_app. }
  assert (D32 : drop 32 (le_enc 8 (h_hi h) ++ t1) = t4).
  { replace 32 with (24 + 8) by lia. rewrite <- drop_drop, D24. unfold t3.
    rewrite <- (blen_le_enc8 (h_dsize h)) at 1. apply drop_app. }
  rewrite D8, D16, D24, D32. unfold t1, t2, t3, t4.
  rewrite !le8_roundtrip by (unfold two63, two64 in *; lia).
  unfold as_int64.
  replace (h_doff h <? two63) with true by lia.
  replace (h_dsize h <? two63) with true by lia.
  replace (h_ioff h <? two63) with true by lia.
  replace (Z.of_N (h_doff h) <? 51)%Z with false by lia.
  replace (Z.of_N (h_dsize h) <=? 0)%Z with false by lia.
  replace (Z.of_N (h_ioff h) <? 0)%Z with false by lia.
  destruct h; reflexivity.
Qed.

Lemma blen_pragma : blen pragma = 11.
Proof. reflexivity. Qed.
Lemma pragma_ld : pragma = ld pragma_body.
Proof. reflexivity. Qed.

Section Container.
  Variable hdrdec : bytes -> option (list bytes * N).
  Hypothesis hdr_pragma : hdrdec pragma_body = Some ([], 2).

  Variables (chi clo dpad ipad : N) (payload : bytes) (ib : option bytes).
  Variables (file : bytes) (ioff : N) (h : v2hdr).
  Hypothesis Hfile : file = v2_file chi clo dpad ipad payload ib.
  Hypothesis Hioff : ioff = match ib with Some _ => 51 + dpad + blen payload + ipad | None => 0 end.
  Hypothesis Hh : h = mkv2 chi clo (51 + dpad) (blen payload) ioff.
  Lemma v2_file_split :
    file = (pragma ++ enc_v2hdr h ++ zerosN dpad) ++ payload ++ zerosN ipad ++ match ib with Some x => x | None => [] end.
  Proof. rewrite Hfile, Hh, Hioff. unfold v2_file. rewrite <- !app_assoc. reflexivity. Qed.

  Lemma v2_file_len :
    blen file = 51 + dpad + blen payload + ipad + match ib with Some x => blen x | None => 0 end.
  Proof.
    rewrite v2_file_split, !blen_app, blen_pragma, blen_enc_v2hdr, !blen_zerosN.
    destruct ib; [lia|rewrite blen_nil; lia].
  Qed.

  Hypothesis Hchi : chi < two64.
  Hypothesis Hclo : clo < two64.
  Hypothesis Hpay : 0 < blen payload.
  Hypothesis Hlen : blen file < two63.


  Lemma v2_read_version maxh : 10 <= maxh ->
    exists rest, read_header hdrdec maxh file = Ok ([], 2, rest, 11).
  Proof.
    intros Hm. rewrite Hfile. unfold v2_file. rewrite pragma_ld. eexists.
    unfold read_header. rewrite ld_read_ld.
    - rewrite hdr_pragma. reflexivity.
    - cbn. unfold two63. lia.
    - exact Hm.
    - discriminate.
  Qed.

  Lemma v2_new_reader maxh : 10 <= maxh -> new_reader hdrdec maxh file = Ok (mkrd 2 h file).
  Proof.
    intros Hm. unfold new_reader. destruct (v2_read_version maxh Hm) as (rest & ->).
    cbn [N.eqb Pos.eqb].
    assert (E : take v2hdr_size (drop pragma_size file) = enc_v2hdr h).
    { rewrite v2_file_split, <- !app_assoc. unfold pragma_size. rewrite <- blen_pragma, drop_app.
      unfold v2hdr_size. rewrite <- (blen_enc_v2hdr h). apply take_app. }
    rewrite E. rewrite <- (app_nil_r (enc_v2hdr h)).
    pose proof v2_file_len as Hl.
    rewrite read_v2hdr_enc; [reflexivity| | | | | ]; rewrite Hh; cbn [h_hi h_lo h_doff h_dsize h_ioff]; try assumption; try lia.
    rewrite Hioff. destruct ib; lia.
  Qed.

  Lemma v2_data_window : data_window (mkrd 2 h file) = payload.
  Proof.
    unfold data_window. cbn [rd_ver rd_hdr rd_file N.eqb Pos.eqb].
    rewrite v2_file_split.
    assert (E1 : h_dsize h = blen payload) by (rewrite Hh; reflexivity).
    assert (E2 : h_doff h = 51 + dpad) by (rewrite Hh; reflexivity).
    rewrite E1, E2.
    replace (51 + dpad) with (blen (pragma ++ enc_v2hdr h ++ zerosN dpad))
      by (rewrite !blen_app, blen_pragma, blen_enc_v2hdr, blen_zerosN; lia).
    rewrite drop_app. apply take_app.
  Qed.

  Lemma v2_index_window : index_window (mkrd 2 h file) = ib.
  Proof.
    unfold index_window. cbn [rd_ver rd_hdr rd_file N.eqb Pos.eqb orb]. unfold has_index.
    rewrite v2_file_split.
    assert (E1 : h_ioff h = ioff) by (rewrite Hh; reflexivity).
    rewrite E1, Hioff. destruct ib as [x|]; [|reflexivity].
    replace (negb (negb (51 + dpad + blen payload + ipad =? 0))) with false by lia.
    f_equal.
    replace (51 + dpad + blen payload + ipad)
      with (blen ((pragma ++ enc_v2hdr h ++ zerosN dpad) ++ payload ++ zerosN ipad))
      by (rewrite !blen_app, blen_pragma, blen_enc_v2hdr, !blen_zerosN; lia).
    replace ((pragma ++ enc_v2hdr h ++ zerosN dpad) ++ payload ++ zerosN ipad ++ x)
      with (((pragma ++ enc_v2hdr h ++ zerosN dpad) ++ payload ++ zerosN ipad) ++ x)
      by (rewrite <- !app_assoc; reflexivity).
    apply drop_app.
  Qed.

  Lemma v2_window_base : window_base (mkrd 2 h file) = 51 + dpad.
  Proof. rewrite Hh. reflexivity. Qed.
End Container.
