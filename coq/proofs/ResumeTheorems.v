(* C12: the statements of props/C12.v, over whole sessions (open, segments cut by Discard+reopen /
   Finalize+reopen, trailing puts), derived from ResumeInv / ResumeReject / ResumeRoots. *)
From Coq Require Import Permutation.
From GoCar Require Import Bytes Varint Cid Header Frame V2Header Index Scan Store Crash.
From GoCarProofs Require Import BytesFacts VarintFacts CidFacts HeaderFacts ResumeFacts ResumeInv ResumeReject ResumeRoots.

Section Thm.
  Variable hdrdec : bytes -> option (list bytes * N).
  Variables (k : skind) (o : wopts) (nilroots : bool) (roots : list bytes).
  Let hdr := enc_header (roots_opt nilroots roots) 1.

  (* the hypotheses shared by all C12 statements, spelled out *)
  Hypothesis Hhdr : hdrdec hdr = Some (roots, 1).
  Hypothesis Hprag : exists r, hdrdec pragma_body = Some (r, 2).
  Hypothesis Hmaxh : blen hdr <= w_maxh o.
  Hypothesis Hcid : w_maxcid o <= max_digest_alloc.
  Hypothesis Hkind : match k with KStorage false => negb (w_v1 o) | _ => false end = false.

  Lemma mk_params : params_ok hdrdec o nilroots roots.
  Proof. constructor; assumption. Qed.

  (* every state a session reaches satisfies the layout invariant for some stored list *)
  Lemma reachable_inv segs last s0 sN :
    51 + w_dpad o + w_ipad o + ld_size (blen hdr) + blen (enc_sections (concat (map fst segs) ++ last)) < two63 ->
    open_new k o nilroots roots [] = Ok s0 ->
    run_segs hdrdec nilroots s0 segs = Some sN ->
    exists st, Inv k o nilroots roots (run_puts sN last) st.
  Proof.
    intros Hb Hopen Hrun. rewrite enc_sections_app, blen_app in Hb.
    assert (Hf0 : fits o nilroots roots []).
    { unfold fits. change (enc_sections []) with (@nil byte). rewrite blen_nil. fold hdr. unfold hsz, ResumeInv.hdr. fold hdr. lia. }
    rewrite (open_new_eq k o nilroots roots Hkind Hf0) in Hopen. injection Hopen as <-.
    pose proof (open_state_inv k o nilroots roots Hf0) as HI0.
    destruct (run_segs_inv hdrdec k o nilroots roots mk_params segs _ [] HI0) as (sN' & HsN & HIN).
    { unfold budget. change (enc_sections []) with (@nil byte). rewrite blen_nil. unfold hsz, ResumeInv.hdr. fold hdr. lia. }
    rewrite Hrun in HsN. injection HsN as <-.
    exists (abs_puts o nilroots roots (abs_puts o nilroots roots [] (concat (map fst segs))) last).
    apply (run_puts_inv hdrdec k o nilroots roots mk_params); [exact HIN|].
    pose proof (abs_puts_size o nilroots roots (concat (map fst segs)) []) as Hsz.
    change (enc_sections []) with (@nil byte) in Hsz. rewrite blen_nil in Hsz.
    unfold hsz, ResumeInv.hdr. fold hdr. lia.
  Qed.

  Theorem C12_transparent_thm segs last s0 :
    51 + w_dpad o + w_ipad o + ld_size (blen hdr) + blen (enc_sections (concat (map fst segs) ++ last)) < two63 ->
    open_new k o nilroots roots [] = Ok s0 ->
    exists sN, run_segs hdrdec nilroots s0 segs = Some sN /\
      ws_file (fst (fe_finalize (run_puts sN last))) =
      ws_file (fst (fe_finalize (run_puts s0 (concat (map fst segs) ++ last)))).
  Proof.
    intros Hb Hopen. apply (transparent hdrdec k o nilroots roots mk_params); [exact Hkind| |exact Hopen].
    unfold budget. change (enc_sections []) with (@nil byte). rewrite blen_nil. unfold hsz, ResumeInv.hdr. fold hdr. lia.
  Qed.

  (* ---- mismatching reopen of the file any reachable state leaves behind ------------------------ *)
  Section Mismatch.
    Variables (segs : list (list (bytes * bytes) * cut)) (last : list (bytes * bytes)) (c : cut).
    Variables (s0 sN : wstate).
    Hypothesis Hb : 51 + w_dpad o + w_ipad o + ld_size (blen hdr) + blen (enc_sections (concat (map fst segs) ++ last)) < two63.
    Hypothesis Hopen : open_new k o nilroots roots [] = Ok s0.
    Hypothesis Hrun : run_segs hdrdec nilroots s0 segs = Some sN.
    Let file := ws_file (end_seg c (run_puts sN last)).

    Theorem C12_reject_roots_thm roots' : ~ Permutation roots roots' ->
      reopen_refusal hdrdec o roots' file = Some RMismatch /\
      reopen hdrdec k o nilroots roots' file = inr (EOther, mkdev file [] []).
    Proof.
      intros HP. destruct (reachable_inv segs last s0 sN Hb Hopen Hrun) as (st & HI).
      unfold file. rewrite (end_seg_file k o nilroots roots _ _ c HI).
      apply (reject_roots hdrdec k o nilroots roots mk_params); [exact (inv_fits _ _ _ _ _ _ HI)|].
      apply header_matches_not_perm. exact HP.
    Qed.

    Theorem C12_reject_version_thm :
      reopen_refusal hdrdec (with_v1 o (negb (w_v1 o))) roots file = Some RVersion /\
      reopen hdrdec k (with_v1 o (negb (w_v1 o))) nilroots roots file = inr (EOther, mkdev file [] []).
    Proof.
      destruct (reachable_inv segs last s0 sN Hb Hopen Hrun) as (st & HI).
      unfold file. rewrite (end_seg_file k o nilroots roots _ _ c HI).
      apply (reject_version hdrdec k o nilroots roots mk_params). exact (inv_fits _ _ _ _ _ _ HI).
    Qed.

    Theorem C12_reject_padding_thm p' :
      w_v1 o = false -> p' <> w_dpad o -> 51 + p' < two64 ->
      finalized_file file || negb (header_at hdrdec (with_dpad o p') roots file) = true ->
      reopen_refusal hdrdec (with_dpad o p') roots file
        = Some (padding_refusal hdrdec (with_dpad o p') roots file) /\
      reopen hdrdec k (with_dpad o p') nilroots roots file
        = inr (refusal_err (padding_refusal hdrdec (with_dpad o p') roots file), mkdev file [] []).
    Proof.
      intros Ev Hp H64. destruct (reachable_inv segs last s0 sN Hb Hopen Hrun) as (st & HI).
      unfold file. rewrite (end_seg_file k o nilroots roots _ _ c HI).
      apply (reject_padding hdrdec k o nilroots roots mk_params); try assumption.
      exact (inv_fits _ _ _ _ _ _ HI).
    Qed.
  End Mismatch.
End Thm.

(* the canonical-shape header decoder discharges the two decoder hypotheses on well-formed roots *)
Lemma canon_hdr_ok nilroots roots : roots_ok roots ->
  dec_header_canon (enc_header (roots_opt nilroots roots) 1) = Some (roots, 1) /\
  (exists r, dec_header_canon pragma_body = Some (r, 2)).
Proof.
  intros Hr. split; [|exists []; reflexivity].
  destruct roots as [|a t]; [destruct nilroots|]; cbn [roots_opt].
  - apply dec_header_enc_nil. unfold two64. lia.
  - apply dec_header_enc; [exact Hr|unfold two64; lia].
  - apply dec_header_enc; [exact Hr|unfold two64; lia].
Qed.

Theorem C12_transparent_canon_thm k o nilroots roots segs last s0 :
  roots_ok roots ->
  blen (enc_header (roots_opt nilroots roots) 1) <= w_maxh o ->
  w_maxcid o <= max_digest_alloc ->
  match k with KStorage false => negb (w_v1 o) | _ => false end = false ->
  51 + w_dpad o + w_ipad o + ld_size (blen (enc_header (roots_opt nilroots roots) 1))
    + blen (enc_sections (concat (map fst segs) ++ last)) < two63 ->
  open_new k o nilroots roots [] = Ok s0 ->
  exists sN, run_segs dec_header_canon nilroots s0 segs = Some sN /\
    ws_file (fst (fe_finalize (run_puts sN last))) =
    ws_file (fst (fe_finalize (run_puts s0 (concat (map fst segs) ++ last)))).
Proof.
  intros Hr H1 H3 H4 H5 H6. destruct (canon_hdr_ok nilroots roots Hr) as [Ha Hb].
  exact (C12_transparent_thm dec_header_canon k o nilroots roots Ha Hb H1 H3 H4 segs last s0 H5 H6).
Qed.
